/-
Model of `pie/src/context/bottom_up.rs`: `BottomUpContext` and its dependency-ordered `Queue`.
`BottomUpContext::executing` is never populated by the Rust code (dead code), so the
"already executing" tests are constantly false and are omitted.
-/
import PieModel.Build.Session

namespace PieModel

variable (sem : Sem) (body : Nat → Prog)

/-! ### `Queue` -/

/-- `Queue::add` -/
def queueAdd (q : List Nat) (n : Nat) : List Nat := if n ∈ q then q else q ++ [n]

/-- `Queue::sort_by_dependencies`: ascending topological rank. -/
def queueSort (st : Store) (q : List Nat) : List Nat := isortBy (fun n => st.g.topoOf n) q

/-- `Queue::pop`: sort, take the last element (greatest rank). -/
def queuePop (st : Store) (q : List Nat) : Option (Nat × List Nat) :=
  let v := queueSort st q
  match v.getLast? with
  | none => none
  | some n => some (n, v.dropLast)

/-- `Vec::swap_remove` -/
def swapRemove (v : List Nat) (i : Nat) : List Nat :=
  match v.getLast? with
  | none => v
  | some l => if i + 1 = v.length then v.dropLast else (v.set i l).dropLast

/-- index of the last element satisfying `p` -/
def findLastIdx (p : Nat → Bool) (v : List Nat) : Option Nat :=
  (v.zipIdx.reverse.find? (fun x => p x.1)).map (·.2)

/-- `Queue::pop_least_task_with_dependency_from` -/
def queuePopLeastFrom (st : Store) (q : List Nat) (src : Nat) : Option (Nat × List Nat) :=
  let v := queueSort st q
  match findLastIdx (fun dst => src == dst || st.containsTransitive src dst) v with
  | none => none
  | some i => match v[i]? with
    | some n => some (n, swapRemove v i)
    | none => none

/-! ### scheduling -/

/-- `try_schedule_task_by_resource_dependency` for one `(task node, Read/Write dependency)`. -/
def trySchedule (s : Sess) (tnode : Nat) (d : Dep) : Sess :=
  match d, s.store.taskOf tnode with
  | .read r c stamp, some t | .write r c stamp, some t =>
    let s := s.emit (.checkReadStart t c stamp)
    let res := checkResDep sem s r c stamp
    let s := s.emit (.checkReadEnd t c stamp res)
    match res with
    | .ok true => s
    | .ok false => { (s.emit (.scheduleTask t)) with queue := queueAdd s.queue tnode }
    | .error e =>
      let s := { s with errors := s.errors ++ [e] }
      { (s.emit (.scheduleTask t)) with queue := queueAdd s.queue tnode }
  | _, _ => s

/-- `BottomUpContext::schedule_tasks_affected_by` -/
def scheduleAffectedBy (s : Sess) (r : Nat) : Sess :=
  let s := s.emit (.schedResStart r)
  let (st, node) := s.store.getOrCreateResNode r
  let s := { s with store := st }
  let s := (st.readWriteDepsTo node).foldl (fun s (p : Nat × Dep) => trySchedule sem s p.1 p.2) s
  s.emit (.schedResEnd r)

/-- The scheduling part of `execute_and_schedule` after task `node` (task `t`) produced `out`. -/
def scheduleAfterExec (s : Sess) (node t : Nat) (out : Int) : Sess :=
  -- tasks affected by the resources `node` wrote
  let s := (s.store.resourcesWrittenBy node).foldl (fun s w =>
      match s.store.resOf w with
      | none => s
      | some r =>
        let s := s.emit (.schedResStart r)
        let s := (s.store.readDepsTo w).foldl (fun s (p : Nat × Dep) => trySchedule sem s p.1 p.2) s
        s.emit (.schedResEnd r)) s
  -- tasks affected by the output of `node`
  let s := s.emit (.schedTaskStart t)
  let s := (s.store.requireDepsTo node).foldl (fun s (p : Nat × Dep) =>
      match p.2, s.store.taskOf p.1 with
      | .require _ c stamp, some requiring =>
        let s := s.emit (.checkReqStart requiring c stamp)
        let ok := sem.ocheck c out stamp
        let s := s.emit (.checkReqEnd requiring c stamp ok)
        if ok then s else { (s.emit (.scheduleTask requiring)) with queue := queueAdd s.queue p.1 }
      | _, _ => s) s
  let s := s.emit (.schedTaskEnd t)
  s.markConsistent node

mutual

/-- `Context::require` of `BottomUpContext` -/
def buRequire : Nat → Sess → Nat → Nat → Sess × Res Int
  | 0, s, _, _ => (s, .abort .outOfFuel)
  | f + 1, s, t, c =>
    let s := s.emit (.requireStart t c)
    let (st, dst) := s.store.getOrCreateTaskNode t
    let s := { s with store := st }
    match reserveRequire s dst with
    | (s, .abort a) => (s, .abort a)
    | (s, .ok ()) =>
      match buMake f s t dst with
      | (s, .abort a) => (s, .abort a)
      | (s, .ok out) =>
        let stamp := sem.ostamp c out
        let s := s.emit (.requireEnd t c stamp out)
        match updateRequire s dst t c stamp with
        | (s, .abort a) => (s, .abort a)
        | (s, .ok ()) => (s.markConsistent dst, .ok out)

/-- `BottomUpContext::make_task_consistent` -/
def buMake : Nat → Sess → Nat → Nat → Sess × Res Int
  | 0, s, _, _ => (s, .abort .outOfFuel)
  | f + 1, s, t, node =>
    if node ∈ s.consistent then
      match s.store.taskOutput node with
      | some o => (s, .ok o)
      | none => (s, .abort (.bug 20))
    else match s.store.taskOutput node with
      | none => buExec f s t node                      -- new task: execute
      | some _ =>
        match buRequireNow f s node with
        | (s, .abort a) => (s, .abort a)
        | (s, .ok (some o)) => (s, .ok o)
        | (s, .ok none) =>
          match s.store.taskOutput node with
          | some o => (s, .ok o)
          | none => (s, .abort (.bug 21))

/-- `BottomUpContext::execute` / `execute_obj` -/
def buExec : Nat → Sess → Nat → Nat → Sess × Res Int
  | 0, s, _, _ => (s, .abort .outOfFuel)
  | f + 1, s, t, node =>
    let s := { s with store := s.store.resetTask node }
    let prev := s.cur
    let s := { s with cur := some node }
    let s := s.emit (.executeStart t)
    match buRun f s (body t) with
    | (s, .abort a) => (s, .abort a)
    | (s, .ok o) =>
      let s := s.emit (.executeEnd t o)
      let s := { s with cur := prev }
      ({ s with store := s.store.setTaskOutput node o }, .ok o)

/-- `BottomUpContext::execute_and_schedule` -/
def buExecAndSchedule : Nat → Sess → Nat → Sess × Res Int
  | 0, s, _ => (s, .abort .outOfFuel)
  | f + 1, s, node =>
    match s.store.taskOf node with
    | none => (s, .abort (.bug 22))
    | some t =>
      match buExec f s t node with
      | (s, .abort a) => (s, .abort a)
      | (s, .ok o) => (scheduleAfterExec sem s node t o, .ok o)

/-- `BottomUpContext::require_scheduled_now` -/
def buRequireNow : Nat → Sess → Nat → Sess × Res (Option Int)
  | 0, s, _ => (s, .abort .outOfFuel)
  | f + 1, s, src =>
    if s.queue.isEmpty then (s, .ok none)
    else match queuePopLeastFrom s.store s.queue src with
      | none => (s, .ok none)
      | some (m, q) =>
        match buExecAndSchedule f { s with queue := q } m with
        | (s, .abort a) => (s, .abort a)
        | (s, .ok o) => if m = src then (s, .ok (some o)) else buRequireNow f s src

/-- `Task::execute` with a `BottomUpContext`. -/
def buRun : Nat → Sess → Prog → Sess × Res Int
  | 0, s, _ => (s, .abort .outOfFuel)
  | _ + 1, s, .ret v => (s, .ok v)
  | _ + 1, s, .panic => (s, .abort .taskPanic)
  | f + 1, s, .req t c k =>
    match buRequire f s t c with
    | (s, .abort a) => (s, .abort a)
    | (s, .ok out) => buRun f s (k out)
  | f + 1, s, .read r c k =>
    match doRead sem s r c with
    | (s, .abort a) => (s, .abort a)
    | (s, .ok x) => buRun f s (k x)
  | f + 1, s, .write r c v k =>
    match doWrite sem s r c v with
    | (s, .abort a) => (s, .abort a)
    | (s, .ok x) => buRun f s (k x)
  | f + 1, s, .wrote r c v k =>
    match doWrote sem s r c v with
    | (s, .abort a) => (s, .abort a)
    | (s, .ok x) => buRun f s (k x)

end

/-- `BottomUpContext::execute_scheduled` -/
def buExecuteScheduled : Nat → Sess → Sess × Res Unit
  | 0, s => (s, .abort .outOfFuel)
  | f + 1, s =>
    match queuePop s.store s.queue with
    | none => (s, .ok ())
    | some (n, q) =>
      match buExecAndSchedule sem body f { s with queue := q } n with
      | (s, .abort a) => (s, .abort a)
      | (s, .ok _) => buExecuteScheduled f s

/-- `BottomUpBuild::update_affected_tasks` -/
def updateAffectedTasks (fuel : Nat) (s : Sess) : Sess × Res Unit :=
  let s := { s with cur := none }
  let s := s.emit .buildStart
  match buExecuteScheduled sem body fuel s with
  | (s, .abort a) => (s, .abort a)
  | (s, .ok ()) => (s.emit .buildEnd, .ok ())

end PieModel
