/-
The scripted task language of the correspondence harness and its compilation to `Prog`.
The Rust harness interprets the same scripts against the real `Context`
(`/verif/harness/src/build.rs`); `compile` is the model's reading of a script.

A `req`/`read` binds a new variable to what the *checker observes* of the value (`oproj`/
`rproj`), so scripted programs depend only on what their checkers observe.
-/
import PieModel.Build.Syntax

namespace PieModel

inductive Expr
  | const (n : Int)
  | var (i : Nat)
  | add (a b : Expr) | sub (a b : Expr) | mul (a b : Expr)
  | lt (a b : Expr) | eq (a b : Expr)
  | mod2 (a : Expr)
  | isNone (i : Nat)
deriving Repr

inductive Script
  | ret (e : Expr)
  | panic
  | req (t c : Nat) (k : Script)
  | read (r c : Nat) (k : Script)
  | write (r c : Nat) (e : Option Expr) (k : Script)
  | wrote (r c : Nat) (e : Option Expr) (k : Script)
  | ite (e : Expr) (a b : Script)
deriving Repr

abbrev Env := List (Option Int)

def Expr.eval (env : Env) : Expr → Int
  | .const n => n
  | .var i => (env.getD i none).getD 0
  | .add a b => a.eval env + b.eval env
  | .sub a b => a.eval env - b.eval env
  | .mul a b => a.eval env * b.eval env
  | .lt a b => if a.eval env < b.eval env then 1 else 0
  | .eq a b => if a.eval env = b.eval env then 1 else 0
  | .mod2 a => (a.eval env) % 2
  | .isNone i => if (env.getD i none).isNone then 1 else 0

/-- What the continuation of a `require` with output checker `c` gets to see of the output. -/
def oproj (c : Nat) (out : Int) : Option Int :=
  match c with
  | 0 => some out                                   -- EqualsChecker
  | 1 => if out ≥ 0 then some out else none         -- OkEqualsChecker
  | 2 => if out < 0 then some out else none         -- ErrEqualsChecker
  | 3 => some (if out < 0 then 1 else 0)            -- ResultChecker
  | 5 => some (out % 2)                             -- ParityOut (harness checker)
  | _ => none                                       -- AlwaysConsistent (4)

/-- What the continuation of a `read` with resource checker `c` gets to see of the content. -/
def rproj (c : Nat) (v : Option Int) : Option Int :=
  match c with
  | 1 => v.map (· % 2)                              -- ParityRes
  | 2 => v.map (fun _ => 0)                         -- ExistsRes
  | 3 => none                                       -- AlwaysRes
  | _ => v                                          -- MapEqualsChecker (0), FailWhen, FailStampWhen

/-- A checker error returned to the task makes the scripted task return `-(100 + code)`. -/
def errOut (e : Int) : Int := -(100 + e)

def compile (env : Env) : Script → Prog
  | .ret e => .ret (e.eval env)
  | .panic => .panic
  | .req t c k => .req t c (fun out => compile (env ++ [oproj c out]) k)
  | .read r c k => .read r c (fun x => match x with
      | .ok v => compile (env ++ [rproj c v]) k
      | .error e => .ret (errOut e))
  | .write r c e k => .write r c (e.map (·.eval env)) (fun x => match x with
      | .ok () => compile env k
      | .error e => .ret (errOut e))
  | .wrote r c e k => .wrote r c (e.map (·.eval env)) (fun x => match x with
      | .ok () => compile env k
      | .error e => .ret (errOut e))
  | .ite e a b => if e.eval env ≠ 0 then compile env a else compile env b

/-- Program table: scripts by task id; an unknown task returns 0. -/
def bodyOf (tbl : List (Nat × Script)) (t : Nat) : Prog :=
  match tbl.find? (·.1 == t) with
  | some (_, sc) => compile [] sc
  | none => .ret 0

end PieModel
