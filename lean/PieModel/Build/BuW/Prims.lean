/-
The session primitives under the weak invariant `WInv` (no assumption on `consistent`):
`getOrCreate…`, `reserveRequire`, `updateRequire`, `doRead`, `doWrite`, `doWrote`, as `PStep`s
with their exact effect on the ordered outgoing edges of the executing task and on the resources.
(Generalisations of the lemmas of `Build/SoundW/Prims.lean`, which need the session invariant
`SInvWD`.)
-/
import PieModel.Build.BuW.Defs

namespace PieModel

variable {ro : Roles} {sem : Sem} {body : Nat → Prog}

/-! ### node creation -/

theorem WInv.getTask {s s' : Sess} (h : WInv ro sem body s) (t : Nat)
    (hst : s'.store = (s.store.getOrCreateTaskNode t).1) (hfs : s'.fs = s.fs)
    (hcur : s'.cur = s.cur) (hcons : s'.consistent = s.consistent) (hq : s'.queue = s.queue) :
    PStep ro sem body s s' ∧ ∀ x, Same s s' x := by
  have ho : ∀ x, s'.store.taskOutput x = s.store.taskOutput x := fun x => by
    rw [hst, Store.taskOutput_getOrCreateTaskNode h.wf.store]
  have he : ∀ x, s'.store.g.outgoingEdges x = s.store.g.outgoingEdges x := fun x => by
    rw [hst, Store.outgoingEdges_getOrCreateTaskNode h.wf.store]
  exact ⟨h.pstep (hst ▸ h.wf.store.getOrCreateTaskNode t) (hst ▸ h.roles.getOrCreateTaskNode t)
    (hst ▸ Store.le_getOrCreateTaskNode h.wf.store t) hcur hcons hq (hfs ▸ h.nodup) ho
    (fun x _ => he x), fun x => ⟨ho x, he x⟩⟩

theorem WInv.getRes {s s' : Sess} (h : WInv ro sem body s) (r : Nat)
    (hst : s'.store = (s.store.getOrCreateResNode r).1) (hfs : s'.fs = s.fs)
    (hcur : s'.cur = s.cur) (hcons : s'.consistent = s.consistent) (hq : s'.queue = s.queue) :
    PStep ro sem body s s' ∧ ∀ x, Same s s' x := by
  have ho : ∀ x, s'.store.taskOutput x = s.store.taskOutput x := fun x => by
    rw [hst, Store.taskOutput_getOrCreateResNode h.wf.store]
  have he : ∀ x, s'.store.g.outgoingEdges x = s.store.g.outgoingEdges x := fun x => by
    rw [hst, Store.outgoingEdges_getOrCreateResNode h.wf.store]
  exact ⟨h.pstep (hst ▸ h.wf.store.getOrCreateResNode r) (hst ▸ h.roles.getOrCreateResNode r)
    (hst ▸ Store.le_getOrCreateResNode h.wf.store r) hcur hcons hq (hfs ▸ h.nodup) ho
    (fun x _ => he x), fun x => ⟨ho x, he x⟩⟩

/-! ### edges of the executing task -/

theorem WInv.addDep {s s' : Sess} (h : WInv ro sem body s) {n dst : Nat} {d : Dep}
    (hc : s.cur = some n) (hd : s.store.DepOK d dst)
    (hro : RolesInv ro (s.store.addDependency n dst d).1)
    (hst : s'.store = (s.store.addDependency n dst d).1) (hfs : s'.fs = s.fs)
    (hcur : s'.cur = s.cur) (hcons : s'.consistent = s.consistent) (hq : s'.queue = s.queue) :
    PStep ro sem body s s' := by
  refine h.pstep (hst ▸ h.wf.store.addDependency (h.wf.cur n hc) hd) (hst ▸ hro)
    (hst ▸ Store.le_addDependency h.wf.store _ _ _) hcur hcons hq (hfs ▸ h.nodup)
    (fun x => by rw [hst, Store.taskOutput_addDependency h.wf.store]) ?_
  intro x hx
  rw [hst, Store.outgoingEdges_addDependency_of_ne h.wf.store _ _ _
    (fun hxn => hx (by rw [hxn]; exact hc))]

theorem WInv.setDep {s s' : Sess} (h : WInv ro sem body s) {n dst t c : Nat}
    {stamp : Stamp} (hc : s.cur = some n) (hd : s.store.taskOf dst = some t)
    (hst : s.store.setDependency n dst (.require t c stamp) = some s'.store) (hfs : s'.fs = s.fs)
    (hcur : s'.cur = s.cur) (hcons : s'.consistent = s.consistent) (hq : s'.queue = s.queue) :
    PStep ro sem body s s' := by
  refine h.pstep (Store.WF.setDependency hst h.wf.store (by simpa using hd))
    (h.roles.setDependency hst hd) (Store.le_setDependency hst) hcur hcons hq (hfs ▸ h.nodup)
    (fun x => Store.taskOutput_setDependency hst x) ?_
  intro x hx
  exact Store.outgoingEdges_setDependency_of_ne hst (fun hxn => hx (by rw [hxn]; exact hc))

/-! ### `reserveRequire` / `updateRequire` -/

theorem reserveRequire_w {s : Sess} (h : WInv ro sem body s) {mu t : Nat}
    (hd : s.store.taskOf mu = some t) (hpre : ReqPre ro s t) {s' : Sess} {res : Res Unit}
    (heq : reserveRequire s mu = (s', res)) :
    PStep ro sem body s s' ∧ s'.fs = s.fs ∧
    (res = .ok () → ∀ n, s.cur = some n → s'.store.g.HasEdge n mu ∧
      (((∃ d0, (mu, d0) ∈ s.store.g.outgoingEdges n) ∧
          s'.store.g.outgoingEdges n = s.store.g.outgoingEdges n) ∨
       ((∀ d0, (mu, d0) ∉ s.store.g.outgoingEdges n) ∧
          s'.store.g.outgoingEdges n = s.store.g.outgoingEdges n ++ [(mu, .reserved)]))) := by
  rcases Option.eq_none_or_eq_some s.cur with hc | ⟨n, hc⟩
  · rw [reserveRequire_none hc] at heq
    obtain ⟨rfl, rfl⟩ := Prod.mk.inj heq
    exact ⟨PStep.refl h, rfl, fun _ n hn => by rw [hc] at hn; cases hn⟩
  · obtain ⟨h1, h2⟩ := reserveRequire_some hc mu
    rw [heq] at h1 h2
    simp only at h1 h2
    subst h1
    obtain ⟨t0, ht0, hlt⟩ := hpre n hc
    have hro : RolesInv ro (s.store.addDependency n mu .reserved).1 :=
      h.roles.addDependency ht0 (d := .reserved) ⟨t, hd⟩
        (fun u hu => by rw [hd] at hu; cases hu; exact hlt)
        (fun _ _ _ hh => nomatch hh) (fun _ _ _ _ hh => nomatch hh)
    have st := h.addDep (s' := { s with store := (s.store.addDependency n mu .reserved).1 })
      (d := .reserved) hc ⟨t, hd⟩ hro rfl rfl rfl rfl rfl
    refine ⟨st, rfl, ?_⟩
    intro hres n' hn'
    rw [hc] at hn'; cases hn'
    have hv := h2.mp hres
    rcases Store.addDependency_ok_cases h.wf.store n mu .reserved hv with ⟨h3, h4⟩ | ⟨h3, h4⟩
    · refine ⟨?_, .inl ⟨h3, ?_⟩⟩
      · show (s.store.addDependency n mu .reserved).1.g.HasEdge n mu
        rw [h4]; exact (Store.hasEdge_iff_mem_oe h.wf.store _ _).mpr h3
      · show (s.store.addDependency n mu .reserved).1.g.outgoingEdges n = _
        rw [h4]
    · refine ⟨?_, .inr ⟨h3, h4⟩⟩
      show (s.store.addDependency n mu .reserved).1.g.HasEdge n mu
      rw [Store.hasEdge_iff_mem_oe st.inv.wf.store]
      exact ⟨.reserved, by
        show _ ∈ (s.store.addDependency n mu .reserved).1.g.outgoingEdges n; rw [h4]; simp⟩

theorem updateRequire_w {s : Sess} (h : WInv ro sem body s) {mu u : Nat}
    (hd : s.store.taskOf mu = some u) (c : Nat) (stamp : Stamp) {s' : Sess} {res : Res Unit}
    (heq : updateRequire s mu u c stamp = (s', res)) :
    PStep ro sem body s s' ∧ s'.fs = s.fs ∧
    (res = .ok () → ∀ n, s.cur = some n → s'.store.g.outgoingEdges n =
      (s.store.g.outgoingEdges n).map (fun p => if p.1 = mu then (p.1, .require u c stamp) else p)) := by
  rcases Option.eq_none_or_eq_some s.cur with hc | ⟨n, hc⟩
  · rw [updateRequire_none hc] at heq
    obtain ⟨rfl, rfl⟩ := Prod.mk.inj heq
    exact ⟨PStep.refl h, rfl, fun _ n hn => by rw [hc] at hn; cases hn⟩
  · rw [updateRequire_some hc] at heq
    cases hsd : s.store.setDependency n mu (.require u c stamp) with
    | none =>
      rw [hsd] at heq
      obtain ⟨rfl, rfl⟩ := Prod.mk.inj heq
      exact ⟨PStep.refl h, rfl, fun hh => by cases hh⟩
    | some st' =>
      rw [hsd] at heq
      obtain ⟨rfl, rfl⟩ := Prod.mk.inj heq
      have st := h.setDep (s' := { s with store := st' }) hc hd hsd rfl rfl rfl rfl
      refine ⟨st, rfl, ?_⟩
      intro _ n' hn'
      rw [hc] at hn'; cases hn'
      show st'.g.outgoingEdges n = _
      rw [Store.outgoingEdges_setDependency hsd, if_pos rfl]

/-! ### `doRead` -/

/-- `doRead` inside a task whose accumulator is reflected in the store, of a resource whose
generator (if any) was required earlier: only the reading task's edges change; on `.ok` it
returns the content and the read dependency is recorded (first insertion wins). -/
theorem doRead_w (hst : StampTotal sem) {s : Sess} (h : WInv ro sem body s)
    {n t0 : Nat} (hc : s.cur = some n) (ht : s.store.taskOf n = some t0) {a : Acc}
    (ha : AccOK s.store n a) (r c : Nat) (hreq : ∀ w, ro.gen r = some w → w ∈ a.req)
    {s' : Sess} {res : Res (Except Int (Option Int))} (hF : doRead sem s r c = (s', res)) :
    PStep ro sem body s s' ∧ s'.fs = s.fs ∧ AccOK s'.store n a ∧
    ∀ x, res = .ok x → x = .ok (aget s.fs r) ∧ ∃ dst stamp,
      sem.rstamp c (aget s.fs r) = .ok stamp ∧ s'.store.resOf dst = some r ∧
      (((∃ d0, (dst, d0) ∈ s.store.g.outgoingEdges n) ∧
          s'.store.g.outgoingEdges n = s.store.g.outgoingEdges n) ∨
       ((∀ d0, (dst, d0) ∉ s.store.g.outgoingEdges n) ∧
          s'.store.g.outgoingEdges n = s.store.g.outgoingEdges n ++ [(dst, .read r c stamp)])) := by
  have hacc : AccOK s'.store n a := by
    have := (doRead_roles (ro := ro) sem h.wf h.roles hc ht ha r c hreq 0).2
    rwa [hF] at this
  have hn : s.store.getOrCreateResNode r =
    ((s.store.getOrCreateResNode r).1, (s.store.getOrCreateResNode r).2) := rfl
  generalize hst' : (s.store.getOrCreateResNode r).1 = st at hn
  generalize hdst : (s.store.getOrCreateResNode r).2 = dst at hn
  rw [doRead_eq sem s r c n st dst hc hn] at hF
  have hcont : s.content r = aget s.fs r := rfl
  obtain ⟨hb, hbs⟩ := h.getRes (s' := { s with store := st }) r hst'.symm rfl rfl rfl rfl
  have hres : st.resOf dst = some r := by
    rw [← hst', ← hdst]; exact Store.resOf_getOrCreateResNode_self h.wf.store r
  by_cases hh : readHidden st n dst = true
  · rw [if_pos hh] at hF
    obtain ⟨rfl, rfl⟩ := Prod.mk.inj hF
    obtain ⟨hb', _⟩ := h.getRes
      (s' := { s with store := st, trace := s.trace ++ [.readStart r c] }) r hst'.symm rfl rfl rfl
      rfl
    exact ⟨hb', rfl, hacc, fun a ha => by cases ha⟩
  · rw [if_neg hh] at hF
    obtain ⟨stamp, hs⟩ := hst c (s.content r)
    rw [hs] at hF
    simp only at hF
    have ht1 : st.taskOf n = some t0 := hb.le.task _ _ ht
    have hv := Store.addDependency_to_res_ok hb.inv.wf.store n dst (.read r c stamp) ht1 hres
    have ha1 : AccOK st n a := by
      rw [← hst']
      exact ha.of_eq (Store.le_getOrCreateResNode h.wf.store r)
        (Store.getEdgeData_getOrCreateResNode h.wf.store r n)
    have hro2 := (read_addDependency (ro := ro) hb.inv.roles (cur := n) (dst := dst) ht1 hres ha1
      hreq c stamp 0).1
    cases hvv : st.addDependency n dst (.read r c stamp) with
    | mk st' v =>
      rw [hvv] at hF hv
      simp only at hv; subst hv
      simp only at hF
      obtain ⟨rfl, rfl⟩ := Prod.mk.inj hF
      have hst'' : st' = (st.addDependency n dst (.read r c stamp)).1 := by rw [hvv]
      have ha' := hb.inv.addDep (s := { s with store := st })
        (s' := { s with store := st',
                        trace := s.trace ++ [.readStart r c, .readEnd r c stamp] })
        (n := n) (dst := dst) (d := .read r c stamp) hc (by simpa using hres) hro2 hst'' rfl rfl
        rfl rfl
      refine ⟨hb.trans ha', rfl, hacc, ?_⟩
      intro a ha''
      cases ha''
      refine ⟨by rw [hcont], dst, stamp, by rw [← hcont]; exact hs, ?_, ?_⟩
      · show st'.resOf dst = some r
        rw [hst'', Store.resOf_addDependency hb.inv.wf.store]; exact hres
      · have hoe : st.g.outgoingEdges n = s.store.g.outgoingEdges n := (hbs n).2
        have hvok : (st.addDependency n dst (.read r c stamp)).2 = .ok := by rw [hvv]
        rcases Store.addDependency_ok_cases hb.inv.wf.store n dst (.read r c stamp) hvok with
          ⟨h1, h2⟩ | ⟨h1, h2⟩
        · left
          rw [← hoe]
          refine ⟨h1, ?_⟩
          show st'.g.outgoingEdges n = _
          rw [hst'', h2]
        · right
          rw [← hoe]
          refine ⟨h1, ?_⟩
          show st'.g.outgoingEdges n = _
          rw [hst'', h2]

/-! ### `doWrite`, `doWrote` -/

/-- The common part of `doWrite`/`doWrote`: from `s` to a state whose store is `s.store` after
node creation and the new write edge, whose resources are those of `s.setContent r v`. -/
theorem writeStep_w {s s' : Sess} (h : WInv ro sem body s) {n t0 : Nat}
    (hc : s.cur = some n) (ht : s.store.taskOf n = some t0) {a : Acc} (ha : AccOK s.store n a)
    (r c : Nat) (v : Option Int) (stamp : Stamp) (hg : ro.gen r = some t0) (hnw : r ∉ a.wr)
    {st : Store} {dst : Nat} (hgn : s.store.getOrCreateResNode r = (st, dst))
    (hst : s'.store = (st.addDependency n dst (.write r c stamp)).1)
    (hfs : s'.fs = (s.setContent r v).fs) (hcur : s'.cur = s.cur)
    (hcons : s'.consistent = s.consistent) (hq : s'.queue = s.queue) :
    PStep ro sem body s s' ∧
    aget s'.fs r = v ∧ (∀ r', r' ≠ r → aget s'.fs r' = aget s.fs r') ∧
    s'.store.resOf dst = some r ∧
    (∀ d0, (dst, d0) ∉ s.store.g.outgoingEdges n) ∧
    s'.store.g.outgoingEdges n = s.store.g.outgoingEdges n ++ [(dst, .write r c stamp)] := by
  have hw := h.wf.store
  have hst1 : (s.store.getOrCreateResNode r).1 = st := by rw [hgn]
  have hdst : (s.store.getOrCreateResNode r).2 = dst := by rw [hgn]
  have hw1 : st.WF := hst1 ▸ hw.getOrCreateResNode r
  have hle1 : s.store.Le st := hst1 ▸ Store.le_getOrCreateResNode hw r
  have hi1 : RolesInv ro st := hst1 ▸ h.roles.getOrCreateResNode r
  have hres : st.resOf dst = some r := by
    rw [← hst1, ← hdst]; exact Store.resOf_getOrCreateResNode_self hw r
  have ht1 : st.taskOf n = some t0 := hle1.task _ _ ht
  have hed1 : ∀ a b, st.g.getEdgeData a b = s.store.g.getEdgeData a b := by
    intro a b; rw [← hst1]; exact Store.getEdgeData_getOrCreateResNode hw r a b
  have ha1 : AccOK st n a := ha.of_eq hle1 (hed1 n)
  have hoe1 : ∀ x, st.g.outgoingEdges x = s.store.g.outgoingEdges x := by
    intro x; rw [← hst1]; exact Store.outgoingEdges_getOrCreateResNode hw r x
  have hout1 : ∀ x, st.taskOutput x = s.store.taskOutput x := by
    intro x; rw [← hst1]; exact Store.taskOutput_getOrCreateResNode hw r x
  have hnone := no_edge_to_generated hi1 ht1 hres ha1 hg hnw
  have hvok := Store.addDependency_to_res_ok hw1 n dst (.write r c stamp) ht1 hres
  have hi2 := (write_addDependency (ro := ro) hi1 ht1 hres ha1 hg c stamp 0).1
  have hle2 := Store.le_addDependency hw1 n dst (.write r c stamp)
  have hnoe : ∀ d0, (dst, d0) ∉ st.g.outgoingEdges n := by
    intro d0 hm
    rw [Dag.mem_outgoingEdges hw1.gwf, hnone] at hm; cases hm
  have hoe2 : s'.store.g.outgoingEdges n = st.g.outgoingEdges n ++ [(dst, .write r c stamp)] := by
    rcases Store.addDependency_ok_cases hw1 n dst (.write r c stamp) hvok with ⟨⟨d0, h1⟩, _⟩ | ⟨_, h2⟩
    · exact absurd h1 (hnoe d0)
    · rw [hst, h2]
  have ho : ∀ x, s'.store.taskOutput x = s.store.taskOutput x := fun x => by
    rw [hst, Store.taskOutput_addDependency hw1, hout1]
  have hw2 : s'.store.WF := hst ▸ hw1.addDependency ⟨t0, ht1⟩ (by simpa using hres)
  have hle : s.store.Le s'.store := hst ▸ hle1.trans hle2
  have hcontr : aget s'.fs r = v := by
    rw [hfs]; exact SessL.content_setContent s h.nodup r v
  have hconto : ∀ r', r' ≠ r → aget s'.fs r' = aget s.fs r' := by
    intro r' hr'
    rw [hfs]; exact SessL.content_setContent_ne s r r' (Ne.symm hr') v
  refine ⟨h.pstep hw2 (hst ▸ hi2) hle hcur hcons hq (hfs ▸ SessL.setContent_nodup s h.nodup r v) ho
    ?_, hcontr, hconto, ?_, ?_, ?_⟩
  · intro x hx
    rw [hst, Store.outgoingEdges_addDependency_of_ne hw1 _ _ _
      (fun hxn => hx (by rw [hxn]; exact hc)), hoe1]
  · rw [hst, Store.resOf_addDependency hw1]; exact hres
  · intro d0; rw [← hoe1]; exact hnoe d0
  · rw [hoe2, hoe1]

/-- A state reached by node creation and a change of the resources only. -/
theorem WInv.getRes_fs {s s' : Sess} (h : WInv ro sem body s) (r : Nat)
    (hst : s'.store = (s.store.getOrCreateResNode r).1) (hnd : (akeys s'.fs).Nodup)
    (hcur : s'.cur = s.cur) (hcons : s'.consistent = s.consistent) (hq : s'.queue = s.queue) :
    PStep ro sem body s s' := by
  have ho : ∀ x, s'.store.taskOutput x = s.store.taskOutput x := fun x => by
    rw [hst, Store.taskOutput_getOrCreateResNode h.wf.store]
  have he : ∀ x, s'.store.g.outgoingEdges x = s.store.g.outgoingEdges x := fun x => by
    rw [hst, Store.outgoingEdges_getOrCreateResNode h.wf.store]
  exact h.pstep (hst ▸ h.wf.store.getOrCreateResNode r) (hst ▸ h.roles.getOrCreateResNode r)
    (hst ▸ Store.le_getOrCreateResNode h.wf.store r) hcur hcons hq hnd ho (fun x _ => he x)

/-- `doWrite` by the generator of `r`, first write of `r` in this execution: on return the
content is `v`, other resources are untouched, and a new write dependency with the stamp of `v`
is appended to the task's edges. -/
theorem doWrite_w (hst : StampTotal sem) {s : Sess} (h : WInv ro sem body s)
    {n t0 : Nat} (hc : s.cur = some n) (ht : s.store.taskOf n = some t0) {a : Acc}
    (ha : AccOK s.store n a) (r c : Nat) (v : Option Int) (hg : ro.gen r = some t0)
    (hnw : r ∉ a.wr) {s' : Sess} {res : Res (Except Int Unit)}
    (hF : doWrite sem s r c v = (s', res)) :
    PStep ro sem body s s' ∧ (∀ r', r' ≠ r → aget s'.fs r' = aget s.fs r') ∧
    ∀ x, res = .ok x → x = .ok () ∧
      AccOK s'.store n { a with wr := r :: a.wr } ∧ aget s'.fs r = v ∧
      ∃ dst stamp, sem.rstamp c v = .ok stamp ∧ s'.store.resOf dst = some r ∧
        (∀ d0, (dst, d0) ∉ s.store.g.outgoingEdges n) ∧
        s'.store.g.outgoingEdges n = s.store.g.outgoingEdges n ++ [(dst, .write r c stamp)] := by
  have hacc : AccOK s'.store n { a with wr := r :: a.wr } := by
    have := (doWrite_roles (ro := ro) sem h.wf h.roles hc ht ha r c v hg hnw 0).2
    rwa [hF] at this
  obtain ⟨st0, dst, hn⟩ : ∃ st0 dst, s.store.getOrCreateResNode r = (st0, dst) := ⟨_, _, rfl⟩
  have hst0 : (s.store.getOrCreateResNode r).1 = st0 := by rw [hn]
  rw [doWrite_eq sem s r c n v st0 dst hc hn] at hF
  simp only at hF
  have hcont : (({ s with store := st0, trace := s.trace ++ [.writeStart r c] } : Sess).setContent
      r v).content r = v := by
    rw [SessL.content_congr _ _ (SessL.setContent_fs_with s _ _ r v) r]
    exact SessL.content_setContent s h.nodup r v
  rw [hcont] at hF
  split at hF
  · obtain ⟨rfl, rfl⟩ := Prod.mk.inj hF
    exact ⟨h.getRes_fs r hst0.symm h.nodup rfl rfl rfl, fun _ _ => rfl, fun x hx => by cases hx⟩
  · obtain ⟨stamp, hs⟩ := hst c v
    rw [hs] at hF
    simp only at hF
    have hfso : ∀ r', r' ≠ r → aget (s.setContent r v).fs r' = aget s.fs r' :=
      fun r' hr' => SessL.content_setContent_ne s r r' (Ne.symm hr') v
    split at hF
    · obtain ⟨rfl, rfl⟩ := Prod.mk.inj hF
      refine ⟨h.getRes_fs r (by simpa using hst0.symm) ?_ (by simp) (by simp) (by simp), ?_,
        fun x hx => by cases hx⟩
      · simp only [Sess.fs_emit, SessL.setContent_fs_with]
        exact SessL.setContent_nodup s h.nodup r v
      · intro r' hr'
        simp only [Sess.fs_emit, SessL.setContent_fs_with]
        exact hfso r' hr'
    · rename_i st' x hx heq
      obtain ⟨rfl, rfl⟩ := Prod.mk.inj hF
      have hst'' : st' = (st0.addDependency n dst (.write r c stamp)).1 := by rw [heq]
      obtain ⟨st, h1, h2, h3, h4, h5⟩ := writeStep_w h hc ht ha r c v stamp hg hnw hn
        (s' := { ((({ s with store := st0, trace := s.trace ++ [.writeStart r c] } :
                Sess).setContent r v).emit (.writeEnd r c stamp)) with store := st' })
        hst'' (by simp [SessL.setContent_fs_with]) (by simp) (by simp) (by simp)
      exact ⟨st, h2, fun x hx => by
        cases hx
        exact ⟨rfl, hacc, h1, dst, stamp, hs, h3, h4, h5⟩⟩

theorem doWrote_w (hst : StampTotal sem) {s : Sess} (h : WInv ro sem body s)
    {n t0 : Nat} (hc : s.cur = some n) (ht : s.store.taskOf n = some t0) {a : Acc}
    (ha : AccOK s.store n a) (r c : Nat) (v : Option Int) (hg : ro.gen r = some t0)
    (hnw : r ∉ a.wr) {s' : Sess} {res : Res (Except Int Unit)}
    (hF : doWrote sem s r c v = (s', res)) :
    PStep ro sem body s s' ∧ (∀ r', r' ≠ r → aget s'.fs r' = aget s.fs r') ∧
    ∀ x, res = .ok x → x = .ok () ∧
      AccOK s'.store n { a with wr := r :: a.wr } ∧ aget s'.fs r = v ∧
      ∃ dst stamp, sem.rstamp c v = .ok stamp ∧ s'.store.resOf dst = some r ∧
        (∀ d0, (dst, d0) ∉ s.store.g.outgoingEdges n) ∧
        s'.store.g.outgoingEdges n = s.store.g.outgoingEdges n ++ [(dst, .write r c stamp)] := by
  have hacc : AccOK s'.store n { a with wr := r :: a.wr } := by
    have := (doWrote_roles (ro := ro) sem h.wf h.roles hc ht ha r c v hg hnw 0).2
    rwa [hF] at this
  obtain ⟨st0, dst, hn⟩ : ∃ st0 dst, s.store.getOrCreateResNode r = (st0, dst) := ⟨_, _, rfl⟩
  have hst0 : (s.store.getOrCreateResNode r).1 = st0 := by rw [hn]
  rw [doWrote_eq sem s r c n v st0 dst hc hn] at hF
  simp only at hF
  have hcont : (s.setContent r v).content r = v := SessL.content_setContent s h.nodup r v
  rw [hcont] at hF
  have hfso : ∀ r', r' ≠ r → aget (s.setContent r v).fs r' = aget s.fs r' :=
    fun r' hr' => SessL.content_setContent_ne s r r' (Ne.symm hr') v
  have hndv : (akeys (s.setContent r v).fs).Nodup := SessL.setContent_nodup s h.nodup r v
  split at hF
  · obtain ⟨rfl, rfl⟩ := Prod.mk.inj hF
    exact ⟨h.getRes_fs r (by simpa using hst0.symm) (by simpa using hndv) (by simp) (by simp)
      (by simp), fun r' hr' => by simpa using hfso r' hr', fun x hx => by cases hx⟩
  · obtain ⟨stamp, hs⟩ := hst c v
    rw [hs] at hF
    simp only at hF
    split at hF
    · obtain ⟨rfl, rfl⟩ := Prod.mk.inj hF
      exact ⟨h.getRes_fs r (by simpa using hst0.symm) (by simpa using hndv) (by simp) (by simp)
        (by simp), fun r' hr' => by simpa using hfso r' hr', fun x hx => by cases hx⟩
    · rename_i st' x hx heq
      obtain ⟨rfl, rfl⟩ := Prod.mk.inj hF
      have hst'' : st' = (st0.addDependency n dst (.write r c stamp)).1 := by rw [heq]
      obtain ⟨st, h1, h2, h3, h4, h5⟩ := writeStep_w h hc ht ha r c v stamp hg hnw hn
        (s' := { (({ (s.setContent r v) with
                      store := st0, trace := s.trace ++ [.writeStart r c] } : Sess).emit
                  (.writeEnd r c stamp)) with store := st' })
        hst'' (by simp) (by simp) (by simp) (by simp)
      exact ⟨st, h2, fun x hx => by
        cases hx
        exact ⟨rfl, hacc, h1, dst, stamp, hs, h3, h4, h5⟩⟩

/-! ### start and end of an execution -/

/-- Start of the execution of `node`: it is reset and becomes the executing task. -/
theorem WInv.startExec {s : Sess} (h : WInv ro sem body s) {node t : Nat}
    (ht : s.store.taskOf node = some t) (e : Ev) :
    WInv ro sem body (({ s with store := s.store.resetTask node, cur := some node } : Sess).emit e) ∧
    (∀ x, x ≠ node →
      Same s (({ s with store := s.store.resetTask node, cur := some node } : Sess).emit e) x) ∧
    (s.store.resetTask node).g.outgoingEdges node = [] ∧
    (s.store.resetTask node).taskOutput node = none := by
  have hw := h.wf.store
  have hout : ∀ n, n ≠ node → (s.store.resetTask node).taskOutput n = s.store.taskOutput n :=
    fun n hn => by rw [Store.taskOutput_resetTask hw, if_neg hn]
  have hon : (s.store.resetTask node).taskOutput node = none := by
    rw [Store.taskOutput_resetTask hw, if_pos rfl]
  have hedge : ∀ n, n ≠ node →
      (s.store.resetTask node).g.outgoingEdges n = s.store.g.outgoingEdges n :=
    fun n hn => by rw [Store.outgoingEdges_resetTask hw, if_neg hn]
  refine ⟨⟨((h.wf.startExec ht).wf).emit e, h.roles.resetTask node, ?_, h.nodup, ?_⟩,
    fun x hx => ⟨hout x hx, hedge x hx⟩,
    by rw [Store.outgoingEdges_resetTask hw, if_pos rfl], hon⟩
  · intro n t' v ht' hv
    have hv' : (s.store.resetTask node).taskOutput n = some v := hv
    have hne : n ≠ node := fun hnn => by rw [hnn, hon] at hv'; cases hv'
    rw [hout n hne] at hv'
    have ht'' : (s.store.resetTask node).taskOf n = some t' := ht'
    rw [Store.taskOf_resetTask hw] at ht''
    show ReplayO sem (body t') [] ((s.store.resetTask node).depsFrom n) v
    rw [Store.depsFrom_resetTask hw, if_neg hne]
    exact h.faithful n t' v ht'' hv'
  · intro n hn
    have : n = node := (Option.some.inj hn).symm
    subst this; exact hon

/-- End of the execution of `node` whose record replays its body to `o`. -/
theorem WInv.endExec {s s' : Sess} (h : WInv ro sem body s) {node t : Nat} {o : Int}
    (ht : s.store.taskOf node = some t)
    (hrep : ReplayO sem (body t) [] (s.store.depsFrom node) o)
    (h1 : s'.store = s.store.setTaskOutput node o) (h5 : s'.fs = s.fs) (hwf : SessWF s')
    (hprev : ∀ c, s'.cur = some c → c ≠ node ∧ s.store.taskOutput c = none) :
    WInv ro sem body s' ∧ (∀ x, x ≠ node → Same s s' x) ∧
      s'.store.taskOutput node = some o ∧
      s'.store.g.outgoingEdges node = s.store.g.outgoingEdges node := by
  have hoe : ∀ n, s'.store.g.outgoingEdges n = s.store.g.outgoingEdges n := fun n => by
    rw [h1]; simp
  have hto : ∀ n, n ≠ node → s'.store.taskOutput n = s.store.taskOutput n :=
    fun n hn => by rw [h1, Store.taskOutput_setTaskOutput_of_ne hn]
  have hon : s'.store.taskOutput node = some o := by
    rw [h1]; exact Store.taskOutput_setTaskOutput_self ht o
  refine ⟨⟨hwf, h1 ▸ h.roles.setTaskOutput node o, ?_, h5 ▸ h.nodup, ?_⟩,
    fun x hx => ⟨hto x hx, hoe x⟩, hon, hoe node⟩
  · intro n t' v ht' hv
    have ht'' : s.store.taskOf n = some t' := by rw [h1] at ht'; simpa using ht'
    have hdn : s'.store.depsFrom n = s.store.depsFrom n := (Store.outgoing_obs_congr (hoe n)).1
    rw [hdn]
    by_cases hn : n = node
    · subst hn
      rw [ht] at ht''; cases ht''
      rw [hon] at hv; cases hv
      exact hrep
    · rw [hto n hn] at hv
      exact h.faithful n t' v ht'' hv
  · intro n hn
    obtain ⟨h2, h3⟩ := hprev n hn
    rw [hto n h2]; exact h3

end PieModel
