/-
Bottom-up builds with reflexive checkers: the successor step of `buRun`.
-/
import PieModel.Build.BuW.Induct

namespace PieModel

variable {ro : Roles} {sem : Sem} {body : Nat → Prog}

theorem RunKeys.not_reserved {qt qr : List (Nat × Nat)} {L : List (Nat × Dep)}
    (h : RunKeys qt qr L) : ∀ p ∈ L, p.2 ≠ .reserved := by
  intro p hp hr
  have := h p hp
  rw [hr] at this; exact this

theorem RunKeys.mono {qt qr qt' qr' : List (Nat × Nat)} {L : List (Nat × Dep)}
    (h : RunKeys qt qr L) (ht : ∀ x ∈ qt, x ∈ qt') (hr : ∀ x ∈ qr, x ∈ qr') :
    RunKeys qt' qr' L := by
  intro p hp
  have := h p hp
  obtain ⟨dst, d⟩ := p
  cases d with
  | reserved => exact this
  | require u c st => exact ht _ this
  | read r c st => exact hr _ this
  | write r c st => trivial

theorem RunKeys.append {qt qr : List (Nat × Nat)} {L : List (Nat × Dep)} {p : Nat × Dep}
    (h : RunKeys qt qr L) (hp : RunKey qt qr p.2) : RunKeys qt qr (L ++ [p]) := by
  intro q hq
  rcases List.mem_append.mp hq with hq | hq
  · exact h q hq
  · simp only [List.mem_singleton] at hq; subst hq; exact hp

section
variable (hst : StampTotal sem) (hwf : WellFormedBody ro body)
include hst hwf

theorem BuR.run_succ {f : Nat} (ih : BuR ro sem body f) (s : Sess) (ch₀ : List Nat) (a ta : Nat)
    (X : List Nat) (p : Prog) (acc : Acc) (qt qr : List (Nat × Nat))
    (h : BI ro sem body s (ch₀ ++ [a]) X []) (hX : ∀ x ∈ X, x ∈ ch₀ ++ [a])
    (hta : s.store.taskOf a = some ta) (hsr : StaticRolesFrom ro ta acc p)
    (ha : AccOK s.store a acc) (hone : OneCk qt qr p)
    (hkeys : RunKeys qt qr (s.store.g.outgoingEdges a)) :
    BOut sem body (buRun sem body (f + 1) s p) (fun s' v =>
      BI ro sem body s' (ch₀ ++ [a]) X [] ∧ BMono ro (ro.rank ta) s s' ∧
      (∀ p ∈ s'.store.g.outgoingEdges a, p.2 ≠ .reserved) ∧
      ∃ new, s'.store.depsFrom a = s.store.depsFrom a ++ new ∧
        ReplayO sem p (s.store.depsFrom a) new v) := by
  have hw := h.sw
  have hca := h.cur_top
  cases p with
  | ret v =>
    unfold buRun
    exact .ret h.base.faithful ⟨h, BMono.refl _ _, hkeys.not_reserved, [], by simp, rfl, rfl⟩
  | panic => unfold buRun; exact .abort h.base.faithful
  | req u c k =>
    unfold buRun
    obtain ⟨hlt, hk⟩ := hsr
    obtain ⟨ho1, ho2⟩ := hone
    have hpre : ReqPre ro s u := fun cur hc' => by
      have : cur = a := Option.some.inj (hc'.symm.trans hca)
      subst this; exact ⟨ta, hta, hlt⟩
    have hex : ∀ d0, (nodeOf s u, d0) ∈ s.store.g.outgoingEdges a → ∃ st, d0 = .require u c st := by
      intro d0 hd0
      have hok := (hw.mem_outgoingEdges_ok hd0).2
      have hkey := hkeys _ hd0
      have hle := Store.le_getOrCreateTaskNode hw u
      have hself : (s.store.getOrCreateTaskNode u).1.taskOf (nodeOf s u) = some u :=
        Store.taskOf_getOrCreateTaskNode_self hw u
      cases d0 with
      | reserved => exact hkey.elim
      | require u' c' st =>
        have h1 := hle.task _ _ hok
        rw [hself] at h1; cases h1
        have := ho1 c' hkey
        subst this
        exact ⟨st, rfl⟩
      | read r' c' st =>
        have h1 := hle.res _ _ hok
        rw [Store.resOf_eq_none_of_taskOf hself] at h1; cases h1
      | write r' c' st =>
        have h1 := hle.res _ _ hok
        rw [Store.resOf_eq_none_of_taskOf hself] at h1; cases h1
    have IH := ih.require s ch₀ a ta X u c h hX hta hlt hkeys.not_reserved hex
    have hacc := ((buRoles (sem := sem) hwf f).require s u c h.wf h.base.roles hpre).2
    split
    next s1 a' heq => exact .abort (IH.faithful_of heq)
    next s1 out heq =>
      obtain ⟨hbi1, hm1, htask, hout, hcons, hedges⟩ := IH.ok s1 out heq
      have ha1 : AccOK s1.store a { acc with req := u :: acc.req } := by
        have := hacc a acc out hca (by rw [heq]) ha
        rwa [heq] at this
      have hkeys1 : RunKeys ((u, c) :: qt) qr (s1.store.g.outgoingEdges a) := by
        have hk0 : RunKeys ((u, c) :: qt) qr (s.store.g.outgoingEdges a) :=
          hkeys.mono (fun x hx => List.mem_cons_of_mem _ hx) (fun x hx => hx)
        rcases hedges with ⟨_, he⟩ | ⟨_, he⟩
        · rw [he]; exact hk0
        · rw [he]; exact hk0.append List.mem_cons_self
      have IH2 := ih.run s1 ch₀ a ta X (k out) _ ((u, c) :: qt) qr hbi1 hX
        (hm1.le.task _ _ hta) (hk out) ha1 (ho2 out) hkeys1
      refine IH2.mono ?_
      rintro s' v ⟨hbi', hm', hnr', new, hnew, hrep'⟩
      refine ⟨hbi', hm1.trans hm', hnr', ?_⟩
      rcases hedges with ⟨hmem, he⟩ | ⟨_, he⟩
      · have hd1 : s1.store.depsFrom a = s.store.depsFrom a := by
          simpa using depsFrom_of_oe (new := []) (by simpa using he)
        refine ⟨new, by rw [hnew, hd1], .inl ⟨sem.ostamp c out, ?_, out, rfl, by rw [← hd1]; exact hrep'⟩⟩
        exact (Store.mem_depsFrom_iff (st := s.store)).mpr ⟨_, hmem⟩
      · have hd1 := depsFrom_of_oe he
        simp only [List.map_cons, List.map_nil] at hd1
        exact ⟨.require u c (sem.ostamp c out) :: new, by rw [hnew, hd1]; simp,
          .inr ⟨sem.ostamp c out, new, rfl, out, rfl, by rw [← hd1]; exact hrep'⟩⟩
  | read r c k =>
    unfold buRun
    obtain ⟨hng, hreq, hk⟩ := hsr
    obtain ⟨ho1, ho2⟩ := hone
    split
    next s1 a' heq => exact .abort (doRead_w hst h.base hca hta ha r c hreq heq).1.inv.faithful
    next s1 x heq =>
      obtain ⟨p1, f1, ha1, e1⟩ := doRead_w hst h.base hca hta ha r c hreq heq
      obtain ⟨rfl, dst, stamp, hstamp, hresof, halt⟩ := e1 x rfl
      -- the generator of `r` was required before, hence is consistent
      have hgen : GenCons ro s1 (s1.consistent ++ []) r := by
        intro w hg
        obtain ⟨nu, dep, h1, h2⟩ := ha.req w (hreq w hg)
        have hmem : (nu, dep) ∈ s.store.g.outgoingEdges a :=
          (Dag.mem_outgoingEdges hw.gwf _ _ _).mpr h2
        have hcur := h.st a (by simp) _ hmem
        have hkey := hkeys _ hmem
        have hok := (hw.mem_outgoingEdges_ok hmem).2
        refine ⟨nu, p1.le.task _ _ h1, ?_⟩
        rw [p1.cons]
        cases dep with
        | reserved => exact hkey.elim
        | require u' c' st => exact hcur.1
        | read r' c' st =>
          have : s.store.resOf nu = some r' := hok
          rw [Store.resOf_eq_none_of_taskOf h1] at this; cases this
        | write r' c' st =>
          have : s.store.resOf nu = some r' := hok
          rw [Store.resOf_eq_none_of_taskOf h1] at this; cases this
      have hbi1 : BI ro sem body s1 (ch₀ ++ [a]) X [] := by
        refine h.stepTop hta p1 (fun r' _ => by rw [f1]) (fun _ _ r' _ _ _ => by rw [f1]) ?_
        intro q hq
        rcases halt with ⟨_, he⟩ | ⟨_, he⟩
        · rw [he] at hq; exact .inl hq
        · rw [he] at hq
          rcases List.mem_append.mp hq with hq | hq
          · exact .inl hq
          · simp only [List.mem_singleton] at hq; subst hq
            exact .inr ⟨by rw [f1]; exact hstamp, hgen⟩
      -- an existing edge to the resource is the same read dependency
      have hexist : ∀ d0, (dst, d0) ∈ s.store.g.outgoingEdges a → d0 = .read r c stamp := by
        intro d0 hd0
        have hok := (hw.mem_outgoingEdges_ok hd0).2
        have hkey := hkeys _ hd0
        have hcur := h.st a (by simp) _ hd0
        cases d0 with
        | reserved => exact hkey.elim
        | write r' c' st0 =>
          have h1 : s1.store.resOf dst = some r' := p1.le.res _ _ hok
          rw [hresof] at h1; cases h1
          exact absurd (h.base.roles.write a dst r c' st0 ta
            ((Dag.mem_outgoingEdges hw.gwf _ _ _).mp hd0) hta) hng
        | require u' c' st0 =>
          have h1 : s1.store.taskOf dst = some u' := p1.le.task _ _ hok
          rw [Store.taskOf_eq_none_of_resOf hresof] at h1; cases h1
        | read r' c' st0 =>
          have h1 : s1.store.resOf dst = some r' := p1.le.res _ _ hok
          rw [hresof] at h1; cases h1
          have hcc := ho1 c' hkey
          subst hcc
          have h2 : sem.rstamp c' (aget s.fs r) = .ok st0 := hcur.1
          rw [hstamp] at h2; cases h2
          rfl
      have hkeys1 : RunKeys qt ((r, c) :: qr) (s1.store.g.outgoingEdges a) := by
        have hk0 : RunKeys qt ((r, c) :: qr) (s.store.g.outgoingEdges a) :=
          hkeys.mono (fun x hx => hx) (fun x hx => List.mem_cons_of_mem _ hx)
        rcases halt with ⟨_, he⟩ | ⟨_, he⟩
        · rw [he]; exact hk0
        · rw [he]; exact hk0.append List.mem_cons_self
      have hm1 : BMono ro (ro.rank ta) s s1 :=
        BMono.of_pstep p1 hca hta (Nat.le_refl _) h.top_not_cons
      have IH2 := ih.run s1 ch₀ a ta X (k (.ok (aget s.fs r))) acc qt ((r, c) :: qr) hbi1 hX
        (p1.le.task _ _ hta) (hk _) ha1 (ho2 _) hkeys1
      refine IH2.mono ?_
      rintro s' v ⟨hbi', hm', hnr', new, hnew, hrep'⟩
      refine ⟨hbi', hm1.trans hm', hnr', ?_⟩
      rcases halt with ⟨⟨d0, hd0⟩, he⟩ | ⟨_, he⟩
      · have hd1 : s1.store.depsFrom a = s.store.depsFrom a := by
          simpa using depsFrom_of_oe (new := []) (by simpa using he)
        refine ⟨new, by rw [hnew, hd1],
          .inl ⟨stamp, ?_, aget s.fs r, hstamp, by rw [← hd1]; exact hrep'⟩⟩
        rw [← hexist d0 hd0]
        exact (Store.mem_depsFrom_iff (st := s.store)).mpr ⟨_, hd0⟩
      · have hd1 := depsFrom_of_oe he
        simp only [List.map_cons, List.map_nil] at hd1
        exact ⟨.read r c stamp :: new, by rw [hnew, hd1]; simp,
          .inr ⟨stamp, new, rfl, aget s.fs r, hstamp, by rw [← hd1]; exact hrep'⟩⟩
  | write r c v k =>
    unfold buRun
    obtain ⟨hg, hnw, hk⟩ := hsr
    obtain ⟨_, ho2⟩ := hone
    split
    next s1 a' heq => exact .abort (doWrite_w hst h.base hca hta ha r c v hg hnw heq).1.inv.faithful
    next s1 x heq =>
      obtain ⟨p1, f1, e1⟩ := doWrite_w hst h.base hca hta ha r c v hg hnw heq
      obtain ⟨rfl, ha1, hcv, dst, stamp, hstamp, hresof, hno, happ⟩ := e1 x rfl
      have hbi1 : BI ro sem body s1 (ch₀ ++ [a]) X [] := by
        refine h.stepTop hta p1 ?_ ?_ ?_
        · intro r' hr'
          exact f1 r' (fun hh => hr' (hh ▸ hg))
        · intro q hq r' c' st' hq2
          obtain ⟨dq, d⟩ := q
          simp only at hq2; subst hq2
          have := ha.wr dq r' c' st' ((Dag.mem_outgoingEdges hw.gwf _ _ _).mp hq)
          exact f1 r' (fun hh => hnw (hh ▸ this))
        · intro q hq
          rw [happ] at hq
          rcases List.mem_append.mp hq with hq | hq
          · exact .inl hq
          · simp only [List.mem_singleton] at hq; subst hq
            refine .inr ?_
            show sem.rstamp c (aget s1.fs r) = .ok stamp
            rw [hcv]; exact hstamp
      have hkeys1 : RunKeys qt ((r, c) :: qr) (s1.store.g.outgoingEdges a) := by
        rw [happ]
        exact (hkeys.mono (fun x hx => hx) (fun x hx => List.mem_cons_of_mem _ hx)).append trivial
      have hm1 : BMono ro (ro.rank ta) s s1 :=
        BMono.of_pstep p1 hca hta (Nat.le_refl _) h.top_not_cons
      have IH2 := ih.run s1 ch₀ a ta X (k (.ok ())) _ qt ((r, c) :: qr) hbi1 hX
        (p1.le.task _ _ hta) (hk _) ha1 (ho2 _) hkeys1
      refine IH2.mono ?_
      rintro s' v' ⟨hbi', hm', hnr', new, hnew, hrep'⟩
      refine ⟨hbi', hm1.trans hm', hnr', ?_⟩
      have hd1 := depsFrom_of_oe happ
      simp only [List.map_cons, List.map_nil] at hd1
      exact ⟨.write r c stamp :: new, by rw [hnew, hd1]; simp,
        stamp, new, rfl, hstamp, by rw [← hd1]; exact hrep'⟩
  | wrote r c v k =>
    unfold buRun
    obtain ⟨hg, hnw, hk⟩ := hsr
    obtain ⟨_, ho2⟩ := hone
    split
    next s1 a' heq => exact .abort (doWrote_w hst h.base hca hta ha r c v hg hnw heq).1.inv.faithful
    next s1 x heq =>
      obtain ⟨p1, f1, e1⟩ := doWrote_w hst h.base hca hta ha r c v hg hnw heq
      obtain ⟨rfl, ha1, hcv, dst, stamp, hstamp, hresof, hno, happ⟩ := e1 x rfl
      have hbi1 : BI ro sem body s1 (ch₀ ++ [a]) X [] := by
        refine h.stepTop hta p1 ?_ ?_ ?_
        · intro r' hr'
          exact f1 r' (fun hh => hr' (hh ▸ hg))
        · intro q hq r' c' st' hq2
          obtain ⟨dq, d⟩ := q
          simp only at hq2; subst hq2
          have := ha.wr dq r' c' st' ((Dag.mem_outgoingEdges hw.gwf _ _ _).mp hq)
          exact f1 r' (fun hh => hnw (hh ▸ this))
        · intro q hq
          rw [happ] at hq
          rcases List.mem_append.mp hq with hq | hq
          · exact .inl hq
          · simp only [List.mem_singleton] at hq; subst hq
            refine .inr ?_
            show sem.rstamp c (aget s1.fs r) = .ok stamp
            rw [hcv]; exact hstamp
      have hkeys1 : RunKeys qt ((r, c) :: qr) (s1.store.g.outgoingEdges a) := by
        rw [happ]
        exact (hkeys.mono (fun x hx => hx) (fun x hx => List.mem_cons_of_mem _ hx)).append trivial
      have hm1 : BMono ro (ro.rank ta) s s1 :=
        BMono.of_pstep p1 hca hta (Nat.le_refl _) h.top_not_cons
      have IH2 := ih.run s1 ch₀ a ta X (k (.ok ())) _ qt ((r, c) :: qr) hbi1 hX
        (p1.le.task _ _ hta) (hk _) ha1 (ho2 _) hkeys1
      refine IH2.mono ?_
      rintro s' v' ⟨hbi', hm', hnr', new, hnew, hrep'⟩
      refine ⟨hbi', hm1.trans hm', hnr', ?_⟩
      have hd1 := depsFrom_of_oe happ
      simp only [List.map_cons, List.map_nil] at hd1
      exact ⟨.write r c stamp :: new, by rw [hnew, hd1]; simp,
        stamp, new, rfl, hstamp, by rw [← hd1]; exact hrep'⟩

end

end PieModel
