/-
Bottom-up builds with reflexive checkers: the scheduling functions.

* which nodes `scheduleAfterExec` adds to the queue: only nodes with a `require` edge to the
  executed task whose stamp is REJECTED against the new output, or with a read edge to a resource
  written by it whose stamp is rejected against the current content;
* with reflexive checkers no consistent and no executing node is added (`BI.sched`).
-/
import PieModel.Build.BuW.Steps
import PieModel.Build.Closure.Initial

namespace PieModel

variable {ro : Roles} {sem : Sem} {body : Nat → Prog}

/-! ### the folds -/

/-- The fold of `trySchedule`: what is added to the queue was rejected. -/
theorem trySchedR_fold (L : List (Nat × Dep)) : ∀ s : Sess,
    (∀ p ∈ L, ∃ t, s.store.taskOf p.1 = some t) → s.queue.Nodup →
    SameCore s (L.foldl (fun s (p : Nat × Dep) => trySchedule sem s p.1 p.2) s) ∧
    (L.foldl (fun s (p : Nat × Dep) => trySchedule sem s p.1 p.2) s).fs = s.fs ∧
    (L.foldl (fun s (p : Nat × Dep) => trySchedule sem s p.1 p.2) s).queue.Nodup ∧
    (∀ n ∈ s.queue, n ∈ (L.foldl (fun s (p : Nat × Dep) => trySchedule sem s p.1 p.2) s).queue) ∧
    (∀ n ∈ (L.foldl (fun s (p : Nat × Dep) => trySchedule sem s p.1 p.2) s).queue,
      n ∈ s.queue ∨ ∃ r c stamp, ((n, Dep.read r c stamp) ∈ L ∨ (n, Dep.write r c stamp) ∈ L) ∧
        sem.rcheck c (aget s.fs r) stamp ≠ .ok true) := by
  induction L with
  | nil =>
    intro s _ hnd
    exact ⟨SameCore.refl s, rfl, hnd, fun _ h => h, fun _ h => .inl h⟩
  | cons p L ih =>
    intro s ht hnd
    simp only [List.foldl_cons]
    obtain ⟨n, d⟩ := p
    obtain ⟨tn, htn⟩ := ht (n, d) (List.mem_cons_self ..)
    have hc1 := sameCore_trySchedule sem s n d
    have hfs1 := fs_trySchedule (sem := sem) s n d
    have hq1 : (trySchedule sem s n d).queue = s.queue ∨
        ((trySchedule sem s n d).queue = queueAdd s.queue n ∧
          ∃ r c stamp, (d = .read r c stamp ∨ d = .write r c stamp) ∧
            sem.rcheck c (aget s.fs r) stamp ≠ .ok true) := by
      cases d with
      | reserved => exact .inl (queue_trySchedule_other s n _ (.inl rfl))
      | require t' c stamp => exact .inl (queue_trySchedule_other s n _ (.inr ⟨_, _, _, rfl⟩))
      | read r c stamp =>
        by_cases hck : sem.rcheck c (aget s.fs r) stamp = .ok true
        · exact .inl ((trySchedule_queue_rw s n tn r c stamp _ htn (.inl rfl)).1 hck)
        · exact .inr ⟨(trySchedule_queue_rw s n tn r c stamp _ htn (.inl rfl)).2 hck,
            r, c, stamp, .inl rfl, hck⟩
      | write r c stamp =>
        by_cases hck : sem.rcheck c (aget s.fs r) stamp = .ok true
        · exact .inl ((trySchedule_queue_rw s n tn r c stamp _ htn (.inr rfl)).1 hck)
        · exact .inr ⟨(trySchedule_queue_rw s n tn r c stamp _ htn (.inr rfl)).2 hck,
            r, c, stamp, .inr rfl, hck⟩
    have hnd1 : (trySchedule sem s n d).queue.Nodup := by
      rcases hq1 with h | ⟨h, _⟩
      · rw [h]; exact hnd
      · rw [h]; exact queueAdd_nodup hnd
    have hmono1 : ∀ m ∈ s.queue, m ∈ (trySchedule sem s n d).queue := by
      intro m hm
      rcases hq1 with h | ⟨h, _⟩
      · rw [h]; exact hm
      · rw [h]; exact mem_queueAdd.mpr (.inl hm)
    obtain ⟨i1, i2, i3, i4, i5⟩ := ih (trySchedule sem s n d)
      (fun q hq => by rw [hc1.1]; exact ht q (List.mem_cons_of_mem _ hq)) hnd1
    refine ⟨hc1.trans i1, i2.trans hfs1, i3, fun m hm => i4 m (hmono1 m hm), ?_⟩
    intro m hm
    rcases i5 m hm with hm | ⟨r, c, stamp, hm, hck⟩
    · rcases hq1 with h | ⟨h, r, c, stamp, hd, hck⟩
      · rw [h] at hm; exact .inl hm
      · rw [h] at hm
        rcases mem_queueAdd.mp hm with hm | rfl
        · exact .inl hm
        · refine .inr ⟨r, c, stamp, ?_, hck⟩
          rcases hd with rfl | rfl
          · exact .inl (List.mem_cons_self ..)
          · exact .inr (List.mem_cons_self ..)
    · refine .inr ⟨r, c, stamp, ?_, by rw [← hfs1]; exact hck⟩
      rcases hm with hm | hm
      · exact .inl (List.mem_cons_of_mem _ hm)
      · exact .inr (List.mem_cons_of_mem _ hm)

/-- The fold over the requirers: what is added to the queue was rejected. -/
theorem reqSchedR_fold (out : Int) (L : List (Nat × Dep)) : ∀ s : Sess,
    (∀ p ∈ L, ∃ t, s.store.taskOf p.1 = some t) → s.queue.Nodup →
    SameCore s (L.foldl (reqSchedStep sem out) s) ∧ (L.foldl (reqSchedStep sem out) s).fs = s.fs ∧
    (L.foldl (reqSchedStep sem out) s).queue.Nodup ∧
    (∀ n ∈ s.queue, n ∈ (L.foldl (reqSchedStep sem out) s).queue) ∧
    (∀ n ∈ (L.foldl (reqSchedStep sem out) s).queue,
      n ∈ s.queue ∨ ∃ u c stamp, (n, Dep.require u c stamp) ∈ L ∧
        sem.ocheck c out stamp = false) := by
  induction L with
  | nil =>
    intro s _ hnd
    exact ⟨SameCore.refl s, rfl, hnd, fun _ h => h, fun _ h => .inl h⟩
  | cons p L ih =>
    intro s ht hnd
    simp only [List.foldl_cons]
    have hc1 := sameCore_reqSchedStep sem out s p
    have hq1 : (reqSchedStep sem out s p).queue = s.queue ∨
        (∃ u c stamp, p.2 = Dep.require u c stamp ∧ sem.ocheck c out stamp = false ∧
          (reqSchedStep sem out s p).queue = queueAdd s.queue p.1) := by
      obtain ⟨n, d⟩ := p
      obtain ⟨tn, htn⟩ := ht (n, d) (List.mem_cons_self ..)
      cases d with
      | require u c stamp =>
        rw [reqSchedStep_queue sem out s n u c tn stamp htn]
        cases hck : sem.ocheck c out stamp with
        | true => exact .inl (by simp)
        | false => exact .inr ⟨u, c, stamp, rfl, hck, by simp⟩
      | reserved => left; simp [reqSchedStep]
      | read r c stamp => left; simp [reqSchedStep]
      | write r c stamp => left; simp [reqSchedStep]
    have hnd1 : (reqSchedStep sem out s p).queue.Nodup := by
      rcases hq1 with h | ⟨_, _, _, _, _, h⟩
      · rw [h]; exact hnd
      · rw [h]; exact queueAdd_nodup hnd
    have hmono1 : ∀ n ∈ s.queue, n ∈ (reqSchedStep sem out s p).queue := by
      intro n hn
      rcases hq1 with h | ⟨_, _, _, _, _, h⟩
      · rw [h]; exact hn
      · rw [h]; exact mem_queueAdd.mpr (.inl hn)
    obtain ⟨i1, i2, i3, i4, i5⟩ := ih (reqSchedStep sem out s p)
      (fun q hq => by rw [hc1.1]; exact ht q (List.mem_cons_of_mem _ hq)) hnd1
    refine ⟨hc1.trans i1, i2.trans (fs_reqSchedStep out s p), i3, fun n hn => i4 n (hmono1 n hn),
      ?_⟩
    intro n hn
    rcases i5 n hn with hn | ⟨u, c, stamp, hm, hck⟩
    · rcases hq1 with h | ⟨u, c, stamp, hd, hck, h⟩
      · rw [h] at hn; exact .inl hn
      · rw [h] at hn
        rcases mem_queueAdd.mp hn with hn | rfl
        · exact .inl hn
        · exact .inr ⟨u, c, stamp, by rw [← hd]; exact List.mem_cons_self .., hck⟩
    · exact .inr ⟨u, c, stamp, List.mem_cons_of_mem _ hm, hck⟩

theorem Store.mem_readDepsTo_iff_bw {st : Store} (hw : st.WF) (w p : Nat) (d : Dep) :
    (p, d) ∈ st.readDepsTo w ↔ d.isRead = true ∧ (w, d) ∈ st.g.outgoingEdges p := by
  rw [Store.readDepsTo_eq, List.mem_filter, Dag.mem_incomingEdges hw.gwf,
    Dag.mem_outgoingEdges hw.gwf]
  exact ⟨fun h => ⟨h.2, h.1⟩, fun h => ⟨h.2, h.1⟩⟩

/-- The fold over the written resources. -/
theorem writtenSched_fold_bw (W : List Nat) : ∀ s : Sess, SessWF s → s.queue.Nodup →
    SameCore s (W.foldl (writtenSchedStep sem) s) ∧ (W.foldl (writtenSchedStep sem) s).fs = s.fs ∧
    (W.foldl (writtenSchedStep sem) s).queue.Nodup ∧
    (∀ n ∈ s.queue, n ∈ (W.foldl (writtenSchedStep sem) s).queue) ∧
    (∀ n ∈ (W.foldl (writtenSchedStep sem) s).queue,
      n ∈ s.queue ∨ ∃ w r c stamp, w ∈ W ∧ (w, Dep.read r c stamp) ∈ s.store.g.outgoingEdges n ∧
        sem.rcheck c (aget s.fs r) stamp ≠ .ok true) := by
  induction W with
  | nil =>
    intro s _ hnd
    exact ⟨SameCore.refl s, rfl, hnd, fun _ h => h, fun _ h => .inl h⟩
  | cons w W ih =>
    intro s hwf hnd
    simp only [List.foldl_cons]
    have hw := hwf.store
    -- one step
    have hstep : SameCore s (writtenSchedStep sem s w) ∧ (writtenSchedStep sem s w).fs = s.fs ∧
        (writtenSchedStep sem s w).queue.Nodup ∧
        (∀ n ∈ s.queue, n ∈ (writtenSchedStep sem s w).queue) ∧
        (∀ n ∈ (writtenSchedStep sem s w).queue, n ∈ s.queue ∨
          ∃ r c stamp, (w, Dep.read r c stamp) ∈ s.store.g.outgoingEdges n ∧
            sem.rcheck c (aget s.fs r) stamp ≠ .ok true) := by
      unfold writtenSchedStep
      split
      · exact ⟨SameCore.refl s, rfl, hnd, fun _ h => h, fun _ h => .inl h⟩
      next r hr =>
        have hL : ∀ p ∈ (s.emit (.schedResStart r)).store.readDepsTo w,
            ∃ tp, (s.emit (.schedResStart r)).store.taskOf p.1 = some tp := by
          intro p hp
          obtain ⟨n, d⟩ := p
          exact (hw.mem_outgoingEdges_ok ((Store.mem_readDepsTo_iff_bw hw w n d).mp hp).2).1
        obtain ⟨c1, c2, c3, c4, c5⟩ := trySchedR_fold (sem := sem)
          ((s.emit (.schedResStart r)).store.readDepsTo w) (s.emit (.schedResStart r)) hL hnd
        refine ⟨⟨c1.1, c1.2.1, c1.2.2⟩, c2, c3, c4, ?_⟩
        intro n hn
        rcases c5 n hn with hn | ⟨r', c, stamp, hm, hck⟩
        · exact .inl hn
        · rcases hm with hm | hm
          · exact .inr ⟨r', c, stamp, ((Store.mem_readDepsTo_iff_bw hw w n _).mp hm).2, hck⟩
          · have := ((Store.mem_readDepsTo_iff_bw hw w n _).mp hm).1
            simp [Dep.isRead] at this
    obtain ⟨s1, s2, s3, s4, s5⟩ := hstep
    have hwf1 : SessWF (writtenSchedStep sem s w) := by
      refine ⟨s1.1 ▸ hw, fun n hn => by rw [s1.1]; exact hwf.cur n (s1.2.1 ▸ hn), ?_⟩
      intro n hn
      rw [s1.1]
      rcases s5 n hn with hn | ⟨r, c, stamp, hm, _⟩
      · exact hwf.queue n hn
      · exact (hw.mem_outgoingEdges_ok hm).1
    obtain ⟨i1, i2, i3, i4, i5⟩ := ih (writtenSchedStep sem s w) hwf1 s3
    refine ⟨s1.trans i1, i2.trans s2, i3, fun n hn => i4 n (s4 n hn), ?_⟩
    intro n hn
    rcases i5 n hn with hn | ⟨w', r, c, stamp, hw', hm, hck⟩
    · rcases s5 n hn with hn | ⟨r, c, stamp, hm, hck⟩
      · exact .inl hn
      · exact .inr ⟨w, r, c, stamp, List.mem_cons_self .., hm, hck⟩
    · exact .inr ⟨w', r, c, stamp, List.mem_cons_of_mem _ hw', by rw [← s1.1]; exact hm,
        by rw [← s2]; exact hck⟩

/-- **What `scheduleAfterExec` does**: the core of the session is kept (up to marking `node`),
the queue only grows, and every node it adds was rejected. -/
theorem scheduleAfterExec_spec (s : Sess) (hwf : SessWF s) (hnd : s.queue.Nodup) (node t : Nat)
    (out : Int) :
    ∃ s₃, scheduleAfterExec sem s node t out = s₃.markConsistent node ∧ SameCore s s₃ ∧
      s₃.fs = s.fs ∧ SessWF s₃ ∧ s₃.queue.Nodup ∧ (∀ n ∈ s.queue, n ∈ s₃.queue) ∧
      ∀ n ∈ s₃.queue, n ∈ s.queue ∨
        (∃ u c stamp, (node, Dep.require u c stamp) ∈ s.store.g.outgoingEdges n ∧
          sem.ocheck c out stamp = false) ∨
        (∃ w r c stamp, w ∈ s.store.resourcesWrittenBy node ∧
          (w, Dep.read r c stamp) ∈ s.store.g.outgoingEdges n ∧
          sem.rcheck c (aget s.fs r) stamp ≠ .ok true) := by
  have hw := hwf.store
  have hwf' := (scheduleAfterExec_ext sem hwf node t out).wf
  rw [scheduleAfterExec_eq] at hwf' ⊢
  simp only at hwf' ⊢
  obtain ⟨a1, a2, a3, a4, a5⟩ :=
    writtenSched_fold_bw (sem := sem) (s.store.resourcesWrittenBy node) s hwf hnd
  generalize (s.store.resourcesWrittenBy node).foldl (writtenSchedStep sem) s = S1 at *
  have hL : ∀ p ∈ (S1.emit (.schedTaskStart t)).store.requireDepsTo node,
      ∃ tp, (S1.emit (.schedTaskStart t)).store.taskOf p.1 = some tp := by
    intro p hp
    obtain ⟨n, d⟩ := p
    have hp' : (n, d) ∈ s.store.requireDepsTo node := by
      have : (S1.emit (.schedTaskStart t)).store = s.store := a1.1
      rw [this] at hp; exact hp
    have := ((Store.mem_requireDepsTo_iff hw node n d).mp hp').2
    have h1 : (S1.emit (.schedTaskStart t)).store = s.store := a1.1
    rw [h1]
    exact (hw.mem_outgoingEdges_ok this).1
  obtain ⟨c1, c2, c3, c4, c5⟩ := reqSchedR_fold (sem := sem) out
    ((S1.emit (.schedTaskStart t)).store.requireDepsTo node) (S1.emit (.schedTaskStart t)) hL a3
  have hst1 : (S1.emit (.schedTaskStart t)).store = s.store := a1.1
  rw [hst1] at c1 c2 c3 c4 c5 hwf' ⊢
  generalize (s.store.requireDepsTo node).foldl (reqSchedStep sem out)
    (S1.emit (.schedTaskStart t)) = S3 at *
  refine ⟨S3.emit (.schedTaskEnd t), rfl, ?_, ?_, ?_, ?_, ?_, ?_⟩
  · exact ⟨c1.1.trans a1.1, c1.2.1.trans a1.2.1, c1.2.2.trans a1.2.2⟩
  · exact c2.trans a2
  · exact (hwf'.same (by simp) (by simp) (by simp)).wf
  · exact c3
  · exact fun n hn => c4 n (a4 n hn)
  · intro n hn
    rcases c5 n hn with hn | ⟨u, c, stamp, hm, hck⟩
    · rcases a5 n hn with hn | h
      · exact .inl hn
      · exact .inr (.inr h)
    · exact .inr (.inl ⟨u, c, stamp, ((Store.mem_requireDepsTo_iff hw node n _).mp hm).2, hck⟩)

/-- **Scheduling after an execution, reflexive checkers.**  `node` is exempt and consistent or
pending (it was just executed, or it is a consistent task that was executed again and whose record
is unchanged); `s₃` is the state after the scheduling loops.  No consistent, pending or executing
node is added to the queue; afterwards `node` is consistent and no longer exempt. -/
theorem BI.sched (hrefl : Reflexive sem) {s s₃ : Sess} {ch X P : List Nat} {node t : Nat} {o : Int}
    (h : BI ro sem body s ch (node :: X) P) (hX : ∀ x ∈ X, x ∈ ch) (hP : ∀ x ∈ P, x = node)
    (hnc : node ∈ s.consistent ++ P) (ht : s.store.taskOf node = some t)
    (ho : s.store.taskOutput node = some o)
    (hcore : SameCore s s₃) (hfs : s₃.fs = s.fs) (hw3 : SessWF s₃) (hnd : s₃.queue.Nodup)
    (hqb : ∀ n ∈ s₃.queue, n ∈ s.queue ∨
      (∃ u c stamp, (node, Dep.require u c stamp) ∈ s.store.g.outgoingEdges n ∧
        sem.ocheck c o stamp = false) ∨
      (∃ w r c stamp, w ∈ s.store.resourcesWrittenBy node ∧
        (w, Dep.read r c stamp) ∈ s.store.g.outgoingEdges n ∧
        sem.rcheck c (aget s.fs r) stamp ≠ .ok true)) :
    BI ro sem body (s₃.markConsistent node) ch X [] := by
  have hw := h.sw
  obtain ⟨hst, hcur, hcons⟩ := hcore
  have hnb : node ∈ s.queue ++ node :: X := by simp
  -- an all-current node is not rejected
  have hacc : ∀ n, AllCur ro sem s (s.consistent ++ P) n →
      (∃ u c stamp, (node, Dep.require u c stamp) ∈ s.store.g.outgoingEdges n ∧
        sem.ocheck c o stamp = false) ∨
      (∃ w r c stamp, w ∈ s.store.resourcesWrittenBy node ∧
        (w, Dep.read r c stamp) ∈ s.store.g.outgoingEdges n ∧
        sem.rcheck c (aget s.fs r) stamp ≠ .ok true) → False := by
    intro n hac hrej
    rcases hrej with ⟨u, c, stamp, hm, hck⟩ | ⟨w, r, c, stamp, _, hm, hck⟩
    · obtain ⟨_, o', ho', hs⟩ := hac _ hm
      rw [ho] at ho'; cases ho'
      rw [hs, hrefl.1 c o] at hck; cases hck
    · exact hck (hrefl.2 c _ _ (hac _ hm).1)
  -- a rejected node has an edge to `node`
  have hedge : ∀ n, ((∃ u c stamp, (node, Dep.require u c stamp) ∈ s.store.g.outgoingEdges n ∧
        sem.ocheck c o stamp = false) ∨
      (∃ w r c stamp, w ∈ s.store.resourcesWrittenBy node ∧
        (w, Dep.read r c stamp) ∈ s.store.g.outgoingEdges n ∧
        sem.rcheck c (aget s.fs r) stamp ≠ .ok true)) → s.store.g.HasEdge n node := by
    intro n hrej
    rcases hrej with ⟨u, c, stamp, hm, _⟩ | ⟨w, r, c, stamp, hwm, hm, _⟩
    · exact (Store.hasEdge_iff_mem_oe hw _ _).mpr ⟨_, hm⟩
    · rw [Store.resourcesWrittenBy_eq] at hwm
      obtain ⟨p, hp, rfl⟩ := List.mem_map.mp hwm
      obtain ⟨hp1, hp2⟩ := List.mem_filter.mp hp
      obtain ⟨w, d⟩ := p
      cases d <;> simp only [Dep.isWrite, Bool.false_eq_true] at hp2
      rename_i r' c' st'
      have hwr : s.store.resOf w = some r' := (hw.mem_outgoingEdges_ok hp1).2
      have hwr2 : s.store.resOf w = some r := (hw.mem_outgoingEdges_ok hm).2
      rw [hwr] at hwr2; cases hwr2
      have hg := h.base.roles.write _ _ _ _ _ t
        ((Dag.mem_outgoingEdges hw.gwf _ _ _).mp hp1) ht
      obtain ⟨nw, dep, h1, h2⟩ := h.base.roles.read _ _ _ _ _ t
        ((Dag.mem_outgoingEdges hw.gwf _ _ _).mp hm) hg
      have : nw = node := hw.node_inj h1 ht
      subst this
      exact (hw.gwf.hasEdge_iff_getEdgeData _ _).mpr ⟨dep, h2⟩
  -- the new entries of the queue
  have hnew : ∀ n ∈ s₃.queue, n ∉ s.queue →
      n ∉ s.consistent ++ P ∧ n ∉ ch ∧ s.store.g.HasEdge n node := by
    intro n hn hnq
    rcases hqb n hn with hn' | hrej
    · exact absurd hn' hnq
    · refine ⟨fun hc => ?_, fun hc => hacc n (h.st n hc) hrej, hedge n hrej⟩
      rcases h.e n hc with h1 | ⟨_, h2⟩
      · exact hacc n h1 hrej
      · exact h2 node (hedge n hrej) hnb
  -- a new entry is not below a consistent node
  have hnot : ∀ u ∈ s.consistent ++ P, ∀ n, ReachA s.store ch u n → n ∈ s₃.queue →
      n ∈ s.queue := by
    intro u hu n hr hn
    by_cases hnq : n ∈ s.queue
    · exact hnq
    · obtain ⟨h1, _, h3⟩ := hnew n hn hnq
      exact absurd (h.q u hu n hr node (.inr h3) hnb).1 h1
  have hbusy : ∀ u ∈ s.consistent ++ P, ∀ v, ReachA s.store ch u v → ∀ m,
      (m = v ∨ s.store.g.HasEdge v m) → m ∈ s₃.queue ++ X → m ∈ s.queue ++ node :: X := by
    intro u hu v hr m hm hb
    rcases List.mem_append.mp hb with hb | hb
    · refine List.mem_append_left _ ?_
      rcases hm with rfl | hm
      · exact hnot u hu _ hr hb
      · by_cases hmch : m ∈ ch
        · by_cases hnq : m ∈ s.queue
          · exact hnq
          · exact absurd hmch (hnew m hb hnq).2.1
        · exact hnot u hu m (.tail hr hm hmch) hb
    · exact List.mem_append_right _ (List.mem_cons_of_mem _ hb)
  have hmem : ∀ x, x ∈ (s₃.markConsistent node).consistent ++ [] ↔ x ∈ s.consistent ++ P := by
    intro x
    simp only [List.append_nil, Sess.mem_markConsistent, hcons, List.mem_append]
    constructor
    · rintro (hx | rfl)
      · exact .inl hx
      · exact List.mem_append.mp hnc
    · rintro (hx | hx)
      · exact .inl hx
      · exact .inr (hP x hx)
  have hcurr : ∀ n, AllCur ro sem s (s.consistent ++ P) n →
      AllCur ro sem (s₃.markConsistent node) ((s₃.markConsistent node).consistent ++ []) n :=
    fun n hn => hn.congr (by simp [hst]) (by simp [hfs]) (fun x hx => (hmem x).mpr hx)
  have hbase : WInv ro sem body (s₃.markConsistent node) :=
    ⟨hw3.markConsistent node, by simpa [hst] using h.base.roles,
      by simpa [hst] using h.base.faithful, by simpa [hfs] using h.base.nodup,
      by simpa [hst, hcur] using h.base.curFree⟩
  refine ⟨hbase, by simpa using hnd, by simpa [hcur] using h.cur, by simpa [hst] using h.chTask,
    by simpa [hst] using h.chSorted, by simpa [hst] using h.chOut, ?_, ?_, ?_, ?_, ?_, ?_⟩
  · intro x hx
    simpa [hst] using h.consOut x ((hmem x).mp hx)
  · intro x hx hq
    simp only [Sess.queue_markConsistent] at hq
    by_cases hnq : x ∈ s.queue
    · exact h.xq x (List.mem_cons_of_mem _ hx) hnq
    · exact (hnew x hq hnq).2.1 (hX x hx)
  · intro x hx
    simpa [hst] using h.xTask x (List.mem_cons_of_mem _ hx)
  · intro u hu v hr m hm hb
    simp only [Sess.store_markConsistent, Sess.queue_markConsistent, hst] at hr hm hb
    have hu0 := (hmem u).mp hu
    obtain ⟨h1, h2⟩ := h.q u hu0 v hr m hm (hbusy u hu0 v hr m hm hb)
    exact ⟨(hmem v).mpr h1, (hmem m).mpr h2⟩
  · intro w hw0
    have hw1 := (hmem w).mp hw0
    simp only [Sess.store_markConsistent, Sess.queue_markConsistent, hst]
    rcases h.e w hw1 with h1 | ⟨h1, h2⟩
    · exact .inl (hcurr w h1)
    · have hwch := h.cons_not_stack hw1
      refine .inr ⟨fun hb => h1 (hbusy w hw1 w (.refl hwch) w (.inl rfl) hb), fun m hm hb => ?_⟩
      exact h2 m hm (hbusy w hw1 w (.refl hwch) m (.inr hm) hb)
  · intro a ha
    exact hcurr a (h.st a ha)

end PieModel
