/-
Bottom-up builds without any assumption on the checkers (`OneAccess` programs): the successor
step of `buRun`, and the joint induction.
-/
import PieModel.Build.BuW.StaticBU

namespace PieModel

variable {ro : Roles} {sem : Sem} {body : Nat → Prog}

theorem RunKeysS.not_reserved {qt qr : List Nat} {L : List (Nat × Dep)}
    (h : RunKeysS qt qr L) : ∀ p ∈ L, p.2 ≠ .reserved := by
  intro p hp hr
  have := h p hp
  rw [hr] at this; exact this

theorem RunKeysS.mono {qt qr qt' qr' : List Nat} {L : List (Nat × Dep)}
    (h : RunKeysS qt qr L) (ht : ∀ x ∈ qt, x ∈ qt') (hr : ∀ x ∈ qr, x ∈ qr') :
    RunKeysS qt' qr' L := by
  intro p hp
  have := h p hp
  obtain ⟨dst, d⟩ := p
  cases d with
  | reserved => exact this
  | require u c st => exact ht _ this
  | read r c st => exact hr _ this
  | write r c st => trivial

theorem RunKeysS.append {qt qr : List Nat} {L : List (Nat × Dep)} {p : Nat × Dep}
    (h : RunKeysS qt qr L) (hp : RunKeyS qt qr p.2) : RunKeysS qt qr (L ++ [p]) := by
  intro q hq
  rcases List.mem_append.mp hq with hq | hq
  · exact h q hq
  · simp only [List.mem_singleton] at hq; subst hq; exact hp

section
variable (hst : StampTotal sem) (hwf : WellFormedBody ro body)
include hst hwf

theorem SuR.run_succ {f : Nat} (ih : SuR ro sem body f) (s : Sess) (a ta : Nat)
    (p : Prog) (acc : Acc) (qt qr : List Nat)
    (h : WInv ro sem body s) (hca : s.cur = some a)
    (hta : s.store.taskOf a = some ta) (hsr : StaticRolesFrom ro ta acc p)
    (ha : AccOK s.store a acc) (hone : NoRep qt qr p)
    (hkeys : RunKeysS qt qr (s.store.g.outgoingEdges a)) :
    BOut sem body (buRun sem body (f + 1) s p) (fun s' v =>
      WStep ro sem body (ro.rank ta) none s s' ∧
      (∀ p ∈ s'.store.g.outgoingEdges a, p.2 ≠ .reserved) ∧
      ∃ new, s'.store.depsFrom a = s.store.depsFrom a ++ new ∧
        ReplayO sem p (s.store.depsFrom a) new v) := by
  have hw := h.wf.store
  cases p with
  | ret v =>
    unfold buRun
    exact .ret h.faithful ⟨WStep.refl h, hkeys.not_reserved, [], by simp, rfl, rfl⟩
  | panic => unfold buRun; exact .abort h.faithful
  | req u c k =>
    unfold buRun
    obtain ⟨hlt, hk⟩ := hsr
    obtain ⟨hu, hk2⟩ := hone
    have hpre : ReqPre ro s u := fun cur hc' => by
      have : cur = a := Option.some.inj (hc'.symm.trans hca)
      subst this; exact ⟨ta, hta, hlt⟩
    have hno : ∀ d0, (nodeOf s u, d0) ∉ s.store.g.outgoingEdges a := by
      intro d0 hd0
      have hok := (hw.mem_outgoingEdges_ok hd0).2
      have hkey := hkeys _ hd0
      have hle := Store.le_getOrCreateTaskNode hw u
      have hself : (s.store.getOrCreateTaskNode u).1.taskOf (nodeOf s u) = some u :=
        Store.taskOf_getOrCreateTaskNode_self hw u
      cases d0 with
      | reserved => exact hkey
      | require u' c' st =>
        have h1 := hle.task _ _ hok
        rw [hself] at h1; cases h1
        exact hu hkey
      | read r' c' st =>
        have h1 := hle.res _ _ hok
        rw [Store.resOf_eq_none_of_taskOf hself] at h1; cases h1
      | write r' c' st =>
        have h1 := hle.res _ _ hok
        rw [Store.resOf_eq_none_of_taskOf hself] at h1; cases h1
    have IH := ih.require s a ta u c h hca hta hlt hno
    have hacc := ((buRoles (sem := sem) hwf f).require s u c h.wf h.roles hpre).2
    split
    next s1 a' heq => exact .abort (IH.faithful_of heq)
    next s1 out heq =>
      obtain ⟨w1, he⟩ := IH.ok s1 out heq
      have ha1 : AccOK s1.store a { acc with req := u :: acc.req } := by
        have := hacc a acc out hca (by rw [heq]) ha
        rwa [heq] at this
      have hkeys1 : RunKeysS (u :: qt) qr (s1.store.g.outgoingEdges a) := by
        rw [he]
        exact (hkeys.mono (fun x hx => List.mem_cons_of_mem _ hx) (fun x hx => hx)).append
          List.mem_cons_self
      have IH2 := ih.run s1 a ta (k out) _ (u :: qt) qr w1.inv (w1.cur.trans hca)
        (w1.le.task _ _ hta) (hk out) ha1 (hk2 out) hkeys1
      refine IH2.mono ?_
      rintro s' v ⟨w', hnr', new, hnew, hrep'⟩
      refine ⟨((w1.mono (Nat.le_of_lt hlt)).drop hta (Nat.le_refl _)).trans w', hnr', ?_⟩
      have hd1 := depsFrom_of_oe he
      simp only [List.map_cons, List.map_nil] at hd1
      exact ⟨.require u c (sem.ostamp c out) :: new, by rw [hnew, hd1]; simp,
        .inr ⟨sem.ostamp c out, new, rfl, out, rfl, by rw [← hd1]; exact hrep'⟩⟩
  | read r c k =>
    unfold buRun
    obtain ⟨hng, hreq, hk⟩ := hsr
    obtain ⟨hr, hk2⟩ := hone
    split
    next s1 a' heq => exact .abort (doRead_w hst h hca hta ha r c hreq heq).1.inv.faithful
    next s1 x heq =>
      obtain ⟨p1, _, ha1, e1⟩ := doRead_w hst h hca hta ha r c hreq heq
      obtain ⟨rfl, dst, stamp, hstamp, hresof, halt⟩ := e1 x rfl
      -- there is no edge to the resource yet
      have hnone : ∀ d0, (dst, d0) ∉ s.store.g.outgoingEdges a := by
        intro d0 hd0
        have hok := (hw.mem_outgoingEdges_ok hd0).2
        have hkey := hkeys _ hd0
        cases d0 with
        | reserved => exact hkey
        | write r' c' st0 =>
          have h1 : s1.store.resOf dst = some r' := p1.le.res _ _ hok
          rw [hresof] at h1; cases h1
          exact hng (h.roles.write a dst r c' st0 ta
            ((Dag.mem_outgoingEdges hw.gwf _ _ _).mp hd0) hta)
        | require u' c' st0 =>
          have h1 : s1.store.taskOf dst = some u' := p1.le.task _ _ hok
          rw [Store.taskOf_eq_none_of_resOf hresof] at h1; cases h1
        | read r' c' st0 =>
          have h1 : s1.store.resOf dst = some r' := p1.le.res _ _ hok
          rw [hresof] at h1; cases h1
          exact hr hkey
      have he : s1.store.g.outgoingEdges a =
          s.store.g.outgoingEdges a ++ [(dst, .read r c stamp)] := by
        rcases halt with ⟨⟨d0, hd0⟩, _⟩ | ⟨_, he⟩
        · exact absurd hd0 (hnone d0)
        · exact he
      have hkeys1 : RunKeysS qt (r :: qr) (s1.store.g.outgoingEdges a) := by
        rw [he]
        exact (hkeys.mono (fun x hx => hx) (fun x hx => List.mem_cons_of_mem _ hx)).append
          List.mem_cons_self
      have w1 : WStep ro sem body (ro.rank ta) none s s1 :=
        (WStep.of_pstep p1 hca).drop hta (Nat.le_refl _)
      have IH2 := ih.run s1 a ta (k (.ok (aget s.fs r))) acc qt (r :: qr) p1.inv
        (p1.cur.trans hca) (p1.le.task _ _ hta) (hk _) ha1 (hk2 _) hkeys1
      refine IH2.mono ?_
      rintro s' v ⟨w', hnr', new, hnew, hrep'⟩
      refine ⟨w1.trans w', hnr', ?_⟩
      have hd1 := depsFrom_of_oe he
      simp only [List.map_cons, List.map_nil] at hd1
      exact ⟨.read r c stamp :: new, by rw [hnew, hd1]; simp,
        .inr ⟨stamp, new, rfl, aget s.fs r, hstamp, by rw [← hd1]; exact hrep'⟩⟩
  | write r c v k =>
    unfold buRun
    obtain ⟨hg, hnw, hk⟩ := hsr
    split
    next s1 a' heq => exact .abort (doWrite_w hst h hca hta ha r c v hg hnw heq).1.inv.faithful
    next s1 x heq =>
      obtain ⟨p1, _, e1⟩ := doWrite_w hst h hca hta ha r c v hg hnw heq
      obtain ⟨rfl, ha1, _, dst, stamp, hstamp, _, _, happ⟩ := e1 x rfl
      have hkeys1 : RunKeysS qt qr (s1.store.g.outgoingEdges a) := by
        rw [happ]; exact hkeys.append trivial
      have w1 : WStep ro sem body (ro.rank ta) none s s1 :=
        (WStep.of_pstep p1 hca).drop hta (Nat.le_refl _)
      have IH2 := ih.run s1 a ta (k (.ok ())) _ qt qr p1.inv (p1.cur.trans hca)
        (p1.le.task _ _ hta) (hk _) ha1 (hone _) hkeys1
      refine IH2.mono ?_
      rintro s' v' ⟨w', hnr', new, hnew, hrep'⟩
      refine ⟨w1.trans w', hnr', ?_⟩
      have hd1 := depsFrom_of_oe happ
      simp only [List.map_cons, List.map_nil] at hd1
      exact ⟨.write r c stamp :: new, by rw [hnew, hd1]; simp,
        stamp, new, rfl, hstamp, by rw [← hd1]; exact hrep'⟩
  | wrote r c v k =>
    unfold buRun
    obtain ⟨hg, hnw, hk⟩ := hsr
    split
    next s1 a' heq => exact .abort (doWrote_w hst h hca hta ha r c v hg hnw heq).1.inv.faithful
    next s1 x heq =>
      obtain ⟨p1, _, e1⟩ := doWrote_w hst h hca hta ha r c v hg hnw heq
      obtain ⟨rfl, ha1, _, dst, stamp, hstamp, _, _, happ⟩ := e1 x rfl
      have hkeys1 : RunKeysS qt qr (s1.store.g.outgoingEdges a) := by
        rw [happ]; exact hkeys.append trivial
      have w1 : WStep ro sem body (ro.rank ta) none s s1 :=
        (WStep.of_pstep p1 hca).drop hta (Nat.le_refl _)
      have IH2 := ih.run s1 a ta (k (.ok ())) _ qt qr p1.inv (p1.cur.trans hca)
        (p1.le.task _ _ hta) (hk _) ha1 (hone _) hkeys1
      refine IH2.mono ?_
      rintro s' v' ⟨w', hnr', new, hnew, hrep'⟩
      refine ⟨w1.trans w', hnr', ?_⟩
      have hd1 := depsFrom_of_oe happ
      simp only [List.map_cons, List.map_nil] at hd1
      exact ⟨.write r c stamp :: new, by rw [hnew, hd1]; simp,
        stamp, new, rfl, hstamp, by rw [← hd1]; exact hrep'⟩

end

section
variable (hst : StampTotal sem) (hwf : WellFormedBody ro body) (hone : ∀ t, OneAccess (body t))
include hst hwf hone

theorem suR (f : Nat) : SuR ro sem body f := by
  induction f with
  | zero => exact SuR.zero
  | succ f ih =>
    exact ⟨ih.require_succ, ih.make_succ, ih.exec_succ hwf hone, ih.execAndSchedule_succ,
      ih.requireNow_succ, ih.run_succ hst hwf⟩

theorem buExecuteScheduled_static (f : Nat) : ∀ (s : Sess), WInv ro sem body s → s.cur = none →
    BOut sem body (buExecuteScheduled sem body f s)
      (fun s' _ => WInv ro sem body s' ∧ s'.cur = none) := by
  induction f with
  | zero => intro s h _; unfold buExecuteScheduled; exact .abort h.faithful
  | succ f ih =>
    intro s h hc
    unfold buExecuteScheduled
    split
    · exact .ret h.faithful ⟨h, hc⟩
    next n q hq =>
      have hwf1 : SessWF { s with queue := q } :=
        (h.wf.subQueue (fun _ hm => queuePop_rest_subset hq hm)).wf
      have h1 : WInv ro sem body { s with queue := q } := h.of_core hwf1 rfl h.nodup rfl
      have key := (suR hst hwf hone f).execAndSchedule { s with queue := q } n 0 h1
        (fun c hcc => by rw [show ({ s with queue := q } : Sess).cur = s.cur from rfl, hc] at hcc; cases hcc)
        (fun _ _ => Nat.zero_le _)
      split
      next s2 a heq => exact .abort (key.faithful_of heq)
      next s2 o heq =>
        have w2 := key.ok s2 o heq
        exact ih s2 w2.inv (w2.cur.trans hc)

theorem updateAffectedTasks_static (f : Nat) (s : Sess) (h : WInv ro sem body s) :
    BOut sem body (updateAffectedTasks sem body f s)
      (fun s' _ => WInv ro sem body s' ∧ s'.cur = none) := by
  unfold updateAffectedTasks; simp only []
  have h0 : WInv ro sem body (({ s with cur := none } : Sess).emit .buildStart) :=
    ⟨h.wf.clearCur.wf.emit _, h.roles, h.faithful, h.nodup, fun _ hn => nomatch hn⟩
  have key := buExecuteScheduled_static hst hwf hone f _ h0 rfl
  split
  next s2 a heq => exact .abort (key.faithful_of heq)
  next s2 heq =>
    obtain ⟨h2, hc2⟩ := key.ok s2 () heq
    exact .ret h2.faithful ⟨(h2.emit .buildEnd).inv, hc2⟩

/-- **A bottom-up build from any session state satisfying the weak invariant** (any `consistent`
set, any `changed` set): the store is faithful whatever the result. -/
theorem bottomUpBuild_static (f : Nat) (s : Sess) (h : WInv ro sem body s) (changed : List Nat) :
    BOut sem body (bottomUpBuild sem body f s changed)
      (fun s' _ => WInv ro sem body s' ∧ s'.cur = none) := by
  unfold bottomUpBuild; simp only []
  have h0 : WInv ro sem body { s with queue := [] } :=
    h.of_core (h.wf.subQueue (fun _ hm => by cases hm)).wf rfl h.nodup rfl
  have key : ∀ (l : List Nat) (s : Sess), WInv ro sem body s →
      WInv ro sem body (l.foldl (fun s r => scheduleAffectedBy sem s r) s) := by
    intro l
    induction l with
    | nil => intro s h1; exact h1
    | cons r l ih =>
      intro s h1
      refine ih _ ?_
      obtain ⟨hst', hcur, _⟩ := scheduleAffectedBy_core sem s r
      have hwf' := (scheduleAffectedBy_ext sem h1.wf r).wf
      have hle := Store.le_getOrCreateResNode h1.wf.store r
      refine ⟨hwf', hst' ▸ h1.roles.getOrCreateResNode r, ?_,
        (ext_scheduleAffectedBy sem s r).fsKeys h1.nodup, ?_⟩
      · intro n t v ht hv
        rw [hst', Store.taskOutput_getOrCreateResNode h1.wf.store] at hv
        obtain ⟨t0, ht0⟩ := Store.taskOf_of_output hv
        have := hle.task _ _ ht0
        rw [← hst', ht] at this; cases this
        rw [hst', Store.depsFrom_getOrCreateResNode h1.wf.store]
        exact h1.faithful n t v ht0 hv
      · intro n hn
        rw [hst', Store.taskOutput_getOrCreateResNode h1.wf.store]
        exact h1.curFree n (hcur ▸ hn)
  exact updateAffectedTasks_static hst hwf hone f _ (key changed _ h0)

end

end PieModel
