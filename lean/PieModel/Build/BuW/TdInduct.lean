/-
Top-down building from a session whose `consistent` set is arbitrary (the requires that follow a
bottom-up build in the same session): the statement of the joint induction (`TdR`).

The invariant is `BI` with nothing busy (empty queue, no exempt nodes): consistent nodes have an
output, the executing tasks are all-current.  A top-down function never executes a consistent
task, so the outputs of consistent tasks never change.
-/
import PieModel.Build.BuW.Induct

namespace PieModel

variable (ro : Roles) (sem : Sem) (body : Nat → Prog)

/-- Newly consistent nodes have rank `≥ k`. -/
def NewCons (k : Nat) (s s' : Sess) : Prop :=
  ∀ x ∈ s'.consistent, x ∈ s.consistent ∨ ∃ t, s'.store.taskOf x = some t ∧ k ≤ ro.rank t

/-- What a returning top-down call guarantees. -/
structure TPost (ch : List Nat) (k : Nat) (s s' : Sess) : Prop where
  bi : BI ro sem body s' ch [] []
  q : s'.queue = []
  mono : BMono ro k s s'
  newCons : NewCons ro k s s'

/-- The joint statement for fuel `f`. -/
structure TdR (f : Nat) : Prop where
  require : ∀ (s : Sess) (ch₀ : List Nat) (a ta : Nat) (u c : Nat),
    BI ro sem body s (ch₀ ++ [a]) [] [] → s.queue = [] →
    s.store.taskOf a = some ta → ro.rank ta < ro.rank u →
    (∀ p ∈ s.store.g.outgoingEdges a, p.2 ≠ .reserved) →
    (∀ d0, (nodeOf s u, d0) ∈ s.store.g.outgoingEdges a → ∃ st, d0 = .require u c st) →
    BOut sem body (tdRequire sem body f s u c) (fun s' out =>
      TPost ro sem body (ch₀ ++ [a]) (ro.rank ta) s s' ∧
      s'.store.taskOf (nodeOf s u) = some u ∧ s'.store.taskOutput (nodeOf s u) = some out ∧
      nodeOf s u ∈ s'.consistent ∧
      (((nodeOf s u, Dep.require u c (sem.ostamp c out)) ∈ s.store.g.outgoingEdges a ∧
          s'.store.g.outgoingEdges a = s.store.g.outgoingEdges a) ∨
       ((∀ d0, (nodeOf s u, d0) ∉ s.store.g.outgoingEdges a) ∧
          s'.store.g.outgoingEdges a =
            s.store.g.outgoingEdges a ++ [(nodeOf s u, .require u c (sem.ostamp c out))])))
  requireRoot : ∀ (s : Sess) (u c : Nat), BI ro sem body s [] [] [] → s.queue = [] →
    BOut sem body (tdRequire sem body f s u c) (fun s' _ => TPost ro sem body [] 0 s s')
  make : ∀ (s : Sess) (ch : List Nat) (t : Nat),
    BI ro sem body s ch [] [] → s.queue = [] → StackBelow ro s.store ch (ro.rank t) →
    BOut sem body (tdMake sem body f s t) (fun s' v =>
      TPost ro sem body ch (ro.rank t) s s' ∧ s'.store.taskOf (nodeOf s t) = some t ∧
      s'.store.taskOutput (nodeOf s t) = some v ∧ nodeOf s t ∈ s'.consistent)
  check : ∀ (s : Sess) (ch : List Nat) (node t : Nat),
    BI ro sem body s ch [] [] → s.queue = [] → s.store.taskOf node = some t →
    StackBelow ro s.store ch (ro.rank t) →
    BOut sem body (tdCheck sem body f s node) (fun s' r =>
      TPost ro sem body ch (ro.rank t + 1) s s' ∧
      ∀ o, r = some o → s'.store.taskOutput node = some o)
  checkDeps : ∀ (s : Sess) (ch : List Nat) (ds : List Dep) (k : Nat),
    BI ro sem body s ch [] [] → s.queue = [] → StackBelow ro s.store ch k →
    (∀ u c st, Dep.require u c st ∈ ds → k ≤ ro.rank u) →
    BOut sem body (tdCheckDeps sem body f s ds) (fun s' _ => TPost ro sem body ch k s s')
  run : ∀ (s : Sess) (ch₀ : List Nat) (a ta : Nat) (p : Prog) (acc : Acc)
    (qt qr : List (Nat × Nat)),
    BI ro sem body s (ch₀ ++ [a]) [] [] → s.queue = [] →
    s.store.taskOf a = some ta → StaticRolesFrom ro ta acc p → AccOK s.store a acc →
    OneCk qt qr p → RunKeys qt qr (s.store.g.outgoingEdges a) →
    BOut sem body (tdRun sem body f s p) (fun s' v =>
      TPost ro sem body (ch₀ ++ [a]) (ro.rank ta) s s' ∧
      (∀ p ∈ s'.store.g.outgoingEdges a, p.2 ≠ .reserved) ∧
      ∃ new, s'.store.depsFrom a = s.store.depsFrom a ++ new ∧
        ReplayO sem p (s.store.depsFrom a) new v)

variable {ro sem body}

theorem NewCons.refl (k : Nat) (s : Sess) : NewCons ro k s s := fun _ hx => .inl hx

theorem NewCons.trans {k : Nat} {s s' s'' : Sess} (h₁ : NewCons ro k s s')
    (h₂ : NewCons ro k s' s'') (hle : s'.store.Le s''.store) : NewCons ro k s s'' := by
  intro x hx
  rcases h₂ x hx with h | h
  · rcases h₁ x h with h | ⟨t, ht, hk⟩
    · exact .inl h
    · exact .inr ⟨t, hle.task _ _ ht, hk⟩
  · exact .inr h

theorem NewCons.mono {k k' : Nat} {s s' : Sess} (h : NewCons ro k s s') (hk : k' ≤ k) :
    NewCons ro k' s s' := fun x hx => by
  rcases h x hx with h | ⟨t, ht, hkt⟩
  · exact .inl h
  · exact .inr ⟨t, ht, Nat.le_trans hk hkt⟩

theorem NewCons.of_eq {k : Nat} {s s' : Sess} (h : s'.consistent = s.consistent) :
    NewCons ro k s s' := fun _ hx => .inl (h ▸ hx)

namespace TPost
variable {ch : List Nat} {k k' : Nat} {s s' s'' : Sess}

theorem refl (h : BI ro sem body s ch [] []) (hq : s.queue = []) : TPost ro sem body ch k s s :=
  ⟨h, hq, BMono.refl _ _, NewCons.refl _ _⟩

theorem trans (h₁ : TPost ro sem body ch k s s') (h₂ : TPost ro sem body ch k s' s'') :
    TPost ro sem body ch k s s'' :=
  ⟨h₂.bi, h₂.q, h₁.mono.trans h₂.mono, h₁.newCons.trans h₂.newCons h₂.mono.le⟩

theorem weaken (h : TPost ro sem body ch k s s') (hk : k' ≤ k) : TPost ro sem body ch k' s s' :=
  ⟨h.bi, h.q, h.mono.mono hk, h.newCons.mono hk⟩

/-- Prefix by a step that keeps the records. -/
theorem left (h₂ : TPost ro sem body ch k s' s'') (hm : BMono ro k s s')
    (hc : s'.consistent = s.consistent) : TPost ro sem body ch k s s'' :=
  ⟨h₂.bi, h₂.q, hm.trans h₂.mono, (NewCons.of_eq hc).trans h₂.newCons h₂.mono.le⟩

end TPost

theorem TdR.zero : TdR ro sem body 0 := by
  refine ⟨?_, ?_, ?_, ?_, ?_, ?_⟩
  · intro s ch₀ a ta u c h _ _ _ _ _; unfold tdRequire; exact .abort h.base.faithful
  · intro s u c h _; unfold tdRequire; exact .abort h.base.faithful
  · intro s ch t h _ _; unfold tdMake; exact .abort h.base.faithful
  · intro s ch n t h _ _ _; unfold tdCheck; exact .abort h.base.faithful
  · intro s ch ds k h _ _ _; unfold tdCheckDeps; exact .abort h.base.faithful
  · intro s ch₀ a ta p acc qt qr h _ _ _ _ _ _; unfold tdRun; exact .abort h.base.faithful

end PieModel
