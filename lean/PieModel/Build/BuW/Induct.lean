/-
Bottom-up builds with reflexive checkers: the statement of the joint induction over the six
mutually recursive functions of the bottom-up context (`BuR`).

Whatever the result, the store is faithful (`FaithfulO`); if the call returns, the invariant `BI`
holds (for the same executing stack), the consistent tasks kept their records (`BMono`), and
`buRun` extended the record of the executing task by an ordered replay of the remaining body.
-/
import PieModel.Build.BuW.Sched
import PieModel.Build.BuW.Flat

namespace PieModel

variable (ro : Roles) (sem : Sem) (body : Nat → Prog)

/-- Result of a call: the store is faithful whatever the result; if the call returns, `Q`. -/
structure BOut {α : Type} (F : Sess × Res α) (Q : Sess → α → Prop) : Prop where
  faithful : FaithfulO sem body F.1.store
  ok : ∀ s' v, F = (s', .ok v) → Q s' v

/-- The (target, checker) pair of an edge of the executing task is among those accessed so far;
no edge is `reserved`. -/
def RunKey (qt qr : List (Nat × Nat)) : Dep → Prop
  | .reserved => False
  | .require u c _ => (u, c) ∈ qt
  | .read r c _ => (r, c) ∈ qr
  | .write _ _ _ => True

def RunKeys (qt qr : List (Nat × Nat)) (L : List (Nat × Dep)) : Prop :=
  ∀ p ∈ L, RunKey qt qr p.2

/-- The joint statement for fuel `f`. -/
structure BuR (f : Nat) : Prop where
  require : ∀ (s : Sess) (ch₀ : List Nat) (a ta : Nat) (X : List Nat) (u c : Nat),
    BI ro sem body s (ch₀ ++ [a]) X [] → (∀ x ∈ X, x ∈ ch₀ ++ [a]) →
    s.store.taskOf a = some ta → ro.rank ta < ro.rank u →
    (∀ p ∈ s.store.g.outgoingEdges a, p.2 ≠ .reserved) →
    (∀ d0, (nodeOf s u, d0) ∈ s.store.g.outgoingEdges a → ∃ st, d0 = .require u c st) →
    BOut sem body (buRequire sem body f s u c) (fun s' out =>
      BI ro sem body s' (ch₀ ++ [a]) X [] ∧ BMono ro (ro.rank ta) s s' ∧
      s'.store.taskOf (nodeOf s u) = some u ∧ s'.store.taskOutput (nodeOf s u) = some out ∧
      nodeOf s u ∈ s'.consistent ∧
      (((nodeOf s u, Dep.require u c (sem.ostamp c out)) ∈ s.store.g.outgoingEdges a ∧
          s'.store.g.outgoingEdges a = s.store.g.outgoingEdges a) ∨
       ((∀ d0, (nodeOf s u, d0) ∉ s.store.g.outgoingEdges a) ∧
          s'.store.g.outgoingEdges a =
            s.store.g.outgoingEdges a ++ [(nodeOf s u, .require u c (sem.ostamp c out))])))
  make : ∀ (s : Sess) (ch X : List Nat) (t node : Nat),
    BI ro sem body s ch X [] → (∀ x ∈ X, x ∈ ch) → s.store.taskOf node = some t →
    StackBelow ro s.store ch (ro.rank t) →
    BOut sem body (buMake sem body f s t node) (fun s' v =>
      BI ro sem body s' ch X [node] ∧ BMono ro (ro.rank t) s s' ∧
      s'.store.taskOutput node = some v)
  exec : ∀ (s : Sess) (ch X : List Nat) (t node : Nat),
    BI ro sem body s ch X [] → (∀ x ∈ X, x ∈ ch ∨ x = node) → s.store.taskOf node = some t →
    StackBelow ro s.store ch (ro.rank t) → node ∉ s.consistent →
    BOut sem body (buExec sem body f s t node) (fun s' v =>
      BI ro sem body s' ch X [node] ∧ BMono ro (ro.rank t) s s' ∧
      s'.store.taskOutput node = some v)
  execAndSchedule : ∀ (s : Sess) (ch X : List Nat) (node k : Nat),
    BI ro sem body s ch (node :: X) [] → (∀ x ∈ X, x ∈ ch) →
    StackBelow ro s.store ch k → (∀ t, s.store.taskOf node = some t → k ≤ ro.rank t) →
    BOut sem body (buExecAndSchedule sem body f s node) (fun s' v =>
      BI ro sem body s' ch X [] ∧ BMono ro k s s' ∧
      s'.store.taskOutput node = some v ∧ node ∈ s'.consistent)
  requireNow : ∀ (s : Sess) (ch X : List Nat) (src t : Nat),
    BI ro sem body s ch X [] → (∀ x ∈ X, x ∈ ch) → s.store.taskOf src = some t →
    StackBelow ro s.store ch (ro.rank t) →
    BOut sem body (buRequireNow sem body f s src) (fun s' o =>
      BI ro sem body s' ch X [] ∧ BMono ro (ro.rank t) s s' ∧
      (∀ v, o = some v → s'.store.taskOutput src = some v ∧ src ∈ s'.consistent) ∧
      (o = none → ∀ q ∈ s'.queue, ¬ InCone s'.store src q))
  run : ∀ (s : Sess) (ch₀ : List Nat) (a ta : Nat) (X : List Nat) (p : Prog) (acc : Acc)
    (qt qr : List (Nat × Nat)),
    BI ro sem body s (ch₀ ++ [a]) X [] → (∀ x ∈ X, x ∈ ch₀ ++ [a]) →
    s.store.taskOf a = some ta → StaticRolesFrom ro ta acc p → AccOK s.store a acc →
    OneCk qt qr p → RunKeys qt qr (s.store.g.outgoingEdges a) →
    BOut sem body (buRun sem body f s p) (fun s' v =>
      BI ro sem body s' (ch₀ ++ [a]) X [] ∧ BMono ro (ro.rank ta) s s' ∧
      (∀ p ∈ s'.store.g.outgoingEdges a, p.2 ≠ .reserved) ∧
      ∃ new, s'.store.depsFrom a = s.store.depsFrom a ++ new ∧
        ReplayO sem p (s.store.depsFrom a) new v)

variable {ro sem body}

namespace BOut
variable {α : Type} {F : Sess × Res α} {Q Q' : Sess → α → Prop}

theorem abort {s₁ : Sess} {a : Abort} (h : FaithfulO sem body s₁.store) :
    BOut sem body (s₁, (.abort a : Res α)) Q := ⟨h, fun _ _ heq => by cases heq⟩

theorem ret {s₁ : Sess} {v : α} (hf : FaithfulO sem body s₁.store) (hq : Q s₁ v) :
    BOut sem body (s₁, .ok v) Q := ⟨hf, fun _ _ heq => by cases heq; exact hq⟩

theorem faithful_of {s₁ : Sess} {r : Res α} (o : BOut sem body F Q) (heq : F = (s₁, r)) :
    FaithfulO sem body s₁.store := by
  have := o.faithful; rw [heq] at this; exact this

theorem mono (o : BOut sem body F Q) (hq : ∀ s' v, Q s' v → Q' s' v) : BOut sem body F Q' :=
  ⟨o.faithful, fun s' v heq => hq s' v (o.ok s' v heq)⟩

end BOut

theorem BuR.zero : BuR ro sem body 0 := by
  refine ⟨?_, ?_, ?_, ?_, ?_, ?_⟩
  · intro s ch₀ a ta X u c h _ _ _ _ _; unfold buRequire; exact .abort h.base.faithful
  · intro s ch X t n h _ _ _; unfold buMake; exact .abort h.base.faithful
  · intro s ch X t n h _ _ _ _; unfold buExec; exact .abort h.base.faithful
  · intro s ch X n k h _ _ _; unfold buExecAndSchedule; exact .abort h.base.faithful
  · intro s ch X n t h _ _ _; unfold buRequireNow; exact .abort h.base.faithful
  · intro s ch₀ a ta X p acc qt qr h _ _ _ _ _ _; unfold buRun; exact .abort h.base.faithful

end PieModel
