/-
Bottom-up builds WITHOUT any assumption on the checkers, for programs that access every
dependency target at most once per execution path (`OneAccess`): every function of the bottom-up
context preserves the weak invariant `WInv` (`FaithfulO` in particular), whatever the result.

No invariant on `consistent` or on the queue is needed: the record of the executing task is, in
order, the list of its accesses with the stamps of the values it saw, whatever stale outputs
`buMake` returns and however often consistent tasks are executed again — because no edge of the
executing task is ever overwritten.  The frame argument is by rank (`SameBelowEx`): everything
executed inside a require of `u` has rank `≥ rank u`.
-/
import PieModel.Build.BuW.Require

namespace PieModel

variable (ro : Roles) (sem : Sem) (body : Nat → Prog)

/-- A returning call: the weak invariant holds, `cur` is restored, and the records of the task
nodes of rank `< k` (except `ex`) are untouched. -/
structure WStep (k : Nat) (ex : Option Nat) (s s' : Sess) : Prop where
  inv : WInv ro sem body s'
  le : s.store.Le s'.store
  cur : s'.cur = s.cur
  below : ∀ n t, s.store.taskOf n = some t → ro.rank t < k → ex ≠ some n → Same s s' n

/-- The targets of the edges of the executing task are among the tasks / resources accessed so
far; no edge is `reserved`. -/
def RunKeyS (qt qr : List Nat) : Dep → Prop
  | .reserved => False
  | .require u _ _ => u ∈ qt
  | .read r _ _ => r ∈ qr
  | .write _ _ _ => True

def RunKeysS (qt qr : List Nat) (L : List (Nat × Dep)) : Prop := ∀ p ∈ L, RunKeyS qt qr p.2

/-- The joint statement for fuel `f`. -/
structure SuR (f : Nat) : Prop where
  require : ∀ (s : Sess) (a ta u c : Nat), WInv ro sem body s → s.cur = some a →
    s.store.taskOf a = some ta → ro.rank ta < ro.rank u →
    (∀ d0, (nodeOf s u, d0) ∉ s.store.g.outgoingEdges a) →
    BOut sem body (buRequire sem body f s u c) (fun s' out =>
      WStep ro sem body (ro.rank u) (some a) s s' ∧
      s'.store.g.outgoingEdges a =
        s.store.g.outgoingEdges a ++ [(nodeOf s u, .require u c (sem.ostamp c out))])
  make : ∀ (s : Sess) (t node : Nat), WInv ro sem body s → s.store.taskOf node = some t →
    CurBelow ro (ro.rank t) s →
    BOut sem body (buMake sem body f s t node) (fun s' _ => WStep ro sem body (ro.rank t) none s s')
  exec : ∀ (s : Sess) (t node : Nat), WInv ro sem body s → s.store.taskOf node = some t →
    CurBelow ro (ro.rank t) s →
    BOut sem body (buExec sem body f s t node) (fun s' _ => WStep ro sem body (ro.rank t) none s s')
  execAndSchedule : ∀ (s : Sess) (node k : Nat), WInv ro sem body s → CurBelow ro k s →
    (∀ t, s.store.taskOf node = some t → k ≤ ro.rank t) →
    BOut sem body (buExecAndSchedule sem body f s node) (fun s' _ => WStep ro sem body k none s s')
  requireNow : ∀ (s : Sess) (src t : Nat), WInv ro sem body s → s.store.taskOf src = some t →
    CurBelow ro (ro.rank t) s →
    BOut sem body (buRequireNow sem body f s src)
      (fun s' _ => WStep ro sem body (ro.rank t) none s s')
  run : ∀ (s : Sess) (a ta : Nat) (p : Prog) (acc : Acc) (qt qr : List Nat),
    WInv ro sem body s → s.cur = some a → s.store.taskOf a = some ta →
    StaticRolesFrom ro ta acc p → AccOK s.store a acc → NoRep qt qr p →
    RunKeysS qt qr (s.store.g.outgoingEdges a) →
    BOut sem body (buRun sem body f s p) (fun s' v =>
      WStep ro sem body (ro.rank ta) none s s' ∧
      (∀ p ∈ s'.store.g.outgoingEdges a, p.2 ≠ .reserved) ∧
      ∃ new, s'.store.depsFrom a = s.store.depsFrom a ++ new ∧
        ReplayO sem p (s.store.depsFrom a) new v)

variable {ro sem body}

namespace WStep
variable {k k' : Nat} {ex : Option Nat} {s s' s'' : Sess}

theorem refl (h : WInv ro sem body s) : WStep ro sem body k ex s s :=
  ⟨h, Store.Le.refl _, rfl, fun _ _ _ _ _ => Same.refl _ _⟩

theorem trans (h₁ : WStep ro sem body k ex s s') (h₂ : WStep ro sem body k ex s' s'') :
    WStep ro sem body k ex s s'' :=
  ⟨h₂.inv, h₁.le.trans h₂.le, h₂.cur.trans h₁.cur, fun n t ht hk he =>
    (h₁.below n t ht hk he).trans (h₂.below n t (h₁.le.task _ _ ht) hk he)⟩

theorem mono (h : WStep ro sem body k ex s s') (hk : k' ≤ k) : WStep ro sem body k' ex s s' :=
  ⟨h.inv, h.le, h.cur, fun n t ht hlt he => h.below n t ht (Nat.lt_of_lt_of_le hlt hk) he⟩

/-- Forget the exception. -/
theorem add (h : WStep ro sem body k none s s') : WStep ro sem body k ex s s' :=
  ⟨h.inv, h.le, h.cur, fun n t ht hlt _ => h.below n t ht hlt (fun hh => nomatch hh)⟩

/-- The excepted node has rank `≥ k` anyway. -/
theorem drop {a ta : Nat} (h : WStep ro sem body k (some a) s s') (hta : s.store.taskOf a = some ta)
    (hk : k ≤ ro.rank ta) : WStep ro sem body k none s s' :=
  ⟨h.inv, h.le, h.cur, fun n t ht hlt _ => h.below n t ht hlt (fun hh => by
    cases hh
    rw [hta] at ht; cases ht
    exact absurd hlt (Nat.not_lt.mpr hk))⟩

/-- A primitive step of the executing task. -/
theorem of_pstep (p : PStep ro sem body s s') {a : Nat} (hc : s.cur = some a) :
    WStep ro sem body k (some a) s s' :=
  ⟨p.inv, p.le, p.cur, fun n _ _ _ he => p.same n (fun hh => he (by rw [← hh, hc]))⟩

end WStep

/-- Only fields the weak invariant does not look at changed. -/
theorem WInv.of_core {s s' : Sess} (h : WInv ro sem body s) (hwf : SessWF s')
    (hst : s'.store = s.store) (hnd : (akeys s'.fs).Nodup) (hcur : s'.cur = s.cur) :
    WInv ro sem body s' :=
  ⟨hwf, hst ▸ h.roles, hst ▸ h.faithful, hnd, fun n hn => by
    rw [hst]; exact h.curFree n (hcur ▸ hn)⟩

theorem WStep.of_core {k : Nat} {ex : Option Nat} {s s' : Sess} (h : WInv ro sem body s)
    (hwf : SessWF s') (hst : s'.store = s.store) (hnd : (akeys s'.fs).Nodup)
    (hcur : s'.cur = s.cur) : WStep ro sem body k ex s s' :=
  ⟨h.of_core hwf hst hnd hcur, hst ▸ Store.Le.refl _, hcur,
    fun n _ _ _ _ => ⟨by rw [hst], by rw [hst]⟩⟩

theorem SuR.zero : SuR ro sem body 0 := by
  refine ⟨?_, ?_, ?_, ?_, ?_, ?_⟩
  · intro s a ta u c h _ _ _ _; unfold buRequire; exact .abort h.faithful
  · intro s t n h _ _; unfold buMake; exact .abort h.faithful
  · intro s t n h _ _; unfold buExec; exact .abort h.faithful
  · intro s n k h _ _; unfold buExecAndSchedule; exact .abort h.faithful
  · intro s n t h _ _; unfold buRequireNow; exact .abort h.faithful
  · intro s a ta p acc qt qr h _ _ _ _ _ _; unfold buRun; exact .abort h.faithful

/-! ### the successor steps -/

theorem SuR.require_succ {f : Nat} (ih : SuR ro sem body f) (s : Sess) (a ta u c : Nat)
    (h : WInv ro sem body s) (hca : s.cur = some a) (hta : s.store.taskOf a = some ta)
    (hlt : ro.rank ta < ro.rank u)
    (hno : ∀ d0, (nodeOf s u, d0) ∉ s.store.g.outgoingEdges a) :
    BOut sem body (buRequire sem body (f + 1) s u c) (fun s' out =>
      WStep ro sem body (ro.rank u) (some a) s s' ∧
      s'.store.g.outgoingEdges a =
        s.store.g.outgoingEdges a ++ [(nodeOf s u, .require u c (sem.ostamp c out))]) := by
  have hw := h.wf.store
  unfold buRequire; simp only []
  obtain ⟨p1, hs1⟩ := h.getTask u (s' := reqStart s u c) rfl rfl rfl rfl rfl
  have hd1 : (reqStart s u c).store.taskOf (nodeOf s u) = some u :=
    Store.taskOf_getOrCreateTaskNode_self hw u
  have hta1 : (reqStart s u c).store.taskOf a = some ta := p1.le.task _ _ hta
  have hc1 : (reqStart s u c).cur = some a := p1.cur.trans hca
  have hpre1 : ReqPre ro (reqStart s u c) u := fun cur hcur => by
    have : cur = a := Option.some.inj (hcur.symm.trans hc1)
    subst this; exact ⟨ta, hta1, hlt⟩
  have w1 : WStep ro sem body (ro.rank u) (some a) s (reqStart s u c) := .of_pstep p1 hca
  split
  next s2 a' heq2 => exact .abort (reserveRequire_w p1.inv hd1 hpre1 heq2).1.inv.faithful
  next s2 heq2 =>
    obtain ⟨p2, _, e2⟩ := reserveRequire_w p1.inv hd1 hpre1 heq2
    obtain ⟨_, halt⟩ := e2 rfl a hc1
    have w2 : WStep ro sem body (ro.rank u) (some a) (reqStart s u c) s2 := .of_pstep p2 hc1
    have hta2 : s2.store.taskOf a = some ta := p2.le.task _ _ hta1
    have hd2 : s2.store.taskOf (nodeOf s u) = some u := p2.le.task _ _ hd1
    have hc2 : s2.cur = some a := p2.cur.trans hc1
    have hcb2 : CurBelow ro (ro.rank u) s2 := fun cur hcur => by
      have : cur = a := Option.some.inj (hcur.symm.trans hc2)
      subst this; exact ⟨ta, hta2, hlt⟩
    have IHm := ih.make s2 u (nodeOf s u) p2.inv hd2 hcb2
    split
    next s3 a' heq3 => exact .abort (IHm.faithful_of heq3)
    next s3 out heq3 =>
      have w3 := IHm.ok s3 out heq3
      have hd3 : s3.store.taskOf (nodeOf s u) = some u := w3.le.task _ _ hd2
      have p3 := w3.inv.emit (.requireEnd u c (sem.ostamp c out) out)
      have hc3 : (s3.emit (.requireEnd u c (sem.ostamp c out) out)).cur = some a := by
        show s3.cur = some a
        rw [w3.cur]; exact hc2
      split
      next s4 a' heq4 =>
        exact .abort (updateRequire_w p3.inv hd3 c (sem.ostamp c out) heq4).1.inv.faithful
      next s4 heq4 =>
        obtain ⟨p4, _, e4⟩ := updateRequire_w p3.inv hd3 c (sem.ostamp c out) heq4
        have hoe4 := e4 rfl a hc3
        have w34 : WStep ro sem body (ro.rank u) (some a) s3 s4 :=
          (WStep.of_pstep (p3.trans p4) (by rw [w3.cur]; exact hc2))
        have w45 : WStep ro sem body (ro.rank u) (some a) s4 (s4.markConsistent (nodeOf s u)) :=
          WStep.of_core p4.inv (p4.inv.wf.markConsistent _) (by simp) (by simpa using p4.inv.nodup)
            (by simp)
        refine .ret w45.inv.faithful ⟨(((w1.trans w2).trans w3.add).trans w34).trans w45, ?_⟩
        have hsame23 : Same s2 s3 a := w3.below a ta hta2 hlt (fun hh => nomatch hh)
        have hupd : EdgeUpdO (s.store.g.outgoingEdges a) (s4.store.g.outgoingEdges a) (nodeOf s u)
            (.require u c (sem.ostamp c out)) := by
          apply edgeUpdO_of (Lc := s2.store.g.outgoingEdges a)
          · rw [← (hs1 a).2]; exact halt
          · rw [hoe4]
            show (s3.store.g.outgoingEdges a).map _ = _
            rw [hsame23.2]
        rw [Sess.store_markConsistent]
        rcases hupd with ⟨⟨d0, hd0⟩, _⟩ | ⟨_, hLf⟩
        · exact absurd hd0 (hno d0)
        · exact hLf

section
variable (hwf : WellFormedBody ro body) (hone : ∀ t, OneAccess (body t))
include hwf hone

theorem SuR.exec_succ {f : Nat} (ih : SuR ro sem body f) (s : Sess) (t node : Nat)
    (h : WInv ro sem body s) (ht : s.store.taskOf node = some t)
    (hcb : CurBelow ro (ro.rank t) s) :
    BOut sem body (buExec sem body (f + 1) s t node)
      (fun s' _ => WStep ro sem body (ro.rank t) none s s') := by
  have hw := h.wf.store
  have hwfS := ((buRoles (sem := sem) hwf (f + 1)).exec s t node h.wf h.roles ht).rext.wf
  unfold buExec at hwfS ⊢
  simp only at hwfS ⊢
  obtain ⟨h1, hs1, he1, _⟩ := h.startExec ht (.executeStart t)
  generalize hS1 : (({ s with store := s.store.resetTask node, cur := some node } : Sess).emit
    (.executeStart t)) = S1 at hwfS h1 hs1 ⊢
  have hst1 : S1.store = s.store.resetTask node := by rw [← hS1]; rfl
  have hle1 : s.store.Le S1.store := hst1 ▸ Store.le_resetTask hw node
  have hoe1 : S1.store.g.outgoingEdges node = [] := by rw [hst1]; exact he1
  have ht1 : S1.store.taskOf node = some t := hle1.task _ _ ht
  have IH := ih.run S1 node t (body t) {} [] [] h1 (by rw [← hS1]; rfl) ht1 (hwf t)
    (by rw [hst1]; exact AccOK.start hw node) (hone t) (by rw [hoe1]; intro p hp; cases hp)
  split
  next s2 a' heq2 => exact .abort (IH.faithful_of heq2)
  next s2 o heq2 =>
    rw [heq2] at hwfS
    simp only at hwfS
    obtain ⟨w2, _, new, hnew, hrep⟩ := IH.ok s2 o heq2
    have hd1 : S1.store.depsFrom node = [] := by rw [Store.depsFrom_eq, hoe1]; rfl
    rw [hd1, List.nil_append] at hnew
    rw [hd1] at hrep
    have ht2 : s2.store.taskOf node = some t := w2.le.task _ _ ht1
    -- the previous executing task keeps having no output
    have hprev : ∀ c, s.cur = some c → c ≠ node ∧ s2.store.taskOutput c = none := by
      intro c hc
      obtain ⟨tc, htc, hlt⟩ := hcb c hc
      have hcn : c ≠ node := by
        rintro rfl
        rw [ht] at htc; cases htc
        exact Nat.lt_irrefl _ hlt
      refine ⟨hcn, ?_⟩
      rw [(w2.below c tc (hle1.task _ _ htc) hlt (fun hh => nomatch hh)).1, (hs1 c hcn).1]
      exact h.curFree c hc
    obtain ⟨h3, hs3, _, _⟩ := w2.inv.endExec (node := node) (t := t) (o := o)
      (s' := { (s2.emit (.executeEnd t o)) with
        cur := s.cur, store := (s2.emit (.executeEnd t o)).store.setTaskOutput node o })
      ht2 (by rw [hnew]; exact hrep) rfl rfl hwfS hprev
    refine .ret h3.faithful ⟨h3, (hle1.trans w2.le).trans (Store.le_setTaskOutput _ node o), rfl, ?_⟩
    intro n t' ht' hlt _
    have hxn : n ≠ node := by
      rintro rfl
      rw [ht] at ht'; cases ht'
      exact Nat.lt_irrefl _ hlt
    exact ((hs1 n hxn).trans (w2.below n t' (hle1.task _ _ ht') hlt (fun hh => nomatch hh))).trans
      (hs3 n hxn)

omit hwf hone in
theorem SuR.execAndSchedule_succ {f : Nat} (ih : SuR ro sem body f) (s : Sess) (node k : Nat)
    (h : WInv ro sem body s) (hcb : CurBelow ro k s)
    (hk : ∀ t, s.store.taskOf node = some t → k ≤ ro.rank t) :
    BOut sem body (buExecAndSchedule sem body (f + 1) s node)
      (fun s' _ => WStep ro sem body k none s s') := by
  unfold buExecAndSchedule
  split
  · exact .abort h.faithful
  next t ht =>
    have hkt := hk t ht
    have IH := ih.exec s t node h ht (fun c hc => by
      obtain ⟨tc, h1, h2⟩ := hcb c hc
      exact ⟨tc, h1, Nat.lt_of_lt_of_le h2 hkt⟩)
    split
    next s2 a heq => exact .abort (IH.faithful_of heq)
    next s2 o heq =>
      have w2 := (IH.ok s2 o heq).mono hkt
      have w3 : WStep ro sem body k none s2 (scheduleAfterExec sem s2 node t o) :=
        WStep.of_core w2.inv (scheduleAfterExec_ext sem w2.inv.wf node t o).wf
          (store_scheduleAfterExec sem s2 node t o)
          ((ext_scheduleAfterExec sem s2 node t o).fsKeys w2.inv.nodup)
          (cur_scheduleAfterExec sem s2 node t o)
      exact .ret w3.inv.faithful (w2.trans w3)

omit hwf hone in
theorem SuR.requireNow_succ {f : Nat} (ih : SuR ro sem body f) (s : Sess) (src t : Nat)
    (h : WInv ro sem body s) (ht : s.store.taskOf src = some t)
    (hcb : CurBelow ro (ro.rank t) s) :
    BOut sem body (buRequireNow sem body (f + 1) s src)
      (fun s' _ => WStep ro sem body (ro.rank t) none s s') := by
  have hw := h.wf.store
  unfold buRequireNow
  split
  · exact .ret h.faithful (WStep.refl h)
  · split
    · exact .ret h.faithful (WStep.refl h)
    next m q' hpop =>
      have hwf1 : SessWF { s with queue := q' } :=
        (h.wf.subQueue (fun _ hm => queuePopLeastFrom_rest_subset hpop hm)).wf
      have w1 : WStep ro sem body (ro.rank t) none s { s with queue := q' } :=
        WStep.of_core h hwf1 rfl h.nodup rfl
      obtain ⟨_, _, _, _, hcone, _⟩ := queuePopLeastFrom_eq_some hpop
      have hrank : ∀ t', s.store.taskOf m = some t' → ro.rank t ≤ ro.rank t' := by
        intro t' ht'
        rcases inCone_iff.mp hcone with rfl | hct
        · rw [ht] at ht'; cases ht'; exact Nat.le_refl _
        · exact Nat.le_of_lt
            (h.roles.reach_rank ((hw.containsTransitive_iff src m).mp hct) ht ht')
      have IH := ih.execAndSchedule { s with queue := q' } m (ro.rank t) w1.inv hcb hrank
      split
      next s2 a heq => exact .abort (IH.faithful_of heq)
      next s2 o heq =>
        have w2 := w1.trans (IH.ok s2 o heq)
        split
        · exact .ret w2.inv.faithful w2
        · have IH2 := ih.requireNow s2 src t w2.inv (w2.le.task _ _ ht) (fun c hc => by
            obtain ⟨tc, h1, h2⟩ := hcb c (by rw [← w2.cur]; exact hc)
            exact ⟨tc, w2.le.task _ _ h1, h2⟩)
          exact IH2.mono (fun s3 _ w3 => w2.trans w3)

omit hwf hone in
theorem SuR.make_succ {f : Nat} (ih : SuR ro sem body f) (s : Sess) (t node : Nat)
    (h : WInv ro sem body s) (ht : s.store.taskOf node = some t)
    (hcb : CurBelow ro (ro.rank t) s) :
    BOut sem body (buMake sem body (f + 1) s t node)
      (fun s' _ => WStep ro sem body (ro.rank t) none s s') := by
  unfold buMake
  split
  · split
    · exact .ret h.faithful (WStep.refl h)
    · exact .abort h.faithful
  · split
    · exact ih.exec s t node h ht hcb
    · have IH := ih.requireNow s node t h ht hcb
      split
      next s2 a heq => exact .abort (IH.faithful_of heq)
      next s2 o heq => exact .ret (IH.ok s2 _ heq).inv.faithful (IH.ok s2 _ heq)
      next s2 heq =>
        split
        · exact .ret (IH.ok s2 _ heq).inv.faithful (IH.ok s2 _ heq)
        · exact .abort (IH.ok s2 _ heq).inv.faithful

end

end PieModel
