/-
Top-down building from a session whose `consistent` set is arbitrary: the successor steps.
-/
import PieModel.Build.BuW.TdInduct
import PieModel.Build.BuW.Require
import PieModel.Build.BuW.Run

namespace PieModel

variable {ro : Roles} {sem : Sem} {body : Nat → Prog}

/-- A primitive step of the top of the stack as a `TPost`. -/
theorem TPost.of_pstep {s s' : Sess} {ch₀ : List Nat} {a ta : Nat}
    (h : BI ro sem body s (ch₀ ++ [a]) [] []) (hq : s.queue = [])
    (hta : s.store.taskOf a = some ta) (p : PStep ro sem body s s')
    (hbi : BI ro sem body s' (ch₀ ++ [a]) [] []) :
    TPost ro sem body (ch₀ ++ [a]) (ro.rank ta) s s' :=
  ⟨hbi, p.queue.trans hq, BMono.of_pstep p h.cur_top hta (Nat.le_refl _) h.top_not_cons,
    NewCons.of_eq p.cons⟩

theorem TdR.require_succ {f : Nat} (ih : TdR ro sem body f) (s : Sess) (ch₀ : List Nat)
    (a ta : Nat) (u c : Nat)
    (h : BI ro sem body s (ch₀ ++ [a]) [] []) (hq : s.queue = [])
    (hta : s.store.taskOf a = some ta) (hlt : ro.rank ta < ro.rank u)
    (_hnr : ∀ p ∈ s.store.g.outgoingEdges a, p.2 ≠ .reserved)
    (hex : ∀ d0, (nodeOf s u, d0) ∈ s.store.g.outgoingEdges a → ∃ st, d0 = .require u c st) :
    BOut sem body (tdRequire sem body (f + 1) s u c) (fun s' out =>
      TPost ro sem body (ch₀ ++ [a]) (ro.rank ta) s s' ∧
      s'.store.taskOf (nodeOf s u) = some u ∧ s'.store.taskOutput (nodeOf s u) = some out ∧
      nodeOf s u ∈ s'.consistent ∧
      (((nodeOf s u, Dep.require u c (sem.ostamp c out)) ∈ s.store.g.outgoingEdges a ∧
          s'.store.g.outgoingEdges a = s.store.g.outgoingEdges a) ∨
       ((∀ d0, (nodeOf s u, d0) ∉ s.store.g.outgoingEdges a) ∧
          s'.store.g.outgoingEdges a =
            s.store.g.outgoingEdges a ++ [(nodeOf s u, .require u c (sem.ostamp c out))]))) := by
  have hw := h.sw
  have hca := h.cur_top
  unfold tdRequire; simp only []
  obtain ⟨p1, hs1⟩ := h.base.getTask u (s' := reqStart s u c) rfl rfl rfl rfl rfl
  have hbi1 : BI ro sem body (reqStart s u c) (ch₀ ++ [a]) [] [] :=
    h.step none p1.inv p1.le p1.cur p1.queue p1.cons p1.out (fun x _ => (hs1 x).2)
      (fun r _ => rfl) (fun a ha => nomatch ha)
  have hq1 : (reqStart s u c).queue = [] := hq
  have hd1 : (reqStart s u c).store.taskOf (nodeOf s u) = some u :=
    Store.taskOf_getOrCreateTaskNode_self hw u
  have hta1 : (reqStart s u c).store.taskOf a = some ta := p1.le.task _ _ hta
  have hc1 : (reqStart s u c).cur = some a := p1.cur.trans hca
  have hpre1 : ReqPre ro (reqStart s u c) u := fun cur hcur => by
    have : cur = a := Option.some.inj (hcur.symm.trans hc1)
    subst this; exact ⟨ta, hta1, hlt⟩
  have hm1 : BMono ro (ro.rank ta) s (reqStart s u c) :=
    BMono.of_same p1.le p1.cur (fun x hx => p1.cons ▸ hx) hs1
  have hnode1 : nodeOf (reqStart s u c) u = nodeOf s u := nodeOf_eq p1.inv.wf.store hd1
  split
  next s2 a' heq2 => exact .abort (reserveRequire_w p1.inv hd1 hpre1 heq2).1.inv.faithful
  next s2 heq2 =>
    obtain ⟨p2, f2, e2⟩ := reserveRequire_w p1.inv hd1 hpre1 heq2
    obtain ⟨_, halt⟩ := e2 rfl a hc1
    have hta2 : s2.store.taskOf a = some ta := p2.le.task _ _ hta1
    have hd2 : s2.store.taskOf (nodeOf s u) = some u := p2.le.task _ _ hd1
    have hq2 : s2.queue = [] := p2.queue.trans hq1
    have hbi2 : BI ro sem body s2 (ch₀ ++ [a]) [] [] := by
      refine hbi1.stepTop hta1 p2 (fun r _ => by rw [f2]) (fun _ _ r _ _ _ => by rw [f2]) ?_
      intro p hp
      rcases halt with ⟨_, he⟩ | ⟨_, he⟩
      · rw [he] at hp; exact .inl hp
      · rw [he] at hp
        rcases List.mem_append.mp hp with hp | hp
        · exact .inl hp
        · simp only [List.mem_singleton] at hp; subst hp; exact .inr trivial
    have hpost2 : TPost ro sem body (ch₀ ++ [a]) (ro.rank ta) (reqStart s u c) s2 :=
      TPost.of_pstep hbi1 hq1 hta1 p2 hbi2
    have hnode2 : nodeOf s2 u = nodeOf s u := nodeOf_eq p2.inv.wf.store hd2
    have IHm := ih.make s2 (ch₀ ++ [a]) u hbi2 hq2 (hbi2.stackBelow_top hta2 hlt)
    split
    next s3 a' heq3 => exact .abort (IHm.faithful_of heq3)
    next s3 out heq3 =>
      obtain ⟨hpost3, htask3, hout3, hcons3⟩ := IHm.ok s3 out heq3
      rw [hnode2] at htask3 hout3 hcons3
      have hbi3 := hpost3.bi
      have hm3 := hpost3.mono
      have hta3 : s3.store.taskOf a = some ta := hm3.le.task _ _ hta2
      have hbi3' := hbi3.emit (.requireEnd u c (sem.ostamp c out) out)
      have hq3' : (s3.emit (.requireEnd u c (sem.ostamp c out) out)).queue = [] := hpost3.q
      have hc3 : (s3.emit (.requireEnd u c (sem.ostamp c out) out)).cur = some a := by
        show s3.cur = some a
        rw [hm3.cur, p2.cur]; exact hc1
      split
      next s4 a' heq4 =>
        exact .abort (updateRequire_w hbi3'.base htask3 c (sem.ostamp c out) heq4).1.inv.faithful
      next s4 heq4 =>
        obtain ⟨p4, f4, e4⟩ := updateRequire_w hbi3'.base htask3 c (sem.ostamp c out) heq4
        have hoe4 := e4 rfl a hc3
        have hout4 : s4.store.taskOutput (nodeOf s u) = some out := by
          rw [p4.out]; exact hout3
        have hbi4 : BI ro sem body s4 (ch₀ ++ [a]) [] [] := by
          refine hbi3'.stepTop hta3 p4 (fun r _ => by rw [f4]) (fun _ _ r _ _ _ => by rw [f4]) ?_
          intro p hp
          rw [hoe4] at hp
          obtain ⟨q, hq', rfl⟩ := List.mem_map.mp hp
          by_cases hq1' : q.1 = nodeOf s u
          · rw [if_pos hq1']
            refine .inr ⟨?_, out, ?_, rfl⟩
            · rw [hq1', p4.cons]; exact List.mem_append_left _ hcons3
            · rw [hq1']; exact hout4
          · rw [if_neg hq1']; exact .inl hq'
        have hpost4 : TPost ro sem body (ch₀ ++ [a]) (ro.rank ta)
            (s3.emit (.requireEnd u c (sem.ostamp c out) out)) s4 :=
          TPost.of_pstep hbi3' hq3' hta3 p4 hbi4
        have hm34 : BMono ro (ro.rank ta) s3 (s3.emit (.requireEnd u c (sem.ostamp c out) out)) :=
          BMono.of_same (Store.Le.refl _) rfl (fun _ hx => hx) (fun _ => ⟨rfl, rfl⟩)
        have hall : TPost ro sem body (ch₀ ++ [a]) (ro.rank ta) s s4 :=
          ((hpost2.trans (hpost3.weaken (Nat.le_of_lt hlt))).trans (hpost4.left hm34 rfl)).left hm1
            p1.cons
        refine .ret hbi4.base.faithful ⟨hall, p4.le.task _ _ htask3, hout4,
          by rw [p4.cons]; exact hcons3, ?_⟩
        have hsame23 : Same s2 s3 a := hm3.below a ta hta2 hlt
        have hupd : EdgeUpdO (s.store.g.outgoingEdges a) (s4.store.g.outgoingEdges a) (nodeOf s u)
            (.require u c (sem.ostamp c out)) := by
          apply edgeUpdO_of (Lc := s2.store.g.outgoingEdges a)
          · rw [← (hs1 a).2]; exact halt
          · rw [hoe4]
            show (s3.store.g.outgoingEdges a).map _ = _
            rw [hsame23.2]
        rcases hupd with ⟨⟨d0, hd0⟩, hLf⟩ | ⟨hno, hLf⟩
        · left
          obtain ⟨st0, rfl⟩ := hex d0 hd0
          obtain ⟨hdc, o0, ho0, hst0⟩ := h.st a (by simp) _ hd0
          have hdc' : nodeOf s u ∈ s.consistent := by simpa using hdc
          have : s4.store.taskOutput (nodeOf s u) = s.store.taskOutput (nodeOf s u) :=
            (hall.mono.same _ hdc').1
          rw [hout4, ho0] at this
          cases this
          rw [hst0] at hd0
          exact ⟨hd0, by rw [hLf]; exact map_replace_self (hw.outgoingEdges_fst_nodup a) hd0⟩
        · exact .inr ⟨hno, hLf⟩

theorem TdR.requireRoot_succ {f : Nat} (ih : TdR ro sem body f) (s : Sess) (u c : Nat)
    (h : BI ro sem body s [] [] []) (hq : s.queue = []) :
    BOut sem body (tdRequire sem body (f + 1) s u c)
      (fun s' _ => TPost ro sem body [] 0 s s') := by
  have hcn : s.cur = none := h.cur
  unfold tdRequire; simp only []
  obtain ⟨p1, hs1⟩ := h.base.getTask u (s' := reqStart s u c) rfl rfl rfl rfl rfl
  have hbi1 : BI ro sem body (reqStart s u c) [] [] [] :=
    h.step none p1.inv p1.le p1.cur p1.queue p1.cons p1.out (fun x _ => (hs1 x).2)
      (fun r _ => rfl) (fun a ha => nomatch ha)
  have hc1 : (reqStart s u c).cur = none := hcn
  have hm1 : BMono ro 0 s (reqStart s u c) :=
    BMono.of_same p1.le p1.cur (fun x hx => p1.cons ▸ hx) hs1
  have IHm := ih.make (reqStart s u c) [] u hbi1 hq (fun _ hx => nomatch hx)
  split
  next s2 a' heq2 =>
    obtain ⟨_, h2⟩ := reserveRequire_none' heq2 hc1
    cases h2
  next s2 heq2 =>
    obtain ⟨h2, _⟩ := reserveRequire_none' heq2 hc1
    subst h2
    split
    next s3 a' heq3 => exact .abort (IHm.faithful_of heq3)
    next s3 out heq3 =>
      obtain ⟨hpost3, _, _, _⟩ := IHm.ok s3 out heq3
      have hc3 : (s3.emit (.requireEnd u c (sem.ostamp c out) out)).cur = none := by
        show s3.cur = none
        rw [hpost3.mono.cur]; exact hc1
      have hbi3' := hpost3.bi.emit (.requireEnd u c (sem.ostamp c out) out)
      split
      next s4 a' heq4 =>
        obtain ⟨_, h4⟩ := updateRequire_none' heq4 hc3
        cases h4
      next s4 heq4 =>
        obtain ⟨h4, _⟩ := updateRequire_none' heq4 hc3
        subst h4
        refine .ret hbi3'.base.faithful ?_
        exact ((hpost3.weaken (Nat.zero_le _)).left hm1 p1.cons).trans
          ⟨hbi3', hpost3.q,
            BMono.of_same (Store.Le.refl _) rfl (fun _ hx => hx) (fun _ => ⟨rfl, rfl⟩),
            NewCons.of_eq rfl⟩

end PieModel
