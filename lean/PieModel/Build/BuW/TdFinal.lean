/-
Top-down building from a session whose `consistent` set is arbitrary: the joint induction, and
`sessionRequire`, `requireAll`.
-/
import PieModel.Build.BuW.TdMake

namespace PieModel

variable {ro : Roles} {sem : Sem} {body : Nat → Prog}

section
variable (hst : StampTotal sem) (hwf : WellFormedBody ro body) (hone : ∀ t, OneChecker (body t))
include hst hwf hone

theorem tdR (f : Nat) : TdR ro sem body f := by
  induction f with
  | zero => exact TdR.zero
  | succ f ih =>
    exact ⟨ih.require_succ, ih.requireRoot_succ, TdR.make_succ hwf hone ih, ih.check_succ,
      ih.checkDeps_succ, ih.run_succ hst hwf⟩

/-- `Session::require` from a state with nothing executing and nothing busy. -/
theorem sessionRequire_bi (f : Nat) (s : Sess) (t : Nat) (h : BI ro sem body s [] [] [])
    (hq : s.queue = []) :
    BOut sem body (sessionRequire sem body f s t)
      (fun s' _ => BI ro sem body s' [] [] [] ∧ s'.queue = []) := by
  unfold sessionRequire; simp only []
  have hc : s.cur = none := h.cur
  have h0 : BI ro sem body (({ s with cur := none } : Sess).emit .buildStart) [] [] [] :=
    h.of_eq rfl rfl (by simp [hc]) rfl rfl
  have key := (tdR hst hwf hone f).requireRoot _ t alwaysChecker h0 hq
  split
  next s2 a heq => exact .abort (key.faithful_of heq)
  next s2 o heq =>
    have hp := key.ok s2 o heq
    exact .ret (hp.bi.emit .buildEnd).base.faithful ⟨hp.bi.emit .buildEnd, hp.q⟩

theorem requireAll_bi (f : Nat) (ts : List Nat) : ∀ (s : Sess), BI ro sem body s [] [] [] →
    s.queue = [] →
    BOut sem body (requireAll sem body f s ts)
      (fun s' _ => BI ro sem body s' [] [] [] ∧ s'.queue = []) := by
  induction ts with
  | nil => intro s h hq; unfold requireAll; exact .ret h.base.faithful ⟨h, hq⟩
  | cons t ts ih =>
    intro s h hq
    unfold requireAll
    have key := sessionRequire_bi hst hwf hone f s t h hq
    split
    next s2 a heq => exact .abort (key.faithful_of heq)
    next s2 o heq =>
      obtain ⟨h2, hq2⟩ := key.ok s2 o heq
      have key2 := ih s2 h2 hq2
      split
      next s3 a heq3 => exact .abort (key2.faithful_of heq3)
      next s3 os heq3 =>
        have := key2.ok s3 os heq3
        exact .ret this.1.base.faithful this

end

end PieModel
