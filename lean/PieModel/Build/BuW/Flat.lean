/-
Bottom-up builds with reflexive checkers: executing a task AGAIN whose record is exactly
current reproduces the record, the output and the resources ("flat" execution: every require
hits a consistent task, so nothing else is executed).

Used for the tasks without output that were scheduled through a stale dependency, executed at
once because they were required, and are popped from the queue later (`Props/C04Once.lean`).
-/
import PieModel.Build.BuW.Inv

namespace PieModel

variable {ro : Roles} {sem : Sem} {body : Nat → Prog}

/-! ### lists of edges -/

theorem Store.WF.outgoingEdges_fst_nodup {st : Store} (hw : st.WF) (n : Nat) :
    ((st.g.outgoingEdges n).map Prod.fst).Nodup := by
  unfold Dag.outgoingEdges
  have h := hw.gwf.children_nodup n
  generalize st.g.childrenOf n = L at h
  induction L with
  | nil => simp
  | cons c L ih =>
    obtain ⟨h1, h2⟩ := List.nodup_cons.mp h
    simp only [List.filterMap_cons]
    cases hd : aget st.g.edata (n, c) with
    | none => simpa [hd] using ih h2
    | some d =>
      simp only [Option.map_some, List.map_cons, List.nodup_cons]
      refine ⟨?_, ih h2⟩
      intro hm
      obtain ⟨p, hp, hpc⟩ := List.mem_map.mp hm
      obtain ⟨c', hc', hp'⟩ := List.mem_filterMap.mp hp
      cases hd' : aget st.g.edata (n, c') with
      | none => rw [hd'] at hp'; cases hp'
      | some d' =>
        rw [hd'] at hp'
        simp only [Option.map_some, Option.some.injEq] at hp'
        subst hp'
        simp only at hpc
        subst hpc
        exact h1 hc'

theorem mem_unique_of_nodup_fst {α β : Type} {L : List (α × β)} (hn : (L.map Prod.fst).Nodup)
    {a : α} {b b' : β} (h1 : (a, b) ∈ L) (h2 : (a, b') ∈ L) : b = b' := by
  induction L with
  | nil => cases h1
  | cons p L ih =>
    rw [List.map_cons, List.nodup_cons] at hn
    obtain ⟨hp, hn'⟩ := hn
    rcases List.mem_cons.mp h1 with h1 | h1 <;> rcases List.mem_cons.mp h2 with h2 | h2
    · rw [← h1] at h2; exact (Prod.mk.inj h2).2.symm
    · exact absurd (List.mem_map.mpr ⟨(a, b'), h2, by rw [← h1]⟩) hp
    · exact absurd (List.mem_map.mpr ⟨(a, b), h1, by rw [← h2]⟩) hp
    · exact ih hn' h1 h2

theorem map_replace_self {β : Type} {L : List (Nat × β)} (hn : (L.map Prod.fst).Nodup)
    {a : Nat} {b : β} (h : (a, b) ∈ L) :
    L.map (fun p => if p.1 = a then (p.1, b) else p) = L := by
  conv => rhs; rw [← List.map_id L]
  apply List.map_congr_left
  intro p hp
  by_cases hpa : p.1 = a
  · rw [if_pos hpa]
    obtain ⟨x, y⟩ := p
    simp only at hpa; subst hpa
    rw [mem_unique_of_nodup_fst hn hp h]; rfl
  · rw [if_neg hpa]; rfl

theorem Sess.markConsistent_of_mem {s : Sess} {n : Nat} (h : n ∈ s.consistent) :
    s.markConsistent n = s := by
  unfold Sess.markConsistent; rw [if_pos h]

theorem Store.WF.res_node_inj {st : Store} (h : st.WF) {n n' r : Nat} (h1 : st.resOf n = some r)
    (h2 : st.resOf n' = some r) : n = n' := by
  rw [← h.res_iff] at h1 h2
  rw [h1] at h2; exact Option.some.inj h2

/-! ### a require of a consistent task -/

/-- `buRequire` of a task whose node is consistent and has an output: nothing is executed; the
stored output is returned and the edge of the requiring task carries its stamp. -/
theorem flatRequire (hwf : WellFormedBody ro body) (f : Nat) {s : Sess} (h : WInv ro sem body s)
    {m t dst u : Nat}
    (hc : s.cur = some m) (ht : s.store.taskOf m = some t) (hlt : ro.rank t < ro.rank u)
    (hd : s.store.taskOf dst = some u) (hdc : dst ∈ s.consistent) {o : Int}
    (ho : s.store.taskOutput dst = some o) (c : Nat) {s' : Sess} {res : Res Int}
    (heq : buRequire sem body f s u c = (s', res)) :
    PStep ro sem body s s' ∧ s'.fs = s.fs ∧
    ∀ out, res = .ok out → out = o ∧
      EdgeUpdO (s.store.g.outgoingEdges m) (s'.store.g.outgoingEdges m) dst
        (.require u c (sem.ostamp c o)) := by
  have _ := hwf
  cases f with
  | zero =>
    unfold buRequire at heq
    obtain ⟨rfl, rfl⟩ := Prod.mk.inj heq
    exact ⟨PStep.refl h, rfl, fun _ hh => by cases hh⟩
  | succ f =>
    have hw := h.wf.store
    have hg : s.store.getOrCreateTaskNode u = (s.store, dst) :=
      Store.getOrCreateTaskNode_of_some ((hw.task_iff u dst).mpr hd)
    unfold buRequire at heq
    simp only [Sess.store_emit, hg] at heq
    have h0 : PStep ro sem body s ({ s.emit (.requireStart u c) with store := s.store }) :=
      h.quiet rfl rfl rfl rfl rfl
    have hpre : ReqPre ro ({ s.emit (.requireStart u c) with store := s.store } : Sess) u :=
      fun cur hcur => by
        have : cur = m := Option.some.inj (hcur.symm.trans hc)
        subst this; exact ⟨t, ht, hlt⟩
    split at heq
    next s2 a heq2 =>
      obtain ⟨rfl, rfl⟩ := Prod.mk.inj heq
      obtain ⟨p2, f2, _⟩ := reserveRequire_w h0.inv hd hpre heq2
      exact ⟨h0.trans p2, f2, fun _ hh => by cases hh⟩
    next s2 heq2 =>
      obtain ⟨p2, f2, e2⟩ := reserveRequire_w h0.inv hd hpre heq2
      have p02 := h0.trans p2
      have hc2 : s2.cur = some m := p02.cur.trans hc
      have hdc2 : dst ∈ s2.consistent := by rw [p02.cons]; exact hdc
      have ho2 : s2.store.taskOutput dst = some o := by rw [p02.out]; exact ho
      -- `buMake` takes the consistent branch
      have hmake : buMake sem body f s2 u dst = (s2, .abort .outOfFuel) ∨
          buMake sem body f s2 u dst = (s2, .ok o) := by
        cases f with
        | zero => left; unfold buMake; rfl
        | succ f => right; unfold buMake; rw [if_pos hdc2, ho2]
      rcases hmake with hmk | hmk
      · rw [hmk] at heq
        obtain ⟨rfl, rfl⟩ := Prod.mk.inj heq
        exact ⟨p02, f2, fun _ hh => by cases hh⟩
      · rw [hmk] at heq
        simp only at heq
        have p3 : PStep ro sem body s2 (s2.emit (.requireEnd u c (sem.ostamp c o) o)) :=
          p2.inv.emit _
        have hd3 : (s2.emit (.requireEnd u c (sem.ostamp c o) o)).store.taskOf dst = some u :=
          p02.le.task _ _ hd
        split at heq
        next s4 a heq4 =>
          obtain ⟨rfl, rfl⟩ := Prod.mk.inj heq
          obtain ⟨p4, f4, _⟩ := updateRequire_w p3.inv hd3 c (sem.ostamp c o) heq4
          exact ⟨(p02.trans p3).trans p4, f4.trans f2, fun _ hh => by cases hh⟩
        next s4 heq4 =>
          obtain ⟨rfl, rfl⟩ := Prod.mk.inj heq
          obtain ⟨p4, f4, e4⟩ := updateRequire_w p3.inv hd3 c (sem.ostamp c o) heq4
          have p04 := (p02.trans p3).trans p4
          have hdc4 : dst ∈ s4.consistent := by rw [p04.cons]; exact hdc
          rw [Sess.markConsistent_of_mem hdc4]
          refine ⟨p04, f4.trans f2, fun out hh => ?_⟩
          cases hh
          refine ⟨rfl, ?_⟩
          have hcs : ({ s.emit (.requireStart u c) with store := s.store } : Sess).cur = some m := hc
          obtain ⟨_, halt⟩ := e2 rfl m hcs
          apply edgeUpdO_of (Lc := s2.store.g.outgoingEdges m)
          · exact halt
          · exact e4 rfl m hc2

/-! ### the old record -/

/-- What is known of an edge of the record that is being reproduced: it is typed and current. -/
def OldCur (sem : Sem) (s : Sess) (dst : Nat) : Dep → Prop
  | .reserved => False
  | .require u c st => dst ∈ s.consistent ∧ s.store.taskOf dst = some u ∧
      ∃ o, s.store.taskOutput dst = some o ∧ st = sem.ostamp c o
  | .read r c st => s.store.resOf dst = some r ∧ sem.rstamp c (aget s.fs r) = .ok st
  | .write r c st => s.store.resOf dst = some r ∧ sem.rstamp c (aget s.fs r) = .ok st

theorem OldCur.step {s s' : Sess} {dst : Nat} {d : Dep} (h : OldCur sem s dst d)
    (p : PStep ro sem body s s') (hfs : ∀ r, aget s'.fs r = aget s.fs r) :
    OldCur sem s' dst d := by
  cases d with
  | reserved => exact h
  | require u c st =>
    obtain ⟨h1, h2, o, h3, h4⟩ := h
    exact ⟨by rw [p.cons]; exact h1, p.le.task _ _ h2, o, by rw [p.out]; exact h3, h4⟩
  | read r c st => exact ⟨p.le.res _ _ h.1, by rw [hfs]; exact h.2⟩
  | write r c st => exact ⟨p.le.res _ _ h.1, by rw [hfs]; exact h.2⟩

theorem exists_of_mem_map_snd {L : List (Nat × Dep)} {d : Dep} (h : d ∈ L.map (·.2)) :
    ∃ dst, (dst, d) ∈ L := by
  obtain ⟨⟨dst, d'⟩, hq, rfl⟩ := List.mem_map.mp h
  exact ⟨dst, hq⟩

theorem cons_of_map_snd_eq {L : List (Nat × Dep)} {d : Dep} {ds : List Dep}
    (h : L.map (·.2) = d :: ds) : ∃ dst L', L = (dst, d) :: L' ∧ L'.map (·.2) = ds := by
  cases L with
  | nil => cases h
  | cons q L' =>
    obtain ⟨dst, d'⟩ := q
    simp only [List.map_cons, List.cons.injEq] at h
    obtain ⟨rfl, h2⟩ := h
    exact ⟨dst, L', rfl, h2⟩

/-- In a list with distinct targets an element of the tail is not a target of the front. -/
theorem not_mem_front_of_nodup {acc rest : List (Nat × Dep)} {dst : Nat} {d d0 : Dep}
    (hn : ((acc ++ (dst, d) :: rest).map Prod.fst).Nodup) : (dst, d0) ∉ acc := by
  intro hm
  rw [List.map_append, List.nodup_append] at hn
  exact hn.2.2 dst (List.mem_map.mpr ⟨_, hm, rfl⟩) dst (by simp) rfl

section
variable (hst : StampTotal sem) (hrefl : Reflexive sem) (hwf : WellFormedBody ro body)
include hst hrefl hwf

/-- **Flat execution.**  The executing task `m` replays its old record `L` (current, typed,
distinct targets): the run, if it returns, returns the old output, rebuilds exactly `L`, and
leaves every resource as it was.  Whatever the result, only the record of `m` changed. -/
theorem flatRun (m t : Nat) (L : List (Nat × Dep)) (o : Int) (hnd : (L.map Prod.fst).Nodup)
    (f : Nat) : ∀ (p : Prog) (s : Sess) (acc : Acc) (accE restE : List (Nat × Dep)),
    WInv ro sem body s → s.cur = some m → s.store.taskOf m = some t →
    StaticRolesFrom ro t acc p → AccOK s.store m acc → Respects sem p → WriteExact sem p →
    s.store.g.outgoingEdges m = accE → L = accE ++ restE →
    ReplayO sem p (accE.map (·.2)) (restE.map (·.2)) o →
    (∀ q ∈ L, OldCur sem s q.1 q.2) →
    ∀ s' res, buRun sem body f s p = (s', res) →
      PStep ro sem body s s' ∧ ∀ v, res = .ok v →
        v = o ∧ s'.store.g.outgoingEdges m = L ∧ ∀ r, aget s'.fs r = aget s.fs r := by
  induction f with
  | zero =>
    intro p s acc accE restE h _ _ _ _ _ _ _ _ _ _ s' res heq
    unfold buRun at heq
    obtain ⟨rfl, rfl⟩ := Prod.mk.inj heq
    exact ⟨PStep.refl h, fun _ hh => by cases hh⟩
  | succ f ih =>
    intro p s acc accE restE h hc ht hsr ha hresp hwe hoe hL hrep hold s' res heq
    cases p with
    | ret v =>
      unfold buRun at heq
      obtain ⟨rfl, rfl⟩ := Prod.mk.inj heq
      refine ⟨PStep.refl h, fun v' hh => ?_⟩
      cases hh
      obtain ⟨h1, h2⟩ := hrep
      have : restE = [] := by simpa using h1
      subst this
      exact ⟨h2, by rw [hoe, hL]; simp, fun _ => rfl⟩
    | panic => exact hrep.elim
    | req u c k =>
      unfold buRun at heq
      obtain ⟨hlt, hk⟩ := hsr
      obtain ⟨hr1, hr2⟩ := hresp
      have hpre : ReqPre ro s u := fun cur hcur => by
        have : cur = m := Option.some.inj (hcur.symm.trans hc)
        subst this; exact ⟨t, ht, hlt⟩
      have hacc := ((buRoles (sem := sem) hwf f).require s u c h.wf h.roles hpre).2
      -- the old edge to the required task
      have key : ∃ dq st' o', (dq, Dep.require u c st') ∈ L ∧ sem.ostamp c o' = st' ∧
          ((dq, Dep.require u c st') ∈ accE ∧
            ReplayO sem (k o') (accE.map (·.2)) (restE.map (·.2)) o ∨
           ∃ restE', restE = (dq, Dep.require u c st') :: restE' ∧
            ReplayO sem (k o') ((accE ++ [(dq, Dep.require u c st')]).map (·.2))
              (restE'.map (·.2)) o) := by
        rcases hrep with ⟨st', hmem, o', ho', hr⟩ | ⟨st', ds', hds, o', ho', hr⟩
        · obtain ⟨dq, hq⟩ := exists_of_mem_map_snd hmem
          exact ⟨dq, st', o', by rw [hL]; exact List.mem_append_left _ hq, ho', .inl ⟨hq, hr⟩⟩
        · obtain ⟨dq, restE', rfl, hm⟩ := cons_of_map_snd_eq hds
          refine ⟨dq, st', o', by rw [hL]; simp, ho', .inr ⟨restE', rfl, ?_⟩⟩
          rw [List.map_append, hm]; exact hr
      obtain ⟨dq, st', o', hqL, ho', hcase⟩ := key
      obtain ⟨hdc, hdt, oc, hoc, hst'⟩ := hold _ hqL
      -- the continuation does not depend on the representative of the stamp
      have hko : k oc = k o' := by
        apply hr1 o' oc
        rw [ho', hst']; exact hrefl.1 c oc
      split at heq
      next s1 a' heq1 =>
        obtain ⟨rfl, rfl⟩ := Prod.mk.inj heq
        exact ⟨(flatRequire hwf f h hc ht hlt hdt hdc hoc c heq1).1, fun _ hh => by cases hh⟩
      next s1 out heq1 =>
        obtain ⟨p1, f1, e1⟩ := flatRequire hwf f h hc ht hlt hdt hdc hoc c heq1
        obtain ⟨rfl, hupd⟩ := e1 out rfl
        rw [← hst', hoe] at hupd
        have hc1 : s1.cur = some m := p1.cur.trans hc
        have ha1 : AccOK s1.store m { acc with req := u :: acc.req } := by
          have := hacc m acc out hc (by rw [heq1]) ha
          rwa [heq1] at this
        have hfs1 : ∀ r, aget s1.fs r = aget s.fs r := fun r => by rw [f1]
        have hold1 : ∀ q ∈ L, OldCur sem s1 q.1 q.2 := fun q hq => (hold q hq).step p1 hfs1
        rcases hcase with ⟨hqa, hr⟩ | ⟨restE', rfl, hr⟩
        · -- a repeated require: the edge is unchanged
          have hnda : (accE.map Prod.fst).Nodup := by
            rw [hL, List.map_append] at hnd
            exact (List.nodup_append.mp hnd).1
          have hoe1 : s1.store.g.outgoingEdges m = accE := by
            rcases hupd with ⟨_, hLf⟩ | ⟨hno, _⟩
            · rw [hLf]; exact map_replace_self hnda hqa
            · exact absurd hqa (hno _)
          obtain ⟨p2, e2⟩ := ih (k out) s1 _ accE restE p1.inv hc1 (p1.le.task _ _ ht) (hk out)
            ha1 (hr2 out) (hwe out) hoe1 hL (by rw [hko]; exact hr) hold1 s' res heq
          refine ⟨p1.trans p2, fun v hv => ?_⟩
          obtain ⟨h1, h2, h3⟩ := e2 v hv
          exact ⟨h1, h2, fun r => (h3 r).trans (hfs1 r)⟩
        · -- the first require of `u`
          have hoe1 : s1.store.g.outgoingEdges m = accE ++ [(dq, Dep.require u c st')] := by
            rcases hupd with ⟨⟨d0, hd0⟩, _⟩ | ⟨_, hLf⟩
            · exact absurd hd0 (not_mem_front_of_nodup (hL ▸ hnd))
            · exact hLf
          obtain ⟨p2, e2⟩ := ih (k out) s1 _ (accE ++ [(dq, Dep.require u c st')]) restE' p1.inv
            hc1 (p1.le.task _ _ ht) (hk out) ha1 (hr2 out) (hwe out) hoe1
            (by rw [hL]; simp) (by rw [hko]; exact hr) hold1 s' res heq
          refine ⟨p1.trans p2, fun v hv => ?_⟩
          obtain ⟨h1, h2, h3⟩ := e2 v hv
          exact ⟨h1, h2, fun r => (h3 r).trans (hfs1 r)⟩
    | read r c k =>
      unfold buRun at heq
      obtain ⟨_, hreq, hk⟩ := hsr
      obtain ⟨hr1, hr2⟩ := hresp
      split at heq
      next s1 a' heq1 =>
        obtain ⟨rfl, rfl⟩ := Prod.mk.inj heq
        exact ⟨(doRead_w hst h hc ht ha r c hreq heq1).1, fun _ hh => by cases hh⟩
      next s1 x heq1 =>
        obtain ⟨p1, f1, ha1, e1⟩ := doRead_w hst h hc ht ha r c hreq heq1
        obtain ⟨rfl, dstR, stamp, hstamp, hresR, halt⟩ := e1 x rfl
        rw [hoe] at halt
        have hc1 : s1.cur = some m := p1.cur.trans hc
        have hfs1 : ∀ r, aget s1.fs r = aget s.fs r := fun r => by rw [f1]
        have hold1 : ∀ q ∈ L, OldCur sem s1 q.1 q.2 := fun q hq => (hold q hq).step p1 hfs1
        have key : ∃ dq st' x', (dq, Dep.read r c st') ∈ L ∧ sem.rstamp c x' = .ok st' ∧
            ((dq, Dep.read r c st') ∈ accE ∧
              ReplayO sem (k (.ok x')) (accE.map (·.2)) (restE.map (·.2)) o ∨
             ∃ restE', restE = (dq, Dep.read r c st') :: restE' ∧
              ReplayO sem (k (.ok x')) ((accE ++ [(dq, Dep.read r c st')]).map (·.2))
                (restE'.map (·.2)) o) := by
          rcases hrep with ⟨st', hmem, x', hx', hr⟩ | ⟨st', ds', hds, x', hx', hr⟩
          · obtain ⟨dq, hq⟩ := exists_of_mem_map_snd hmem
            exact ⟨dq, st', x', by rw [hL]; exact List.mem_append_left _ hq, hx', .inl ⟨hq, hr⟩⟩
          · obtain ⟨dq, restE', rfl, hm⟩ := cons_of_map_snd_eq hds
            refine ⟨dq, st', x', by rw [hL]; simp, hx', .inr ⟨restE', rfl, ?_⟩⟩
            rw [List.map_append, hm]; exact hr
        obtain ⟨dq, st', x', hqL, hx', hcase⟩ := key
        obtain ⟨hqr, hqs⟩ := hold _ hqL
        have hss : stamp = st' := by rw [hstamp] at hqs; exact Except.ok.inj hqs
        subst hss
        have hdd : dstR = dq := p1.inv.wf.store.res_node_inj hresR (p1.le.res _ _ hqr)
        subst hdd
        have hko : k (.ok (aget s.fs r)) = k (.ok x') :=
          hr1 x' (aget s.fs r) stamp hx' (hrefl.2 c _ _ hstamp)
        rcases hcase with ⟨hqa, hr⟩ | ⟨restE', rfl, hr⟩
        · have hoe1 : s1.store.g.outgoingEdges m = accE := by
            rcases halt with ⟨_, hh⟩ | ⟨hno, _⟩
            · exact hh
            · exact absurd hqa (hno _)
          obtain ⟨p2, e2⟩ := ih _ s1 acc accE restE p1.inv hc1 (p1.le.task _ _ ht) (hk _)
            ha1 (hr2 _) (hwe _) hoe1 hL (by rw [hko]; exact hr) hold1 s' res heq
          refine ⟨p1.trans p2, fun v hv => ?_⟩
          obtain ⟨h1, h2, h3⟩ := e2 v hv
          exact ⟨h1, h2, fun r => (h3 r).trans (hfs1 r)⟩
        · have hoe1 : s1.store.g.outgoingEdges m = accE ++ [(dstR, Dep.read r c stamp)] := by
            rcases halt with ⟨⟨d0, hd0⟩, _⟩ | ⟨_, hh⟩
            · exact absurd hd0 (not_mem_front_of_nodup (hL ▸ hnd))
            · exact hh
          obtain ⟨p2, e2⟩ := ih _ s1 acc (accE ++ [(dstR, Dep.read r c stamp)]) restE' p1.inv hc1
            (p1.le.task _ _ ht) (hk _) ha1 (hr2 _) (hwe _) hoe1 (by rw [hL]; simp)
            (by rw [hko]; exact hr) hold1 s' res heq
          refine ⟨p1.trans p2, fun v hv => ?_⟩
          obtain ⟨h1, h2, h3⟩ := e2 v hv
          exact ⟨h1, h2, fun r => (h3 r).trans (hfs1 r)⟩
    | write r c v k =>
      unfold buRun at heq
      obtain ⟨hg, hnw, hk⟩ := hsr
      obtain ⟨hwx, hwk⟩ := hwe
      split at heq
      next s1 a' heq1 =>
        obtain ⟨rfl, rfl⟩ := Prod.mk.inj heq
        exact ⟨(doWrite_w hst h hc ht ha r c v hg hnw heq1).1, fun _ hh => by cases hh⟩
      next s1 x heq1 =>
        obtain ⟨p1, f1, e1⟩ := doWrite_w hst h hc ht ha r c v hg hnw heq1
        obtain ⟨rfl, ha1, hcv, dstW, stamp, hstamp, hresW, _, happ⟩ := e1 x rfl
        rw [hoe] at happ
        obtain ⟨st', ds', hds, hx, hr⟩ := hrep
        obtain ⟨dq, restE', rfl, hm⟩ := cons_of_map_snd_eq hds
        have hqL : (dq, Dep.write r c st') ∈ L := by rw [hL]; simp
        obtain ⟨hqr, hqs⟩ := hold _ hqL
        have hss : stamp = st' := by rw [hstamp] at hx; exact Except.ok.inj hx
        subst hss
        have hdd : dstW = dq := p1.inv.wf.store.res_node_inj hresW (p1.le.res _ _ hqr)
        subst hdd
        -- the content was `v` already
        have hold_v : aget s.fs r = v := hwx v (aget s.fs r) stamp hstamp (hrefl.2 c _ _ hqs)
        have hfs1 : ∀ r', aget s1.fs r' = aget s.fs r' := by
          intro r'
          by_cases hr' : r' = r
          · subst hr'; rw [hcv, hold_v]
          · exact f1 r' hr'
        have hc1 : s1.cur = some m := p1.cur.trans hc
        have hold1 : ∀ q ∈ L, OldCur sem s1 q.1 q.2 := fun q hq => (hold q hq).step p1 hfs1
        obtain ⟨p2, e2⟩ := ih _ s1 _ (accE ++ [(dstW, Dep.write r c stamp)]) restE' p1.inv hc1
          (p1.le.task _ _ ht) (hk _) ha1 (hresp _) (hwk _) happ (by rw [hL]; simp)
          (by rw [List.map_append, hm]; exact hr) hold1 s' res heq
        refine ⟨p1.trans p2, fun v' hv => ?_⟩
        obtain ⟨h1, h2, h3⟩ := e2 v' hv
        exact ⟨h1, h2, fun r => (h3 r).trans (hfs1 r)⟩
    | wrote r c v k =>
      unfold buRun at heq
      obtain ⟨hg, hnw, hk⟩ := hsr
      obtain ⟨hwx, hwk⟩ := hwe
      split at heq
      next s1 a' heq1 =>
        obtain ⟨rfl, rfl⟩ := Prod.mk.inj heq
        exact ⟨(doWrote_w hst h hc ht ha r c v hg hnw heq1).1, fun _ hh => by cases hh⟩
      next s1 x heq1 =>
        obtain ⟨p1, f1, e1⟩ := doWrote_w hst h hc ht ha r c v hg hnw heq1
        obtain ⟨rfl, ha1, hcv, dstW, stamp, hstamp, hresW, _, happ⟩ := e1 x rfl
        rw [hoe] at happ
        obtain ⟨st', ds', hds, hx, hr⟩ := hrep
        obtain ⟨dq, restE', rfl, hm⟩ := cons_of_map_snd_eq hds
        have hqL : (dq, Dep.write r c st') ∈ L := by rw [hL]; simp
        obtain ⟨hqr, hqs⟩ := hold _ hqL
        have hss : stamp = st' := by rw [hstamp] at hx; exact Except.ok.inj hx
        subst hss
        have hdd : dstW = dq := p1.inv.wf.store.res_node_inj hresW (p1.le.res _ _ hqr)
        subst hdd
        have hold_v : aget s.fs r = v := hwx v (aget s.fs r) stamp hstamp (hrefl.2 c _ _ hqs)
        have hfs1 : ∀ r', aget s1.fs r' = aget s.fs r' := by
          intro r'
          by_cases hr' : r' = r
          · subst hr'; rw [hcv, hold_v]
          · exact f1 r' hr'
        have hc1 : s1.cur = some m := p1.cur.trans hc
        have hold1 : ∀ q ∈ L, OldCur sem s1 q.1 q.2 := fun q hq => (hold q hq).step p1 hfs1
        obtain ⟨p2, e2⟩ := ih _ s1 _ (accE ++ [(dstW, Dep.write r c stamp)]) restE' p1.inv hc1
          (p1.le.task _ _ ht) (hk _) ha1 (hresp _) (hwk _) happ (by rw [hL]; simp)
          (by rw [List.map_append, hm]; exact hr) hold1 s' res heq
        refine ⟨p1.trans p2, fun v' hv => ?_⟩
        obtain ⟨h1, h2, h3⟩ := e2 v' hv
        exact ⟨h1, h2, fun r => (h3 r).trans (hfs1 r)⟩

/-- **Executing a task whose record is exactly current once more**: whatever the result, the
weak invariant holds; if it returns, it returns the stored output and the state differs from the
start only in fields the invariants do not look at (trace, representation of the resource map and
of the graph). -/
theorem flatExec (hresp : ∀ t, Respects sem (body t)) (hwe : ∀ t, WriteExact sem (body t))
    (f : Nat) {s : Sess} (h : WInv ro sem body s) {m t : Nat} {o : Int}
    (ht : s.store.taskOf m = some t) (ho : s.store.taskOutput m = some o)
    (hold : ∀ q ∈ s.store.g.outgoingEdges m, OldCur sem s q.1 q.2)
    {s' : Sess} {res : Res Int} (heq : buExec sem body f s t m = (s', res)) :
    WInv ro sem body s' ∧ ∀ v, res = .ok v → v = o ∧ (∀ x, Same s s' x) ∧
      (∀ r, aget s'.fs r = aget s.fs r) ∧ s'.consistent = s.consistent ∧ s'.queue = s.queue ∧
      s'.cur = s.cur ∧ s.store.Le s'.store := by
  cases f with
  | zero =>
    unfold buExec at heq
    obtain ⟨rfl, rfl⟩ := Prod.mk.inj heq
    exact ⟨h, fun _ hh => by cases hh⟩
  | succ f =>
    have hw := h.wf.store
    have hwfS' : SessWF s' := by
      have := ((buRoles (sem := sem) hwf (f + 1)).exec s t m h.wf h.roles ht).rext.wf
      rwa [heq] at this
    unfold buExec at heq
    simp only at heq
    obtain ⟨h1, hs1, he1, ho1⟩ := h.startExec ht (.executeStart t)
    generalize hS1 : (({ s with store := s.store.resetTask m, cur := some m } : Sess).emit
      (.executeStart t)) = S1 at heq h1 hs1
    have hst1 : S1.store = s.store.resetTask m := by rw [← hS1]; rfl
    have hle1 : s.store.Le S1.store := hst1 ▸ Store.le_resetTask hw m
    have hc1 : S1.cur = some m := by rw [← hS1]; rfl
    have hfs1 : S1.fs = s.fs := by rw [← hS1]; rfl
    have hcons1 : S1.consistent = s.consistent := by rw [← hS1]; rfl
    have hq1 : S1.queue = s.queue := by rw [← hS1]; rfl
    have hoe1 : S1.store.g.outgoingEdges m = [] := by rw [hst1]; exact he1
    have hnd := hw.outgoingEdges_fst_nodup m
    -- the old record in the start state
    have hold1 : ∀ q ∈ s.store.g.outgoingEdges m, OldCur sem S1 q.1 q.2 := by
      intro q hq
      obtain ⟨dst, d⟩ := q
      have hne : dst ≠ m := by
        rintro rfl
        exact hw.inv.acyclic _ (Store.reach_of_mem_outgoingEdges hw hq)
      have := hold _ hq
      cases d with
      | reserved => exact this
      | require u c st =>
        obtain ⟨a1, a2, oc, a3, a4⟩ := this
        exact ⟨by rw [hcons1]; exact a1, hle1.task _ _ a2, oc,
          by rw [(hs1 dst hne).1]; exact a3, a4⟩
      | read r c st => exact ⟨hle1.res _ _ this.1, by rw [hfs1]; exact this.2⟩
      | write r c st => exact ⟨hle1.res _ _ this.1, by rw [hfs1]; exact this.2⟩
    have hrep : ReplayO sem (body t) [] (s.store.depsFrom m) o := h.faithful m t o ht ho
    have ha1 : AccOK S1.store m {} := by rw [hst1]; exact AccOK.start hw m
    split at heq
    next s2 a' heq2 =>
      obtain ⟨rfl, rfl⟩ := Prod.mk.inj heq
      have := (flatRun hst hrefl hwf m t (s.store.g.outgoingEdges m) o hnd f (body t) S1 {} []
        (s.store.g.outgoingEdges m) h1 hc1 (hle1.task _ _ ht)
        (hwf t) ha1 (hresp t) (hwe t) hoe1 rfl (by simpa [Store.depsFrom_eq] using hrep)
        hold1 _ _ heq2).1
      exact ⟨this.inv, fun _ hh => by cases hh⟩
    next s2 v heq2 =>
      obtain ⟨rfl, rfl⟩ := Prod.mk.inj heq
      obtain ⟨p2, e2⟩ := flatRun hst hrefl hwf m t (s.store.g.outgoingEdges m) o hnd f (body t) S1
        {} [] (s.store.g.outgoingEdges m) h1 hc1
        (hle1.task _ _ ht) (hwf t) ha1 (hresp t) (hwe t) hoe1 rfl
        (by simpa [Store.depsFrom_eq] using hrep) hold1 _ _ heq2
      obtain ⟨rfl, hoe2, hfs2⟩ := e2 v rfl
      have ht2 : s2.store.taskOf m = some t := p2.le.task _ _ (hle1.task _ _ ht)
      have hrep2 : ReplayO sem (body t) [] (s2.store.depsFrom m) v := by
        rw [Store.depsFrom_eq, hoe2, ← Store.depsFrom_eq]; exact hrep
      have hprev : ∀ c, s.cur = some c → c ≠ m ∧ s2.store.taskOutput c = none := by
        intro c hc
        have hcm : c ≠ m := by
          rintro rfl
          rw [h.curFree _ hc] at ho; cases ho
        exact ⟨hcm, by rw [p2.out, (hs1 c hcm).1]; exact h.curFree c hc⟩
      obtain ⟨h3, hs3, ho3, hoe3⟩ := p2.inv.endExec (node := m) (t := t) (o := v)
        (s' := { (s2.emit (.executeEnd t v)) with
          cur := s.cur, store := (s2.emit (.executeEnd t v)).store.setTaskOutput m v })
        ht2 hrep2 rfl rfl hwfS' hprev
      refine ⟨h3, fun v' hv => ?_⟩
      cases hv
      refine ⟨rfl, ?_, fun r => by simpa [hfs1] using hfs2 r, by simpa [hcons1] using p2.cons,
        by simpa [hq1] using p2.queue, rfl,
        (hle1.trans p2.le).trans (Store.le_setTaskOutput _ m v)⟩
      intro x
      by_cases hx : x = m
      · subst hx
        exact ⟨by rw [ho3, ho], by rw [hoe3, hoe2]⟩
      · exact ((hs1 x hx).trans (p2.same x (fun hh => hx (by
          rw [hc1] at hh; exact (Option.some.inj hh).symm)))).trans (hs3 x hx)

end

end PieModel
