/-
Bottom-up builds and the store invariant `FaithfulO` for programs WITH writes (static roles):
definitions.

* `NoRep`/`OneAccess`: on every execution path a task requires each task at most once and reads
  each resource at most once (writes are already restricted by the static roles).
  This is what makes `FaithfulO` robust against *everything* a bottom-up build may do
  (stale outputs, re-executions of tasks that are marked consistent): without it the
  second `require` of a task overwrites the stamp recorded by the first one
  (`update_require_dependency`) although the body continued with the first output — see the
  counterexample in `Props/C01FullMixed.lean`.
* `WInv`: the *weak* session invariant — `SessWF`, `RolesInv`, `FaithfulO`, unique keys of the
  resource map, and "the executing task has no output".  Nothing is said about `consistent`.
* `SameBelow`: the ordered frame — the records (output and ORDERED outgoing edges) of the task
  nodes of rank `< k` (except one node) are untouched.
* `WStep`, `WOut`: the step relation and the post-condition of a call.
* `RunInvS`: what is known about the edges of the executing task — their targets are among the
  tasks / resources accessed so far on the path.
-/
import PieModel.Build.SoundW.Run
import PieModel.Build.RolesBottomUp

namespace PieModel

/-! ### programs without repeated accesses -/

/-- `NoRep qt qr p`: along every execution path of `p` no task of `qt` and no task required
earlier on the path is required, and no resource of `qr` and no resource read earlier on the path
is read.  (Writes: the static roles already say "at most once per path, never read".) -/
def NoRep : List Nat → List Nat → Prog → Prop
  | _, _, .ret _ => True
  | _, _, .panic => True
  | qt, qr, .req t _ k => t ∉ qt ∧ ∀ o, NoRep (t :: qt) qr (k o)
  | qt, qr, .read r _ k => r ∉ qr ∧ ∀ x, NoRep qt (r :: qr) (k x)
  | qt, qr, .write _ _ _ k => ∀ x, NoRep qt qr (k x)
  | qt, qr, .wrote _ _ _ k => ∀ x, NoRep qt qr (k x)

/-- Every dependency target is accessed at most once per execution. -/
def OneAccess (p : Prog) : Prop := NoRep [] [] p

/-- `OneAccess` and the static roles imply `OneChecker`. -/
theorem NoRep.oneCk {ro : Roles} {t : Nat} {p : Prog} : ∀ {a : Acc} {qt qr : List Nat}
    {qt' qr' : List (Nat × Nat)}, NoRep qt qr p → StaticRolesFrom ro t a p →
    (∀ x ∈ qt', x.1 ∈ qt) →
    (∀ x ∈ qr', (x.1 ∈ qr ∧ ro.gen x.1 ≠ some t) ∨ (x.1 ∈ a.wr ∧ ro.gen x.1 = some t)) →
    OneCk qt' qr' p := by
  induction p with
  | ret v => intros; trivial
  | panic => intros; trivial
  | req u c k ih =>
    intro a qt qr qt' qr' hn hs h1 h2
    refine ⟨fun c' hc' => absurd (h1 _ hc') hn.1, fun o => ?_⟩
    refine ih o (hn.2 o) (hs.2 o) ?_ h2
    intro x hx
    rcases List.mem_cons.mp hx with rfl | hx
    · exact List.mem_cons_self
    · exact List.mem_cons_of_mem _ (h1 x hx)
  | read r c k ih =>
    intro a qt qr qt' qr' hn hs h1 h2
    obtain ⟨hng, _, hk⟩ := hs
    refine ⟨fun c' hc' => ?_, fun x => ?_⟩
    · rcases h2 _ hc' with h | h
      · exact absurd h.1 hn.1
      · exact absurd h.2 hng
    · refine ih x (hn.2 x) (hk x) h1 ?_
      intro y hy
      rcases List.mem_cons.mp hy with rfl | hy
      · exact .inl ⟨List.mem_cons_self, hng⟩
      · rcases h2 y hy with h | h
        · exact .inl ⟨List.mem_cons_of_mem _ h.1, h.2⟩
        · exact .inr h
  | write r c v k ih =>
    intro a qt qr qt' qr' hn hs h1 h2
    obtain ⟨hg, hnw, hk⟩ := hs
    refine ⟨fun c' hc' => ?_, fun x => ?_⟩
    · rcases h2 _ hc' with h | h
      · exact absurd hg h.2
      · exact absurd h.1 hnw
    · refine ih x (hn x) (hk x) h1 ?_
      intro y hy
      rcases List.mem_cons.mp hy with rfl | hy
      · exact .inr ⟨List.mem_cons_self, hg⟩
      · rcases h2 y hy with h | h
        · exact .inl h
        · exact .inr ⟨List.mem_cons_of_mem _ h.1, h.2⟩
  | wrote r c v k ih =>
    intro a qt qr qt' qr' hn hs h1 h2
    obtain ⟨hg, hnw, hk⟩ := hs
    refine ⟨fun c' hc' => ?_, fun x => ?_⟩
    · rcases h2 _ hc' with h | h
      · exact absurd hg h.2
      · exact absurd h.1 hnw
    · refine ih x (hn x) (hk x) h1 ?_
      intro y hy
      rcases List.mem_cons.mp hy with rfl | hy
      · exact .inr ⟨List.mem_cons_self, hg⟩
      · rcases h2 y hy with h | h
        · exact .inl h
        · exact .inr ⟨List.mem_cons_of_mem _ h.1, h.2⟩

/-- Under the static roles a program without repeated accesses uses one checker per target. -/
theorem OneAccess.oneChecker {ro : Roles} {t : Nat} {p : Prog} (h : OneAccess p)
    (hs : StaticRoles ro t p) : OneChecker p :=
  NoRep.oneCk (a := {}) h hs (fun _ hx => nomatch hx) (fun _ hx => nomatch hx)

/-! ### the weak session invariant -/

/-- The executing task (if any) has rank `< k`.  (`ReqPre ro s t` is `CurBelow ro (ro.rank t) s`.) -/
def CurBelow (ro : Roles) (k : Nat) (s : Sess) : Prop :=
  ∀ cur, s.cur = some cur → ∃ t0, s.store.taskOf cur = some t0 ∧ ro.rank t0 < k

theorem reqPre_iff_curBelow (ro : Roles) (s : Sess) (t : Nat) :
    ReqPre ro s t ↔ CurBelow ro (ro.rank t) s := Iff.rfl

/-- The weak session invariant: nothing is said about `consistent` or the queue. -/
structure WInv (ro : Roles) (sem : Sem) (body : Nat → Prog) (s : Sess) : Prop where
  wf : SessWF s
  roles : RolesInv ro s.store
  faithful : FaithfulO sem body s.store
  nodup : (akeys s.fs).Nodup
  /-- the executing task has no output -/
  curFree : ∀ n, s.cur = some n → s.store.taskOutput n = none

/-- What persists in `Pie` when the session is dropped. -/
structure AbInv (ro : Roles) (sem : Sem) (body : Nat → Prog) (s : Sess) : Prop where
  wf : SessWF s
  roles : RolesInv ro s.store
  faithful : FaithfulO sem body s.store
  nodup : (akeys s.fs).Nodup

theorem WInv.abInv {ro : Roles} {sem : Sem} {body : Nat → Prog} {s : Sess}
    (h : WInv ro sem body s) : AbInv ro sem body s := ⟨h.wf, h.roles, h.faithful, h.nodup⟩

/-- A primitive step of the session: only the record of the executing task changes, and only
its edges. -/
structure PStep (ro : Roles) (sem : Sem) (body : Nat → Prog) (s s' : Sess) : Prop where
  inv : WInv ro sem body s'
  le : s.store.Le s'.store
  cur : s'.cur = s.cur
  cons : s'.consistent = s.consistent
  queue : s'.queue = s.queue
  out : ∀ x, s'.store.taskOutput x = s.store.taskOutput x
  same : ∀ x, s.cur ≠ some x → Same s s' x

variable {ro : Roles} {sem : Sem} {body : Nat → Prog}

theorem PStep.refl {s : Sess} (h : WInv ro sem body s) : PStep ro sem body s s :=
  ⟨h, Store.Le.refl _, rfl, rfl, rfl, fun _ => rfl, fun _ _ => Same.refl _ _⟩

theorem PStep.trans {s s' s'' : Sess} (h₁ : PStep ro sem body s s') (h₂ : PStep ro sem body s' s'') :
    PStep ro sem body s s'' :=
  ⟨h₂.inv, h₁.le.trans h₂.le, h₂.cur.trans h₁.cur, h₂.cons.trans h₁.cons,
    h₂.queue.trans h₁.queue, fun x => (h₂.out x).trans (h₁.out x),
    fun x hx => (h₁.same x hx).trans (h₂.same x (by rw [h₁.cur]; exact hx))⟩

/-- The generic primitive step: a well-formed store extending the old one with the same outputs,
in which only the edges of the executing task changed. -/
theorem WInv.pstep {s s' : Sess} (h : WInv ro sem body s) (hw : s'.store.WF)
    (hro : RolesInv ro s'.store) (hle : s.store.Le s'.store) (hcur : s'.cur = s.cur)
    (hcons : s'.consistent = s.consistent) (hq : s'.queue = s.queue)
    (hnd : (akeys s'.fs).Nodup) (hout : ∀ x, s'.store.taskOutput x = s.store.taskOutput x)
    (hoe : ∀ x, s.cur ≠ some x → s'.store.g.outgoingEdges x = s.store.g.outgoingEdges x) :
    PStep ro sem body s s' := by
  have hsame : ∀ x, s.cur ≠ some x → Same s s' x := fun x hx => ⟨hout x, hoe x hx⟩
  refine ⟨⟨(h.wf.ext_of_store hcur hq hw hle).wf, hro, ?_, hnd, ?_⟩, hle, hcur, hcons, hq, hout,
    hsame⟩
  · intro n t v ht hv
    have hv0 : s.store.taskOutput n = some v := by rw [← hout]; exact hv
    have hn : s.cur ≠ some n := fun hc => by rw [h.curFree n hc] at hv0; cases hv0
    obtain ⟨t0, ht0⟩ := Store.taskOf_of_output hv0
    have := hle.task _ _ ht0
    rw [ht] at this; cases this
    rw [(hsame n hn).deps]
    exact h.faithful n t v ht0 hv0
  · intro n hn
    rw [hout]; exact h.curFree n (hcur ▸ hn)

/-- A step that touches neither the store nor `cur`, `consistent`, queue, resources. -/
theorem WInv.quiet {s s' : Sess} (h : WInv ro sem body s) (h1 : s'.store = s.store)
    (h2 : s'.fs = s.fs) (h3 : s'.cur = s.cur) (h4 : s'.consistent = s.consistent)
    (h5 : s'.queue = s.queue) : PStep ro sem body s s' :=
  h.pstep (h1 ▸ h.wf.store) (h1 ▸ h.roles) (h1 ▸ Store.Le.refl _) h3 h4 h5 (h2 ▸ h.nodup)
    (fun x => by rw [h1]) (fun x _ => by rw [h1])

theorem WInv.emit {s : Sess} (h : WInv ro sem body s) (e : Ev) : PStep ro sem body s (s.emit e) :=
  h.quiet rfl rfl rfl rfl rfl

end PieModel
