/-
Mixed histories WITHOUT any assumption on the checkers, for programs that access every dependency
target at most once per execution path (`OneAccess`): the `Pie` invariants of C01 in full persist,
and every top-down session that returns is sound.
-/
import PieModel.Build.BuW.StaticTD
import PieModel.Build.BuW.History

namespace PieModel

variable {ro : Roles} {sem : Sem} {body : Nat → Prog}

section
variable (hst : StampTotal sem) (hwf : WellFormedBody ro body) (hone : ∀ t, OneAccess (body t))
include hst hwf hone

/-- One step of a mixed history keeps the invariants (no assumption on the checkers beyond total
stampers; programs without repeated accesses). -/
theorem PieInvW.runStep_static {p : PieSt} (h : PieInvW ro sem body p) (f : Nat) (st : HStep) :
    PieInvW ro sem body (PieModel.runStep sem body f p st) := by
  have hs := WInv.newSession h
  cases st with
  | change r v => exact h.setContent r v
  | session roots =>
    have hr := requireAll_roles (sem := sem) hwf f roots hs.wf hs.roles
    have hf := requireAll_static hst hwf hone f roots p.newSession hs
    exact ⟨hr.rext.wf.store, hr.rext.inv, hf.faithful,
      requireAll_fsKeys sem body f roots p.newSession h.nodup⟩
  | bottomUp changed roots =>
    have hr := bottomUpBuild_roles (sem := sem) hwf f hs.wf hs.roles changed
    have ho := bottomUpBuild_static hst hwf hone f p.newSession hs changed
    have hb : PieInvW ro sem body (PieModel.bottomUpBuild sem body f p.newSession changed).1.toPie :=
      ⟨hr.rext.wf.store, hr.rext.inv, ho.faithful,
        (ext_bottomUpBuild sem body f p.newSession changed).fsKeys h.nodup⟩
    show PieInvW ro sem body (match PieModel.bottomUpBuild sem body f p.newSession changed with
      | (s, .abort _) => s.toPie
      | (s, .ok ()) => (requireAll sem body f s roots).1.toPie)
    split
    next s a heq => rw [heq] at hb; exact hb
    next s heq =>
      rw [heq] at hb
      obtain ⟨hw2, _⟩ := ho.ok s () heq
      have hr2 := requireAll_roles (sem := sem) hwf f roots hw2.wf hw2.roles
      have hf := requireAll_static hst hwf hone f roots s hw2
      exact ⟨hr2.rext.wf.store, hr2.rext.inv, hf.faithful,
        requireAll_fsKeys sem body f roots s hb.nodup⟩

theorem pieInv_mixed_history_static (f : Nat) (steps : List HStep) :
    PieInvW ro sem body (runHistory sem body f steps) := by
  unfold runHistory
  have key : ∀ (l : List HStep) (p : PieSt), PieInvW ro sem body p →
      PieInvW ro sem body (l.foldl (PieModel.runStep sem body f) p) := by
    intro l
    induction l with
    | nil => intro p h; exact h
    | cons st l ih => intro p h; exact ih _ (h.runStep_static hst hwf hone f st)
  exact key steps {} PieInvW.empty

end

section
variable (hst : StampTotal sem) (hwf : WellFormedBody ro body) (hone : ∀ t, OneAccess (body t))
  (hresp : ∀ t, Respects sem (body t)) (hwe : ∀ t, WriteExact sem (body t))
include hst hwf hone hresp hwe

/-- Every logged session of a mixed history is sound. -/
theorem runStepsM_sound_static (fuel : Nat) (steps : List HStep) :
    ∀ p : PieSt, PieInvW ro sem body p →
    PieInvW ro sem body (runStepsM sem body fuel p steps).1 ∧
    ∀ e ∈ (runStepsM sem body fuel p steps).2, e.Sound ro sem body := by
  have hone' : ∀ t, OneChecker (body t) := fun t => (hone t).oneChecker (hwf t)
  induction steps with
  | nil => intro p h; exact ⟨h, fun e he => (nomatch he)⟩
  | cons st rest ih =>
    intro p h
    cases st with
    | change r v => unfold runStepsM; exact ih _ (h.setContent r v)
    | bottomUp changed roots =>
      unfold runStepsM
      exact ih _ (h.runStep_static hst hwf hone fuel (.bottomUp changed roots))
    | session roots =>
      unfold runStepsM
      have h1 := h.runStep_static hst hwf hone fuel (.session roots)
      obtain ⟨h2, h3⟩ := ih _ h1
      refine ⟨h2, fun e he => ?_⟩
      rcases List.mem_append.mp he with he | he
      · generalize hR : requireAll sem body fuel p.newSession roots = R at he
        obtain ⟨s', res⟩ := R
        cases res with
        | abort a => simp [sessLog] at he
        | ok os =>
          simp only [sessLog, List.mem_singleton] at he
          subst he
          obtain ⟨hinv, _, hall, hfs⟩ := session_full hst hwf hresp hone' hwe h fuel roots hR
          exact ⟨hall, hfs, fun t ht => (hinv.executed t ht).1, h.nodup⟩
      · exact h3 e he

end

end PieModel
