/-
Mixed histories (external changes, top-down sessions, bottom-up builds followed by requires, any of
them aborted) with reflexive checkers: the `Pie` invariants of C01 in full persist, and every
top-down session that returns is sound.
-/
import PieModel.Build.BuW.Final
import PieModel.Build.BuW.TdFinal
import PieModel.Props.C19
import PieModel.Build.SoundW.History

namespace PieModel

variable {ro : Roles} {sem : Sem} {body : Nat → Prog}

/-- A new session on a `Pie` satisfying the invariants satisfies the weak session invariant. -/
theorem WInv.newSession {p : PieSt} (h : PieInvW ro sem body p) : WInv ro sem body p.newSession :=
  ⟨⟨h.wf, fun _ hn => (nomatch hn), fun _ hn => (nomatch hn)⟩, h.roles, h.faithful, h.nodup,
    fun _ hn => (nomatch hn)⟩

section
variable (hst : StampTotal sem) (hrefl : Reflexive sem) (hwf : WellFormedBody ro body)
  (hresp : ∀ t, Respects sem (body t)) (hone : ∀ t, OneChecker (body t))
  (hwe : ∀ t, WriteExact sem (body t))
include hst hrefl hwf hresp hone hwe

/-- **A bottom-up build on a `Pie` satisfying the invariants, whatever its result** (returned or
aborted at any point, whatever `changed` set it was told), leaves such a `Pie`. -/
theorem PieInvW.bottomUpBuild {p : PieSt} (h : PieInvW ro sem body p) (f : Nat)
    (changed : List Nat) :
    PieInvW ro sem body (bottomUpBuild sem body f p.newSession changed).1.toPie := by
  have hs := WInv.newSession h
  have hr := bottomUpBuild_roles (sem := sem) hwf f hs.wf hs.roles changed
  have ho := bottomUpBuild_bi hst hrefl hwf hresp hone hwe f p.newSession hs rfl rfl changed
  exact ⟨hr.rext.wf.store, hr.rext.inv, ho.faithful,
    (ext_bottomUpBuild sem body f p.newSession changed).fsKeys h.nodup⟩

/-- **One step of a mixed history** keeps the invariants: an external change, a top-down session,
or a bottom-up build followed (if it returns) by requires in the same session — whatever the
results. -/
theorem PieInvW.runStep {p : PieSt} (h : PieInvW ro sem body p) (f : Nat) (st : HStep) :
    PieInvW ro sem body (runStep sem body f p st) := by
  cases st with
  | change r v => exact h.setContent r v
  | session roots => exact h.session hst hwf hresp hone hwe f roots
  | bottomUp changed roots =>
    have hs := WInv.newSession h
    have hb := h.bottomUpBuild hst hrefl hwf hresp hone hwe f changed
    have ho := bottomUpBuild_bi hst hrefl hwf hresp hone hwe f p.newSession hs rfl rfl changed
    show PieInvW ro sem body (match PieModel.bottomUpBuild sem body f p.newSession changed with
      | (s, .abort _) => s.toPie
      | (s, .ok ()) => (requireAll sem body f s roots).1.toPie)
    split
    next s a heq => rw [heq] at hb; exact hb
    next s heq =>
      rw [heq] at hb
      obtain ⟨hbi, hq⟩ := ho.ok s () heq
      have hr := requireAll_roles (sem := sem) hwf f roots hbi.wf hbi.base.roles
      have hf := requireAll_bi hst hwf hone f roots s hbi hq
      exact ⟨hr.rext.wf.store, hr.rext.inv, hf.faithful,
        requireAll_fsKeys sem body f roots s hb.nodup⟩

/-- **After every mixed history** from the empty `Pie` the invariants of C01 in full hold. -/
theorem pieInv_mixed_history (f : Nat) (steps : List HStep) :
    PieInvW ro sem body (runHistory sem body f steps) := by
  unfold runHistory
  have key : ∀ (l : List HStep) (p : PieSt), PieInvW ro sem body p →
      PieInvW ro sem body (l.foldl (PieModel.runStep sem body f) p) := by
    intro l
    induction l with
    | nil => intro p h; exact h
    | cons st l ih => intro p h; exact ih _ (h.runStep hst hrefl hwf hresp hone hwe f st)
  exact key steps {} PieInvW.empty

end

/-! ### the log of a mixed history -/

variable (sem body)

/-- Run a mixed history; returns the final `Pie` and the log (`SessLog` of
`Build/SoundW/History.lean`) of the top-down sessions (`.session roots`) that returned. -/
def runStepsM (fuel : Nat) : PieSt → List HStep → PieSt × List SessLog
  | p, [] => (p, [])
  | p, .change r v :: rest => runStepsM fuel (p.setContent r v) rest
  | p, .session roots :: rest =>
    ((runStepsM fuel (requireAll sem body fuel p.newSession roots).1.toPie rest).1,
      sessLog p.fs roots (requireAll sem body fuel p.newSession roots) ++
        (runStepsM fuel (requireAll sem body fuel p.newSession roots).1.toPie rest).2)
  | p, .bottomUp changed roots :: rest =>
    runStepsM fuel (runStep sem body fuel p (.bottomUp changed roots)) rest

/-- The logging run computes the same `Pie` as `runStep` folded over the history. -/
theorem runStepsM_fst (fuel : Nat) (steps : List HStep) : ∀ p : PieSt,
    (runStepsM sem body fuel p steps).1 = steps.foldl (runStep sem body fuel) p := by
  induction steps with
  | nil => intro p; rfl
  | cons st rest ih =>
    intro p
    cases st with
    | change r v => unfold runStepsM; rw [ih]; rfl
    | session roots => unfold runStepsM; simp only []; rw [ih]; rfl
    | bottomUp changed roots => unfold runStepsM; rw [ih]; rfl

theorem runStepsM_history (fuel : Nat) (steps : List HStep) :
    (runStepsM sem body fuel {} steps).1 = runHistory sem body fuel steps :=
  runStepsM_fst sem body fuel steps {}

variable {sem body}

section
variable (hst : StampTotal sem) (hrefl : Reflexive sem) (hwf : WellFormedBody ro body)
  (hresp : ∀ t, Respects sem (body t)) (hone : ∀ t, OneChecker (body t))
  (hwe : ∀ t, WriteExact sem (body t))
include hst hrefl hwf hresp hone hwe

/-- Every logged session of a mixed history is sound. -/
theorem runStepsM_sound (fuel : Nat) (steps : List HStep) :
    ∀ p : PieSt, PieInvW ro sem body p →
    PieInvW ro sem body (runStepsM sem body fuel p steps).1 ∧
    ∀ e ∈ (runStepsM sem body fuel p steps).2, e.Sound ro sem body := by
  induction steps with
  | nil => intro p h; exact ⟨h, fun e he => (nomatch he)⟩
  | cons st rest ih =>
    intro p h
    cases st with
    | change r v => unfold runStepsM; exact ih _ (h.setContent r v)
    | bottomUp changed roots =>
      unfold runStepsM
      exact ih _ (h.runStep hst hrefl hwf hresp hone hwe fuel (.bottomUp changed roots))
    | session roots =>
      unfold runStepsM
      have h1 := h.session hst hwf hresp hone hwe fuel roots
      obtain ⟨h2, h3⟩ := ih _ h1
      refine ⟨h2, fun e he => ?_⟩
      rcases List.mem_append.mp he with he | he
      · generalize hR : requireAll sem body fuel p.newSession roots = R at he
        obtain ⟨s', res⟩ := R
        cases res with
        | abort a => simp [sessLog] at he
        | ok os =>
          simp only [sessLog, List.mem_singleton] at he
          subst he
          obtain ⟨hinv, _, hall, hfs⟩ := session_full hst hwf hresp hone hwe h fuel roots hR
          exact ⟨hall, hfs, fun t ht => (hinv.executed t ht).1, h.nodup⟩
      · exact h3 e he

end

end PieModel
