/-
Top-down building without any assumption on the checkers or on `consistent` (`OneAccess`
programs): every function of the top-down context preserves the weak invariant `WInv`, whatever
the result.
-/
import PieModel.Build.BuW.StaticRun
import PieModel.Build.BuW.TdMake

namespace PieModel

variable (ro : Roles) (sem : Sem) (body : Nat → Prog)

/-- The joint statement for fuel `f`. -/
structure StR (f : Nat) : Prop where
  require : ∀ (s : Sess) (a ta u c : Nat), WInv ro sem body s → s.cur = some a →
    s.store.taskOf a = some ta → ro.rank ta < ro.rank u →
    (∀ d0, (nodeOf s u, d0) ∉ s.store.g.outgoingEdges a) →
    BOut sem body (tdRequire sem body f s u c) (fun s' out =>
      WStep ro sem body (ro.rank u) (some a) s s' ∧
      s'.store.g.outgoingEdges a =
        s.store.g.outgoingEdges a ++ [(nodeOf s u, .require u c (sem.ostamp c out))])
  requireRoot : ∀ (s : Sess) (u c : Nat), WInv ro sem body s → s.cur = none →
    BOut sem body (tdRequire sem body f s u c) (fun s' _ => WStep ro sem body 0 none s s')
  make : ∀ (s : Sess) (t : Nat), WInv ro sem body s → CurBelow ro (ro.rank t) s →
    BOut sem body (tdMake sem body f s t) (fun s' _ => WStep ro sem body (ro.rank t) none s s')
  check : ∀ (s : Sess) (node t : Nat), WInv ro sem body s → s.store.taskOf node = some t →
    CurBelow ro (ro.rank t) s →
    BOut sem body (tdCheck sem body f s node)
      (fun s' _ => WStep ro sem body (ro.rank t + 1) none s s')
  checkDeps : ∀ (s : Sess) (ds : List Dep) (k : Nat), WInv ro sem body s → CurBelow ro k s →
    (∀ u c st, Dep.require u c st ∈ ds → k ≤ ro.rank u) →
    BOut sem body (tdCheckDeps sem body f s ds) (fun s' _ => WStep ro sem body k none s s')
  run : ∀ (s : Sess) (a ta : Nat) (p : Prog) (acc : Acc) (qt qr : List Nat),
    WInv ro sem body s → s.cur = some a → s.store.taskOf a = some ta →
    StaticRolesFrom ro ta acc p → AccOK s.store a acc → NoRep qt qr p →
    RunKeysS qt qr (s.store.g.outgoingEdges a) →
    BOut sem body (tdRun sem body f s p) (fun s' v =>
      WStep ro sem body (ro.rank ta) none s s' ∧
      (∀ p ∈ s'.store.g.outgoingEdges a, p.2 ≠ .reserved) ∧
      ∃ new, s'.store.depsFrom a = s.store.depsFrom a ++ new ∧
        ReplayO sem p (s.store.depsFrom a) new v)

variable {ro sem body}

theorem StR.zero : StR ro sem body 0 := by
  refine ⟨?_, ?_, ?_, ?_, ?_, ?_⟩
  · intro s a ta u c h _ _ _ _; unfold tdRequire; exact .abort h.faithful
  · intro s u c h _; unfold tdRequire; exact .abort h.faithful
  · intro s t h _; unfold tdMake; exact .abort h.faithful
  · intro s n t h _ _; unfold tdCheck; exact .abort h.faithful
  · intro s ds k h _ _; unfold tdCheckDeps; exact .abort h.faithful
  · intro s a ta p acc qt qr h _ _ _ _ _ _; unfold tdRun; exact .abort h.faithful

theorem CurBelow.le {k : Nat} {s s' : Sess} (h : CurBelow ro k s) (hle : s.store.Le s'.store)
    (hc : s'.cur = s.cur) : CurBelow ro k s' := fun c hcc => by
  obtain ⟨tc, h1, h2⟩ := h c (hc ▸ hcc)
  exact ⟨tc, hle.task _ _ h1, h2⟩

theorem CurBelow.mono {k k' : Nat} {s : Sess} (h : CurBelow ro k s) (hk : k ≤ k') :
    CurBelow ro k' s := fun c hc => by
  obtain ⟨tc, h1, h2⟩ := h c hc
  exact ⟨tc, h1, Nat.lt_of_lt_of_le h2 hk⟩

theorem StR.require_succ {f : Nat} (ih : StR ro sem body f) (s : Sess) (a ta u c : Nat)
    (h : WInv ro sem body s) (hca : s.cur = some a) (hta : s.store.taskOf a = some ta)
    (hlt : ro.rank ta < ro.rank u)
    (hno : ∀ d0, (nodeOf s u, d0) ∉ s.store.g.outgoingEdges a) :
    BOut sem body (tdRequire sem body (f + 1) s u c) (fun s' out =>
      WStep ro sem body (ro.rank u) (some a) s s' ∧
      s'.store.g.outgoingEdges a =
        s.store.g.outgoingEdges a ++ [(nodeOf s u, .require u c (sem.ostamp c out))]) := by
  have hw := h.wf.store
  unfold tdRequire; simp only []
  obtain ⟨p1, hs1⟩ := h.getTask u (s' := reqStart s u c) rfl rfl rfl rfl rfl
  have hd1 : (reqStart s u c).store.taskOf (nodeOf s u) = some u :=
    Store.taskOf_getOrCreateTaskNode_self hw u
  have hta1 : (reqStart s u c).store.taskOf a = some ta := p1.le.task _ _ hta
  have hc1 : (reqStart s u c).cur = some a := p1.cur.trans hca
  have hpre1 : ReqPre ro (reqStart s u c) u := fun cur hcur => by
    have : cur = a := Option.some.inj (hcur.symm.trans hc1)
    subst this; exact ⟨ta, hta1, hlt⟩
  have w1 : WStep ro sem body (ro.rank u) (some a) s (reqStart s u c) := .of_pstep p1 hca
  split
  next s2 a' heq2 => exact .abort (reserveRequire_w p1.inv hd1 hpre1 heq2).1.inv.faithful
  next s2 heq2 =>
    obtain ⟨p2, _, e2⟩ := reserveRequire_w p1.inv hd1 hpre1 heq2
    obtain ⟨_, halt⟩ := e2 rfl a hc1
    have w2 : WStep ro sem body (ro.rank u) (some a) (reqStart s u c) s2 := .of_pstep p2 hc1
    have hta2 : s2.store.taskOf a = some ta := p2.le.task _ _ hta1
    have hd2 : s2.store.taskOf (nodeOf s u) = some u := p2.le.task _ _ hd1
    have hc2 : s2.cur = some a := p2.cur.trans hc1
    have hcb2 : CurBelow ro (ro.rank u) s2 := fun cur hcur => by
      have : cur = a := Option.some.inj (hcur.symm.trans hc2)
      subst this; exact ⟨ta, hta2, hlt⟩
    have IHm := ih.make s2 u p2.inv hcb2
    split
    next s3 a' heq3 => exact .abort (IHm.faithful_of heq3)
    next s3 out heq3 =>
      have w3 := IHm.ok s3 out heq3
      have hd3 : s3.store.taskOf (nodeOf s u) = some u := w3.le.task _ _ hd2
      have p3 := w3.inv.emit (.requireEnd u c (sem.ostamp c out) out)
      have hc3 : (s3.emit (.requireEnd u c (sem.ostamp c out) out)).cur = some a := by
        show s3.cur = some a
        rw [w3.cur]; exact hc2
      split
      next s4 a' heq4 =>
        exact .abort (updateRequire_w p3.inv hd3 c (sem.ostamp c out) heq4).1.inv.faithful
      next s4 heq4 =>
        obtain ⟨p4, _, e4⟩ := updateRequire_w p3.inv hd3 c (sem.ostamp c out) heq4
        have hoe4 := e4 rfl a hc3
        have w34 : WStep ro sem body (ro.rank u) (some a) s3 s4 :=
          (WStep.of_pstep (p3.trans p4) (by rw [w3.cur]; exact hc2))
        refine .ret p4.inv.faithful ⟨((w1.trans w2).trans w3.add).trans w34, ?_⟩
        have hsame23 : Same s2 s3 a := w3.below a ta hta2 hlt (fun hh => nomatch hh)
        have hupd : EdgeUpdO (s.store.g.outgoingEdges a) (s4.store.g.outgoingEdges a) (nodeOf s u)
            (.require u c (sem.ostamp c out)) := by
          apply edgeUpdO_of (Lc := s2.store.g.outgoingEdges a)
          · rw [← (hs1 a).2]; exact halt
          · rw [hoe4]
            show (s3.store.g.outgoingEdges a).map _ = _
            rw [hsame23.2]
        rcases hupd with ⟨⟨d0, hd0⟩, _⟩ | ⟨_, hLf⟩
        · exact absurd hd0 (hno d0)
        · exact hLf

theorem StR.requireRoot_succ {f : Nat} (ih : StR ro sem body f) (s : Sess) (u c : Nat)
    (h : WInv ro sem body s) (hcn : s.cur = none) :
    BOut sem body (tdRequire sem body (f + 1) s u c)
      (fun s' _ => WStep ro sem body 0 none s s') := by
  unfold tdRequire; simp only []
  obtain ⟨p1, hs1⟩ := h.getTask u (s' := reqStart s u c) rfl rfl rfl rfl rfl
  have hc1 : (reqStart s u c).cur = none := hcn
  have w1 : WStep ro sem body 0 none s (reqStart s u c) :=
    ⟨p1.inv, p1.le, p1.cur, fun n _ _ _ _ => hs1 n⟩
  have IHm := ih.make (reqStart s u c) u p1.inv (fun c hc => by rw [hc1] at hc; cases hc)
  split
  next s2 a' heq2 =>
    obtain ⟨_, h2⟩ := reserveRequire_none' heq2 hc1
    cases h2
  next s2 heq2 =>
    obtain ⟨h2, _⟩ := reserveRequire_none' heq2 hc1
    subst h2
    split
    next s3 a' heq3 => exact .abort (IHm.faithful_of heq3)
    next s3 out heq3 =>
      have w3 := IHm.ok s3 out heq3
      have hc3 : (s3.emit (.requireEnd u c (sem.ostamp c out) out)).cur = none := by
        show s3.cur = none
        rw [w3.cur]; exact hc1
      have p3 := w3.inv.emit (.requireEnd u c (sem.ostamp c out) out)
      split
      next s4 a' heq4 =>
        obtain ⟨_, h4⟩ := updateRequire_none' heq4 hc3
        cases h4
      next s4 heq4 =>
        obtain ⟨h4, _⟩ := updateRequire_none' heq4 hc3
        subst h4
        exact .ret p3.inv.faithful ((w1.trans (w3.mono (Nat.zero_le _))).trans
          ⟨p3.inv, p3.le, p3.cur, fun n _ _ _ _ => ⟨rfl, rfl⟩⟩)

section
variable (hst : StampTotal sem) (hwf : WellFormedBody ro body)
include hst hwf

theorem StR.run_succ {f : Nat} (ih : StR ro sem body f) (s : Sess) (a ta : Nat)
    (p : Prog) (acc : Acc) (qt qr : List Nat)
    (h : WInv ro sem body s) (hca : s.cur = some a)
    (hta : s.store.taskOf a = some ta) (hsr : StaticRolesFrom ro ta acc p)
    (ha : AccOK s.store a acc) (hone : NoRep qt qr p)
    (hkeys : RunKeysS qt qr (s.store.g.outgoingEdges a)) :
    BOut sem body (tdRun sem body (f + 1) s p) (fun s' v =>
      WStep ro sem body (ro.rank ta) none s s' ∧
      (∀ p ∈ s'.store.g.outgoingEdges a, p.2 ≠ .reserved) ∧
      ∃ new, s'.store.depsFrom a = s.store.depsFrom a ++ new ∧
        ReplayO sem p (s.store.depsFrom a) new v) := by
  have hw := h.wf.store
  cases p with
  | ret v =>
    unfold tdRun
    exact .ret h.faithful ⟨WStep.refl h, hkeys.not_reserved, [], by simp, rfl, rfl⟩
  | panic => unfold tdRun; exact .abort h.faithful
  | req u c k =>
    unfold tdRun
    obtain ⟨hlt, hk⟩ := hsr
    obtain ⟨hu, hk2⟩ := hone
    have hpre : ReqPre ro s u := fun cur hc' => by
      have : cur = a := Option.some.inj (hc'.symm.trans hca)
      subst this; exact ⟨ta, hta, hlt⟩
    have hno : ∀ d0, (nodeOf s u, d0) ∉ s.store.g.outgoingEdges a := by
      intro d0 hd0
      have hok := (hw.mem_outgoingEdges_ok hd0).2
      have hkey := hkeys _ hd0
      have hle := Store.le_getOrCreateTaskNode hw u
      have hself : (s.store.getOrCreateTaskNode u).1.taskOf (nodeOf s u) = some u :=
        Store.taskOf_getOrCreateTaskNode_self hw u
      cases d0 with
      | reserved => exact hkey
      | require u' c' st =>
        have h1 := hle.task _ _ hok
        rw [hself] at h1; cases h1
        exact hu hkey
      | read r' c' st =>
        have h1 := hle.res _ _ hok
        rw [Store.resOf_eq_none_of_taskOf hself] at h1; cases h1
      | write r' c' st =>
        have h1 := hle.res _ _ hok
        rw [Store.resOf_eq_none_of_taskOf hself] at h1; cases h1
    have IH := ih.require s a ta u c h hca hta hlt hno
    have hacc := ((tdRoles (sem := sem) hwf f).require s u c h.wf h.roles hpre).2
    split
    next s1 a' heq => exact .abort (IH.faithful_of heq)
    next s1 out heq =>
      obtain ⟨w1, he⟩ := IH.ok s1 out heq
      have ha1 : AccOK s1.store a { acc with req := u :: acc.req } := by
        have := hacc a acc out hca (by rw [heq]) ha
        rwa [heq] at this
      have hkeys1 : RunKeysS (u :: qt) qr (s1.store.g.outgoingEdges a) := by
        rw [he]
        exact (hkeys.mono (fun x hx => List.mem_cons_of_mem _ hx) (fun x hx => hx)).append
          List.mem_cons_self
      have IH2 := ih.run s1 a ta (k out) _ (u :: qt) qr w1.inv (w1.cur.trans hca)
        (w1.le.task _ _ hta) (hk out) ha1 (hk2 out) hkeys1
      refine IH2.mono ?_
      rintro s' v ⟨w', hnr', new, hnew, hrep'⟩
      refine ⟨((w1.mono (Nat.le_of_lt hlt)).drop hta (Nat.le_refl _)).trans w', hnr', ?_⟩
      have hd1 := depsFrom_of_oe he
      simp only [List.map_cons, List.map_nil] at hd1
      exact ⟨.require u c (sem.ostamp c out) :: new, by rw [hnew, hd1]; simp,
        .inr ⟨sem.ostamp c out, new, rfl, out, rfl, by rw [← hd1]; exact hrep'⟩⟩
  | read r c k =>
    unfold tdRun
    obtain ⟨hng, hreq, hk⟩ := hsr
    obtain ⟨hr, hk2⟩ := hone
    split
    next s1 a' heq => exact .abort (doRead_w hst h hca hta ha r c hreq heq).1.inv.faithful
    next s1 x heq =>
      obtain ⟨p1, _, ha1, e1⟩ := doRead_w hst h hca hta ha r c hreq heq
      obtain ⟨rfl, dst, stamp, hstamp, hresof, halt⟩ := e1 x rfl
      -- there is no edge to the resource yet
      have hnone : ∀ d0, (dst, d0) ∉ s.store.g.outgoingEdges a := by
        intro d0 hd0
        have hok := (hw.mem_outgoingEdges_ok hd0).2
        have hkey := hkeys _ hd0
        cases d0 with
        | reserved => exact hkey
        | write r' c' st0 =>
          have h1 : s1.store.resOf dst = some r' := p1.le.res _ _ hok
          rw [hresof] at h1; cases h1
          exact hng (h.roles.write a dst r c' st0 ta
            ((Dag.mem_outgoingEdges hw.gwf _ _ _).mp hd0) hta)
        | require u' c' st0 =>
          have h1 : s1.store.taskOf dst = some u' := p1.le.task _ _ hok
          rw [Store.taskOf_eq_none_of_resOf hresof] at h1; cases h1
        | read r' c' st0 =>
          have h1 : s1.store.resOf dst = some r' := p1.le.res _ _ hok
          rw [hresof] at h1; cases h1
          exact hr hkey
      have he : s1.store.g.outgoingEdges a =
          s.store.g.outgoingEdges a ++ [(dst, .read r c stamp)] := by
        rcases halt with ⟨⟨d0, hd0⟩, _⟩ | ⟨_, he⟩
        · exact absurd hd0 (hnone d0)
        · exact he
      have hkeys1 : RunKeysS qt (r :: qr) (s1.store.g.outgoingEdges a) := by
        rw [he]
        exact (hkeys.mono (fun x hx => hx) (fun x hx => List.mem_cons_of_mem _ hx)).append
          List.mem_cons_self
      have w1 : WStep ro sem body (ro.rank ta) none s s1 :=
        (WStep.of_pstep p1 hca).drop hta (Nat.le_refl _)
      have IH2 := ih.run s1 a ta (k (.ok (aget s.fs r))) acc qt (r :: qr) p1.inv
        (p1.cur.trans hca) (p1.le.task _ _ hta) (hk _) ha1 (hk2 _) hkeys1
      refine IH2.mono ?_
      rintro s' v ⟨w', hnr', new, hnew, hrep'⟩
      refine ⟨w1.trans w', hnr', ?_⟩
      have hd1 := depsFrom_of_oe he
      simp only [List.map_cons, List.map_nil] at hd1
      exact ⟨.read r c stamp :: new, by rw [hnew, hd1]; simp,
        .inr ⟨stamp, new, rfl, aget s.fs r, hstamp, by rw [← hd1]; exact hrep'⟩⟩
  | write r c v k =>
    unfold tdRun
    obtain ⟨hg, hnw, hk⟩ := hsr
    split
    next s1 a' heq => exact .abort (doWrite_w hst h hca hta ha r c v hg hnw heq).1.inv.faithful
    next s1 x heq =>
      obtain ⟨p1, _, e1⟩ := doWrite_w hst h hca hta ha r c v hg hnw heq
      obtain ⟨rfl, ha1, _, dst, stamp, hstamp, _, _, happ⟩ := e1 x rfl
      have hkeys1 : RunKeysS qt qr (s1.store.g.outgoingEdges a) := by
        rw [happ]; exact hkeys.append trivial
      have w1 : WStep ro sem body (ro.rank ta) none s s1 :=
        (WStep.of_pstep p1 hca).drop hta (Nat.le_refl _)
      have IH2 := ih.run s1 a ta (k (.ok ())) _ qt qr p1.inv (p1.cur.trans hca)
        (p1.le.task _ _ hta) (hk _) ha1 (hone _) hkeys1
      refine IH2.mono ?_
      rintro s' v' ⟨w', hnr', new, hnew, hrep'⟩
      refine ⟨w1.trans w', hnr', ?_⟩
      have hd1 := depsFrom_of_oe happ
      simp only [List.map_cons, List.map_nil] at hd1
      exact ⟨.write r c stamp :: new, by rw [hnew, hd1]; simp,
        stamp, new, rfl, hstamp, by rw [← hd1]; exact hrep'⟩
  | wrote r c v k =>
    unfold tdRun
    obtain ⟨hg, hnw, hk⟩ := hsr
    split
    next s1 a' heq => exact .abort (doWrote_w hst h hca hta ha r c v hg hnw heq).1.inv.faithful
    next s1 x heq =>
      obtain ⟨p1, _, e1⟩ := doWrote_w hst h hca hta ha r c v hg hnw heq
      obtain ⟨rfl, ha1, _, dst, stamp, hstamp, _, _, happ⟩ := e1 x rfl
      have hkeys1 : RunKeysS qt qr (s1.store.g.outgoingEdges a) := by
        rw [happ]; exact hkeys.append trivial
      have w1 : WStep ro sem body (ro.rank ta) none s s1 :=
        (WStep.of_pstep p1 hca).drop hta (Nat.le_refl _)
      have IH2 := ih.run s1 a ta (k (.ok ())) _ qt qr p1.inv (p1.cur.trans hca)
        (p1.le.task _ _ hta) (hk _) ha1 (hone _) hkeys1
      refine IH2.mono ?_
      rintro s' v' ⟨w', hnr', new, hnew, hrep'⟩
      refine ⟨w1.trans w', hnr', ?_⟩
      have hd1 := depsFrom_of_oe happ
      simp only [List.map_cons, List.map_nil] at hd1
      exact ⟨.write r c stamp :: new, by rw [hnew, hd1]; simp,
        stamp, new, rfl, hstamp, by rw [← hd1]; exact hrep'⟩

end


/-- A step that touches nothing the weak invariant looks at. -/
theorem WStep.quiet {k : Nat} {ex : Option Nat} {s s' : Sess} (h : WInv ro sem body s)
    (h1 : s'.store = s.store) (h2 : s'.fs = s.fs) (h3 : s'.cur = s.cur)
    (h5 : s'.queue = s.queue) : WStep ro sem body k ex s s' :=
  WStep.of_core h (h.wf.same h1 h3 h5).wf h1 (h2 ▸ h.nodup) h3

theorem StR.checkDeps_succ {f : Nat} (ih : StR ro sem body f) (s : Sess) (ds : List Dep)
    (k : Nat) (h : WInv ro sem body s) (hcb : CurBelow ro k s)
    (hreq : ∀ u c st, Dep.require u c st ∈ ds → k ≤ ro.rank u) :
    BOut sem body (tdCheckDeps sem body (f + 1) s ds)
      (fun s' _ => WStep ro sem body k none s s') := by
  cases ds with
  | nil => unfold tdCheckDeps; exact .ret h.faithful (WStep.refl h)
  | cons d ds =>
    have hreq' : ∀ u c st, Dep.require u c st ∈ ds → k ≤ ro.rank u :=
      fun u c st hm => hreq u c st (List.mem_cons_of_mem _ hm)
    cases d with
    | reserved => unfold tdCheckDeps; exact .abort h.faithful
    | require t c stamp =>
      unfold tdCheckDeps
      simp only
      have hkt : k ≤ ro.rank t := hreq t c stamp List.mem_cons_self
      have p0 : WStep ro sem body k none s (s.emit (.checkTaskStart t c stamp)) :=
        WStep.quiet h rfl rfl rfl rfl
      have IH := ih.make (s.emit (.checkTaskStart t c stamp)) t p0.inv
        ((hcb.le p0.le p0.cur).mono hkt)
      split
      next s2 a heq => exact .abort (IH.faithful_of heq)
      next s2 out heq =>
        have p2 := p0.trans ((IH.ok s2 out heq).mono hkt)
        have p3 : WStep ro sem body k none s
            (s2.emit (.checkTaskEnd t c stamp (sem.ocheck c out stamp))) :=
          p2.trans (WStep.quiet p2.inv rfl rfl rfl rfl)
        split
        · have IH2 := ih.checkDeps _ ds k p3.inv (hcb.le p3.le p3.cur) hreq'
          exact IH2.mono (fun s' _ hp => p3.trans hp)
        · exact .ret p3.inv.faithful p3
    | read r c stamp =>
      unfold tdCheckDeps
      simp only
      have p1 : WStep ro sem body k none s
          ((s.emit (.checkResStart r c stamp)).emit (.checkResEnd r c stamp
            (checkResDep sem (s.emit (.checkResStart r c stamp)) r c stamp))) :=
        WStep.quiet h rfl rfl rfl rfl
      split
      · have IH2 := ih.checkDeps _ ds k p1.inv (hcb.le p1.le p1.cur) hreq'
        exact IH2.mono (fun s' _ hp => p1.trans hp)
      · exact .ret p1.inv.faithful p1
      · exact .ret h.faithful (p1.trans (WStep.quiet p1.inv rfl rfl rfl rfl))
    | write r c stamp =>
      unfold tdCheckDeps
      simp only
      have p1 : WStep ro sem body k none s
          ((s.emit (.checkResStart r c stamp)).emit (.checkResEnd r c stamp
            (checkResDep sem (s.emit (.checkResStart r c stamp)) r c stamp))) :=
        WStep.quiet h rfl rfl rfl rfl
      split
      · have IH2 := ih.checkDeps _ ds k p1.inv (hcb.le p1.le p1.cur) hreq'
        exact IH2.mono (fun s' _ hp => p1.trans hp)
      · exact .ret p1.inv.faithful p1
      · exact .ret h.faithful (p1.trans (WStep.quiet p1.inv rfl rfl rfl rfl))

theorem StR.check_succ {f : Nat} (ih : StR ro sem body f) (s : Sess) (node t : Nat)
    (h : WInv ro sem body s) (ht : s.store.taskOf node = some t)
    (hcb : CurBelow ro (ro.rank t) s) :
    BOut sem body (tdCheck sem body (f + 1) s node)
      (fun s' _ => WStep ro sem body (ro.rank t + 1) none s s') := by
  have hw := h.wf.store
  unfold tdCheck
  split
  · exact .ret h.faithful (WStep.refl h)
  next o0 ho0 =>
    have hreq : ∀ u c st, Dep.require u c st ∈ s.store.depsFrom node → ro.rank t + 1 ≤ ro.rank u := by
      intro u c st hm
      obtain ⟨dst, hd⟩ := (Store.mem_depsFrom_iff (st := s.store)).mp hm
      have hok := (hw.mem_outgoingEdges_ok hd).2
      exact h.roles.req node dst _ t u ((Dag.mem_outgoingEdges hw.gwf _ _ _).mp hd) ht hok
    have IH := ih.checkDeps s (s.store.depsFrom node) (ro.rank t + 1) h
      (hcb.mono (Nat.le_succ _)) hreq
    split
    next s2 a heq => exact .abort (IH.faithful_of heq)
    next s2 heq => exact .ret (IH.ok s2 _ heq).inv.faithful (IH.ok s2 _ heq)
    next s2 heq => exact .ret (IH.ok s2 _ heq).inv.faithful (IH.ok s2 _ heq)

theorem StR.make_succ (hwf : WellFormedBody ro body) (hone : ∀ t, OneAccess (body t)) {f : Nat}
    (ih : StR ro sem body f) (s : Sess) (t : Nat) (h : WInv ro sem body s)
    (hcb : CurBelow ro (ro.rank t) s) :
    BOut sem body (tdMake sem body (f + 1) s t)
      (fun s' _ => WStep ro sem body (ro.rank t) none s s') := by
  have hw := h.wf.store
  obtain ⟨p1, hs1⟩ := h.getTask t (s' := makeStart s t) rfl rfl rfl rfl rfl
  have ht1 : (makeStart s t).store.taskOf (s.store.getOrCreateTaskNode t).2 = some t :=
    Store.taskOf_getOrCreateTaskNode_self hw t
  have w1 : WStep ro sem body (ro.rank t) none s (makeStart s t) :=
    ⟨p1.inv, p1.le, p1.cur, fun n _ _ _ _ => hs1 n⟩
  have hcb1 : CurBelow ro (ro.rank t) (makeStart s t) := hcb.le p1.le p1.cur
  unfold tdMake
  simp only []
  generalize (s.store.getOrCreateTaskNode t).2 = node at ht1 ⊢
  split
  · split
    · exact .ret p1.inv.faithful w1
    · exact .abort p1.inv.faithful
  · have IHc := ih.check (makeStart s t) node t p1.inv ht1 hcb1
    split
    next s2 a heq => exact .abort (IHc.faithful_of heq)
    next s2 o heq =>
      have w2 := IHc.ok s2 _ heq
      have w3 : WStep ro sem body (ro.rank t) none s2 (s2.markConsistent node) :=
        WStep.of_core w2.inv (w2.inv.wf.markConsistent _) (by simp) (by simpa using w2.inv.nodup)
          (by simp)
      exact .ret w3.inv.faithful ((w1.trans (w2.mono (Nat.le_succ _))).trans w3)
    next s2 heq =>
      have w2 := (IHc.ok s2 _ heq).mono (Nat.le_succ (ro.rank t))
      have h2 := w2.inv
      have hw2 := h2.wf.store
      have ht2 : s2.store.taskOf node = some t := w2.le.task _ _ ht1
      have hcb2 : CurBelow ro (ro.rank t) s2 := hcb1.le w2.le w2.cur
      obtain ⟨h3, hs3, he3, _⟩ := h2.startExec ht2 (.executeStart t)
      generalize hS3 : (({ s2 with
        store := s2.store.resetTask node, cur := some node } : Sess).emit
          (.executeStart t)) = S3 at h3 hs3 ⊢
      have hst3 : S3.store = s2.store.resetTask node := by rw [← hS3]; rfl
      have hle3 : s2.store.Le S3.store := hst3 ▸ Store.le_resetTask hw2 _
      have hoe3 : S3.store.g.outgoingEdges node = [] := by rw [hst3]; exact he3
      have ht3 : S3.store.taskOf node = some t := hle3.task _ _ ht2
      have IHr := ih.run S3 node t (body t) {} [] [] h3 (by rw [← hS3]; rfl) ht3 (hwf t)
        (by rw [hst3]; exact AccOK.start hw2 _) (hone t) (by rw [hoe3]; intro p hp; cases hp)
      split
      next s4 a' heq4 => exact .abort (IHr.faithful_of heq4)
      next s4 o heq4 =>
        obtain ⟨w4, _, new, hnew, hrep⟩ := IHr.ok s4 o heq4
        have hd3 : S3.store.depsFrom node = [] := by rw [Store.depsFrom_eq, hoe3]; rfl
        rw [hd3, List.nil_append] at hnew
        rw [hd3] at hrep
        have ht4 : s4.store.taskOf node = some t := w4.le.task _ _ ht3
        have hwf5 : SessWF ({ (s4.emit (.executeEnd t o)) with
            cur := s2.cur,
            store := (s4.emit (.executeEnd t o)).store.setTaskOutput node o } : Sess) :=
          (Ext.endExec (s₂ := s2) (s₄ := s4.emit (.executeEnd t o))
            ⟨w4.inv.wf.emit _, hle3.trans w4.le⟩ h2.wf node o).wf
        have hprev : ∀ c, s2.cur = some c → c ≠ node ∧ s4.store.taskOutput c = none := by
          intro c hc
          obtain ⟨tc, htc, hlt⟩ := hcb2 c hc
          have hcn : c ≠ node := by
            rintro rfl
            rw [ht2] at htc; cases htc
            exact Nat.lt_irrefl _ hlt
          refine ⟨hcn, ?_⟩
          rw [(w4.below c tc (hle3.task _ _ htc) hlt (fun hh => nomatch hh)).1, (hs3 c hcn).1]
          exact h2.curFree c hc
        obtain ⟨h5, hs5, _, _⟩ := w4.inv.endExec (node := node) (t := t) (o := o)
          (s' := { (s4.emit (.executeEnd t o)) with
            cur := s2.cur, store := (s4.emit (.executeEnd t o)).store.setTaskOutput node o })
          ht4 (by rw [hnew]; exact hrep) rfl rfl hwf5 hprev
        generalize hS5 : ({ (s4.emit (.executeEnd t o)) with
          cur := s2.cur,
          store := (s4.emit (.executeEnd t o)).store.setTaskOutput node o } : Sess) = S5
          at h5 hs5 ⊢
        have w25 : WStep ro sem body (ro.rank t) none s2 S5 := by
          refine ⟨h5, ?_, by rw [← hS5], ?_⟩
          · rw [← hS5]
            exact (hle3.trans w4.le).trans (Store.le_setTaskOutput _ node o)
          · intro n t' ht' hlt _
            have hxn : n ≠ node := by
              rintro rfl
              rw [ht2] at ht'; cases ht'
              exact Nat.lt_irrefl _ hlt
            exact ((hs3 n hxn).trans
              (w4.below n t' (hle3.task _ _ ht') hlt (fun hh => nomatch hh))).trans (hs5 n hxn)
        have w56 : WStep ro sem body (ro.rank t) none S5 (S5.markConsistent node) :=
          WStep.of_core h5 (h5.wf.markConsistent _) (by simp) (by simpa using h5.nodup) (by simp)
        exact .ret w56.inv.faithful (((w1.trans w2).trans w25).trans w56)


section
variable (hst : StampTotal sem) (hwf : WellFormedBody ro body) (hone : ∀ t, OneAccess (body t))
include hst hwf hone

theorem stR (f : Nat) : StR ro sem body f := by
  induction f with
  | zero => exact StR.zero
  | succ f ih =>
    exact ⟨ih.require_succ, ih.requireRoot_succ, ih.make_succ hwf hone, ih.check_succ,
      ih.checkDeps_succ, ih.run_succ hst hwf⟩

theorem sessionRequire_static (f : Nat) (s : Sess) (t : Nat) (h : WInv ro sem body s) :
    BOut sem body (sessionRequire sem body f s t) (fun s' _ => WInv ro sem body s') := by
  unfold sessionRequire; simp only []
  have h0 : WInv ro sem body (({ s with cur := none } : Sess).emit .buildStart) :=
    ⟨h.wf.clearCur.wf.emit _, h.roles, h.faithful, h.nodup, fun _ hn => nomatch hn⟩
  have key := (stR hst hwf hone f).requireRoot _ t alwaysChecker h0 rfl
  split
  next s2 a heq => exact .abort (key.faithful_of heq)
  next s2 o heq =>
    have w := key.ok s2 o heq
    exact .ret w.inv.faithful (w.inv.emit .buildEnd).inv

theorem requireAll_static (f : Nat) (ts : List Nat) : ∀ (s : Sess), WInv ro sem body s →
    BOut sem body (requireAll sem body f s ts) (fun s' _ => WInv ro sem body s') := by
  induction ts with
  | nil => intro s h; unfold requireAll; exact .ret h.faithful h
  | cons t ts ih =>
    intro s h
    unfold requireAll
    have key := sessionRequire_static hst hwf hone f s t h
    split
    next s2 a heq => exact .abort (key.faithful_of heq)
    next s2 o heq =>
      have key2 := ih s2 (key.ok s2 o heq)
      split
      next s3 a heq3 => exact .abort (key2.faithful_of heq3)
      next s3 os heq3 =>
        have := key2.ok s3 os heq3
        exact .ret this.faithful this

end

end PieModel
