/-
Bottom-up builds with reflexive checkers: the successor step of `buRequire`.
-/
import PieModel.Build.BuW.Induct

namespace PieModel

variable {ro : Roles} {sem : Sem} {body : Nat → Prog}

/-- The state after the first steps of a `require` (event, node creation). -/
abbrev reqStart (s : Sess) (u c : Nat) : Sess :=
  { s.emit (.requireStart u c) with store := (s.store.getOrCreateTaskNode u).1 }

theorem BuR.require_succ {f : Nat} (ih : BuR ro sem body f) (s : Sess) (ch₀ : List Nat)
    (a ta : Nat) (X : List Nat) (u c : Nat)
    (h : BI ro sem body s (ch₀ ++ [a]) X []) (hX : ∀ x ∈ X, x ∈ ch₀ ++ [a])
    (hta : s.store.taskOf a = some ta) (hlt : ro.rank ta < ro.rank u)
    (_hnr : ∀ p ∈ s.store.g.outgoingEdges a, p.2 ≠ .reserved)
    (hex : ∀ d0, (nodeOf s u, d0) ∈ s.store.g.outgoingEdges a → ∃ st, d0 = .require u c st) :
    BOut sem body (buRequire sem body (f + 1) s u c) (fun s' out =>
      BI ro sem body s' (ch₀ ++ [a]) X [] ∧ BMono ro (ro.rank ta) s s' ∧
      s'.store.taskOf (nodeOf s u) = some u ∧ s'.store.taskOutput (nodeOf s u) = some out ∧
      nodeOf s u ∈ s'.consistent ∧
      (((nodeOf s u, Dep.require u c (sem.ostamp c out)) ∈ s.store.g.outgoingEdges a ∧
          s'.store.g.outgoingEdges a = s.store.g.outgoingEdges a) ∨
       ((∀ d0, (nodeOf s u, d0) ∉ s.store.g.outgoingEdges a) ∧
          s'.store.g.outgoingEdges a =
            s.store.g.outgoingEdges a ++ [(nodeOf s u, .require u c (sem.ostamp c out))]))) := by
  have hw := h.sw
  have hca := h.cur_top
  have hanc := h.top_not_cons
  unfold buRequire; simp only []
  -- node creation
  obtain ⟨p1, hs1⟩ := h.base.getTask u (s' := reqStart s u c) rfl rfl rfl rfl rfl
  have hbi1 : BI ro sem body (reqStart s u c) (ch₀ ++ [a]) X [] :=
    h.step none p1.inv p1.le p1.cur p1.queue p1.cons p1.out (fun x _ => (hs1 x).2)
      (fun r _ => rfl) (fun a ha => nomatch ha)
  have hd1 : (reqStart s u c).store.taskOf (nodeOf s u) = some u :=
    Store.taskOf_getOrCreateTaskNode_self hw u
  have hta1 : (reqStart s u c).store.taskOf a = some ta := p1.le.task _ _ hta
  have hc1 : (reqStart s u c).cur = some a := p1.cur.trans hca
  have hpre1 : ReqPre ro (reqStart s u c) u := fun cur hcur => by
    have : cur = a := Option.some.inj (hcur.symm.trans hc1)
    subst this; exact ⟨ta, hta1, hlt⟩
  have hm1 : BMono ro (ro.rank ta) s (reqStart s u c) :=
    BMono.of_same p1.le p1.cur (fun x hx => p1.cons ▸ hx) hs1
  split
  next s2 a' heq2 => exact .abort (reserveRequire_w p1.inv hd1 hpre1 heq2).1.inv.faithful
  next s2 heq2 =>
    obtain ⟨p2, f2, e2⟩ := reserveRequire_w p1.inv hd1 hpre1 heq2
    obtain ⟨_, halt⟩ := e2 rfl a hc1
    have hta2 : s2.store.taskOf a = some ta := p2.le.task _ _ hta1
    have hd2 : s2.store.taskOf (nodeOf s u) = some u := p2.le.task _ _ hd1
    have hbi2 : BI ro sem body s2 (ch₀ ++ [a]) X [] := by
      refine hbi1.stepTop hta1 p2 (fun r _ => by rw [f2]) (fun _ _ r _ _ _ => by rw [f2]) ?_
      intro p hp
      rcases halt with ⟨_, he⟩ | ⟨_, he⟩
      · rw [he] at hp; exact .inl hp
      · rw [he] at hp
        rcases List.mem_append.mp hp with hp | hp
        · exact .inl hp
        · simp only [List.mem_singleton] at hp; subst hp; exact .inr trivial
    have hm2 : BMono ro (ro.rank ta) (reqStart s u c) s2 :=
      BMono.of_pstep p2 hc1 hta1 (Nat.le_refl _) (by rw [p1.cons]; exact hanc)
    have IHm := ih.make s2 (ch₀ ++ [a]) X u (nodeOf s u) hbi2 hX hd2
      (hbi2.stackBelow_top hta2 hlt)
    split
    next s3 a' heq3 => exact .abort (IHm.faithful_of heq3)
    next s3 out heq3 =>
      obtain ⟨hbi3, hm3, ho3⟩ := IHm.ok s3 out heq3
      have hta3 : s3.store.taskOf a = some ta := hm3.le.task _ _ hta2
      have hd3 : s3.store.taskOf (nodeOf s u) = some u := hm3.le.task _ _ hd2
      have hbi3' := hbi3.emit (.requireEnd u c (sem.ostamp c out) out)
      have hc3 : (s3.emit (.requireEnd u c (sem.ostamp c out) out)).cur = some a := by
        show s3.cur = some a
        rw [hm3.cur, p2.cur]; exact hc1
      have hanc3 : a ∉ (s3.emit (.requireEnd u c (sem.ostamp c out) out)).consistent :=
        hbi3'.top_not_cons
      split
      next s4 a' heq4 =>
        exact .abort (updateRequire_w hbi3'.base hd3 c (sem.ostamp c out) heq4).1.inv.faithful
      next s4 heq4 =>
        obtain ⟨p4, f4, e4⟩ := updateRequire_w hbi3'.base hd3 c (sem.ostamp c out) heq4
        have hoe4 := e4 rfl a hc3
        have hout4 : s4.store.taskOutput (nodeOf s u) = some out := by
          rw [p4.out]; exact ho3
        have hbi4 : BI ro sem body s4 (ch₀ ++ [a]) X [nodeOf s u] := by
          refine hbi3'.stepTop hta3 p4 (fun r _ => by rw [f4]) (fun _ _ r _ _ _ => by rw [f4]) ?_
          intro p hp
          rw [hoe4] at hp
          obtain ⟨q, hq, rfl⟩ := List.mem_map.mp hp
          by_cases hq1 : q.1 = nodeOf s u
          · rw [if_pos hq1]
            refine .inr ⟨?_, out, ?_, rfl⟩
            · rw [hq1]; exact List.mem_append_right _ (by simp)
            · rw [hq1]; exact hout4
          · rw [if_neg hq1]; exact .inl hq
        have hbi5 := hbi4.mark
        have hm4 : BMono ro (ro.rank ta) (s3.emit (.requireEnd u c (sem.ostamp c out) out)) s4 :=
          BMono.of_pstep p4 hc3 hta3 (Nat.le_refl _) hanc3
        have hm34 : BMono ro (ro.rank ta) s3 s4 :=
          (BMono.of_same (s := s3) (s' := s3.emit (.requireEnd u c (sem.ostamp c out) out))
            (Store.Le.refl _) rfl (fun _ hx => hx) (fun _ => ⟨rfl, rfl⟩)).trans hm4
        have hm5 : BMono ro (ro.rank ta) s4 (s4.markConsistent (nodeOf s u)) :=
          BMono.of_same (by simp [Store.Le.refl]) (by simp)
            (fun x hx => (Sess.mem_markConsistent _ _ _).mpr (.inl hx))
            (fun x => ⟨by simp, by simp⟩)
        have hmall : BMono ro (ro.rank ta) s (s4.markConsistent (nodeOf s u)) :=
          (((hm1.trans hm2).trans (hm3.mono (Nat.le_of_lt hlt))).trans hm34).trans hm5
        refine .ret hbi5.base.faithful ⟨hbi5, hmall, ?_, ?_, ?_, ?_⟩
        · simpa using p4.le.task _ _ hd3
        · simpa using hout4
        · exact (Sess.mem_markConsistent _ _ _).mpr (.inr rfl)
        · -- the edges of `a`
          have hsame23 : Same s2 s3 a := hm3.below a ta hta2 hlt
          have hupd : EdgeUpdO (s.store.g.outgoingEdges a) (s4.store.g.outgoingEdges a) (nodeOf s u)
              (.require u c (sem.ostamp c out)) := by
            apply edgeUpdO_of (Lc := s2.store.g.outgoingEdges a)
            · rw [← (hs1 a).2]; exact halt
            · rw [hoe4]
              show (s3.store.g.outgoingEdges a).map _ = _
              rw [hsame23.2]
          simp only [Sess.store_markConsistent]
          rcases hupd with ⟨⟨d0, hd0⟩, hLf⟩ | ⟨hno, hLf⟩
          · left
            obtain ⟨st0, rfl⟩ := hex d0 hd0
            obtain ⟨hdc, o0, ho0, hst0⟩ := h.st a (by simp) _ hd0
            have hdc' : nodeOf s u ∈ s.consistent := by simpa using hdc
            have : (s4.markConsistent (nodeOf s u)).store.taskOutput (nodeOf s u) =
                s.store.taskOutput (nodeOf s u) := (hmall.same _ hdc').1
            rw [Sess.store_markConsistent, hout4, ho0] at this
            cases this
            rw [hst0] at hd0
            exact ⟨hd0, by rw [hLf]; exact map_replace_self (hw.outgoingEdges_fst_nodup a) hd0⟩
          · exact .inr ⟨hno, hLf⟩

end PieModel
