/-
Top-down building from a session whose `consistent` set is arbitrary: the successor steps of
`tdCheckDeps`, `tdCheck`, `tdMake`.
-/
import PieModel.Build.BuW.TdRun

namespace PieModel

variable {ro : Roles} {sem : Sem} {body : Nat → Prog}

/-- A step that touches nothing the invariant looks at. -/
theorem TPost.quiet {s s' : Sess} {ch : List Nat} {k : Nat} (h : BI ro sem body s ch [] [])
    (hq : s.queue = []) (h1 : s'.store = s.store) (h2 : s'.fs = s.fs) (h3 : s'.cur = s.cur)
    (h4 : s'.consistent = s.consistent) (h5 : s'.queue = s.queue) :
    TPost ro sem body ch k s s' :=
  ⟨h.of_eq h1 h2 h3 h4 h5, h5.trans hq,
    BMono.of_same (h1 ▸ Store.Le.refl _) h3 (fun x hx => h4 ▸ hx) (fun x => ⟨by rw [h1], by rw [h1]⟩),
    NewCons.of_eq h4⟩

theorem TdR.checkDeps_succ {f : Nat} (ih : TdR ro sem body f) (s : Sess) (ch : List Nat)
    (ds : List Dep) (k : Nat) (h : BI ro sem body s ch [] []) (hq : s.queue = [])
    (hsb : StackBelow ro s.store ch k) (hreq : ∀ u c st, Dep.require u c st ∈ ds → k ≤ ro.rank u) :
    BOut sem body (tdCheckDeps sem body (f + 1) s ds)
      (fun s' _ => TPost ro sem body ch k s s') := by
  cases ds with
  | nil => unfold tdCheckDeps; exact .ret h.base.faithful (TPost.refl h hq)
  | cons d ds =>
    have hreq' : ∀ u c st, Dep.require u c st ∈ ds → k ≤ ro.rank u :=
      fun u c st hm => hreq u c st (List.mem_cons_of_mem _ hm)
    cases d with
    | reserved => unfold tdCheckDeps; exact .abort h.base.faithful
    | require t c stamp =>
      unfold tdCheckDeps
      simp only
      have hkt : k ≤ ro.rank t := hreq t c stamp List.mem_cons_self
      have p0 : TPost ro sem body ch k s (s.emit (.checkTaskStart t c stamp)) :=
        TPost.quiet h hq rfl rfl rfl rfl rfl
      have IH := ih.make (s.emit (.checkTaskStart t c stamp)) ch t p0.bi p0.q (hsb.mono hkt)
      split
      next s2 a heq => exact .abort (IH.faithful_of heq)
      next s2 out heq =>
        obtain ⟨hp2, _, _, _⟩ := IH.ok s2 out heq
        have p2 : TPost ro sem body ch k s s2 := p0.trans (hp2.weaken hkt)
        have p3 : TPost ro sem body ch k s
            (s2.emit (.checkTaskEnd t c stamp (sem.ocheck c out stamp))) :=
          p2.trans (TPost.quiet hp2.bi hp2.q rfl rfl rfl rfl rfl)
        split
        · have IH2 := ih.checkDeps _ ch ds k p3.bi p3.q (hsb.le p3.mono.le h.chTask) hreq'
          exact IH2.mono (fun s' _ hp => p3.trans hp)
        · exact .ret p3.bi.base.faithful p3
    | read r c stamp =>
      unfold tdCheckDeps
      simp only
      have p1 : TPost ro sem body ch k s
          ((s.emit (.checkResStart r c stamp)).emit (.checkResEnd r c stamp
            (checkResDep sem (s.emit (.checkResStart r c stamp)) r c stamp))) :=
        TPost.quiet h hq rfl rfl rfl rfl rfl
      split
      · have IH2 := ih.checkDeps _ ch ds k p1.bi p1.q (hsb.le p1.mono.le h.chTask) hreq'
        exact IH2.mono (fun s' _ hp => p1.trans hp)
      · exact .ret p1.bi.base.faithful p1
      · exact .ret h.base.faithful (p1.trans (TPost.quiet p1.bi p1.q rfl rfl rfl rfl rfl))
    | write r c stamp =>
      unfold tdCheckDeps
      simp only
      have p1 : TPost ro sem body ch k s
          ((s.emit (.checkResStart r c stamp)).emit (.checkResEnd r c stamp
            (checkResDep sem (s.emit (.checkResStart r c stamp)) r c stamp))) :=
        TPost.quiet h hq rfl rfl rfl rfl rfl
      split
      · have IH2 := ih.checkDeps _ ch ds k p1.bi p1.q (hsb.le p1.mono.le h.chTask) hreq'
        exact IH2.mono (fun s' _ hp => p1.trans hp)
      · exact .ret p1.bi.base.faithful p1
      · exact .ret h.base.faithful (p1.trans (TPost.quiet p1.bi p1.q rfl rfl rfl rfl rfl))

theorem TdR.check_succ {f : Nat} (ih : TdR ro sem body f) (s : Sess) (ch : List Nat)
    (node t : Nat) (h : BI ro sem body s ch [] []) (hq : s.queue = [])
    (ht : s.store.taskOf node = some t) (hsb : StackBelow ro s.store ch (ro.rank t)) :
    BOut sem body (tdCheck sem body (f + 1) s node) (fun s' r =>
      TPost ro sem body ch (ro.rank t + 1) s s' ∧
      ∀ o, r = some o → s'.store.taskOutput node = some o) := by
  have hw := h.sw
  unfold tdCheck
  split
  · exact .ret h.base.faithful ⟨TPost.refl h hq, fun o ho => by cases ho⟩
  next o0 ho0 =>
    have hreq : ∀ u c st, Dep.require u c st ∈ s.store.depsFrom node → ro.rank t + 1 ≤ ro.rank u := by
      intro u c st hm
      obtain ⟨dst, hd⟩ := (Store.mem_depsFrom_iff (st := s.store)).mp hm
      have hok := (hw.mem_outgoingEdges_ok hd).2
      exact h.base.roles.req node dst _ t u ((Dag.mem_outgoingEdges hw.gwf _ _ _).mp hd) ht hok
    have IH := ih.checkDeps s ch (s.store.depsFrom node) (ro.rank t + 1) h hq
      (hsb.mono (Nat.le_succ _)) hreq
    split
    next s2 a heq => exact .abort (IH.faithful_of heq)
    next s2 heq =>
      have hp := IH.ok s2 _ heq
      exact .ret hp.bi.base.faithful ⟨hp, fun o ho => by cases ho⟩
    next s2 heq =>
      have hp := IH.ok s2 _ heq
      exact .ret hp.bi.base.faithful ⟨hp, fun o ho => ho⟩

/-- The state after the first step of `tdMake` (node creation). -/
abbrev makeStart (s : Sess) (t : Nat) : Sess :=
  { s with store := (s.store.getOrCreateTaskNode t).1 }

theorem TdR.make_succ (hwf : WellFormedBody ro body) (hone : ∀ t, OneChecker (body t)) {f : Nat}
    (ih : TdR ro sem body f) (s : Sess) (ch : List Nat) (t : Nat)
    (h : BI ro sem body s ch [] []) (hq : s.queue = [])
    (hsb : StackBelow ro s.store ch (ro.rank t)) :
    BOut sem body (tdMake sem body (f + 1) s t) (fun s' v =>
      TPost ro sem body ch (ro.rank t) s s' ∧ s'.store.taskOf (nodeOf s t) = some t ∧
      s'.store.taskOutput (nodeOf s t) = some v ∧ nodeOf s t ∈ s'.consistent) := by
  have hw := h.sw
  obtain ⟨p1, hs1⟩ := h.base.getTask t (s' := makeStart s t) rfl rfl rfl rfl rfl
  have hbi1 : BI ro sem body (makeStart s t) ch [] [] :=
    h.step none p1.inv p1.le p1.cur p1.queue p1.cons p1.out (fun x _ => (hs1 x).2)
      (fun r _ => rfl) (fun a ha => nomatch ha)
  have hq1 : (makeStart s t).queue = [] := hq
  have ht1 : (makeStart s t).store.taskOf (s.store.getOrCreateTaskNode t).2 = some t :=
    Store.taskOf_getOrCreateTaskNode_self hw t
  have hpost1 : TPost ro sem body ch (ro.rank t) s (makeStart s t) :=
    ⟨hbi1, hq1, BMono.of_same p1.le p1.cur (fun x hx => p1.cons ▸ hx) hs1, NewCons.of_eq p1.cons⟩
  have hsb1 : StackBelow ro (makeStart s t).store ch (ro.rank t) := hsb.le p1.le h.chTask
  unfold tdMake nodeOf
  simp only []
  generalize (s.store.getOrCreateTaskNode t).2 = node at ht1 ⊢
  split
  next hc =>
    split
    next o ho => exact .ret hbi1.base.faithful ⟨hpost1, ht1, ho, hc⟩
    · exact .abort hbi1.base.faithful
  next hc =>
    have IHc := ih.check (makeStart s t) ch node t hbi1 hq1 ht1 hsb1
    split
    next s2 a heq => exact .abort (IHc.faithful_of heq)
    next s2 o heq =>
      -- validated: mark consistent
      obtain ⟨hp2, ho2⟩ := IHc.ok s2 _ heq
      have ht2 : s2.store.taskOf node = some t := hp2.mono.le.task _ _ ht1
      have hbi3 : BI ro sem body (s2.markConsistent node) ch [] [] :=
        (hp2.bi.pend_noBusy hp2.q ht2 (ho2 o rfl)).mark
      have ht3' : (s2.markConsistent node).store.taskOf node = some t := by
        rw [Sess.store_markConsistent]; exact ht2
      have ho3' : (s2.markConsistent node).store.taskOutput node = some o := by
        rw [Sess.store_markConsistent]; exact ho2 o rfl
      refine .ret hbi3.base.faithful ⟨?_, ht3', ho3',
        (Sess.mem_markConsistent _ _ _).mpr (.inr rfl)⟩
      refine (hpost1.trans (hp2.weaken (Nat.le_succ _))).trans ⟨hbi3, by simpa using hp2.q,
        BMono.of_same (by simp [Store.Le.refl]) (by simp)
          (fun x hx => (Sess.mem_markConsistent _ _ _).mpr (.inl hx))
          (fun x => ⟨by simp, by simp⟩), ?_⟩
      intro x hx
      rcases (Sess.mem_markConsistent _ _ _).mp hx with hx | rfl
      · exact .inl hx
      · exact .inr ⟨t, ht3', Nat.le_refl _⟩
    next s2 heq =>
      -- inconsistent: execute
      obtain ⟨hp2, _⟩ := IHc.ok s2 _ heq
      have hbi2 := hp2.bi
      have ht2 : s2.store.taskOf node = some t := hp2.mono.le.task _ _ ht1
      have hnc2 : node ∉ s2.consistent := by
        intro hx
        rcases hp2.newCons _ hx with hx | ⟨t', ht', hk⟩
        · exact hc hx
        · rw [ht2] at ht'; cases ht'
          exact Nat.not_succ_le_self _ hk
      have hsb2 : StackBelow ro s2.store ch (ro.rank t) := hsb1.le hp2.mono.le hbi1.chTask
      have hw2 := hbi2.sw
      have hpush := hbi2.push ht2 hnc2 hsb2 (.executeStart t)
      obtain ⟨_, hs3, he3, _⟩ := hbi2.base.startExec ht2 (.executeStart t)
      generalize hS3 : (({ s2 with
        store := s2.store.resetTask node, cur := some node } : Sess).emit
          (.executeStart t)) = S3 at hpush hs3 ⊢
      have hst3 : S3.store = s2.store.resetTask node := by rw [← hS3]; rfl
      have hle3 : s2.store.Le S3.store := hst3 ▸ Store.le_resetTask hw2 _
      have hcons3 : S3.consistent = s2.consistent := by rw [← hS3]; rfl
      have hq3 : S3.queue = [] := by rw [← hS3]; exact hp2.q
      have hoe3 : S3.store.g.outgoingEdges node = [] := by rw [hst3]; exact he3
      have ht3 : S3.store.taskOf node = some t := hle3.task _ _ ht2
      have IHr := ih.run S3 ch node t (body t) {} [] [] hpush hq3 ht3 (hwf t)
        (by rw [hst3]; exact AccOK.start hw2 _) (hone t) (by rw [hoe3]; intro p hp; cases hp)
      split
      next s4 a' heq4 => exact .abort (IHr.faithful_of heq4)
      next s4 o heq4 =>
        obtain ⟨hp4, hnr4, new, hnew, hrep⟩ := IHr.ok s4 o heq4
        have hbi4 := hp4.bi
        have hm4 := hp4.mono
        have hd3 : S3.store.depsFrom node = [] := by rw [Store.depsFrom_eq, hoe3]; rfl
        rw [hd3, List.nil_append] at hnew
        rw [hd3] at hrep
        have hwf5 : SessWF ({ (s4.emit (.executeEnd t o)) with
            cur := s2.cur,
            store := (s4.emit (.executeEnd t o)).store.setTaskOutput node o } : Sess) :=
          (Ext.endExec (s₂ := s2) (s₄ := s4.emit (.executeEnd t o))
            ⟨hbi4.wf.emit _, hle3.trans hm4.le⟩ hbi2.wf node o).wf
        generalize hS5 : ({ (s4.emit (.executeEnd t o)) with
          cur := s2.cur,
          store := (s4.emit (.executeEnd t o)).store.setTaskOutput node o } : Sess) = S5
          at hwf5 ⊢
        have hst5 : S5.store = s4.store.setTaskOutput node o := by rw [← hS5]; rfl
        have ht4 : s4.store.taskOf node = some t := hm4.le.task _ _ ht3
        have hfin : BI ro sem body S5 ch [] [node] :=
          hbi4.finish ht4 (by rw [hnew]; exact hrep) hnr4 hst5
            (by rw [← hS5]; exact hbi2.cur) (by rw [← hS5]; rfl) (by rw [← hS5]; rfl)
            (by rw [← hS5]; rfl) hwf5
        have hbi6 := hfin.mark
        have hto : ∀ n, n ≠ node → S5.store.taskOutput n = s4.store.taskOutput n :=
          fun n hn => by rw [hst5]; exact Store.taskOutput_setTaskOutput_of_ne hn o
        have hoe5 : ∀ n, S5.store.g.outgoingEdges n = s4.store.g.outgoingEdges n :=
          fun n => by rw [hst5]; simp
        have hout5 : S5.store.taskOutput node = some o := by
          rw [hst5]; exact Store.taskOutput_setTaskOutput_self ht4 o
        have ht5 : S5.store.taskOf node = some t := by
          rw [hst5]; simpa using ht4
        have hsame : ∀ x, x ≠ node → Same s2 S3 x → Same S3 s4 x → Same s2 S5 x :=
          fun x hx h1 h2 => (h1.trans h2).trans ⟨hto x hx, hoe5 x⟩
        have hcons5 : S5.consistent = s4.consistent := by rw [← hS5]; rfl
        have hcur5 : S5.cur = s2.cur := by rw [← hS5]
        have hq5 : S5.queue = [] := by rw [← hS5]; exact hp4.q
        -- from `s2` to the final state
        have hm25 : BMono ro (ro.rank t) s2 (S5.markConsistent node) := by
          refine ⟨?_, by rw [Sess.cur_markConsistent, hcur5], fun x hx => ?_, fun x hx => ?_,
            fun n t' ht' hlt => ?_⟩
          · rw [Sess.store_markConsistent, hst5]
            exact (hle3.trans hm4.le).trans (Store.le_setTaskOutput _ _ o)
          · exact (Sess.mem_markConsistent _ _ _).mpr
              (.inl (by rw [hcons5]; exact hm4.cons x (hcons3 ▸ hx)))
          · have hxn : x ≠ node := fun hh => hnc2 (hh ▸ hx)
            have := hsame x hxn (hs3 x hxn) (hm4.same x (hcons3 ▸ hx))
            exact ⟨by rw [Sess.store_markConsistent]; exact this.1,
              by rw [Sess.store_markConsistent]; exact this.2⟩
          · have hxn : n ≠ node := by
              rintro rfl
              rw [ht2] at ht'; cases ht'
              exact Nat.lt_irrefl _ hlt
            have := hsame n hxn (hs3 n hxn) (hm4.below n t' (hle3.task _ _ ht') hlt)
            exact ⟨by rw [Sess.store_markConsistent]; exact this.1,
              by rw [Sess.store_markConsistent]; exact this.2⟩
        have hn25 : NewCons ro (ro.rank t) s2 (S5.markConsistent node) := by
          intro x hx
          rcases (Sess.mem_markConsistent _ _ _).mp hx with hx | rfl
          · rw [hcons5] at hx
            rcases hp4.newCons x hx with hx | ⟨t', ht', hk⟩
            · exact .inl (hcons3 ▸ hx)
            · refine .inr ⟨t', ?_, hk⟩
              rw [Sess.store_markConsistent, hst5]; simpa using ht'
          · exact .inr ⟨t, by rw [Sess.store_markConsistent]; exact ht5, Nat.le_refl _⟩
        refine .ret hbi6.base.faithful ⟨?_, by rw [Sess.store_markConsistent]; exact ht5,
          by rw [Sess.store_markConsistent]; exact hout5,
          (Sess.mem_markConsistent _ _ _).mpr (.inr rfl)⟩
        exact (hpost1.trans (hp2.weaken (Nat.le_succ _))).trans
          ⟨hbi6, by rw [Sess.queue_markConsistent]; exact hq5, hm25, hn25⟩

end PieModel
