/-
Bottom-up builds with REFLEXIVE checkers: the invariant `BI` of the bottom-up build, for an
executing stack `ch`, a list `X` of exempt nodes (popped from the queue, requirers not yet
re-checked) and a list `P` of pending nodes (just executed / found clean, about to be marked
consistent).

The point of the invariant: a node that is marked consistent is never *added* to the queue
again, and a consistent node that is still in the queue (a task without output that was
scheduled through a stale dependency and then executed because it was required — finding of
`Props/C04Once.lean`) has a record that is exactly current, so that its second execution
reproduces the first one.  Hence the outputs of consistent tasks never change during a build.

* `EdgeCur`/`AllCur`: the recorded stamps of a node are the stamps of the current values, and its
  required tasks are consistent;
* `ReachA`: reachability along recorded edges that avoids the executing tasks (whose edges are in
  flux);
* `BI.q`: a busy (queued or exempt) node that is, or is a direct successor of, a node reachable
  from a consistent node is consistent — and so is that node;
* `BI.e`: a consistent node is all-current, or it is not busy and has no busy successor;
* `BI.st`: the executing tasks are all-current.
-/
import PieModel.Build.BuW.Prims
import PieModel.Build.Closure.Defs

namespace PieModel

/-- The rank of the task of a node (`0` for non-task nodes). -/
def nodeRank (ro : Roles) (st : Store) (n : Nat) : Nat :=
  match st.taskOf n with
  | some t => ro.rank t
  | none => 0

theorem nodeRank_of_task {ro : Roles} {st : Store} {n t : Nat} (h : st.taskOf n = some t) :
    nodeRank ro st n = ro.rank t := by simp [nodeRank, h]

theorem nodeRank_le {ro : Roles} {st st' : Store} (hle : st.Le st') {n t : Nat}
    (h : st.taskOf n = some t) : nodeRank ro st' n = nodeRank ro st n := by
  rw [nodeRank_of_task h, nodeRank_of_task (hle.task _ _ h)]

variable (ro : Roles) (sem : Sem) (body : Nat → Prog)

/-- The generator of `r` (if any) has a node in `C` (the consistent and pending nodes). -/
def GenCons (s : Sess) (C : List Nat) (r : Nat) : Prop :=
  ∀ w, ro.gen r = some w → ∃ nw, s.store.taskOf nw = some w ∧ nw ∈ C

/-- The recorded edge `(dst, d)` is *current*: a require edge points to a consistent task and
carries the stamp of its stored output; a read/write edge carries the stamp of the current
content (and the generator of a read resource is consistent). -/
def EdgeCur (s : Sess) (C : List Nat) (dst : Nat) : Dep → Prop
  | .reserved => True
  | .require _ c st => dst ∈ C ∧ ∃ o, s.store.taskOutput dst = some o ∧ st = sem.ostamp c o
  | .read r c st => sem.rstamp c (aget s.fs r) = .ok st ∧ GenCons ro s C r
  | .write r c st => sem.rstamp c (aget s.fs r) = .ok st

/-- All recorded edges of `n` are current. -/
def AllCur (s : Sess) (C : List Nat) (n : Nat) : Prop :=
  ∀ p ∈ s.store.g.outgoingEdges n, EdgeCur ro sem s C p.1 p.2

/-- Reachability along recorded edges through nodes outside `ch` (both ends included). -/
inductive ReachA (st : Store) (ch : List Nat) : Nat → Nat → Prop
  | refl {u : Nat} : u ∉ ch → ReachA st ch u u
  | tail {u v w : Nat} : ReachA st ch u v → st.g.HasEdge v w → w ∉ ch → ReachA st ch u w

namespace ReachA
variable {st st' : Store} {ch ch' : List Nat} {u v w : Nat}

theorem src_not_mem (h : ReachA st ch u v) : u ∉ ch := by
  induction h with
  | refl hu => exact hu
  | tail _ _ _ ih => exact ih

theorem dst_not_mem (h : ReachA st ch u v) : v ∉ ch := by
  cases h with
  | refl hu => exact hu
  | tail _ _ hw => exact hw

theorem trans (h₁ : ReachA st ch u v) (h₂ : ReachA st ch v w) : ReachA st ch u w := by
  induction h₂ with
  | refl _ => exact h₁
  | tail _ he hw ih => exact .tail ih he hw

/-- More paths when fewer nodes are avoided and more edges are there. -/
theorem transfer (h : ReachA st ch u v) (hch : ∀ x, x ∉ ch → x ∉ ch')
    (he : ∀ a b, a ∉ ch → st.g.HasEdge a b → st'.g.HasEdge a b) : ReachA st' ch' u v := by
  induction h with
  | refl hu => exact .refl (hch _ hu)
  | tail h1 h2 h3 ih => exact .tail ih (he _ _ h1.dst_not_mem h2) (hch _ h3)

theorem inCone (h : ReachA st ch u v) : InCone st u v := by
  induction h with
  | refl _ => exact .refl _ _
  | tail _ he _ ih => exact ih.tail he

/-- A path either avoids `y`, or ends in `y`, or its part after the last visit of `y` starts
with an edge of `y` and avoids `y`. -/
theorem split (y : Nat) (h : ReachA st ch u v) :
    ReachA st (y :: ch) u v ∨ v = y ∨ ∃ w, st.g.HasEdge y w ∧ ReachA st (y :: ch) w v := by
  induction h with
  | refl hu =>
    by_cases huy : u = y
    · exact .inr (.inl huy)
    · exact .inl (.refl (by simp [huy, hu]))
  | tail h1 he hw ih =>
    rename_i v w
    by_cases hwy : w = y
    · exact .inr (.inl hwy)
    · have hw' : w ∉ y :: ch := by simp [hwy, hw]
      rcases ih with h | rfl | ⟨w0, h0, h⟩
      · exact .inl (.tail h he hw')
      · exact .inr (.inr ⟨w, he, .refl hw'⟩)
      · exact .inr (.inr ⟨w0, h0, .tail h he hw'⟩)

end ReachA

/-- All nodes of the stack have rank `< k`. -/
def StackBelow (st : Store) (ch : List Nat) (k : Nat) : Prop :=
  ∀ a ∈ ch, nodeRank ro st a < k

/-- **The invariant of the bottom-up build** (reflexive checkers). -/
structure BI (s : Sess) (ch X P : List Nat) : Prop where
  base : WInv ro sem body s
  qnd : s.queue.Nodup
  cur : s.cur = ch.getLast?
  chTask : ∀ a ∈ ch, ∃ t, s.store.taskOf a = some t
  chSorted : ch.Pairwise (fun a b => nodeRank ro s.store a < nodeRank ro s.store b)
  chOut : ∀ a ∈ ch, s.store.taskOutput a = none
  /-- consistent (and pending) nodes are task nodes with an output -/
  consOut : ∀ x ∈ s.consistent ++ P, ∃ t o, s.store.taskOf x = some t ∧
    s.store.taskOutput x = some o
  xq : ∀ x ∈ X, x ∉ s.queue
  xTask : ∀ x ∈ X, ∃ t, s.store.taskOf x = some t
  /-- busy nodes below consistent nodes, and their predecessors there, are consistent -/
  q : ∀ u ∈ s.consistent ++ P, ∀ v, ReachA s.store ch u v → ∀ m,
    (m = v ∨ s.store.g.HasEdge v m) → m ∈ s.queue ++ X →
      v ∈ s.consistent ++ P ∧ m ∈ s.consistent ++ P
  /-- a consistent node is all-current, or is not busy and has no busy successor -/
  e : ∀ w ∈ s.consistent ++ P, AllCur ro sem s (s.consistent ++ P) w ∨
    (w ∉ s.queue ++ X ∧ ∀ m, s.store.g.HasEdge w m → m ∉ s.queue ++ X)
  /-- the executing tasks are all-current -/
  st : ∀ a ∈ ch, AllCur ro sem s (s.consistent ++ P) a

/-- What a call that returns guarantees beside the invariant: consistent tasks stay consistent
and keep their records; the records of the task nodes of rank `< k` are untouched. -/
structure BMono (k : Nat) (s s' : Sess) : Prop where
  le : s.store.Le s'.store
  cur : s'.cur = s.cur
  cons : ∀ x ∈ s.consistent, x ∈ s'.consistent
  same : ∀ x ∈ s.consistent, Same s s' x
  below : ∀ n t, s.store.taskOf n = some t → ro.rank t < k → Same s s' n

variable {ro sem body}

namespace BMono
variable {k k' : Nat} {s s' s'' : Sess}

theorem refl (k : Nat) (s : Sess) : BMono ro k s s :=
  ⟨Store.Le.refl _, rfl, fun _ h => h, fun _ _ => Same.refl _ _, fun _ _ _ _ => Same.refl _ _⟩

theorem trans (h₁ : BMono ro k s s') (h₂ : BMono ro k s' s'') : BMono ro k s s'' :=
  ⟨h₁.le.trans h₂.le, h₂.cur.trans h₁.cur, fun x hx => h₂.cons x (h₁.cons x hx),
    fun x hx => (h₁.same x hx).trans (h₂.same x (h₁.cons x hx)),
    fun n t ht hk => (h₁.below n t ht hk).trans (h₂.below n t (h₁.le.task _ _ ht) hk)⟩

theorem mono (h : BMono ro k s s') (hk : k' ≤ k) : BMono ro k' s s' :=
  ⟨h.le, h.cur, h.cons, h.same, fun n t ht hlt => h.below n t ht (Nat.lt_of_lt_of_le hlt hk)⟩

/-- A primitive step of the executing task `a` of rank `≥ k`, which is not consistent. -/
theorem of_pstep (h : PStep ro sem body s s') {a ta : Nat} (hc : s.cur = some a)
    (hta : s.store.taskOf a = some ta) (hk : k ≤ ro.rank ta) (hac : a ∉ s.consistent) :
    BMono ro k s s' := by
  refine ⟨h.le, h.cur, fun x hx => h.cons ▸ hx, fun x hx => h.same x ?_, fun n t ht hlt => h.same n ?_⟩
  · intro hh; rw [hc] at hh; cases hh; exact hac hx
  · intro hh; rw [hc] at hh; cases hh
    rw [hta] at ht; cases ht
    exact absurd hlt (Nat.not_lt.mpr hk)

/-- A step that touches no record. -/
theorem of_same (hle : s.store.Le s'.store) (hcur : s'.cur = s.cur)
    (hcons : ∀ x ∈ s.consistent, x ∈ s'.consistent) (hs : ∀ x, Same s s' x) : BMono ro k s s' :=
  ⟨hle, hcur, hcons, fun x _ => hs x, fun n _ _ _ => hs n⟩

end BMono

/-! ### currentness is kept by steps that keep the consistent records and the resources read -/

theorem GenCons.mono {s s' : Sess} {C C' : List Nat} {r : Nat} (h : GenCons ro s C r)
    (hle : s.store.Le s'.store) (hc : ∀ x ∈ C, x ∈ C') : GenCons ro s' C' r := by
  intro w hw
  obtain ⟨nw, h1, h2⟩ := h w hw
  exact ⟨nw, hle.task _ _ h1, hc _ h2⟩

/-- Transport of `EdgeCur`. -/
theorem EdgeCur.transfer {s s' : Sess} {C C' : List Nat} {dst : Nat} {d : Dep}
    (h : EdgeCur ro sem s C dst d)
    (hle : s.store.Le s'.store) (hc : ∀ x ∈ C, x ∈ C')
    (ho : ∀ x ∈ C, s'.store.taskOutput x = s.store.taskOutput x)
    (hfs : ∀ r c st, d = .read r c st ∨ d = .write r c st → aget s'.fs r = aget s.fs r) :
    EdgeCur ro sem s' C' dst d := by
  cases d with
  | reserved => trivial
  | require u c st =>
    obtain ⟨h1, o, h2, h3⟩ := h
    exact ⟨hc _ h1, o, by rw [ho _ h1]; exact h2, h3⟩
  | read r c st =>
    obtain ⟨h1, h2⟩ := h
    exact ⟨by rw [hfs r c st (.inl rfl)]; exact h1, h2.mono hle hc⟩
  | write r c st =>
    have h1 : sem.rstamp c (aget s.fs r) = .ok st := h
    show sem.rstamp c (aget s'.fs r) = .ok st
    rw [hfs r c st (.inr rfl)]; exact h1

end PieModel
