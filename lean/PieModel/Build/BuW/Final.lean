/-
Bottom-up builds with reflexive checkers: the joint induction, and the entry points
`buExecuteScheduled`, `updateAffectedTasks`, `bottomUpBuild`.
-/
import PieModel.Build.BuW.Exec
import PieModel.Build.BuW.Require
import PieModel.Build.BuW.Run

namespace PieModel

variable {ro : Roles} {sem : Sem} {body : Nat → Prog}

section
variable (hst : StampTotal sem) (hrefl : Reflexive sem) (hwf : WellFormedBody ro body)
  (hresp : ∀ t, Respects sem (body t)) (hone : ∀ t, OneChecker (body t))
  (hwe : ∀ t, WriteExact sem (body t))
include hst hrefl hwf hresp hone hwe

theorem buR (f : Nat) : BuR ro sem body f := by
  induction f with
  | zero => exact BuR.zero
  | succ f ih =>
    exact ⟨ih.require_succ, ih.make_succ, BuR.exec_succ hwf hone ih,
      ih.execAndSchedule_succ hst hrefl hwf hresp hwe, ih.requireNow_succ,
      ih.run_succ hst hwf⟩

theorem buExecuteScheduled_bi (f : Nat) : ∀ (s : Sess), BI ro sem body s [] [] [] →
    BOut sem body (buExecuteScheduled sem body f s)
      (fun s' _ => BI ro sem body s' [] [] [] ∧ s'.queue = []) := by
  induction f with
  | zero => intro s h; unfold buExecuteScheduled; exact .abort h.base.faithful
  | succ f ih =>
    intro s h
    unfold buExecuteScheduled
    split
    next hq => exact .ret h.base.faithful ⟨h, queuePop_eq_none.mp hq⟩
    next n q hq =>
      have hbi1 := h.popQueue (queuePop_perm_cons hq)
      have key := (buR hst hrefl hwf hresp hone hwe f).execAndSchedule { s with queue := q } [] [] n 0
        hbi1 (fun _ hx => nomatch hx) (fun _ hx => nomatch hx) (fun _ _ => Nat.zero_le _)
      split
      next s2 a heq => exact .abort (key.faithful_of heq)
      next s2 o heq => exact ih s2 (key.ok s2 o heq).1

theorem updateAffectedTasks_bi (f : Nat) (s : Sess) (h : BI ro sem body s [] [] []) :
    BOut sem body (updateAffectedTasks sem body f s)
      (fun s' _ => BI ro sem body s' [] [] [] ∧ s'.queue = []) := by
  unfold updateAffectedTasks; simp only []
  have hc : s.cur = none := h.cur
  have h0 : BI ro sem body (({ s with cur := none } : Sess).emit .buildStart) [] [] [] :=
    h.of_eq rfl rfl (by simp [hc]) rfl rfl
  have key := buExecuteScheduled_bi hst hrefl hwf hresp hone hwe f _ h0
  split
  next s2 a heq => exact .abort (key.faithful_of heq)
  next s2 heq =>
    have := key.ok s2 () heq
    exact .ret (this.1.emit .buildEnd).base.faithful ⟨this.1.emit .buildEnd, this.2⟩

end

/-- With nothing consistent and nothing executing the invariant holds. -/
theorem BI.init {s : Sess} (h : WInv ro sem body s) (hc : s.consistent = []) (hcur : s.cur = none)
    (hnd : s.queue.Nodup) : BI ro sem body s [] [] [] := by
  refine ⟨h, hnd, by simp [hcur], (fun _ hx => nomatch hx), List.Pairwise.nil,
    (fun _ hx => nomatch hx), ?_, (fun _ hx => nomatch hx), (fun _ hx => nomatch hx), ?_, ?_,
    (fun _ hx => nomatch hx)⟩
  · intro x hx; rw [hc] at hx; cases hx
  · intro u hu; rw [hc] at hu; cases hu
  · intro w hw; rw [hc] at hw; cases hw

/-- The initial scheduling keeps the weak invariant, schedules distinct nodes, and marks
nothing consistent. -/
theorem scheduleAffectedBy_winv {s : Sess} (h : WInv ro sem body s) (hnd : s.queue.Nodup)
    (r : Nat) : WInv ro sem body (scheduleAffectedBy sem s r) ∧
      (scheduleAffectedBy sem s r).queue.Nodup ∧
      (scheduleAffectedBy sem s r).consistent = s.consistent ∧
      (scheduleAffectedBy sem s r).cur = s.cur := by
  obtain ⟨hext, hfs, hnd', _, _, _⟩ := scheduleAffectedBy_spec (sem := sem) s h.wf hnd r
  obtain ⟨hst, hcur, hcons⟩ := scheduleAffectedBy_core sem s r
  have hwf' := (scheduleAffectedBy_ext sem h.wf r).wf
  refine ⟨⟨hwf', hst ▸ h.roles.getOrCreateResNode r, ?_, hfs ▸ h.nodup, ?_⟩, hnd', hcons, hcur⟩
  · intro n t v ht hv
    rw [hext.out] at hv
    obtain ⟨t0, ht0⟩ := Store.taskOf_of_output hv
    have := hext.le.task _ _ ht0
    rw [ht] at this; cases this
    have hd : (scheduleAffectedBy sem s r).store.depsFrom n = s.store.depsFrom n :=
      (Store.outgoing_obs_congr (hext.edges n)).1
    rw [hd]
    exact h.faithful n t v ht0 hv
  · intro n hn
    rw [hext.out]; exact h.curFree n (hcur ▸ hn)

section
variable (hst : StampTotal sem) (hrefl : Reflexive sem) (hwf : WellFormedBody ro body)
  (hresp : ∀ t, Respects sem (body t)) (hone : ∀ t, OneChecker (body t))
  (hwe : ∀ t, WriteExact sem (body t))
include hst hrefl hwf hresp hone hwe

/-- **A bottom-up build of a session in which nothing is consistent yet** (e.g. a new session):
whatever the result the store is faithful; if it returns, the invariant holds. -/
theorem bottomUpBuild_bi (f : Nat) (s : Sess) (h : WInv ro sem body s) (hc : s.consistent = [])
    (hcur : s.cur = none) (changed : List Nat) :
    BOut sem body (bottomUpBuild sem body f s changed)
      (fun s' _ => BI ro sem body s' [] [] [] ∧ s'.queue = []) := by
  unfold bottomUpBuild; simp only []
  have h0 : WInv ro sem body { s with queue := [] } :=
    ⟨(h.wf.subQueue (fun _ hm => by cases hm)).wf, h.roles, h.faithful, h.nodup, h.curFree⟩
  have key : ∀ (l : List Nat) (s : Sess), WInv ro sem body s → s.queue.Nodup →
      s.consistent = [] → s.cur = none →
      WInv ro sem body (l.foldl (fun s r => scheduleAffectedBy sem s r) s) ∧
      (l.foldl (fun s r => scheduleAffectedBy sem s r) s).queue.Nodup ∧
      (l.foldl (fun s r => scheduleAffectedBy sem s r) s).consistent = [] ∧
      (l.foldl (fun s r => scheduleAffectedBy sem s r) s).cur = none := by
    intro l
    induction l with
    | nil => intro s h1 h2 h3 h4; exact ⟨h1, h2, h3, h4⟩
    | cons r l ih =>
      intro s h1 h2 h3 h4
      obtain ⟨a1, a2, a3, a4⟩ := scheduleAffectedBy_winv h1 h2 r
      exact ih _ a1 a2 (a3.trans h3) (a4.trans h4)
  obtain ⟨k1, k2, k3, k4⟩ := key changed _ h0 List.nodup_nil hc hcur
  exact updateAffectedTasks_bi hst hrefl hwf hresp hone hwe f _ (BI.init k1 k3 k4 k2)

end

end PieModel
