/-
Bottom-up builds with reflexive checkers: the successor steps of `buExec`, `buExecAndSchedule`,
`buRequireNow`, `buMake`.
-/
import PieModel.Build.BuW.Induct

namespace PieModel

variable {ro : Roles} {sem : Sem} {body : Nat → Prog}

theorem BuR.exec_succ (hwf : WellFormedBody ro body) (hone : ∀ t, OneChecker (body t)) {f : Nat}
    (ih : BuR ro sem body f) (s : Sess) (ch X : List Nat) (t node : Nat)
    (h : BI ro sem body s ch X []) (hX : ∀ x ∈ X, x ∈ ch ∨ x = node)
    (ht : s.store.taskOf node = some t) (hsb : StackBelow ro s.store ch (ro.rank t))
    (hnc : node ∉ s.consistent) :
    BOut sem body (buExec sem body (f + 1) s t node) (fun s' v =>
      BI ro sem body s' ch X [node] ∧ BMono ro (ro.rank t) s s' ∧
      s'.store.taskOutput node = some v) := by
  have hw := h.sw
  have hwfS := ((buRoles (sem := sem) hwf (f + 1)).exec s t node h.wf h.base.roles ht).rext.wf
  unfold buExec at hwfS ⊢
  simp only at hwfS ⊢
  have hpush := h.push ht hnc hsb (.executeStart t)
  obtain ⟨_, hs1, he1, ho1⟩ := h.base.startExec ht (.executeStart t)
  generalize hS1 : (({ s with store := s.store.resetTask node, cur := some node } : Sess).emit
    (.executeStart t)) = S1 at hwfS hpush hs1 ⊢
  have hst1 : S1.store = s.store.resetTask node := by rw [← hS1]; rfl
  have hle1 : s.store.Le S1.store := hst1 ▸ Store.le_resetTask hw node
  have hcons1 : S1.consistent = s.consistent := by rw [← hS1]; rfl
  have hoe1 : S1.store.g.outgoingEdges node = [] := by rw [hst1]; exact he1
  have ht1 : S1.store.taskOf node = some t := hle1.task _ _ ht
  have IH := ih.run S1 ch node t X (body t) {} [] [] hpush
    (fun x hx => by
      rcases hX x hx with hx | rfl
      · exact List.mem_append_left _ hx
      · simp)
    ht1 (hwf t) (by rw [hst1]; exact AccOK.start hw node) (hone t)
    (by rw [hoe1]; intro p hp; cases hp)
  split
  next s2 a' heq2 => exact .abort (IH.faithful_of heq2)
  next s2 o heq2 =>
    rw [heq2] at hwfS
    simp only at hwfS
    obtain ⟨hbi2, hm2, hnr2, new, hnew, hrep⟩ := IH.ok s2 o heq2
    have hd1 : S1.store.depsFrom node = [] := by rw [Store.depsFrom_eq, hoe1]; rfl
    rw [hd1, List.nil_append] at hnew
    rw [hd1] at hrep
    generalize hS3 : ({ (s2.emit (.executeEnd t o)) with
        cur := s.cur, store := (s2.emit (.executeEnd t o)).store.setTaskOutput node o } : Sess) = S3
      at hwfS ⊢
    have hst3 : S3.store = s2.store.setTaskOutput node o := by rw [← hS3]; rfl
    have hfin : BI ro sem body S3 ch X [node] :=
      hbi2.finish (hm2.le.task _ _ ht1) (by rw [hnew]; exact hrep) hnr2 hst3
        (by rw [← hS3]; exact h.cur) (by rw [← hS3]; rfl) (by rw [← hS3]; rfl) (by rw [← hS3]; rfl)
        hwfS
    have hto : ∀ n, n ≠ node → S3.store.taskOutput n = s2.store.taskOutput n :=
      fun n hn => by rw [hst3]; exact Store.taskOutput_setTaskOutput_of_ne hn o
    have hoe3 : ∀ n, S3.store.g.outgoingEdges n = s2.store.g.outgoingEdges n :=
      fun n => by rw [hst3]; simp
    have hsame : ∀ x, x ≠ node → Same s S1 x → Same S1 s2 x → Same s S3 x :=
      fun x hx h1 h2 => (h1.trans h2).trans ⟨hto x hx, hoe3 x⟩
    refine .ret hfin.base.faithful ⟨hfin, ?_, ?_⟩
    · refine ⟨(hle1.trans hm2.le).trans (hst3 ▸ Store.le_setTaskOutput _ node o),
        by rw [← hS3], fun x hx => ?_, ?_, ?_⟩
      · have : S3.consistent = s2.consistent := by rw [← hS3]; rfl
        rw [this]; exact hm2.cons x (hcons1 ▸ hx)
      · intro x hx
        have hxn : x ≠ node := fun hh => hnc (hh ▸ hx)
        exact hsame x hxn (hs1 x hxn) (hm2.same x (hcons1 ▸ hx))
      · intro n t' ht' hlt
        have hxn : n ≠ node := by
          rintro rfl
          rw [ht] at ht'; cases ht'
          exact Nat.lt_irrefl _ hlt
        exact hsame n hxn (hs1 n hxn) (hm2.below n t' (hle1.task _ _ ht') hlt)
    · rw [hst3]
      exact Store.taskOutput_setTaskOutput_self (hm2.le.task _ _ ht1) o

/-- The edges of an all-current consistent node with output are typed, current, not reserved. -/
theorem oldCur_of_allCur {s : Sess} {C : List Nat} (h : WInv ro sem body s) {m : Nat} {o : Int}
    (ho : s.store.taskOutput m = some o) (hC : ∀ x ∈ C, x ∈ s.consistent)
    (hac : AllCur ro sem s C m) : ∀ q ∈ s.store.g.outgoingEdges m, OldCur sem s q.1 q.2 := by
  intro q hq
  obtain ⟨dst, d⟩ := q
  have hok := (h.wf.store.mem_outgoingEdges_ok hq).2
  have hcur := hac _ hq
  obtain ⟨t, ht⟩ := Store.taskOf_of_output ho
  have hnr : Dep.reserved ∉ s.store.depsFrom m := (h.faithful m t o ht ho).no_reserved
  cases d with
  | reserved => exact hnr ((Store.mem_depsFrom_iff (st := s.store)).mpr ⟨dst, hq⟩)
  | require u c st =>
    obtain ⟨h1, oc, h2, h3⟩ := hcur
    exact ⟨hC _ h1, hok, oc, h2, h3⟩
  | read r c st => exact ⟨hok, hcur.1⟩
  | write r c st => exact ⟨hok, hcur⟩

section
variable (hst : StampTotal sem) (hrefl : Reflexive sem) (hwf : WellFormedBody ro body)
  (hresp : ∀ t, Respects sem (body t)) (hwe : ∀ t, WriteExact sem (body t))
include hst hrefl hwf hresp hwe

theorem BuR.execAndSchedule_succ {f : Nat} (ih : BuR ro sem body f) (s : Sess) (ch X : List Nat)
    (node k : Nat) (h : BI ro sem body s ch (node :: X) []) (hX : ∀ x ∈ X, x ∈ ch)
    (hsb : StackBelow ro s.store ch k) (hk : ∀ t, s.store.taskOf node = some t → k ≤ ro.rank t) :
    BOut sem body (buExecAndSchedule sem body (f + 1) s node) (fun s' v =>
      BI ro sem body s' ch X [] ∧ BMono ro k s s' ∧
      s'.store.taskOutput node = some v ∧ node ∈ s'.consistent) := by
  unfold buExecAndSchedule
  split
  · exact .abort h.base.faithful
  next t ht =>
    have hkt := hk t ht
    -- after the execution: `node` is exempt, and consistent or pending
    have key : BOut sem body (buExec sem body f s t node) (fun s2 v =>
        ∃ P, BI ro sem body s2 ch (node :: X) P ∧ (∀ x ∈ P, x = node) ∧
          node ∈ s2.consistent ++ P ∧ BMono ro k s s2 ∧ s2.store.taskOutput node = some v) := by
      by_cases hnc : node ∈ s.consistent
      · -- a consistent task in the queue: its record is exactly current
        have hbusy : node ∈ s.queue ++ node :: X := by simp
        have hac : AllCur ro sem s (s.consistent ++ []) node := by
          rcases h.e node (by simpa using hnc) with h1 | ⟨h1, _⟩
          · exact h1
          · exact absurd hbusy h1
        obtain ⟨_, o, _, ho⟩ := h.consOut node (by simpa using hnc)
        have hold := oldCur_of_allCur h.base ho (fun x hx => by simpa using hx) hac
        refine ⟨?_, fun s2 v heq => ?_⟩
        · exact (flatExec hst hrefl hwf hresp hwe f h.base ht ho hold
            (s' := (buExec sem body f s t node).1) (res := (buExec sem body f s t node).2) rfl).1.faithful
        · obtain ⟨hb2, e2⟩ := flatExec hst hrefl hwf hresp hwe f h.base ht ho hold heq
          obtain ⟨rfl, hsame, hfs, hcons, hq, hcur, hle⟩ := e2 v rfl
          have hbi2 : BI ro sem body s2 ch (node :: X) [] :=
            h.step none hb2 hle hcur hq hcons (fun x => (hsame x).1) (fun x _ => (hsame x).2)
              (fun r _ => hfs r) (fun a ha => nomatch ha)
          refine ⟨[], hbi2, (fun _ hx => by cases hx), (by simpa [hcons] using hnc),
            BMono.of_same hle hcur (fun x hx => hcons ▸ hx) hsame, ?_⟩
          rw [(hsame node).1]; exact ho
      · have IH := ih.exec s ch (node :: X) t node h
          (fun x hx => by
            rcases List.mem_cons.mp hx with rfl | hx
            · exact .inr rfl
            · exact .inl (hX x hx))
          ht (hsb.mono hkt) hnc
        exact IH.mono (fun s2 v ⟨h1, h2, h3⟩ =>
          ⟨[node], h1, fun _ hx => by simpa using hx, by simp, h2.mono hkt, h3⟩)
    split
    next s2 a heq => exact .abort (key.faithful_of heq)
    next s2 o heq =>
      obtain ⟨P, hbi2, hP, hnP, hm2, ho2⟩ := key.ok s2 o heq
      have ht2 : s2.store.taskOf node = some t := hm2.le.task _ _ ht
      obtain ⟨s₃, he, hcore, hfs3, hw3, hnd3, _, hqb⟩ :=
        scheduleAfterExec_spec (sem := sem) s2 hbi2.wf hbi2.qnd node t o
      rw [he]
      have hbi3 := hbi2.sched hrefl hX hP hnP ht2 ho2 hcore hfs3 hw3 hnd3 hqb
      refine .ret hbi3.base.faithful ⟨hbi3, ?_, by simpa [hcore.1] using ho2,
        (Sess.mem_markConsistent _ _ _).mpr (.inr rfl)⟩
      refine hm2.trans (BMono.of_same (by simp [hcore.1, Store.Le.refl]) (by simp [hcore.2.1])
        (fun x hx => (Sess.mem_markConsistent _ _ _).mpr (.inl (hcore.2.2 ▸ hx)))
        (fun x => ⟨by simp [hcore.1], by simp [hcore.1]⟩))

omit hst hrefl hwf hresp hwe in
theorem BuR.requireNow_succ {f : Nat} (ih : BuR ro sem body f) (s : Sess) (ch X : List Nat)
    (src t : Nat) (h : BI ro sem body s ch X []) (hX : ∀ x ∈ X, x ∈ ch)
    (ht : s.store.taskOf src = some t) (hsb : StackBelow ro s.store ch (ro.rank t)) :
    BOut sem body (buRequireNow sem body (f + 1) s src) (fun s' o =>
      BI ro sem body s' ch X [] ∧ BMono ro (ro.rank t) s s' ∧
      (∀ v, o = some v → s'.store.taskOutput src = some v ∧ src ∈ s'.consistent) ∧
      (o = none → ∀ q ∈ s'.queue, ¬ InCone s'.store src q)) := by
  have hw := h.sw
  unfold buRequireNow
  split
  next hqe =>
    refine .ret h.base.faithful ⟨h, BMono.refl _ _, (fun v hv => by cases hv), fun _ q hq => ?_⟩
    have : s.queue = [] := by simpa using hqe
    rw [this] at hq; cases hq
  · split
    next hpop =>
      refine .ret h.base.faithful ⟨h, BMono.refl _ _, (fun v hv => by cases hv), fun _ q hq hc => ?_⟩
      have hnone := queuePopLeastFrom_eq_none.mp hpop q hq
      have : inCone s.store src q = true := by
        rw [inCone_iff]
        rcases hc with rfl | hc
        · exact .inl rfl
        · exact .inr ((hw.containsTransitive_iff src q).mpr hc)
      rw [this] at hnone; cases hnone
    next m q' hpop =>
      have hperm := queuePopLeastFrom_perm_cons hpop
      have hbi1 := h.popQueue hperm
      obtain ⟨_, _, _, _, hcone, _⟩ := queuePopLeastFrom_eq_some hpop
      have hrank : ∀ t', s.store.taskOf m = some t' → ro.rank t ≤ ro.rank t' := by
        intro t' ht'
        rcases inCone_iff.mp hcone with rfl | hct
        · rw [ht] at ht'; cases ht'; exact Nat.le_refl _
        · exact Nat.le_of_lt
            (h.base.roles.reach_rank ((hw.containsTransitive_iff src m).mp hct) ht ht')
      have IH := ih.execAndSchedule { s with queue := q' } ch X m (ro.rank t) hbi1 hX hsb hrank
      have hm01 : BMono ro (ro.rank t) s { s with queue := q' } :=
        BMono.of_same (Store.Le.refl _) rfl (fun _ hx => hx) (fun _ => Same.refl _ _)
      split
      next s2 a heq => exact .abort (IH.faithful_of heq)
      next s2 o heq =>
        obtain ⟨hbi2, hm2, ho2, hc2⟩ := IH.ok s2 o heq
        split
        next hms =>
          subst hms
          exact .ret hbi2.base.faithful ⟨hbi2, hm01.trans hm2,
            (fun v hv => by cases hv; exact ⟨ho2, hc2⟩), fun hh => by cases hh⟩
        · have ht2 : s2.store.taskOf src = some t := hm2.le.task _ _ ht
          have IH2 := ih.requireNow s2 ch X src t hbi2 hX ht2
            (hsb.le hm2.le h.chTask)
          exact IH2.mono (fun s3 o3 ⟨h1, h2, h3, h4⟩ => ⟨h1, (hm01.trans hm2).trans h2, h3, h4⟩)

omit hst hrefl hwf hresp hwe in
theorem BuR.make_succ {f : Nat} (ih : BuR ro sem body f) (s : Sess) (ch X : List Nat)
    (t node : Nat) (h : BI ro sem body s ch X []) (hX : ∀ x ∈ X, x ∈ ch)
    (ht : s.store.taskOf node = some t) (hsb : StackBelow ro s.store ch (ro.rank t)) :
    BOut sem body (buMake sem body (f + 1) s t node) (fun s' v =>
      BI ro sem body s' ch X [node] ∧ BMono ro (ro.rank t) s s' ∧
      s'.store.taskOutput node = some v) := by
  unfold buMake
  split
  next hc =>
    split
    next o ho => exact .ret h.base.faithful ⟨h.pend_of_cons hc, BMono.refl _ _, ho⟩
    · exact .abort h.base.faithful
  next hc =>
    split
    next ho =>
      exact ih.exec s ch X t node h (fun x hx => .inl (hX x hx)) ht hsb hc
    next o0 ho0 =>
      have IH := ih.requireNow s ch X node t h hX ht hsb
      split
      next s2 a heq => exact .abort (IH.faithful_of heq)
      next s2 o heq =>
        obtain ⟨hbi2, hm2, h3, _⟩ := IH.ok s2 _ heq
        obtain ⟨ho2, hc2⟩ := h3 o rfl
        exact .ret hbi2.base.faithful ⟨hbi2.pend_of_cons hc2, hm2, ho2⟩
      next s2 heq =>
        obtain ⟨hbi2, hm2, _, h4⟩ := IH.ok s2 _ heq
        split
        next o ho2 =>
          refine .ret hbi2.base.faithful ⟨?_, hm2, ho2⟩
          exact hbi2.markDrained (hm2.le.task _ _ ht) ho2 (hsb.le hm2.le h.chTask) hX (h4 rfl)
        · exact .abort hbi2.base.faithful

end

end PieModel
