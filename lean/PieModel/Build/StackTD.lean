/-
The stack discipline of the top-down build, derived (not assumed): while the body of a task runs —
or while a task is being validated — neither the task itself nor any task that (transitively)
depends on it is executed.  In terms of the tracker stream: a returning call made in frame `c`
emits no `executeStart` for `c` or for an ancestor of `c` in the dependency graph
(`KTdStack.run`/`KTdStack.require`), and `tdMake t` emits none for an ancestor of `t`.

Why: every frame on the call stack reaches the task being processed (the `reserved`/`require`
edges added before descending), the graph is acyclic (`Store.WF`), a `require` that would close
a cycle aborts, and — by the frame lemma of `FrameExec.lean` — what is not executed keeps its
outgoing edges, so the paths persist.

This discharges the hypothesis `hframe` of the C08 law for every well-formed session state.
-/
import PieModel.Build.FrameExec
import PieModel.Build.TraceNestingTD

namespace PieModel
open Sess SessL

/-! ### quiet segments -/

/-- Between `s` and `s'` the trace only grows, and no execution of `tn` starts. -/
structure KQuiet (tn : Nat) (s s' : Sess) : Prop where
  tr : TrPre s s'
  no : KNoExec tn s s'

namespace KQuiet
variable {tn : Nat} {s a b s' : Sess}

theorem of_events {evs : List Ev} (h : s'.trace = s.trace ++ evs)
    (hno : Ev.executeStart tn ∉ evs) : KQuiet tn s s' := by
  refine ⟨⟨evs, h⟩, fun evs' he hm => ?_⟩
  rw [h] at he
  rw [← List.append_cancel_left he] at hm
  exact hno hm

theorem of_eq (h : s'.trace = s.trace) : KQuiet tn s s' := of_events (evs := []) (by simp [h]) (by simp)

theorem refl (s : Sess) : KQuiet tn s s := of_eq rfl

theorem emit (s : Sess) {e : Ev} (he : e ≠ .executeStart tn) : KQuiet tn s (s.emit e) :=
  of_events (evs := [e]) rfl (by simpa using fun h => he h.symm)

theorem trans (h₁ : KQuiet tn s a) (h₂ : KQuiet tn a b) : KQuiet tn s b := by
  obtain ⟨e1, t1⟩ := h₁.tr
  obtain ⟨e2, t2⟩ := h₂.tr
  refine of_events (evs := e1 ++ e2) (by rw [t2, t1, List.append_assoc]) ?_
  rw [List.mem_append]
  rintro (hm | hm)
  · exact h₁.no e1 t1 hm
  · exact h₂.no e2 t2 hm

theorem of_noExec (t : TrPre s s') (h : KNoExec tn s s') : KQuiet tn s s' := ⟨t, h⟩

end KQuiet

variable (sem : Sem) (body : Nat → Prog)

/-- `read`/`write`/`written_to` emit their own two events only. -/
theorem quiet_of_rwpost {α : Type} {tn c : Nat} {s : Sess} {st : Ev} {en : Stamp → Ev}
    {x : Sess × Res (Except Int α)} (h : RWPost sem c s st en x)
    (hst : st ≠ .executeStart tn) (hen : ∀ stamp, en stamp ≠ .executeStart tn) :
    KQuiet tn s x.1 := by
  obtain ⟨s', res⟩ := x
  have h1 : s'.trace = s.trace → KQuiet tn s s' := KQuiet.of_eq
  have h2 : s'.trace = s.trace ++ [st] → KQuiet tn s s' := fun ht =>
    KQuiet.of_events ht (by simpa using fun h => hst h.symm)
  have h3 : ∀ stamp, s'.trace = s.trace ++ [st, en stamp] → KQuiet tn s s' := fun stamp ht =>
    KQuiet.of_events ht (by
      simp only [List.mem_cons, List.not_mem_nil, or_false, not_or]
      exact ⟨fun h => hst h.symm, fun h => hen stamp h.symm⟩)
  cases res with
  | abort a =>
    rcases h with h | ⟨stamp, h⟩
    · exact h2 h
    · exact h3 stamp h
  | ok y =>
    cases y with
    | ok _ =>
      rcases h with h | ⟨stamp, h⟩
      · exact h1 h
      · exact h3 stamp h
    | error e => exact h2 h.1

theorem quiet_doRead (tn : Nat) (s : Sess) (r c : Nat) : KQuiet tn s (doRead sem s r c).1 :=
  quiet_of_rwpost sem (doRead_events sem s r c) (by simp) (by simp)

theorem quiet_doWrite (tn : Nat) (s : Sess) (r c : Nat) (v : Option Int) :
    KQuiet tn s (doWrite sem s r c v).1 :=
  quiet_of_rwpost sem (doWrite_events sem s r c v) (by simp) (by simp)

theorem quiet_doWrote (tn : Nat) (s : Sess) (r c : Nat) (v : Option Int) :
    KQuiet tn s (doWrote sem s r c v).1 :=
  quiet_of_rwpost sem (doWrote_events sem s r c v) (by simp) (by simp)

theorem KQuiet.out {α : Type} {tn : Nat} {s s' : Sess} {F : Sess × α} {r : α}
    (q : KQuiet tn s F.1) (heq : F = (s', r)) : KQuiet tn s s' := by rw [heq] at q; exact q

/-! ### paths persist where outgoing edges are kept -/

theorem hasEdge_of_outEq {s s' : Sess} (hw : s.store.WF) (hw' : s'.store.WF) {a : Nat}
    (h : OutEq a s s') {b : Nat} (he : s.store.g.HasEdge a b) : s'.store.g.HasEdge a b := by
  unfold Dag.HasEdge at *
  rw [← Dag.outgoingEdges_map_fst hw.gwf] at he
  rw [← Dag.outgoingEdges_map_fst hw'.gwf, h]
  exact he

/-- If every ancestor of `T` keeps its outgoing edges, every ancestor of `T` stays one. -/
theorem reach_keep {s s' : Sess} (hw : s.store.WF) (hw' : s'.store.WF) {T : Nat}
    (hk : ∀ a, s.store.g.Reach a T → OutEq a s s') {z : Nat} (hr : s.store.g.Reach z T) :
    s'.store.g.Reach z T := by
  induction hr with
  | edge he => exact .edge (hasEdge_of_outEq hw hw' (hk _ (.edge he)) he)
  | step he hr' ih => exact .step (hasEdge_of_outEq hw hw' (hk _ (.step he hr')) he) (ih hk)

/-- Protected in frame `c`: `c` itself and its ancestors. -/
def KProt (st : Store) (c z : Nat) : Prop := z = c ∨ st.g.Reach z c

theorem KProt.keep {s s' : Sess} (hw : s.store.WF) (hw' : s'.store.WF) {c z : Nat}
    (hk : ∀ a, s.store.g.Reach a c → OutEq a s s') (hz : KProt s.store c z) : KProt s'.store c z := by
  rcases hz with rfl | hz
  · exact .inl rfl
  · exact .inr (reach_keep hw hw' hk hz)

namespace Store
variable {st : Store}

/-- After an accepted `addDependency` the edge is there. -/
theorem hasEdge_addDependency_of_ok (hw : st.WF) {src dst : Nat} {d : Dep}
    (hok : (st.addDependency src dst d).2 = .ok) :
    (st.addDependency src dst d).1.g.HasEdge src dst := by
  by_cases he : st.g.HasEdge src dst
  · rw [addDependency_of_edge hw _ _ _ he]; exact he
  · exact (hasEdge_addDependency_new hw hok he src dst).mpr (.inr ⟨rfl, rfl⟩)

/-- Node lookup of a registered task returns its node and changes nothing. -/
theorem getOrCreateTaskNode_of_taskOf (hw : st.WF) {T t : Nat} (h : st.taskOf T = some t) :
    st.getOrCreateTaskNode t = (st, T) :=
  getOrCreateTaskNode_of_some ((hw.task_iff t T).mpr h)

/-- Two task nodes with the same task name are the same node. -/
theorem WF.taskOf_inj (hw : st.WF) {a b t : Nat} (ha : st.taskOf a = some t)
    (hb : st.taskOf b = some t) : a = b := by
  have h1 := (hw.task_iff t a).mpr ha
  have h2 := (hw.task_iff t b).mpr hb
  rw [h1] at h2; exact Option.some.inj h2

end Store

/-! ### the joint statement -/

/-- For fuel `f`: a returning call emits no `executeStart` for a protected task. -/
structure KTdStack (f : Nat) : Prop where
  require : ∀ s t c s' o cur, SessWF s → s.cur = some cur →
    tdRequire sem body f s t c = (s', .ok o) →
    ∀ z tz, s.store.taskOf z = some tz → KProt s.store cur z → KNoExec tz s s'
  make : ∀ s t s' o, SessWF s → tdMake sem body f s t = (s', .ok o) →
    ∀ z tz, s.store.taskOf z = some tz →
      s.store.g.Reach z (s.store.getOrCreateTaskNode t).2 → KNoExec tz s s'
  check : ∀ s T s' o, SessWF s → tdCheck sem body f s T = (s', .ok o) →
    ∀ z tz, s.store.taskOf z = some tz → KProt s.store T z → KNoExec tz s s'
  checkDeps : ∀ s T ds s' b, SessWF s →
    (∀ t' c st, Dep.require t' c st ∈ ds →
      ∃ T', s.store.taskOf T' = some t' ∧ s.store.g.HasEdge T T') →
    tdCheckDeps sem body f s ds = (s', .ok b) →
    ∀ z tz, s.store.taskOf z = some tz → KProt s.store T z → KNoExec tz s s'
  run : ∀ s p s' o cur, SessWF s → s.cur = some cur →
    tdRun sem body f s p = (s', .ok o) →
    ∀ z tz, s.store.taskOf z = some tz → KProt s.store cur z → KNoExec tz s s'

variable {sem body}

theorem tdStack_zero : KTdStack sem body 0 := by
  refine ⟨?_, ?_, ?_, ?_, ?_⟩
  · intro s t c s' o cur _ _ h; simp only [tdRequire] at h; cases h
  · intro s t s' o _ h; simp only [tdMake] at h; cases h
  · intro s T s' o _ h; simp only [tdCheck] at h; cases h
  · intro s T ds s' b _ _ h; simp only [tdCheckDeps] at h; cases h
  · intro s p s' o cur _ _ h; simp only [tdRun] at h; cases h

section Steps
variable {f : Nat} (ih : KTdStack sem body f)
include ih

theorem tdRequire_stack (s : Sess) (t c : Nat) (s' : Sess) (o : Int) (cur : Nat) (h : SessWF s)
    (hc : s.cur = some cur) (hr : tdRequire sem body (f + 1) s t c = (s', .ok o))
    (z tz : Nat) (hz : s.store.taskOf z = some tz) (hp : KProt s.store cur z) :
    KNoExec tz s s' := by
  simp only [tdRequire] at hr
  split at hr
  · cases hr
  · rename_i s₁ heq
    split at hr
    · cases hr
    · rename_i s₂ out heq₂
      split at hr
      · cases hr
      · rename_i s₃ heq₃
        have hs : s₃ = s' := by cases hr; rfl
        subst hs
        have h0 := h.emit (.requireStart t c)
        have l0 := (Lk.emit h (.requireStart t c)).trans (Lk.getTask h0 t)
        have hd := Store.taskOf_getOrCreateTaskNode_self h0.store t
        have l1 : Lk _ s₁ := Lk.of_call (reserveRequire_ext l0.wf ⟨t, hd⟩) (ext_reserveRequire _ _) heq
        -- the reserve step succeeded: the edge `cur → T` is there
        have hcA : ({ s.emit (.requireStart t c) with
            store := ((s.emit (.requireStart t c)).store.getOrCreateTaskNode t).1 } : Sess).cur
            = some cur := hc
        rcases reserveRequire_cases hcA ((s.emit (.requireStart t c)).store.getOrCreateTaskNode t).2
          with ⟨_, hno⟩ | ⟨hok, hs1, _⟩
        · rw [heq] at hno; exact absurd rfl hno
        rw [heq] at hs1; simp only at hs1
        have hwA := h0.store.getOrCreateTaskNode t
        have hedge : s₁.store.g.HasEdge cur ((s.emit (.requireStart t c)).store.getOrCreateTaskNode t).2 := by
          rw [hs1]; exact Store.hasEdge_addDependency_of_ok hwA hok
        have hT : s₁.store.getOrCreateTaskNode t =
            (s₁.store, ((s.emit (.requireStart t c)).store.getOrCreateTaskNode t).2) :=
          Store.getOrCreateTaskNode_of_taskOf l1.wf.store (l1.task hd)
        -- protected nodes reach `T` in `s₁`
        have hreach : s₁.store.g.Reach z (s₁.store.getOrCreateTaskNode t).2 := by
          rw [hT]
          rcases hp with rfl | hp
          · exact .edge hedge
          · have r1 : ((s.emit (.requireStart t c)).store.getOrCreateTaskNode t).1.g.Reach z cur :=
              (Store.reach_getOrCreateTaskNode h0.store t z cur).mpr hp
            have r2 : s₁.store.g.Reach z cur := by
              rw [hs1]; exact Store.reach_addDependency_mono hwA _ _ _ r1
            exact r2.tail hedge
        have n2 := ih.make s₁ t s₂ out l1.wf heq₂ z tz ((l0.trans l1).task hz) hreach
        have ht1 := reserveRequire_eq heq
        have q0 : KQuiet tz s s₁ :=
          (KQuiet.emit s (e := .requireStart t c) (by simp)).trans
            ((KQuiet.of_eq rfl).trans (KQuiet.of_eq ht1))
        have q2 : KQuiet tz s₁ s₂ := ⟨TrPre.of_ext ((ext_tdMake sem body f _ _).of_fst heq₂), n2⟩
        have q3 : KQuiet tz s₂ s₃ :=
          (KQuiet.emit s₂ (by simp)).trans (KQuiet.of_eq (updateRequire_eq heq₃))
        exact (q0.trans (q2.trans q3)).no

theorem tdMake_stack (s : Sess) (t : Nat) (s' : Sess) (o : Int) (h : SessWF s)
    (hr : tdMake sem body (f + 1) s t = (s', .ok o)) (z tz : Nat)
    (hz : s.store.taskOf z = some tz)
    (hp : s.store.g.Reach z (s.store.getOrCreateTaskNode t).2) : KNoExec tz s s' := by
  simp only [tdMake] at hr
  have l0 := Lk.getTask h t
  have hd := Store.taskOf_getOrCreateTaskNode_self h.store t
  have hpA : (s.store.getOrCreateTaskNode t).1.g.Reach z (s.store.getOrCreateTaskNode t).2 :=
    (Store.reach_getOrCreateTaskNode h.store t _ _).mpr hp
  split at hr
  · split at hr
    · cases hr; exact (KQuiet.of_eq rfl).no
    · cases hr
  · split at hr
    · cases hr
    · rename_i s₁ o' heq
      have n1 := ih.check _ _ s₁ _ l0.wf heq z tz (l0.task hz) (.inr hpA)
      have q1 : KQuiet tz _ s₁ := ⟨TrPre.of_ext ((ext_tdCheck sem body f _ _).of_fst heq), n1⟩
      have hs : s'.trace = s₁.trace := by cases hr; simp
      exact (((KQuiet.of_eq rfl).trans q1).trans (KQuiet.of_eq hs)).no
    · rename_i s₁ heq
      have l1 : Lk _ s₁ := Lk.of_call (tdCheck_ext sem body f l0.wf _) (ext_tdCheck sem body f _ _) heq
      split at hr
      · cases hr
      · rename_i s₂ o' heq₂
        have n1 := ih.check _ _ s₁ _ l0.wf heq z tz (l0.task hz) (.inr hpA)
        have q1 : KQuiet tz _ s₁ := ⟨l1.tr, n1⟩
        -- ancestors of `T` keep their edges during the check
        have k1 : ∀ a, (s.store.getOrCreateTaskNode t).1.g.Reach a (s.store.getOrCreateTaskNode t).2 →
            OutEq a { s with store := (s.store.getOrCreateTaskNode t).1 } s₁ := by
          intro a ha
          obtain ⟨ta, hta⟩ := l0.wf.store.reach_src_task ha
          exact (tdFrame a ta f).check _ _ s₁ _ l0.wf hta heq
            (ih.check _ _ s₁ _ l0.wf heq a ta hta (.inr ha))
        have hp1 : s₁.store.g.Reach z (s.store.getOrCreateTaskNode t).2 :=
          reach_keep l0.wf.store l1.wf.store k1 hpA
        have hd1 := l1.task hd
        have hz1 := (l0.trans l1).task hz
        -- `z` is not `T`, so the executed task is not `tz`
        have hzT : z ≠ (s.store.getOrCreateTaskNode t).2 := by
          rintro rfl; exact l1.wf.store.inv.acyclic _ hp1
        have hne : t ≠ tz := by
          rintro rfl; exact hzT (l1.wf.store.taskOf_inj hz1 hd1)
        have l2 := Lk.startExec l1.wf hd1
        have l2' := Lk.emit l2.wf (.executeStart t)
        -- ... and the reset of `T` keeps the edges of its ancestors
        have k2 : ∀ a, s₁.store.g.Reach a (s.store.getOrCreateTaskNode t).2 →
            OutEq a s₁ { s₁ with store := s₁.store.resetTask (s.store.getOrCreateTaskNode t).2,
                                 cur := some (s.store.getOrCreateTaskNode t).2 } := by
          intro a ha
          have : a ≠ (s.store.getOrCreateTaskNode t).2 := by
            rintro rfl; exact l1.wf.store.inv.acyclic _ ha
          show (s₁.store.resetTask _).g.outgoingEdges a = _
          rw [Store.outgoingEdges_resetTask l1.wf.store, if_neg this]
        have hp2 := reach_keep l1.wf.store l2.wf.store k2 hp1
        have n2 := ih.run _ _ s₂ _ (s.store.getOrCreateTaskNode t).2 l2'.wf rfl heq₂ z tz
          ((l2.trans l2').task hz1) (.inr hp2)
        have q2 : KQuiet tz _ s₂ := ⟨TrPre.of_ext ((ext_tdRun sem body f _ _).of_fst heq₂), n2⟩
        have qe : KQuiet tz s₁ (Sess.emit
            { s₁ with store := s₁.store.resetTask (s.store.getOrCreateTaskNode t).2,
                      cur := some (s.store.getOrCreateTaskNode t).2 } (.executeStart t)) :=
          KQuiet.of_events (evs := [.executeStart t]) rfl
            (by simp only [List.mem_singleton, Ev.executeStart.injEq]; exact fun hh => hne hh.symm)
        have q3 : KQuiet tz s₂ s' := by
          cases hr
          exact KQuiet.of_events (evs := [.executeEnd t o]) (by simp) (by simp)
        exact (((KQuiet.of_eq rfl).trans q1).trans (qe.trans (q2.trans q3))).no

theorem tdCheck_stack (s : Sess) (T : Nat) (s' : Sess) (o : Option Int) (h : SessWF s)
    (hr : tdCheck sem body (f + 1) s T = (s', .ok o)) (z tz : Nat)
    (hz : s.store.taskOf z = some tz) (hp : KProt s.store T z) : KNoExec tz s s' := by
  simp only [tdCheck] at hr
  have hds : ∀ t' c st, Dep.require t' c st ∈ s.store.depsFrom T →
      ∃ T', s.store.taskOf T' = some t' ∧ s.store.g.HasEdge T T' := by
    intro t' c st hm
    obtain ⟨x, hx⟩ := (h.store.mem_depsFrom_iff T _).mp hm
    exact ⟨x, h.store.edge_dst T x _ hx, (h.store.gwf.hasEdge_iff_getEdgeData T x).mpr ⟨_, hx⟩⟩
  split at hr
  · cases hr; exact (KQuiet.of_eq rfl).no
  · split at hr
    · cases hr
    · rename_i s₁ heq; cases hr; exact ih.checkDeps _ T _ _ _ h hds heq z tz hz hp
    · rename_i s₁ heq; cases hr; exact ih.checkDeps _ T _ _ _ h hds heq z tz hz hp

theorem tdCheckDeps_stack (s : Sess) (T : Nat) (ds : List Dep) (s' : Sess) (b : Bool)
    (h : SessWF s)
    (hds : ∀ t' c st, Dep.require t' c st ∈ ds →
      ∃ T', s.store.taskOf T' = some t' ∧ s.store.g.HasEdge T T')
    (hr : tdCheckDeps sem body (f + 1) s ds = (s', .ok b)) (z tz : Nat)
    (hz : s.store.taskOf z = some tz) (hp : KProt s.store T z) : KNoExec tz s s' := by
  cases ds with
  | nil => simp only [tdCheckDeps] at hr; cases hr; exact (KQuiet.of_eq rfl).no
  | cons d ds =>
    have hds' : ∀ t' c st, Dep.require t' c st ∈ ds →
        ∃ T', s.store.taskOf T' = some t' ∧ s.store.g.HasEdge T T' :=
      fun t' c st hm => hds t' c st (List.mem_cons_of_mem _ hm)
    cases d with
    | reserved => simp only [tdCheckDeps] at hr; cases hr
    | require t c stamp =>
      simp only [tdCheckDeps] at hr
      have l0 := Lk.emit h (.checkTaskStart t c stamp)
      obtain ⟨T', hT', hedge⟩ := hds t c stamp (by simp)
      have hTn : (s.emit (.checkTaskStart t c stamp)).store.getOrCreateTaskNode t = (s.store, T') :=
        Store.getOrCreateTaskNode_of_taskOf h.store hT'
      -- everything protected reaches `T'`
      have hreach : ∀ a, KProt s.store T a →
          (s.emit (.checkTaskStart t c stamp)).store.g.Reach a
            ((s.emit (.checkTaskStart t c stamp)).store.getOrCreateTaskNode t).2 := by
        intro a ha
        rw [hTn]
        rcases ha with rfl | ha
        · exact .edge hedge
        · exact ha.tail hedge
      split at hr
      · cases hr
      · rename_i s₁ out heq
        have l1 : Lk _ s₁ := Lk.of_call (tdMake_ext sem body f l0.wf t) (ext_tdMake sem body f _ _) heq
        have l1' := Lk.emit l1.wf (.checkTaskEnd t c stamp (sem.ocheck c out stamp))
        have n1 := ih.make _ _ s₁ _ l0.wf heq z tz hz (hreach z hp)
        have q1 : KQuiet tz s s₁ := (KQuiet.emit s (by simp)).trans ⟨l1.tr, n1⟩
        have q1' : KQuiet tz s₁ (s₁.emit (.checkTaskEnd t c stamp (sem.ocheck c out stamp))) :=
          KQuiet.emit s₁ (by simp)
        split at hr
        · -- protected nodes keep their edges during the nested `tdMake`
          have k1 : ∀ a, KProt s.store T a → OutEq a (s.emit (.checkTaskStart t c stamp)) s₁ := by
            intro a ha
            have hra := hreach a ha
            obtain ⟨ta, hta⟩ := l0.wf.store.reach_src_task hra
            exact (tdFrame a ta f).make _ _ s₁ _ l0.wf hta heq (ih.make _ _ s₁ _ l0.wf heq a ta hta hra)
          have hp1 : KProt s₁.store T z :=
            KProt.keep (s := s.emit (.checkTaskStart t c stamp)) h.store l1.wf.store
              (fun a ha => k1 a (.inr ha)) hp
          have hds1 : ∀ t' c' st, Dep.require t' c' st ∈ ds →
              ∃ T'', (s₁.emit (.checkTaskEnd t c stamp (sem.ocheck c out stamp))).store.taskOf T''
                = some t' ∧
                (s₁.emit (.checkTaskEnd t c stamp (sem.ocheck c out stamp))).store.g.HasEdge T T'' := by
            intro t' c' st hm
            obtain ⟨T'', h1, h2⟩ := hds' t' c' st hm
            exact ⟨T'', (l0.trans l1).task h1,
              hasEdge_of_outEq (s := s.emit (.checkTaskStart t c stamp)) h.store l1.wf.store
                (k1 T (.inl rfl)) h2⟩
          have n2 := ih.checkDeps _ T _ _ _ l1'.wf hds1 hr z tz ((l0.trans l1).task hz) hp1
          have q2 : KQuiet tz _ s' := ⟨TrPre.of_ext ((ext_tdCheckDeps sem body f _ _).of_fst hr), n2⟩
          exact (q1.trans (q1'.trans q2)).no
        · cases hr
          exact (q1.trans q1').no
    | read r c stamp =>
      rw [tdCheckDeps_read] at hr
      have q0 : ∀ res, KQuiet tz s (resCheckEvents s r c stamp res) := fun res =>
        (KQuiet.emit s (by simp)).trans (KQuiet.emit _ (by simp))
      split at hr
      · have l0 : Lk s (resCheckEvents s r c stamp (.ok true)) :=
          (Lk.emit h _).trans (Lk.emit (h.emit _) _)
        have n2 := ih.checkDeps (resCheckEvents s r c stamp (.ok true)) T ds s' b l0.wf hds' hr
          z tz hz hp
        exact ((q0 _).trans ⟨TrPre.of_ext ((ext_tdCheckDeps sem body f _ _).of_fst hr), n2⟩).no
      · cases hr; exact (q0 _).no
      · cases hr; exact ((q0 _).trans (KQuiet.of_eq rfl)).no
    | write r c stamp =>
      rw [tdCheckDeps_write] at hr
      have q0 : ∀ res, KQuiet tz s (resCheckEvents s r c stamp res) := fun res =>
        (KQuiet.emit s (by simp)).trans (KQuiet.emit _ (by simp))
      split at hr
      · have l0 : Lk s (resCheckEvents s r c stamp (.ok true)) :=
          (Lk.emit h _).trans (Lk.emit (h.emit _) _)
        have n2 := ih.checkDeps (resCheckEvents s r c stamp (.ok true)) T ds s' b l0.wf hds' hr
          z tz hz hp
        exact ((q0 _).trans ⟨TrPre.of_ext ((ext_tdCheckDeps sem body f _ _).of_fst hr), n2⟩).no
      · cases hr; exact (q0 _).no
      · cases hr; exact ((q0 _).trans (KQuiet.of_eq rfl)).no

theorem tdRun_stack (s : Sess) (p : Prog) (s' : Sess) (o : Int) (cur : Nat) (h : SessWF s)
    (hc : s.cur = some cur) (hr : tdRun sem body (f + 1) s p = (s', .ok o)) (z tz : Nat)
    (hz : s.store.taskOf z = some tz) (hp : KProt s.store cur z) : KNoExec tz s s' := by
  -- an ancestor of the frame is not the frame
  have hanc : ∀ a, s.store.g.Reach a cur → s.cur ≠ some a := by
    intro a ha hh
    rw [hc] at hh
    exact h.store.inv.acyclic _ ((Option.some.inj hh) ▸ ha)
  cases p with
  | ret v => simp only [tdRun] at hr; cases hr; exact (KQuiet.of_eq rfl).no
  | panic => simp only [tdRun] at hr; cases hr
  | req t c k =>
    simp only [tdRun] at hr
    split at hr
    · cases hr
    · rename_i s₁ out heq
      have l1 : Lk s s₁ := Lk.of_call (tdRequire_ext sem body f h t c) (ext_tdRequire sem body f _ _ _) heq
      have n1 := ih.require s t c s₁ out cur h hc heq z tz hz hp
      have k1 : ∀ a, s.store.g.Reach a cur → OutEq a s s₁ := by
        intro a ha
        obtain ⟨ta, hta⟩ := h.store.reach_src_task ha
        exact (tdFrame a ta f).require s t c s₁ out h hta (hanc a ha) heq
          (ih.require s t c s₁ out cur h hc heq a ta hta (.inr ha))
      have n2 := ih.run s₁ _ s' o cur l1.wf ((cur_tdRequire sem body heq).trans hc) hr z tz
        (l1.task hz) (KProt.keep h.store l1.wf.store k1 hp)
      exact (KQuiet.trans ⟨l1.tr, n1⟩ ⟨TrPre.of_ext ((ext_tdRun sem body f _ _).of_fst hr), n2⟩).no
  | read r c k =>
    simp only [tdRun] at hr
    split at hr
    · cases hr
    · rename_i s₁ x heq
      have l1 : Lk s s₁ := Lk.of_call (doRead_ext sem h r c) (ext_doRead sem _ _ _) heq
      have k1 : ∀ a, s.store.g.Reach a cur → OutEq a s s₁ :=
        fun a ha => (outEq_doRead sem h (hanc a ha) r c).out heq
      have n2 := ih.run s₁ _ s' o cur l1.wf ((cur_of_fst (cur_doRead sem _ _ _) heq).trans hc) hr
        z tz (l1.task hz) (KProt.keep h.store l1.wf.store k1 hp)
      exact (((quiet_doRead sem tz s r c).out heq).trans
        ⟨TrPre.of_ext ((ext_tdRun sem body f _ _).of_fst hr), n2⟩).no
  | write r c v k =>
    simp only [tdRun] at hr
    split at hr
    · cases hr
    · rename_i s₁ x heq
      have l1 : Lk s s₁ := Lk.of_call (doWrite_ext sem h r c v) (ext_doWrite sem _ _ _ _) heq
      have k1 : ∀ a, s.store.g.Reach a cur → OutEq a s s₁ :=
        fun a ha => (outEq_doWrite sem h (hanc a ha) r c v).out heq
      have n2 := ih.run s₁ _ s' o cur l1.wf ((cur_of_fst (cur_doWrite sem _ _ _ _) heq).trans hc) hr
        z tz (l1.task hz) (KProt.keep h.store l1.wf.store k1 hp)
      exact (((quiet_doWrite sem tz s r c v).out heq).trans
        ⟨TrPre.of_ext ((ext_tdRun sem body f _ _).of_fst hr), n2⟩).no
  | wrote r c v k =>
    simp only [tdRun] at hr
    split at hr
    · cases hr
    · rename_i s₁ x heq
      have l1 : Lk s s₁ := Lk.of_call (doWrote_ext sem h r c v) (ext_doWrote sem _ _ _ _) heq
      have k1 : ∀ a, s.store.g.Reach a cur → OutEq a s s₁ :=
        fun a ha => (outEq_doWrote sem h (hanc a ha) r c v).out heq
      have n2 := ih.run s₁ _ s' o cur l1.wf ((cur_of_fst (cur_doWrote sem _ _ _ _) heq).trans hc) hr
        z tz (l1.task hz) (KProt.keep h.store l1.wf.store k1 hp)
      exact (((quiet_doWrote sem tz s r c v).out heq).trans
        ⟨TrPre.of_ext ((ext_tdRun sem body f _ _).of_fst hr), n2⟩).no

end Steps

theorem k_tdStack (f : Nat) : KTdStack sem body f := by
  induction f with
  | zero => exact tdStack_zero
  | succ f ih =>
    exact ⟨tdRequire_stack ih, tdMake_stack ih, tdCheck_stack ih, tdCheckDeps_stack ih,
      tdRun_stack ih⟩

/-- **Stack discipline, top-down.** While the body of the task `tn` (node `node`, the current
frame) runs and returns, no execution of `tn` starts: the hypothesis `hframe` of the C08 law holds
in every well-formed session state. -/
theorem tdRun_noExec_self (f : Nat) {s s' : Sess} {p : Prog} {o : Int} {node tn : Nat}
    (h : SessWF s) (hc : s.cur = some node) (htn : s.store.taskOf node = some tn)
    (hr : tdRun sem body f s p = (s', .ok o)) : KNoExec tn s s' :=
  (k_tdStack f).run s p s' o node h hc hr node tn htn (.inl rfl)

end PieModel
