/-
Dependencies by *name* of their target.  Pie keeps one edge per target node; under `Store.WF` the
target node of a dependency is determined by the task/resource the dependency names
(`Dep.key`), so "an edge `node → dst` exists" can be read off `depsFrom node`.

`C08.merge` is the effect of declaring one dependency on the dependency list of the executing
task: appended if the target is new; a `require` on a present target replaces the data in place
(last wins); a `read`/`write` on a present target is dropped (first wins) — known finding K2.
-/
import PieModel.Build.PrimSteps

namespace PieModel

/-- The thing a dependency points to. -/
inductive DKey
  | task (t : Nat)
  | res (r : Nat)
deriving DecidableEq, Repr

/-- The target of a dependency, by name (`reserved` carries no name). -/
def Dep.key : Dep → Option DKey
  | .reserved => none
  | .require t _ _ => some (.task t)
  | .read r _ _ => some (.res r)
  | .write r _ _ => some (.res r)

@[simp] theorem Dep.key_reserved : Dep.key .reserved = none := rfl
@[simp] theorem Dep.key_require (t c s) : Dep.key (.require t c s) = some (.task t) := rfl
@[simp] theorem Dep.key_read (r c s) : Dep.key (.read r c s) = some (.res r) := rfl
@[simp] theorem Dep.key_write (r c s) : Dep.key (.write r c s) = some (.res r) := rfl

/-- `l` has a dependency on the target named `k`. -/
def hasKey (l : List Dep) (k : Option DKey) : Bool := l.any (fun e => e.key == k)

theorem hasKey_iff (l : List Dep) (k : Option DKey) : hasKey l k = true ↔ ∃ e ∈ l, e.key = k := by
  simp [hasKey]

namespace C08

/-- Declaring dependency `d` when the recorded list is `l`. -/
def merge (l : List Dep) (d : Dep) : List Dep :=
  if hasKey l d.key then
    if d.isRequire then l.map (fun e => if e.key = d.key then d else e) else l
  else l ++ [d]

/-- Declaring a sequence of dependencies, in order. -/
def mergeAll (l : List Dep) (ops : List Dep) : List Dep := ops.foldl merge l

@[simp] theorem mergeAll_nil (l : List Dep) : mergeAll l [] = l := rfl
@[simp] theorem mergeAll_cons (l : List Dep) (d : Dep) (ops : List Dep) :
    mergeAll l (d :: ops) = mergeAll (merge l d) ops := rfl
theorem mergeAll_append (l : List Dep) (a b : List Dep) :
    mergeAll l (a ++ b) = mergeAll (mergeAll l a) b := by simp [mergeAll, List.foldl_append]

theorem merge_of_not_hasKey {l : List Dep} {d : Dep} (h : hasKey l d.key = false) :
    merge l d = l ++ [d] := by simp [merge, h]

theorem merge_require_of_hasKey {l : List Dep} {t c : Nat} {s : Stamp}
    (h : hasKey l (some (.task t)) = true) :
    merge l (.require t c s) =
      l.map (fun e => if e.key = some (.task t) then .require t c s else e) := by
  unfold merge
  rw [if_pos (by exact h)]
  rfl

theorem merge_rw_of_hasKey {l : List Dep} {d : Dep} (h : hasKey l d.key = true)
    (hd : d.isRequire = false) : merge l d = l := by simp [merge, h, hd]

/-- The keys present after a merge: the old ones and the new one. -/
theorem hasKey_merge (l : List Dep) (d : Dep) (k : Option DKey) :
    hasKey (merge l d) k = (hasKey l k || (d.key == k)) := by
  unfold merge
  split
  next h =>
    have hk : (d.key == k) = true → hasKey l k = true := fun hh => by
      rw [beq_iff_eq] at hh; rw [← hh]; exact h
    split
    · have : hasKey (l.map (fun e => if e.key = d.key then d else e)) k = hasKey l k := by
        simp only [hasKey, List.any_map]
        congr 1; funext e
        simp only [Function.comp]
        by_cases he : e.key = d.key <;> simp [he]
      rw [this]
      cases h1 : hasKey l k <;> cases h2 : (d.key == k) <;> simp_all
    · cases h1 : hasKey l k <;> cases h2 : (d.key == k) <;> simp_all
  · simp [hasKey, List.any_append]

/-- No `reserved` placeholder is left by declaring proper dependencies. -/
theorem merge_noReserved {l : List Dep} {d : Dep} (hl : Dep.reserved ∉ l) (hd : d ≠ .reserved) :
    Dep.reserved ∉ merge l d := by
  unfold merge
  split
  · split
    · intro hm
      rw [List.mem_map] at hm
      obtain ⟨e, he, heq⟩ := hm
      split at heq
      · exact hd heq
      · exact hl (heq ▸ he)
    · exact hl
  · simp only [List.mem_append, List.mem_singleton, not_or]
    exact ⟨hl, fun h => hd h.symm⟩

theorem mergeAll_noReserved {l ops : List Dep} (hl : Dep.reserved ∉ l)
    (ho : Dep.reserved ∉ ops) : Dep.reserved ∉ mergeAll l ops := by
  induction ops generalizing l with
  | nil => exact hl
  | cons d ops ih =>
    simp only [List.mem_cons, not_or] at ho
    exact ih (merge_noReserved hl (fun h => ho.1 h.symm)) ho.2

/-- Everything recorded was declared (or was there before). -/
theorem mem_merge {l : List Dep} {d e : Dep} (h : e ∈ merge l d) : e ∈ l ∨ e = d := by
  unfold merge at h
  split at h
  · split at h
    · rw [List.mem_map] at h
      obtain ⟨e', he', heq⟩ := h
      split at heq
      · exact .inr heq.symm
      · exact .inl (heq ▸ he')
    · exact .inl h
  · simpa using h

theorem mem_mergeAll {l ops : List Dep} {e : Dep} (h : e ∈ mergeAll l ops) : e ∈ l ∨ e ∈ ops := by
  induction ops generalizing l with
  | nil => exact .inl h
  | cons d ops ih =>
    rcases ih h with h1 | h1
    · rcases mem_merge h1 with h2 | h2
      · exact .inl h2
      · exact .inr (by simp [h2])
    · exact .inr (by simp [h1])

theorem hasKey_mergeAll (l ops : List Dep) (k : Option DKey) :
    hasKey (mergeAll l ops) k = (hasKey l k || hasKey ops k) := by
  induction ops generalizing l with
  | nil => simp [hasKey]
  | cons d ops ih =>
    rw [mergeAll_cons, ih, hasKey_merge]
    simp [hasKey, Bool.or_assoc]

/-- First-occurrence projection by target. -/
def firstOcc (l : List Dep) (ops : List Dep) : List Dep :=
  ops.foldl (fun acc d => if hasKey acc d.key then acc else acc ++ [d]) l

/-- If every target is accessed in one way only (same kind, checker and stamp each time), the
recorded list is the first-occurrence projection of the declared dependencies. -/
theorem mergeAll_eq_firstOcc (l ops : List Dep)
    (h : ∀ d₁ ∈ l ++ ops, ∀ d₂ ∈ l ++ ops, d₁.key = d₂.key → d₁ = d₂) :
    mergeAll l ops = firstOcc l ops := by
  induction ops generalizing l with
  | nil => rfl
  | cons d ops ih =>
    have hm : merge l d = if hasKey l d.key then l else l ++ [d] := by
      unfold merge
      split
      · split
        · conv => rhs; rw [← List.map_id l]
          apply List.map_congr_left
          intro e he
          split
          next hk => exact (h e (by simp [he]) d (by simp) hk).symm
          · rfl
        · rfl
      · rfl
    rw [mergeAll_cons, firstOcc, List.foldl_cons, ← firstOcc, ← hm]
    apply ih
    intro d₁ h₁ d₂ h₂
    have sub : ∀ x ∈ merge l d ++ ops, x ∈ l ++ d :: ops := by
      intro x hx
      rw [List.mem_append] at hx
      rcases hx with hx | hx
      · rcases mem_merge hx with h3 | h3
        · simp [h3]
        · simp [h3]
      · simp [hx]
    exact h d₁ (sub d₁ h₁) d₂ (sub d₂ h₂)

end C08

/-! ### edges and names -/

namespace Store
variable {st : Store}

/-- A resource node is the target of an edge from `src` iff `src` has a dependency naming the
resource. -/
theorem WF.hasEdge_res_iff (h : st.WF) (src : Nat) {dst r : Nat} (hd : st.resOf dst = some r) :
    st.g.HasEdge src dst ↔ hasKey (st.depsFrom src) (some (.res r)) = true := by
  rw [hasKey_iff, h.gwf.hasEdge_iff_getEdgeData]
  constructor
  · rintro ⟨dep, he⟩
    refine ⟨dep, (h.mem_depsFrom_iff src dep).mpr ⟨dst, he⟩, ?_⟩
    have hok := h.edge_dst src dst dep he
    cases dep with
    | reserved => obtain ⟨t, ht⟩ := hok; rw [taskOf_eq_none_of_resOf hd] at ht; cases ht
    | require t c s =>
      simp only [depOK_require, taskOf_eq_none_of_resOf hd] at hok; cases hok
    | read r' c s => simp only [depOK_read] at hok; rw [hd] at hok; cases hok; rfl
    | write r' c s => simp only [depOK_write] at hok; rw [hd] at hok; cases hok; rfl
  · rintro ⟨e, hm, hk⟩
    obtain ⟨x, hx⟩ := (h.mem_depsFrom_iff src e).mp hm
    have hok := h.edge_dst src x e hx
    have hx' : st.resOf x = some r := by
      cases e with
      | reserved => cases hk
      | require t c s => cases hk
      | read r' c s => simp only [Dep.key_read, Option.some.injEq, DKey.res.injEq] at hk; subst hk; exact hok
      | write r' c s => simp only [Dep.key_write, Option.some.injEq, DKey.res.injEq] at hk; subst hk; exact hok
    have : x = dst := by
      have h1 := (h.res_iff r x).mpr hx'
      have h2 := (h.res_iff r dst).mpr hd
      rw [h1] at h2; exact Option.some.inj h2
    exact ⟨e, this ▸ hx⟩

/-- The entry of `outgoingEdges src` pointing to the node of task `t` is the one naming `t`
(`reserved` placeholders excepted). -/
theorem WF.outgoing_fst_eq_iff (h : st.WF) {src dst t : Nat} (hd : st.taskOf dst = some t)
    {p : Nat × Dep} (hp : p ∈ st.g.outgoingEdges src) (hr : p.2 ≠ .reserved) :
    p.1 = dst ↔ p.2.key = some (.task t) := by
  obtain ⟨x, e⟩ := p
  have he := (Dag.mem_outgoingEdges h.gwf src x e).mp hp
  have hok := h.edge_dst src x e he
  simp only
  constructor
  · rintro rfl
    cases e with
    | reserved => exact absurd rfl hr
    | require t' c s => simp only [depOK_require] at hok; rw [hd] at hok; cases hok; rfl
    | read r c s => simp only [depOK_read, resOf_eq_none_of_taskOf hd] at hok; cases hok
    | write r c s => simp only [depOK_write, resOf_eq_none_of_taskOf hd] at hok; cases hok
  · intro hk
    cases e with
    | reserved => cases hk
    | require t' c s =>
      simp only [Dep.key_require, Option.some.injEq, DKey.task.injEq] at hk; subst hk
      simp only [depOK_require] at hok
      have h1 := (h.task_iff t' x).mpr hok
      have h2 := (h.task_iff t' dst).mpr hd
      rw [h1] at h2; exact Option.some.inj h2
    | read r c s => cases hk
    | write r c s => cases hk

/-- A task node is the target of an edge from `src` iff `src` has a `require` naming the task —
provided `src` has no `reserved` placeholder. -/
theorem WF.hasEdge_task_iff (h : st.WF) (src : Nat) {dst t : Nat} (hd : st.taskOf dst = some t)
    (hnr : Dep.reserved ∉ st.depsFrom src) :
    st.g.HasEdge src dst ↔ hasKey (st.depsFrom src) (some (.task t)) = true := by
  rw [hasKey_iff, h.gwf.hasEdge_iff_getEdgeData]
  constructor
  · rintro ⟨dep, he⟩
    have hm := (h.mem_depsFrom_iff src dep).mpr ⟨dst, he⟩
    have hp := (Dag.mem_outgoingEdges h.gwf src dst dep).mpr he
    exact ⟨dep, hm, (h.outgoing_fst_eq_iff hd hp (fun hh => hnr (hh ▸ hm))).mp rfl⟩
  · rintro ⟨e, hm, hk⟩
    obtain ⟨x, hx⟩ := (h.mem_depsFrom_iff src e).mp hm
    have hp := (Dag.mem_outgoingEdges h.gwf src x e).mpr hx
    have : x = dst := (h.outgoing_fst_eq_iff hd hp (fun hh => hnr (hh ▸ hm))).mpr hk
    exact ⟨e, this ▸ hx⟩

end Store
end PieModel
