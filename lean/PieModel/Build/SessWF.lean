/-
Session well-formedness `SessWF` and its preservation by the session primitives
(`doRead`, `doWrite`, `doWrote`, `reserveRequire`, `updateRequire`), whatever the result
(`.ok` or `.abort`).  Property C19, part 1.
-/
import PieModel.Build.StoreLemmas
import PieModel.Build.Session

namespace PieModel

/-- Well-formed session state: the store is well-formed, the executing task and all queued
nodes are task nodes. -/
structure SessWF (s : Sess) : Prop where
  store : s.store.WF
  cur : ∀ n, s.cur = some n → ∃ t, s.store.taskOf n = some t
  queue : ∀ n ∈ s.queue, ∃ t, s.store.taskOf n = some t

theorem sessWF_iff (s : Sess) : SessWF s ↔
    s.store.WF ∧ (∀ n, s.cur = some n → ∃ t, s.store.taskOf n = some t) ∧
      (∀ n ∈ s.queue, ∃ t, s.store.taskOf n = some t) :=
  ⟨fun h => ⟨h.store, h.cur, h.queue⟩, fun h => ⟨h.1, h.2.1, h.2.2⟩⟩

/-- `s'` is a well-formed state that extends `s`: no task/resource node of `s` is lost. -/
structure Ext (s s' : Sess) : Prop where
  wf : SessWF s'
  le : s.store.Le s'.store

namespace Ext
variable {s s' s'' : Sess}

theorem refl (h : SessWF s) : Ext s s := ⟨h, Store.Le.refl _⟩

theorem trans (h₁ : Ext s s') (h₂ : Ext s' s'') : Ext s s'' := ⟨h₂.wf, h₁.le.trans h₂.le⟩

end Ext

/-- The generic step: a well-formed store that extends the old one, `cur` and queue entries
are old ones or task nodes. -/
theorem SessWF.step {s s' : Sess} (h : SessWF s) (hw : s'.store.WF) (hle : s.store.Le s'.store)
    (hcur : ∀ n, s'.cur = some n → s.cur = some n ∨ ∃ t, s'.store.taskOf n = some t)
    (hq : ∀ n ∈ s'.queue, n ∈ s.queue ∨ ∃ t, s'.store.taskOf n = some t) : Ext s s' := by
  refine ⟨⟨hw, ?_, ?_⟩, hle⟩
  · intro n hn
    rcases hcur n hn with h1 | h1
    · exact hle.isTask (h.cur n h1)
    · exact h1
  · intro n hn
    rcases hq n hn with h1 | h1
    · exact hle.isTask (h.queue n h1)
    · exact h1

/-- A step that does not touch store, `cur`, queue. -/
theorem SessWF.same {s s' : Sess} (h : SessWF s) (h1 : s'.store = s.store) (h2 : s'.cur = s.cur)
    (h3 : s'.queue = s.queue) : Ext s s' :=
  h.step (h1 ▸ h.store) (h1 ▸ Store.Le.refl _) (fun _ hn => .inl (h2 ▸ hn))
    (fun _ hn => .inl (h3 ▸ hn))

/-- A step that replaces the store only. -/
theorem SessWF.setStore {s : Sess} (h : SessWF s) {st : Store} (hw : st.WF)
    (hle : s.store.Le st) : Ext s { s with store := st } :=
  h.step hw hle (fun _ hn => .inl hn) (fun _ hn => .inl hn)

section Basic
variable (s : Sess)

@[simp] theorem Sess.store_emit (e : Ev) : (s.emit e).store = s.store := rfl
@[simp] theorem Sess.cur_emit (e : Ev) : (s.emit e).cur = s.cur := rfl
@[simp] theorem Sess.queue_emit (e : Ev) : (s.emit e).queue = s.queue := rfl
@[simp] theorem Sess.fs_emit (e : Ev) : (s.emit e).fs = s.fs := rfl
@[simp] theorem Sess.consistent_emit (e : Ev) : (s.emit e).consistent = s.consistent := rfl

@[simp] theorem Sess.store_setContent (r : Nat) (v : Option Int) :
    (s.setContent r v).store = s.store := by cases v <;> rfl
@[simp] theorem Sess.cur_setContent (r : Nat) (v : Option Int) :
    (s.setContent r v).cur = s.cur := by cases v <;> rfl
@[simp] theorem Sess.queue_setContent (r : Nat) (v : Option Int) :
    (s.setContent r v).queue = s.queue := by cases v <;> rfl
@[simp] theorem Sess.consistent_setContent (r : Nat) (v : Option Int) :
    (s.setContent r v).consistent = s.consistent := by cases v <;> rfl

@[simp] theorem Sess.store_markConsistent (n : Nat) : (s.markConsistent n).store = s.store := by
  unfold Sess.markConsistent; split <;> rfl
@[simp] theorem Sess.cur_markConsistent (n : Nat) : (s.markConsistent n).cur = s.cur := by
  unfold Sess.markConsistent; split <;> rfl
@[simp] theorem Sess.queue_markConsistent (n : Nat) : (s.markConsistent n).queue = s.queue := by
  unfold Sess.markConsistent; split <;> rfl
@[simp] theorem Sess.fs_markConsistent (n : Nat) : (s.markConsistent n).fs = s.fs := by
  unfold Sess.markConsistent; split <;> rfl

end Basic

theorem SessWF.emit {s : Sess} (h : SessWF s) (e : Ev) : SessWF (s.emit e) :=
  (h.same (s' := s.emit e) rfl rfl rfl).wf

theorem SessWF.setContent {s : Sess} (h : SessWF s) (r : Nat) (v : Option Int) :
    SessWF (s.setContent r v) := (h.same (by simp) (by simp) (by simp)).wf

theorem SessWF.markConsistent {s : Sess} (h : SessWF s) (n : Nat) : SessWF (s.markConsistent n) :=
  (h.same (by simp) (by simp) (by simp)).wf

/-- A step that changes the store only. -/
theorem SessWF.ext_of_store {s s' : Sess} (h : SessWF s) (hcur : s'.cur = s.cur)
    (hq : s'.queue = s.queue) (hw : s'.store.WF) (hle : s.store.Le s'.store) : Ext s s' :=
  h.step hw hle (fun _ hn => .inl (hcur ▸ hn)) (fun _ hn => .inl (hq ▸ hn))

variable (sem : Sem)

/-! ### `doRead` -/

theorem doRead_cur (s : Sess) (r c : Nat) : (doRead sem s r c).1.cur = s.cur := by
  unfold doRead; simp only []; repeat' split
  all_goals rfl

theorem doRead_queue (s : Sess) (r c : Nat) : (doRead sem s r c).1.queue = s.queue := by
  unfold doRead; simp only []; repeat' split
  all_goals rfl

theorem doRead_store_none {s : Sess} (hc : s.cur = none) (r c : Nat) :
    (doRead sem s r c).1 = s := by
  unfold doRead; rw [hc]

theorem doRead_store {s : Sess} {cur : Nat} (hc : s.cur = some cur) (r c : Nat) :
    (doRead sem s r c).1.store = (s.store.getOrCreateResNode r).1 ∨
    ∃ stamp, (doRead sem s r c).1.store =
      ((s.store.getOrCreateResNode r).1.addDependency cur (s.store.getOrCreateResNode r).2
        (.read r c stamp)).1 := by
  unfold doRead; rw [hc]; simp only []
  repeat' split
  all_goals first
    | exact .inl rfl
    | (rename_i stamp _ _ _ _ _ heq; exact .inr ⟨stamp, (congrArg Prod.fst heq).symm⟩)

theorem doRead_ext {s : Sess} (h : SessWF s) (r c : Nat) : Ext s (doRead sem s r c).1 := by
  cases hc : s.cur with
  | none => rw [doRead_store_none sem hc]; exact Ext.refl h
  | some cur =>
    have h1 := h.store.getOrCreateResNode r
    have l1 := Store.le_getOrCreateResNode h.store r
    rcases doRead_store sem hc r c with hs | ⟨stamp, hs⟩
    · apply h.ext_of_store (doRead_cur sem s r c) (doRead_queue sem s r c) <;> rw [hs]
      · exact h1
      · exact l1
    · apply h.ext_of_store (doRead_cur sem s r c) (doRead_queue sem s r c) <;> rw [hs]
      · exact h1.addDependency (l1.isTask (h.cur _ hc))
          (by simp [Store.resOf_getOrCreateResNode_self h.store])
      · exact l1.trans (Store.le_addDependency h1 _ _ _)

/-! ### `doWrite`, `doWrote` -/

theorem doWrite_cur (s : Sess) (r c : Nat) (v : Option Int) :
    (doWrite sem s r c v).1.cur = s.cur := by
  unfold doWrite; simp only []; repeat' split
  all_goals simp

theorem doWrite_queue (s : Sess) (r c : Nat) (v : Option Int) :
    (doWrite sem s r c v).1.queue = s.queue := by
  unfold doWrite; simp only []; repeat' split
  all_goals simp

theorem doWrite_store_none {s : Sess} (hc : s.cur = none) (r c : Nat) (v : Option Int) :
    (doWrite sem s r c v).1 = s.setContent r v := by
  unfold doWrite; rw [hc]

theorem doWrite_store {s : Sess} {cur : Nat} (hc : s.cur = some cur) (r c : Nat) (v : Option Int) :
    (doWrite sem s r c v).1.store = (s.store.getOrCreateResNode r).1 ∨
    ∃ stamp, (doWrite sem s r c v).1.store =
      ((s.store.getOrCreateResNode r).1.addDependency cur (s.store.getOrCreateResNode r).2
        (.write r c stamp)).1 := by
  unfold doWrite; rw [hc]; simp only []
  repeat' split
  all_goals first
    | (left; simp; done)
    | (rename_i stamp _ _ _ _ _ heq
       have := congrArg Prod.fst heq
       simp only [Sess.store_setContent, Sess.store_emit] at this
       exact .inr ⟨stamp, this.symm⟩)

theorem doWrite_ext {s : Sess} (h : SessWF s) (r c : Nat) (v : Option Int) :
    Ext s (doWrite sem s r c v).1 := by
  cases hc : s.cur with
  | none => rw [doWrite_store_none sem hc]; exact h.same (by simp) (by simp) (by simp)
  | some cur =>
    have h1 := h.store.getOrCreateResNode r
    have l1 := Store.le_getOrCreateResNode h.store r
    rcases doWrite_store sem hc r c v with hs | ⟨stamp, hs⟩
    · apply h.ext_of_store (doWrite_cur sem s r c v) (doWrite_queue sem s r c v) <;> rw [hs]
      · exact h1
      · exact l1
    · apply h.ext_of_store (doWrite_cur sem s r c v) (doWrite_queue sem s r c v) <;> rw [hs]
      · exact h1.addDependency (l1.isTask (h.cur _ hc))
          (by simp [Store.resOf_getOrCreateResNode_self h.store])
      · exact l1.trans (Store.le_addDependency h1 _ _ _)

theorem doWrote_cur (s : Sess) (r c : Nat) (v : Option Int) :
    (doWrote sem s r c v).1.cur = s.cur := by
  unfold doWrote; simp only []; repeat' split
  all_goals simp

theorem doWrote_queue (s : Sess) (r c : Nat) (v : Option Int) :
    (doWrote sem s r c v).1.queue = s.queue := by
  unfold doWrote; simp only []; repeat' split
  all_goals simp

theorem doWrote_store_none {s : Sess} (hc : s.cur = none) (r c : Nat) (v : Option Int) :
    (doWrote sem s r c v).1 = s.setContent r v := by
  unfold doWrote; simp only [Sess.cur_setContent, hc]

theorem doWrote_store {s : Sess} {cur : Nat} (hc : s.cur = some cur) (r c : Nat) (v : Option Int) :
    (doWrote sem s r c v).1.store = (s.store.getOrCreateResNode r).1 ∨
    ∃ stamp, (doWrote sem s r c v).1.store =
      ((s.store.getOrCreateResNode r).1.addDependency cur (s.store.getOrCreateResNode r).2
        (.write r c stamp)).1 := by
  unfold doWrote; simp only [Sess.cur_setContent, hc]
  repeat' split
  all_goals first
    | (left; simp; done)
    | (rename_i stamp _ _ _ _ _ heq
       have := congrArg Prod.fst heq
       simp only [Sess.store_setContent, Sess.store_emit] at this
       exact .inr ⟨stamp, this.symm⟩)

theorem doWrote_ext {s : Sess} (h : SessWF s) (r c : Nat) (v : Option Int) :
    Ext s (doWrote sem s r c v).1 := by
  cases hc : s.cur with
  | none => rw [doWrote_store_none sem hc]; exact h.same (by simp) (by simp) (by simp)
  | some cur =>
    have h1 := h.store.getOrCreateResNode r
    have l1 := Store.le_getOrCreateResNode h.store r
    rcases doWrote_store sem hc r c v with hs | ⟨stamp, hs⟩
    · apply h.ext_of_store (doWrote_cur sem s r c v) (doWrote_queue sem s r c v) <;> rw [hs]
      · exact h1
      · exact l1
    · apply h.ext_of_store (doWrote_cur sem s r c v) (doWrote_queue sem s r c v) <;> rw [hs]
      · exact h1.addDependency (l1.isTask (h.cur _ hc))
          (by simp [Store.resOf_getOrCreateResNode_self h.store])
      · exact l1.trans (Store.le_addDependency h1 _ _ _)

/-! ### `reserveRequire`, `updateRequire` -/

theorem reserveRequire_ext {s : Sess} (h : SessWF s) {dst : Nat}
    (hd : ∃ t, s.store.taskOf dst = some t) : Ext s (reserveRequire s dst).1 := by
  unfold reserveRequire
  split
  · exact Ext.refl h
  next src hc =>
    split
    next st heq =>
      have hst : st = (s.store.addDependency src dst .reserved).1 := by rw [heq]
      subst hst
      exact h.setStore (h.store.addDependency (h.cur _ hc) hd) (Store.le_addDependency h.store _ _ _)
    · exact Ext.refl h
    · exact Ext.refl h

/-- `dst` must be the node of `t` (it is: `getOrCreateTaskNode t` earlier in the caller). -/
theorem updateRequire_ext {s : Sess} (h : SessWF s) {dst t : Nat} (c : Nat) (stamp : Stamp)
    (hd : s.store.taskOf dst = some t) : Ext s (updateRequire s dst t c stamp).1 := by
  unfold updateRequire
  split
  · exact Ext.refl h
  next src hc =>
    split
    next st heq =>
      exact h.setStore (Store.WF.setDependency heq h.store hd) (Store.le_setDependency heq)
    · exact Ext.refl h

/-! ### bookkeeping for the inductions -/

/-- The result state of a call, given the call's value. -/
theorem Ext.out {α : Type} {s s' : Sess} {F : Sess × α} {r : α} (e : Ext s F.1) (heq : F = (s', r)) :
    Ext s s' := by rw [heq] at e; exact e

theorem Ext.same {s s₁ s' : Sess} (e : Ext s s₁) (h1 : s'.store = s₁.store) (h2 : s'.cur = s₁.cur)
    (h3 : s'.queue = s₁.queue) : Ext s s' := e.trans (e.wf.same h1 h2 h3)

theorem Ext.emit {s s' : Sess} (e : Ext s s') (ev : Ev) : Ext s (s'.emit ev) :=
  e.same rfl rfl rfl

theorem Ext.markConsistent {s s' : Sess} (e : Ext s s') (n : Nat) : Ext s (s'.markConsistent n) :=
  e.same (by simp) (by simp) (by simp)

/-- First step of `tdRequire`/`tdMake`/`buRequire`: look up or create the task node. -/
theorem SessWF.getTask {s : Sess} (h : SessWF s) (t : Nat) :
    Ext s { s with store := (s.store.getOrCreateTaskNode t).1 } :=
  h.setStore (h.store.getOrCreateTaskNode t) (Store.le_getOrCreateTaskNode h.store t)

/-- Start of an execution (`tdMake`, `buExec`): reset the task and make it current. -/
theorem SessWF.startExec {s : Sess} (h : SessWF s) {node t : Nat}
    (hn : s.store.taskOf node = some t) :
    Ext s { s with store := s.store.resetTask node, cur := some node } := by
  have hle := Store.le_resetTask h.store node
  refine h.step (h.store.resetTask node) hle ?_ (fun _ hm => .inl hm)
  intro n hc
  cases hc
  exact .inr ⟨t, hle.task _ _ hn⟩

/-- End of an execution: restore the previous `cur` and store the output. -/
theorem Ext.endExec {s₂ s₄ : Sess} (e : Ext s₂ s₄) (h₂ : SessWF s₂) (node : Nat) (o : Int) :
    Ext s₂ { s₄ with cur := s₂.cur, store := s₄.store.setTaskOutput node o } := by
  have hle := e.le.trans (Store.le_setTaskOutput s₄.store node o)
  refine ⟨⟨e.wf.store.setTaskOutput node o, ?_, ?_⟩, hle⟩
  · intro n hn; exact hle.isTask (h₂.cur n hn)
  · intro n hn; exact (Store.le_setTaskOutput s₄.store node o).isTask (e.wf.queue n hn)

end PieModel
