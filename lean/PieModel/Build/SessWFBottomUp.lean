/-
`SessWF` is preserved by the bottom-up build: scheduling (`trySchedule`, `scheduleAffectedBy`,
`scheduleAfterExec`), the mutual block `buRequire/buMake/buExec/buExecAndSchedule/buRequireNow/
buRun` (joint induction on fuel), `buExecuteScheduled`, `updateAffectedTasks`, `bottomUpBuild`,
and `requireAll`; whatever the result.
-/
import PieModel.Build.SessWFTopDown
import PieModel.Build.QueueLemmas
import PieModel.Build.Pie

namespace PieModel

variable (sem : Sem) (body : Nat → Prog)

/-! ### scheduling -/

/-- A step that may enqueue a task node. -/
theorem SessWF.enqueue {s s' : Sess} (h : SessWF s) (h1 : s'.store = s.store)
    (h2 : s'.cur = s.cur) {n t : Nat} (hn : s.store.taskOf n = some t)
    (h3 : s'.queue = queueAdd s.queue n) : Ext s s' := by
  refine h.step (h1 ▸ h.store) (h1 ▸ Store.Le.refl _) (fun _ hc => .inl (h2 ▸ hc)) ?_
  intro m hm
  rw [h3, mem_queueAdd] at hm
  rcases hm with hm | rfl
  · exact .inl hm
  · exact .inr ⟨t, by rw [h1]; exact hn⟩

/-- Replacing the queue by a sub-queue. -/
theorem SessWF.subQueue {s : Sess} (h : SessWF s) {q : List Nat} (hq : ∀ m ∈ q, m ∈ s.queue) :
    Ext s { s with queue := q } :=
  h.step h.store (Store.Le.refl _) (fun _ hc => .inl hc) (fun m hm => .inl (hq m hm))

theorem foldl_ext {β : Type} (F : Sess → β → Sess) (hF : ∀ s b, SessWF s → Ext s (F s b))
    (l : List β) : ∀ s, SessWF s → Ext s (l.foldl F s) := by
  induction l with
  | nil => intro s h; exact Ext.refl h
  | cons b l ih =>
    intro s h
    have e1 := hF s b h
    exact e1.trans (ih _ e1.wf)

theorem trySchedule_ext {s : Sess} (h : SessWF s) (tnode : Nat) (d : Dep) :
    Ext s (trySchedule sem s tnode d) := by
  unfold trySchedule; simp only []
  split
  next r c stamp t heq =>
    split
    · exact h.same rfl rfl rfl
    · exact h.enqueue rfl rfl heq rfl
    · exact h.enqueue rfl rfl heq rfl
  next r c stamp t heq =>
    split
    · exact h.same rfl rfl rfl
    · exact h.enqueue rfl rfl heq rfl
    · exact h.enqueue rfl rfl heq rfl
  · exact Ext.refl h

theorem scheduleAffectedBy_ext {s : Sess} (h : SessWF s) (r : Nat) :
    Ext s (scheduleAffectedBy sem s r) := by
  unfold scheduleAffectedBy; simp only []
  have e0 := (Ext.refl h).emit (.schedResStart r)
  have e1 := e0.trans (e0.wf.setStore (e0.wf.store.getOrCreateResNode r)
    (Store.le_getOrCreateResNode e0.wf.store r))
  exact (e1.trans (foldl_ext _ (fun s p hs => trySchedule_ext sem hs p.1 p.2) _ _ e1.wf)).emit _

theorem scheduleAfterExec_ext {s : Sess} (h : SessWF s) (node t : Nat) (out : Int) :
    Ext s (scheduleAfterExec sem s node t out) := by
  unfold scheduleAfterExec; simp only []
  refine Ext.markConsistent (Ext.emit ?_ _) _
  have e1 : Ext s _ := foldl_ext (fun s w =>
      match s.store.resOf w with
      | none => s
      | some r =>
        let s := s.emit (.schedResStart r)
        let s := (s.store.readDepsTo w).foldl (fun s (p : Nat × Dep) => trySchedule sem s p.1 p.2) s
        s.emit (.schedResEnd r)) (by
      intro s w hs
      simp only []
      split
      · exact Ext.refl hs
      next r _ =>
        have e0 := (Ext.refl hs).emit (.schedResStart r)
        exact (e0.trans (foldl_ext _ (fun s p hs => trySchedule_ext sem hs p.1 p.2) _ _ e0.wf)).emit _)
    (s.store.resourcesWrittenBy node) s h
  have e2 := e1.emit (.schedTaskStart t)
  refine e2.trans (foldl_ext _ ?_ _ _ e2.wf)
  intro s p hs
  split
  next c stamp requiring heq =>
    split
    · exact hs.same rfl rfl rfl
    · exact hs.enqueue rfl rfl heq rfl
  · exact Ext.refl hs

/-! ### the mutual block -/

/-- The joint statement for fuel `f`. `buMake` and `buExec` get the node from their caller; it
must be a task node (it is: `getOrCreateTaskNode` in `buRequire`, `taskOf` test in
`buExecAndSchedule`). -/
structure BuPres (f : Nat) : Prop where
  require : ∀ s t c, SessWF s → Ext s (buRequire sem body f s t c).1
  make : ∀ s t node, SessWF s → (∃ t', s.store.taskOf node = some t') →
    Ext s (buMake sem body f s t node).1
  exec : ∀ s t node, SessWF s → (∃ t', s.store.taskOf node = some t') →
    Ext s (buExec sem body f s t node).1
  execAndSchedule : ∀ s node, SessWF s → Ext s (buExecAndSchedule sem body f s node).1
  requireNow : ∀ s src, SessWF s → Ext s (buRequireNow sem body f s src).1
  run : ∀ s p, SessWF s → Ext s (buRun sem body f s p).1

theorem buPres_zero : BuPres sem body 0 := by
  refine ⟨?_, ?_, ?_, ?_, ?_, ?_⟩
  · intro s t c h; unfold buRequire; exact Ext.refl h
  · intro s t n h _; unfold buMake; exact Ext.refl h
  · intro s t n h _; unfold buExec; exact Ext.refl h
  · intro s n h; unfold buExecAndSchedule; exact Ext.refl h
  · intro s n h; unfold buRequireNow; exact Ext.refl h
  · intro s p h; unfold buRun; exact Ext.refl h

theorem buRequire_succ {f : Nat} (ih : BuPres sem body f) (s : Sess) (t c : Nat) (h : SessWF s) :
    Ext s (buRequire sem body (f + 1) s t c).1 := by
  unfold buRequire; simp only []
  have e0 := (Ext.refl h).emit (.requireStart t c)
  have e1 := e0.wf.getTask t
  have hd := Store.taskOf_getOrCreateTaskNode_self e0.wf.store t
  split
  next s2 a heq =>
    exact e0.trans (e1.trans ((reserveRequire_ext e1.wf ⟨t, hd⟩).out heq))
  next s2 heq =>
    have e2 := (reserveRequire_ext e1.wf ⟨t, hd⟩).out heq
    have hd2 := e2.le.task _ _ hd
    split
    next s3 a heq3 =>
      exact e0.trans (e1.trans (e2.trans ((ih.make s2 t _ e2.wf ⟨t, hd2⟩).out heq3)))
    next s3 out heq3 =>
      have e3 := (ih.make s2 t _ e2.wf ⟨t, hd2⟩).out heq3
      have hd3 := e3.le.task _ _ hd2
      have e4 := updateRequire_ext (e3.wf.emit (.requireEnd t c (sem.ostamp c out) out)) c
        (sem.ostamp c out) hd3
      have e04 := e0.trans (e1.trans (e2.trans ((e3.emit _).trans e4)))
      split
      next s4 a heq4 => exact e04.out heq4
      next s4 heq4 => exact (e04.out heq4).markConsistent _

theorem buMake_succ {f : Nat} (ih : BuPres sem body f) (s : Sess) (t node : Nat) (h : SessWF s)
    (hn : ∃ t', s.store.taskOf node = some t') : Ext s (buMake sem body (f + 1) s t node).1 := by
  unfold buMake
  split
  · split <;> exact Ext.refl h
  · split
    · exact ih.exec s t node h hn
    · split
      next s2 a heq => exact (ih.requireNow _ _ h).out heq
      next s2 o heq => exact (ih.requireNow _ _ h).out heq
      next s2 heq =>
        have e2 := (ih.requireNow _ _ h).out heq
        split <;> exact e2

theorem buExec_succ {f : Nat} (ih : BuPres sem body f) (s : Sess) (t node : Nat) (h : SessWF s)
    (hn : ∃ t', s.store.taskOf node = some t') : Ext s (buExec sem body (f + 1) s t node).1 := by
  unfold buExec; simp only []
  obtain ⟨t', hn⟩ := hn
  have e3 := (h.startExec hn).emit (.executeStart t)
  split
  next s4 a heq4 => exact e3.trans ((ih.run _ _ e3.wf).out heq4)
  next s4 o heq4 =>
    have e4 := e3.trans ((ih.run _ _ e3.wf).out heq4)
    exact (e4.emit (.executeEnd t o)).endExec h _ o

theorem buExecAndSchedule_succ {f : Nat} (ih : BuPres sem body f) (s : Sess) (node : Nat)
    (h : SessWF s) : Ext s (buExecAndSchedule sem body (f + 1) s node).1 := by
  unfold buExecAndSchedule
  split
  · exact Ext.refl h
  next t ht =>
    split
    next s2 a heq => exact (ih.exec _ _ _ h ⟨t, ht⟩).out heq
    next s2 o heq =>
      have e2 := (ih.exec _ _ _ h ⟨t, ht⟩).out heq
      exact e2.trans (scheduleAfterExec_ext sem e2.wf node t o)

theorem buRequireNow_succ {f : Nat} (ih : BuPres sem body f) (s : Sess) (src : Nat)
    (h : SessWF s) : Ext s (buRequireNow sem body (f + 1) s src).1 := by
  unfold buRequireNow
  split
  · exact Ext.refl h
  · split
    · exact Ext.refl h
    next m q hq =>
      have e1 := h.subQueue (fun _ hm => queuePopLeastFrom_rest_subset hq hm)
      split
      next s2 a heq => exact e1.trans ((ih.execAndSchedule _ _ e1.wf).out heq)
      next s2 o heq =>
        have e2 := e1.trans ((ih.execAndSchedule _ _ e1.wf).out heq)
        split
        · exact e2
        · exact e2.trans (ih.requireNow _ _ e2.wf)

theorem buRun_succ {f : Nat} (ih : BuPres sem body f) (s : Sess) (p : Prog) (h : SessWF s) :
    Ext s (buRun sem body (f + 1) s p).1 := by
  cases p with
  | ret v => unfold buRun; exact Ext.refl h
  | panic => unfold buRun; exact Ext.refl h
  | req t c k =>
    unfold buRun
    split
    next s2 a heq => exact (ih.require _ _ _ h).out heq
    next s2 out heq =>
      have e2 := (ih.require _ _ _ h).out heq
      exact e2.trans (ih.run _ _ e2.wf)
  | read r c k =>
    unfold buRun
    split
    next s2 a heq => exact (doRead_ext sem h r c).out heq
    next s2 x heq =>
      have e2 := (doRead_ext sem h r c).out heq
      exact e2.trans (ih.run _ _ e2.wf)
  | write r c v k =>
    unfold buRun
    split
    next s2 a heq => exact (doWrite_ext sem h r c v).out heq
    next s2 x heq =>
      have e2 := (doWrite_ext sem h r c v).out heq
      exact e2.trans (ih.run _ _ e2.wf)
  | wrote r c v k =>
    unfold buRun
    split
    next s2 a heq => exact (doWrote_ext sem h r c v).out heq
    next s2 x heq =>
      have e2 := (doWrote_ext sem h r c v).out heq
      exact e2.trans (ih.run _ _ e2.wf)

theorem buPres (f : Nat) : BuPres sem body f := by
  induction f with
  | zero => exact buPres_zero sem body
  | succ f ih =>
    exact ⟨buRequire_succ sem body ih, buMake_succ sem body ih, buExec_succ sem body ih,
      buExecAndSchedule_succ sem body ih, buRequireNow_succ sem body ih, buRun_succ sem body ih⟩

/-! ### headline statements -/

theorem buRequire_ext (f : Nat) {s : Sess} (h : SessWF s) (t c : Nat) :
    Ext s (buRequire sem body f s t c).1 := (buPres sem body f).require s t c h

theorem buMake_ext (f : Nat) {s : Sess} (h : SessWF s) (t : Nat) {node : Nat}
    (hn : ∃ t', s.store.taskOf node = some t') :
    Ext s (buMake sem body f s t node).1 := (buPres sem body f).make s t node h hn

theorem buExec_ext (f : Nat) {s : Sess} (h : SessWF s) (t : Nat) {node : Nat}
    (hn : ∃ t', s.store.taskOf node = some t') :
    Ext s (buExec sem body f s t node).1 := (buPres sem body f).exec s t node h hn

theorem buExecAndSchedule_ext (f : Nat) {s : Sess} (h : SessWF s) (node : Nat) :
    Ext s (buExecAndSchedule sem body f s node).1 := (buPres sem body f).execAndSchedule s node h

theorem buRequireNow_ext (f : Nat) {s : Sess} (h : SessWF s) (src : Nat) :
    Ext s (buRequireNow sem body f s src).1 := (buPres sem body f).requireNow s src h

theorem buRun_ext (f : Nat) {s : Sess} (h : SessWF s) (p : Prog) :
    Ext s (buRun sem body f s p).1 := (buPres sem body f).run s p h

theorem buExecuteScheduled_ext (f : Nat) : ∀ {s : Sess}, SessWF s →
    Ext s (buExecuteScheduled sem body f s).1 := by
  induction f with
  | zero => intro s h; unfold buExecuteScheduled; exact Ext.refl h
  | succ f ih =>
    intro s h
    unfold buExecuteScheduled
    split
    · exact Ext.refl h
    next n q hq =>
      have e1 := h.subQueue (fun _ hm => queuePop_rest_subset hq hm)
      split
      next s2 a heq => exact e1.trans ((buExecAndSchedule_ext sem body f e1.wf n).out heq)
      next s2 o heq =>
        have e2 := e1.trans ((buExecAndSchedule_ext sem body f e1.wf n).out heq)
        exact e2.trans (ih e2.wf)

theorem updateAffectedTasks_ext (f : Nat) {s : Sess} (h : SessWF s) :
    Ext s (updateAffectedTasks sem body f s).1 := by
  unfold updateAffectedTasks; simp only []
  have e0 := h.clearCur.emit .buildStart
  have e1 := e0.trans (buExecuteScheduled_ext sem body f e0.wf)
  split
  next s2 a heq => exact e1.out heq
  next s2 heq => exact (e1.out heq).emit .buildEnd

theorem bottomUpBuild_ext (f : Nat) {s : Sess} (h : SessWF s) (changed : List Nat) :
    Ext s (bottomUpBuild sem body f s changed).1 := by
  unfold bottomUpBuild; simp only []
  have e0 : Ext s { s with queue := [] } := h.subQueue (fun _ hm => by cases hm)
  have e1 := e0.trans (foldl_ext _ (fun s r hs => scheduleAffectedBy_ext sem hs r) changed _ e0.wf)
  exact e1.trans (updateAffectedTasks_ext sem body f e1.wf)

theorem requireAll_ext (f : Nat) (ts : List Nat) : ∀ {s : Sess}, SessWF s →
    Ext s (requireAll sem body f s ts).1 := by
  induction ts with
  | nil => intro s h; unfold requireAll; exact Ext.refl h
  | cons t ts ih =>
    intro s h
    unfold requireAll
    split
    next s2 a heq => exact (sessionRequire_ext sem body f h t).out heq
    next s2 o heq =>
      have e2 := (sessionRequire_ext sem body f h t).out heq
      split
      next s3 a heq3 => exact e2.trans ((ih e2.wf).out heq3)
      next s3 os heq3 => exact e2.trans ((ih e2.wf).out heq3)

end PieModel
