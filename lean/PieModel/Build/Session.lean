/-
Model of `pie/src/pie.rs` (`SessionInternal`) and `pie/src/context/mod.rs` (`SessionExt`):
session state, tracker stream, read / write / written_to / reserve+update require dependency,
`validate_write`.  Effects happen in the order of the Rust code (DESIGN.md §3.3).
-/
import PieModel.Build.Store

namespace PieModel

/-- `SessionInternal` + the parts of `PieInternal` it borrows (`store`, resource state `fs`) +
the bottom-up context's queue. `trace` is the stream of tracker events of this session. -/
structure Sess where
  store : Store := {}
  fs : List (Nat × Int) := []
  cur : Option Nat := none
  consistent : List Nat := []
  errors : List Int := []
  trace : List Ev := []
  queue : List Nat := []

namespace Sess

def emit (s : Sess) (e : Ev) : Sess := { s with trace := s.trace ++ [e] }

/-- content of map resource `r` -/
def content (s : Sess) (r : Nat) : Option Int := aget s.fs r

/-- `HashMap::insert` / `HashMap::remove` on the global map -/
def setContent (s : Sess) (r : Nat) (v : Option Int) : Sess :=
  match v with
  | some x => { s with fs := aset s.fs r x }
  | none => { s with fs := aerase s.fs r }

def markConsistent (s : Sess) (n : Nat) : Sess :=
  if n ∈ s.consistent then s else { s with consistent := s.consistent ++ [n] }

end Sess

variable (sem : Sem)

/-- `validate_write`: overlapping-write test first, then every recorded reader. -/
def validateWrite (st : Store) (src dst : Nat) : Option Abort :=
  match st.taskWritingTo dst with
  | some _ => some .overlap
  | none =>
    if (st.tasksReadingFrom dst).any (fun reader => !(st.containsTransitive reader src))
    then some .hidden else none

/-- `SessionExt::read` -/
def doRead (s : Sess) (r c : Nat) : Sess × Res (Except Int (Option Int)) :=
  let v := s.content r                                   -- resource.read(state): the reader
  match s.cur with
  | none => (s, .ok (.ok v))
  | some cur =>
    let s := s.emit (.readStart r c)
    let (st, dst) := s.store.getOrCreateResNode r
    let s := { s with store := st }
    let hidden := match st.taskWritingTo dst with
      | some w => !(st.containsTransitive cur w)
      | none => false
    if hidden then (s, .abort .hidden)
    else match sem.rstamp c v with
      | .error e => (s, .ok (.error e))                  -- `?`: no read_end, no dependency
      | .ok stamp =>
        let s := s.emit (.readEnd r c stamp)
        match s.store.addDependency cur dst (.read r c stamp) with
        | (_, .bug) => (s, .abort (.bug 1))
        | (st', _) => ({ s with store := st' }, .ok (.ok v))

/-- `SessionExt::write` with a write function that sets/removes the value. -/
def doWrite (s : Sess) (r c : Nat) (v : Option Int) : Sess × Res (Except Int Unit) :=
  match s.cur with
  | none => (s.setContent r v, .ok (.ok ()))
  | some cur =>
    let s := s.emit (.writeStart r c)
    let (st, dst) := s.store.getOrCreateResNode r
    let s := { s with store := st }
    match validateWrite st cur dst with
    | some a => (s, .abort a)                            -- before the resource is modified
    | none =>
      let s := s.setContent r v                          -- resource.write(state); write_fn(writer)
      match sem.rstamp c (s.content r) with              -- checker.stamp_writer
      | .error e => (s, .ok (.error e))
      | .ok stamp =>
        let s := s.emit (.writeEnd r c stamp)
        match s.store.addDependency cur dst (.write r c stamp) with
        | (_, .bug) => (s, .abort (.bug 2))
        | (st', _) => ({ s with store := st' }, .ok (.ok ()))

/-- `create_writer`, modify through the writer, then `SessionExt::written_to`. -/
def doWrote (s : Sess) (r c : Nat) (v : Option Int) : Sess × Res (Except Int Unit) :=
  let s := s.setContent r v                              -- already written when declared
  match s.cur with
  | none => (s, .ok (.ok ()))
  | some cur =>
    let s := s.emit (.writeStart r c)
    let (st, dst) := s.store.getOrCreateResNode r
    let s := { s with store := st }
    match validateWrite st cur dst with
    | some a => (s, .abort a)
    | none =>
      match sem.rstamp c (s.content r) with              -- checker.stamp(resource, state)
      | .error e => (s, .ok (.error e))
      | .ok stamp =>
        let s := s.emit (.writeEnd r c stamp)
        match s.store.addDependency cur dst (.write r c stamp) with
        | (_, .bug) => (s, .abort (.bug 3))
        | (st', _) => ({ s with store := st' }, .ok (.ok ()))

/-- `SessionExt::reserve_require_dependency` -/
def reserveRequire (s : Sess) (dst : Nat) : Sess × Res Unit :=
  match s.cur with
  | none => (s, .ok ())
  | some src =>
    match s.store.addDependency src dst .reserved with
    | (st, .ok) => ({ s with store := st }, .ok ())
    | (_, .cycle) => (s, .abort .cyclic)
    | (_, .bug) => (s, .abort (.bug 4))

/-- `SessionExt::update_require_dependency` -/
def updateRequire (s : Sess) (dst t c : Nat) (stamp : Stamp) : Sess × Res Unit :=
  match s.cur with
  | none => (s, .ok ())
  | some src =>
    match s.store.setDependency src dst (.require t c stamp) with
    | some st => ({ s with store := st }, .ok ())
    | none => (s, .abort (.bug 5))

/-- `ResourceDependency::is_consistent` on the current resource state. -/
def checkResDep (s : Sess) (r c : Nat) (stamp : Stamp) : Except Int Bool :=
  sem.rcheck c (s.content r) stamp

end PieModel
