/-
Static roles, bottom-up build: for a program table that respects the roles, the scheduling
functions, `buRequire`, `buMake`, `buExec`, `buExecAndSchedule`, `buRequireNow`, `buRun`,
`buExecuteScheduled`, `updateAffectedTasks`, `bottomUpBuild` preserve `SessWF` and `RolesInv`,
whatever the result, and never abort with `cyclic` / `hidden` / `overlap`.

The frame argument: a scheduled task executed inside a require of `u` lies in the cone of `u`'s
node, hence has rank `≥ rank u`, hence is not the requiring task.
-/
import PieModel.Build.RolesTopDown
import PieModel.Build.SessWFBottomUp
import PieModel.Build.Proofs.BottomUpSteps

namespace PieModel

variable (sem : Sem) (body : Nat → Prog)

/-! ### scheduling does not touch the store -/

theorem store_trySchedule (s : Sess) (tnode : Nat) (d : Dep) :
    (trySchedule sem s tnode d).store = s.store := by
  unfold trySchedule; simp only []
  split
  · split <;> rfl
  · split <;> rfl
  · rfl

theorem store_foldl {α : Type} (g : Sess → α → Sess) (hg : ∀ (s : Sess) x, (g s x).store = s.store)
    (l : List α) (s : Sess) : (l.foldl g s).store = s.store := by
  induction l generalizing s with
  | nil => rfl
  | cons x l ih => exact (ih _).trans (hg s x)

theorem store_writtenSchedStep (s : Sess) (w : Nat) : (writtenSchedStep sem s w).store = s.store := by
  unfold writtenSchedStep
  split
  · rfl
  · simp only [Sess.store_emit]
    exact store_foldl _ (fun s (p : Nat × Dep) => store_trySchedule sem s p.1 p.2) _ _

theorem store_reqSchedStep (out : Int) (s : Sess) (p : Nat × Dep) :
    (reqSchedStep sem out s p).store = s.store := by
  unfold reqSchedStep
  split
  · simp only; split <;> rfl
  · rfl

theorem store_scheduleAfterExec (s : Sess) (node t : Nat) (out : Int) :
    (scheduleAfterExec sem s node t out).store = s.store := by
  rw [scheduleAfterExec_eq]
  simp only [Sess.store_markConsistent, Sess.store_emit]
  rw [store_foldl _ (store_reqSchedStep sem out)]
  simp only [Sess.store_emit]
  rw [store_foldl _ (store_writtenSchedStep sem)]

theorem store_scheduleAffectedBy (s : Sess) (r : Nat) :
    (scheduleAffectedBy sem s r).store = (s.store.getOrCreateResNode r).1 := by
  unfold scheduleAffectedBy; simp only [Sess.store_emit]
  rw [store_foldl _ (fun s (p : Nat × Dep) => store_trySchedule sem s p.1 p.2)]

variable {ro : Roles}

theorem scheduleAfterExec_rext {s : Sess} (h : SessWF s) (hi : RolesInv ro s.store)
    (node t : Nat) (out : Int) (k : Nat) (ex : Option Nat) :
    RExt ro k ex s (scheduleAfterExec sem s node t out) :=
  ⟨scheduleAfterExec_ext sem h node t out, (store_scheduleAfterExec sem s node t out) ▸ hi,
    (store_scheduleAfterExec sem s node t out) ▸ FrameBelow.refl _ _ _ _⟩

theorem scheduleAffectedBy_rext {s : Sess} (h : SessWF s) (hi : RolesInv ro s.store) (r : Nat)
    (k : Nat) (ex : Option Nat) : RExt ro k ex s (scheduleAffectedBy sem s r) :=
  ⟨scheduleAffectedBy_ext sem h r, (store_scheduleAffectedBy sem s r) ▸ hi.getOrCreateResNode r,
    (store_scheduleAffectedBy sem s r) ▸
      FrameBelow.of_eq (Store.getEdgeData_getOrCreateResNode h.store r)⟩

/-! ### the mutual block -/

variable (ro)

/-- The joint statement for fuel `f`. -/
structure BuRoles (f : Nat) : Prop where
  require : ∀ s t c, SessWF s → RolesInv ro s.store → ReqPre ro s t →
    Post ro (ro.rank t) s.cur s (buRequire sem body f s t c) ∧
      ReqAcc s t (buRequire sem body f s t c)
  make : ∀ s t node, SessWF s → RolesInv ro s.store → s.store.taskOf node = some t →
    Post ro (ro.rank t) none s (buMake sem body f s t node)
  exec : ∀ s t node, SessWF s → RolesInv ro s.store → s.store.taskOf node = some t →
    Post ro (ro.rank t) none s (buExec sem body f s t node)
  execAndSchedule : ∀ s node k, SessWF s → RolesInv ro s.store →
    (∀ t, s.store.taskOf node = some t → k ≤ ro.rank t) →
    Post ro k none s (buExecAndSchedule sem body f s node)
  requireNow : ∀ s src t, SessWF s → RolesInv ro s.store → s.store.taskOf src = some t →
    Post ro (ro.rank t) none s (buRequireNow sem body f s src)
  run : ∀ s p cur t0 a, SessWF s → RolesInv ro s.store → s.cur = some cur →
    s.store.taskOf cur = some t0 → StaticRolesFrom ro t0 a p → AccOK s.store cur a →
    Post ro (ro.rank t0) none s (buRun sem body f s p)

theorem buRoles_zero : BuRoles sem body ro 0 := by
  refine ⟨?_, ?_, ?_, ?_, ?_, ?_⟩
  · intro s t c h hi _; unfold buRequire
    exact ⟨Post.refl_of h hi (NoViol.abort_of rfl), fun _ _ _ _ h' => nomatch h'⟩
  · intro s t n h hi _; unfold buMake; exact Post.refl_of h hi (NoViol.abort_of rfl)
  · intro s t n h hi _; unfold buExec; exact Post.refl_of h hi (NoViol.abort_of rfl)
  · intro s n k h hi _; unfold buExecAndSchedule; exact Post.refl_of h hi (NoViol.abort_of rfl)
  · intro s n t h hi _; unfold buRequireNow; exact Post.refl_of h hi (NoViol.abort_of rfl)
  · intro s p cur t0 a h hi _ _ _ _; unfold buRun; exact Post.refl_of h hi (NoViol.abort_of rfl)

variable {sem body ro}

theorem buRequire_succ_roles {f : Nat} (ih : BuRoles sem body ro f) (s : Sess) (t c : Nat)
    (h : SessWF s) (hi : RolesInv ro s.store) (hpre : ReqPre ro s t) :
    Post ro (ro.rank t) s.cur s (buRequire sem body (f + 1) s t c) ∧
      ReqAcc s t (buRequire sem body (f + 1) s t c) := by
  unfold buRequire; simp only []
  have e0 : RExt ro (ro.rank t) s.cur s (s.emit (.requireStart t c)) := (RExt.refl h hi).emit _
  have x1 := e0.wf.getTask t
  have i1 := e0.inv.getOrCreateTaskNode t
  have ed1 := Store.getEdgeData_getOrCreateTaskNode e0.wf.store t
  have e1 := e0.step x1 i1 (FrameBelow.of_eq ed1)
  have hd := Store.taskOf_getOrCreateTaskNode_self e0.wf.store t
  have hpre1 : ReqPre ro
      { s.emit (.requireStart t c) with
        store := ((s.emit (.requireStart t c)).store.getOrCreateTaskNode t).1 } t := by
    intro cur hcur
    obtain ⟨t0, h1, h2⟩ := hpre cur hcur
    exact ⟨t0, x1.le.task _ _ h1, h2⟩
  obtain ⟨p2, k2⟩ := reserveRequire_roles e1.wf i1 hd hpre1 (ro.rank t)
  split
  next s2 a heq =>
    exact ⟨Post.left e1 (p2.abort heq), fun _ _ _ _ h' => nomatch h'⟩
  next s2 heq =>
    obtain ⟨e2', _⟩ := p2.out heq
    have e2 := e1.trans e2'
    have c2 : s2.cur = s.cur := by
      have := cur_of_fst (cur_reserveRequire _ _) heq
      exact this
    have hd2 := e2'.ext.le.task _ _ hd
    have pm := ih.make s2 t _ e2.wf e2.inv hd2
    split
    next s3 a heq3 =>
      exact ⟨Post.left e2 (pm.add.abort heq3), fun _ _ _ _ h' => nomatch h'⟩
    next s3 out heq3 =>
      obtain ⟨e3', _⟩ := pm.out heq3
      have e3 := (e2.trans e3'.add).emit (.requireEnd t c (sem.ostamp c out) out)
      have c3 : s3.cur = s2.cur := cur_buMake sem body heq3
      have hd3 := e3'.ext.le.task _ _ hd2
      obtain ⟨p4, k4⟩ := updateRequire_roles (ro := ro) e3.wf e3.inv c (sem.ostamp c out)
        (dst := ((s.emit (.requireStart t c)).store.getOrCreateTaskNode t).2) (t := t) hd3
        (ro.rank t)
      have hcur3 : (s3.emit (.requireEnd t c (sem.ostamp c out) out)).cur = s.cur := by
        show s3.cur = s.cur
        rw [c3, c2]
      rw [hcur3] at p4
      split
      next s4 a heq4 =>
        exact ⟨Post.left e3 (p4.abort heq4), fun _ _ _ _ h' => nomatch h'⟩
      next s4 heq4 =>
        refine ⟨⟨(e3.trans (p4.out heq4).1).markConsistent _, NoViol.ok _⟩, ?_⟩
        intro cur a o hcur _ ha
        obtain ⟨t0, ht0, hlt⟩ := hpre cur hcur
        have a1 : AccOK ((s.emit (.requireStart t c)).store.getOrCreateTaskNode t).1 cur a :=
          ha.of_eq x1.le (ed1 cur)
        obtain ⟨a2, _⟩ := k2.out heq (cur := cur) hcur a1
        have ht2 : s2.store.taskOf cur = some t0 := e2'.ext.le.task _ _ (x1.le.task _ _ ht0)
        have a3 : AccOK s3.store cur a :=
          a2.of_eq e3'.ext.le (e3'.frame cur t0 ht2 hlt (fun hh => nomatch hh))
        obtain ⟨a4, dep, hdep⟩ := k4.out heq4 (cur := cur) (hcur3.trans hcur) a3
        have hd4 := (p4.out heq4).1.ext.le.task _ _ hd3
        have := a4.consReq hd4 hdep
        simpa using this

theorem buMake_succ_roles {f : Nat} (ih : BuRoles sem body ro f) (s : Sess) (t node : Nat)
    (h : SessWF s) (hi : RolesInv ro s.store) (hn : s.store.taskOf node = some t) :
    Post ro (ro.rank t) none s (buMake sem body (f + 1) s t node) := by
  unfold buMake
  split
  · split
    · exact Post.refl_of h hi (NoViol.ok _)
    · exact Post.refl_of h hi (NoViol.abort_of rfl)
  · split
    · exact ih.exec s t node h hi hn
    · have pn := ih.requireNow s node t h hi hn
      split
      next s2 a heq => exact pn.abort heq
      next s2 o heq => exact ⟨(pn.out heq).1, NoViol.ok _⟩
      next s2 heq =>
        split
        · exact ⟨(pn.out heq).1, NoViol.ok _⟩
        · exact ⟨(pn.out heq).1, NoViol.abort_of rfl⟩

theorem buExec_succ_roles (hwf : WellFormedBody ro body) {f : Nat} (ih : BuRoles sem body ro f)
    (s : Sess) (t node : Nat) (h : SessWF s) (hi : RolesInv ro s.store)
    (hn : s.store.taskOf node = some t) :
    Post ro (ro.rank t) none s (buExec sem body (f + 1) s t node) := by
  unfold buExec; simp only []
  have x3 := (h.startExec hn).emit (.executeStart t)
  have i3 := hi.resetTask node
  have f3 : FrameBelow ro (ro.rank t) none s.store (s.store.resetTask node) :=
    (FrameBelow.of_ne (fun a ha b => by
      rw [Store.getEdgeData_resetTask h.store, if_neg ha])).drop hn (Nat.le_refl _)
  have e3 : RExt ro (ro.rank t) none s _ := ⟨x3, i3, f3⟩
  have a3 := AccOK.start h.store node
  have hd3 := x3.le.task _ _ hn
  have pr := ih.run _ (body t) node t {} e3.wf i3 rfl hd3 (hwf t) a3
  split
  next s4 a heq4 => exact Post.left e3 (pr.abort heq4)
  next s4 o heq4 =>
    obtain ⟨e4', _⟩ := pr.out heq4
    have e4 := e3.trans e4'
    have x5 := ((x3.trans e4'.ext).emit (.executeEnd t o)).endExec h node o
    exact ⟨⟨x5, e4.inv.setTaskOutput _ o,
      e4.frame.trans e4.ext.le (FrameBelow.of_eq (by simp))⟩, NoViol.ok _⟩

theorem buExecAndSchedule_succ_roles {f : Nat} (ih : BuRoles sem body ro f) (s : Sess)
    (node k : Nat) (h : SessWF s) (hi : RolesInv ro s.store)
    (hk : ∀ t, s.store.taskOf node = some t → k ≤ ro.rank t) :
    Post ro k none s (buExecAndSchedule sem body (f + 1) s node) := by
  unfold buExecAndSchedule
  split
  · exact Post.refl_of h hi (NoViol.abort_of rfl)
  next t ht =>
    have pe := (ih.exec s t node h hi ht).mono (hk t ht)
    split
    next s2 a heq => exact pe.abort heq
    next s2 o heq =>
      obtain ⟨e2, _⟩ := pe.out heq
      exact ⟨e2.trans (scheduleAfterExec_rext sem e2.wf e2.inv node t o k none), NoViol.ok _⟩

theorem buRequireNow_succ_roles {f : Nat} (ih : BuRoles sem body ro f) (s : Sess) (src t : Nat)
    (h : SessWF s) (hi : RolesInv ro s.store) (ht : s.store.taskOf src = some t) :
    Post ro (ro.rank t) none s (buRequireNow sem body (f + 1) s src) := by
  unfold buRequireNow
  split
  · exact Post.refl_of h hi (NoViol.ok _)
  · split
    · exact Post.refl_of h hi (NoViol.ok _)
    next m q hq =>
      have x1 := h.subQueue (fun _ hm => queuePopLeastFrom_rest_subset hq hm)
      have e1 : RExt ro (ro.rank t) none s { s with queue := q } :=
        ⟨x1, hi, FrameBelow.refl _ _ _ _⟩
      obtain ⟨_, _, _, _, hcone, _⟩ := queuePopLeastFrom_eq_some hq
      have hrank : ∀ t', s.store.taskOf m = some t' → ro.rank t ≤ ro.rank t' := by
        intro t' ht'
        rcases inCone_iff.mp hcone with rfl | hct
        · rw [ht] at ht'; cases ht'; exact Nat.le_refl _
        · exact Nat.le_of_lt
            (hi.reach_rank ((hi.wf.containsTransitive_iff src m).mp hct) ht ht')
      have pe := ih.execAndSchedule { s with queue := q } m (ro.rank t) e1.wf hi hrank
      split
      next s2 a heq => exact Post.left e1 (pe.abort heq)
      next s2 o heq =>
        have e2 := e1.trans (pe.out heq).1
        split
        · exact ⟨e2, NoViol.ok _⟩
        · exact Post.left e2 (ih.requireNow s2 src t e2.wf e2.inv (e2.ext.le.task _ _ ht))

theorem buRun_succ_roles {f : Nat} (ih : BuRoles sem body ro f) (s : Sess) (p : Prog)
    (cur t0 : Nat) (a : Acc) (h : SessWF s) (hi : RolesInv ro s.store) (hc : s.cur = some cur)
    (ht : s.store.taskOf cur = some t0) (hp : StaticRolesFrom ro t0 a p)
    (ha : AccOK s.store cur a) : Post ro (ro.rank t0) none s (buRun sem body (f + 1) s p) := by
  cases p with
  | ret v => unfold buRun; exact Post.refl_of h hi (NoViol.ok _)
  | panic => unfold buRun; exact Post.refl_of h hi (NoViol.abort_of rfl)
  | req u c k =>
    unfold buRun
    obtain ⟨hlt, hk⟩ := hp
    have hpre : ReqPre ro s u := fun cur' hc' => by
      rw [hc] at hc'; cases hc'; exact ⟨t0, ht, hlt⟩
    obtain ⟨pq, ka⟩ := ih.require s u c h hi hpre
    rw [hc] at pq
    have pq' := (pq.mono (Nat.le_of_lt hlt)).drop ht (Nat.le_refl _)
    split
    next s2 a' heq => exact pq'.abort heq
    next s2 out heq =>
      obtain ⟨e2, _⟩ := pq'.out heq
      have c2 := cur_buRequire sem body heq
      have a2 : AccOK s2.store cur { a with req := u :: a.req } := by
        have := ka cur a out hc (by rw [heq]) ha
        rwa [heq] at this
      exact Post.left e2 (ih.run s2 (k out) cur t0 _ e2.wf e2.inv (c2.trans hc)
        (e2.ext.le.task _ _ ht) (hk out) a2)
  | read r c k =>
    unfold buRun
    obtain ⟨_, hreq, hk⟩ := hp
    obtain ⟨pr, ar⟩ := doRead_roles sem h hi hc ht ha r c hreq (ro.rank t0)
    have pr' := pr.drop ht (Nat.le_refl _)
    split
    next s2 a' heq => exact pr'.abort heq
    next s2 x heq =>
      obtain ⟨e2, _⟩ := pr'.out heq
      have c2 : s2.cur = s.cur := cur_of_fst (cur_doRead sem s r c) heq
      have a2 : AccOK s2.store cur a := by rwa [heq] at ar
      exact Post.left e2 (ih.run s2 (k x) cur t0 a e2.wf e2.inv (c2.trans hc)
        (e2.ext.le.task _ _ ht) (hk x) a2)
  | write r c v k =>
    unfold buRun
    obtain ⟨hg, hnw, hk⟩ := hp
    obtain ⟨pr, ar⟩ := doWrite_roles sem h hi hc ht ha r c v hg hnw (ro.rank t0)
    have pr' := pr.drop ht (Nat.le_refl _)
    split
    next s2 a' heq => exact pr'.abort heq
    next s2 x heq =>
      obtain ⟨e2, _⟩ := pr'.out heq
      have c2 : s2.cur = s.cur := cur_of_fst (cur_doWrite sem s r c v) heq
      have a2 : AccOK s2.store cur { a with wr := r :: a.wr } := by rwa [heq] at ar
      exact Post.left e2 (ih.run s2 (k x) cur t0 _ e2.wf e2.inv (c2.trans hc)
        (e2.ext.le.task _ _ ht) (hk x) a2)
  | wrote r c v k =>
    unfold buRun
    obtain ⟨hg, hnw, hk⟩ := hp
    obtain ⟨pr, ar⟩ := doWrote_roles sem h hi hc ht ha r c v hg hnw (ro.rank t0)
    have pr' := pr.drop ht (Nat.le_refl _)
    split
    next s2 a' heq => exact pr'.abort heq
    next s2 x heq =>
      obtain ⟨e2, _⟩ := pr'.out heq
      have c2 : s2.cur = s.cur := cur_of_fst (cur_doWrote sem s r c v) heq
      have a2 : AccOK s2.store cur { a with wr := r :: a.wr } := by rwa [heq] at ar
      exact Post.left e2 (ih.run s2 (k x) cur t0 _ e2.wf e2.inv (c2.trans hc)
        (e2.ext.le.task _ _ ht) (hk x) a2)

theorem buRoles (hwf : WellFormedBody ro body) (f : Nat) : BuRoles sem body ro f := by
  induction f with
  | zero => exact buRoles_zero sem body ro
  | succ f ih =>
    exact ⟨buRequire_succ_roles ih, buMake_succ_roles ih, buExec_succ_roles hwf ih,
      buExecAndSchedule_succ_roles ih, buRequireNow_succ_roles ih, buRun_succ_roles ih⟩

/-! ### builds -/

theorem buExecuteScheduled_roles (hwf : WellFormedBody ro body) (f : Nat) :
    ∀ {s : Sess}, SessWF s → RolesInv ro s.store →
      Top ro s (buExecuteScheduled sem body f s) := by
  induction f with
  | zero =>
    intro s h hi; unfold buExecuteScheduled; exact Post.refl_of h hi (NoViol.abort_of rfl)
  | succ f ih =>
    intro s h hi
    unfold buExecuteScheduled
    split
    · exact Post.refl_of h hi (NoViol.ok _)
    next n q hq =>
      have x1 := h.subQueue (fun _ hm => queuePop_rest_subset hq hm)
      have e1 : RExt ro 0 none s { s with queue := q } := ⟨x1, hi, FrameBelow.refl _ _ _ _⟩
      have pe := (buRoles (sem := sem) hwf f).execAndSchedule { s with queue := q } n 0 e1.wf hi
        (fun _ _ => Nat.zero_le _)
      split
      next s2 a heq => exact Post.left e1 (pe.abort heq)
      next s2 o heq =>
        have e2 := e1.trans (pe.out heq).1
        exact Post.left e2 (ih e2.wf e2.inv)

theorem updateAffectedTasks_roles (hwf : WellFormedBody ro body) (f : Nat) {s : Sess}
    (h : SessWF s) (hi : RolesInv ro s.store) :
    Top ro s (updateAffectedTasks sem body f s) := by
  unfold updateAffectedTasks; simp only []
  have e0 : RExt ro 0 none s ({ s with cur := none }.emit .buildStart) :=
    ⟨h.clearCur.emit .buildStart, hi, FrameBelow.refl _ _ _ _⟩
  have pq := buExecuteScheduled_roles (sem := sem) hwf f e0.wf e0.inv
  split
  next s2 a heq => exact Post.left e0 (pq.abort heq)
  next s2 heq => exact ⟨(e0.trans (pq.out heq).1).emit .buildEnd, NoViol.ok _⟩

theorem foldl_rext {β : Type} {k : Nat} {ex : Option Nat} (F : Sess → β → Sess)
    (hF : ∀ s b, SessWF s → RolesInv ro s.store → RExt ro k ex s (F s b)) (l : List β) :
    ∀ s, SessWF s → RolesInv ro s.store → RExt ro k ex s (l.foldl F s) := by
  induction l with
  | nil => intro s h hi; exact RExt.refl h hi
  | cons b l ih =>
    intro s h hi
    have e1 := hF s b h hi
    exact e1.trans (ih _ e1.wf e1.inv)

theorem bottomUpBuild_roles (hwf : WellFormedBody ro body) (f : Nat) {s : Sess} (h : SessWF s)
    (hi : RolesInv ro s.store) (changed : List Nat) :
    Top ro s (bottomUpBuild sem body f s changed) := by
  unfold bottomUpBuild; simp only []
  have e0 : RExt ro 0 none s { s with queue := [] } :=
    ⟨h.subQueue (fun _ hm => by cases hm), hi, FrameBelow.refl _ _ _ _⟩
  have e1 := e0.trans (foldl_rext _
    (fun s r hs his => scheduleAffectedBy_rext sem hs his r 0 none) changed _ e0.wf e0.inv)
  exact Post.left e1 (updateAffectedTasks_roles hwf f e1.wf e1.inv)

end PieModel
