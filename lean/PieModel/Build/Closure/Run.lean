/-
Bottom-up closure: the successor step of `buRun`.
-/
import PieModel.Build.Closure.Induct

namespace PieModel

variable {sem : Sem} {body : Nat → Prog} {fs : List (Nat × Int)}

theorem BuClos.run_succ (hst : StampTotal sem) (hrefl : Reflexive sem) {f : Nat}
    (ih : BuClos sem body fs f) (s : Sess) (ch₀ : List Nat) (a : Nat) (X : List Nat) (p : Prog)
    (qt qr : List (Nat × Nat)) (h : CI sem body fs s (ch₀ ++ [a]) X) (hti : TI s (ch₀ ++ [a]) [])
    (hX : ∀ x ∈ X, x ∈ ch₀ ++ [a]) (hnr : Dep.reserved ∉ s.store.depsFrom a)
    (hwf : p.WriteFree) (hone : OneCk qt qr p) (hri : RunInv sem fs qt qr s a)
    (s' : Sess) (v : Int) (heq : buRun sem body (f + 1) s p = (s', .ok v)) :
    CI sem body fs s' (ch₀ ++ [a]) X ∧ TI s' (ch₀ ++ [a]) [] ∧ Mono s s' ∧
      Dep.reserved ∉ s'.store.depsFrom a ∧
      (∀ d ∈ s.store.depsFrom a, d ∈ s'.store.depsFrom a) ∧
      Replay sem p (s'.store.depsFrom a) v := by
  have hw := h.sw
  have hcur : s.cur = some a := by rw [h.bf.cur_eq, List.getLast?_concat]
  have hmem : a ∈ ch₀ ++ [a] := by simp
  cases hwf with
  | ret v0 =>
    unfold buRun at heq
    cases heq
    exact ⟨h, hti, Mono.refl _, hnr, fun d hd => hd, rfl⟩
  | panic => unfold buRun at heq; cases heq
  | req u c k hk =>
    unfold buRun at heq
    split at heq
    next s1 a' heq1 => cases heq
    next s1 out heq1 =>
      obtain ⟨c1, t1, m1, hnr1, hcons, hout, htask, hupd1, hupd2, hupd3⟩ :=
        ih.require s ch₀ a X u c h hti hX hnr s1 out heq1
      have hle : s.store.Le s1.store := ((buRequire_ext sem body f h.wf u c).out heq1).le
      have hri1 : RunInv sem fs ((u, c) :: qt) qr s1 a := by
        intro dst d hd
        rcases hupd1 _ hd with ⟨hold, _⟩ | hnew
        · exact (hri dst d hold).mono' m1 (fun p hp => List.mem_cons_of_mem _ hp) (fun p hp => hp)
        · cases hnew
          exact ⟨List.mem_cons_self .., hcons, out, hout, rfl⟩
      obtain ⟨c2, t2, m2, hnr2, hsub2, hrep2⟩ := ih.run s1 ch₀ a X (k out) ((u, c) :: qt) qr c1 t1
        hX hnr1 (hk out) (hone.2 out) hri1 s' v heq
      have hD : Dep.require u c (sem.ostamp c out) ∈ s1.store.depsFrom a :=
        Store.mem_depsFrom_iff.mpr ⟨_, hupd3⟩
      refine ⟨c2, t2, m1.trans m2, hnr2, ?_, ⟨sem.ostamp c out, hsub2 _ hD, out, rfl, hrep2⟩⟩
      intro d hd
      obtain ⟨dst, hdst⟩ := Store.mem_depsFrom_iff.mp hd
      by_cases hne : dst = nodeOf s u
      · subst hne
        apply hsub2
        have hok := (hw.mem_outgoingEdges_ok hdst).2
        have hrd := hri _ d hdst
        cases d with
        | reserved => exact hrd.elim
        | write r' c' st0 => exact hrd.elim
        | read r' c' st0 =>
          have h1 : s1.store.resOf (nodeOf s u) = some r' := hle.res _ _ hok
          rw [Store.resOf_eq_none_of_taskOf htask] at h1; cases h1
        | require u' c' st0 =>
          obtain ⟨hq, hcs, o', ho', hst0⟩ := hrd
          have h1 : s1.store.taskOf (nodeOf s u) = some u' := hle.task _ _ hok
          rw [htask] at h1; cases h1
          have hcc := hone.1 c' hq
          subst hcc
          have h2 : s1.store.taskOutput (nodeOf s u) = some o' := by
            rw [(m1 _ hcs).2]; exact ho'
          rw [hout] at h2; cases h2
          rw [hst0]; exact hD
      · exact hsub2 d (Store.mem_depsFrom_iff.mpr ⟨dst, hupd2 _ hdst hne⟩)
  | read r c k hk =>
    unfold buRun at heq
    split at heq
    next s1 a' heq1 => cases heq
    next s1 x heq1 =>
      have hfsEq := h.fsEq
      obtain ⟨rfl, hfs1, ho1, he1, dst, stamp, hstamp, hresof, halt⟩ :=
        doRead_ok_spec hst h.wf hcur r c heq1
      rw [hfsEq] at hstamp
      have key := h.bf.doRead sem r c
      rw [heq1] at key
      obtain ⟨bf1, _, hnr1⟩ := key
      have hq1 : s1.queue = s.queue := by have := doRead_queue sem s r c; rw [heq1] at this; exact this
      have hc1 : s1.consistent = s.consistent := by
        have := doRead_consistent sem s r c; rw [heq1] at this; exact this
      have hle : s.store.Le s1.store := ((doRead_ext sem h.wf r c).out heq1).le
      have hacc : sem.rcheck c (aget fs r) stamp = .ok true := hrefl.2 _ _ _ hstamp
      have c1 : CI sem body fs s1 (ch₀ ++ [a]) X := by
        refine h.frame bf1 hfs1 hq1 hc1 hle ho1 (fun n hn => he1 n (fun hna => hn (hna ▸ hmem))) ?_
        intro a' ha' p hp
        by_cases haa : a' = a
        · subst haa
          rcases halt with ⟨_, he⟩ | ⟨_, he⟩
          · rw [he] at hp
            exact (h.i3 a' ha' p hp).congr hc1 (ho1 _)
          · rw [he] at hp
            rcases List.mem_append.mp hp with hp | hp
            · exact (h.i3 a' ha' p hp).congr hc1 (ho1 _)
            · simp only [List.mem_singleton] at hp
              subst hp
              exact hacc
        · rw [he1 a' haa] at hp
          exact (h.i3 a' ha' p hp).congr hc1 (ho1 _)
      have t1 : TI s1 (ch₀ ++ [a]) [] := hti.transfer
        (fun t => by have := doRead_countExec sem s r c t; rw [heq1] at this; exact this) hle
        (fun _ hn => by rw [hc1]; exact hn)
      have m1 : Mono s s1 := fun n hn => ⟨hc1 ▸ hn, ho1 n⟩
      -- the read dependency is recorded, and all old edges are kept
      have hkey : (dst, Dep.read r c stamp) ∈ s1.store.g.outgoingEdges a ∧
          ∀ p ∈ s.store.g.outgoingEdges a, p ∈ s1.store.g.outgoingEdges a := by
        rcases halt with ⟨⟨d0, hd0⟩, heq'⟩ | ⟨_, heq'⟩
        · rw [heq']
          refine ⟨?_, fun p hp => hp⟩
          have hok := (hw.mem_outgoingEdges_ok hd0).2
          have hrd := hri _ d0 hd0
          cases d0 with
          | reserved => exact hrd.elim
          | write r' c' st0 => exact hrd.elim
          | require u' c' st0 =>
            have h1 : s1.store.taskOf dst = some u' := hle.task _ _ hok
            rw [Store.taskOf_eq_none_of_resOf hresof] at h1; cases h1
          | read r' c' st0 =>
            obtain ⟨hq, hst0⟩ := hrd
            have h1 : s1.store.resOf dst = some r' := hle.res _ _ hok
            rw [hresof] at h1; cases h1
            have hcc := hone.1 c' hq
            subst hcc
            rw [hstamp] at hst0; cases hst0
            exact hd0
        · rw [heq']
          exact ⟨by simp, fun p hp => List.mem_append.mpr (.inl hp)⟩
      have hri1 : RunInv sem fs qt ((r, c) :: qr) s1 a := by
        intro dst' d hd
        rcases halt with ⟨_, heq'⟩ | ⟨_, heq'⟩
        · rw [heq'] at hd
          exact (hri dst' d hd).mono' m1 (fun p hp => hp) (fun p hp => List.mem_cons_of_mem _ hp)
        · rw [heq'] at hd
          rcases List.mem_append.mp hd with hd | hd
          · exact (hri dst' d hd).mono' m1 (fun p hp => hp) (fun p hp => List.mem_cons_of_mem _ hp)
          · simp only [List.mem_singleton, Prod.mk.injEq] at hd
            obtain ⟨rfl, rfl⟩ := hd
            exact ⟨List.mem_cons_self .., hstamp⟩
      obtain ⟨c2, t2, m2, hnr2, hsub2, hrep2⟩ := ih.run s1 ch₀ a X _ qt ((r, c) :: qr) c1 t1
        hX (hnr1 hnr) (hk _) (hone.2 _) hri1 s' v heq
      refine ⟨c2, t2, m1.trans m2, hnr2, ?_,
        ⟨stamp, hsub2 _ (Store.mem_depsFrom_iff.mpr ⟨_, hkey.1⟩), aget s.fs r,
          by rw [hfsEq]; exact hstamp, hrep2⟩⟩
      intro d hd
      obtain ⟨dst', hdst'⟩ := Store.mem_depsFrom_iff.mp hd
      exact hsub2 d (Store.mem_depsFrom_iff.mpr ⟨dst', hkey.2 _ hdst'⟩)

end PieModel
