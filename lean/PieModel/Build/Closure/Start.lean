/-
Bottom-up closure: the state in which `buExecuteScheduled` is started by `bottomUpBuild` satisfies
(I1) and the whole invariant `CI` (empty stack, no exempt node).
-/
import PieModel.Build.Closure.Initial

namespace PieModel

variable {sem : Sem} {body : Nat → Prog}

/-- The session state after `create_bottom_up_build` and all `schedule_tasks_affected_by`, at the
start of `execute_scheduled`. -/
def buStart (sem : Sem) (p : PieSt) (changed : List Nat) : Sess :=
  ({ schedAll sem p.newSession changed with cur := none } : Sess).emit .buildStart

theorem bottomUpBuild_eq (sem : Sem) (body : Nat → Prog) (fuel : Nat) (p : PieSt)
    (changed : List Nat) :
    bottomUpBuild sem body fuel p.newSession changed =
      match buExecuteScheduled sem body fuel (buStart sem p changed) with
      | (s, .abort a) => (s, .abort a)
      | (s, .ok ()) => (s.emit .buildEnd, .ok ()) := rfl

/-- `schedAll_spec` for a new session. -/
theorem schedAll_newSession (sem : Sem) (p : PieSt) (changed : List Nat) (hw : p.store.WF) :
    SessWF (schedAll sem p.newSession changed) ∧
    ResExt p.store (schedAll sem p.newSession changed).store ∧
    (schedAll sem p.newSession changed).fs = p.fs ∧
    (schedAll sem p.newSession changed).consistent = [] ∧
    (schedAll sem p.newSession changed).queue.Nodup ∧
    (∀ t, countExec t (schedAll sem p.newSession changed).trace = 0) ∧
    (∀ n ∈ (schedAll sem p.newSession changed).queue, p.store.g.outgoingEdges n ≠ []) ∧
    (∀ r ∈ changed, ∀ n dst c stamp, ((dst, Dep.read r c stamp) ∈ p.store.g.outgoingEdges n ∨
        (dst, Dep.write r c stamp) ∈ p.store.g.outgoingEdges n) →
      sem.rcheck c (aget p.fs r) stamp ≠ .ok true →
      n ∈ (schedAll sem p.newSession changed).queue) := by
  have hwf0 : SessWF p.newSession := ⟨hw, fun _ h => (nomatch h), fun _ h => (nomatch h)⟩
  obtain ⟨b0, b1, b2, _, b4, b5, b6, _, b8, b9⟩ :=
    schedAll_spec (sem := sem) changed p.newSession hwf0 List.nodup_nil
  refine ⟨b0, b1, b2, b4, b5, fun t => (b6 t).trans rfl, fun n hn => ?_, b9⟩
  rcases b8 n hn with h | h
  · cases h
  · exact h

section
variable {p : PieSt} {changed : List Nat} (hw : p.store.WF) (hf : Faithful sem body p.store)
  (hn : p.store.NoReservedDone) (hno : NoOrphan p.store) (hsr : ShallowReq sem p.store)
  (hrep : Reported sem p.store p.fs changed)
include hw hn hsr hrep

/-- **(I1) after scheduling**: every task with output that is not shallow-consistent is queued. -/
theorem schedule_establishes_I1 (n : Nat)
    (ho : (schedAll sem p.newSession changed).store.taskOutput n ≠ none)
    (hsc : ¬ SC sem (schedAll sem p.newSession changed).store p.fs n) :
    n ∈ (schedAll sem p.newSession changed).queue := by
  obtain ⟨_, b1, _, _, _, _, _, b9⟩ := schedAll_newSession sem p changed hw
  apply Classical.byContradiction
  intro hnq
  apply hsc
  intro e he
  have he0 : e ∈ p.store.g.outgoingEdges n := by rw [← b1.edges]; exact he
  have ho0 : p.store.taskOutput n ≠ none := by rw [← b1.out]; exact ho
  obtain ⟨dst, d⟩ := e
  cases d with
  | reserved => exact absurd (Store.mem_depsFrom_iff.mpr ⟨dst, he0⟩) (hn n ho0)
  | require u c stamp =>
    obtain ⟨o, h1, h2⟩ := hsr n ho0 dst u c stamp he0
    exact ⟨o, by rw [b1.out]; exact h1, h2⟩
  | read r c stamp =>
    apply Classical.byContradiction
    intro hck
    exact hnq (b9 r (hrep n ho0 dst r c stamp (.inl he0) hck) n dst c stamp (.inl he0) hck)
  | write r c stamp =>
    apply Classical.byContradiction
    intro hck
    exact hnq (b9 r (hrep n ho0 dst r c stamp (.inr he0) hck) n dst c stamp (.inr he0) hck)

include hf hno

/-- The invariant holds at the start of `execute_scheduled`. -/
theorem ci_start : CI sem body p.fs (buStart sem p changed) [] [] ∧
    TI (buStart sem p changed) [] [] := by
  obtain ⟨b0, b1, b2, b4, b5, b6, b8, b9⟩ := schedAll_newSession sem p changed hw
  have hI1 := schedule_establishes_I1 (sem := sem) (p := p) (changed := changed) hw hn hsr hrep
  unfold buStart
  generalize schedAll sem p.newSession changed = S at b0 b1 b2 b4 b5 b6 b8 b9 hI1 ⊢
  have hnrd : S.store.NoReservedDone :=
    hn.transfer b1.out (fun n _ => (Store.outgoing_obs_congr (b1.edges n)).1)
  have hbf : BFrames (({ S with cur := none } : Sess).emit .buildStart) [] :=
    (BFrames.nil_iff.mpr ⟨⟨b0.clearCur.wf, hnrd, fun n hn' => by
      have : n ∈ S.consistent := hn'
      rw [b4] at this; cases this⟩, rfl⟩).emit _
  have hout : ∀ n ∈ S.queue, S.store.taskOutput n ≠ none := by
    intro n hq ho
    rw [b1.out] at ho
    exact b8 n hq (hno n ho)
  refine ⟨⟨hbf, b2, ?_, b5, hout, fun _ h => (nomatch h), ?_, ?_, ?_, fun _ h => (nomatch h)⟩,
    ⟨?_, ?_⟩⟩
  · intro n t v ht hv
    have ht' : S.store.taskOf n = some t := ht
    have hv' : S.store.taskOutput n = some v := hv
    rw [b1.out] at hv'
    obtain ⟨t0, ht0⟩ := Store.taskOf_of_output hv'
    have := b1.le.task _ _ ht0
    rw [ht'] at this; cases this
    show Replay sem (body t) (S.store.depsFrom n) v ∧ Dep.reserved ∉ S.store.depsFrom n
    rw [(Store.outgoing_obs_congr (b1.edges n)).1]
    exact hf n t v ht0 hv'
  · intro n ho _
    have ho' : S.store.taskOutput n = none := ho
    show S.store.g.outgoingEdges n = []
    rw [b1.edges]; rw [b1.out] at ho'; exact hno n ho'
  · intro n ho _ hq
    apply Classical.byContradiction
    intro hsc
    exact hq (hI1 n ho (fun h => hsc (h.scx [])))
  · intro n hc
    have : n ∈ S.consistent := hc
    rw [b4] at this; cases this
  · intro t
    show countExec t (S.trace ++ [Ev.buildStart]) ≤ 1
    rw [countExec_append, b6 t]; simp [countExec, Ev.isExecStart]
  · intro t ht
    have : countExec t (S.trace ++ [Ev.buildStart]) = 0 := by
      rw [countExec_append, b6 t]; simp [countExec, Ev.isExecStart]
    have ht' : 1 ≤ countExec t (S.trace ++ [Ev.buildStart]) := ht
    omega

end
end PieModel
