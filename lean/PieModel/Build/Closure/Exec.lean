/-
Bottom-up closure: the successor steps of `buExec` and `buExecAndSchedule`.
-/
import PieModel.Build.Closure.Induct

namespace PieModel

variable {sem : Sem} {body : Nat → Prog} {fs : List (Nat × Int)}

/-- Start of the execution of task `t` (node `node`), which was not executed before. -/
theorem TI.push {s : Sess} {ch : List Nat} {node t : Nat} (hti : TI s ch []) (hw : s.store.WF)
    (ht : s.store.taskOf node = some t) (hncons : node ∉ s.consistent) (hnch : node ∉ ch) :
    TI (({ s with store := s.store.resetTask node, cur := some node } : Sess).emit
      (.executeStart t)) (ch ++ [node]) [] := by
  have h0 : countExec t s.trace = 0 := by
    cases hc : countExec t s.trace with
    | zero => rfl
    | succ k =>
      obtain ⟨n, hn, hm⟩ := hti.exd t (by rw [hc]; omega)
      have := hw.taskOf_inj hn ht
      subst this
      rcases hm with hm | hm | hm
      · exact absurd hm hncons
      · exact absurd hm hnch
      · cases hm
  have hcount : ∀ t', countExec t'
      (({ s with store := s.store.resetTask node, cur := some node } : Sess).emit
        (.executeStart t)).trace = countExec t' s.trace + if t' = t then 1 else 0 := by
    intro t'
    rw [countExec_emit]
    simp only [Ev.isExecStart]
    by_cases htt : t' = t
    · subst htt; simp
    · have : (t == t') = false := by simpa using fun h => htt h.symm
      simp [this, htt]
  refine ⟨fun t' => ?_, fun t' ht' => ?_⟩
  · rw [hcount]
    by_cases htt : t' = t
    · subst htt; rw [h0]; simp
    · rw [if_neg htt]; exact hti.once t'
  · by_cases htt : t' = t
    · subst htt
      have hto : (s.store.resetTask node).taskOf node = some t' := by
        rw [Store.taskOf_resetTask hw]; exact ht
      exact ⟨node, hto, .inr (.inl (by simp))⟩
    · rw [hcount, if_neg htt] at ht'
      obtain ⟨n, hn, hm⟩ := hti.exd t' ht'
      have hto : (s.store.resetTask node).taskOf n = some t' := by
        rw [Store.taskOf_resetTask hw]; exact hn
      refine ⟨n, hto, ?_⟩
      rcases hm with hm | hm | hm
      · exact .inl hm
      · exact .inr (.inl (List.mem_append_left _ hm))
      · cases hm

theorem BuClos.exec_succ (hwfb : WriteFreeBody body) (hone : ∀ t, OneChecker (body t)) {f : Nat}
    (ih : BuClos sem body fs f) (s : Sess) (ch X : List Nat) (t node : Nat)
    (h : CI sem body fs s ch X) (hti : TI s ch []) (hX : ∀ x ∈ X, x ∈ ch ∨ x = node)
    (ht : s.store.taskOf node = some t) (hr : ∀ x ∈ ch, s.store.g.Reach x node)
    (hx : node ∈ X ∨ s.store.taskOutput node = none)
    (s' : Sess) (v : Int) (heq : buExec sem body (f + 1) s t node = (s', .ok v)) :
    CI sem body fs s' ch X ∧ TI s' ch [node] ∧ Mono s s' ∧
      s'.store.taskOutput node = some v ∧ Fresh sem fs s' node ∧ node ∉ s'.queue := by
  have hw := h.sw
  obtain ⟨c1, hncons, hnch, hnq⟩ := h.push ht hr hx (.executeStart t)
  have t1 := hti.push hw ht hncons hnch
  have hnr1 : Dep.reserved ∉ (({ s with store := s.store.resetTask node, cur := some node } :
      Sess).emit (.executeStart t)).store.depsFrom node := by
    show Dep.reserved ∉ (s.store.resetTask node).depsFrom node
    rw [Store.depsFrom_resetTask hw, if_pos rfl]; simp
  have hri1 : RunInv sem fs [] []
      (({ s with store := s.store.resetTask node, cur := some node } : Sess).emit
        (.executeStart t)) node := by
    intro dst d hd
    have hd' : (dst, d) ∈ (s.store.resetTask node).g.outgoingEdges node := hd
    rw [Store.outgoingEdges_resetTask hw, if_pos rfl] at hd'
    cases hd'
  have hX1 : ∀ x ∈ X, x ∈ ch ++ [node] := by
    intro x hx'
    rcases hX x hx' with h' | h'
    · exact List.mem_append_left _ h'
    · simp [h']
  unfold buExec at heq
  simp only [] at heq
  split at heq
  next s3 k heq3 => cases heq
  next s3 o heq3 =>
    obtain ⟨c3, t3, m3, hnr3, _, hrep3⟩ := ih.run _ ch node X (body t) [] [] c1 t1 hX1 hnr1
      (hwfb t) (hone t) hri1 s3 o heq3
    cases heq
    have e3 := (buRun_ext sem body f c1.wf _).out heq3
    have ht3 : s3.store.taskOf node = some t := e3.le.task _ _ (by
      show (s.store.resetTask node).taskOf node = some t
      rw [Store.taskOf_resetTask hw]; exact ht)
    obtain ⟨c4, ho4, hf4, hnq4, _⟩ := c3.finish (s' := { ({ (s3.emit (.executeEnd t v)) with
      cur := s.cur } : Sess) with store := s3.store.setTaskOutput node v }) ht3 hrep3 hnr3 rfl
      h.bf.cur_eq rfl rfl rfl
    refine ⟨c4, ?_, ?_, ho4, hf4, hnq4⟩
    · refine t3.transfer (fun t' => countExec_emit_of_not t' s3 _ rfl)
        (Store.le_setTaskOutput _ node v) ?_
      rintro n (hn | hn | hn)
      · exact .inl hn
      · rcases List.mem_append.mp hn with hn | hn
        · exact .inr (.inl hn)
        · exact .inr (.inr hn)
      · cases hn
    · intro n hn
      have hne : n ≠ node := fun hnn => hncons (hnn ▸ hn)
      have h1 : (({ s with store := s.store.resetTask node, cur := some node } : Sess).emit
          (.executeStart t)).store.taskOutput n = s.store.taskOutput n := by
        show (s.store.resetTask node).taskOutput n = _
        rw [Store.taskOutput_resetTask hw, if_neg hne]
      obtain ⟨h3a, h3b⟩ := m3 n hn
      refine ⟨h3a, ?_⟩
      show (s3.store.setTaskOutput node v).taskOutput n = _
      rw [Store.taskOutput_setTaskOutput_of_ne hne, h3b, h1]

theorem BuClos.execAndSchedule_succ {f : Nat} (ih : BuClos sem body fs f) (s : Sess)
    (ch X : List Nat) (node : Nat) (h : CI sem body fs s ch (node :: X)) (hti : TI s ch [])
    (hX : ∀ x ∈ X, x ∈ ch) (hnX : node ∉ X) (hr : ∀ x ∈ ch, s.store.g.Reach x node)
    (s' : Sess) (v : Int) (heq : buExecAndSchedule sem body (f + 1) s node = (s', .ok v)) :
    CI sem body fs s' ch X ∧ TI s' ch [] ∧ Mono s s' ∧
      s'.store.taskOutput node = some v ∧ node ∈ s'.consistent := by
  unfold buExecAndSchedule at heq
  split at heq
  · cases heq
  next t ht =>
    split at heq
    next s2 k heq2 => cases heq
    next s2 o heq2 =>
      cases heq
      have hX' : ∀ x ∈ node :: X, x ∈ ch ∨ x = node := by
        intro x hx
        rcases List.mem_cons.mp hx with hx | hx
        · exact .inr hx
        · exact .inl (hX x hx)
      obtain ⟨c2, t2, m2, ho2, hf2, _⟩ := ih.exec s ch (node :: X) t node h hti hX' ht hr
        (.inl (List.mem_cons_self ..)) s2 v heq2
      have e2 := (buExec_ext sem body f h.wf t ⟨t, ht⟩).out heq2
      have ht2 := e2.le.task _ _ ht
      obtain ⟨c3, hc3⟩ := c2.scheduleAfterExec hX hnX ht2 ho2 hf2
      have hst3 := store_scheduleAfterExec sem s2 node t v
      obtain ⟨s₃, hcore, he3⟩ := scheduleAfterExec_core sem s2 node t v
      have hsub : ∀ n ∈ s2.consistent, n ∈ (scheduleAfterExec sem s2 node t v).consistent := by
        intro n hn
        rw [he3]
        exact (Sess.mem_markConsistent _ _ _).mpr (.inl (hcore.2.2 ▸ hn))
      refine ⟨c3, ?_, ?_, by rw [hst3]; exact ho2, hc3⟩
      · refine t2.transfer
          (countExec_of_quiet (fun tn => quiet_scheduleAfterExec sem tn s2 node t v))
          (by rw [hst3]; exact Store.Le.refl _) ?_
        rintro n (hn | hn | hn)
        · exact .inl (hsub n hn)
        · exact .inr (.inl hn)
        · simp only [List.mem_singleton] at hn
          subst hn; exact .inl hc3
      · intro n hn
        obtain ⟨h2a, h2b⟩ := m2 n hn
        exact ⟨hsub n h2a, by rw [hst3]; exact h2b⟩

end PieModel
