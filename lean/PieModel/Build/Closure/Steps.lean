/-
Bottom-up closure: the invariant `CI` across the start and the end of an execution, and across
the scheduling of the requirers of an executed task.
-/
import PieModel.Build.Closure.Inv

namespace PieModel

variable {sem : Sem} {body : Nat → Prog} {fs : List (Nat × Int)}

theorem Dag.Reach.first_step {N E : Type} {g : Dag N E} {a b : Nat} (h : g.Reach a b) :
    ∃ w, g.HasEdge a w ∧ (w = b ∨ g.Reach w b) := by
  cases h with
  | edge he => exact ⟨_, he, .inl rfl⟩
  | step he hr => exact ⟨_, he, .inr hr⟩

/-- A task whose edges are all finished ones, which has an output and is not busy, is clean,
provided the consistent tasks are. -/
theorem clean_of_fresh {s : Sess} {B : List Nat} {node t : Nat} (hw : s.store.WF)
    (hf : Fresh sem fs s node) (ht : s.store.taskOf node = some t)
    (ho : s.store.taskOutput node ≠ none) (hb : node ∉ B)
    (hc : ∀ w ∈ s.consistent, Clean sem s.store fs B w) : Clean sem s.store fs B node := by
  have hsc : SC sem s.store fs node := by
    intro p hp
    obtain ⟨h1, h2⟩ := hf p hp
    obtain ⟨dst, d⟩ := p
    cases d with
    | reserved => exact absurd rfl h2
    | require u c stamp => exact h1.2
    | read r c stamp => exact h1
    | write r c stamp => exact h1.elim
  refine ⟨⟨t, ht⟩, ?_⟩
  rintro v (rfl | hv) htv
  · exact ⟨ho, hsc, hb⟩
  · obtain ⟨w, hew, hwv⟩ := hv.first_step
    obtain ⟨d, hd⟩ := (Store.hasEdge_iff_mem_oe hw _ _).mp hew
    obtain ⟨h1, h2⟩ := hf _ hd
    have hok := (hw.mem_outgoingEdges_ok hd).2
    cases d with
    | reserved => exact absurd rfl h2
    | write r c stamp => exact h1.elim
    | read r c stamp =>
      have hres : s.store.resOf w = some r := hok
      rcases hwv with rfl | hwv
      · obtain ⟨tv, htv⟩ := htv
        rw [Store.taskOf_eq_none_of_resOf hres] at htv; cases htv
      · exact absurd hwv (hw.not_reach_from_res hres v)
    | require u c stamp =>
      have hcw := hc w h1.1
      refine hcw.2 v ?_ htv
      rcases hwv with rfl | hwv
      · exact .inl rfl
      · exact .inr hwv

namespace CI
variable {s s' : Sess} {ch X : List Nat}

/-- **Start of an execution** of `node` (exempt, or without output). -/
theorem push (h : CI sem body fs s ch X) {node t : Nat} (ht : s.store.taskOf node = some t)
    (hr : ∀ x ∈ ch, s.store.g.Reach x node)
    (hx : node ∈ X ∨ s.store.taskOutput node = none) (e : Ev) :
    CI sem body fs (({ s with store := s.store.resetTask node, cur := some node } : Sess).emit e)
      (ch ++ [node]) X ∧ node ∉ s.consistent ∧ node ∉ ch ∧ node ∉ s.queue := by
  have hw := h.sw
  have hnch : node ∉ ch := h.bf.core.not_mem_of_reach hr
  have hbusy : s.store.taskOutput node = none ∨ node ∈ s.queue ++ X := by
    rcases hx with hx | hx
    · exact .inr (List.mem_append.mpr (.inr hx))
    · exact .inl hx
  have hncone : ∀ u ∈ s.consistent, ¬ InCone s.store u node :=
    fun u hu => (h.i2 u hu).not_inCone hbusy ⟨t, ht⟩
  have hncons : node ∉ s.consistent := fun hc => hncone node hc (.inl rfl)
  have hnq : node ∉ s.queue := by
    rcases hx with hx | hx
    · exact h.xq node hx
    · exact fun hq => h.qout node hq hx
  refine ⟨?_, hncons, hnch, hnq⟩
  have hbf := h.bf.pushExec ht hr e
  have hout : ∀ n, n ≠ node → (s.store.resetTask node).taskOutput n = s.store.taskOutput n :=
    fun n hn => by rw [Store.taskOutput_resetTask hw, if_neg hn]
  have hedge : ∀ n, n ≠ node → (s.store.resetTask node).g.outgoingEdges n = s.store.g.outgoingEdges n :=
    fun n hn => by rw [Store.outgoingEdges_resetTask hw, if_neg hn]
  have hne_of_out : ∀ n, (s.store.resetTask node).taskOutput n ≠ none → n ≠ node := by
    intro n hn hnn
    rw [hnn, Store.taskOutput_resetTask hw, if_pos rfl] at hn; exact hn rfl
  refine ⟨hbf, h.fsEq, ?_, h.qnd, ?_, h.xq, ?_, ?_, ?_, ?_⟩
  · intro n t' v ht' hv
    have hv' : (s.store.resetTask node).taskOutput n = some v := hv
    have ht'' : (s.store.resetTask node).taskOf n = some t' := ht'
    have hne := hne_of_out n (by rw [hv']; simp)
    rw [hout n hne] at hv'
    rw [Store.taskOf_resetTask hw] at ht''
    show Replay sem (body t') ((s.store.resetTask node).depsFrom n) v ∧
      Dep.reserved ∉ (s.store.resetTask node).depsFrom n
    rw [Store.depsFrom_resetTask hw, if_neg hne]
    exact h.faithful n t' v ht'' hv'
  · intro n hn
    show (s.store.resetTask node).taskOutput n ≠ none
    rw [hout n (fun hnn => hnq (hnn ▸ hn))]; exact h.qout n hn
  · intro n hn hc
    have hn' : (s.store.resetTask node).taskOutput n = none := hn
    have hne : n ≠ node := fun hnn => hc (by simp [hnn])
    show (s.store.resetTask node).g.outgoingEdges n = []
    rw [hedge n hne]
    rw [hout n hne] at hn'
    exact h.orphan n hn' (fun hh => hc (List.mem_append_left _ hh))
  · intro n hn hnx hnq'
    have hn' : (s.store.resetTask node).taskOutput n ≠ none := hn
    have hne := hne_of_out n hn'
    rw [hout n hne] at hn'
    refine (h.i1 n hn' hnx hnq').transfer (hedge n hne) ?_ (fun _ hx => hx)
    intro p _ hpo hpx
    refine hout p.1 ?_
    rintro hpn
    rw [hpn] at hpo hpx
    rcases hx with hx | hx
    · exact hpx hx
    · exact hpo hx
  · intro u hu
    refine (h.i2 u hu).transfer hw hbf.wf.store (Store.le_resetTask hw node) ?_ (fun v _ hv => hv)
    intro v hv _
    have hne : v ≠ node := fun hvn => hncone u hu (hvn ▸ hv)
    exact ⟨hedge v hne, hout v hne⟩
  · intro a ha p hp
    rcases List.mem_append.mp ha with ha | ha
    · have hne : a ≠ node := fun hh => hnch (hh ▸ ha)
      have hp' : p ∈ s.store.g.outgoingEdges a := by rw [← hedge a hne]; exact hp
      refine (h.i3 a ha p hp').mono (fun n hn => hn) ?_
      intro hc
      exact hout p.1 (fun hh => hncons (hh ▸ hc))
    · simp at ha; subst ha
      have hp' : p ∈ (s.store.resetTask a).g.outgoingEdges a := hp
      rw [Store.outgoingEdges_resetTask hw, if_pos rfl] at hp'
      cases hp'

/-- **End of an execution** of `node`. -/
theorem finish {node t : Nat} {o : Int} (h : CI sem body fs s (ch ++ [node]) X)
    (ht : s.store.taskOf node = some t) (hrep : Replay sem (body t) (s.store.depsFrom node) o)
    (hnr : Dep.reserved ∉ s.store.depsFrom node)
    (h1 : s'.store = s.store.setTaskOutput node o) (h2 : s'.cur = ch.getLast?)
    (h3 : s'.consistent = s.consistent) (h4 : s'.queue = s.queue) (h5 : s'.fs = s.fs) :
    CI sem body fs s' ch X ∧ s'.store.taskOutput node = some o ∧ Fresh sem fs s' node ∧
      node ∉ s'.queue ∧ node ∉ ch := by
  have hw := h.sw
  have hmem : node ∈ ch ++ [node] := by simp
  have hno : s.store.taskOutput node = none := h.bf.noOut node hmem
  obtain ⟨hbf, hout⟩ := h.bf.popExec hnr o ht h1 h2 h3 h4
  have hnch : node ∉ ch := by
    have := h.bf.core.nodup
    rw [List.nodup_append] at this
    intro hn; exact this.2.2 node hn node (by simp) rfl
  have hoe : ∀ n, s'.store.g.outgoingEdges n = s.store.g.outgoingEdges n := fun n => by rw [h1]; simp
  have hto : ∀ n, n ≠ node → s'.store.taskOutput n = s.store.taskOutput n :=
    fun n hn => by rw [h1, Store.taskOutput_setTaskOutput_of_ne hn]
  have hne_of_out : ∀ n, s.store.taskOutput n ≠ none → n ≠ node :=
    fun n hn hnn => hn (hnn ▸ hno)
  have hnq : node ∉ s.queue := h.stack_not_queued hmem
  -- the edges of `node` are finished ones
  have hfresh : Fresh sem fs s' node := by
    intro p hp
    rw [hoe] at hp
    have hd := h.i3 node hmem p hp
    refine ⟨hd.mono (fun n hn => h3 ▸ hn) ?_, ?_⟩
    · intro hc
      exact hto p.1 (hne_of_out p.1 (h.i2 p.1 hc).out)
    · intro hres
      exact hnr (Store.mem_depsFrom_iff.mpr ⟨p.1, by rw [← hres]; exact hp⟩)
  refine ⟨⟨hbf, h5.trans h.fsEq, ?_, h4 ▸ h.qnd, ?_, ?_, ?_, ?_, ?_, ?_⟩, hout, hfresh,
    h4 ▸ hnq, hnch⟩
  · intro n t' v ht' hv
    have hdn : s'.store.depsFrom n = s.store.depsFrom n := (Store.outgoing_obs_congr (hoe n)).1
    rw [hdn]
    have ht'' : s.store.taskOf n = some t' := by rw [h1] at ht'; simpa using ht'
    by_cases hn : n = node
    · subst hn
      rw [ht] at ht''; cases ht''
      rw [hout] at hv; cases hv
      exact ⟨hrep, hnr⟩
    · rw [hto n hn] at hv
      exact h.faithful n t' v ht'' hv
  · intro n hn
    rw [h4] at hn
    have := h.qout n hn
    rw [hto n (hne_of_out n this)]; exact this
  · intro x hx; rw [h4]; exact h.xq x hx
  · intro n hn hc
    have hne : n ≠ node := fun hnn => by rw [hnn, hout] at hn; cases hn
    rw [hoe]
    rw [hto n hne] at hn
    refine h.orphan n hn ?_
    intro hh
    rcases List.mem_append.mp hh with hh | hh
    · exact hc hh
    · simp at hh; exact hne hh
  · intro n hn hnx hnq'
    rw [h4] at hnq'
    by_cases hnn : n = node
    · subst hnn
      intro p hp
      obtain ⟨hd, hres⟩ := hfresh p hp
      left
      obtain ⟨dst, d⟩ := p
      cases d with
      | reserved => exact absurd rfl hres
      | require u c stamp => exact hd.2
      | read r c stamp => exact hd
      | write r c stamp => exact hd.elim
    · rw [hto n hnn] at hn
      refine (h.i1 n hn hnx hnq').transfer (hoe n) ?_ (fun _ hx => hx)
      intro p _ hpo _
      exact hto p.1 (hne_of_out p.1 hpo)
  · intro u hu
    rw [h3] at hu
    refine (h.i2 u hu).transfer hw hbf.wf.store (h1 ▸ Store.le_setTaskOutput _ node o) ?_ ?_
    · intro v _ hv
      exact ⟨hoe v, hto v (hne_of_out v hv)⟩
    · intro v _ hv; rw [h4] at hv; exact hv
  · intro a ha p hp
    rw [hoe] at hp
    refine (h.i3 a (List.mem_append_left _ ha) p hp).mono (fun n hn => h3 ▸ hn) ?_
    intro hc
    exact hto p.1 (hne_of_out p.1 (h.i2 p.1 hc).out)

/-- **Scheduling the requirers** of the executed task `node` (output `o`) and marking it
consistent: `s₃` is the state after the two scheduling loops. -/
theorem sched {s₃ : Sess} {node t : Nat} {o : Int} (h : CI sem body fs s ch (node :: X))
    (hX : ∀ x ∈ X, x ∈ ch) (hnX : node ∉ X)
    (ht : s.store.taskOf node = some t) (ho : s.store.taskOutput node = some o)
    (hfresh : Fresh sem fs s node) (hcore : SameCore s s₃) (hfs : s₃.fs = s.fs) (hw3 : SessWF s₃)
    (hqa : ∀ p ∈ s.queue, p ∈ s₃.queue) (hnd : s₃.queue.Nodup)
    (hqb : ∀ p ∈ s₃.queue, p ∈ s.queue ∨
      ∃ u c stamp, (node, Dep.require u c stamp) ∈ s.store.g.outgoingEdges p)
    (hqc : ∀ p u c stamp, (node, Dep.require u c stamp) ∈ s.store.g.outgoingEdges p →
      sem.ocheck c o stamp = false → p ∈ s₃.queue) :
    CI sem body fs (s₃.markConsistent node) ch X := by
  have hw := h.sw
  obtain ⟨hst, hcur, hcons⟩ := hcore
  have hnode_busy : node ∈ s.queue ++ node :: X := by simp
  have hnq : node ∉ s.queue := h.xq node (List.mem_cons_self ..)
  have hnch : node ∉ ch := fun hc => by
    have := h.bf.noOut node hc; rw [ho] at this; cases this
  have hncons : node ∉ s.consistent := fun hc => (h.i2 node hc).not_mem hnode_busy
  -- the newly queued requirers have an output
  have hnew : ∀ p u c stamp, (node, Dep.require u c stamp) ∈ s.store.g.outgoingEdges p →
      s.store.taskOutput p ≠ none ∧ p ≠ node := by
    intro p u c stamp hp
    have hne : p ≠ node := by
      rintro rfl
      exact hw.inv.acyclic p (Store.reach_of_mem_outgoingEdges hw hp)
    refine ⟨fun hpo => ?_, hne⟩
    have hpch : p ∈ ch := by
      by_cases hc : p ∈ ch
      · exact hc
      · rw [h.orphan p hpo hc] at hp; cases hp
    exact hncons (h.i3 p hpch _ hp).1
  have hqout3 : ∀ n ∈ s₃.queue, s.store.taskOutput n ≠ none := by
    intro n hn
    rcases hqb n hn with hn | ⟨u, c, stamp, hp⟩
    · exact h.qout n hn
    · exact (hnew n u c stamp hp).1
  have hnq3 : node ∉ s₃.queue := by
    intro hn
    rcases hqb node hn with hn | ⟨u, c, stamp, hp⟩
    · exact hnq hn
    · exact (hnew node u c stamp hp).2 rfl
  have hbf3 : BFrames s₃ ch := h.bf.of_same hw3 hst hcur hcons
  -- the old consistent tasks stay clean
  have hold : ∀ u ∈ s.consistent, Clean sem s.store fs (s₃.queue ++ X) u := by
    intro u hu
    refine (h.i2 u hu).transfer hw hw (Store.Le.refl _) (fun v _ _ => ⟨rfl, rfl⟩) ?_
    intro v hv hm
    rcases List.mem_append.mp hm with hm | hm
    · rcases hqb v hm with hm | ⟨u', c, stamp, hp⟩
      · exact List.mem_append.mpr (.inl hm)
      · have : InCone s.store u node :=
          hv.tail ((Store.hasEdge_iff_mem_oe hw _ _).mpr ⟨_, hp⟩)
        exact absurd this ((h.i2 u hu).not_inCone (.inr hnode_busy) ⟨t, ht⟩)
    · exact List.mem_append.mpr (.inr (List.mem_cons_of_mem _ hm))
  have hclean : Clean sem s.store fs (s₃.queue ++ X) node :=
    clean_of_fresh hw hfresh ht (by rw [ho]; simp)
      (fun hm => (List.mem_append.mp hm).elim hnq3 hnX) hold
  have hmark := hbf3.markConsistent (n := node) (by rw [hst, ho]; simp)
  refine ⟨hmark, by simpa using hfs.trans h.fsEq, by simpa [hst] using h.faithful,
    by simpa using hnd, ?_, ?_, ?_, ?_, ?_, ?_⟩
  · intro n hn
    simp only [Sess.queue_markConsistent] at hn
    simp only [Sess.store_markConsistent, hst]
    exact hqout3 n hn
  · intro x hx hq
    simp only [Sess.queue_markConsistent] at hq
    exact hqout3 x hq (h.bf.noOut x (hX x hx))
  · intro n hn hc
    simp only [Sess.store_markConsistent, hst] at hn ⊢
    exact h.orphan n hn hc
  · intro n hn hnx hnq'
    simp only [Sess.store_markConsistent, Sess.queue_markConsistent, hst] at hn hnq' ⊢
    by_cases hnn : n = node
    · subst hnn
      exact (hclean.2 n (.inl rfl) ⟨t, ht⟩).2.1.scx X
    · have hx' : n ∉ node :: X := by
        intro hh
        rcases List.mem_cons.mp hh with hh | hh
        · exact hnn hh
        · exact hnx hh
      have hscx := h.i1 n hn hx' (fun hq => hnq' (hqa n hq))
      intro p hp
      rcases hscx p hp with hacc | ⟨hreq, hpx⟩
      · exact .inl hacc
      · rcases List.mem_cons.mp hpx with hpn | hpx
        · left
          obtain ⟨dst, d⟩ := p
          simp only at hpn; subst hpn
          cases d with
          | require u c stamp =>
            cases hck : sem.ocheck c o stamp with
            | true => exact ⟨o, ho, hck⟩
            | false => exact absurd (hqc n u c stamp hp hck) hnq'
          | reserved => cases hreq
          | read r c stamp => cases hreq
          | write r c stamp => cases hreq
        · exact .inr ⟨hreq, hpx⟩
  · intro u hu
    simp only [Sess.store_markConsistent, Sess.queue_markConsistent, hst]
    rcases (Sess.mem_markConsistent s₃ node u).mp hu with hu | rfl
    · exact hold u (hcons ▸ hu)
    · exact hclean
  · intro a ha p hp
    simp only [Sess.store_markConsistent, hst] at hp
    refine (h.i3 a ha p hp).mono ?_ ?_
    · intro n hn
      exact (Sess.mem_markConsistent s₃ node n).mpr (.inl (hcons ▸ hn))
    · intro _; simp [hst]

end CI
end PieModel
