/-
Bottom-up closure: executable (Boolean) versions of the hypotheses `ShallowReq`, `Reported`,
`NoOrphan` on a concrete store, with their soundness; used by the non-vacuity examples.
-/
import PieModel.Build.Closure.Defs

namespace PieModel

variable (sem : Sem)

/-- The live nodes of the store. -/
def liveNodes (st : Store) : List Nat := akeys st.g.nodes

theorem not_live_facts {st : Store} {n : Nat} (h : n ∉ liveNodes st) :
    st.taskOutput n = none ∧ st.g.outgoingEdges n = [] := by
  have hl : st.g.containsNode n = false := by
    cases hc : st.g.containsNode n with
    | false => rfl
    | true => exact absurd ((Dag.containsNode_iff st.g n).mp hc) (by rw [Dag.ids_eq_akeys]; exact h)
  refine ⟨Store.taskOutput_of_not_live hl, ?_⟩
  simp [Dag.outgoingEdges, Dag.childrenOf_of_not_live st.g hl]

def shallowReqB (st : Store) : Bool :=
  (liveNodes st).all fun n => (st.taskOutput n).isNone ||
    (st.g.outgoingEdges n).all fun p => match p.2 with
      | .require _ c stamp =>
        (match st.taskOutput p.1 with | some o => sem.ocheck c o stamp | none => false)
      | _ => true

def rcheckOkB (c : Nat) (v : Option Int) (stamp : Stamp) : Bool :=
  match sem.rcheck c v stamp with | .ok true => true | _ => false

theorem rcheckOkB_eq_true {c : Nat} {v : Option Int} {stamp : Stamp} :
    rcheckOkB sem c v stamp = true ↔ sem.rcheck c v stamp = .ok true := by
  unfold rcheckOkB
  split
  · simp_all
  · rename_i h
    constructor
    · intro hh; cases hh
    · intro hh; exact absurd hh (h)

def reportedB (st : Store) (fs : List (Nat × Int)) (changed : List Nat) : Bool :=
  (liveNodes st).all fun n => (st.taskOutput n).isNone ||
    (st.g.outgoingEdges n).all fun p => match p.2 with
      | .read r c stamp => rcheckOkB sem c (aget fs r) stamp || changed.contains r
      | .write r c stamp => rcheckOkB sem c (aget fs r) stamp || changed.contains r
      | _ => true

def noOrphanB (st : Store) : Bool :=
  (liveNodes st).all fun n => (st.taskOutput n).isSome || (st.g.outgoingEdges n).isEmpty

variable {sem}

theorem shallowReq_of_B {st : Store} (h : shallowReqB sem st = true) : ShallowReq sem st := by
  intro n hn dst u c stamp hp
  by_cases hl : n ∈ liveNodes st
  · have h1 := List.all_eq_true.mp h n hl
    rw [Bool.or_eq_true] at h1
    rcases h1 with h1 | h1
    · rw [Option.isNone_iff_eq_none] at h1; exact absurd h1 hn
    · have h2 := List.all_eq_true.mp h1 _ hp
      simp only at h2
      cases ho : st.taskOutput dst with
      | none => rw [ho] at h2; cases h2
      | some o => rw [ho] at h2; exact ⟨o, rfl, h2⟩
  · exact absurd (not_live_facts hl).1 hn

theorem reported_of_B {st : Store} {fs : List (Nat × Int)} {changed : List Nat}
    (h : reportedB sem st fs changed = true) : Reported sem st fs changed := by
  intro n hn dst r c stamp hp hck
  by_cases hl : n ∈ liveNodes st
  · have h1 := List.all_eq_true.mp h n hl
    rw [Bool.or_eq_true] at h1
    rcases h1 with h1 | h1
    · rw [Option.isNone_iff_eq_none] at h1; exact absurd h1 hn
    · have key : rcheckOkB sem c (aget fs r) stamp = true ∨ changed.contains r = true := by
        rcases hp with hp | hp
        · have h2 := List.all_eq_true.mp h1 _ hp
          simpa using h2
        · have h2 := List.all_eq_true.mp h1 _ hp
          simpa using h2
      rcases key with key | key
      · exact absurd ((rcheckOkB_eq_true sem).mp key) hck
      · simpa using key
  · exact absurd (not_live_facts hl).1 hn

theorem noOrphan_of_B {st : Store} (h : noOrphanB st = true) : NoOrphan st := by
  intro n hn
  by_cases hl : n ∈ liveNodes st
  · have h1 := List.all_eq_true.mp h n hl
    rw [Bool.or_eq_true] at h1
    rcases h1 with h1 | h1
    · rw [hn] at h1; cases h1
    · exact List.isEmpty_iff.mp h1
  · exact (not_live_facts hl).2

/-- Conversely, a violated Boolean check refutes `ShallowReq`. -/
theorem not_shallowReq_of_B {st : Store} (h : shallowReqB sem st = false) : ¬ ShallowReq sem st := by
  intro hs
  have : shallowReqB sem st = true := by
    unfold shallowReqB
    rw [List.all_eq_true]
    intro n _
    rw [Bool.or_eq_true]
    cases hn : st.taskOutput n with
    | none => left; rfl
    | some o0 =>
      right
      rw [List.all_eq_true]
      intro p hp
      obtain ⟨dst, d⟩ := p
      cases d with
      | require u c stamp =>
        obtain ⟨o, h1, h2⟩ := hs n (by rw [hn]; simp) dst u c stamp hp
        simp only [h1]; exact h2
      | reserved => rfl
      | read r c stamp => rfl
      | write r c stamp => rfl
  rw [h] at this; cases this

end PieModel
