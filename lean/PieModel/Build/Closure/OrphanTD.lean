/-
`NoOrphan` (no node without output has recorded dependencies) is preserved by every RETURNING
top-down `require` — for arbitrary task programs — so that it holds of every `Pie` on which no
session ever aborted.  (It is preserved by returning bottom-up builds, too: `Closed.orphan`.)

Joint induction over the five top-down functions: when a call returns, every orphan of the new
state is the executing task of the call or was an orphan before.
-/
import PieModel.Build.Closure.Check
import PieModel.Build.Sound.Prims

namespace PieModel

/-- `n` has no output but recorded dependencies. -/
def Orphan (st : Store) (n : Nat) : Prop := st.taskOutput n = none ∧ st.g.outgoingEdges n ≠ []

theorem noOrphan_iff (st : Store) : NoOrphan st ↔ ∀ n, ¬ Orphan st n :=
  ⟨fun h n hn => hn.2 (h n hn.1), fun h n hn => Classical.byContradiction fun he => h n ⟨hn, he⟩⟩

theorem NoOrphan.empty : NoOrphan ({} : Store) := fun n _ => (not_live_facts (st := {}) (n := n)
  (by simp [liveNodes, akeys])).2

/-- Every orphan of `s'` is the executing task of `s` or an orphan of `s`. -/
def OSub (s s' : Sess) : Prop := ∀ n, Orphan s'.store n → s.cur = some n ∨ Orphan s.store n

namespace OSub
variable {s s' s'' : Sess}

theorem refl (s : Sess) : OSub s s := fun _ h => .inr h

theorem trans (h₁ : OSub s s') (h₂ : OSub s' s'') (hc : s'.cur = s.cur) : OSub s s'' := by
  intro n hn
  rcases h₂ n hn with h | h
  · exact .inl (hc ▸ h)
  · exact h₁ n h

theorem of_store (h : s'.store = s.store) : OSub s s' := fun _ hn => .inr (h ▸ hn)

/-- Only the edges of the executing task change. -/
theorem edit (ho : ∀ n, s'.store.taskOutput n = s.store.taskOutput n)
    (he : ∀ n, s.cur ≠ some n → s'.store.g.outgoingEdges n = s.store.g.outgoingEdges n) :
    OSub s s' := by
  intro n hn
  by_cases hc : s.cur = some n
  · exact .inl hc
  · exact .inr ⟨by rw [← ho]; exact hn.1, by rw [← he n hc]; exact hn.2⟩

end OSub

variable (sem : Sem) (body : Nat → Prog)

/-! ### the primitives -/

theorem osub_getTask {s : Sess} (hw : s.store.WF) (t : Nat) :
    OSub s { s with store := (s.store.getOrCreateTaskNode t).1 } :=
  OSub.edit (Store.taskOutput_getOrCreateTaskNode hw t)
    (fun n _ => Store.outgoingEdges_getOrCreateTaskNode hw t n)

theorem osub_reserveRequire {s : Sess} (hw : s.store.WF) (dst : Nat) :
    OSub s (reserveRequire s dst).1 := by
  rcases Option.eq_none_or_eq_some s.cur with hc | ⟨a, hc⟩
  · rw [reserveRequire_none hc]; exact OSub.refl s
  · rw [(reserveRequire_some hc dst).1]
    refine OSub.edit (fun n => Store.taskOutput_addDependency hw _ _ _ n) (fun n hn => ?_)
    exact Store.outgoingEdges_addDependency_of_ne hw _ _ _ (fun hna => hn (by rw [hna]; exact hc))

theorem osub_updateRequire {s : Sess} (dst t c : Nat) (stamp : Stamp) :
    OSub s (updateRequire s dst t c stamp).1 := by
  rcases Option.eq_none_or_eq_some s.cur with hc | ⟨a, hc⟩
  · rw [updateRequire_none hc]; exact OSub.refl s
  · rw [updateRequire_some hc]
    cases hsd : s.store.setDependency a dst (.require t c stamp) with
    | none => exact OSub.refl s
    | some st' =>
      refine OSub.edit (fun n => Store.taskOutput_setDependency hsd n) (fun n hn => ?_)
      exact Store.outgoingEdges_setDependency_of_ne hsd (fun hna => hn (by rw [hna]; exact hc))

/-- A resource operation: the store gets the resource node and possibly an edge from the
executing task. -/
theorem osub_resStep {s s' : Sess} (hw : s.store.WF) {r : Nat}
    (hs : s'.store = s.store ∨ ∃ a, s.cur = some a ∧
      (s'.store = (s.store.getOrCreateResNode r).1 ∨ ∃ d,
        s'.store = ((s.store.getOrCreateResNode r).1.addDependency a
          (s.store.getOrCreateResNode r).2 d).1)) : OSub s s' := by
  rcases hs with hs | ⟨a, hc, hs | ⟨d, hs⟩⟩
  · exact OSub.of_store hs
  · exact OSub.edit (fun n => by rw [hs]; exact Store.taskOutput_getOrCreateResNode hw r n)
      (fun n _ => by rw [hs]; exact Store.outgoingEdges_getOrCreateResNode hw r n)
  · have hw1 := hw.getOrCreateResNode r
    refine OSub.edit (fun n => ?_) (fun n hn => ?_)
    · rw [hs, Store.taskOutput_addDependency hw1, Store.taskOutput_getOrCreateResNode hw]
    · rw [hs, Store.outgoingEdges_addDependency_of_ne hw1 _ _ _
        (fun hna => hn (by rw [hna]; exact hc)), Store.outgoingEdges_getOrCreateResNode hw]

theorem osub_doRead {s : Sess} (hw : s.store.WF) (r c : Nat) : OSub s (doRead sem s r c).1 := by
  rcases Option.eq_none_or_eq_some s.cur with hc | ⟨a, hc⟩
  · rw [doRead_store_none sem hc]; exact OSub.refl s
  · refine osub_resStep hw (r := r) (.inr ⟨a, hc, ?_⟩)
    rcases doRead_store sem hc r c with h | ⟨stamp, h⟩
    · exact .inl h
    · exact .inr ⟨_, h⟩

theorem osub_doWrite {s : Sess} (hw : s.store.WF) (r c : Nat) (v : Option Int) :
    OSub s (doWrite sem s r c v).1 := by
  rcases Option.eq_none_or_eq_some s.cur with hc | ⟨a, hc⟩
  · rw [doWrite_store_none sem hc]; exact OSub.of_store (by simp)
  · refine osub_resStep hw (r := r) (.inr ⟨a, hc, ?_⟩)
    rcases doWrite_store sem hc r c v with h | ⟨stamp, h⟩
    · exact .inl h
    · exact .inr ⟨_, h⟩

theorem osub_doWrote {s : Sess} (hw : s.store.WF) (r c : Nat) (v : Option Int) :
    OSub s (doWrote sem s r c v).1 := by
  rcases Option.eq_none_or_eq_some s.cur with hc | ⟨a, hc⟩
  · rw [doWrote_store_none sem hc]; exact OSub.of_store (by simp)
  · refine osub_resStep hw (r := r) (.inr ⟨a, hc, ?_⟩)
    rcases doWrote_store sem hc r c v with h | ⟨stamp, h⟩
    · exact .inl h
    · exact .inr ⟨_, h⟩

/-- `OSub` looks at the store and the executing task of the first state only. -/
theorem OSub.congr_left {s₀ s s' : Sess} (h : OSub s₀ s') (h1 : s₀.store = s.store)
    (h2 : s₀.cur = s.cur) : OSub s s' := fun n hn => by
  rcases h n hn with h | h
  · exact .inl (h2 ▸ h)
  · exact .inr (h1 ▸ h)

theorem OSub.congr_right {s s' s₁ : Sess} (h : OSub s s') (h1 : s₁.store = s'.store) :
    OSub s s₁ := fun n hn => h n (h1 ▸ hn)

theorem osub_reserveRequire' {s s2 : Sess} {dst : Nat} {r : Res Unit} (hw : s.store.WF)
    (heq : reserveRequire s dst = (s2, r)) : OSub s s2 ∧ s2.cur = s.cur := by
  have h1 := osub_reserveRequire hw (s := s) dst
  have h2 := cur_reserveRequire s dst
  rw [heq] at h1 h2; exact ⟨h1, h2⟩

theorem osub_updateRequire' {s s2 : Sess} {dst t c : Nat} {stamp : Stamp} {r : Res Unit}
    (heq : updateRequire s dst t c stamp = (s2, r)) : OSub s s2 ∧ s2.cur = s.cur := by
  have h1 := osub_updateRequire (s := s) dst t c stamp
  have h2 := cur_updateRequire s dst t c stamp
  rw [heq] at h1 h2; exact ⟨h1, h2⟩

/-! ### the joint induction -/

/-- The joint statement for fuel `f`. -/
structure TdOrph (f : Nat) : Prop where
  require : ∀ (s : Sess) t c s' o, SessWF s → tdRequire sem body f s t c = (s', .ok o) → OSub s s'
  make : ∀ (s : Sess) t s' o, SessWF s → tdMake sem body f s t = (s', .ok o) → OSub s s'
  check : ∀ (s : Sess) n s' o, SessWF s → tdCheck sem body f s n = (s', .ok o) → OSub s s'
  checkDeps : ∀ (s : Sess) ds s' b, SessWF s → tdCheckDeps sem body f s ds = (s', .ok b) → OSub s s'
  run : ∀ (s : Sess) p s' o, SessWF s → tdRun sem body f s p = (s', .ok o) → OSub s s'

variable {sem body}

theorem TdOrph.zero : TdOrph sem body 0 := by
  refine ⟨?_, ?_, ?_, ?_, ?_⟩
  · intro s t c s' o _ heq; unfold tdRequire at heq; cases heq
  · intro s t s' o _ heq; unfold tdMake at heq; cases heq
  · intro s n s' o _ heq; unfold tdCheck at heq; cases heq
  · intro s ds s' b _ heq; unfold tdCheckDeps at heq; cases heq
  · intro s p s' o _ heq; unfold tdRun at heq; cases heq

theorem TdOrph.require_succ {f : Nat} (ih : TdOrph sem body f) (s : Sess) (t c : Nat) (s' : Sess)
    (o : Int) (h : SessWF s) (heq : tdRequire sem body (f + 1) s t c = (s', .ok o)) : OSub s s' := by
  unfold tdRequire at heq
  simp only [] at heq
  have e1 := (h.emit (.requireStart t c)).getTask t
  have o1 : OSub s ({ s.emit (.requireStart t c) with
      store := (s.store.getOrCreateTaskNode t).1 } : Sess) := osub_getTask h.store t
  have hd := Store.taskOf_getOrCreateTaskNode_self h.store t
  split at heq
  next s2 k heq2 => cases heq
  next s2 heq2 =>
    have e2 := (reserveRequire_ext e1.wf ⟨t, hd⟩).out heq2
    obtain ⟨o2, c2'⟩ := osub_reserveRequire' e1.wf.store heq2
    have c2 : s2.cur = s.cur := c2'
    split at heq
    next s3 k heq3 => cases heq
    next s3 out heq3 =>
      have e3 := (tdMake_ext sem body f e2.wf t).out heq3
      have o3 := ih.make s2 t s3 out e2.wf heq3
      have c3 : s3.cur = s2.cur := cur_tdMake sem body heq3
      split at heq
      next s4 k heq4 => cases heq
      next s4 heq4 =>
        cases heq
        obtain ⟨o4, _⟩ := osub_updateRequire' heq4
        have o4' : OSub s3 s' := o4.congr_left rfl rfl
        exact (o1.trans (o2.trans (o3.trans o4' c3) c2) rfl)

theorem TdOrph.check_succ {f : Nat} (ih : TdOrph sem body f) (s : Sess) (n : Nat) (s' : Sess)
    (o : Option Int) (h : SessWF s) (heq : tdCheck sem body (f + 1) s n = (s', .ok o)) :
    OSub s s' := by
  unfold tdCheck at heq
  split at heq
  · cases heq; exact OSub.refl _
  · split at heq
    next s2 k heq2 => cases heq
    next s2 heq2 => cases heq; exact ih.checkDeps s _ _ _ h heq2
    next s2 heq2 => cases heq; exact ih.checkDeps s _ _ _ h heq2

theorem TdOrph.checkDeps_succ {f : Nat} (ih : TdOrph sem body f) (s : Sess) (ds : List Dep)
    (s' : Sess) (b : Bool) (h : SessWF s)
    (heq : tdCheckDeps sem body (f + 1) s ds = (s', .ok b)) : OSub s s' := by
  cases ds with
  | nil => unfold tdCheckDeps at heq; cases heq; exact OSub.refl _
  | cons d ds =>
    cases d with
    | reserved => unfold tdCheckDeps at heq; cases heq
    | require t c stamp =>
      unfold tdCheckDeps at heq
      simp only [] at heq
      have h0 := h.emit (.checkTaskStart t c stamp)
      split at heq
      next s1 k heq1 => cases heq
      next s1 out heq1 =>
        have e1 := (tdMake_ext sem body f h0 t).out heq1
        have o1 : OSub s s1 := (ih.make _ t s1 out h0 heq1).congr_left rfl rfl
        have c1 : s1.cur = s.cur :=
          cur_tdMake (s := s.emit (.checkTaskStart t c stamp)) sem body heq1
        split at heq
        · have o2 := ih.checkDeps _ ds s' b (e1.wf.emit _) heq
          exact o1.trans (o2.congr_left rfl rfl) c1
        · cases heq
          exact o1.congr_right rfl
    | read r c stamp =>
      rw [tdCheckDeps_read] at heq
      split at heq
      · exact (ih.checkDeps _ ds s' b (h.same (s' := resCheckEvents s r c stamp (.ok true))
          rfl rfl rfl).wf heq).congr_left rfl rfl
      · cases heq; exact OSub.of_store rfl
      · cases heq; exact OSub.of_store rfl
    | write r c stamp =>
      rw [tdCheckDeps_write] at heq
      split at heq
      · exact (ih.checkDeps _ ds s' b (h.same (s' := resCheckEvents s r c stamp (.ok true))
          rfl rfl rfl).wf heq).congr_left rfl rfl
      · cases heq; exact OSub.of_store rfl
      · cases heq; exact OSub.of_store rfl

theorem TdOrph.run_succ {f : Nat} (ih : TdOrph sem body f) (s : Sess) (p : Prog) (s' : Sess)
    (o : Int) (h : SessWF s) (heq : tdRun sem body (f + 1) s p = (s', .ok o)) : OSub s s' := by
  cases p with
  | ret v => unfold tdRun at heq; cases heq; exact OSub.refl _
  | panic => unfold tdRun at heq; cases heq
  | req t c k =>
    unfold tdRun at heq
    split at heq
    next s2 a heq2 => cases heq
    next s2 out heq2 =>
      have e2 := (tdRequire_ext sem body f h t c).out heq2
      exact (ih.require s t c s2 out h heq2).trans (ih.run s2 _ s' o e2.wf heq)
        (cur_tdRequire sem body heq2)
  | read r c k =>
    unfold tdRun at heq
    split at heq
    next s2 a heq2 => cases heq
    next s2 x heq2 =>
      have e2 := (doRead_ext sem h r c).out heq2
      have o2 : OSub s s2 := by have := osub_doRead sem h.store r c; rw [heq2] at this; exact this
      have c2 : s2.cur = s.cur := by have := doRead_cur sem s r c; rw [heq2] at this; exact this
      exact o2.trans (ih.run s2 _ s' o e2.wf heq) c2
  | write r c v k =>
    unfold tdRun at heq
    split at heq
    next s2 a heq2 => cases heq
    next s2 x heq2 =>
      have e2 := (doWrite_ext sem h r c v).out heq2
      have o2 : OSub s s2 := by have := osub_doWrite sem h.store r c v; rw [heq2] at this; exact this
      have c2 : s2.cur = s.cur := by have := doWrite_cur sem s r c v; rw [heq2] at this; exact this
      exact o2.trans (ih.run s2 _ s' o e2.wf heq) c2
  | wrote r c v k =>
    unfold tdRun at heq
    split at heq
    next s2 a heq2 => cases heq
    next s2 x heq2 =>
      have e2 := (doWrote_ext sem h r c v).out heq2
      have o2 : OSub s s2 := by have := osub_doWrote sem h.store r c v; rw [heq2] at this; exact this
      have c2 : s2.cur = s.cur := by have := doWrote_cur sem s r c v; rw [heq2] at this; exact this
      exact o2.trans (ih.run s2 _ s' o e2.wf heq) c2

theorem TdOrph.make_succ {f : Nat} (ih : TdOrph sem body f) (s : Sess) (t : Nat) (s' : Sess)
    (o : Int) (h : SessWF s) (heq : tdMake sem body (f + 1) s t = (s', .ok o)) : OSub s s' := by
  unfold tdMake at heq
  simp only [] at heq
  have e0 := h.getTask t
  have o0 : OSub s ({ s with store := (s.store.getOrCreateTaskNode t).1 } : Sess) :=
    osub_getTask h.store t
  have hd := Store.taskOf_getOrCreateTaskNode_self h.store t
  split at heq
  · split at heq
    · cases heq; exact o0
    · cases heq
  · split at heq
    next s1 k heq1 => cases heq
    next s1 o1 heq1 =>
      cases heq
      exact o0.trans ((ih.check _ _ s1 _ e0.wf heq1).congr_right (by simp)) rfl
    next s1 heq1 =>
      have e1 := (tdCheck_ext sem body f e0.wf _).out heq1
      have oc := ih.check _ _ s1 _ e0.wf heq1
      have c1 : s1.cur = s.cur := cur_tdCheck
        (s := { s with store := (s.store.getOrCreateTaskNode t).1 }) sem body heq1
      have hd1 := e1.le.task _ _ hd
      have hw1 := e1.wf.store
      have e2 := (e1.wf.startExec hd1).emit (.executeStart t)
      split at heq
      next s3 k heq3 => cases heq
      next s3 o3 heq3 =>
        cases heq
        have e3 := (tdRun_ext sem body f e2.wf _).out heq3
        have orun := ih.run _ _ s3 _ e2.wf heq3
        have hd3 : s3.store.taskOf (s.store.getOrCreateTaskNode t).2 = some t :=
          e3.le.task _ _ (by
            show (s1.store.resetTask (s.store.getOrCreateTaskNode t).2).taskOf _ = some t
            rw [Store.taskOf_resetTask hw1]; exact hd1)
        intro n hn
        simp only [Sess.store_markConsistent] at hn
        have hn' : Orphan (s3.store.setTaskOutput (s.store.getOrCreateTaskNode t).2 o) n := hn
        have hne : n ≠ (s.store.getOrCreateTaskNode t).2 := by
          intro hnn
          have := hn'.1
          rw [hnn, Store.taskOutput_setTaskOutput_self hd3] at this; cases this
        have h3 : Orphan s3.store n :=
          ⟨by rw [← Store.taskOutput_setTaskOutput_of_ne hne o]; exact hn'.1, by
            have := hn'.2; simpa using this⟩
        rcases orun n h3 with hc | h2
        · exact absurd (Option.some.inj hc).symm hne
        · have h2' : Orphan (s1.store.resetTask (s.store.getOrCreateTaskNode t).2) n := h2
          have h1 : Orphan s1.store n :=
            ⟨by have := h2'.1; rwa [Store.taskOutput_resetTask hw1, if_neg hne] at this, by
              have := h2'.2; rwa [Store.outgoingEdges_resetTask hw1, if_neg hne] at this⟩
          rcases oc n h1 with hc | h0
          · exact .inl hc
          · exact o0 n h0

theorem tdOrph (f : Nat) : TdOrph sem body f := by
  induction f with
  | zero => exact TdOrph.zero
  | succ f ih =>
    exact ⟨ih.require_succ, ih.make_succ, ih.check_succ, ih.checkDeps_succ, ih.run_succ⟩

/-- **`NoOrphan` is preserved by a returning `Session::require`** (any task programs). -/
theorem sessionRequire_noOrphan (f : Nat) {s s' : Sess} {t : Nat} {o : Int} (h : SessWF s)
    (hno : NoOrphan s.store) (hr : sessionRequire sem body f s t = (s', .ok o)) :
    NoOrphan s'.store := by
  unfold sessionRequire at hr
  simp only [] at hr
  split at hr
  next s2 k heq => cases hr
  next s2 o2 heq =>
    cases hr
    have h0 : SessWF (({ s with cur := none } : Sess).emit .buildStart) := (h.clearCur.wf).emit _
    have := (tdOrph (sem := sem) (body := body) f).require _ t alwaysChecker s2 _ h0 heq
    rw [noOrphan_iff]
    intro n hn
    rcases this n hn with hc | hb
    · cases hc
    · exact (noOrphan_iff _).mp hno n hb

/-- ... and by a returning `requireAll`. -/
theorem requireAll_noOrphan (f : Nat) (ts : List Nat) : ∀ {s s' : Sess} {os : List Int},
    SessWF s → NoOrphan s.store → requireAll sem body f s ts = (s', .ok os) →
    NoOrphan s'.store := by
  induction ts with
  | nil => intro s s' os _ hno hr; unfold requireAll at hr; cases hr; exact hno
  | cons t ts ih =>
    intro s s' os h hno hr
    unfold requireAll at hr
    split at hr
    next s2 k heq => cases hr
    next s2 o heq =>
      have e2 := (sessionRequire_ext sem body f h t).out heq
      have hno2 := sessionRequire_noOrphan f h hno heq
      split at hr
      next s3 k heq3 => cases hr
      next s3 os3 heq3 => cases hr; exact ih e2.wf hno2 heq3

end PieModel
