/-
Bottom-up closure (property C03, write-free fragment): definitions.

* `EdgeAcc`/`SC` — a recorded dependency edge is accepted by its checker against the current
  resources / against the output currently stored for the required task; a node is
  *shallow-consistent* if all its edges are;
* `SCx` — the same with the `require` edges into an exempt set `X` (tasks that were popped from
  the queue and whose requirers have not yet been re-checked) not looked at;
* `InCone`, `Clean` — a node whose whole dependency cone has outputs, is shallow-consistent and
  not busy (queued or exempt);
* `ShallowReq`, `Reported`, `NoOrphan` — the hypotheses on the starting point of a bottom-up build;
* `CI` — the invariant of the bottom-up build, for an executing stack `ch` and an exempt set `X`.
-/
import PieModel.Build.Sound.NoExecFuel
import PieModel.Build.Stack.BottomUpSession

namespace PieModel

variable (sem : Sem)

/-- The recorded edge `(dst, d)` is accepted now: a resource dependency by its checker against
the resource state `fs`, a require dependency by its checker against the output currently stored
for the required task (which must exist).  A `reserved` edge is never accepted. -/
def EdgeAcc (st : Store) (fs : List (Nat × Int)) (dst : Nat) : Dep → Prop
  | .reserved => False
  | .require _ c stamp => ∃ o, st.taskOutput dst = some o ∧ sem.ocheck c o stamp = true
  | .read r c stamp => sem.rcheck c (aget fs r) stamp = .ok true
  | .write r c stamp => sem.rcheck c (aget fs r) stamp = .ok true

/-- Shallow consistency of node `n`: every recorded dependency is accepted. -/
def SC (st : Store) (fs : List (Nat × Int)) (n : Nat) : Prop :=
  ∀ p ∈ st.g.outgoingEdges n, EdgeAcc sem st fs p.1 p.2

/-- Shallow consistency up to the `require` edges into `X`. -/
def SCx (st : Store) (fs : List (Nat × Int)) (X : List Nat) (n : Nat) : Prop :=
  ∀ p ∈ st.g.outgoingEdges n, EdgeAcc sem st fs p.1 p.2 ∨ (p.2.isRequire = true ∧ p.1 ∈ X)

/-- `v` is `u` or reachable from `u` along recorded edges. -/
def InCone (st : Store) (u v : Nat) : Prop := v = u ∨ st.g.Reach u v

/-- `u` is a task node, and every task node in its cone has an output, is shallow-consistent and
is not in `q` (the queue, plus the exempt nodes). -/
def Clean (st : Store) (fs : List (Nat × Int)) (q : List Nat) (u : Nat) : Prop :=
  (∃ t, st.taskOf u = some t) ∧
  ∀ v, InCone st u v → (∃ t, st.taskOf v = some t) →
    st.taskOutput v ≠ none ∧ SC sem st fs v ∧ v ∉ q

/-- What bottom-up building assumes of its starting point: every require dependency of a task
with output points to a task with output and is accepted by its checker against that output.
(Destroyed by a partial top-down session: finding K1.) -/
def ShallowReq (st : Store) : Prop :=
  ∀ n, st.taskOutput n ≠ none → ∀ dst u c stamp, (dst, Dep.require u c stamp) ∈ st.g.outgoingEdges n →
    ∃ o, st.taskOutput dst = some o ∧ sem.ocheck c o stamp = true

/-- Every resource whose recorded (read or write) stamp in a task with output is not accepted by
its checker against `fs` is among the reported ones. -/
def Reported (st : Store) (fs : List (Nat × Int)) (changed : List Nat) : Prop :=
  ∀ n, st.taskOutput n ≠ none → ∀ dst r c stamp,
    ((dst, Dep.read r c stamp) ∈ st.g.outgoingEdges n ∨
      (dst, Dep.write r c stamp) ∈ st.g.outgoingEdges n) →
    sem.rcheck c (aget fs r) stamp ≠ .ok true → r ∈ changed

/-- No partially executed task is left in the store: a node without output has no recorded
dependencies.  (Broken by an aborted session; without it a task can be executed twice in one
bottom-up build, see `Props/C04Once.lean`.) -/
def NoOrphan (st : Store) : Prop := ∀ n, st.taskOutput n = none → st.g.outgoingEdges n = []

variable {sem}

/-! ### basic facts -/

theorem EdgeAcc.congr {st st' : Store} {fs : List (Nat × Int)} {dst : Nat} {d : Dep}
    (ho : st'.taskOutput dst = st.taskOutput dst) :
    EdgeAcc sem st' fs dst d ↔ EdgeAcc sem st fs dst d := by
  cases d <;> simp only [EdgeAcc, ho]

theorem SC.scx {st : Store} {fs : List (Nat × Int)} {n : Nat} (h : SC sem st fs n) (X : List Nat) :
    SCx sem st fs X n := fun p hp => .inl (h p hp)

theorem SCx.nil {st : Store} {fs : List (Nat × Int)} {n : Nat} (h : SCx sem st fs [] n) :
    SC sem st fs n := fun p hp => by
  rcases h p hp with h | ⟨_, h⟩
  · exact h
  · cases h

theorem SCx.mono {st : Store} {fs : List (Nat × Int)} {X X' : List Nat} {n : Nat}
    (h : SCx sem st fs X n) (hx : ∀ x ∈ X, x ∈ X') : SCx sem st fs X' n := fun p hp => by
  rcases h p hp with h | ⟨h1, h2⟩
  · exact .inl h
  · exact .inr ⟨h1, hx _ h2⟩

/-- Transfer of `SCx`: same edges of `n`, and the targets with output keep it. -/
theorem SCx.transfer {st st' : Store} {fs : List (Nat × Int)} {X X' : List Nat} {n : Nat}
    (h : SCx sem st fs X n) (he : st'.g.outgoingEdges n = st.g.outgoingEdges n)
    (ho : ∀ p ∈ st.g.outgoingEdges n, st.taskOutput p.1 ≠ none → p.1 ∉ X →
      st'.taskOutput p.1 = st.taskOutput p.1)
    (hx : ∀ x ∈ X, x ∈ X') : SCx sem st' fs X' n := by
  intro p hp
  rw [he] at hp
  have ho' := ho p hp
  have hh := h p hp
  obtain ⟨dst, d⟩ := p
  rcases hh with h1 | ⟨h1, h2⟩
  · by_cases hpx : dst ∈ X
    · cases d with
      | require u c stamp => exact .inr ⟨rfl, hx _ hpx⟩
      | reserved => exact h1.elim
      | read r c stamp => exact .inl h1
      | write r c stamp => exact .inl h1
    · left
      cases d with
      | require u c stamp =>
        obtain ⟨o, h3, h4⟩ := h1
        exact ⟨o, by rw [ho' (by rw [h3]; simp) hpx]; exact h3, h4⟩
      | reserved => exact h1.elim
      | read r c stamp => exact h1
      | write r c stamp => exact h1
  · exact .inr ⟨h1, hx _ h2⟩

theorem InCone.refl (st : Store) (u : Nat) : InCone st u u := .inl rfl

theorem InCone.tail {st : Store} {u v w : Nat} (h : InCone st u v) (he : st.g.HasEdge v w) :
    InCone st u w := by
  rcases h with rfl | h
  · exact .inr (.edge he)
  · exact .inr (h.tail he)

theorem InCone.trans {st : Store} {u v w : Nat} (h₁ : InCone st u v) (h₂ : InCone st v w) :
    InCone st u w := by
  rcases h₂ with rfl | h₂
  · exact h₁
  · rcases h₁ with rfl | h₁
    · exact .inr h₂
    · exact .inr (h₁.trans h₂)

namespace Store

/-- The target of a recorded edge is a task node or a resource node. -/
theorem WF.edge_target_kind {st : Store} (hw : st.WF) {s d : Nat} {dep : Dep}
    (hm : (d, dep) ∈ st.g.outgoingEdges s) :
    (∃ t, st.taskOf d = some t) ∨ (∃ r, st.resOf d = some r) := by
  have := (hw.mem_outgoingEdges_ok hm).2
  cases dep with
  | reserved => exact .inl this
  | require t c s => exact .inl ⟨t, this⟩
  | read r c s => exact .inr ⟨r, this⟩
  | write r c s => exact .inr ⟨r, this⟩

theorem WF.hasEdge_target_kind {st : Store} (hw : st.WF) {s d : Nat} (he : st.g.HasEdge s d) :
    (∃ t, st.taskOf d = some t) ∨ (∃ r, st.resOf d = some r) := by
  obtain ⟨dep, hd⟩ := (Store.hasEdge_iff_mem_oe hw s d).mp he
  exact hw.edge_target_kind hd

/-- A task node of a later store that was live in the earlier one was a task node there. -/
theorem Le.task_back {st st' : Store} (hle : st.Le st') {n t : Nat}
    (hk : (∃ t, st.taskOf n = some t) ∨ (∃ r, st.resOf n = some r))
    (ht : st'.taskOf n = some t) : st.taskOf n = some t := by
  rcases hk with ⟨t0, h0⟩ | ⟨r, hr⟩
  · have := hle.task _ _ h0
    rw [ht] at this; cases this; exact h0
  · have := hle.res _ _ hr
    rw [Store.resOf_eq_none_of_taskOf ht] at this; cases this

end Store

theorem Clean.mono {st : Store} {fs : List (Nat × Int)} {q q' : List Nat} {u : Nat}
    (h : Clean sem st fs q u) (hq : ∀ v, v ∈ q' → v ∈ q) : Clean sem st fs q' u :=
  ⟨h.1, fun v hv ht => ⟨(h.2 v hv ht).1, (h.2 v hv ht).2.1, fun hm => (h.2 v hv ht).2.2 (hq v hm)⟩⟩

theorem Clean.out {st : Store} {fs : List (Nat × Int)} {q : List Nat} {u : Nat}
    (h : Clean sem st fs q u) : st.taskOutput u ≠ none := (h.2 u (.inl rfl) h.1).1

theorem Clean.not_mem {st : Store} {fs : List (Nat × Int)} {q : List Nat} {u : Nat}
    (h : Clean sem st fs q u) : u ∉ q := (h.2 u (.inl rfl) h.1).2.2

/-- A node without output, or a busy node, is in no clean cone. -/
theorem Clean.not_inCone {st : Store} {fs : List (Nat × Int)} {q : List Nat} {u v : Nat}
    (h : Clean sem st fs q u) (hv : st.taskOutput v = none ∨ v ∈ q) (ht : ∃ t, st.taskOf v = some t) :
    ¬ InCone st u v := by
  intro hc
  obtain ⟨h1, _, h3⟩ := h.2 v hc ht
  rcases hv with hv | hv
  · exact h1 hv
  · exact h3 hv

/-- **Stability of `Clean`.**  If the task nodes with output in the cone of `u` keep their edges
and outputs, and no member of the cone becomes busy, `u` stays clean. -/
theorem Clean.transfer {st st' : Store} {fs : List (Nat × Int)} {q q' : List Nat} {u : Nat}
    (hw : st.WF) (hw' : st'.WF) (hle : st.Le st') (h : Clean sem st fs q u)
    (hsame : ∀ v, InCone st u v → st.taskOutput v ≠ none →
      st'.g.outgoingEdges v = st.g.outgoingEdges v ∧ st'.taskOutput v = st.taskOutput v)
    (hq : ∀ v, InCone st u v → v ∈ q' → v ∈ q) : Clean sem st' fs q' u := by
  -- edges of cone members are the same
  have hedge : ∀ a b, InCone st u a → (∃ t, st.taskOf a = some t) → st'.g.HasEdge a b →
      st.g.HasEdge a b := by
    intro a b ha hta he
    rw [Store.hasEdge_iff_mem_oe hw'] at he
    rw [Store.hasEdge_iff_mem_oe hw]
    rw [(hsame a ha (h.2 a ha hta).1).1] at he
    exact he
  -- the cone does not grow
  have hreach : ∀ a b, st'.g.Reach a b → InCone st u a → (∃ t, st.taskOf a = some t) →
      st.g.Reach a b := by
    intro a b hr
    induction hr with
    | edge he => intro ha hta; exact .edge (hedge _ _ ha hta he)
    | @step a m b he hr ih =>
      intro ha hta
      have he0 := hedge _ _ ha hta he
      obtain ⟨c, hc⟩ := hr.exists_first
      obtain ⟨tm, htm⟩ := hw'.hasEdge_src hc
      have := hle.task_back (hw.hasEdge_target_kind he0) htm
      exact .step he0 (ih (ha.tail he0) ⟨tm, this⟩)
  have hcone : ∀ v, InCone st' u v → InCone st u v := by
    rintro v (rfl | hv)
    · exact .inl rfl
    · exact .inr (hreach _ _ hv (.inl rfl) h.1)
  refine ⟨h.1.imp fun t ht => hle.task _ _ ht, fun v hv ⟨t, ht⟩ => ?_⟩
  have hv0 := hcone v hv
  have ht0 : st.taskOf v = some t := by
    refine hle.task_back ?_ ht
    rcases hv0 with rfl | hr
    · exact .inl h.1
    · obtain ⟨c, hc⟩ := hr.exists_last
      exact hw.hasEdge_target_kind hc
  obtain ⟨h1, h2, h3⟩ := h.2 v hv0 ⟨t, ht0⟩
  obtain ⟨he, ho⟩ := hsame v hv0 h1
  refine ⟨by rw [ho]; exact h1, ?_, fun hm => h3 (hq v hv0 hm)⟩
  intro p hp
  rw [he] at hp
  have hacc := h2 p hp
  have hpe : st.g.HasEdge v p.1 := (Store.hasEdge_iff_mem_oe hw _ _).mpr ⟨p.2, hp⟩
  obtain ⟨dst, d⟩ := p
  cases d with
  | reserved => exact hacc.elim
  | read r c stamp => exact hacc
  | write r c stamp => exact hacc
  | require w c stamp =>
    obtain ⟨o, h4, h5⟩ := hacc
    have := (hsame dst (hv0.tail hpe) (by rw [h4]; simp)).2
    exact ⟨o, by rw [this]; exact h4, h5⟩

end PieModel
