/-
Bottom-up closure: the scheduling functions.

* `scheduleAffectedBy` for every reported resource establishes (I1) — and the whole invariant
  `CI` for the empty stack — from `ShallowReq`, `Reported`, `NoOrphan`;
* `scheduleAfterExec` re-establishes the invariant after an execution (`CI.sched`).
-/
import PieModel.Build.Closure.Steps
import PieModel.Build.StackBU

namespace PieModel

variable {sem : Sem} {body : Nat → Prog} {fs : List (Nat × Int)}

/-! ### traces -/

theorem countExec_eq_zero_of_not_mem {t : Nat} {evs : List Ev} (h : Ev.executeStart t ∉ evs) :
    countExec t evs = 0 := by
  unfold countExec
  rw [List.countP_eq_zero]
  intro e he hx
  cases e <;> simp [Ev.isExecStart] at hx
  subst hx; exact h he

theorem countExec_of_quiet {s s' : Sess} (h : ∀ tn, KQuiet tn s s') (t : Nat) :
    countExec t s'.trace = countExec t s.trace := by
  obtain ⟨evs, he⟩ := (h t).tr
  rw [he, countExec_append, countExec_eq_zero_of_not_mem ((h t).no evs he), Nat.add_zero]

/-! ### the fold over the requirers -/

theorem fs_reqSchedStep (out : Int) (s : Sess) (p : Nat × Dep) :
    (reqSchedStep sem out s p).fs = s.fs := by
  unfold reqSchedStep
  split
  · simp only; split <;> rfl
  · rfl

theorem reqSched_fold (out : Int) (L : List (Nat × Dep)) : ∀ s : Sess,
    (∀ p ∈ L, ∃ t, s.store.taskOf p.1 = some t) → s.queue.Nodup →
    SameCore s (L.foldl (reqSchedStep sem out) s) ∧ (L.foldl (reqSchedStep sem out) s).fs = s.fs ∧
    (L.foldl (reqSchedStep sem out) s).queue.Nodup ∧
    (∀ n ∈ s.queue, n ∈ (L.foldl (reqSchedStep sem out) s).queue) ∧
    (∀ n ∈ (L.foldl (reqSchedStep sem out) s).queue,
      n ∈ s.queue ∨ ∃ u c stamp, (n, Dep.require u c stamp) ∈ L) ∧
    (∀ n u c stamp, (n, Dep.require u c stamp) ∈ L → sem.ocheck c out stamp = false →
      n ∈ (L.foldl (reqSchedStep sem out) s).queue) := by
  induction L with
  | nil =>
    intro s _ hnd
    exact ⟨SameCore.refl s, rfl, hnd, fun _ h => h, fun _ h => .inl h,
      fun _ _ _ _ h => (nomatch h)⟩
  | cons p L ih =>
    intro s ht hnd
    simp only [List.foldl_cons]
    have hc1 := sameCore_reqSchedStep sem out s p
    have hq1 : (reqSchedStep sem out s p).queue = s.queue ∨
        (∃ u c stamp, p.2 = Dep.require u c stamp ∧ sem.ocheck c out stamp = false ∧
          (reqSchedStep sem out s p).queue = queueAdd s.queue p.1) := by
      obtain ⟨n, d⟩ := p
      obtain ⟨tn, htn⟩ := ht (n, d) (List.mem_cons_self ..)
      cases d with
      | require u c stamp =>
        rw [reqSchedStep_queue sem out s n u c tn stamp htn]
        cases hck : sem.ocheck c out stamp with
        | true => exact .inl (by simp)
        | false => exact .inr ⟨u, c, stamp, rfl, hck, by simp⟩
      | reserved => left; simp [reqSchedStep]
      | read r c stamp => left; simp [reqSchedStep]
      | write r c stamp => left; simp [reqSchedStep]
    have hnd1 : (reqSchedStep sem out s p).queue.Nodup := by
      rcases hq1 with h | ⟨_, _, _, _, _, h⟩
      · rw [h]; exact hnd
      · rw [h]; exact queueAdd_nodup hnd
    have hmono1 : ∀ n ∈ s.queue, n ∈ (reqSchedStep sem out s p).queue := by
      intro n hn
      rcases hq1 with h | ⟨_, _, _, _, _, h⟩
      · rw [h]; exact hn
      · rw [h]; exact mem_queueAdd.mpr (.inl hn)
    obtain ⟨i1, i2, i3, i4, i5, i6⟩ := ih (reqSchedStep sem out s p)
      (fun q hq => by rw [hc1.1]; exact ht q (List.mem_cons_of_mem _ hq)) hnd1
    refine ⟨hc1.trans i1, i2.trans (fs_reqSchedStep out s p), i3, fun n hn => i4 n (hmono1 n hn),
      ?_, ?_⟩
    · intro n hn
      rcases i5 n hn with hn | ⟨u, c, stamp, hm⟩
      · rcases hq1 with h | ⟨u, c, stamp, hd, _, h⟩
        · rw [h] at hn; exact .inl hn
        · rw [h] at hn
          rcases mem_queueAdd.mp hn with hn | rfl
          · exact .inl hn
          · exact .inr ⟨u, c, stamp, by rw [← hd]; exact List.mem_cons_self ..⟩
      · exact .inr ⟨u, c, stamp, List.mem_cons_of_mem _ hm⟩
    · intro n u c stamp hm hck
      rcases List.mem_cons.mp hm with hm | hm
      · subst hm
        obtain ⟨tn, htn⟩ := ht _ (List.mem_cons_self ..)
        refine i4 n ?_
        rw [reqSchedStep_queue sem out s n u c tn stamp htn, hck]
        simp only [Bool.false_eq_true, if_false]
        exact mem_queueAdd.mpr (.inr rfl)
      · exact i6 n u c stamp hm hck

/-! ### `scheduleAfterExec` -/

theorem Store.mem_requireDepsTo_iff {st : Store} (hw : st.WF) (node p : Nat) (d : Dep) :
    (p, d) ∈ st.requireDepsTo node ↔ d.isRequire = true ∧ (node, d) ∈ st.g.outgoingEdges p := by
  rw [Store.requireDepsTo_eq, List.mem_filter, Dag.mem_incomingEdges hw.gwf,
    Dag.mem_outgoingEdges hw.gwf]
  exact ⟨fun h => ⟨h.2, h.1⟩, fun h => ⟨h.2, h.1⟩⟩

/-- After the execution of the exempt task `node` (all of whose edges are finished ones),
`scheduleAfterExec` re-establishes the invariant without the exemption of `node`, which is
consistent (hence clean) afterwards. -/
theorem CI.scheduleAfterExec {s : Sess} {ch X : List Nat} {node t : Nat} {o : Int}
    (h : CI sem body fs s ch (node :: X)) (hX : ∀ x ∈ X, x ∈ ch) (hnX : node ∉ X)
    (ht : s.store.taskOf node = some t) (ho : s.store.taskOutput node = some o)
    (hfresh : Fresh sem fs s node) :
    CI sem body fs (scheduleAfterExec sem s node t o) ch X ∧
      node ∈ (scheduleAfterExec sem s node t o).consistent := by
  have hw := h.sw
  have hwr : s.store.resourcesWrittenBy node = [] := by
    rw [Store.resourcesWrittenBy_eq, List.map_eq_nil_iff, List.filter_eq_nil_iff]
    intro p hp
    obtain ⟨h1, _⟩ := hfresh p hp
    obtain ⟨dst, d⟩ := p
    cases d with
    | write r c stamp => exact h1.elim
    | reserved => simp
    | require u c stamp => simp
    | read r c stamp => simp
  have hwf' := (scheduleAfterExec_ext sem h.wf node t o).wf
  rw [scheduleAfterExec_eq] at hwf' ⊢
  simp only [hwr, List.foldl_nil] at hwf' ⊢
  have hL : ∀ p ∈ (s.emit (.schedTaskStart t)).store.requireDepsTo node,
      ∃ tp, (s.emit (.schedTaskStart t)).store.taskOf p.1 = some tp := by
    intro p hp
    obtain ⟨n, d⟩ := p
    have := ((Store.mem_requireDepsTo_iff hw node n d).mp hp).2
    exact (hw.mem_outgoingEdges_ok this).1
  obtain ⟨c1, c2, c3, c4, c5, c6⟩ := reqSched_fold (sem := sem) o
    ((s.emit (.schedTaskStart t)).store.requireDepsTo node) (s.emit (.schedTaskStart t)) hL h.qnd
  generalize ((s.emit (.schedTaskStart t)).store.requireDepsTo node).foldl
      (reqSchedStep sem o) (s.emit (.schedTaskStart t)) = S3 at hwf' c1 c2 c3 c4 c5 c6 ⊢
  have hw3 : SessWF (S3.emit (.schedTaskEnd t)) := (hwf'.same (by simp) (by simp) (by simp)).wf
  refine ⟨CI.sched h hX hnX ht ho hfresh (s₃ := S3.emit (.schedTaskEnd t))
    ⟨c1.1, c1.2.1, c1.2.2⟩ c2 hw3 c4 c3 ?_ ?_, (Sess.mem_markConsistent _ _ _).mpr (.inr rfl)⟩
  · intro p hp
    rcases c5 p hp with hp | ⟨u, c, stamp, hm⟩
    · exact .inl hp
    · exact .inr ⟨u, c, stamp, ((Store.mem_requireDepsTo_iff hw node p _).mp hm).2⟩
  · intro p u c stamp hp hck
    exact c6 p u c stamp ((Store.mem_requireDepsTo_iff hw node p _).mpr ⟨rfl, hp⟩) hck

end PieModel
