/-
Bottom-up closure: the successor step of `buRequire`.
-/
import PieModel.Build.Closure.Induct

namespace PieModel

variable {sem : Sem} {body : Nat → Prog} {fs : List (Nat × Int)}

theorem BuClos.require_succ (hrefl : Reflexive sem) {f : Nat} (ih : BuClos sem body fs f)
    (s : Sess) (ch₀ : List Nat) (a : Nat) (X : List Nat) (u c : Nat)
    (h : CI sem body fs s (ch₀ ++ [a]) X) (hti : TI s (ch₀ ++ [a]) [])
    (hX : ∀ x ∈ X, x ∈ ch₀ ++ [a]) (hnr : Dep.reserved ∉ s.store.depsFrom a)
    (s' : Sess) (out : Int) (heq : buRequire sem body (f + 1) s u c = (s', .ok out)) :
    CI sem body fs s' (ch₀ ++ [a]) X ∧ TI s' (ch₀ ++ [a]) [] ∧ Mono s s' ∧
      Dep.reserved ∉ s'.store.depsFrom a ∧ nodeOf s u ∈ s'.consistent ∧
      s'.store.taskOutput (nodeOf s u) = some out ∧ s'.store.taskOf (nodeOf s u) = some u ∧
      EdgeUpd (s.store.g.outgoingEdges a) (s'.store.g.outgoingEdges a) (nodeOf s u)
        (.require u c (sem.ostamp c out)) := by
  have hw := h.sw
  have hmem : a ∈ ch₀ ++ [a] := by simp
  obtain ⟨bf', _, hnr'⟩ := ((buStack sem body (f + 1)).require s ch₀ a u c h.bf hnr).ok heq
  unfold buRequire at heq
  simp only [] at heq
  -- after node creation
  have bf1 := (h.bf.emit (.requireStart u c)).getTask u
  have c1 : CI sem body fs ({ s.emit (.requireStart u c) with
      store := (s.store.getOrCreateTaskNode u).1 } : Sess) (ch₀ ++ [a]) X :=
    (h.emit (.requireStart u c)).frame_same bf1 rfl rfl rfl (Store.le_getOrCreateTaskNode hw u)
      (Store.taskOutput_getOrCreateTaskNode hw u) (Store.outgoingEdges_getOrCreateTaskNode hw u)
  have t1 : TI ({ s.emit (.requireStart u c) with
      store := (s.store.getOrCreateTaskNode u).1 } : Sess) (ch₀ ++ [a]) [] :=
    (hti.emit (.requireStart u c) (fun _ => rfl)).transfer (fun _ => rfl)
      (Store.le_getOrCreateTaskNode hw u) (fun _ hn => hn)
  have hd : (s.store.getOrCreateTaskNode u).1.taskOf (nodeOf s u) = some u :=
    Store.taskOf_getOrCreateTaskNode_self hw u
  have hcur1 : ({ s.emit (.requireStart u c) with
      store := (s.store.getOrCreateTaskNode u).1 } : Sess).cur = some a := by
    show s.cur = some a
    rw [h.bf.cur_eq, List.getLast?_concat]
  split at heq
  next s2 k heq2 => cases heq
  next s2 heq2 =>
    obtain ⟨bf2, _, le2, e21, e22, _⟩ := bf1.reserve_ok hd heq2
    obtain ⟨hs2, hok2⟩ := reserveRequire_some hcur1 (nodeOf s u)
    have heq2' : reserveRequire ({ s.emit (.requireStart u c) with
      store := (s.store.getOrCreateTaskNode u).1 } : Sess) (nodeOf s u) = (s2, .ok ()) := heq2
    rw [heq2'] at hs2 hok2
    simp only at hs2 hok2
    have hvok := hok2.mp trivial
    have halt := Store.addDependency_ok_cases c1.sw a (nodeOf s u) .reserved hvok
    have ho2 : ∀ n, s2.store.taskOutput n = s.store.taskOutput n := fun n => by
      rw [hs2]
      show ((s.store.getOrCreateTaskNode u).1.addDependency a (nodeOf s u) .reserved).1.taskOutput n = _
      rw [Store.taskOutput_addDependency c1.sw, Store.taskOutput_getOrCreateTaskNode hw]
    have he2 : ∀ n, n ≠ a → s2.store.g.outgoingEdges n = s.store.g.outgoingEdges n := fun n hn => by
      rw [hs2]
      show ((s.store.getOrCreateTaskNode u).1.addDependency a (nodeOf s u)
        .reserved).1.g.outgoingEdges n = _
      rw [Store.outgoingEdges_addDependency_of_ne c1.sw _ _ _ hn,
        Store.outgoingEdges_getOrCreateTaskNode hw]
    have hc2 : s2.consistent = s.consistent := by rw [hs2]; rfl
    have c2 : CI sem body fs s2 (ch₀ ++ [a]) X := by
      refine c1.frame bf2 (by rw [hs2]) (by rw [hs2]) (by rw [hs2]) le2
        (fun n => by rw [ho2]; exact (Store.taskOutput_getOrCreateTaskNode hw u n).symm) ?_ ?_
      · intro n hn
        rw [he2 n (fun hna => hn (hna ▸ hmem))]
        exact (Store.outgoingEdges_getOrCreateTaskNode hw u n).symm
      · intro a' ha' p hp
        have hcong : ∀ q : Nat × Dep, StackDep sem fs ({ s.emit (.requireStart u c) with
            store := (s.store.getOrCreateTaskNode u).1 } : Sess) q.1 q.2 →
            StackDep sem fs s2 q.1 q.2 := fun q hq =>
          hq.congr hc2 (by rw [ho2]; exact (Store.taskOutput_getOrCreateTaskNode hw u _).symm)
        by_cases haa : a' = a
        · subst haa
          rcases e22 p hp with hp | hp
          · exact hcong p (c1.i3 a' ha' p hp)
          · subst hp; trivial
        · rw [he2 a' haa] at hp
          refine hcong p (c1.i3 a' ha' p ?_)
          show p ∈ (s.store.getOrCreateTaskNode u).1.g.outgoingEdges a'
          rw [Store.outgoingEdges_getOrCreateTaskNode hw]; exact hp
    have t2 : TI s2 (ch₀ ++ [a]) [] :=
      t1.transfer (fun _ => by rw [hs2]) le2 (fun _ hn => by rw [hs2]; exact hn)
    have hd2 := le2.task _ _ hd
    split at heq
    next s3 k heq3 => cases heq
    next s3 out' heq3 =>
      obtain ⟨c3, t3, m3, ho3, hcl3⟩ := ih.make s2 ch₀ a X u (nodeOf s u) c2 t2 hX hd2 e21 s3 out' heq3
      obtain ⟨_, k3, _⟩ := ((buStack sem body f).make s2 ch₀ a u (nodeOf s u) bf2 hd2 e21).ok heq3
      have e3 := (buMake_ext sem body f bf2.wf u ⟨u, hd2⟩).out heq3
      have hd3 := e3.le.task _ _ hd2
      have hcur3 : (s3.emit (.requireEnd u c (sem.ostamp c out') out')).cur = some a := by
        show s3.cur = some a
        rw [c3.bf.cur_eq, List.getLast?_concat]
      split at heq
      next s4 k heq4 => cases heq
      next s4 heq4 =>
        cases heq
        rw [updateRequire_some hcur3] at heq4
        split at heq4
        case h_2 => cases heq4
        case h_1 st' hsd =>
          obtain ⟨rfl, _⟩ := Prod.mk.inj heq4
          have hsd' : s3.store.setDependency a (nodeOf s u) (.require u c (sem.ostamp c out)) =
            some st' := hsd
          have ho5 : ∀ n, st'.taskOutput n = s3.store.taskOutput n :=
            Store.taskOutput_setDependency hsd'
          have he5 : st'.g.outgoingEdges a = (s3.store.g.outgoingEdges a).map
              (fun p => if p.1 = nodeOf s u then (p.1, Dep.require u c (sem.ostamp c out)) else p) := by
            rw [Store.outgoingEdges_setDependency hsd', if_pos rfl]
          have cM := (c3.emit (.requireEnd u c (sem.ostamp c out) out)).mark (dst := nodeOf s u) hcl3
          have hc5 : (({ s3.emit (.requireEnd u c (sem.ostamp c out) out) with store := st' } :
              Sess).markConsistent (nodeOf s u)).consistent =
              ((s3.emit (.requireEnd u c (sem.ostamp c out) out)).markConsistent
                (nodeOf s u)).consistent :=
            markConsistent_consistent_congr (s := s3.emit (.requireEnd u c (sem.ostamp c out) out))
              (s' := { s3.emit (.requireEnd u c (sem.ostamp c out) out) with store := st' }) rfl _
          have hdst5 : nodeOf s u ∈ (({ s3.emit (.requireEnd u c (sem.ostamp c out) out) with
              store := st' } : Sess).markConsistent (nodeOf s u)).consistent :=
            (Sess.mem_markConsistent _ _ _).mpr (.inr rfl)
          have c5 : CI sem body fs (({ s3.emit (.requireEnd u c (sem.ostamp c out) out) with
              store := st' } : Sess).markConsistent (nodeOf s u)) (ch₀ ++ [a]) X := by
            refine cM.frame bf' (by simp) (by simp) hc5 (by simpa using Store.le_setDependency hsd')
              (fun n => by simpa using ho5 n) ?_ ?_
            · intro n hn
              simp only [Sess.store_markConsistent]
              exact Store.outgoingEdges_setDependency_of_ne hsd' (fun hna => hn (hna ▸ hmem))
            · intro a' ha' p hp
              simp only [Sess.store_markConsistent] at hp
              have hcong : ∀ q : Nat × Dep, StackDep sem fs ((s3.emit (.requireEnd u c (sem.ostamp c out)
                  out)).markConsistent (nodeOf s u)) q.1 q.2 →
                  StackDep sem fs (({ s3.emit (.requireEnd u c (sem.ostamp c out) out) with
                    store := st' } : Sess).markConsistent (nodeOf s u)) q.1 q.2 := fun q hq =>
                hq.congr hc5 (by simpa using ho5 q.1)
              by_cases haa : a' = a
              · subst haa
                have hp' : p ∈ st'.g.outgoingEdges a' := hp
                rw [he5] at hp'
                obtain ⟨q, hq, rfl⟩ := List.mem_map.mp hp'
                by_cases hq1 : q.1 = nodeOf s u
                · simp only [hq1, if_true]
                  refine ⟨hdst5, out, ?_, hrefl.1 c out⟩
                  simp only [Sess.store_markConsistent]
                  rw [ho5]; exact ho3
                · simp only [hq1, if_false]
                  exact hcong q (cM.i3 a' ha' q (by simpa using hq))
              · have hp' : p ∈ st'.g.outgoingEdges a' := hp
                rw [Store.outgoingEdges_setDependency_of_ne hsd' haa] at hp'
                exact hcong p (cM.i3 a' ha' p (by simpa using hp'))
          have hle5 : s3.store.Le st' := Store.le_setDependency hsd'
          have hsub35 : ∀ n ∈ s3.consistent, n ∈ (({ s3.emit (.requireEnd u c (sem.ostamp c out)
              out) with store := st' } : Sess).markConsistent (nodeOf s u)).consistent :=
            fun n hn => (Sess.mem_markConsistent _ _ _).mpr (.inl hn)
          refine ⟨c5, ?_, ?_, hnr', hdst5, ?_, ?_, ?_⟩
          · refine t3.transfer ?_ (by simpa using hle5) ?_
            · intro t
              rw [Sess.trace_markConsistent]
              exact countExec_emit_of_not t s3 _ rfl
            · rintro n (hn | hn | hn)
              · exact .inl (hsub35 n hn)
              · exact .inr (.inl hn)
              · simp only [List.mem_singleton] at hn
                subst hn
                exact .inl hdst5
          · intro n hn
            have hn2 : n ∈ s2.consistent := hc2 ▸ hn
            obtain ⟨h3a, h3b⟩ := m3 n hn2
            refine ⟨hsub35 n h3a, ?_⟩
            simp only [Sess.store_markConsistent]
            rw [ho5, h3b, ho2]
          · simp only [Sess.store_markConsistent]
            rw [ho5]; exact ho3
          · simp only [Sess.store_markConsistent]
            exact hle5.task _ _ hd3
          · simp only [Sess.store_markConsistent]
            apply edgeUpd_of (Lc := s2.store.g.outgoingEdges a)
            · have h1 : ({ s.emit (.requireStart u c) with
                  store := (s.store.getOrCreateTaskNode u).1 } : Sess).store.g.outgoingEdges a =
                  s.store.g.outgoingEdges a := Store.outgoingEdges_getOrCreateTaskNode hw u a
              have h2 : s2.store.g.outgoingEdges a = (({ s.emit (.requireStart u c) with
                  store := (s.store.getOrCreateTaskNode u).1 } : Sess).store.addDependency a
                  (nodeOf s u) .reserved).1.g.outgoingEdges a := by rw [hs2]
              rw [← h1, h2]
              rcases halt with ⟨h3, h4⟩ | ⟨h3, h4⟩
              · exact .inl ⟨h3, by rw [h4]⟩
              · exact .inr ⟨h3, h4⟩
            · show st'.g.outgoingEdges a = _
              rw [he5, (k3 a hmem).1]

end PieModel
