/-
Bottom-up closure: the session primitives (`doRead`, node creation, `reserveRequire`,
`updateRequire`) in the form used by the induction.
-/
import PieModel.Build.Closure.Schedule
import PieModel.Build.Sound.Outcome

namespace PieModel

variable {sem : Sem} {body : Nat → Prog} {fs : List (Nat × Int)}

theorem markConsistent_consistent_congr {s s' : Sess} (h : s'.consistent = s.consistent) (n : Nat) :
    (s'.markConsistent n).consistent = (s.markConsistent n).consistent := by
  unfold Sess.markConsistent
  rw [h]
  split <;> simp [h]

/-- `StackDep` depends on `consistent` and the output of the target only. -/
theorem StackDep.congr {s s' : Sess} {dst : Nat} {d : Dep} (h : StackDep sem fs s dst d)
    (hc : s'.consistent = s.consistent) (ho : s'.store.taskOutput dst = s.store.taskOutput dst) :
    StackDep sem fs s' dst d :=
  h.mono (fun _ hn => hc ▸ hn) (fun _ => ho)

/-- A store step that keeps all outputs and all edges. -/
theorem CI.frame_same {s s' : Sess} {ch X : List Nat} (h : CI sem body fs s ch X)
    (hbf : BFrames s' ch) (hfs : s'.fs = s.fs) (hq : s'.queue = s.queue)
    (hc : s'.consistent = s.consistent) (hle : s.store.Le s'.store)
    (ho : ∀ n, s'.store.taskOutput n = s.store.taskOutput n)
    (he : ∀ n, s'.store.g.outgoingEdges n = s.store.g.outgoingEdges n) :
    CI sem body fs s' ch X :=
  h.frame hbf hfs hq hc hle ho (fun n _ => he n) (fun a ha p hp =>
    (h.i3 a ha p (by rw [← he]; exact hp)).congr hc (ho _))

/-- A returning `doRead` inside task `a`, for a total stamper. -/
theorem doRead_ok_spec (hst : StampTotal sem) {s : Sess} (hwf : SessWF s) {a : Nat}
    (hc : s.cur = some a) (r c : Nat) {s1 : Sess} {x : Except Int (Option Int)}
    (hF : doRead sem s r c = (s1, .ok x)) :
    x = .ok (aget s.fs r) ∧ s1.fs = s.fs ∧
    (∀ n, s1.store.taskOutput n = s.store.taskOutput n) ∧
    (∀ n, n ≠ a → s1.store.g.outgoingEdges n = s.store.g.outgoingEdges n) ∧
    ∃ dst stamp, sem.rstamp c (aget s.fs r) = .ok stamp ∧ s1.store.resOf dst = some r ∧
      (((∃ d0, (dst, d0) ∈ s.store.g.outgoingEdges a) ∧
          s1.store.g.outgoingEdges a = s.store.g.outgoingEdges a) ∨
       ((∀ d0, (dst, d0) ∉ s.store.g.outgoingEdges a) ∧
          s1.store.g.outgoingEdges a = s.store.g.outgoingEdges a ++ [(dst, .read r c stamp)])) := by
  have hw := hwf.store
  have hn : s.store.getOrCreateResNode r =
    ((s.store.getOrCreateResNode r).1, (s.store.getOrCreateResNode r).2) := rfl
  generalize hst' : (s.store.getOrCreateResNode r).1 = st at hn
  generalize hdst : (s.store.getOrCreateResNode r).2 = dst at hn
  rw [doRead_eq sem s r c a st dst hc hn] at hF
  have hcont : s.content r = aget s.fs r := rfl
  have hw1 : st.WF := hst' ▸ hw.getOrCreateResNode r
  have hres : st.resOf dst = some r := by
    rw [← hst', ← hdst]; exact Store.resOf_getOrCreateResNode_self hw r
  have ho1 : ∀ n, st.taskOutput n = s.store.taskOutput n := fun n => by
    rw [← hst']; exact Store.taskOutput_getOrCreateResNode hw r n
  have he1 : ∀ n, st.g.outgoingEdges n = s.store.g.outgoingEdges n := fun n => by
    rw [← hst']; exact Store.outgoingEdges_getOrCreateResNode hw r n
  by_cases hh : readHidden st a dst = true
  · rw [if_pos hh] at hF; cases hF
  · rw [if_neg hh] at hF
    obtain ⟨stamp, hs⟩ := hst c (s.content r)
    rw [hs] at hF
    simp only at hF
    obtain ⟨t, ht⟩ := hwf.cur a hc
    have ht1 : st.taskOf a = some t := by
      rw [← hst']; exact (Store.le_getOrCreateResNode hw r).task _ _ ht
    have hv := Store.addDependency_to_res_ok hw1 a dst (.read r c stamp) ht1 hres
    cases hvv : st.addDependency a dst (.read r c stamp) with
    | mk st' v =>
      rw [hvv] at hF hv
      simp only at hv; subst hv
      simp only at hF
      obtain ⟨rfl, hx⟩ := Prod.mk.inj hF
      cases hx
      have hst'' : st' = (st.addDependency a dst (.read r c stamp)).1 := by rw [hvv]
      have hvok : (st.addDependency a dst (.read r c stamp)).2 = .ok := by rw [hvv]
      refine ⟨rfl, rfl, ?_, ?_, dst, stamp, hs, ?_, ?_⟩
      · intro n
        show st'.taskOutput n = _
        rw [hst'', Store.taskOutput_addDependency hw1, ho1]
      · intro n hn'
        show st'.g.outgoingEdges n = _
        rw [hst'', Store.outgoingEdges_addDependency_of_ne hw1 _ _ _ hn', he1]
      · show st'.resOf dst = some r
        rw [hst'', Store.resOf_addDependency hw1]; exact hres
      · rcases Store.addDependency_ok_cases hw1 a dst (.read r c stamp) hvok with
          ⟨h1, h2⟩ | ⟨h1, h2⟩
        · left
          rw [← he1 a]
          refine ⟨h1, ?_⟩
          show st'.g.outgoingEdges a = _
          rw [hst'', h2]
        · right
          rw [← he1 a]
          refine ⟨h1, ?_⟩
          show st'.g.outgoingEdges a = _
          rw [hst'', h2]

end PieModel
