/-
Bottom-up closure: the statement of the joint induction over the six mutually recursive
functions of the bottom-up context (`BuClos`), and the successor step of `buRun`.
-/
import PieModel.Build.Closure.Prims

namespace PieModel

variable (sem : Sem) (body : Nat → Prog) (fs : List (Nat × Int))

/-- The joint statement for fuel `f`: what holds when the call returns.  `ch` (`ch₀ ++ [a]`) is
the executing stack, `X` the exempt nodes. -/
structure BuClos (f : Nat) : Prop where
  require : ∀ (s : Sess) (ch₀ : List Nat) (a : Nat) (X : List Nat) (u c : Nat),
    CI sem body fs s (ch₀ ++ [a]) X → TI s (ch₀ ++ [a]) [] → (∀ x ∈ X, x ∈ ch₀ ++ [a]) →
    Dep.reserved ∉ s.store.depsFrom a →
    ∀ s' out, buRequire sem body f s u c = (s', .ok out) →
      CI sem body fs s' (ch₀ ++ [a]) X ∧ TI s' (ch₀ ++ [a]) [] ∧ Mono s s' ∧
      Dep.reserved ∉ s'.store.depsFrom a ∧ nodeOf s u ∈ s'.consistent ∧
      s'.store.taskOutput (nodeOf s u) = some out ∧ s'.store.taskOf (nodeOf s u) = some u ∧
      EdgeUpd (s.store.g.outgoingEdges a) (s'.store.g.outgoingEdges a) (nodeOf s u)
        (.require u c (sem.ostamp c out))
  make : ∀ (s : Sess) (ch₀ : List Nat) (a : Nat) (X : List Nat) (t node : Nat),
    CI sem body fs s (ch₀ ++ [a]) X → TI s (ch₀ ++ [a]) [] → (∀ x ∈ X, x ∈ ch₀ ++ [a]) →
    s.store.taskOf node = some t → (∃ dep, (node, dep) ∈ s.store.g.outgoingEdges a) →
    ∀ s' v, buMake sem body f s t node = (s', .ok v) →
      CI sem body fs s' (ch₀ ++ [a]) X ∧ TI s' (ch₀ ++ [a]) [node] ∧ Mono s s' ∧
      s'.store.taskOutput node = some v ∧ Clean sem s'.store fs (s'.queue ++ X) node
  exec : ∀ (s : Sess) (ch X : List Nat) (t node : Nat),
    CI sem body fs s ch X → TI s ch [] → (∀ x ∈ X, x ∈ ch ∨ x = node) →
    s.store.taskOf node = some t → (∀ x ∈ ch, s.store.g.Reach x node) →
    (node ∈ X ∨ s.store.taskOutput node = none) →
    ∀ s' v, buExec sem body f s t node = (s', .ok v) →
      CI sem body fs s' ch X ∧ TI s' ch [node] ∧ Mono s s' ∧
      s'.store.taskOutput node = some v ∧ Fresh sem fs s' node ∧ node ∉ s'.queue
  execAndSchedule : ∀ (s : Sess) (ch X : List Nat) (node : Nat),
    CI sem body fs s ch (node :: X) → TI s ch [] → (∀ x ∈ X, x ∈ ch) → node ∉ X →
    (∀ x ∈ ch, s.store.g.Reach x node) →
    ∀ s' v, buExecAndSchedule sem body f s node = (s', .ok v) →
      CI sem body fs s' ch X ∧ TI s' ch [] ∧ Mono s s' ∧
      s'.store.taskOutput node = some v ∧ node ∈ s'.consistent
  requireNow : ∀ (s : Sess) (ch₀ : List Nat) (a : Nat) (X : List Nat) (src : Nat),
    CI sem body fs s (ch₀ ++ [a]) X → TI s (ch₀ ++ [a]) [] → (∀ x ∈ X, x ∈ ch₀ ++ [a]) →
    (∃ dep, (src, dep) ∈ s.store.g.outgoingEdges a) →
    ∀ s' o, buRequireNow sem body f s src = (s', .ok o) →
      CI sem body fs s' (ch₀ ++ [a]) X ∧ TI s' (ch₀ ++ [a]) [] ∧ Mono s s' ∧
      (∀ v, o = some v → s'.store.taskOutput src = some v ∧ src ∈ s'.consistent) ∧
      (o = none → ∀ m ∈ s'.queue, ¬ InCone s'.store src m)
  run : ∀ (s : Sess) (ch₀ : List Nat) (a : Nat) (X : List Nat) (p : Prog)
    (qt qr : List (Nat × Nat)),
    CI sem body fs s (ch₀ ++ [a]) X → TI s (ch₀ ++ [a]) [] → (∀ x ∈ X, x ∈ ch₀ ++ [a]) →
    Dep.reserved ∉ s.store.depsFrom a → p.WriteFree → OneCk qt qr p →
    RunInv sem fs qt qr s a →
    ∀ s' v, buRun sem body f s p = (s', .ok v) →
      CI sem body fs s' (ch₀ ++ [a]) X ∧ TI s' (ch₀ ++ [a]) [] ∧ Mono s s' ∧
      Dep.reserved ∉ s'.store.depsFrom a ∧
      (∀ d ∈ s.store.depsFrom a, d ∈ s'.store.depsFrom a) ∧
      Replay sem p (s'.store.depsFrom a) v

variable {sem body fs}

theorem BuClos.zero : BuClos sem body fs 0 := by
  refine ⟨?_, ?_, ?_, ?_, ?_, ?_⟩
  · intro s ch₀ a X u c _ _ _ _ s' out heq; unfold buRequire at heq; cases heq
  · intro s ch₀ a X t n _ _ _ _ _ s' v heq; unfold buMake at heq; cases heq
  · intro s ch X t n _ _ _ _ _ _ s' v heq; unfold buExec at heq; cases heq
  · intro s ch X n _ _ _ _ _ s' v heq; unfold buExecAndSchedule at heq; cases heq
  · intro s ch₀ a X n _ _ _ _ s' v heq; unfold buRequireNow at heq; cases heq
  · intro s ch₀ a X p qt qr _ _ _ _ _ _ _ s' v heq; unfold buRun at heq; cases heq

/-- Transport of what is known of the edges of the running task. -/
theorem RunDep.mono' {qt qr qt' qr' : List (Nat × Nat)} {s s' : Sess} {dst : Nat} {d : Dep}
    (h : RunDep sem fs qt qr s dst d) (hm : Mono s s')
    (ht : ∀ p ∈ qt, p ∈ qt') (hr : ∀ p ∈ qr, p ∈ qr') : RunDep sem fs qt' qr' s' dst d := by
  cases d with
  | reserved => exact h
  | require u c stp =>
    obtain ⟨h1, h2, o, h3, h4⟩ := h
    exact ⟨ht _ h1, (hm _ h2).1, o, by rw [(hm _ h2).2]; exact h3, h4⟩
  | read r c stp => exact ⟨hr _ h.1, h.2⟩
  | write r c stp => exact h

/-- `RunInv` gives `StackDep` for reflexive checkers. -/
theorem RunDep.stackDep (hrefl : Reflexive sem) {qt qr : List (Nat × Nat)} {s : Sess} {dst : Nat}
    {d : Dep} (h : RunDep sem fs qt qr s dst d) : StackDep sem fs s dst d := by
  cases d with
  | reserved => trivial
  | require u c stp =>
    obtain ⟨_, h2, o, h3, h4⟩ := h
    exact ⟨h2, o, h3, by rw [h4]; exact hrefl.1 c o⟩
  | read r c stp => exact hrefl.2 _ _ _ h.2
  | write r c stp => exact h

end PieModel
