/-
Bottom-up closure: `scheduleAffectedBy` for every reported resource establishes (I1) and the
invariant `CI` for the empty stack, from `ShallowReq`, `Reported`, `NoOrphan`.
-/
import PieModel.Build.Closure.Schedule

namespace PieModel

variable {sem : Sem} {body : Nat → Prog} {fs : List (Nat × Int)}

/-! ### one `trySchedule` -/

theorem trySchedule_queue_rw (s : Sess) (n t r c : Nat) (stamp : Stamp) (d : Dep)
    (ht : s.store.taskOf n = some t) (hd : d = .read r c stamp ∨ d = .write r c stamp) :
    (sem.rcheck c (aget s.fs r) stamp = .ok true → (trySchedule sem s n d).queue = s.queue) ∧
    (sem.rcheck c (aget s.fs r) stamp ≠ .ok true →
      (trySchedule sem s n d).queue = queueAdd s.queue n) := by
  have hc : s.content r = aget s.fs r := rfl
  rcases hd with rfl | rfl
  · rw [trySchedule_read sem s n t r c stamp ht, hc]
    cases hrc : sem.rcheck c (aget s.fs r) stamp with
    | ok b => cases b <;> simp [readCheckEvents, scheduleEv]
    | error e => simp [readCheckEvents, scheduleEv]
  · rw [trySchedule_write sem s n t r c stamp ht, hc]
    cases hrc : sem.rcheck c (aget s.fs r) stamp with
    | ok b => cases b <;> simp [readCheckEvents, scheduleEv]
    | error e => simp [readCheckEvents, scheduleEv]

theorem fs_trySchedule (s : Sess) (n : Nat) (d : Dep) : (trySchedule sem s n d).fs = s.fs := by
  cases ht : s.store.taskOf n with
  | none => rw [trySchedule_other sem s n d (.inl ht)]
  | some t =>
    cases d with
    | reserved => rw [trySchedule_other sem s n _ (.inr (.inl rfl))]
    | require t' c stamp => rw [trySchedule_other sem s n _ (.inr (.inr ⟨_, _, _, rfl⟩))]
    | read r c stamp =>
      rw [trySchedule_read sem s n t r c stamp ht]; split <;> rfl
    | write r c stamp =>
      rw [trySchedule_write sem s n t r c stamp ht]; split <;> rfl

theorem queue_trySchedule_other (s : Sess) (n : Nat) (d : Dep)
    (h : d = .reserved ∨ ∃ t c stamp, d = .require t c stamp) :
    (trySchedule sem s n d).queue = s.queue := by
  rw [trySchedule_other sem s n d (.inr h)]

/-- The fold of `trySchedule` over a list of (task node, dependency) pairs. -/
theorem trySched_fold (L : List (Nat × Dep)) : ∀ s : Sess,
    (∀ p ∈ L, ∃ t, s.store.taskOf p.1 = some t) → s.queue.Nodup →
    SameCore s (L.foldl (fun s (p : Nat × Dep) => trySchedule sem s p.1 p.2) s) ∧
    (L.foldl (fun s (p : Nat × Dep) => trySchedule sem s p.1 p.2) s).fs = s.fs ∧
    (L.foldl (fun s (p : Nat × Dep) => trySchedule sem s p.1 p.2) s).queue.Nodup ∧
    (∀ n ∈ s.queue, n ∈ (L.foldl (fun s (p : Nat × Dep) => trySchedule sem s p.1 p.2) s).queue) ∧
    (∀ n ∈ (L.foldl (fun s (p : Nat × Dep) => trySchedule sem s p.1 p.2) s).queue,
      n ∈ s.queue ∨ ∃ d, (n, d) ∈ L) ∧
    (∀ n r c stamp, ((n, Dep.read r c stamp) ∈ L ∨ (n, Dep.write r c stamp) ∈ L) →
      sem.rcheck c (aget s.fs r) stamp ≠ .ok true →
      n ∈ (L.foldl (fun s (p : Nat × Dep) => trySchedule sem s p.1 p.2) s).queue) := by
  induction L with
  | nil =>
    intro s _ hnd
    exact ⟨SameCore.refl s, rfl, hnd, fun _ h => h, fun _ h => .inl h,
      fun _ _ _ _ h => by rcases h with h | h <;> cases h⟩
  | cons p L ih =>
    intro s ht hnd
    simp only [List.foldl_cons]
    obtain ⟨n, d⟩ := p
    obtain ⟨tn, htn⟩ := ht (n, d) (List.mem_cons_self ..)
    have hc1 := sameCore_trySchedule sem s n d
    have hfs1 := fs_trySchedule (sem := sem) s n d
    have hq1 : (trySchedule sem s n d).queue = s.queue ∨
        (trySchedule sem s n d).queue = queueAdd s.queue n := by
      cases d with
      | reserved => exact .inl (queue_trySchedule_other s n _ (.inl rfl))
      | require t' c stamp => exact .inl (queue_trySchedule_other s n _ (.inr ⟨_, _, _, rfl⟩))
      | read r c stamp =>
        by_cases hck : sem.rcheck c (aget s.fs r) stamp = .ok true
        · exact .inl ((trySchedule_queue_rw s n tn r c stamp _ htn (.inl rfl)).1 hck)
        · exact .inr ((trySchedule_queue_rw s n tn r c stamp _ htn (.inl rfl)).2 hck)
      | write r c stamp =>
        by_cases hck : sem.rcheck c (aget s.fs r) stamp = .ok true
        · exact .inl ((trySchedule_queue_rw s n tn r c stamp _ htn (.inr rfl)).1 hck)
        · exact .inr ((trySchedule_queue_rw s n tn r c stamp _ htn (.inr rfl)).2 hck)
    have hnd1 : (trySchedule sem s n d).queue.Nodup := by
      rcases hq1 with h | h
      · rw [h]; exact hnd
      · rw [h]; exact queueAdd_nodup hnd
    have hmono1 : ∀ m ∈ s.queue, m ∈ (trySchedule sem s n d).queue := by
      intro m hm
      rcases hq1 with h | h
      · rw [h]; exact hm
      · rw [h]; exact mem_queueAdd.mpr (.inl hm)
    obtain ⟨i1, i2, i3, i4, i5, i6⟩ := ih (trySchedule sem s n d)
      (fun q hq => by rw [hc1.1]; exact ht q (List.mem_cons_of_mem _ hq)) hnd1
    refine ⟨hc1.trans i1, i2.trans hfs1, i3, fun m hm => i4 m (hmono1 m hm), ?_, ?_⟩
    · intro m hm
      rcases i5 m hm with hm | ⟨d', hm⟩
      · rcases hq1 with h | h
        · rw [h] at hm; exact .inl hm
        · rw [h] at hm
          rcases mem_queueAdd.mp hm with hm | rfl
          · exact .inl hm
          · exact .inr ⟨d, List.mem_cons_self ..⟩
      · exact .inr ⟨d', List.mem_cons_of_mem _ hm⟩
    · intro m r c stamp hm hck
      have hhead : ∀ d', (d' = Dep.read r c stamp ∨ d' = Dep.write r c stamp) →
          (m, d') = (n, d) → m ∈ (trySchedule sem s n d).queue := by
        intro d' hd' heq
        have h1 : m = n := (Prod.mk.inj heq).1
        have h2 : d' = d := (Prod.mk.inj heq).2
        subst h1; subst h2
        rw [(trySchedule_queue_rw s m tn r c stamp _ htn hd').2 hck]
        exact mem_queueAdd.mpr (.inr rfl)
      rcases hm with hm | hm
      · rcases List.mem_cons.mp hm with hm | hm
        · exact i4 m (hhead _ (.inl rfl) hm)
        · exact i6 m r c stamp (.inl hm) (by rw [hfs1]; exact hck)
      · rcases List.mem_cons.mp hm with hm | hm
        · exact i4 m (hhead _ (.inr rfl) hm)
        · exact i6 m r c stamp (.inr hm) (by rw [hfs1]; exact hck)

/-! ### `scheduleAffectedBy` -/

/-- `st'` extends `st` by (resource) nodes only: same outputs, same edges. -/
structure ResExt (st st' : Store) : Prop where
  le : st.Le st'
  out : ∀ n, st'.taskOutput n = st.taskOutput n
  edges : ∀ n, st'.g.outgoingEdges n = st.g.outgoingEdges n

theorem ResExt.refl (st : Store) : ResExt st st := ⟨Store.Le.refl _, fun _ => rfl, fun _ => rfl⟩

theorem ResExt.trans {a b c : Store} (h₁ : ResExt a b) (h₂ : ResExt b c) : ResExt a c :=
  ⟨h₁.le.trans h₂.le, fun n => (h₂.out n).trans (h₁.out n), fun n => (h₂.edges n).trans (h₁.edges n)⟩

theorem Store.mem_readWriteDepsTo_iff {st : Store} (hw : st.WF) (dst p : Nat) (d : Dep) :
    (p, d) ∈ st.readWriteDepsTo dst ↔ d.isReadWrite = true ∧ (dst, d) ∈ st.g.outgoingEdges p := by
  rw [Store.readWriteDepsTo_eq, List.mem_filter, Dag.mem_incomingEdges hw.gwf,
    Dag.mem_outgoingEdges hw.gwf]
  exact ⟨fun h => ⟨h.2, h.1⟩, fun h => ⟨h.2, h.1⟩⟩

/-- One `scheduleAffectedBy r`: the store gets (at most) the node of `r`; every task with a
read/write dependency on `r` that its checker does not accept is queued; only tasks with
recorded dependencies are queued. -/
theorem scheduleAffectedBy_spec (s : Sess) (hwf : SessWF s) (hnd : s.queue.Nodup) (r : Nat) :
    ResExt s.store (scheduleAffectedBy sem s r).store ∧
    (scheduleAffectedBy sem s r).fs = s.fs ∧ (scheduleAffectedBy sem s r).queue.Nodup ∧
    (∀ n ∈ s.queue, n ∈ (scheduleAffectedBy sem s r).queue) ∧
    (∀ n ∈ (scheduleAffectedBy sem s r).queue, n ∈ s.queue ∨ s.store.g.outgoingEdges n ≠ []) ∧
    (∀ n dst c stamp, ((dst, Dep.read r c stamp) ∈ s.store.g.outgoingEdges n ∨
        (dst, Dep.write r c stamp) ∈ s.store.g.outgoingEdges n) →
      sem.rcheck c (aget s.fs r) stamp ≠ .ok true → n ∈ (scheduleAffectedBy sem s r).queue) := by
  have hw := hwf.store
  have hw1 : (s.store.getOrCreateResNode r).1.WF := hw.getOrCreateResNode r
  have hext : ResExt s.store (s.store.getOrCreateResNode r).1 :=
    ⟨Store.le_getOrCreateResNode hw r, Store.taskOutput_getOrCreateResNode hw r,
      Store.outgoingEdges_getOrCreateResNode hw r⟩
  have hL : ∀ p ∈ (s.store.getOrCreateResNode r).1.readWriteDepsTo (s.store.getOrCreateResNode r).2,
      ∃ t, (s.store.getOrCreateResNode r).1.taskOf p.1 = some t := by
    intro p hp
    obtain ⟨n, d⟩ := p
    exact (hw1.mem_outgoingEdges_ok ((Store.mem_readWriteDepsTo_iff hw1 _ n d).mp hp).2).1
  obtain ⟨c1, c2, c3, c4, c5, c6⟩ := trySched_fold (sem := sem)
    ((s.store.getOrCreateResNode r).1.readWriteDepsTo (s.store.getOrCreateResNode r).2)
    { s.emit (.schedResStart r) with store := (s.store.getOrCreateResNode r).1 } hL hnd
  have heq : scheduleAffectedBy sem s r =
      (List.foldl (fun s (p : Nat × Dep) => trySchedule sem s p.1 p.2)
        { s.emit (.schedResStart r) with store := (s.store.getOrCreateResNode r).1 }
        ((s.store.getOrCreateResNode r).1.readWriteDepsTo (s.store.getOrCreateResNode r).2)).emit
        (.schedResEnd r) := rfl
  rw [heq]
  generalize List.foldl (fun s (p : Nat × Dep) => trySchedule sem s p.1 p.2)
    { s.emit (.schedResStart r) with store := (s.store.getOrCreateResNode r).1 }
    ((s.store.getOrCreateResNode r).1.readWriteDepsTo (s.store.getOrCreateResNode r).2) = S1
    at c1 c2 c3 c4 c5 c6 ⊢
  refine ⟨?_, c2, c3, c4, ?_, ?_⟩
  · show ResExt s.store S1.store
    rw [c1.1]; exact hext
  · intro n hn
    rcases c5 n hn with hn | ⟨d, hm⟩
    · exact .inl hn
    · right
      have := ((Store.mem_readWriteDepsTo_iff hw1 _ n d).mp hm).2
      rw [hext.edges] at this
      intro hnil; rw [hnil] at this; cases this
  · intro n dst c stamp hm hck
    -- the target of such an edge is the node of `r`
    have hdst : dst = (s.store.getOrCreateResNode r).2 := by
      have hres : s.store.resOf dst = some r := by
        rcases hm with hm | hm
        · exact (hw.mem_outgoingEdges_ok hm).2
        · exact (hw.mem_outgoingEdges_ok hm).2
      rw [Store.getOrCreateResNode_of_some ((hw.res_iff r dst).mpr hres)]
    subst hdst
    refine c6 n r c stamp ?_ hck
    rcases hm with hm | hm
    · exact .inl ((Store.mem_readWriteDepsTo_iff hw1 _ n _).mpr ⟨rfl, by rw [hext.edges]; exact hm⟩)
    · exact .inr ((Store.mem_readWriteDepsTo_iff hw1 _ n _).mpr ⟨rfl, by rw [hext.edges]; exact hm⟩)

theorem quiet_scheduleAffectedBy (tn : Nat) (s : Sess) (r : Nat) :
    KQuiet tn s (scheduleAffectedBy sem s r) := by
  have h1 : KQuiet tn s ({ s.emit (.schedResStart r) with
      store := (s.store.getOrCreateResNode r).1 } : Sess) :=
    (KQuiet.emit s (e := .schedResStart r) (by simp)).trans (KQuiet.of_eq rfl)
  have h2 := quiet_foldl (tn := tn) (fun s (p : Nat × Dep) => trySchedule sem s p.1 p.2)
    (fun s p => quiet_trySchedule sem tn s p.1 p.2)
    ((s.store.getOrCreateResNode r).1.readWriteDepsTo (s.store.getOrCreateResNode r).2)
    { s.emit (.schedResStart r) with store := (s.store.getOrCreateResNode r).1 }
  exact (h1.trans h2).trans (KQuiet.emit _ (e := .schedResEnd r) (by simp))

/-- All the `scheduleAffectedBy` calls of `bottomUpBuild`. -/
def schedAll (sem : Sem) (s : Sess) (changed : List Nat) : Sess :=
  changed.foldl (fun s r => scheduleAffectedBy sem s r) s

theorem schedAll_spec (changed : List Nat) : ∀ s : Sess, SessWF s → s.queue.Nodup →
    SessWF (schedAll sem s changed) ∧ ResExt s.store (schedAll sem s changed).store ∧
    (schedAll sem s changed).fs = s.fs ∧ (schedAll sem s changed).cur = s.cur ∧
    (schedAll sem s changed).consistent = s.consistent ∧ (schedAll sem s changed).queue.Nodup ∧
    (∀ t, countExec t (schedAll sem s changed).trace = countExec t s.trace) ∧
    (∀ n ∈ s.queue, n ∈ (schedAll sem s changed).queue) ∧
    (∀ n ∈ (schedAll sem s changed).queue, n ∈ s.queue ∨ s.store.g.outgoingEdges n ≠ []) ∧
    (∀ r ∈ changed, ∀ n dst c stamp, ((dst, Dep.read r c stamp) ∈ s.store.g.outgoingEdges n ∨
        (dst, Dep.write r c stamp) ∈ s.store.g.outgoingEdges n) →
      sem.rcheck c (aget s.fs r) stamp ≠ .ok true → n ∈ (schedAll sem s changed).queue) := by
  induction changed with
  | nil =>
    intro s hwf hnd
    exact ⟨hwf, ResExt.refl _, rfl, rfl, rfl, hnd, fun _ => rfl, fun _ h => h, fun _ h => .inl h,
      fun _ h => (nomatch h)⟩
  | cons r rs ih =>
    intro s hwf hnd
    obtain ⟨a1, a2, a3, a4, a5, a6⟩ := scheduleAffectedBy_spec (sem := sem) s hwf hnd r
    obtain ⟨_, k2, k3⟩ := scheduleAffectedBy_core sem s r
    have hwf1 := (scheduleAffectedBy_ext sem hwf r).wf
    obtain ⟨b0, b1, b2, b3, b4, b5, b6, b7, b8, b9⟩ := ih (scheduleAffectedBy sem s r) hwf1 a3
    show _ ∧ ResExt s.store (schedAll sem (scheduleAffectedBy sem s r) rs).store ∧ _
    refine ⟨b0, a1.trans b1, b2.trans a2, b3.trans k2, b4.trans k3, b5, ?_,
      fun n hn => b7 n (a4 n hn), ?_, ?_⟩
    · intro t
      exact (b6 t).trans (countExec_of_quiet (fun tn => quiet_scheduleAffectedBy tn s r) t)
    · intro n hn
      rcases b8 n hn with hn | hn
      · exact a5 n hn
      · exact .inr (by rw [← a1.edges]; exact hn)
    · intro r' hr' n dst c stamp hm hck
      rcases List.mem_cons.mp hr' with rfl | hr'
      · exact b7 n (a6 n dst c stamp hm hck)
      · exact b9 r' hr' n dst c stamp (by rw [a1.edges]; exact hm) (by rw [a2]; exact hck)

end PieModel
