/-
Bottom-up closure: the joint induction, `buExecuteScheduled`, and `bottomUpBuild`.
-/
import PieModel.Build.Closure.Run
import PieModel.Build.Closure.Require
import PieModel.Build.Closure.Exec
import PieModel.Build.Closure.Make
import PieModel.Build.Closure.Start

namespace PieModel

variable {sem : Sem} {body : Nat → Prog} {fs : List (Nat × Int)}

section
variable (hst : StampTotal sem) (hwfb : WriteFreeBody body) (hone : ∀ t, OneChecker (body t))
  (hrefl : Reflexive sem)
include hst hwfb hone hrefl

/-- **The joint induction**: the invariant of the bottom-up build is preserved by the six
mutually recursive functions of the bottom-up context, for every fuel, when they return. -/
theorem buClos (f : Nat) : BuClos sem body fs f := by
  induction f with
  | zero => exact BuClos.zero
  | succ f ih =>
    exact ⟨ih.require_succ hrefl, ih.make_succ, ih.exec_succ hwfb hone, ih.execAndSchedule_succ,
      ih.requireNow_succ, ih.run_succ hst hrefl⟩

/-- `execute_scheduled`: the invariant is kept, and the queue is empty at the end. -/
theorem buExecuteScheduled_closure (f : Nat) : ∀ (s : Sess), CI sem body fs s [] [] → TI s [] [] →
    ∀ s', buExecuteScheduled sem body f s = (s', .ok ()) →
      CI sem body fs s' [] [] ∧ TI s' [] [] ∧ s'.queue = [] ∧ Mono s s' := by
  induction f with
  | zero => intro s _ _ s' heq; unfold buExecuteScheduled at heq; cases heq
  | succ f ih =>
    intro s h hti s' heq
    unfold buExecuteScheduled at heq
    split at heq
    next hq =>
      cases heq
      exact ⟨h, hti, queuePop_eq_none.mp hq, Mono.refl _⟩
    next n q hq =>
      have c1 := h.popQueue (queuePop_perm_cons hq)
      have t1 : TI ({ s with queue := q } : Sess) [] [] :=
        hti.transfer (fun _ => rfl) (Store.Le.refl _) (fun _ hn => hn)
      split at heq
      next s2 k heq2 => cases heq
      next s2 o heq2 =>
        obtain ⟨c2, t2, m2, _, _⟩ := (buClos (fs := fs) hst hwfb hone hrefl f).execAndSchedule
          ({ s with queue := q } : Sess) [] [] n c1 t1 (fun _ hx => (nomatch hx))
          (fun hx => (nomatch hx)) (fun _ hx => (nomatch hx)) s2 o heq2
        obtain ⟨c3, t3, hq3, m3⟩ := ih s2 c2 t2 s' heq
        exact ⟨c3, t3, hq3, Mono.trans (s' := s2) m2 m3⟩

end

/-- The facts about the state after a returning bottom-up build. -/
structure Closed (sem : Sem) (body : Nat → Prog) (fs : List (Nat × Int)) (s : Sess) : Prop where
  wf : s.store.WF
  fsEq : s.fs = fs
  faithful : Faithful sem body s.store
  nrd : s.store.NoReservedDone
  orphan : NoOrphan s.store
  queue : s.queue = []
  /-- every task with an output is shallow-consistent -/
  sc : ∀ n, s.store.taskOutput n ≠ none → SC sem s.store fs n
  once : ∀ t, countExec t s.trace ≤ 1
  /-- every executed task is consistent in the session -/
  exd : ∀ t, 1 ≤ countExec t s.trace → ∃ n, s.store.taskOf n = some t ∧ n ∈ s.consistent

theorem Closed.of_ci {s : Sess} (h : CI sem body fs s [] []) (hti : TI s [] [])
    (hq : s.queue = []) : Closed sem body fs s :=
  ⟨h.sw, h.fsEq, h.faithful, h.bf.nrd, fun n hn => h.orphan n hn (fun hc => (nomatch hc)), hq,
    fun n hn => (h.i1 n hn (fun hc => (nomatch hc)) (by rw [hq]; exact fun hc => (nomatch hc))).nil,
    hti.once, fun t ht => by
      obtain ⟨n, h1, h2⟩ := hti.exd t ht
      rcases h2 with h2 | h2 | h2
      · exact ⟨n, h1, h2⟩
      · cases h2
      · cases h2⟩

section
variable (hst : StampTotal sem) (hwfb : WriteFreeBody body) (hone : ∀ t, OneChecker (body t))
  (hrefl : Reflexive sem) {p : PieSt} {changed : List Nat} (hw : p.store.WF)
  (hf : Faithful sem body p.store) (hn : p.store.NoReservedDone) (hno : NoOrphan p.store)
  (hsr : ShallowReq sem p.store) (hrep : Reported sem p.store p.fs changed)
include hst hwfb hone hrefl hw hf hn hno hsr hrep

/-- **Closure**: after a returning bottom-up build, the queue is empty and every task with an
output is shallow-consistent w.r.t. the (unchanged) resource state. -/
theorem bottomUpBuild_closed (fuel : Nat) (s' : Sess)
    (hr : bottomUpBuild sem body fuel p.newSession changed = (s', .ok ())) :
    Closed sem body p.fs s' := by
  rw [bottomUpBuild_eq] at hr
  obtain ⟨c0, t0⟩ := ci_start (sem := sem) (body := body) (p := p) (changed := changed) hw hf hn hno hsr hrep
  split at hr
  next s2 k heq => cases hr
  next s2 heq =>
    cases hr
    obtain ⟨c2, t2, hq2, _⟩ := buExecuteScheduled_closure hst hwfb hone hrefl fuel _ c0 t0 s2 heq
    exact Closed.of_ci (c2.emit .buildEnd) (t2.emit .buildEnd (fun _ => rfl)) hq2

end
end PieModel
