/-
Bottom-up closure: the invariant `CI` of the bottom-up build (for an executing stack `ch` and a
set `X` of exempt nodes: popped from the queue, requirers not yet re-checked), the trace
invariant `TI`, and the generic transport lemmas.
-/
import PieModel.Build.Closure.Defs

namespace PieModel

variable (sem : Sem) (body : Nat → Prog) (fs : List (Nat × Int))

/-- What is known of an edge `(dst, d)` of a task on the executing stack: a finished `require`
points to a task that is consistent in this session and its stamp is accepted against the stored
output; a `read` stamp is accepted against the resource state; the edge of a `require` in
progress is `reserved`. -/
def StackDep (s : Sess) (dst : Nat) : Dep → Prop
  | .reserved => True
  | .require _ c stamp => dst ∈ s.consistent ∧
      ∃ o, s.store.taskOutput dst = some o ∧ sem.ocheck c o stamp = true
  | .read r c stamp => sem.rcheck c (aget fs r) stamp = .ok true
  | .write .. => False

/-- All edges of `node` are finished ones in the sense of `StackDep`. -/
def Fresh (s : Sess) (node : Nat) : Prop :=
  ∀ p ∈ s.store.g.outgoingEdges node, StackDep sem fs s p.1 p.2 ∧ p.2 ≠ .reserved

/-- **The invariant of the bottom-up build.** -/
structure CI (s : Sess) (ch X : List Nat) : Prop where
  /-- the executing-stack invariant (tasks on the stack have no output, …) -/
  bf : BFrames s ch
  fsEq : s.fs = fs
  faithful : Faithful sem body s.store
  qnd : s.queue.Nodup
  /-- queued nodes have an output -/
  qout : ∀ n ∈ s.queue, s.store.taskOutput n ≠ none
  xq : ∀ x ∈ X, x ∉ s.queue
  /-- a node without output that is not executing has no recorded dependencies -/
  orphan : ∀ n, s.store.taskOutput n = none → n ∉ ch → s.store.g.outgoingEdges n = []
  /-- (I1) every task with output that is not shallow-consistent (up to `X`) is queued or exempt -/
  i1 : ∀ n, s.store.taskOutput n ≠ none → n ∉ X → n ∉ s.queue → SCx sem s.store fs X n
  /-- (I2) every consistent task is clean -/
  i2 : ∀ n ∈ s.consistent, Clean sem s.store fs (s.queue ++ X) n
  /-- the edges of the executing tasks -/
  i3 : ∀ a ∈ ch, ∀ p ∈ s.store.g.outgoingEdges a, StackDep sem fs s p.1 p.2

/-- The trace invariant: every task was executed at most once; an executed task is consistent,
executing, or in `P` (just finished, about to be marked consistent). -/
structure TI (s : Sess) (ch P : List Nat) : Prop where
  once : ∀ t, countExec t s.trace ≤ 1
  exd : ∀ t, 1 ≤ countExec t s.trace →
    ∃ n, s.store.taskOf n = some t ∧ (n ∈ s.consistent ∨ n ∈ ch ∨ n ∈ P)

/-- Consistent tasks stay consistent and keep their output. -/
def Mono (s s' : Sess) : Prop :=
  ∀ n ∈ s.consistent, n ∈ s'.consistent ∧ s'.store.taskOutput n = s.store.taskOutput n

variable {sem body fs}

theorem Mono.refl (s : Sess) : Mono s s := fun _ h => ⟨h, rfl⟩

theorem Mono.trans {s s' s'' : Sess} (h₁ : Mono s s') (h₂ : Mono s' s'') : Mono s s'' :=
  fun n hn => ⟨(h₂ n (h₁ n hn).1).1, (h₂ n (h₁ n hn).1).2.trans (h₁ n hn).2⟩

theorem Mono.of_eq {s s' : Sess} (h1 : s'.store = s.store) (h2 : s'.consistent = s.consistent) :
    Mono s s' := fun n hn => ⟨h2 ▸ hn, by rw [h1]⟩

theorem TI.transfer {s s' : Sess} {ch P ch' P' : List Nat} (h : TI s ch P)
    (htr : ∀ t, countExec t s'.trace = countExec t s.trace) (hle : s.store.Le s'.store)
    (hm : ∀ n, n ∈ s.consistent ∨ n ∈ ch ∨ n ∈ P → n ∈ s'.consistent ∨ n ∈ ch' ∨ n ∈ P') :
    TI s' ch' P' := by
  refine ⟨fun t => by rw [htr]; exact h.once t, fun t ht => ?_⟩
  rw [htr] at ht
  obtain ⟨n, h1, h2⟩ := h.exd t ht
  exact ⟨n, hle.task _ _ h1, hm n h2⟩

theorem TI.emit {s : Sess} {ch P : List Nat} (h : TI s ch P) (e : Ev)
    (he : ∀ t, e.isExecStart t = false) : TI (s.emit e) ch P :=
  h.transfer (fun t => countExec_emit_of_not t s e (he t)) (Store.Le.refl _) (fun _ h => h)

namespace CI
variable {s s' : Sess} {ch X : List Nat}

theorem wf (h : CI sem body fs s ch X) : SessWF s := h.bf.wf

theorem sw (h : CI sem body fs s ch X) : s.store.WF := h.bf.wf.store

/-- Consistent tasks are not executing. -/
theorem i5 (h : CI sem body fs s ch X) {n : Nat} (hn : n ∈ s.consistent) : n ∉ ch :=
  fun hc => (h.i2 n hn).out (h.bf.noOut n hc)

/-- Executing tasks are not queued. -/
theorem stack_not_queued (h : CI sem body fs s ch X) {n : Nat} (hn : n ∈ ch) : n ∉ s.queue :=
  fun hq => h.qout n hq (h.bf.noOut n hn)

/-- A store step that keeps all outputs, the edges of all nodes that are not executing, and
`fs`, `queue`, `consistent`. -/
theorem frame (h : CI sem body fs s ch X) (hbf : BFrames s' ch) (hfs : s'.fs = s.fs)
    (hq : s'.queue = s.queue) (hc : s'.consistent = s.consistent) (hle : s.store.Le s'.store)
    (ho : ∀ n, s'.store.taskOutput n = s.store.taskOutput n)
    (he : ∀ n, n ∉ ch → s'.store.g.outgoingEdges n = s.store.g.outgoingEdges n)
    (h3 : ∀ a ∈ ch, ∀ p ∈ s'.store.g.outgoingEdges a, StackDep sem fs s' p.1 p.2) :
    CI sem body fs s' ch X := by
  have hnch : ∀ n, s.store.taskOutput n ≠ none → n ∉ ch := fun n hn hc => hn (h.bf.noOut n hc)
  refine ⟨hbf, hfs.trans h.fsEq, ?_, hq ▸ h.qnd, ?_, ?_, ?_, ?_, ?_, h3⟩
  · intro n t v ht hv
    rw [ho] at hv
    obtain ⟨t0, ht0⟩ := Store.taskOf_of_output hv
    have := hle.task _ _ ht0
    rw [ht] at this; cases this
    rw [(Store.outgoing_obs_congr (he n (hnch n (by rw [hv]; simp)))).1]
    exact h.faithful n t v ht0 hv
  · intro n hn; rw [hq] at hn; rw [ho]; exact h.qout n hn
  · intro x hx; rw [hq]; exact h.xq x hx
  · intro n hn hc'; rw [ho] at hn; rw [he n hc']; exact h.orphan n hn hc'
  · intro n hn hx hnq
    rw [ho] at hn; rw [hq] at hnq
    exact (h.i1 n hn hx hnq).transfer (he n (hnch n hn)) (fun p _ _ _ => ho p.1) (fun _ hx => hx)
  · intro n hn
    rw [hc] at hn
    refine (h.i2 n hn).transfer h.sw hbf.wf.store hle (fun v _ hv => ⟨he v (hnch v hv), ho v⟩) ?_
    intro v _ hv; rw [hq] at hv; exact hv

/-- A step that touches neither store, `cur`, `consistent`, `queue` nor `fs`. -/
theorem of_eq (h : CI sem body fs s ch X) (h1 : s'.store = s.store) (h2 : s'.cur = s.cur)
    (h3 : s'.consistent = s.consistent) (h4 : s'.queue = s.queue) (h5 : s'.fs = s.fs) :
    CI sem body fs s' ch X := by
  have hbf : BFrames s' ch := h.bf.of_same (h.wf.same h1 h2 h4).wf h1 h2 h3
  refine h.frame hbf h5 h4 h3 (h1 ▸ Store.Le.refl _) (fun n => by rw [h1]) (fun n _ => by rw [h1]) ?_
  intro a ha p hp
  rw [h1] at hp
  have := h.i3 a ha p hp
  obtain ⟨dst, d⟩ := p
  cases d with
  | reserved => trivial
  | require u c stamp => exact ⟨h3 ▸ this.1, by rw [h1]; exact this.2⟩
  | read r c stamp => exact this
  | write r c stamp => exact this

theorem emit (h : CI sem body fs s ch X) (e : Ev) : CI sem body fs (s.emit e) ch X :=
  h.of_eq rfl rfl rfl rfl rfl

/-- `StackDep` only grows with `consistent`. -/
theorem _root_.PieModel.StackDep.mono {s s' : Sess} {dst : Nat} {d : Dep}
    (h : StackDep sem fs s dst d) (hc : ∀ n ∈ s.consistent, n ∈ s'.consistent)
    (ho : dst ∈ s.consistent → s'.store.taskOutput dst = s.store.taskOutput dst) :
    StackDep sem fs s' dst d := by
  cases d with
  | reserved => trivial
  | require u c stamp => exact ⟨hc _ h.1, by rw [ho h.1]; exact h.2⟩
  | read r c stamp => exact h
  | write r c stamp => exact h

/-- Marking a clean task consistent. -/
theorem mark (h : CI sem body fs s ch X) {dst : Nat}
    (hcl : Clean sem s.store fs (s.queue ++ X) dst) :
    CI sem body fs (s.markConsistent dst) ch X := by
  refine ⟨h.bf.markConsistent hcl.out, by simpa using h.fsEq, by simpa using h.faithful,
    by simpa using h.qnd, by simpa using h.qout, by simpa using h.xq, by simpa using h.orphan,
    by simpa using h.i1, ?_, ?_⟩
  · intro n hn
    simp only [Sess.store_markConsistent, Sess.queue_markConsistent]
    rcases (Sess.mem_markConsistent s dst n).mp hn with hn | rfl
    · exact h.i2 n hn
    · exact hcl
  · intro a ha p hp
    simp only [Sess.store_markConsistent] at hp
    exact (h.i3 a ha p hp).mono (fun n hn => (Sess.mem_markConsistent s dst n).mpr (.inl hn))
      (fun _ => by simp)

/-- Popping `m` from the queue: `m` becomes exempt. -/
theorem popQueue (h : CI sem body fs s ch X) {m : Nat} {q' : List Nat}
    (hp : (m :: q').Perm s.queue) : CI sem body fs { s with queue := q' } ch (m :: X) := by
  have hnd : (m :: q').Nodup := hp.nodup_iff.mpr h.qnd
  have hsub : ∀ v, v ∈ q' → v ∈ s.queue := fun v hv => hp.subset (List.mem_cons_of_mem _ hv)
  have hbf : BFrames { s with queue := q' } ch :=
    h.bf.of_same (h.wf.subQueue (fun v hv => hsub v hv)).wf rfl rfl rfl
  refine ⟨hbf, h.fsEq, h.faithful, (List.nodup_cons.mp hnd).2, fun n hn => h.qout n (hsub n hn),
    ?_, h.orphan, ?_, ?_, ?_⟩
  · intro x hx
    rcases List.mem_cons.mp hx with rfl | hx
    · exact (List.nodup_cons.mp hnd).1
    · exact fun hq => h.xq x hx (hsub x hq)
  · intro n hn hx hq
    have hx' : n ∉ X := fun hh => hx (List.mem_cons_of_mem _ hh)
    have hq' : n ∉ s.queue := by
      intro hh
      rcases List.mem_cons.mp (hp.symm.subset hh) with rfl | hh
      · exact hx (List.mem_cons_self ..)
      · exact hq hh
    exact (h.i1 n hn hx' hq').mono (fun x hx => List.mem_cons_of_mem _ hx)
  · intro n hn
    refine (h.i2 n hn).mono ?_
    intro v hv
    rcases List.mem_append.mp hv with hv | hv
    · exact List.mem_append.mpr (.inl (hsub v hv))
    · rcases List.mem_cons.mp hv with rfl | hv
      · exact List.mem_append.mpr (.inl (hp.subset (List.mem_cons_self ..)))
      · exact List.mem_append.mpr (.inr hv)
  · exact h.i3

end CI
end PieModel
