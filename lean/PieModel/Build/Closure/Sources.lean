/-
Bottom-up closure: from the closed state to top-down validation.  After a returning bottom-up
build the set of all task nodes with output is *settled* (`Sound/NoExec.lean`), so requiring any
known task validates only; with `Faithful`, the stored outputs are the from-scratch outputs.
-/
import PieModel.Build.Closure.Final

namespace PieModel

variable {sem : Sem} {body : Nat → Prog} {fs : List (Nat × Int)}

/-- All nodes with an output. -/
def allOut (st : Store) : List Nat :=
  (akeys st.g.nodes).filter fun n => (st.taskOutput n).isSome

theorem mem_allOut {st : Store} {n : Nat} : n ∈ allOut st ↔ st.taskOutput n ≠ none := by
  unfold allOut
  rw [List.mem_filter]
  constructor
  · rintro ⟨_, h⟩ hn; rw [hn] at h; cases h
  · intro h
    refine ⟨?_, by cases ho : st.taskOutput n with
      | none => exact absurd ho h
      | some o => rfl⟩
    rw [← Dag.ids_eq_akeys, ← Dag.containsNode_iff]
    cases hl : st.g.containsNode n with
    | true => rfl
    | false => exact absurd (Store.taskOutput_of_not_live hl) h

/-- In a closed state all tasks with output form a settled set. -/
theorem Closed.settled {s : Sess} (h : Closed sem body fs s) :
    Settled sem fs s.store (allOut s.store) := by
  intro n hn
  have hno := mem_allOut.mp hn
  refine ⟨?_, fun d hd => ?_⟩
  · cases ho : s.store.taskOutput n with
    | none => exact absurd ho hno
    | some o => exact ⟨o, rfl⟩
  · obtain ⟨dst, hdst⟩ := Store.mem_depsFrom_iff.mp hd
    have hacc := h.sc n hno _ hdst
    have hok := (h.wf.mem_outgoingEdges_ok hdst).2
    cases d with
    | reserved => exact hacc.elim
    | require u c stp =>
      obtain ⟨o, h1, h2⟩ := hacc
      exact ⟨dst, o, hok, mem_allOut.mpr (by rw [h1]; simp), h1, h2⟩
    | read r c stp => exact hacc
    | write r c stp => exact hacc

/-- On a settled set in a faithful store the stored outputs are the from-scratch outputs. -/
theorem settled_eval (hst : StampTotal sem) (hresp : ∀ t, Respects sem (body t)) {st : Store}
    {C : List Nat} (hw : st.WF) (hf : Faithful sem body st) (hS : Settled sem fs st C) :
    ∀ k m, m ∈ C → st.g.nodes.length - st.g.topoOf m < k → ∀ t o, st.taskOf m = some t →
      st.taskOutput m = some o → Eval sem body fs t o := by
  intro k
  induction k with
  | zero => intro m _ hk; omega
  | succ k ih =>
    intro m hm hk t o ht ho
    refine replay_eval hst (hresp t) (hf m t o ht ho).1 (fun d hd => ?_)
    have hsd := (hS m hm).2 d hd
    cases d with
    | reserved => exact hsd.elim
    | read r c stp => exact hsd
    | write r c stp => exact hsd
    | require u c stp =>
      obtain ⟨mu, o', htask, hC, hout, hck⟩ := hsd
      obtain ⟨dst, hdst⟩ := Store.mem_depsFrom_iff.mp hd
      have hdt : st.taskOf dst = some u := (hw.mem_outgoingEdges_ok hdst).2
      have hedge : st.g.HasEdge m dst := (Store.hasEdge_iff_mem_oe hw _ _).mpr ⟨_, hdst⟩
      have hmu : dst = mu := hw.taskOf_inj hdt htask
      subst hmu
      have hlt := hw.inv.upward _ _ hedge
      have hle := hw.gwf.topoOf_le dst
      exact ⟨o', ih dst hC (by omega) u o' htask hout, hck⟩

section
variable (hst : StampTotal sem) (hresp : ∀ t, Respects sem (body t))
include hst hresp

/-- In a closed state: the stored output of every task is its from-scratch output, and a
top-down `require` of it — in any session on this store and resource state — validates only. -/
theorem Closed.sources {s' : Sess} (h : Closed sem body fs s') (t m : Nat) (o : Int)
    (ht : s'.store.taskOf m = some t) (ho : s'.store.taskOutput m = some o) :
    Eval sem body fs t o ∧
    (∀ fuel₂ (s : Sess), s.store = s'.store → s.fs = fs → ∀ s₂ r,
      sessionRequire sem body fuel₂ s t = (s₂, r) →
      s₂.store = s'.store ∧ s₂.fs = fs ∧
      (∃ evs, s₂.trace = s.trace ++ evs ∧ ∀ u, Ev.executeStart u ∉ evs) ∧
      (r = .ok o ∨ r = .abort .outOfFuel)) ∧
    ∃ N, ∀ fuel₂, N ≤ fuel₂ → ∀ s : Sess, s.store = s'.store → s.fs = fs → ∀ s₂ r,
      sessionRequire sem body fuel₂ s t = (s₂, r) → r = .ok o := by
  have hS := h.settled
  have hm : m ∈ allOut s'.store := mem_allOut.mpr (by rw [ho]; simp)
  refine ⟨settled_eval hst hresp h.wf h.faithful hS _ m hm (Nat.lt_succ_self _) t o ht ho, ?_, ?_⟩
  · intro fuel₂ s hs hfs s₂ r heq
    obtain ⟨h1, h2, ⟨evs, h3, h4⟩, h5⟩ := sessionRequire_quiet (body := body) h.wf hS fuel₂ s hs hfs
      t m o ht hm ho s₂ r heq
    refine ⟨h1, h2, ⟨evs, h3, fun u hu => ?_⟩, h5⟩
    simpa [Ev.isExec] using h4 _ hu
  · obtain ⟨N, hN⟩ := sessionRequire_fuel (body := body) h.wf hS t m o ht hm ho
    exact ⟨N, fun f hf s hs hfs s₂ r heq => hN f hf s hs hfs s₂ r heq⟩

end

/-- The closed state satisfies the hypotheses of the next round, for whatever changes are
reported then. -/
theorem Closed.shallowReq {s : Sess} (h : Closed sem body fs s) : ShallowReq sem s.store := by
  intro n hn dst u c stamp hp
  exact h.sc n hn _ hp

/-- ... and, without further external changes, nothing needs to be reported. -/
theorem Closed.reported_nil {s : Sess} (h : Closed sem body fs s) : Reported sem s.store fs [] := by
  intro n hn dst r c stamp hp hck
  rcases hp with hp | hp
  · exact absurd (h.sc n hn _ hp) hck
  · exact absurd (h.sc n hn _ hp) hck

end PieModel
