/-
The declared dependency log of an execution, read off the tracker stream, and its agreement with
the operations performed by the body interpreter (`C08.tdOps`, `C08.buOps`).

`declared evs` maps `requireEnd t c s _ ↦ .require t c s`, `readEnd r c s ↦ .read r c s`,
`writeEnd r c s ↦ .write r c s` for the events of `evs` that are not inside a nested
`executeStart … executeEnd` segment.  Theorems `tdRun_declared` / `buRun_declared`: for the events
`evs` of a returning run of a body in a frame, `declared evs` is the list of performed operations.
-/
import PieModel.Build.DepLawBU
import PieModel.Build.Proofs.TopDownExt
import PieModel.Build.Proofs.BottomUpExt
import PieModel.Build.TraceNestingBU

namespace PieModel
open Sess SessL

/-- The dependencies declared at nesting depth 0 (depth = number of open executions). -/
def declaredAux : Nat → List Ev → List Dep
  | _, [] => []
  | d, e :: es =>
    match e with
    | .executeStart _ => declaredAux (d + 1) es
    | .executeEnd _ _ => declaredAux (d - 1) es
    | .requireEnd t c s _ => if d = 0 then .require t c s :: declaredAux d es else declaredAux d es
    | .readEnd r c s => if d = 0 then .read r c s :: declaredAux d es else declaredAux d es
    | .writeEnd r c s => if d = 0 then .write r c s :: declaredAux d es else declaredAux d es
    | _ => declaredAux d es

/-- The declared dependency log of the events of one execution. -/
def declared (evs : List Ev) : List Dep := declaredAux 0 evs

/-- Events that declare nothing and do not change the depth. -/
def Ev.plain : Ev → Bool
  | .executeStart _ | .executeEnd _ _ | .requireEnd _ _ _ _ | .readEnd _ _ _ | .writeEnd _ _ _ => false
  | _ => true

theorem declaredAux_plain {e : Ev} (h : e.plain = true) (d : Nat) (es : List Ev) :
    declaredAux d (e :: es) = declaredAux d es := by
  cases e <;> first | rfl | cases h

/-- Invisible at every depth, depth restored. -/
def Flat (evs : List Ev) : Prop := ∀ d rest, declaredAux d (evs ++ rest) = declaredAux d rest
/-- Invisible inside an execution. -/
def Hidden (evs : List Ev) : Prop :=
  ∀ d rest, declaredAux (d + 1) (evs ++ rest) = declaredAux (d + 1) rest
/-- At depth 0 the events declare exactly `ops`. -/
def Shows (evs : List Ev) (ops : List Dep) : Prop :=
  ∀ rest, declaredAux 0 (evs ++ rest) = ops ++ declaredAux 0 rest

theorem Flat.nil : Flat [] := fun _ _ => rfl
theorem Flat.append {a b : List Ev} (ha : Flat a) (hb : Flat b) : Flat (a ++ b) := by
  intro d rest; rw [List.append_assoc, ha, hb]
theorem Flat.plain {e : Ev} (h : e.plain = true) : Flat [e] := fun d rest => declaredAux_plain h d rest
theorem Flat.hidden {a : List Ev} (h : Flat a) : Hidden a := fun d rest => h (d + 1) rest
theorem Flat.shows {a : List Ev} (h : Flat a) : Shows a [] := fun rest => h 0 rest

theorem Hidden.nil : Hidden [] := fun _ _ => rfl
theorem Hidden.append {a b : List Ev} (ha : Hidden a) (hb : Hidden b) : Hidden (a ++ b) := by
  intro d rest; rw [List.append_assoc, ha, hb]

/-- A complete nested execution is invisible. -/
theorem Flat.exec {a : List Ev} (h : Hidden a) (t : Nat) (o : Int) :
    Flat ([.executeStart t] ++ a ++ [.executeEnd t o]) := by
  intro d rest
  simp only [List.append_assoc, List.cons_append, List.nil_append]
  show declaredAux (d + 1) (a ++ (.executeEnd t o :: rest)) = _
  rw [h]
  rfl

theorem Hidden.requireEnd (t c : Nat) (s : Stamp) (o : Int) : Hidden [.requireEnd t c s o] :=
  fun _ _ => rfl
theorem Hidden.readEnd (r c : Nat) (s : Stamp) : Hidden [.readEnd r c s] := fun _ _ => rfl
theorem Hidden.writeEnd (r c : Nat) (s : Stamp) : Hidden [.writeEnd r c s] := fun _ _ => rfl

theorem Shows.nil : Shows [] [] := fun _ => rfl
theorem Shows.append {a b : List Ev} {o₁ o₂ : List Dep} (ha : Shows a o₁) (hb : Shows b o₂) :
    Shows (a ++ b) (o₁ ++ o₂) := by
  intro rest; rw [List.append_assoc, ha, hb, List.append_assoc]
theorem Shows.requireEnd (t c : Nat) (s : Stamp) (o : Int) :
    Shows [.requireEnd t c s o] [.require t c s] := fun _ => rfl
theorem Shows.readEnd (r c : Nat) (s : Stamp) : Shows [.readEnd r c s] [.read r c s] := fun _ => rfl
theorem Shows.writeEnd (r c : Nat) (s : Stamp) : Shows [.writeEnd r c s] [.write r c s] :=
  fun _ => rfl

theorem Shows.declared {evs : List Ev} {ops : List Dep} (h : Shows evs ops) : declared evs = ops := by
  have := h []
  show declaredAux 0 evs = ops
  simpa [declaredAux] using this

/-! ### the same, between two session states -/

def FlatS (s s' : Sess) : Prop := ∃ evs, s'.trace = s.trace ++ evs ∧ Flat evs
def HiddenS (s s' : Sess) : Prop := ∃ evs, s'.trace = s.trace ++ evs ∧ Hidden evs
def ShowsS (s s' : Sess) (ops : List Dep) : Prop := ∃ evs, s'.trace = s.trace ++ evs ∧ Shows evs ops

theorem FlatS.of_eq {s s' : Sess} (h : s'.trace = s.trace) : FlatS s s' := ⟨[], by simp [h], Flat.nil⟩
theorem FlatS.refl (s : Sess) : FlatS s s := FlatS.of_eq rfl
theorem FlatS.emit (s : Sess) {e : Ev} (h : e.plain = true) : FlatS s (s.emit e) :=
  ⟨[e], rfl, Flat.plain h⟩
theorem FlatS.trans {a b c : Sess} (h₁ : FlatS a b) (h₂ : FlatS b c) : FlatS a c := by
  obtain ⟨e1, t1, f1⟩ := h₁; obtain ⟨e2, t2, f2⟩ := h₂
  exact ⟨e1 ++ e2, by rw [t2, t1, List.append_assoc], f1.append f2⟩
theorem FlatS.hidden {a b : Sess} (h : FlatS a b) : HiddenS a b := by
  obtain ⟨e, t, f⟩ := h; exact ⟨e, t, f.hidden⟩
theorem FlatS.shows {a b : Sess} (h : FlatS a b) : ShowsS a b [] := by
  obtain ⟨e, t, f⟩ := h; exact ⟨e, t, f.shows⟩
theorem HiddenS.trans {a b c : Sess} (h₁ : HiddenS a b) (h₂ : HiddenS b c) : HiddenS a c := by
  obtain ⟨e1, t1, f1⟩ := h₁; obtain ⟨e2, t2, f2⟩ := h₂
  exact ⟨e1 ++ e2, by rw [t2, t1, List.append_assoc], f1.append f2⟩
theorem ShowsS.trans {a b c : Sess} {o₁ o₂ : List Dep} (h₁ : ShowsS a b o₁) (h₂ : ShowsS b c o₂) :
    ShowsS a c (o₁ ++ o₂) := by
  obtain ⟨e1, t1, f1⟩ := h₁; obtain ⟨e2, t2, f2⟩ := h₂
  exact ⟨e1 ++ e2, by rw [t2, t1, List.append_assoc], f1.append f2⟩
/-- A nested execution between two states. -/
theorem FlatS.exec {a b : Sess} (t : Nat) (o : Int) (h : HiddenS (a.emit (.executeStart t)) b) :
    FlatS a (b.emit (.executeEnd t o)) := by
  obtain ⟨e, ht, hh⟩ := h
  refine ⟨[.executeStart t] ++ e ++ [.executeEnd t o], ?_, Flat.exec hh t o⟩
  have h1 : (b.emit (.executeEnd t o)).trace = b.trace ++ [.executeEnd t o] := rfl
  have h2 : (a.emit (.executeStart t)).trace = a.trace ++ [.executeStart t] := rfl
  rw [h1, ht, h2]
  simp only [List.append_assoc]

theorem HiddenS.emit_requireEnd (s : Sess) (t c : Nat) (st : Stamp) (o : Int) :
    HiddenS s (s.emit (.requireEnd t c st o)) := ⟨_, rfl, Hidden.requireEnd t c st o⟩
theorem ShowsS.emit_requireEnd (s : Sess) (t c : Nat) (st : Stamp) (o : Int) :
    ShowsS s (s.emit (.requireEnd t c st o)) [.require t c st] := ⟨_, rfl, Shows.requireEnd t c st o⟩

variable (sem : Sem) (body : Nat → Prog)

/-! ### the primitives -/

theorem hiddenS_of_rwpost {α : Type} {c : Nat} {s : Sess} {st : Ev} {en : Stamp → Ev}
    {x : Sess × Res (Except Int α)} (h : RWPost sem c s st en x)
    (hst : st.plain = true) (hen : ∀ stamp, Hidden [en stamp]) : HiddenS s x.1 := by
  obtain ⟨s', res⟩ := x
  have h1 : s'.trace = s.trace → HiddenS s s' := fun ht => (FlatS.of_eq ht).hidden
  have h2 : s'.trace = s.trace ++ [st] → HiddenS s s' := fun ht => ⟨_, ht, (Flat.plain hst).hidden⟩
  have h3 : ∀ stamp, s'.trace = s.trace ++ [st, en stamp] → HiddenS s s' := fun stamp ht =>
    ⟨_, ht, (Flat.plain hst).hidden.append (hen stamp)⟩
  cases res with
  | abort a =>
    rcases h with h | ⟨stamp, h⟩
    · exact h2 h
    · exact h3 stamp h
  | ok y =>
    cases y with
    | ok _ =>
      rcases h with h | ⟨stamp, h⟩
      · exact h1 h
      · exact h3 stamp h
    | error e => exact h2 h.1

theorem hiddenS_doRead (s : Sess) (r c : Nat) : HiddenS s (doRead sem s r c).1 :=
  hiddenS_of_rwpost sem (doRead_events sem s r c) rfl (fun st => Hidden.readEnd r c st)
theorem hiddenS_doWrite (s : Sess) (r c : Nat) (v : Option Int) : HiddenS s (doWrite sem s r c v).1 :=
  hiddenS_of_rwpost sem (doWrite_events sem s r c v) rfl (fun st => Hidden.writeEnd r c st)
theorem hiddenS_doWrote (s : Sess) (r c : Nat) (v : Option Int) : HiddenS s (doWrote sem s r c v).1 :=
  hiddenS_of_rwpost sem (doWrote_events sem s r c v) rfl (fun st => Hidden.writeEnd r c st)

theorem HiddenS.out {α : Type} {s s' : Sess} {F : Sess × α} {r : α} (h : HiddenS s F.1)
    (heq : F = (s', r)) : HiddenS s s' := by rw [heq] at h; exact h

/-- In a frame, a returning `read` shows exactly `readOp`. -/
theorem showsS_doRead {s s' : Sess} {cur : Nat} (hc : s.cur = some cur) {r c : Nat}
    {x : Except Int (Option Int)} (hr : doRead sem s r c = (s', .ok x)) :
    ShowsS s s' (C08.readOp sem s r c x) := by
  rcases hp : s.store.getOrCreateResNode r with ⟨st, dst⟩
  rw [doRead_eq sem s r c cur st dst hc hp] at hr
  split at hr
  · cases hr
  · split at hr
    · rename_i e hst
      cases hr
      refine ⟨[.readStart r c], rfl, ?_⟩
      simp only [C08.readOp]
      exact (Flat.plain rfl).shows
    · rename_i stamp hst
      split at hr
      · cases hr
      · cases hr
        refine ⟨[.readStart r c, .readEnd r c stamp], rfl, ?_⟩
        simp only [C08.readOp, hst]
        exact (Flat.plain (e := .readStart r c) rfl).shows.append (Shows.readEnd r c stamp)

theorem showsS_doWrite {s s' : Sess} {cur : Nat} (hc : s.cur = some cur) {r c : Nat}
    {v : Option Int} {x : Except Int Unit} (hr : doWrite sem s r c v = (s', .ok x)) :
    ShowsS s s' (C08.writeOp sem s r c v x) := by
  rcases hp : s.store.getOrCreateResNode r with ⟨st, dst⟩
  rw [doWrite_eq sem s r c cur v st dst hc hp] at hr
  have hcont : (({ s with store := st, trace := s.trace ++ [.writeStart r c] } : Sess).setContent r v).content r
      = (s.setContent r v).content r :=
    SessL.content_congr _ _ (SessL.setContent_fs_with s st _ r v) r
  simp only [hcont] at hr
  split at hr
  · cases hr
  · split at hr
    · rename_i e hst
      cases hr
      refine ⟨[.writeStart r c], by simp, ?_⟩
      simp only [C08.writeOp]
      exact (Flat.plain rfl).shows
    · rename_i stamp hst
      split at hr
      · cases hr
      · cases hr
        refine ⟨[.writeStart r c, .writeEnd r c stamp], by simp, ?_⟩
        simp only [C08.writeOp, hst]
        exact (Flat.plain (e := .writeStart r c) rfl).shows.append (Shows.writeEnd r c stamp)

theorem showsS_doWrote {s s' : Sess} {cur : Nat} (hc : s.cur = some cur) {r c : Nat}
    {v : Option Int} {x : Except Int Unit} (hr : doWrote sem s r c v = (s', .ok x)) :
    ShowsS s s' (C08.writeOp sem s r c v x) := by
  rcases hp : s.store.getOrCreateResNode r with ⟨st, dst⟩
  rw [doWrote_eq sem s r c cur v st dst hc hp] at hr
  simp only at hr
  split at hr
  · cases hr
  · split at hr
    · rename_i e hst
      cases hr
      refine ⟨[.writeStart r c], by simp, ?_⟩
      simp only [C08.writeOp]
      exact (Flat.plain rfl).shows
    · rename_i stamp hst
      split at hr
      · cases hr
      · cases hr
        refine ⟨[.writeStart r c, .writeEnd r c stamp], by simp, ?_⟩
        simp only [C08.writeOp, hst]
        exact (Flat.plain (e := .writeStart r c) rfl).shows.append (Shows.writeEnd r c stamp)

/-! ### top-down -/

structure TdDecl (f : Nat) : Prop where
  require : ∀ s t c s' o, tdRequire sem body f s t c = (s', .ok o) →
    HiddenS s s' ∧ ShowsS s s' [.require t c (sem.ostamp c o)]
  make : ∀ s t s' o, tdMake sem body f s t = (s', .ok o) → FlatS s s'
  check : ∀ s n s' o, tdCheck sem body f s n = (s', .ok o) → FlatS s s'
  checkDeps : ∀ s ds s' b, tdCheckDeps sem body f s ds = (s', .ok b) → FlatS s s'
  run : ∀ s p s' o, tdRun sem body f s p = (s', .ok o) →
    HiddenS s s' ∧ (∀ cur, s.cur = some cur → ShowsS s s' (C08.tdOps sem body f s p))

variable {sem body}

theorem tdDecl_zero : TdDecl sem body 0 := by
  refine ⟨?_, ?_, ?_, ?_, ?_⟩ <;> intros <;> rename_i h <;>
    simp only [tdRequire, tdMake, tdCheck, tdCheckDeps, tdRun] at h <;> cases h

theorem tdDecl_succ {f : Nat} (ih : TdDecl sem body f) : TdDecl sem body (f + 1) := by
  refine ⟨?_, ?_, ?_, ?_, ?_⟩
  · intro s t c s' o hr
    simp only [tdRequire] at hr
    split at hr
    · cases hr
    · rename_i s₁ heq
      split at hr
      · cases hr
      · rename_i s₂ out heq₂
        split at hr
        · cases hr
        · rename_i s₃ heq₃
          have hs : s₃ = s' := by cases hr; rfl
          have ho : out = o := by cases hr; rfl
          subst hs; subst ho
          have ht1 := reserveRequire_eq heq
          have f0 : FlatS s s₁ :=
            (FlatS.emit s (e := .requireStart t c) rfl).trans
              ((FlatS.of_eq rfl).trans (FlatS.of_eq ht1))
          have f1 : FlatS s s₂ := f0.trans (ih.make _ _ _ _ heq₂)
          have f3 : FlatS (s₂.emit (.requireEnd t c (sem.ostamp c out) out)) s₃ :=
            FlatS.of_eq (updateRequire_eq heq₃)
          exact ⟨(f1.hidden.trans (HiddenS.emit_requireEnd s₂ _ _ _ _)).trans f3.hidden,
            by simpa using (f1.shows.trans (ShowsS.emit_requireEnd s₂ t c _ out)).trans f3.shows⟩
  · intro s t s' o hr
    simp only [tdMake] at hr
    split at hr
    · split at hr
      · cases hr; exact FlatS.of_eq rfl
      · cases hr
    · split at hr
      · cases hr
      · rename_i s₁ o' heq
        cases hr
        have fa : FlatS s { s with store := (s.store.getOrCreateTaskNode t).1 } := FlatS.of_eq rfl
        exact (fa.trans (ih.check _ _ _ _ heq)).trans (FlatS.of_eq (by simp))
      · rename_i s₁ heq
        split at hr
        · cases hr
        · rename_i s₂ o' heq₂
          have fa : FlatS s { s with store := (s.store.getOrCreateTaskNode t).1 } := FlatS.of_eq rfl
          have f1 : FlatS s s₁ := fa.trans (ih.check _ _ _ _ heq)
          have f2 : FlatS s₁ (s₂.emit (.executeEnd t o')) :=
            (FlatS.of_eq (s' := { s₁ with store := s₁.store.resetTask (s.store.getOrCreateTaskNode t).2,
                                          cur := some (s.store.getOrCreateTaskNode t).2 }) rfl).trans
              (FlatS.exec t o' (ih.run _ _ _ _ heq₂).1)
          have f3 : FlatS (s₂.emit (.executeEnd t o')) s' := by
            cases hr; exact FlatS.of_eq (by simp)
          exact f1.trans (f2.trans f3)
  · intro s n s' o hr
    simp only [tdCheck] at hr
    split at hr
    · cases hr; exact FlatS.refl _
    · split at hr
      · cases hr
      · rename_i s₁ heq; cases hr; exact ih.checkDeps _ _ _ _ heq
      · rename_i s₁ heq; cases hr; exact ih.checkDeps _ _ _ _ heq
  · intro s ds s' b hr
    cases ds with
    | nil => simp only [tdCheckDeps] at hr; cases hr; exact FlatS.refl _
    | cons d ds =>
      cases d with
      | reserved => simp only [tdCheckDeps] at hr; cases hr
      | require t c stamp =>
        simp only [tdCheckDeps] at hr
        split at hr
        · cases hr
        · rename_i s₁ out heq
          have f1 : FlatS s (s₁.emit (.checkTaskEnd t c stamp (sem.ocheck c out stamp))) :=
            ((FlatS.emit s (e := .checkTaskStart t c stamp) rfl).trans (ih.make _ _ _ _ heq)).trans
              (FlatS.emit s₁ rfl)
          split at hr
          · exact f1.trans (ih.checkDeps _ _ _ _ hr)
          · cases hr; exact f1
      | read r c stamp =>
        rw [tdCheckDeps_read] at hr
        have f0 : ∀ res, FlatS s (resCheckEvents s r c stamp res) := fun res =>
          (FlatS.emit s rfl).trans (FlatS.emit _ rfl)
        split at hr
        · exact (f0 _).trans (ih.checkDeps _ _ _ _ hr)
        · cases hr; exact f0 _
        · cases hr; exact (f0 _).trans (FlatS.of_eq rfl)
      | write r c stamp =>
        rw [tdCheckDeps_write] at hr
        have f0 : ∀ res, FlatS s (resCheckEvents s r c stamp res) := fun res =>
          (FlatS.emit s rfl).trans (FlatS.emit _ rfl)
        split at hr
        · exact (f0 _).trans (ih.checkDeps _ _ _ _ hr)
        · cases hr; exact f0 _
        · cases hr; exact (f0 _).trans (FlatS.of_eq rfl)
  · intro s p s' o hr
    cases p with
    | ret v => simp only [tdRun] at hr; cases hr; exact ⟨(FlatS.refl _).hidden, fun _ _ => (FlatS.refl _).shows⟩
    | panic => simp only [tdRun] at hr; cases hr
    | req t c k =>
      simp only [tdRun] at hr
      split at hr
      · cases hr
      · rename_i s₁ out heq
        obtain ⟨h1, s1⟩ := ih.require _ _ _ _ _ heq
        obtain ⟨h2, s2⟩ := ih.run _ _ _ _ hr
        refine ⟨h1.trans h2, fun cur hc => ?_⟩
        have hops : C08.tdOps sem body (f + 1) s (.req t c k) =
            [.require t c (sem.ostamp c out)] ++ C08.tdOps sem body f s₁ (k out) := by
          simp only [C08.tdOps, heq]; rfl
        rw [hops]
        exact s1.trans (s2 cur ((cur_tdRequire sem body heq).trans hc))
    | read r c k =>
      simp only [tdRun] at hr
      split at hr
      · cases hr
      · rename_i s₁ x heq
        obtain ⟨h2, s2⟩ := ih.run _ _ _ _ hr
        refine ⟨((hiddenS_doRead sem s r c).out heq).trans h2, fun cur hc => ?_⟩
        have hops : C08.tdOps sem body (f + 1) s (.read r c k) =
            C08.readOp sem s r c x ++ C08.tdOps sem body f s₁ (k x) := by simp only [C08.tdOps, heq]
        rw [hops]
        exact (showsS_doRead sem hc heq).trans
          (s2 cur ((cur_of_fst (cur_doRead sem _ _ _) heq).trans hc))
    | write r c v k =>
      simp only [tdRun] at hr
      split at hr
      · cases hr
      · rename_i s₁ x heq
        obtain ⟨h2, s2⟩ := ih.run _ _ _ _ hr
        refine ⟨((hiddenS_doWrite sem s r c v).out heq).trans h2, fun cur hc => ?_⟩
        have hops : C08.tdOps sem body (f + 1) s (.write r c v k) =
            C08.writeOp sem s r c v x ++ C08.tdOps sem body f s₁ (k x) := by simp only [C08.tdOps, heq]
        rw [hops]
        exact (showsS_doWrite sem hc heq).trans
          (s2 cur ((cur_of_fst (cur_doWrite sem _ _ _ _) heq).trans hc))
    | wrote r c v k =>
      simp only [tdRun] at hr
      split at hr
      · cases hr
      · rename_i s₁ x heq
        obtain ⟨h2, s2⟩ := ih.run _ _ _ _ hr
        refine ⟨((hiddenS_doWrote sem s r c v).out heq).trans h2, fun cur hc => ?_⟩
        have hops : C08.tdOps sem body (f + 1) s (.wrote r c v k) =
            C08.writeOp sem s r c v x ++ C08.tdOps sem body f s₁ (k x) := by simp only [C08.tdOps, heq]
        rw [hops]
        exact (showsS_doWrote sem hc heq).trans
          (s2 cur ((cur_of_fst (cur_doWrote sem _ _ _ _) heq).trans hc))

theorem tdDecl (f : Nat) : TdDecl sem body f := by
  induction f with
  | zero => exact tdDecl_zero
  | succ f ih => exact tdDecl_succ ih

/-- **The operations performed are the dependencies declared on the tracker stream.**  For the
events `evs` appended by a returning run of a body in a frame, `declared evs` (the `requireEnd`/
`readEnd`/`writeEnd` events outside nested executions, with their checkers and stamps) is
`tdOps`. -/
theorem tdRun_declared (f : Nat) {s s' : Sess} {p : Prog} {o : Int} {cur : Nat}
    (hc : s.cur = some cur) (hr : tdRun sem body f s p = (s', .ok o)) :
    ∃ evs, s'.trace = s.trace ++ evs ∧ declared evs = C08.tdOps sem body f s p := by
  obtain ⟨evs, ht, hs⟩ := ((tdDecl f).run s p s' o hr).2 cur hc
  exact ⟨evs, ht, hs.declared⟩

/-! ### bottom-up -/

section BU
variable (sem : Sem) (body : Nat → Prog)

theorem flatS_foldl {α : Type} (g : Sess → α → Sess) (hg : ∀ (s : Sess) x, FlatS s (g s x))
    (l : List α) (s : Sess) : FlatS s (l.foldl g s) := by
  induction l generalizing s with
  | nil => exact FlatS.refl s
  | cons x l ih => exact (hg s x).trans (ih _)

theorem flatS_readCheckEvents (s : Sess) (t c : Nat) (stamp : Stamp) (res : Except Int Bool) :
    FlatS s (readCheckEvents s t c stamp res) := (FlatS.emit s rfl).trans (FlatS.emit _ rfl)

theorem flatS_scheduleEv (s : Sess) (t tnode : Nat) : FlatS s (scheduleEv s t tnode) :=
  ⟨[.scheduleTask t], rfl, Flat.plain rfl⟩

theorem flatS_trySchedule (s : Sess) (tnode : Nat) (d : Dep) : FlatS s (trySchedule sem s tnode d) := by
  cases ht : s.store.taskOf tnode with
  | none => rw [trySchedule_other sem s tnode d (.inl ht)]; exact FlatS.refl s
  | some t =>
    cases d with
    | reserved => rw [trySchedule_other sem s tnode _ (.inr (.inl rfl))]; exact FlatS.refl s
    | require t' c stamp =>
      rw [trySchedule_other sem s tnode _ (.inr (.inr ⟨_, _, _, rfl⟩))]; exact FlatS.refl s
    | read r c stamp =>
      rw [trySchedule_read sem s tnode t r c stamp ht]
      split
      · exact flatS_readCheckEvents s t c stamp _
      · exact (flatS_readCheckEvents s t c stamp _).trans (flatS_scheduleEv _ t tnode)
      next e _ =>
        have q2 : FlatS (readCheckEvents s t c stamp (.error e))
            ({ readCheckEvents s t c stamp (.error e) with errors := s.errors ++ [e] } : Sess) :=
          FlatS.of_eq rfl
        exact ((flatS_readCheckEvents s t c stamp _).trans q2).trans (flatS_scheduleEv _ t tnode)
    | write r c stamp =>
      rw [trySchedule_write sem s tnode t r c stamp ht]
      split
      · exact flatS_readCheckEvents s t c stamp _
      · exact (flatS_readCheckEvents s t c stamp _).trans (flatS_scheduleEv _ t tnode)
      next e _ =>
        have q2 : FlatS (readCheckEvents s t c stamp (.error e))
            ({ readCheckEvents s t c stamp (.error e) with errors := s.errors ++ [e] } : Sess) :=
          FlatS.of_eq rfl
        exact ((flatS_readCheckEvents s t c stamp _).trans q2).trans (flatS_scheduleEv _ t tnode)

theorem flatS_writtenSchedStep (s : Sess) (w : Nat) : FlatS s (writtenSchedStep sem s w) := by
  unfold writtenSchedStep
  split
  · exact FlatS.refl s
  · exact ((FlatS.emit s rfl).trans
      (flatS_foldl _ (fun s (p : Nat × Dep) => flatS_trySchedule sem s p.1 p.2) _ _)).trans
      (FlatS.emit _ rfl)

theorem flatS_reqSchedStep (out : Int) (s : Sess) (p : Nat × Dep) :
    FlatS s (reqSchedStep sem out s p) := by
  unfold reqSchedStep
  split
  · simp only
    split
    · exact (FlatS.emit s rfl).trans (FlatS.emit _ rfl)
    · exact ((FlatS.emit s rfl).trans (FlatS.emit _ rfl)).trans
        ⟨[.scheduleTask _], rfl, Flat.plain rfl⟩
  · exact FlatS.refl s

theorem flatS_scheduleAfterExec (s : Sess) (node t : Nat) (out : Int) :
    FlatS s (scheduleAfterExec sem s node t out) := by
  rw [scheduleAfterExec_eq]
  simp only
  have q1 : FlatS s ((s.store.resourcesWrittenBy node).foldl (writtenSchedStep sem) s) :=
    flatS_foldl _ (flatS_writtenSchedStep sem) _ s
  generalize (s.store.resourcesWrittenBy node).foldl (writtenSchedStep sem) s = s₁ at q1 ⊢
  have q2 : FlatS s₁ (s₁.emit (.schedTaskStart t)) := FlatS.emit _ rfl
  have q3 : FlatS (s₁.emit (.schedTaskStart t))
      (((s₁.emit (.schedTaskStart t)).store.requireDepsTo node).foldl (reqSchedStep sem out)
        (s₁.emit (.schedTaskStart t))) :=
    flatS_foldl _ (flatS_reqSchedStep sem out) _ _
  generalize ((s₁.emit (.schedTaskStart t)).store.requireDepsTo node).foldl (reqSchedStep sem out)
    (s₁.emit (.schedTaskStart t)) = s₃ at q3 ⊢
  have q4 : FlatS s₃ (s₃.emit (.schedTaskEnd t)) := FlatS.emit _ rfl
  have q5 : FlatS (s₃.emit (.schedTaskEnd t)) ((s₃.emit (.schedTaskEnd t)).markConsistent node) :=
    FlatS.of_eq (by simp)
  exact (((q1.trans q2).trans q3).trans q4).trans q5

structure BuDecl (f : Nat) : Prop where
  require : ∀ s t c s' o, buRequire sem body f s t c = (s', .ok o) →
    HiddenS s s' ∧ ShowsS s s' [.require t c (sem.ostamp c o)]
  make : ∀ s t n s' o, buMake sem body f s t n = (s', .ok o) → FlatS s s'
  exec : ∀ s t n s' o, buExec sem body f s t n = (s', .ok o) → FlatS s s'
  execAndSchedule : ∀ s n s' o, buExecAndSchedule sem body f s n = (s', .ok o) → FlatS s s'
  requireNow : ∀ s n s' o, buRequireNow sem body f s n = (s', .ok o) → FlatS s s'
  run : ∀ s p s' o, buRun sem body f s p = (s', .ok o) →
    HiddenS s s' ∧ (∀ cur, s.cur = some cur → ShowsS s s' (C08.buOps sem body f s p))

variable {sem body}

theorem buDecl_zero : BuDecl sem body 0 := by
  refine ⟨?_, ?_, ?_, ?_, ?_, ?_⟩ <;> intros <;> rename_i h <;>
    simp only [buRequire, buMake, buExec, buExecAndSchedule, buRequireNow, buRun] at h <;> cases h

theorem buDecl_succ {f : Nat} (ih : BuDecl sem body f) : BuDecl sem body (f + 1) := by
  refine ⟨?_, ?_, ?_, ?_, ?_, ?_⟩
  · intro s t c s' o hr
    simp only [buRequire] at hr
    split at hr
    · cases hr
    · rename_i s₁ heq
      split at hr
      · cases hr
      · rename_i s₂ out heq₂
        split at hr
        · cases hr
        · rename_i s₃ heq₃
          have hs : s'.trace = s₃.trace := by cases hr; simp
          have ho : out = o := by cases hr; rfl
          subst ho
          have ht1 := reserveRequire_eq heq
          have f0 : FlatS s s₁ :=
            (FlatS.emit s (e := .requireStart t c) rfl).trans
              ((FlatS.of_eq rfl).trans (FlatS.of_eq ht1))
          have f1 : FlatS s s₂ := f0.trans (ih.make _ _ _ _ _ heq₂)
          have f3 : FlatS (s₂.emit (.requireEnd t c (sem.ostamp c out) out)) s' :=
            (FlatS.of_eq (updateRequire_eq heq₃)).trans (FlatS.of_eq hs)
          exact ⟨(f1.hidden.trans (HiddenS.emit_requireEnd s₂ _ _ _ _)).trans f3.hidden,
            by simpa using (f1.shows.trans (ShowsS.emit_requireEnd s₂ t c _ out)).trans f3.shows⟩
  · intro s t n s' o hr
    simp only [buMake] at hr
    split at hr
    · split at hr
      · cases hr; exact FlatS.refl _
      · cases hr
    · split at hr
      · exact ih.exec _ _ _ _ _ hr
      · split at hr
        · cases hr
        · rename_i s₁ o' heq; cases hr; exact ih.requireNow _ _ _ _ heq
        · rename_i s₁ heq
          split at hr
          · cases hr; exact ih.requireNow _ _ _ _ heq
          · cases hr
  · intro s t n s' o hr
    simp only [buExec] at hr
    split at hr
    · cases hr
    · rename_i s₂ o' heq₂
      have f2 : FlatS s (s₂.emit (.executeEnd t o')) :=
        (FlatS.of_eq (s' := { s with store := s.store.resetTask n, cur := some n }) rfl).trans
          (FlatS.exec t o' (ih.run _ _ _ _ heq₂).1)
      have f3 : FlatS (s₂.emit (.executeEnd t o')) s' := by cases hr; exact FlatS.of_eq rfl
      exact f2.trans f3
  · intro s n s' o hr
    simp only [buExecAndSchedule] at hr
    split at hr
    · cases hr
    · rename_i t ht
      split at hr
      · cases hr
      · rename_i s₁ o' heq
        have hs : scheduleAfterExec sem s₁ n t o' = s' := by cases hr; rfl
        rw [← hs]
        exact (ih.exec _ _ _ _ _ heq).trans (flatS_scheduleAfterExec sem s₁ n t o')
  · intro s src s' o hr
    simp only [buRequireNow] at hr
    split at hr
    · cases hr; exact FlatS.refl _
    · split at hr
      · cases hr; exact FlatS.refl _
      · rename_i m q hq
        split at hr
        · cases hr
        · rename_i s₁ o' heq
          have f1 : FlatS s s₁ :=
            (FlatS.of_eq (s' := { s with queue := q }) rfl).trans (ih.execAndSchedule _ _ _ _ heq)
          split at hr
          · have hs : s₁ = s' := by cases hr; rfl
            subst hs; exact f1
          · exact f1.trans (ih.requireNow _ _ _ _ hr)
  · intro s p s' o hr
    cases p with
    | ret v => simp only [buRun] at hr; cases hr; exact ⟨(FlatS.refl _).hidden, fun _ _ => (FlatS.refl _).shows⟩
    | panic => simp only [buRun] at hr; cases hr
    | req t c k =>
      simp only [buRun] at hr
      split at hr
      · cases hr
      · rename_i s₁ out heq
        obtain ⟨h1, s1⟩ := ih.require _ _ _ _ _ heq
        obtain ⟨h2, s2⟩ := ih.run _ _ _ _ hr
        refine ⟨h1.trans h2, fun cur hc => ?_⟩
        have hops : C08.buOps sem body (f + 1) s (.req t c k) =
            [.require t c (sem.ostamp c out)] ++ C08.buOps sem body f s₁ (k out) := by
          simp only [C08.buOps, heq]; rfl
        rw [hops]
        exact s1.trans (s2 cur ((cur_buRequire sem body heq).trans hc))
    | read r c k =>
      simp only [buRun] at hr
      split at hr
      · cases hr
      · rename_i s₁ x heq
        obtain ⟨h2, s2⟩ := ih.run _ _ _ _ hr
        refine ⟨((hiddenS_doRead sem s r c).out heq).trans h2, fun cur hc => ?_⟩
        have hops : C08.buOps sem body (f + 1) s (.read r c k) =
            C08.readOp sem s r c x ++ C08.buOps sem body f s₁ (k x) := by simp only [C08.buOps, heq]
        rw [hops]
        exact (showsS_doRead sem hc heq).trans
          (s2 cur ((cur_of_fst (cur_doRead sem _ _ _) heq).trans hc))
    | write r c v k =>
      simp only [buRun] at hr
      split at hr
      · cases hr
      · rename_i s₁ x heq
        obtain ⟨h2, s2⟩ := ih.run _ _ _ _ hr
        refine ⟨((hiddenS_doWrite sem s r c v).out heq).trans h2, fun cur hc => ?_⟩
        have hops : C08.buOps sem body (f + 1) s (.write r c v k) =
            C08.writeOp sem s r c v x ++ C08.buOps sem body f s₁ (k x) := by simp only [C08.buOps, heq]
        rw [hops]
        exact (showsS_doWrite sem hc heq).trans
          (s2 cur ((cur_of_fst (cur_doWrite sem _ _ _ _) heq).trans hc))
    | wrote r c v k =>
      simp only [buRun] at hr
      split at hr
      · cases hr
      · rename_i s₁ x heq
        obtain ⟨h2, s2⟩ := ih.run _ _ _ _ hr
        refine ⟨((hiddenS_doWrote sem s r c v).out heq).trans h2, fun cur hc => ?_⟩
        have hops : C08.buOps sem body (f + 1) s (.wrote r c v k) =
            C08.writeOp sem s r c v x ++ C08.buOps sem body f s₁ (k x) := by simp only [C08.buOps, heq]
        rw [hops]
        exact (showsS_doWrote sem hc heq).trans
          (s2 cur ((cur_of_fst (cur_doWrote sem _ _ _ _) heq).trans hc))

theorem buDecl (f : Nat) : BuDecl sem body f := by
  induction f with
  | zero => exact buDecl_zero
  | succ f ih => exact buDecl_succ ih

/-- The bottom-up analogue of `tdRun_declared`. -/
theorem buRun_declared (f : Nat) {s s' : Sess} {p : Prog} {o : Int} {cur : Nat}
    (hc : s.cur = some cur) (hr : buRun sem body f s p = (s', .ok o)) :
    ∃ evs, s'.trace = s.trace ++ evs ∧ declared evs = C08.buOps sem body f s p := by
  obtain ⟨evs, ht, hs⟩ := ((buDecl f).run s p s' o hr).2 cur hc
  exact ⟨evs, ht, hs.declared⟩

end BU

end PieModel
