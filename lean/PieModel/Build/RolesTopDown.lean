/-
Static roles, top-down build: for a program table that respects the roles
(`WellFormedBody ro body`), `tdRequire`, `tdMake`, `tdCheck`, `tdCheckDeps`, `tdRun`,
`sessionRequire`, `requireAll` preserve `SessWF` and `RolesInv`, whatever the result, and never
abort with `cyclic` / `hidden` / `overlap`.  Joint induction on fuel; `tdRun` is stated for the
remaining program with the path accumulator reflected in the store.
-/
import PieModel.Build.RolesSession
import PieModel.Build.SessWFTopDown
import PieModel.Build.Proofs.CurLemmas
import PieModel.Build.Pie

namespace PieModel

/-- Precondition of a require of `t`: the requiring task (if any) has smaller rank. -/
def ReqPre (ro : Roles) (s : Sess) (t : Nat) : Prop :=
  ∀ cur, s.cur = some cur → ∃ t0, s.store.taskOf cur = some t0 ∧ ro.rank t0 < ro.rank t

/-- On success the accumulator of the requiring task, extended by `t`, is reflected. -/
def ReqAcc (s : Sess) (t : Nat) (p : Sess × Res Int) : Prop :=
  ∀ cur a o, s.cur = some cur → p.2 = .ok o → AccOK s.store cur a →
    AccOK p.1.store cur { a with req := t :: a.req }

theorem ReqKeep.out {s s' : Sess} {dst : Nat} {F : Sess × Res Unit} (k : ReqKeep s dst F)
    (heq : F = (s', .ok ())) {cur : Nat} {a : Acc} (hc : s.cur = some cur)
    (ha : AccOK s.store cur a) :
    AccOK s'.store cur a ∧ ∃ dep, s'.store.g.getEdgeData cur dst = some dep := by
  subst heq; exact k cur a hc rfl ha

variable (ro : Roles) (sem : Sem) (body : Nat → Prog)

/-- The joint statement for fuel `f`. -/
structure TdRoles (f : Nat) : Prop where
  require : ∀ s t c, SessWF s → RolesInv ro s.store → ReqPre ro s t →
    Post ro (ro.rank t) s.cur s (tdRequire sem body f s t c) ∧
      ReqAcc s t (tdRequire sem body f s t c)
  make : ∀ s t, SessWF s → RolesInv ro s.store →
    Post ro (ro.rank t) none s (tdMake sem body f s t)
  check : ∀ s node t, SessWF s → RolesInv ro s.store → s.store.taskOf node = some t →
    Post ro (ro.rank t + 1) none s (tdCheck sem body f s node)
  checkDeps : ∀ s ds k, SessWF s → RolesInv ro s.store →
    (∀ u c st, Dep.require u c st ∈ ds → k ≤ ro.rank u) →
    Post ro k none s (tdCheckDeps sem body f s ds)
  run : ∀ s p cur t0 a, SessWF s → RolesInv ro s.store → s.cur = some cur →
    s.store.taskOf cur = some t0 → StaticRolesFrom ro t0 a p → AccOK s.store cur a →
    Post ro (ro.rank t0) none s (tdRun sem body f s p)

theorem tdRoles_zero : TdRoles ro sem body 0 := by
  refine ⟨?_, ?_, ?_, ?_, ?_⟩
  · intro s t c h hi _; unfold tdRequire
    exact ⟨Post.refl_of h hi (NoViol.abort_of rfl), fun _ _ _ _ h' => nomatch h'⟩
  · intro s t h hi; unfold tdMake; exact Post.refl_of h hi (NoViol.abort_of rfl)
  · intro s n t h hi _; unfold tdCheck; exact Post.refl_of h hi (NoViol.abort_of rfl)
  · intro s ds k h hi _; unfold tdCheckDeps; exact Post.refl_of h hi (NoViol.abort_of rfl)
  · intro s p cur t0 a h hi _ _ _ _; unfold tdRun; exact Post.refl_of h hi (NoViol.abort_of rfl)

variable {ro sem body}

theorem tdRequire_succ_roles {f : Nat} (ih : TdRoles ro sem body f) (s : Sess) (t c : Nat)
    (h : SessWF s) (hi : RolesInv ro s.store) (hpre : ReqPre ro s t) :
    Post ro (ro.rank t) s.cur s (tdRequire sem body (f + 1) s t c) ∧
      ReqAcc s t (tdRequire sem body (f + 1) s t c) := by
  unfold tdRequire; simp only []
  have e0 : RExt ro (ro.rank t) s.cur s (s.emit (.requireStart t c)) := (RExt.refl h hi).emit _
  have x1 := e0.wf.getTask t
  have i1 := e0.inv.getOrCreateTaskNode t
  have ed1 := Store.getEdgeData_getOrCreateTaskNode e0.wf.store t
  have e1 := e0.step x1 i1 (FrameBelow.of_eq ed1)
  have hd := Store.taskOf_getOrCreateTaskNode_self e0.wf.store t
  have hpre1 : ReqPre ro
      { s.emit (.requireStart t c) with
        store := ((s.emit (.requireStart t c)).store.getOrCreateTaskNode t).1 } t := by
    intro cur hcur
    obtain ⟨t0, h1, h2⟩ := hpre cur hcur
    exact ⟨t0, x1.le.task _ _ h1, h2⟩
  obtain ⟨p2, k2⟩ := reserveRequire_roles e1.wf i1 hd hpre1 (ro.rank t)
  split
  next s2 a heq =>
    exact ⟨Post.left e1 (p2.abort heq), fun _ _ _ _ h' => nomatch h'⟩
  next s2 heq =>
    obtain ⟨e2', _⟩ := p2.out heq
    have e2 := e1.trans e2'
    have c2 : s2.cur = s.cur := by
      have := cur_of_fst (cur_reserveRequire _ _) heq
      exact this
    have pm := ih.make s2 t e2.wf e2.inv
    split
    next s3 a heq3 =>
      exact ⟨Post.left e2 (pm.add.abort heq3), fun _ _ _ _ h' => nomatch h'⟩
    next s3 out heq3 =>
      obtain ⟨e3', _⟩ := pm.out heq3
      have e3 := (e2.trans e3'.add).emit (.requireEnd t c (sem.ostamp c out) out)
      have c3 : s3.cur = s2.cur := cur_tdMake sem body heq3
      have hd2 := e2'.ext.le.task _ _ hd
      have hd3 := e3'.ext.le.task _ _ hd2
      obtain ⟨p4, k4⟩ := updateRequire_roles (ro := ro) e3.wf e3.inv c (sem.ostamp c out)
        (dst := ((s.emit (.requireStart t c)).store.getOrCreateTaskNode t).2) (t := t) hd3
        (ro.rank t)
      have hcur3 : (s3.emit (.requireEnd t c (sem.ostamp c out) out)).cur = s.cur := by
        show s3.cur = s.cur
        rw [c3, c2]
      rw [hcur3] at p4
      split
      next s4 a heq4 =>
        exact ⟨Post.left e3 (p4.abort heq4), fun _ _ _ _ h' => nomatch h'⟩
      next s4 heq4 =>
        refine ⟨⟨e3.trans (p4.out heq4).1, NoViol.ok _⟩, ?_⟩
        intro cur a o hcur _ ha
        obtain ⟨t0, ht0, hlt⟩ := hpre cur hcur
        -- node creation
        have a1 : AccOK ((s.emit (.requireStart t c)).store.getOrCreateTaskNode t).1 cur a :=
          ha.of_eq x1.le (ed1 cur)
        -- reserve
        obtain ⟨a2, _⟩ := k2.out heq (cur := cur) hcur a1
        -- make consistent: the edges of `cur` are below the frame
        have ht2 : s2.store.taskOf cur = some t0 := e2'.ext.le.task _ _ (x1.le.task _ _ ht0)
        have a3 : AccOK s3.store cur a :=
          a2.of_eq e3'.ext.le (e3'.frame cur t0 ht2 hlt (fun hh => nomatch hh))
        -- update
        obtain ⟨a4, dep, hdep⟩ := k4.out heq4 (cur := cur) (hcur3.trans hcur) a3
        have hd4 := (p4.out heq4).1.ext.le.task _ _ hd3
        exact a4.consReq hd4 hdep

theorem tdMake_succ_roles (hwf : WellFormedBody ro body) {f : Nat} (ih : TdRoles ro sem body f)
    (s : Sess) (t : Nat) (h : SessWF s) (hi : RolesInv ro s.store) :
    Post ro (ro.rank t) none s (tdMake sem body (f + 1) s t) := by
  unfold tdMake; simp only []
  have x1 := h.getTask t
  have i1 := hi.getOrCreateTaskNode t
  have e1 : RExt ro (ro.rank t) none s { s with store := (s.store.getOrCreateTaskNode t).1 } :=
    ⟨x1, i1, FrameBelow.of_eq (Store.getEdgeData_getOrCreateTaskNode h.store t)⟩
  have hd := Store.taskOf_getOrCreateTaskNode_self h.store t
  split
  · split
    · exact ⟨e1, NoViol.ok _⟩
    · exact ⟨e1, NoViol.abort_of rfl⟩
  · have pc := (ih.check _ _ t e1.wf i1 hd).mono (Nat.le_succ _)
    split
    next s2 a heq => exact Post.left e1 (pc.abort heq)
    next s2 o heq => exact ⟨(e1.trans (pc.out heq).1).markConsistent _, NoViol.ok _⟩
    next s2 heq =>
      obtain ⟨e2', _⟩ := pc.out heq
      have e2 := e1.trans e2'
      have hd2 := e2'.ext.le.task _ _ hd
      have x3 := (e2.wf.startExec hd2).emit (.executeStart t)
      have i3 := e2.inv.resetTask (s.store.getOrCreateTaskNode t).2
      have f3 : FrameBelow ro (ro.rank t) none s2.store
          (s2.store.resetTask (s.store.getOrCreateTaskNode t).2) :=
        (FrameBelow.of_ne (fun a ha b => by
          rw [Store.getEdgeData_resetTask e2.wf.store, if_neg ha])).drop hd2 (Nat.le_refl _)
      have e3 := e2.step x3 i3 f3
      have a3 := AccOK.start e2.wf.store (s.store.getOrCreateTaskNode t).2
      have hd3 := x3.le.task _ _ hd2
      have pr := ih.run _ (body t) (s.store.getOrCreateTaskNode t).2 t {} e3.wf i3 rfl hd3
        (hwf t) a3
      split
      next s4 a heq4 => exact Post.left e3 (pr.abort heq4)
      next s4 o heq4 =>
        obtain ⟨e4', _⟩ := pr.out heq4
        have e4 := e3.trans e4'
        have x5 := ((x3.trans e4'.ext).emit (.executeEnd t o)).endExec e2.wf
          (s.store.getOrCreateTaskNode t).2 o
        refine ⟨RExt.markConsistent ⟨x1.trans (e2'.ext.trans x5), ?_, ?_⟩ _, NoViol.ok _⟩
        · exact e4.inv.setTaskOutput _ o
        · exact e4.frame.trans e4.ext.le (FrameBelow.of_eq (by simp))

theorem tdCheck_succ_roles {f : Nat} (ih : TdRoles ro sem body f) (s : Sess) (node t : Nat)
    (h : SessWF s) (hi : RolesInv ro s.store) (ht : s.store.taskOf node = some t) :
    Post ro (ro.rank t + 1) none s (tdCheck sem body (f + 1) s node) := by
  unfold tdCheck
  split
  · exact Post.refl_of h hi (NoViol.ok _)
  · have hds : ∀ u c st, Dep.require u c st ∈ s.store.depsFrom node →
        ro.rank t + 1 ≤ ro.rank u := by
      intro u c st hm
      rw [Store.depsFrom_eq] at hm
      obtain ⟨p, hp, hp2⟩ := List.mem_map.mp hm
      obtain ⟨m, d⟩ := p
      simp only at hp2; subst hp2
      have he := (Dag.mem_outgoingEdges hi.wf.gwf node m _).mp hp
      exact hi.req _ _ _ t u he ht (hi.wf.edge_dst _ _ _ he)
    have pd := ih.checkDeps s _ (ro.rank t + 1) h hi hds
    split
    next s2 a heq => exact pd.abort heq
    next s2 heq => exact ⟨(pd.out heq).1, NoViol.ok _⟩
    next s2 heq => exact ⟨(pd.out heq).1, NoViol.ok _⟩

theorem tdCheckDeps_succ_roles {f : Nat} (ih : TdRoles ro sem body f) (s : Sess) (ds : List Dep)
    (k : Nat) (h : SessWF s) (hi : RolesInv ro s.store)
    (hds : ∀ u c st, Dep.require u c st ∈ ds → k ≤ ro.rank u) :
    Post ro k none s (tdCheckDeps sem body (f + 1) s ds) := by
  cases ds with
  | nil => unfold tdCheckDeps; exact Post.refl_of h hi (NoViol.ok _)
  | cons d ds =>
    have hds' : ∀ u c st, Dep.require u c st ∈ ds → k ≤ ro.rank u :=
      fun u c st hm => hds u c st (List.mem_cons_of_mem _ hm)
    cases d with
    | reserved => unfold tdCheckDeps; exact Post.refl_of h hi (NoViol.abort_of rfl)
    | require t c stamp =>
      unfold tdCheckDeps; simp only []
      have e0 : RExt ro k none s (s.emit (.checkTaskStart t c stamp)) := (RExt.refl h hi).emit _
      have pm := (ih.make _ t e0.wf e0.inv).mono (hds t c stamp List.mem_cons_self)
      split
      next s2 a heq => exact Post.left e0 (pm.abort heq)
      next s2 out heq =>
        have e2 := (e0.trans (pm.out heq).1).emit
          (.checkTaskEnd t c stamp (sem.ocheck c out stamp))
        split
        · exact Post.left e2 (ih.checkDeps _ ds k e2.wf e2.inv hds')
        · exact ⟨e2, NoViol.ok _⟩
    | read r c stamp =>
      unfold tdCheckDeps; simp only []
      have e0 : RExt ro k none s _ := ((RExt.refl h hi).emit (.checkResStart r c stamp)).emit
        (.checkResEnd r c stamp (checkResDep sem (s.emit (.checkResStart r c stamp)) r c stamp))
      split
      · exact Post.left e0 (ih.checkDeps _ ds k e0.wf e0.inv hds')
      · exact ⟨e0, NoViol.ok _⟩
      · exact ⟨e0.same rfl rfl rfl, NoViol.ok _⟩
    | write r c stamp =>
      unfold tdCheckDeps; simp only []
      have e0 : RExt ro k none s _ := ((RExt.refl h hi).emit (.checkResStart r c stamp)).emit
        (.checkResEnd r c stamp (checkResDep sem (s.emit (.checkResStart r c stamp)) r c stamp))
      split
      · exact Post.left e0 (ih.checkDeps _ ds k e0.wf e0.inv hds')
      · exact ⟨e0, NoViol.ok _⟩
      · exact ⟨e0.same rfl rfl rfl, NoViol.ok _⟩

theorem tdRun_succ_roles {f : Nat} (ih : TdRoles ro sem body f) (s : Sess) (p : Prog)
    (cur t0 : Nat) (a : Acc) (h : SessWF s) (hi : RolesInv ro s.store) (hc : s.cur = some cur)
    (ht : s.store.taskOf cur = some t0) (hp : StaticRolesFrom ro t0 a p)
    (ha : AccOK s.store cur a) : Post ro (ro.rank t0) none s (tdRun sem body (f + 1) s p) := by
  cases p with
  | ret v => unfold tdRun; exact Post.refl_of h hi (NoViol.ok _)
  | panic => unfold tdRun; exact Post.refl_of h hi (NoViol.abort_of rfl)
  | req u c k =>
    unfold tdRun
    obtain ⟨hlt, hk⟩ := hp
    have hpre : ReqPre ro s u := fun cur' hc' => by
      rw [hc] at hc'; cases hc'; exact ⟨t0, ht, hlt⟩
    obtain ⟨pq, ka⟩ := ih.require s u c h hi hpre
    rw [hc] at pq
    have pq' := (pq.mono (Nat.le_of_lt hlt)).drop ht (Nat.le_refl _)
    split
    next s2 a' heq => exact pq'.abort heq
    next s2 out heq =>
      obtain ⟨e2, _⟩ := pq'.out heq
      have c2 := cur_tdRequire sem body heq
      have a2 : AccOK s2.store cur { a with req := u :: a.req } := by
        have := ka cur a out hc (by rw [heq]) ha
        rwa [heq] at this
      exact Post.left e2 (ih.run s2 (k out) cur t0 _ e2.wf e2.inv (c2.trans hc)
        (e2.ext.le.task _ _ ht) (hk out) a2)
  | read r c k =>
    unfold tdRun
    obtain ⟨_, hreq, hk⟩ := hp
    obtain ⟨pr, ar⟩ := doRead_roles sem h hi hc ht ha r c hreq (ro.rank t0)
    have pr' := pr.drop ht (Nat.le_refl _)
    split
    next s2 a' heq => exact pr'.abort heq
    next s2 x heq =>
      obtain ⟨e2, _⟩ := pr'.out heq
      have c2 : s2.cur = s.cur := cur_of_fst (cur_doRead sem s r c) heq
      have a2 : AccOK s2.store cur a := by rwa [heq] at ar
      exact Post.left e2 (ih.run s2 (k x) cur t0 a e2.wf e2.inv (c2.trans hc)
        (e2.ext.le.task _ _ ht) (hk x) a2)
  | write r c v k =>
    unfold tdRun
    obtain ⟨hg, hnw, hk⟩ := hp
    obtain ⟨pr, ar⟩ := doWrite_roles sem h hi hc ht ha r c v hg hnw (ro.rank t0)
    have pr' := pr.drop ht (Nat.le_refl _)
    split
    next s2 a' heq => exact pr'.abort heq
    next s2 x heq =>
      obtain ⟨e2, _⟩ := pr'.out heq
      have c2 : s2.cur = s.cur := cur_of_fst (cur_doWrite sem s r c v) heq
      have a2 : AccOK s2.store cur { a with wr := r :: a.wr } := by rwa [heq] at ar
      exact Post.left e2 (ih.run s2 (k x) cur t0 _ e2.wf e2.inv (c2.trans hc)
        (e2.ext.le.task _ _ ht) (hk x) a2)
  | wrote r c v k =>
    unfold tdRun
    obtain ⟨hg, hnw, hk⟩ := hp
    obtain ⟨pr, ar⟩ := doWrote_roles sem h hi hc ht ha r c v hg hnw (ro.rank t0)
    have pr' := pr.drop ht (Nat.le_refl _)
    split
    next s2 a' heq => exact pr'.abort heq
    next s2 x heq =>
      obtain ⟨e2, _⟩ := pr'.out heq
      have c2 : s2.cur = s.cur := cur_of_fst (cur_doWrote sem s r c v) heq
      have a2 : AccOK s2.store cur { a with wr := r :: a.wr } := by rwa [heq] at ar
      exact Post.left e2 (ih.run s2 (k x) cur t0 _ e2.wf e2.inv (c2.trans hc)
        (e2.ext.le.task _ _ ht) (hk x) a2)

theorem tdRoles (hwf : WellFormedBody ro body) (f : Nat) : TdRoles ro sem body f := by
  induction f with
  | zero => exact tdRoles_zero ro sem body
  | succ f ih =>
    exact ⟨tdRequire_succ_roles ih, tdMake_succ_roles hwf ih, tdCheck_succ_roles ih,
      tdCheckDeps_succ_roles ih, tdRun_succ_roles ih⟩

/-! ### sessions -/

/-- Top-level post-condition: well-formed session, invariant, no diagnosed violation. -/
abbrev Top (ro : Roles) (s : Sess) {α : Type} (p : Sess × Res α) : Prop := Post ro 0 none s p

theorem sessionRequire_roles (hwf : WellFormedBody ro body) (f : Nat) {s : Sess} (h : SessWF s)
    (hi : RolesInv ro s.store) (t : Nat) : Top ro s (sessionRequire sem body f s t) := by
  unfold sessionRequire; simp only []
  have e0 : RExt ro 0 none s ({ s with cur := none }.emit .buildStart) :=
    ⟨h.clearCur.emit .buildStart, hi, FrameBelow.refl _ _ _ _⟩
  have pq := ((tdRoles (sem := sem) hwf f).require _ t alwaysChecker e0.wf e0.inv
    (fun cur hc => nomatch hc)).1.mono (Nat.zero_le _)
  split
  next s2 a heq => exact Post.left e0 (pq.abort heq)
  next s2 o heq => exact ⟨(e0.trans (pq.out heq).1).emit .buildEnd, NoViol.ok _⟩

theorem requireAll_roles (hwf : WellFormedBody ro body) (f : Nat) (ts : List Nat) :
    ∀ {s : Sess}, SessWF s → RolesInv ro s.store → Top ro s (requireAll sem body f s ts) := by
  induction ts with
  | nil => intro s h hi; unfold requireAll; exact Post.refl_of h hi (NoViol.ok _)
  | cons t ts ih =>
    intro s h hi
    unfold requireAll
    have p1 := sessionRequire_roles (sem := sem) hwf f h hi t
    split
    next s2 a heq => exact p1.abort heq
    next s2 o heq =>
      obtain ⟨e2, _⟩ := p1.out heq
      have p2 := ih e2.wf e2.inv
      split
      next s3 a heq3 => exact Post.left e2 (p2.abort heq3)
      next s3 os heq3 => exact ⟨e2.trans (p2.out heq3).1, NoViol.ok _⟩

end PieModel
