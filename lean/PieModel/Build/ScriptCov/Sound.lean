/-
Soundness of the Boolean test `Table.covB` (`Build/ScriptCov/Defs.lean`) of the transitive
static-role hypotheses on script tables.

* `CovRolesRec.toCRoles` / `recOfCRoles`: the import-free record of `Defs.lean` is
  `TransRoles.CRoles` (mutually inverse conversions, the fields agree by `rfl`).
* `covRolesOf tbl : CRoles`: the roles-with-covers of a table.
* `covFromB_sound`: the script test implies `StaticCovFrom` of the compiled script, every
  environment.
* `table_staticCov`, `table_covRank`, `table_prefixCov`: the three parts of the soundness of
  `Table.covB`; the relay-prefix shape `PrefixCov` holds of EVERY table, by construction of `cov`.
-/
import PieModel.Build.ScriptCov.Defs
import PieModel.Build.TransRoles.Defs
import PieModel.Build.ScriptWF.Table

namespace PieModel

open TransRoles

namespace ScriptCov

/-! ### the import-free record is `CRoles` -/

/-- The record of `Defs.lean` as a `CRoles`. -/
def CovRolesRec.toCRoles (r : CovRolesRec) : CRoles :=
  { rank := r.rank, gen := r.gen, cov := r.cov }

/-- ... and back. -/
def recOfCRoles (cr : CRoles) : CovRolesRec :=
  { rank := cr.rank, gen := cr.gen, cov := cr.cov }

theorem toCRoles_recOfCRoles (cr : CRoles) : (recOfCRoles cr).toCRoles = cr := rfl

theorem recOfCRoles_toCRoles (r : CovRolesRec) : recOfCRoles r.toCRoles = r := rfl

theorem toCRoles_fields (r : CovRolesRec) :
    r.toCRoles.rank = r.rank ∧ r.toCRoles.gen = r.gen ∧ r.toCRoles.cov = r.cov :=
  ⟨rfl, rfl, rfl⟩

end ScriptCov

/-- **The roles-with-covers read off a script table**: `gen` as in `rolesOf`; `cov t` the chain of
first requires starting at `t`; `rank t = tbl.length - height t` (longest chain of requires). -/
def covRolesOf (tbl : Table) : CRoles := (ScriptCov.covRolesRecOf tbl).toCRoles

namespace ScriptCov

theorem covRolesOf_gen (tbl : Table) : (covRolesOf tbl).gen = (rolesOf tbl).gen := rfl

/-- Looking up a key in a list of pairs `(key, f key)`. -/
theorem lookupCov_map (f : Nat → List Nat) (t : Nat) : ∀ l : Table,
    lookupCov (l.map fun e => (e.1, f e.1)) t =
      if (l.find? (·.1 == t)).isSome then f t else [] := by
  intro l
  induction l with
  | nil => rfl
  | cons e l ih =>
    by_cases he : e.1 = t
    · simp [lookupCov, List.find?, he]
    · have hb : (e.1 == t) = false := by simpa using he
      simp only [lookupCov, List.map_cons, List.find?, hb] at ih ⊢
      exact ih

/-- A task without entry has no chain. -/
theorem reqChain_of_not_mem (tbl : Table) (f t : Nat) (h : tbl.find? (·.1 == t) = none) :
    reqChain tbl f t = [] := by
  cases f with
  | zero => rfl
  | succ f =>
    rw [reqChain]
    have : tblHeadReq tbl t = none := by unfold tblHeadReq; rw [h]
    rw [this]

/-- The precomputed chains are the chains. -/
theorem covRolesOf_cov (tbl : Table) (t : Nat) :
    (covRolesOf tbl).cov t = reqChain tbl tbl.length t := by
  show lookupCov (covTableOf tbl) t = _
  unfold covTableOf
  rw [lookupCov_map]
  cases h : tbl.find? (·.1 == t) with
  | none => simp [reqChain_of_not_mem tbl _ t h]
  | some e => simp

/-! ### the script test -/

theorem coversB_sound {r : CovRolesRec} {rq : List Nat} {u : Nat}
    (h : coversB r.cov rq u = true) : Covers r.toCRoles rq u := by
  unfold coversB at h
  obtain ⟨m, hm, hc⟩ := List.any_eq_true.mp h
  refine ⟨m, hm, ?_⟩
  simp only [Bool.or_eq_true, beq_iff_eq, List.contains_eq_mem, decide_eq_true_eq] at hc
  exact hc

theorem retCovB_sound {r : CovRolesRec} {t : Nat} {rq : List Nat} (h : retCovB r t rq = true) :
    ∀ u ∈ r.toCRoles.cov t, Covers r.toCRoles rq u := by
  intro u hu
  exact coversB_sound (List.all_eq_true.mp h u hu)

theorem covFromB_sound (r : CovRolesRec) (t : Nat) (s : Script) : ∀ rq wr,
    covFromB r t rq wr s = true →
    ∀ env, StaticCovFrom r.toCRoles t ⟨rq, wr⟩ (compile env s) := by
  induction s with
  | ret e => intro rq wr hb env; exact retCovB_sound hb
  | panic => intro _ _ _ env; exact True.intro
  | req u c k ih =>
    intro rq wr hb env
    simp only [covFromB, Bool.and_eq_true, decide_eq_true_eq] at hb
    exact ⟨hb.1, fun o => ih _ _ hb.2 _⟩
  | read x c k ih =>
    intro rq wr hb env
    simp only [covFromB, Bool.and_eq_true] at hb
    obtain ⟨⟨hg, hret⟩, hk⟩ := hb
    refine ⟨?_, ?_, fun y => ?_⟩
    · intro hgen
      have hgen' : r.gen x = some t := hgen
      rw [hgen'] at hg
      simp at hg
    · intro w hgen
      have hgen' : r.gen x = some w := hgen
      rw [hgen'] at hg
      simp only [Bool.and_eq_true] at hg
      exact coversB_sound hg.2
    · cases y with
      | ok v => exact ih _ _ hk _
      | error e => exact retCovB_sound hret
  | write x c e k ih =>
    intro rq wr hb env
    simp only [covFromB, Bool.and_eq_true, beq_iff_eq, Bool.not_eq_true',
      List.contains_eq_mem, decide_eq_false_iff_not] at hb
    obtain ⟨⟨⟨hg, hw⟩, hret⟩, hk⟩ := hb
    refine ⟨hg, hw, fun y => ?_⟩
    cases y with
    | ok v => exact ih _ _ hk _
    | error e => exact retCovB_sound hret
  | wrote x c e k ih =>
    intro rq wr hb env
    simp only [covFromB, Bool.and_eq_true, beq_iff_eq, Bool.not_eq_true',
      List.contains_eq_mem, decide_eq_false_iff_not] at hb
    obtain ⟨⟨⟨hg, hw⟩, hret⟩, hk⟩ := hb
    refine ⟨hg, hw, fun y => ?_⟩
    cases y with
    | ok v => exact ih _ _ hk _
    | error e => exact retCovB_sound hret
  | ite e a b iha ihb =>
    intro rq wr hb env
    simp only [covFromB, Bool.and_eq_true] at hb
    simp only [compile]
    split
    · exact iha _ _ hb.1 env
    · exact ihb _ _ hb.2 env

/-! ### the chain of first requires -/

/-- More fuel only extends the chain. -/
theorem reqChain_mono (tbl : Table) : ∀ (f t w : Nat), w ∈ reqChain tbl f t →
    w ∈ reqChain tbl (f + 1) t := by
  intro f
  induction f with
  | zero => intro t w hw; cases hw
  | succ f ih =>
    intro t w hw
    rw [reqChain] at hw ⊢
    cases hh : tblHeadReq tbl t with
    | none => rw [hh] at hw; cases hw
    | some u =>
      rw [hh] at hw
      simp only [List.mem_cons] at hw ⊢
      rcases hw with rfl | hw
      · exact .inl rfl
      · exact .inr (ih u w hw)

/-- A chain starts with the first require `u` of the task and goes on with the chain of `u`. -/
theorem reqChain_cases (tbl : Table) {f t w : Nat} (hw : w ∈ reqChain tbl f t) :
    ∃ u, tblHeadReq tbl t = some u ∧ (w = u ∨ w ∈ reqChain tbl f u) := by
  cases f with
  | zero => cases hw
  | succ f =>
    rw [reqChain] at hw
    cases hh : tblHeadReq tbl t with
    | none => rw [hh] at hw; cases hw
    | some u =>
      rw [hh] at hw
      simp only [List.mem_cons] at hw
      rcases hw with rfl | hw
      · exact ⟨w, rfl, .inl rfl⟩
      · exact ⟨u, rfl, .inr (reqChain_mono tbl f u w hw)⟩

/-- If first requires go upward in rank, so do chains. -/
theorem reqChain_rank (tbl : Table) (rank : Nat → Nat)
    (h : ∀ t u, tblHeadReq tbl t = some u → rank t < rank u) :
    ∀ (f t w : Nat), w ∈ reqChain tbl f t → rank t < rank w := by
  intro f
  induction f with
  | zero => intro t w hw; cases hw
  | succ f ih =>
    intro t w hw
    rw [reqChain] at hw
    cases hh : tblHeadReq tbl t with
    | none => rw [hh] at hw; cases hw
    | some u =>
      rw [hh] at hw
      simp only [List.mem_cons] at hw
      rcases hw with rfl | hw
      · exact h t w hh
      · exact Nat.lt_trans (h t u hh) (ih u w hw)

/-- The first require of a task of the table, in terms of `bodyOf`: the task has an entry in the
table whose script — the one `bodyOf` compiles — starts with that require. -/
theorem tblHeadReq_spec {tbl : Table} {t u : Nat} (h : tblHeadReq tbl t = some u) :
    ∃ c k, (t, Script.req u c k) ∈ tbl ∧ bodyOf tbl t = compile [] (.req u c k) := by
  unfold tblHeadReq at h
  unfold bodyOf
  cases hf : tbl.find? (fun e => e.1 == t) with
  | none => rw [hf] at h; cases h
  | some e =>
    obtain ⟨t', sc⟩ := e
    rw [hf] at h
    have h1 := List.find?_some hf
    have h2 := List.mem_of_find?_eq_some hf
    simp only [beq_iff_eq] at h1
    subst h1
    cases sc with
    | req u' c k =>
      simp only [headReqOf, Option.some.injEq] at h
      subst h
      exact ⟨c, k, h2, rfl⟩
    | ret _ => cases h
    | panic => cases h
    | read _ _ _ => cases h
    | write _ _ _ _ => cases h
    | wrote _ _ _ _ => cases h
    | ite _ _ _ => cases h

/-! ### tables -/

/-- Every body respects the roles-with-covers. -/
theorem table_staticCov {tbl : Table} (h : tbl.covB = true) (t : Nat) :
    StaticCov (covRolesOf tbl) t (bodyOf tbl t) := by
  rcases ScriptWF.bodyOf_cases tbl t with ⟨sc, hm, he⟩ | he
  · rw [he]
    exact covFromB_sound (covRolesRecOf tbl) t sc [] [] (List.all_eq_true.mp h _ hm) []
  · -- `t` has no entry: the body is `ret 0` and `cov t` is empty
    rw [he]
    intro u hu
    rw [covRolesOf_cov] at hu
    obtain ⟨u', hu', _⟩ := reqChain_cases tbl hu
    obtain ⟨c, k, _, hb⟩ := tblHeadReq_spec hu'
    rw [he] at hb
    simp [compile] at hb

/-- First requires go upward in rank. -/
theorem table_headReq_rank {tbl : Table} (h : tbl.covB = true) (t u : Nat)
    (hu : tblHeadReq tbl t = some u) : (covRolesOf tbl).rank t < (covRolesOf tbl).rank u := by
  obtain ⟨c, k, hm, _⟩ := tblHeadReq_spec hu
  have hb : covFromB (covRolesRecOf tbl) t [] [] (.req u c k) = true :=
    List.all_eq_true.mp h _ hm
  simp only [covFromB, Bool.and_eq_true, decide_eq_true_eq] at hb
  exact hb.1

/-- Covers go upward in rank. -/
theorem table_covRank {tbl : Table} (h : tbl.covB = true) : CovRank (covRolesOf tbl) := by
  intro t u hu
  rw [covRolesOf_cov] at hu
  exact reqChain_rank tbl (covRolesOf tbl).rank (table_headReq_rank h) _ t u hu

/-- **Every table has the relay-prefix shape** w.r.t. its roles-with-covers: a body whose `cov` is
not empty starts with the require that covers it (by construction of `cov`; no test needed). -/
theorem table_prefixCov (tbl : Table) : PrefixCov (covRolesOf tbl) (bodyOf tbl) := by
  intro t w hw
  rw [covRolesOf_cov] at hw
  obtain ⟨u, hu, hc⟩ := reqChain_cases tbl hw
  obtain ⟨c, k, _, hb⟩ := tblHeadReq_spec hu
  refine ⟨u, c, _, hb, ?_⟩
  rcases hc with rfl | hc
  · exact .inl rfl
  · exact .inr (by rw [covRolesOf_cov]; exact hc)

theorem table_wellFormedCov {tbl : Table} (h : tbl.covB = true) :
    WellFormedCov (covRolesOf tbl) (bodyOf tbl) :=
  ⟨table_staticCov h, table_covRank h⟩

end ScriptCov
end PieModel
