/-
The Boolean checker of the TRANSITIVE static-role hypotheses (`WellFormedCov`, `PrefixCov` of
`Build/TransRoles/Defs.lean`) on script tables: DEFINITIONS only (plain structural recursion over
scripts, lists and a fuel; imports only the script language, the `Roles` record and the
definitions-only file of the direct checkers), so that the compiled driver can run the test on
every generated case.  Soundness: `Build/ScriptCov/Sound.lean`, `Props/ScriptCov.lean`.

* `ScriptCov.CovRolesRec`: an import-free copy of `TransRoles.CRoles` (which lives in a file that
  imports proofs); `CovRolesRec.toCRoles` / `covRolesOf` in `Build/ScriptCov/Sound.lean`.
* `cov t` := the chain of FIRST requires starting at `t`: if the script of `t` starts with
  `req u ..`, then `u` followed by `cov u` — every path of `t` to a `ret` has required `u`, which
  on completion has required the rest of the chain.  This covers the relays of the harness
  (`req <inner> 0 ret v 0`), chained and shared ones.
* `rank t` := `tbl.length - height t`, `height` = length of the longest chain of requires starting
  at `t`, computed by `tbl.length` relaxation passes over the table (tasks not in the table have
  height 0).  Nothing has to be proved about it: `Table.covB` tests `rank t < rank u` at every
  `req u` of the script of `t`; a table whose requires are cyclic fails that test.
-/
import PieModel.Build.ScriptWF.Defs

namespace PieModel

namespace ScriptCov

/-- Import-free copy of `TransRoles.CRoles`: static roles with covers. -/
structure CovRolesRec extends Roles where
  /-- `cov m`: tasks that `m` is guaranteed to have required, transitively, once it completed -/
  cov : Nat → List Nat

/-! ### `cov`: the chain of first requires -/

/-- The task required by the first operation of the script, if that is a `req`. -/
def headReqOf : Script → Option Nat
  | .req u _ _ => some u
  | _ => none

/-- ... of the script of task `t` (the first entry with that id, as in `bodyOf`). -/
def tblHeadReq (tbl : Table) (t : Nat) : Option Nat :=
  match tbl.find? (·.1 == t) with
  | some (_, sc) => headReqOf sc
  | none => none

/-- The chain of first requires starting at `t`, at most `fuel` links. -/
def reqChain (tbl : Table) : Nat → Nat → List Nat
  | 0, _ => []
  | fuel + 1, t =>
    match tblHeadReq tbl t with
    | some u => u :: reqChain tbl fuel u
    | none => []

/-! ### `rank`: longest chains of requires -/

/-- The height recorded for `t` in an association list (0 if there is none). -/
def lookupHeight (hs : List (Nat × Nat)) (t : Nat) : Nat :=
  match hs.find? (·.1 == t) with
  | some (_, h) => h
  | none => 0

/-- One more than the greatest height `h u` of a task `u` required anywhere in the script; 0 if the
script requires nothing. -/
def heightStep (h : Nat → Nat) : Script → Nat
  | .ret _ => 0
  | .panic => 0
  | .req u _ k => max (h u + 1) (heightStep h k)
  | .read _ _ k => heightStep h k
  | .write _ _ _ k => heightStep h k
  | .wrote _ _ _ k => heightStep h k
  | .ite _ a b => max (heightStep h a) (heightStep h b)

/-- One relaxation pass over the table. -/
def heightPass (tbl : Table) (hs : List (Nat × Nat)) : List (Nat × Nat) :=
  tbl.map fun e => (e.1, heightStep (lookupHeight hs) e.2)

/-- `n` relaxation passes: the heights, truncated at `n`. -/
def heightsOf (tbl : Table) : Nat → List (Nat × Nat)
  | 0 => []
  | n + 1 => heightPass tbl (heightsOf tbl n)

/-- The chain recorded for `t` in an association list (`[]` if there is none). -/
def lookupCov (cs : List (Nat × List Nat)) (t : Nat) : List Nat :=
  match cs.find? (·.1 == t) with
  | some (_, l) => l
  | none => []

/-- The chains of first requires of all tasks of the table. -/
def covTableOf (tbl : Table) : List (Nat × List Nat) :=
  tbl.map fun e => (e.1, reqChain tbl tbl.length e.1)

/-- The roles-with-covers read off a table: `gen` as in `rolesOf`; `cov t` the chain of first
requires starting at `t` (`[]` for a task that is not in the table); `rank t = tbl.length -
height t`.  The heights and the chains are computed once. -/
def covRolesRecOf (tbl : Table) : CovRolesRec :=
  let hs := heightsOf tbl tbl.length
  let cs := covTableOf tbl
  { rank := fun t => tbl.length - lookupHeight hs t
    gen := (rolesOf tbl).gen
    cov := lookupCov cs }

/-! ### the Boolean test -/

/-- Boolean version of `Covers`: some `m ∈ rq` is `u` or has `u ∈ cov m`. -/
def coversB (cov : Nat → List Nat) (rq : List Nat) (u : Nat) : Bool :=
  rq.any fun m => m == u || (cov m).contains u

/-- The condition of `StaticCovFrom` at a `ret`: the requires so far cover all of `cov t`. -/
def retCovB (cr : CovRolesRec) (t : Nat) (rq : List Nat) : Bool :=
  (cr.cov t).all fun u => coversB cr.cov rq u

/-- Boolean version of `StaticCovFrom cr t ⟨rq, wr⟩` for the compiled script (both branches of a
conditional are checked; a `read`/`write`/`wrote` compiles to a node whose error branch is a
`ret`, hence the `retCovB` there). -/
def covFromB (cr : CovRolesRec) (t : Nat) : List Nat → List Nat → Script → Bool
  | rq, _, .ret _ => retCovB cr t rq
  | _, _, .panic => true
  | rq, wr, .req u _ k => decide (cr.rank t < cr.rank u) && covFromB cr t (u :: rq) wr k
  | rq, wr, .read r _ k =>
    (match cr.gen r with
      | none => true
      | some w => w != t && coversB cr.cov rq w) && retCovB cr t rq && covFromB cr t rq wr k
  | rq, wr, .write r _ _ k =>
    (cr.gen r == some t) && !(wr.contains r) && retCovB cr t rq && covFromB cr t rq (r :: wr) k
  | rq, wr, .wrote r _ _ k =>
    (cr.gen r == some t) && !(wr.contains r) && retCovB cr t rq && covFromB cr t rq (r :: wr) k
  | rq, wr, .ite _ a b => covFromB cr t rq wr a && covFromB cr t rq wr b

end ScriptCov

/-- **The test of the transitive static-role hypotheses**: every script of the table respects the
roles-with-covers `covRolesRecOf tbl` (computed once). -/
def Table.covB (tbl : Table) : Bool :=
  let cr := ScriptCov.covRolesRecOf tbl
  tbl.allB fun t s => ScriptCov.covFromB cr t [] [] s

end PieModel
