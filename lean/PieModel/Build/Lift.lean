/-
A generic lifting lemma: an invariant `P : Sess → Prop` that looks only at `store` and `cur` and is
preserved (together with `SessWF`) by the primitive steps of a session is preserved by every
function of the build model — the five top-down functions, `sessionRequire`, `requireAll`, the
scheduling functions, the six bottom-up functions, `buExecuteScheduled`, `updateAffectedTasks`,
`bottomUpBuild` — whatever the result (`.ok`/`.abort`), for every fuel.

The primitive-step hypotheses are bundled in `StepInv sem P`; `StepInv.ofStore` builds one from a
predicate on stores.  The induction is the joint induction on fuel of `SessWFTopDown.lean` /
`SessWFBottomUp.lean` with `Ext` replaced by `PExt P` (`Ext` plus `P` of the new state).
-/
import PieModel.Build.SessWFBottomUp
import PieModel.Build.Proofs.CurLemmas

set_option linter.unusedSectionVars false

namespace PieModel

variable (sem : Sem) (body : Nat → Prog)

/-- The primitive steps of a session preserve `P` (given `SessWF`).  `frame`: `P` looks at `store`
and `cur` only, so `emit`, `markConsistent`, `setContent` and changes of `errors`/`queue`/
`consistent` preserve it.  `finish` is the execute epilogue: `s₀` is the state in which the
execution of `node` was started (before the prologue), `s` the state after the body returned
(`cur` is `node` again). -/
structure StepInv (P : Sess → Prop) : Prop where
  frame : ∀ s s' : Sess, s'.store = s.store → s'.cur = s.cur → P s → P s'
  clearCur : ∀ s : Sess, SessWF s → P s → P { s with cur := none }
  taskNode : ∀ (s : Sess) t, SessWF s → P s → P { s with store := (s.store.getOrCreateTaskNode t).1 }
  resNode : ∀ (s : Sess) r, SessWF s → P s → P { s with store := (s.store.getOrCreateResNode r).1 }
  read : ∀ (s : Sess) r c, SessWF s → P s → P (doRead sem s r c).1
  write : ∀ (s : Sess) r c v, SessWF s → P s → P (doWrite sem s r c v).1
  wrote : ∀ (s : Sess) r c v, SessWF s → P s → P (doWrote sem s r c v).1
  reserve : ∀ (s : Sess) dst, SessWF s → (∃ t, s.store.taskOf dst = some t) → P s →
    P (reserveRequire s dst).1
  update : ∀ (s : Sess) dst t c stamp, SessWF s → s.store.taskOf dst = some t → P s →
    P (updateRequire s dst t c stamp).1
  start : ∀ (s : Sess) node t, SessWF s → s.store.taskOf node = some t → P s →
    P { s with store := s.store.resetTask node, cur := some node }
  finish : ∀ (s₀ s : Sess) node o, SessWF s₀ → P s₀ → SessWF s → P s → s.cur = some node →
    s₀.store.Le s.store → P { s with cur := s₀.cur, store := s.store.setTaskOutput node o }

/-- A store invariant preserved by the store operations (under `Store.WF`, with the side
conditions the build establishes) gives a `StepInv`. -/
theorem StepInv.ofStore (Q : Store → Prop)
    (hTask : ∀ st t, st.WF → Q st → Q (st.getOrCreateTaskNode t).1)
    (hRes : ∀ st r, st.WF → Q st → Q (st.getOrCreateResNode r).1)
    (hRead : ∀ (s : Sess) r c, SessWF s → Q s.store → Q (doRead sem s r c).1.store)
    (hWrite : ∀ (s : Sess) r c v, SessWF s → Q s.store → Q (doWrite sem s r c v).1.store)
    (hWrote : ∀ (s : Sess) r c v, SessWF s → Q s.store → Q (doWrote sem s r c v).1.store)
    (hAdd : ∀ st src dst, st.WF → (∃ t, st.taskOf src = some t) → (∃ t, st.taskOf dst = some t) →
      Q st → Q (st.addDependency src dst .reserved).1)
    (hSet : ∀ st st' src dst t c stamp, st.WF → st.taskOf dst = some t →
      st.setDependency src dst (.require t c stamp) = some st' → Q st → Q st')
    (hReset : ∀ st n, st.WF → Q st → Q (st.resetTask n))
    (hOut : ∀ st n o, st.WF → Q st → Q (st.setTaskOutput n o)) :
    StepInv sem (fun s => Q s.store) where
  frame := fun s s' h1 _ p => by rw [h1]; exact p
  clearCur := fun _ _ p => p
  taskNode := fun s t h p => hTask _ t h.store p
  resNode := fun s r h p => hRes _ r h.store p
  read := hRead
  write := hWrite
  wrote := hWrote
  reserve := fun s dst h hd p => by
    unfold reserveRequire
    split
    · exact p
    next src hc =>
      split
      next st heq =>
        have hst : st = (s.store.addDependency src dst .reserved).1 := by rw [heq]
        subst hst
        exact hAdd _ _ _ h.store (h.cur _ hc) hd p
      · exact p
      · exact p
  update := fun s dst t c stamp h hd p => by
    unfold updateRequire
    split
    · exact p
    next src hc =>
      split
      next st heq => exact hSet _ _ _ _ _ _ _ h.store hd heq p
      · exact p
  start := fun s node t h _ p => hReset _ node h.store p
  finish := fun s₀ s node o _ _ h p _ _ => hOut _ node o h.store p

/-- `s'` is a well-formed state extending `s` in which `P` holds. -/
structure PExt (P : Sess → Prop) (s s' : Sess) : Prop where
  ext : Ext s s'
  p : P s'

/-- The combined invariant. -/
def Good (P : Sess → Prop) (s : Sess) : Prop := SessWF s ∧ P s

namespace PExt
variable {P : Sess → Prop} {s s' s'' : Sess}

theorem wf (e : PExt P s s') : SessWF s' := e.ext.wf
theorem le (e : PExt P s s') : s.store.Le s'.store := e.ext.le
theorem good (e : PExt P s s') : Good P s' := ⟨e.ext.wf, e.p⟩
theorem refl (g : Good P s) : PExt P s s := ⟨Ext.refl g.1, g.2⟩
theorem trans (h₁ : PExt P s s') (h₂ : PExt P s' s'') : PExt P s s'' :=
  ⟨h₁.ext.trans h₂.ext, h₂.p⟩

theorem out {α : Type} {F : Sess × α} {r : α} (e : PExt P s F.1) (heq : F = (s', r)) :
    PExt P s s' := by rw [heq] at e; exact e

end PExt

namespace StepInv
variable {sem} {P : Sess → Prop} (I : StepInv sem P) {s s₁ s' : Sess}
include I

/-- A step that does not touch store, `cur`, queue. -/
theorem same (e : PExt P s s₁) (h1 : s'.store = s₁.store) (h2 : s'.cur = s₁.cur)
    (h3 : s'.queue = s₁.queue) : PExt P s s' :=
  ⟨e.ext.same h1 h2 h3, I.frame _ _ h1 h2 e.p⟩

theorem emit (e : PExt P s s₁) (ev : Ev) : PExt P s (s₁.emit ev) := I.same e rfl rfl rfl

theorem markConsistent (e : PExt P s s₁) (n : Nat) : PExt P s (s₁.markConsistent n) :=
  I.same e (by simp) (by simp) (by simp)

theorem getTask (g : Good P s) (t : Nat) :
    PExt P s { s with store := (s.store.getOrCreateTaskNode t).1 } :=
  ⟨g.1.getTask t, I.taskNode s t g.1 g.2⟩

theorem getRes (g : Good P s) (r : Nat) :
    PExt P s { s with store := (s.store.getOrCreateResNode r).1 } :=
  ⟨g.1.setStore (g.1.store.getOrCreateResNode r) (Store.le_getOrCreateResNode g.1.store r),
    I.resNode s r g.1 g.2⟩

theorem doRead (g : Good P s) (r c : Nat) : PExt P s (doRead sem s r c).1 :=
  ⟨doRead_ext sem g.1 r c, I.read s r c g.1 g.2⟩

theorem doWrite (g : Good P s) (r c : Nat) (v : Option Int) : PExt P s (doWrite sem s r c v).1 :=
  ⟨doWrite_ext sem g.1 r c v, I.write s r c v g.1 g.2⟩

theorem doWrote (g : Good P s) (r c : Nat) (v : Option Int) : PExt P s (doWrote sem s r c v).1 :=
  ⟨doWrote_ext sem g.1 r c v, I.wrote s r c v g.1 g.2⟩

theorem reserveRequire (g : Good P s) {dst : Nat} (hd : ∃ t, s.store.taskOf dst = some t) :
    PExt P s (reserveRequire s dst).1 :=
  ⟨reserveRequire_ext g.1 hd, I.reserve s dst g.1 hd g.2⟩

theorem updateRequire (g : Good P s) {dst t : Nat} (c : Nat) (stamp : Stamp)
    (hd : s.store.taskOf dst = some t) : PExt P s (updateRequire s dst t c stamp).1 :=
  ⟨updateRequire_ext g.1 c stamp hd, I.update s dst t c stamp g.1 hd g.2⟩

theorem startExec (g : Good P s) {node t : Nat} (hn : s.store.taskOf node = some t) :
    PExt P s { s with store := s.store.resetTask node, cur := some node } :=
  ⟨g.1.startExec hn, I.start s node t g.1 hn g.2⟩

theorem endExec {s₂ s₄ : Sess} (e : PExt P s₂ s₄) (g₂ : Good P s₂) {node : Nat}
    (hc : s₄.cur = some node) (o : Int) :
    PExt P s₂ { s₄ with cur := s₂.cur, store := s₄.store.setTaskOutput node o } :=
  ⟨e.ext.endExec g₂.1 node o, I.finish s₂ s₄ node o g₂.1 g₂.2 e.wf e.p hc e.le⟩

theorem clearCur' (g : Good P s) : PExt P s { s with cur := none } :=
  ⟨g.1.clearCur, I.clearCur s g.1 g.2⟩

/-- A step that may enqueue a task node. -/
theorem enqueue (g : Good P s) (h1 : s'.store = s.store) (h2 : s'.cur = s.cur) {n t : Nat}
    (hn : s.store.taskOf n = some t) (h3 : s'.queue = queueAdd s.queue n) : PExt P s s' :=
  ⟨g.1.enqueue h1 h2 hn h3, I.frame _ _ h1 h2 g.2⟩

/-- Replacing the queue by a sub-queue. -/
theorem subQueue (g : Good P s) {q : List Nat} (hq : ∀ m ∈ q, m ∈ s.queue) :
    PExt P s { s with queue := q } :=
  ⟨g.1.subQueue hq, I.frame s _ rfl rfl g.2⟩

theorem foldl {β : Type} (F : Sess → β → Sess) (hF : ∀ s b, Good P s → PExt P s (F s b))
    (l : List β) : ∀ s, Good P s → PExt P s (l.foldl F s) := by
  induction l with
  | nil => intro s h; exact PExt.refl h
  | cons b l ih =>
    intro s h
    have e1 := hF s b h
    exact e1.trans (ih _ e1.good)

end StepInv

/-! ### top-down -/

/-- The joint statement for fuel `f`. -/
structure TdLift (P : Sess → Prop) (f : Nat) : Prop where
  require : ∀ s t c, Good P s → PExt P s (tdRequire sem body f s t c).1
  make : ∀ s t, Good P s → PExt P s (tdMake sem body f s t).1
  check : ∀ s node, Good P s → PExt P s (tdCheck sem body f s node).1
  checkDeps : ∀ s ds, Good P s → PExt P s (tdCheckDeps sem body f s ds).1
  run : ∀ s p, Good P s → PExt P s (tdRun sem body f s p).1

section TopDown
variable {sem body} {P : Sess → Prop} (I : StepInv sem P)
include I

theorem tdLift_zero : TdLift sem body P 0 := by
  refine ⟨?_, ?_, ?_, ?_, ?_⟩
  · intro s t c h; unfold tdRequire; exact PExt.refl h
  · intro s t h; unfold tdMake; exact PExt.refl h
  · intro s n h; unfold tdCheck; exact PExt.refl h
  · intro s ds h; unfold tdCheckDeps; exact PExt.refl h
  · intro s p h; unfold tdRun; exact PExt.refl h

theorem tdRequire_lift {f : Nat} (ih : TdLift sem body P f) (s : Sess) (t c : Nat)
    (h : Good P s) : PExt P s (tdRequire sem body (f + 1) s t c).1 := by
  unfold tdRequire; simp only []
  have e0 := I.emit (PExt.refl h) (.requireStart t c)
  have e1 := I.getTask e0.good t
  have hd := Store.taskOf_getOrCreateTaskNode_self e0.wf.store t
  split
  next s2 a heq =>
    exact e0.trans (e1.trans ((I.reserveRequire e1.good ⟨t, hd⟩).out heq))
  next s2 heq =>
    have e2 := (I.reserveRequire e1.good ⟨t, hd⟩).out heq
    split
    next s3 a heq3 => exact e0.trans (e1.trans (e2.trans ((ih.make s2 t e2.good).out heq3)))
    next s3 out heq3 =>
      have e3 := (ih.make s2 t e2.good).out heq3
      have hd3 := (e2.le.trans e3.le).task _ _ hd
      have e3' := I.emit e3 (.requireEnd t c (sem.ostamp c out) out)
      have e4 := I.updateRequire e3'.good c (sem.ostamp c out) hd3
      have e04 := e0.trans (e1.trans (e2.trans (e3'.trans e4)))
      split
      next s4 a heq4 => exact e04.out heq4
      next s4 heq4 => exact e04.out heq4

theorem tdMake_lift {f : Nat} (ih : TdLift sem body P f) (s : Sess) (t : Nat) (h : Good P s) :
    PExt P s (tdMake sem body (f + 1) s t).1 := by
  unfold tdMake; simp only []
  have e1 := I.getTask h t
  have hd := Store.taskOf_getOrCreateTaskNode_self h.1.store t
  split
  · split <;> exact e1
  · split
    next s2 a heq => exact e1.trans ((ih.check _ _ e1.good).out heq)
    next s2 o heq => exact I.markConsistent (e1.trans ((ih.check _ _ e1.good).out heq)) _
    next s2 heq =>
      have e2 := (ih.check _ _ e1.good).out heq
      have hd2 := e2.le.task _ _ hd
      have e3 := I.emit (I.startExec e2.good hd2) (.executeStart t)
      split
      next s4 a heq4 => exact e1.trans (e2.trans (e3.trans ((ih.run _ _ e3.good).out heq4)))
      next s4 o heq4 =>
        have e4 := e3.trans ((ih.run _ _ e3.good).out heq4)
        have hc : s4.cur = some (s.store.getOrCreateTaskNode t).2 := cur_tdRun sem body heq4
        exact I.markConsistent
          (e1.trans (e2.trans (I.endExec (I.emit e4 (.executeEnd t o)) e2.good hc o))) _

theorem tdCheck_lift {f : Nat} (ih : TdLift sem body P f) (s : Sess) (node : Nat)
    (h : Good P s) : PExt P s (tdCheck sem body (f + 1) s node).1 := by
  unfold tdCheck
  split
  · exact PExt.refl h
  · split
    next s2 a heq => exact (ih.checkDeps _ _ h).out heq
    next s2 heq => exact (ih.checkDeps _ _ h).out heq
    next s2 heq => exact (ih.checkDeps _ _ h).out heq

theorem tdCheckDeps_lift {f : Nat} (ih : TdLift sem body P f) (s : Sess) (ds : List Dep)
    (h : Good P s) : PExt P s (tdCheckDeps sem body (f + 1) s ds).1 := by
  cases ds with
  | nil => unfold tdCheckDeps; exact PExt.refl h
  | cons d ds =>
    cases d with
    | reserved => unfold tdCheckDeps; exact PExt.refl h
    | require t c stamp =>
      unfold tdCheckDeps; simp only []
      have e0 := I.emit (PExt.refl h) (.checkTaskStart t c stamp)
      split
      next s2 a heq => exact e0.trans ((ih.make _ _ e0.good).out heq)
      next s2 out heq =>
        have e2 := I.emit (e0.trans ((ih.make _ _ e0.good).out heq))
          (.checkTaskEnd t c stamp (sem.ocheck c out stamp))
        split
        · exact e2.trans (ih.checkDeps _ _ e2.good)
        · exact e2
    | read r c stamp =>
      unfold tdCheckDeps; simp only []
      have e0 := I.emit (I.emit (PExt.refl h) (.checkResStart r c stamp))
        (.checkResEnd r c stamp (checkResDep sem (s.emit (.checkResStart r c stamp)) r c stamp))
      split
      · exact e0.trans (ih.checkDeps _ _ e0.good)
      · exact e0
      · exact I.same e0 rfl rfl rfl
    | write r c stamp =>
      unfold tdCheckDeps; simp only []
      have e0 := I.emit (I.emit (PExt.refl h) (.checkResStart r c stamp))
        (.checkResEnd r c stamp (checkResDep sem (s.emit (.checkResStart r c stamp)) r c stamp))
      split
      · exact e0.trans (ih.checkDeps _ _ e0.good)
      · exact e0
      · exact I.same e0 rfl rfl rfl

theorem tdRun_lift {f : Nat} (ih : TdLift sem body P f) (s : Sess) (p : Prog) (h : Good P s) :
    PExt P s (tdRun sem body (f + 1) s p).1 := by
  cases p with
  | ret v => unfold tdRun; exact PExt.refl h
  | panic => unfold tdRun; exact PExt.refl h
  | req t c k =>
    unfold tdRun
    split
    next s2 a heq => exact (ih.require _ _ _ h).out heq
    next s2 out heq =>
      have e2 := (ih.require _ _ _ h).out heq
      exact e2.trans (ih.run _ _ e2.good)
  | read r c k =>
    unfold tdRun
    split
    next s2 a heq => exact (I.doRead h r c).out heq
    next s2 x heq =>
      have e2 := (I.doRead h r c).out heq
      exact e2.trans (ih.run _ _ e2.good)
  | write r c v k =>
    unfold tdRun
    split
    next s2 a heq => exact (I.doWrite h r c v).out heq
    next s2 x heq =>
      have e2 := (I.doWrite h r c v).out heq
      exact e2.trans (ih.run _ _ e2.good)
  | wrote r c v k =>
    unfold tdRun
    split
    next s2 a heq => exact (I.doWrote h r c v).out heq
    next s2 x heq =>
      have e2 := (I.doWrote h r c v).out heq
      exact e2.trans (ih.run _ _ e2.good)

theorem tdLift (f : Nat) : TdLift sem body P f := by
  induction f with
  | zero => exact tdLift_zero I
  | succ f ih =>
    exact ⟨tdRequire_lift I ih, tdMake_lift I ih, tdCheck_lift I ih, tdCheckDeps_lift I ih,
      tdRun_lift I ih⟩

theorem sessionRequire_lift (f : Nat) {s : Sess} (h : Good P s) (t : Nat) :
    PExt P s (sessionRequire sem body f s t).1 := by
  unfold sessionRequire; simp only []
  have e0 := I.emit (I.clearCur' h) .buildStart
  have e1 := e0.trans ((tdLift (body := body) I f).require _ t alwaysChecker e0.good)
  split
  next s2 a heq => exact e1.out heq
  next s2 o heq => exact I.emit (e1.out heq) .buildEnd

theorem requireAll_lift (f : Nat) (ts : List Nat) : ∀ {s : Sess}, Good P s →
    PExt P s (requireAll sem body f s ts).1 := by
  induction ts with
  | nil => intro s h; unfold requireAll; exact PExt.refl h
  | cons t ts ih =>
    intro s h
    unfold requireAll
    split
    next s2 a heq => exact (sessionRequire_lift I f h t).out heq
    next s2 o heq =>
      have e2 := (sessionRequire_lift I f h t).out heq
      split
      next s3 a heq3 => exact e2.trans ((ih e2.good).out heq3)
      next s3 os heq3 => exact e2.trans ((ih e2.good).out heq3)

end TopDown

/-! ### bottom-up: scheduling -/

section Scheduling
variable {sem} {P : Sess → Prop} (I : StepInv sem P)
include I

theorem trySchedule_lift {s : Sess} (h : Good P s) (tnode : Nat) (d : Dep) :
    PExt P s (trySchedule sem s tnode d) := by
  unfold trySchedule; simp only []
  split
  next r c stamp t heq =>
    split
    · exact I.same (PExt.refl h) rfl rfl rfl
    · exact I.enqueue h rfl rfl heq rfl
    · exact I.enqueue h rfl rfl heq rfl
  next r c stamp t heq =>
    split
    · exact I.same (PExt.refl h) rfl rfl rfl
    · exact I.enqueue h rfl rfl heq rfl
    · exact I.enqueue h rfl rfl heq rfl
  · exact PExt.refl h

theorem scheduleAffectedBy_lift {s : Sess} (h : Good P s) (r : Nat) :
    PExt P s (scheduleAffectedBy sem s r) := by
  unfold scheduleAffectedBy; simp only []
  have e0 := I.emit (PExt.refl h) (.schedResStart r)
  have e1 := e0.trans (I.getRes e0.good r)
  exact I.emit (e1.trans (I.foldl _ (fun s p hs => trySchedule_lift I hs p.1 p.2) _ _ e1.good)) _

theorem scheduleAfterExec_lift {s : Sess} (h : Good P s) (node t : Nat) (out : Int) :
    PExt P s (scheduleAfterExec sem s node t out) := by
  unfold scheduleAfterExec; simp only []
  refine I.markConsistent (I.emit ?_ _) _
  have e1 : PExt P s _ := I.foldl (fun s w =>
      match s.store.resOf w with
      | none => s
      | some r =>
        let s := s.emit (.schedResStart r)
        let s := (s.store.readDepsTo w).foldl (fun s (p : Nat × Dep) => trySchedule sem s p.1 p.2) s
        s.emit (.schedResEnd r)) (by
      intro s w hs
      simp only []
      split
      · exact PExt.refl hs
      next r _ =>
        have e0 := I.emit (PExt.refl hs) (.schedResStart r)
        exact I.emit
          (e0.trans (I.foldl _ (fun s p hs => trySchedule_lift I hs p.1 p.2) _ _ e0.good)) _)
    (s.store.resourcesWrittenBy node) s h
  have e2 := I.emit e1 (.schedTaskStart t)
  refine e2.trans (I.foldl _ ?_ _ _ e2.good)
  intro s p hs
  split
  next c stamp requiring heq =>
    split
    · exact I.same (PExt.refl hs) rfl rfl rfl
    · exact I.enqueue hs rfl rfl heq rfl
  · exact PExt.refl hs

end Scheduling

/-! ### bottom-up: the mutual block -/

/-- The joint statement for fuel `f` (`buMake`/`buExec` are called with a task node). -/
structure BuLift (P : Sess → Prop) (f : Nat) : Prop where
  require : ∀ s t c, Good P s → PExt P s (buRequire sem body f s t c).1
  make : ∀ s t node, Good P s → (∃ t', s.store.taskOf node = some t') →
    PExt P s (buMake sem body f s t node).1
  exec : ∀ s t node, Good P s → (∃ t', s.store.taskOf node = some t') →
    PExt P s (buExec sem body f s t node).1
  execAndSchedule : ∀ s node, Good P s → PExt P s (buExecAndSchedule sem body f s node).1
  requireNow : ∀ s src, Good P s → PExt P s (buRequireNow sem body f s src).1
  run : ∀ s p, Good P s → PExt P s (buRun sem body f s p).1

section BottomUp
variable {sem body} {P : Sess → Prop} (I : StepInv sem P)
include I

theorem buLift_zero : BuLift sem body P 0 := by
  refine ⟨?_, ?_, ?_, ?_, ?_, ?_⟩
  · intro s t c h; unfold buRequire; exact PExt.refl h
  · intro s t n h _; unfold buMake; exact PExt.refl h
  · intro s t n h _; unfold buExec; exact PExt.refl h
  · intro s n h; unfold buExecAndSchedule; exact PExt.refl h
  · intro s n h; unfold buRequireNow; exact PExt.refl h
  · intro s p h; unfold buRun; exact PExt.refl h

theorem buRequire_lift {f : Nat} (ih : BuLift sem body P f) (s : Sess) (t c : Nat)
    (h : Good P s) : PExt P s (buRequire sem body (f + 1) s t c).1 := by
  unfold buRequire; simp only []
  have e0 := I.emit (PExt.refl h) (.requireStart t c)
  have e1 := I.getTask e0.good t
  have hd := Store.taskOf_getOrCreateTaskNode_self e0.wf.store t
  split
  next s2 a heq =>
    exact e0.trans (e1.trans ((I.reserveRequire e1.good ⟨t, hd⟩).out heq))
  next s2 heq =>
    have e2 := (I.reserveRequire e1.good ⟨t, hd⟩).out heq
    have hd2 := e2.le.task _ _ hd
    split
    next s3 a heq3 =>
      exact e0.trans (e1.trans (e2.trans ((ih.make s2 t _ e2.good ⟨t, hd2⟩).out heq3)))
    next s3 out heq3 =>
      have e3 := (ih.make s2 t _ e2.good ⟨t, hd2⟩).out heq3
      have hd3 := e3.le.task _ _ hd2
      have e3' := I.emit e3 (.requireEnd t c (sem.ostamp c out) out)
      have e4 := I.updateRequire e3'.good c (sem.ostamp c out) hd3
      have e04 := e0.trans (e1.trans (e2.trans (e3'.trans e4)))
      split
      next s4 a heq4 => exact e04.out heq4
      next s4 heq4 => exact I.markConsistent (e04.out heq4) _

theorem buMake_lift {f : Nat} (ih : BuLift sem body P f) (s : Sess) (t node : Nat)
    (h : Good P s) (hn : ∃ t', s.store.taskOf node = some t') :
    PExt P s (buMake sem body (f + 1) s t node).1 := by
  unfold buMake
  split
  · split <;> exact PExt.refl h
  · split
    · exact ih.exec s t node h hn
    · split
      next s2 a heq => exact (ih.requireNow _ _ h).out heq
      next s2 o heq => exact (ih.requireNow _ _ h).out heq
      next s2 heq =>
        have e2 := (ih.requireNow _ _ h).out heq
        split <;> exact e2

theorem buExec_lift {f : Nat} (ih : BuLift sem body P f) (s : Sess) (t node : Nat)
    (h : Good P s) (hn : ∃ t', s.store.taskOf node = some t') :
    PExt P s (buExec sem body (f + 1) s t node).1 := by
  unfold buExec; simp only []
  obtain ⟨t', hn⟩ := hn
  have e3 := I.emit (I.startExec h hn) (.executeStart t)
  split
  next s4 a heq4 => exact e3.trans ((ih.run _ _ e3.good).out heq4)
  next s4 o heq4 =>
    have e4 := e3.trans ((ih.run _ _ e3.good).out heq4)
    have hc : s4.cur = some node := (bu_cur sem body f).2.2.2.2.2 _ _ _ _ heq4
    exact I.endExec (I.emit e4 (.executeEnd t o)) h hc o

theorem buExecAndSchedule_lift {f : Nat} (ih : BuLift sem body P f) (s : Sess) (node : Nat)
    (h : Good P s) : PExt P s (buExecAndSchedule sem body (f + 1) s node).1 := by
  unfold buExecAndSchedule
  split
  · exact PExt.refl h
  next t ht =>
    split
    next s2 a heq => exact (ih.exec _ _ _ h ⟨t, ht⟩).out heq
    next s2 o heq =>
      have e2 := (ih.exec _ _ _ h ⟨t, ht⟩).out heq
      exact e2.trans (scheduleAfterExec_lift I e2.good node t o)

theorem buRequireNow_lift {f : Nat} (ih : BuLift sem body P f) (s : Sess) (src : Nat)
    (h : Good P s) : PExt P s (buRequireNow sem body (f + 1) s src).1 := by
  unfold buRequireNow
  split
  · exact PExt.refl h
  · split
    · exact PExt.refl h
    next m q hq =>
      have e1 := I.subQueue h (fun _ hm => queuePopLeastFrom_rest_subset hq hm)
      split
      next s2 a heq => exact e1.trans ((ih.execAndSchedule _ _ e1.good).out heq)
      next s2 o heq =>
        have e2 := e1.trans ((ih.execAndSchedule _ _ e1.good).out heq)
        split
        · exact e2
        · exact e2.trans (ih.requireNow _ _ e2.good)

theorem buRun_lift {f : Nat} (ih : BuLift sem body P f) (s : Sess) (p : Prog) (h : Good P s) :
    PExt P s (buRun sem body (f + 1) s p).1 := by
  cases p with
  | ret v => unfold buRun; exact PExt.refl h
  | panic => unfold buRun; exact PExt.refl h
  | req t c k =>
    unfold buRun
    split
    next s2 a heq => exact (ih.require _ _ _ h).out heq
    next s2 out heq =>
      have e2 := (ih.require _ _ _ h).out heq
      exact e2.trans (ih.run _ _ e2.good)
  | read r c k =>
    unfold buRun
    split
    next s2 a heq => exact (I.doRead h r c).out heq
    next s2 x heq =>
      have e2 := (I.doRead h r c).out heq
      exact e2.trans (ih.run _ _ e2.good)
  | write r c v k =>
    unfold buRun
    split
    next s2 a heq => exact (I.doWrite h r c v).out heq
    next s2 x heq =>
      have e2 := (I.doWrite h r c v).out heq
      exact e2.trans (ih.run _ _ e2.good)
  | wrote r c v k =>
    unfold buRun
    split
    next s2 a heq => exact (I.doWrote h r c v).out heq
    next s2 x heq =>
      have e2 := (I.doWrote h r c v).out heq
      exact e2.trans (ih.run _ _ e2.good)

theorem buLift (f : Nat) : BuLift sem body P f := by
  induction f with
  | zero => exact buLift_zero I
  | succ f ih =>
    exact ⟨buRequire_lift I ih, buMake_lift I ih, buExec_lift I ih, buExecAndSchedule_lift I ih,
      buRequireNow_lift I ih, buRun_lift I ih⟩

theorem buExecuteScheduled_lift (f : Nat) : ∀ {s : Sess}, Good P s →
    PExt P s (buExecuteScheduled sem body f s).1 := by
  induction f with
  | zero => intro s h; unfold buExecuteScheduled; exact PExt.refl h
  | succ f ih =>
    intro s h
    unfold buExecuteScheduled
    split
    · exact PExt.refl h
    next n q hq =>
      have e1 := I.subQueue h (fun _ hm => queuePop_rest_subset hq hm)
      split
      next s2 a heq =>
        exact e1.trans (((buLift (body := body) I f).execAndSchedule _ n e1.good).out heq)
      next s2 o heq =>
        have e2 := e1.trans (((buLift (body := body) I f).execAndSchedule _ n e1.good).out heq)
        exact e2.trans (ih e2.good)

theorem updateAffectedTasks_lift (f : Nat) {s : Sess} (h : Good P s) :
    PExt P s (updateAffectedTasks sem body f s).1 := by
  unfold updateAffectedTasks; simp only []
  have e0 := I.emit (I.clearCur' h) .buildStart
  have e1 := e0.trans (buExecuteScheduled_lift (body := body) I f e0.good)
  split
  next s2 a heq => exact e1.out heq
  next s2 heq => exact I.emit (e1.out heq) .buildEnd

theorem bottomUpBuild_lift (f : Nat) {s : Sess} (h : Good P s) (changed : List Nat) :
    PExt P s (bottomUpBuild sem body f s changed).1 := by
  unfold bottomUpBuild; simp only []
  have e0 : PExt P s { s with queue := [] } := I.subQueue h (fun _ hm => by cases hm)
  have e1 := e0.trans
    (I.foldl _ (fun s r hs => scheduleAffectedBy_lift I hs r) changed _ e0.good)
  exact e1.trans (updateAffectedTasks_lift I f e1.good)

end BottomUp

/-! ### headline: `Good P` (= `SessWF ∧ P`) is preserved by every function, whatever the result -/

/-- **The lifting lemma.**  If `P` is preserved by the primitive steps (`StepInv`), then every
function of the build model maps a well-formed state satisfying `P` to a well-formed state
satisfying `P`, whatever the result and for every fuel. -/
theorem StepInv.lift {P : Sess → Prop} (I : StepInv sem P) (f : Nat) (s : Sess) (h : Good P s) :
    (∀ t c, Good P (tdRequire sem body f s t c).1) ∧
    (∀ t, Good P (tdMake sem body f s t).1) ∧
    (∀ node, Good P (tdCheck sem body f s node).1) ∧
    (∀ ds, Good P (tdCheckDeps sem body f s ds).1) ∧
    (∀ p, Good P (tdRun sem body f s p).1) ∧
    (∀ t, Good P (sessionRequire sem body f s t).1) ∧
    (∀ ts, Good P (requireAll sem body f s ts).1) ∧
    (∀ tnode d, Good P (trySchedule sem s tnode d)) ∧
    (∀ r, Good P (scheduleAffectedBy sem s r)) ∧
    (∀ node t out, Good P (scheduleAfterExec sem s node t out)) ∧
    (∀ t c, Good P (buRequire sem body f s t c).1) ∧
    (∀ t node, (∃ t', s.store.taskOf node = some t') → Good P (buMake sem body f s t node).1) ∧
    (∀ t node, (∃ t', s.store.taskOf node = some t') → Good P (buExec sem body f s t node).1) ∧
    (∀ node, Good P (buExecAndSchedule sem body f s node).1) ∧
    (∀ src, Good P (buRequireNow sem body f s src).1) ∧
    (∀ p, Good P (buRun sem body f s p).1) ∧
    Good P (buExecuteScheduled sem body f s).1 ∧
    Good P (updateAffectedTasks sem body f s).1 ∧
    (∀ changed, Good P (bottomUpBuild sem body f s changed).1) :=
  have td := tdLift (body := body) I f
  have bu := buLift (body := body) I f
  ⟨fun t c => (td.require s t c h).good, fun t => (td.make s t h).good,
    fun n => (td.check s n h).good, fun ds => (td.checkDeps s ds h).good,
    fun p => (td.run s p h).good, fun t => (sessionRequire_lift I f h t).good,
    fun ts => (requireAll_lift I f ts h).good, fun n d => (trySchedule_lift I h n d).good,
    fun r => (scheduleAffectedBy_lift I h r).good,
    fun n t o => (scheduleAfterExec_lift I h n t o).good,
    fun t c => (bu.require s t c h).good, fun t n hn => (bu.make s t n h hn).good,
    fun t n hn => (bu.exec s t n h hn).good, fun n => (bu.execAndSchedule s n h).good,
    fun n => (bu.requireNow s n h).good, fun p => (bu.run s p h).good,
    (buExecuteScheduled_lift I f h).good, (updateAffectedTasks_lift I f h).good,
    fun ch => (bottomUpBuild_lift I f h ch).good⟩

/-! ### histories (`runHistory` of `Props/C19.lean` is defined downstream; the step lemma here
is stated on `PieSt`) -/

/-- A store invariant `Q` with a `StepInv` holds in the `Pie` left by a top-down session and by a
bottom-up build followed by a top-down session, aborted or not. -/
theorem StepInv.session_store {Q : Store → Prop} (I : StepInv sem (fun s => Q s.store))
    (f : Nat) (p : PieSt) (hw : p.store.WF) (hq : Q p.store) :
    (∀ roots, Q (requireAll sem body f p.newSession roots).1.toPie.store) ∧
    (∀ changed roots, Q (match bottomUpBuild sem body f p.newSession changed with
      | (s, .abort _) => s.toPie
      | (s, .ok ()) => (requireAll sem body f s roots).1.toPie).store) := by
  have g : Good (fun s => Q s.store) p.newSession :=
    ⟨⟨hw, fun _ hn => (nomatch hn), fun _ hn => (nomatch hn)⟩, hq⟩
  refine ⟨fun roots => (requireAll_lift I f roots g).p, fun changed roots => ?_⟩
  have e1 := bottomUpBuild_lift (body := body) I f g changed
  split
  next s a heq => exact (e1.out heq).p
  next s heq => exact (requireAll_lift I f roots (e1.out heq).good).p

end PieModel

