/-
The `Pie` instance across sessions: what persists (store, resource state), what a new session
starts with, the operations of the public API used by histories, and the reference
"from-scratch" build.
-/
import PieModel.Build.TopDown
import PieModel.Build.BottomUp

namespace PieModel

/-- What persists between sessions: `PieInternal::{store, resource_state}`. -/
structure PieSt where
  store : Store := {}
  fs : List (Nat × Int) := []

/-- `Pie::new_session` -/
def PieSt.newSession (p : PieSt) : Sess := { store := p.store, fs := p.fs }

/-- dropping the session (normally or by unwinding) leaves the borrowed parts in `Pie`. -/
def Sess.toPie (s : Sess) : PieSt := { store := s.store, fs := s.fs }

/-- external change through `Pie::resource_state_mut` -/
def PieSt.setContent (p : PieSt) (r : Nat) (v : Option Int) : PieSt :=
  match v with
  | some x => { p with fs := aset p.fs r x }
  | none => { p with fs := aerase p.fs r }

variable (sem : Sem) (body : Nat → Prog)

/-- `create_bottom_up_build`, `schedule_tasks_affected_by` for each resource, `update_affected_tasks`. -/
def bottomUpBuild (fuel : Nat) (s : Sess) (changed : List Nat) : Sess × Res Unit :=
  let s := { s with queue := [] }
  let s := changed.foldl (fun s r => scheduleAffectedBy sem s r) s
  updateAffectedTasks sem body fuel s

/-- Require a list of roots in one session, stopping at the first abort. -/
def requireAll (fuel : Nat) : Sess → List Nat → Sess × Res (List Int)
  | s, [] => (s, .ok [])
  | s, t :: ts =>
    match sessionRequire sem body fuel s t with
    | (s, .abort a) => (s, .abort a)
    | (s, .ok o) =>
      match requireAll fuel s ts with
      | (s, .abort a) => (s, .abort a)
      | (s, .ok os) => (s, .ok (o :: os))

/-- The from-scratch build of `roots` against resource state `fs`: a fresh `Pie`, one session. -/
def cleanBuild (fuel : Nat) (fs : List (Nat × Int)) (roots : List Nat) : Sess × Res (List Int) :=
  requireAll sem body fuel ({ fs := fs } : Sess) roots

/-- Task nodes that currently have an output, in ascending rank (the "known, completed tasks"). -/
def knownTasks (st : Store) : List Nat :=
  let ns := st.g.nodes.filterMap fun kv =>
    match kv.2.data with
    | .task t (some _) => some (kv.2.topo, t)
    | _ => none
  (isortBy (·.1) ns).map (·.2)

/-- All task nodes (with or without output), in ascending rank. -/
def nodeTasks (st : Store) : List Nat :=
  let ns := st.g.nodes.filterMap fun kv =>
    match kv.2.data with
    | .task t _ => some (kv.2.topo, t)
    | _ => none
  (isortBy (·.1) ns).map (·.2)

end PieModel
