/-
Second counterexample: "the bottom-up functions preserve `Faithful` from EVERY state satisfying the
weak invariant (arbitrary `consistent` set, arbitrary queue)" is false without `OneRequire`, also
for the standard (reflexive) checkers.

Task 0 requires task 2, then task 1, then task 2 again; task 1 requires task 2; task 2 reads
resource 1.  After a full build resource 1 changes.  In the (artificial) session state in which
task 2 is marked consistent AND queued, `buExecAndSchedule` of task 0 takes the stale output of task 2
for its first `require`, re-executes task 2 while it makes task 1 consistent, and takes the new output
for its second `require`.  (In a real bottom-up build a task that is consistent and queued is
`Fresh` — `Build/Mixed/RDefs.lean` — which excludes this state.)
-/
import PieModel.Build.Mixed.RDefs
import PieModel.Props.C01

namespace PieModel
namespace MixedCex

theorem totalSem_oreflexive : OReflexive totalSem := by
  intro c o
  simp [totalSem, stdSem, stdOCheck]

def cex2Body : Nat → Prog
  | 0 => .req 2 0 (fun z1 => .req 1 4 (fun _ => .req 2 0 (fun z2 => .ret (z1 * 100 + z2))))
  | 1 => .req 2 0 (fun z => .ret (z + 1))
  | 2 => .read 1 0 (fun x => match x with | .ok (some v) => .ret v | _ => .ret 0)
  | _ => .ret 0

theorem cex2Body_writeFree : WriteFreeBody cex2Body := by
  intro t
  match t with
  | 0 => exact .req _ _ _ (fun _ => .req _ _ _ (fun _ => .req _ _ _ (fun _ => .ret _)))
  | 1 => exact .req _ _ _ (fun _ => .ret _)
  | 2 =>
    refine .read _ _ _ (fun x => ?_)
    split <;> exact .ret _
  | _ + 3 => exact .ret _

theorem cex2Body_respects : ∀ t, Respects totalSem (cex2Body t) := by
  intro t
  match t with
  | 0 =>
    refine ⟨fun o o' h => by rw [totalSem_ocheck0 h], fun z1 => ?_⟩
    refine ⟨fun _ _ _ => rfl, fun _ => ?_⟩
    exact ⟨fun o o' h => by rw [totalSem_ocheck0 h], fun _ => trivial⟩
  | 1 => exact ⟨fun o o' h => by rw [totalSem_ocheck0 h], fun _ => trivial⟩
  | 2 =>
    refine ⟨fun v v' s h1 h2 => by rw [totalSem_rcheck0 h1 h2], fun x => ?_⟩
    dsimp only
    split <;> trivial
  | _ + 3 => trivial

theorem cex2Body_oneChecker : ∀ t, OneChecker (cex2Body t) := by
  intro t
  match t with
  | 0 => simp [OneChecker, cex2Body, OneCk]
  | 1 => simp [OneChecker, cex2Body, OneCk]
  | 2 =>
    refine ⟨fun c' h => (nomatch h), fun x => ?_⟩
    dsimp only
    split <;> trivial
  | _ + 3 => trivial

/-- A full build of task 0 with resource 1 = 5, then resource 1 := 6. -/
def cex2Pie : PieSt :=
  (runSteps totalSem cex2Body 30 {} [.change 1 (some 5), .session [0], .change 1 (some 6)]).1

/-- A new session on it in which task 2 (node 1) is marked consistent and queued. -/
def cex2Sess : Sess := { cex2Pie.newSession with consistent := [1], queue := [1] }

/-- The state satisfies the weak invariant: well-formed, faithful store, no executing task. -/
theorem cex2_weak_invariant :
    SessWF cex2Sess ∧ Faithful totalSem cex2Body cex2Sess.store ∧ cex2Sess.cur = none := by
  obtain ⟨hw, hf⟩ := C01_history_faithful totalSem_stampTotal cex2Body_writeFree cex2Body_respects
    cex2Body_oneChecker 30 [.change 1 (some 5), .session [0], .change 1 (some 6)]
  refine ⟨⟨hw, fun _ hn => (nomatch hn), fun n hn => ?_⟩, hf, rfl⟩
  have : n = 1 := by simpa [cex2Sess] using hn
  subst this
  exact ⟨2, by with_unfolding_all decide⟩

theorem cex2_run :
    (buExecAndSchedule totalSem cex2Body 30 cex2Sess 0).1.store.taskOf 0 = some 0 ∧
    (buExecAndSchedule totalSem cex2Body 30 cex2Sess 0).1.store.taskOutput 0 = some 506 ∧
    (buExecAndSchedule totalSem cex2Body 30 cex2Sess 0).1.store.depsFrom 0 =
      [.require 2 0 (.int 6), .require 1 4 .unit] := by
  with_unfolding_all decide

/-- `buExecAndSchedule` from that state leaves a store that is not faithful. -/
theorem cex2_not_faithful :
    ¬ Faithful totalSem cex2Body (buExecAndSchedule totalSem cex2Body 30 cex2Sess 0).1.store := by
  intro h
  obtain ⟨h1, h2, h3⟩ := cex2_run
  have h4 := (h 0 0 506 h1 h2).1
  rw [h3] at h4
  obtain ⟨s, hs, o1, ho1, h4⟩ := h4
  simp only [List.mem_cons, Dep.require.injEq, reduceCtorEq, List.not_mem_nil, or_false, true_and,
    Nat.reduceEqDiff, false_and] at hs
  subst hs
  have e1 : o1 = 6 := by simpa [totalSem, stdSem, stdOStamp] using ho1
  subst e1
  obtain ⟨s, _, o2, _, h4⟩ := h4
  obtain ⟨s, hs, o3, ho3, h4⟩ := h4
  simp only [List.mem_cons, Dep.require.injEq, reduceCtorEq, List.not_mem_nil, or_false, true_and,
    Nat.reduceEqDiff, false_and] at hs
  subst hs
  have e3 : o3 = 6 := by simpa [totalSem, stdSem, stdOStamp] using ho3
  subst e3
  exact absurd (show (6 * 100 + 6 : Int) = 506 from h4) (by decide)

end MixedCex
end PieModel
