/-
`Faithful` over mixed histories: the entry points.

* top-down: `sessionRequire`, `requireAll` preserve `SessWF ∧ Faithful` from ANY state (arbitrary
  `cur`, `consistent`, queue, `fs`), whatever the result — no extra hypothesis;
* bottom-up: `scheduleAffectedBy`, `scheduleAfterExec`, `buExecuteScheduled` (with `cur = none`),
  `updateAffectedTasks`, `bottomUpBuild` preserve `SessWF ∧ Faithful` from ANY state, whatever the
  result — for `OneRequire` bodies;
* histories (`HStep`, `runStep`, `runHistory` of `Props/C19.lean`), and the logging variant
  `runHistoryLog`.
-/
import PieModel.Build.Mixed.TopDown
import PieModel.Build.Mixed.BottomUp
import PieModel.Build.Sound.Session
import PieModel.Props.C19

namespace PieModel
namespace Mixed

variable {sem : Sem} {body : Nat → Prog}

/-! ### top-down -/

section TopDown
variable (hst : StampTotal sem) (hwfb : WriteFreeBody body) (hone : ∀ t, OneChecker (body t))
include hst hwfb hone

/-- `Session::require` from an arbitrary well-formed state with a faithful store. -/
theorem faithful_sessionRequire (f : Nat) (s : Sess) (t : Nat) (hwf : SessWF s)
    (hf : Faithful sem body s.store) :
    Faithful sem body (sessionRequire sem body f s t).1.store := by
  unfold sessionRequire; simp only []
  have h0 : TInv sem body s.fs (({ s with cur := none } : Sess).emit .buildStart) :=
    ⟨⟨(hwf.clearCur.emit .buildStart).wf, rfl, hf, fun n hn => (nomatch hn)⟩,
      fun n hn => (nomatch hn)⟩
  have IH := (tdM (fs := s.fs) hst hwfb hone f).require _ t alwaysChecker h0
  split
  next s2 a heq => exact IH.faithful_of heq
  next s2 o heq => exact (IH.ok s2 o heq).1.inv.faithful

/-- `requireAll` from an arbitrary well-formed state with a faithful store. -/
theorem faithful_requireAll (f : Nat) (ts : List Nat) : ∀ (s : Sess), SessWF s →
    Faithful sem body s.store → Faithful sem body (requireAll sem body f s ts).1.store := by
  induction ts with
  | nil => intro s _ hf; exact hf
  | cons t ts ih =>
    intro s hwf hf
    have h1 := faithful_sessionRequire hst hwfb hone f s t hwf hf
    have w1 := sessionRequire_ext sem body f hwf t
    unfold requireAll
    split
    next s2 a heq => rw [heq] at h1; exact h1
    next s2 o heq =>
      rw [heq] at h1
      have h2 := ih s2 (w1.out heq).wf h1
      split
      next s3 a heq3 => rw [heq3] at h2; exact h2
      next s3 os heq3 => rw [heq3] at h2; exact h2

end TopDown

/-! ### bottom-up -/

/-- `schedule_tasks_affected_by` creates at most a resource node. -/
theorem faithful_scheduleAffectedBy (s : Sess) (r : Nat) (hwf : SessWF s)
    (hf : Faithful sem body s.store) (hcf : ∀ n, s.cur = some n → s.store.taskOutput n = none) :
    Faithful sem body (scheduleAffectedBy sem s r).store :=
  ((⟨hwf, rfl, hf, hcf⟩ : MInv sem body s.fs s).scheduleAffectedBy r).1.inv.faithful

/-- The scheduling part of `execute_and_schedule` does not touch the store. -/
theorem faithful_scheduleAfterExec (s : Sess) (node t : Nat) (out : Int)
    (hf : Faithful sem body s.store) :
    Faithful sem body (scheduleAfterExec sem s node t out).store := by
  rw [store_scheduleAfterExec]; exact hf

section BottomUp
variable (hst : StampTotal sem) (hwfb : WriteFreeBody body) (hone : ∀ t, OneChecker (body t))
  (hreq : ∀ t, OneRequire (body t))
include hst hwfb hone hreq

/-- `execute_scheduled` outside of any execution. -/
theorem faithful_buExecuteScheduled {fs : List (Nat × Int)} (f : Nat) : ∀ (s : Sess),
    MInv sem body fs s → s.cur = none →
    Faithful sem body (buExecuteScheduled sem body f s).1.store ∧
    ∀ s', buExecuteScheduled sem body f s = (s', .ok ()) → MInv sem body fs s' := by
  induction f with
  | zero =>
    intro s h _
    unfold buExecuteScheduled
    exact ⟨h.faithful, fun s' heq => by cases heq⟩
  | succ f ih =>
    intro s h hc
    unfold buExecuteScheduled
    split
    next hq => exact ⟨h.faithful, fun s' heq => by cases heq; exact h⟩
    next n q hq =>
      have st1 : MStep sem body fs s { s with queue := q } :=
        h.setQueue rfl rfl rfl (h.wf.subQueue (fun _ hm => queuePop_rest_subset hq hm)).wf
      have IH := (buM (fs := fs) hst hwfb hone hreq f).execAndSchedule { s with queue := q } n
        st1.inv (fun a ha => by rw [show ({ s with queue := q } : Sess).cur = s.cur from rfl, hc] at ha; cases ha)
      split
      next s2 a heq => exact ⟨IH.faithful_of heq, fun s' heq' => by cases heq'⟩
      next s2 o heq =>
        obtain ⟨st2, _⟩ := IH.ok _ _ heq
        have hc2 : s2.cur = none := by
          rw [(bu_cur sem body f).2.2.2.1 { s with queue := q } n s2 o heq]; exact hc
        exact ih s2 st2.inv hc2

/-- `BottomUpBuild::update_affected_tasks` from an arbitrary state. -/
theorem faithful_updateAffectedTasks (f : Nat) (s : Sess) (hwf : SessWF s)
    (hf : Faithful sem body s.store) :
    Faithful sem body (updateAffectedTasks sem body f s).1.store := by
  unfold updateAffectedTasks; simp only []
  have h0 : MInv sem body s.fs (({ s with cur := none } : Sess).emit .buildStart) :=
    ⟨(hwf.clearCur.emit .buildStart).wf, rfl, hf, fun n hn => (nomatch hn)⟩
  obtain ⟨h1, h2⟩ := faithful_buExecuteScheduled hst hwfb hone hreq f _ h0 rfl
  split
  next s2 a heq => rw [heq] at h1; exact h1
  next s2 heq => exact (h2 s2 heq).faithful

/-- A whole bottom-up build (scheduling for an arbitrary list of "changed" resources, then
executing), from an arbitrary well-formed state with a faithful store. -/
theorem faithful_bottomUpBuild (f : Nat) (s : Sess) (changed : List Nat) (hwf : SessWF s)
    (hf : Faithful sem body s.store) (hcf : ∀ n, s.cur = some n → s.store.taskOutput n = none) :
    Faithful sem body (bottomUpBuild sem body f s changed).1.store := by
  unfold bottomUpBuild; simp only []
  have key : ∀ (l : List Nat) (s : Sess), MInv sem body s.fs s →
      MInv sem body s.fs (l.foldl (fun s r => scheduleAffectedBy sem s r) s) ∧
        (l.foldl (fun s r => scheduleAffectedBy sem s r) s).fs = s.fs := by
    intro l
    induction l with
    | nil => intro s h; exact ⟨h, rfl⟩
    | cons r l ih =>
      intro s h
      have h1 := (h.scheduleAffectedBy r).1.inv
      have hfs : (scheduleAffectedBy sem s r).fs = s.fs := h1.fsEq
      obtain ⟨h2, h3⟩ := ih _ (hfs ▸ h1)
      exact ⟨by rw [← hfs]; exact h2, h3.trans hfs⟩
  have h0 : MInv sem body s.fs { s with queue := [] } :=
    ⟨(hwf.subQueue (q := []) (fun _ hm => by cases hm)).wf, rfl, hf, hcf⟩
  obtain ⟨h1, _⟩ := key changed { s with queue := [] } h0
  exact faithful_updateAffectedTasks hst hwfb hone hreq f _ h1.wf h1.faithful

end BottomUp

/-! ### histories -/

/-- A whole bottom-up build on a new session of a well-formed faithful `Pie` leaves a faithful
store, whatever the result and whatever list of "changed" resources it is told. -/
def BUPreserves (sem : Sem) (body : Nat → Prog) : Prop :=
  ∀ (fuel : Nat) (p : PieSt) (changed : List Nat), p.store.WF → Faithful sem body p.store →
    Faithful sem body (bottomUpBuild sem body fuel p.newSession changed).1.store

theorem buPreserves_oneRequire (hst : StampTotal sem) (hwfb : WriteFreeBody body)
    (hone : ∀ t, OneChecker (body t)) (hreq : ∀ t, OneRequire (body t)) : BUPreserves sem body :=
  fun fuel p changed hw hf =>
    faithful_bottomUpBuild hst hwfb hone hreq fuel p.newSession changed (C19_newSession_wf p hw) hf
      (fun _ hn => (nomatch hn))

section History
variable (hst : StampTotal sem) (hwfb : WriteFreeBody body)
  (hone : ∀ t, OneChecker (body t)) (hbu : BUPreserves sem body)
include hst hwfb hone hbu

/-- One step of a mixed history keeps the store well-formed and faithful. -/
theorem runStep_faithful (fuel : Nat) (p : PieSt) (hw : p.store.WF)
    (hf : Faithful sem body p.store) (st : HStep) :
    (runStep sem body fuel p st).store.WF ∧ Faithful sem body (runStep sem body fuel p st).store := by
  refine ⟨C19_runStep_wf sem body fuel p hw st, ?_⟩
  have hnew : SessWF p.newSession := C19_newSession_wf p hw
  cases st with
  | change r v =>
    show Faithful sem body (p.setContent r v).store
    rw [C19_setContent_store]; exact hf
  | session roots =>
    exact faithful_requireAll hst hwfb hone fuel roots p.newSession hnew hf
  | bottomUp changed roots =>
    show Faithful sem body (match bottomUpBuild sem body fuel p.newSession changed with
      | (s, .abort _) => s.toPie
      | (s, .ok ()) => (requireAll sem body fuel s roots).1.toPie).store
    have h1 := hbu fuel p changed hw hf
    have e1 := bottomUpBuild_ext sem body fuel hnew changed
    split
    next s a heq => rw [heq] at h1; exact h1
    next s heq =>
      rw [heq] at h1
      exact faithful_requireAll hst hwfb hone fuel roots s (e1.out heq).wf h1

theorem foldl_runStep_faithful (fuel : Nat) (steps : List HStep) : ∀ (p : PieSt), p.store.WF →
    Faithful sem body p.store →
    (steps.foldl (runStep sem body fuel) p).store.WF ∧
      Faithful sem body (steps.foldl (runStep sem body fuel) p).store := by
  induction steps with
  | nil => intro p hw hf; exact ⟨hw, hf⟩
  | cons st rest ih =>
    intro p hw hf
    obtain ⟨h1, h2⟩ := runStep_faithful hst hwfb hone hbu fuel p hw hf st
    exact ih _ h1 h2

end History

/-! ### the logging variant -/

variable (sem body)

/-- One step, logging `(fs, root, o)` for every output `o` returned by a `require` of a pure
top-down session (`fs` = the resource state at the start of that session).  Nothing is logged for
the requires that follow a bottom-up build in the same session. -/
def runStepLog (fuel : Nat) (p : PieSt) : HStep → PieSt × List (List (Nat × Int) × Nat × Int)
  | .session roots =>
    ((requireLog sem body fuel p.newSession roots).1.toPie,
      (requireLog sem body fuel p.newSession roots).2.map (fun x => (p.fs, x.1, x.2)))
  | st => (runStep sem body fuel p st, [])

/-- Run a mixed history from `p`, with the log. -/
def runHistoryLogFrom (fuel : Nat) : PieSt → List HStep → PieSt × List (List (Nat × Int) × Nat × Int)
  | p, [] => (p, [])
  | p, st :: rest =>
    ((runHistoryLogFrom fuel (runStepLog sem body fuel p st).1 rest).1,
      (runStepLog sem body fuel p st).2 ++
        (runHistoryLogFrom fuel (runStepLog sem body fuel p st).1 rest).2)

/-- Run a mixed history from the empty `Pie`, with the log. -/
def runHistoryLog (fuel : Nat) (steps : List HStep) : PieSt × List (List (Nat × Int) × Nat × Int) :=
  runHistoryLogFrom sem body fuel {} steps

theorem runStepLog_fst (fuel : Nat) (p : PieSt) (st : HStep) :
    (runStepLog sem body fuel p st).1 = runStep sem body fuel p st := by
  cases st with
  | change r v => rfl
  | session roots =>
    show (requireLog sem body fuel p.newSession roots).1.toPie = _
    rw [requireLog_fst]; rfl
  | bottomUp changed roots => rfl

theorem runHistoryLogFrom_fst (fuel : Nat) (steps : List HStep) : ∀ p : PieSt,
    (runHistoryLogFrom sem body fuel p steps).1 = steps.foldl (runStep sem body fuel) p := by
  induction steps with
  | nil => intro p; rfl
  | cons st rest ih =>
    intro p
    show (runHistoryLogFrom sem body fuel (runStepLog sem body fuel p st).1 rest).1 = _
    rw [ih, runStepLog_fst]; rfl

variable {sem body}

theorem runHistoryLogFrom_sound (hst : StampTotal sem) (hwfb : WriteFreeBody body)
    (hresp : ∀ t, Respects sem (body t)) (hone : ∀ t, OneChecker (body t))
    (hbu : BUPreserves sem body) (fuel : Nat) (steps : List HStep) : ∀ (p : PieSt),
    p.store.WF → Faithful sem body p.store →
    ∀ x ∈ (runHistoryLogFrom sem body fuel p steps).2, Eval sem body x.1 x.2.1 x.2.2 := by
  induction steps with
  | nil => intro p _ _ x hx; cases hx
  | cons st rest ih =>
    intro p hw hf x hx
    have hnext := runStep_faithful hst hwfb hone hbu fuel p hw hf st
    rw [← runStepLog_fst] at hnext
    rcases List.mem_append.mp hx with hx | hx
    · cases st with
      | change r v => cases hx
      | bottomUp changed roots => cases hx
      | session roots =>
        obtain ⟨y, hy, rfl⟩ := List.mem_map.mp hx
        exact (requireLog_sound (fs := p.fs) hst hwfb hresp hone fuel roots p.newSession
          (SInv.newSession hw hf)).2.2 y hy
    · exact ih _ hnext.1 hnext.2 x hx

end Mixed
end PieModel
