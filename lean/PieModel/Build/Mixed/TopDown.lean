/-
`Faithful` is preserved by the top-down build from every state that satisfies the weak invariant
`TInv` (= `MInv` + "the executing task is not marked consistent"), with an ARBITRARY `consistent`
set and queue: the joint induction over `tdRequire/tdMake/tdCheck/tdCheckDeps/tdRun`.

This is the induction of `Build/Sound/TopDown*.lean` with the soundness claims removed.  What is
kept: consistent tasks keep their records (`TStep.cext`; the top-down build executes only tasks
that are not marked consistent), the ancestors of the node a call works on are protected (`Prot`),
and the recorded dependencies of the executing task describe the walk so far (`RunInv`).
-/
import PieModel.Build.Mixed.Inv

namespace PieModel
namespace Mixed

variable (sem : Sem) (body : Nat → Prog) (fs : List (Nat × Int))

/-- The weak invariant for the top-down build. -/
structure TInv (s : Sess) : Prop where
  m : MInv sem body fs s
  /-- the executing task is not marked consistent -/
  curFresh : ∀ n, s.cur = some n → n ∉ s.consistent

/-- `s'` is a later state of a top-down build: consistent tasks stay consistent and keep their
records. -/
structure TStep (s s' : Sess) : Prop where
  inv : TInv sem body fs s'
  mono : ∀ x ∈ s.consistent, x ∈ s'.consistent
  cext : ∀ x ∈ s.consistent, Same s s' x
  le : s.store.Le s'.store

variable {sem body fs}

namespace TInv
variable {s : Sess}
theorem wf (h : TInv sem body fs s) : SessWF s := h.m.wf
theorem fsEq (h : TInv sem body fs s) : s.fs = fs := h.m.fsEq
theorem faithful (h : TInv sem body fs s) : Faithful sem body s.store := h.m.faithful
theorem curFree (h : TInv sem body fs s) : ∀ n, s.cur = some n → s.store.taskOutput n = none :=
  h.m.curFree
end TInv

theorem TStep.refl {s : Sess} (h : TInv sem body fs s) : TStep sem body fs s s :=
  ⟨h, fun _ hx => hx, fun _ _ => Same.refl _ _, Store.Le.refl _⟩

theorem TStep.trans {s s' s'' : Sess} (h₁ : TStep sem body fs s s') (h₂ : TStep sem body fs s' s'') :
    TStep sem body fs s s'' :=
  ⟨h₂.inv, fun x hx => h₂.mono x (h₁.mono x hx),
    fun x hx => (h₁.cext x hx).trans (h₂.cext x (h₁.mono x hx)), h₁.le.trans h₂.le⟩

/-- Lifting an `MStep` that keeps `cur` and `consistent` and touches the record of the executing
task only. -/
theorem TInv.lift {s s' : Sess} (h : TInv sem body fs s) (st : MStep sem body fs s s')
    (hcur : s'.cur = s.cur) (hcons : s'.consistent = s.consistent)
    (hsame : ∀ x, s.cur ≠ some x → Same s s' x) : TStep sem body fs s s' :=
  ⟨⟨st.inv, fun n hn => by rw [hcons]; exact h.curFresh n (hcur ▸ hn)⟩,
    fun x hx => hcons ▸ hx,
    fun x hx => hsame x (fun hc => h.curFresh x hc hx), st.le⟩

theorem TInv.same {s s' : Sess} (h : TInv sem body fs s) (h1 : s'.store = s.store)
    (h2 : s'.fs = s.fs) (h3 : s'.cur = s.cur) (h4 : s'.consistent = s.consistent)
    (h5 : s'.queue = s.queue) : TStep sem body fs s s' :=
  h.lift (h.m.same h1 h2 h3 h5) h3 h4 (fun x _ => ⟨by rw [h1], by rw [h1]⟩)

theorem TInv.emit {s : Sess} (h : TInv sem body fs s) (e : Ev) : TStep sem body fs s (s.emit e) :=
  h.same rfl rfl rfl rfl rfl

theorem TStep.emit {s s' : Sess} (h : TStep sem body fs s s') (e : Ev) :
    TStep sem body fs s (s'.emit e) := h.trans (h.inv.emit e)

/-- Marking a node consistent that is not the executing task. -/
theorem TInv.mark {s : Sess} (h : TInv sem body fs s) {m : Nat}
    (hm : ∀ n, s.cur = some n → n ≠ m) : TStep sem body fs s (s.markConsistent m) := by
  refine ⟨⟨(h.m.mark m).inv, ?_⟩, fun x hx => (mem_markConsistent s m x).mpr (.inl hx),
    fun x _ => same_markConsistent s m x, by simp [Store.Le.refl]⟩
  intro n hn
  simp only [Sess.cur_markConsistent] at hn
  intro hc
  rcases (mem_markConsistent s m n).mp hc with hc | hc
  · exact h.curFresh n hn hc
  · exact hm n hn hc

theorem TInv.getTask {s s' : Sess} (h : TInv sem body fs s) (t : Nat)
    (hst : s'.store = (s.store.getOrCreateTaskNode t).1) (hfs : s'.fs = s.fs)
    (hcur : s'.cur = s.cur) (hcons : s'.consistent = s.consistent) (hq : s'.queue = s.queue) :
    TStep sem body fs s s' ∧ ∀ x, Same s s' x := by
  obtain ⟨st, hs⟩ := h.m.getTask t hst hfs hcur hq
  exact ⟨h.lift st hcur hcons (fun x _ => hs x), hs⟩

theorem reserveRequire_specT {s : Sess} (h : TInv sem body fs s) {mu : Nat}
    (hd : ∃ t, s.store.taskOf mu = some t) {s' : Sess} {res : Res Unit}
    (heq : reserveRequire s mu = (s', res)) :
    TStep sem body fs s s' ∧ s'.cur = s.cur ∧ s'.consistent = s.consistent ∧
    (∀ x, s.cur ≠ some x → Same s s' x) ∧
    (res = .ok () → ∀ n, s.cur = some n → s'.store.g.HasEdge n mu ∧
      (((∃ d0, (mu, d0) ∈ s.store.g.outgoingEdges n) ∧
          s'.store.g.outgoingEdges n = s.store.g.outgoingEdges n) ∨
       ((∀ d0, (mu, d0) ∉ s.store.g.outgoingEdges n) ∧
          s'.store.g.outgoingEdges n = s.store.g.outgoingEdges n ++ [(mu, .reserved)]))) := by
  obtain ⟨st, h1, h2, _, h4, h5⟩ := reserveRequire_spec h.m hd heq
  exact ⟨h.lift st h1 h2 h4, h1, h2, h4, h5⟩

theorem updateRequire_specT {s : Sess} (h : TInv sem body fs s) {mu u : Nat}
    (hd : s.store.taskOf mu = some u) (c : Nat) (stamp : Stamp) {s' : Sess} {res : Res Unit}
    (heq : updateRequire s mu u c stamp = (s', res)) :
    TStep sem body fs s s' ∧ s'.cur = s.cur ∧ s'.consistent = s.consistent ∧
    (∀ x, s.cur ≠ some x → Same s s' x) ∧
    (∀ x, s'.store.taskOutput x = s.store.taskOutput x) ∧
    (res = .ok () → ∀ n, s.cur = some n → s'.store.g.outgoingEdges n =
      (s.store.g.outgoingEdges n).map (fun p => if p.1 = mu then (p.1, .require u c stamp) else p)) := by
  obtain ⟨st, h1, h2, _, h4, h5, h6⟩ := updateRequire_spec h.m hd c stamp heq
  exact ⟨h.lift st h1 h2 h4, h1, h2, h4, h5, h6⟩

theorem doRead_specT (hst : StampTotal sem) {s : Sess} (h : TInv sem body fs s) {n : Nat}
    (hc : s.cur = some n) (r c : Nat) {s' : Sess} {res : Res (Except Int (Option Int))}
    (hF : doRead sem s r c = (s', res)) :
    TStep sem body fs s s' ∧ s'.cur = s.cur ∧ s'.consistent = s.consistent ∧
    (∀ x, x ≠ n → Same s s' x) ∧
    ∀ a, res = .ok a → a = .ok (aget fs r) ∧ ∃ dst stamp, sem.rstamp c (aget fs r) = .ok stamp ∧
      s'.store.resOf dst = some r ∧
      (((∃ d0, (dst, d0) ∈ s.store.g.outgoingEdges n) ∧
          s'.store.g.outgoingEdges n = s.store.g.outgoingEdges n) ∨
       ((∀ d0, (dst, d0) ∉ s.store.g.outgoingEdges n) ∧
          s'.store.g.outgoingEdges n = s.store.g.outgoingEdges n ++ [(dst, .read r c stamp)])) := by
  obtain ⟨st, h1, h2, _, h4, h5⟩ := doRead_spec hst h.m hc r c hF
  exact ⟨h.lift st h1 h2 (fun x hx => h4 x (fun hxn => hx (by rw [hxn]; exact hc))), h1, h2, h4, h5⟩

theorem TInv.startExec {s s' : Sess} (h : TInv sem body fs s) {m t : Nat}
    (ht : s.store.taskOf m = some t) (hm : m ∉ s.consistent)
    (hst : s'.store = s.store.resetTask m) (hcur : s'.cur = some m) (hfs : s'.fs = s.fs)
    (hcons : s'.consistent = s.consistent) (hq : s'.queue = s.queue) :
    TStep sem body fs s s' ∧ (∀ x, x ≠ m → Same s s' x) ∧ s'.store.g.outgoingEdges m = [] := by
  obtain ⟨st, hs, he⟩ := h.m.startExec ht hst hcur hfs hq
  refine ⟨⟨⟨st.inv, ?_⟩, fun x hx => hcons ▸ hx, ?_, st.le⟩, hs, he⟩
  · intro n hn
    rw [hcur] at hn; cases hn
    rw [hcons]; exact hm
  · intro x hx
    exact hs x (fun hxm => hm (hxm ▸ hx))

theorem TInv.endExec {s s' : Sess} (h : TInv sem body fs s) {m t : Nat} {o : Int}
    (ht : s.store.taskOf m = some t) (hm : m ∉ s.consistent)
    (hrep : Replay sem (body t) (s.store.depsFrom m) o) (hres : Dep.reserved ∉ s.store.depsFrom m)
    (hst : s'.store = s.store.setTaskOutput m o) (hfs : s'.fs = s.fs)
    (hcons : s'.consistent = s.consistent) (hwf : SessWF s')
    (hcf : ∀ n, s'.cur = some n → n ≠ m ∧ s.store.taskOutput n = none ∧ n ∉ s.consistent) :
    TStep sem body fs s s' ∧ (∀ x, x ≠ m → Same s s' x) ∧ s'.store.taskOutput m = some o ∧
      s'.store.g.outgoingEdges m = s.store.g.outgoingEdges m := by
  obtain ⟨st, hs, ho, he⟩ := h.m.endExec ht hrep hres hst hfs hwf
    (fun n hn => ⟨(hcf n hn).1, (hcf n hn).2.1⟩)
  refine ⟨⟨⟨st.inv, ?_⟩, fun x hx => hcons ▸ hx, ?_, st.le⟩, hs, ho, he⟩
  · intro n hn
    rw [hcons]; exact (hcf n hn).2.2
  · intro x hx
    exact hs x (fun hxm => hm (hxm ▸ hx))

theorem TInv.cur_not_consistent {s : Sess} (h : TInv sem body fs s) {n : Nat} (hc : s.cur = some n) :
    n ∉ s.consistent := h.curFresh n hc

theorem runDep_monoT {qt qr qt' qr' : List (Nat × Nat)} {s s' : Sess} {dst : Nat} {d : Dep}
    (h : RunDep sem fs qt qr s dst d) (st : TStep sem body fs s s')
    (ht : ∀ p ∈ qt, p ∈ qt') (hr : ∀ p ∈ qr, p ∈ qr') : RunDep sem fs qt' qr' s' dst d := by
  cases d with
  | reserved => exact h
  | require u c stp =>
    obtain ⟨h1, h2, o, h3, h4⟩ := h
    exact ⟨ht _ h1, st.mono _ h2, o, by rw [(st.cext _ h2).1]; exact h3, h4⟩
  | read r c stp => exact ⟨hr _ h.1, h.2⟩
  | write r c stp => exact h

/-! ### the statement of the joint induction -/

variable (sem body fs)

/-- Result of a top-down call from state `s`. -/
structure OutcomeT {α : Type} (s : Sess) (F : Sess × Res α) (Q : Sess → α → Prop) : Prop where
  faithful : Faithful sem body F.1.store
  ok : ∀ s' v, F = (s', .ok v) → TStep sem body fs s s' ∧ Q s' v

/-- `tdMake`: the node of `t` is consistent and carries the returned output; the ancestors of the
node are untouched. -/
def QMake (s : Sess) (t : Nat) (s' : Sess) (v : Int) : Prop :=
  nodeOf s t ∈ s'.consistent ∧ s'.store.taskOutput (nodeOf s t) = some v ∧
    s'.store.taskOf (nodeOf s t) = some t ∧ Prot s s' (nodeOf s t)

/-- `tdCheck` of node `m`: `m` and its ancestors are untouched; the verdict "consistent with
output `o`" returns the stored output. -/
def QCheck (s : Sess) (m : Nat) (s' : Sess) (r : Option Int) : Prop :=
  ProtR s s' m ∧ ∀ o, r = some o → s'.store.taskOutput m = some o

def QDeps (s : Sess) (m : Nat) (s' : Sess) (_ : Bool) : Prop := ProtR s s' m

def QReq (s : Sess) (u c : Nat) (s' : Sess) (out : Int) : Prop :=
  nodeOf s u ∈ s'.consistent ∧ s'.store.taskOutput (nodeOf s u) = some out ∧
    s'.store.taskOf (nodeOf s u) = some u ∧
    ∀ n, s.cur = some n → Prot s s' n ∧
      EdgeUpd (s.store.g.outgoingEdges n) (s'.store.g.outgoingEdges n) (nodeOf s u)
        (.require u c (sem.ostamp c out))

def QRun (s : Sess) (n : Nat) (p : Prog) (s' : Sess) (v : Int) : Prop :=
  Prot s s' n ∧ (∃ qt qr, RunInv sem fs qt qr s' n) ∧
    (∀ d ∈ s.store.depsFrom n, d ∈ s'.store.depsFrom n) ∧ Replay sem p (s'.store.depsFrom n) v

/-- The joint statement for fuel `f`. -/
structure TdM (f : Nat) : Prop where
  require : ∀ s u c, TInv sem body fs s →
    OutcomeT sem body fs s (tdRequire sem body f s u c) (QReq sem s u c)
  make : ∀ s t, TInv sem body fs s → CurReach s (nodeOf s t) →
    OutcomeT sem body fs s (tdMake sem body f s t) (QMake s t)
  check : ∀ s m, TInv sem body fs s → m ∉ s.consistent → CurReach s m →
    OutcomeT sem body fs s (tdCheck sem body f s m) (QCheck s m)
  checkDeps : ∀ s m ds, TInv sem body fs s → m ∉ s.consistent → CurReach s m →
    (∀ d ∈ ds, d ∈ s.store.depsFrom m) →
    OutcomeT sem body fs s (tdCheckDeps sem body f s ds) (QDeps s m)
  run : ∀ s n p qt qr, TInv sem body fs s → s.cur = some n → p.WriteFree → OneCk qt qr p →
    RunInv sem fs qt qr s n → OutcomeT sem body fs s (tdRun sem body f s p) (QRun sem fs s n p)

variable {sem body fs}

namespace OutcomeT
variable {α : Type} {s s₁ : Sess} {F : Sess × Res α} {Q Q₁ : Sess → α → Prop}

theorem abort {a : Abort} (h : Faithful sem body s₁.store) :
    OutcomeT sem body fs s (s₁, (.abort a : Res α)) Q :=
  ⟨h, fun _ _ heq => by cases heq⟩

theorem ret {v : α} (st : TStep sem body fs s s₁) (hq : Q s₁ v) :
    OutcomeT sem body fs s (s₁, .ok v) Q :=
  ⟨st.inv.faithful, fun _ _ heq => by cases heq; exact ⟨st, hq⟩⟩

theorem faithful_of {r : Res α} (o : OutcomeT sem body fs s F Q) (heq : F = (s₁, r)) :
    Faithful sem body s₁.store := by
  have := o.faithful; rw [heq] at this; exact this

theorem trans (o : OutcomeT sem body fs s₁ F Q₁) (st : TStep sem body fs s s₁)
    (hq : ∀ s' v, TStep sem body fs s₁ s' → Q₁ s' v → Q s' v) : OutcomeT sem body fs s F Q :=
  ⟨o.faithful, fun s' v heq => ⟨st.trans (o.ok s' v heq).1, hq s' v (o.ok s' v heq).1 (o.ok s' v heq).2⟩⟩

end OutcomeT

/-! ### fuel zero, `tdCheckDeps`, `tdCheck` -/

theorem tdM_zero : TdM sem body fs 0 := by
  refine ⟨?_, ?_, ?_, ?_, ?_⟩
  · intro s u c h; unfold tdRequire; exact .abort h.faithful
  · intro s t h _; unfold tdMake; exact .abort h.faithful
  · intro s m h _ _; unfold tdCheck; exact .abort h.faithful
  · intro s m ds h _ _ _; unfold tdCheckDeps; exact .abort h.faithful
  · intro s n p qt qr h _ _ _ _; unfold tdRun; exact .abort h.faithful

theorem checkDeps_succ {f : Nat} (ih : TdM sem body fs f) (s : Sess) (m : Nat)
    (ds : List Dep) (h : TInv sem body fs s) (hm : m ∉ s.consistent) (hcr : CurReach s m)
    (hds : ∀ d ∈ ds, d ∈ s.store.depsFrom m) :
    OutcomeT sem body fs s (tdCheckDeps sem body (f + 1) s ds) (QDeps s m) := by
  cases ds with
  | nil =>
    unfold tdCheckDeps
    exact .ret (TStep.refl h) (ProtR.refl _ _)
  | cons d ds =>
    have hds' : ∀ d' ∈ ds, d' ∈ s.store.depsFrom m := fun d' hd' => hds d' (List.mem_cons_of_mem _ hd')
    cases d with
    | reserved => unfold tdCheckDeps; exact .abort h.faithful
    | require u c stamp =>
      unfold tdCheckDeps; simp only []
      have e0 := h.emit (.checkTaskStart u c stamp)
      obtain ⟨dst, hdst⟩ := (Store.mem_depsFrom_iff _ _ _).mp (hds _ (List.mem_cons_self ..))
      have htask : s.store.taskOf dst = some u := (h.wf.store.mem_outgoingEdges_ok hdst).2
      have hnode : nodeOf (s.emit (.checkTaskStart u c stamp)) u = dst := nodeOf_eq h.wf.store htask
      have hedge : s.store.g.HasEdge m dst := (Store.hasEdge_iff_mem_oe h.wf.store _ _).mpr ⟨_, hdst⟩
      have IH := ih.make (s.emit (.checkTaskStart u c stamp)) u e0.inv
        (by rw [hnode]; exact fun n hn => (hcr n hn).tail hedge)
      split
      next s2 a heq => exact .abort (IH.faithful_of heq)
      next s2 out heq =>
        obtain ⟨st2, hcons2, hout2, htask2, hprot⟩ := IH.ok s2 out heq
        rw [hnode] at hcons2 hout2 htask2 hprot
        have hcur2 : s2.cur = s.cur := cur_tdMake (s := s.emit (.checkTaskStart u c stamp)) sem body heq
        have hpr : ProtR s s2 m := Prot.toR (s := s) hprot (.edge hedge)
        have hm2 : m ∉ s2.consistent := fun hc => hm ((hpr m (.inl rfl)).2 hc)
        have hsame : Same s s2 m := (hpr m (.inl rfl)).1
        have st02 : TStep sem body fs s
            (s2.emit (.checkTaskEnd u c stamp (sem.ocheck c out stamp))) := (e0.trans st2).emit _
        split
        next hck =>
          have hcr2 : CurReach (s2.emit (.checkTaskEnd u c stamp (sem.ocheck c out stamp))) m :=
            fun n hn => hpr.prot.reach h.wf.store st2.inv.wf.store
              (hcr n (by rw [← hcur2]; exact hn))
          have IH2 := ih.checkDeps (s2.emit (.checkTaskEnd u c stamp (sem.ocheck c out stamp))) m ds
            st02.inv hm2 hcr2 (fun d' hd' => by
              show d' ∈ s2.store.depsFrom m
              rw [hsame.deps]; exact hds' d' hd')
          refine IH2.trans st02 ?_
          intro s' b st' hp'
          exact ProtR.trans (s' := s2) hpr hp' h.wf.store st2.inv.wf.store
        next hck =>
          exact .ret st02 hpr
    | read r c stamp =>
      rw [tdCheckDeps_read]
      split
      next hck =>
        have st1 : TStep sem body fs s (resCheckEvents s r c stamp (.ok true)) :=
          h.same rfl rfl rfl rfl rfl
        have IH2 := ih.checkDeps (resCheckEvents s r c stamp (.ok true)) m ds st1.inv hm hcr hds'
        refine IH2.trans st1 ?_
        intro s' b st' hp'
        exact hp'
      next hck =>
        exact .ret (h.same rfl rfl rfl rfl rfl) (Prot.same rfl rfl m)
      next e hck =>
        exact .ret (h.same rfl rfl rfl rfl rfl) (Prot.same rfl rfl m)
    | write r c stamp =>
      rw [tdCheckDeps_write]
      split
      next hck =>
        have st1 : TStep sem body fs s (resCheckEvents s r c stamp (.ok true)) :=
          h.same rfl rfl rfl rfl rfl
        have IH2 := ih.checkDeps (resCheckEvents s r c stamp (.ok true)) m ds st1.inv hm hcr hds'
        refine IH2.trans st1 ?_
        intro s' b st' hp'
        exact hp'
      next hck =>
        exact .ret (h.same rfl rfl rfl rfl rfl) (Prot.same rfl rfl m)
      next e hck =>
        exact .ret (h.same rfl rfl rfl rfl rfl) (Prot.same rfl rfl m)

theorem check_succ {f : Nat} (ih : TdM sem body fs f) (s : Sess) (m : Nat)
    (h : TInv sem body fs s) (hm : m ∉ s.consistent) (hcr : CurReach s m) :
    OutcomeT sem body fs s (tdCheck sem body (f + 1) s m) (QCheck s m) := by
  unfold tdCheck
  split
  next hnone => exact .ret (TStep.refl h) ⟨ProtR.refl _ _, fun o ho => by cases ho⟩
  next o0 ho0 =>
    have IH := ih.checkDeps s m (s.store.depsFrom m) h hm hcr (fun d hd => hd)
    split
    next s1 a heq => exact .abort (IH.faithful_of heq)
    next s1 heq =>
      obtain ⟨st1, hp⟩ := IH.ok _ _ heq
      exact .ret st1 ⟨hp, fun o ho => by cases ho⟩
    next s1 heq =>
      obtain ⟨st1, hp⟩ := IH.ok _ _ heq
      exact .ret st1 ⟨hp, fun o ho => ho⟩

/-! ### `tdRequire`, `tdRun` -/

theorem require_succ {f : Nat} (ih : TdM sem body fs f) (s : Sess) (u c : Nat)
    (h : TInv sem body fs s) :
    OutcomeT sem body fs s (tdRequire sem body (f + 1) s u c) (QReq sem s u c) := by
  unfold tdRequire; simp only []
  obtain ⟨hb, hbs⟩ := h.getTask u
    (s' := { s.emit (.requireStart u c) with store := (s.store.getOrCreateTaskNode u).1 })
    rfl rfl rfl rfl rfl
  have htm : (s.store.getOrCreateTaskNode u).1.taskOf (nodeOf s u) = some u :=
    Store.taskOf_getOrCreateTaskNode_self h.wf.store u
  split
  next s_c a heq =>
    exact .abort (reserveRequire_specT hb.inv ⟨u, htm⟩ heq).1.inv.faithful
  next s_c heq =>
    obtain ⟨stc, hcurc, hconsc, hsamec, hedgec⟩ := reserveRequire_specT hb.inv ⟨u, htm⟩ heq
    have htc : s_c.store.taskOf (nodeOf s u) = some u := stc.le.task _ _ htm
    have hnodec : nodeOf s_c u = nodeOf s u := nodeOf_eq stc.inv.wf.store htc
    have IH := ih.make s_c u stc.inv (by
      rw [hnodec]
      intro n hn
      exact .edge (hedgec rfl n (by rw [← hcurc]; exact hn)).1)
    split
    next s_d a heq2 => exact .abort (IH.faithful_of heq2)
    next s_d out heq2 =>
      obtain ⟨std, hconsd, houtd, htd, hprotd⟩ := IH.ok s_d out heq2
      rw [hnodec] at hconsd houtd htd hprotd
      have hcurd : s_d.cur = s_c.cur := cur_tdMake sem body heq2
      have ste := std.inv.emit (.requireEnd u c (sem.ostamp c out) out)
      split
      next s_f a heq3 =>
        exact .abort (updateRequire_specT ste.inv htd c (sem.ostamp c out) heq3).1.inv.faithful
      next s_f heq3 =>
        obtain ⟨stf, hcurf, hconsf, hsamef, houtf, hupd⟩ :=
          updateRequire_specT ste.inv htd c (sem.ostamp c out) heq3
        refine .ret (hb.trans (stc.trans (std.trans (ste.trans stf))))
          ⟨hconsf ▸ hconsd, by rw [houtf]; exact houtd, stf.le.task _ _ htd, ?_⟩
        intro n hn
        have hnb : ({ s.emit (.requireStart u c) with
            store := (s.store.getOrCreateTaskNode u).1 } : Sess).cur = some n := hn
        have hnc : s_c.cur = some n := by rw [hcurc]; exact hnb
        have hnd : s_d.cur = some n := by rw [hcurd]; exact hnc
        obtain ⟨hedge, halt⟩ := hedgec rfl n hnb
        -- the ancestors of `n`
        have hw := h.wf.store
        have hp1 : Prot s { s.emit (.requireStart u c) with
            store := (s.store.getOrCreateTaskNode u).1 } n := fun x _ => ⟨hbs x, id⟩
        have hp2 : Prot { s.emit (.requireStart u c) with
            store := (s.store.getOrCreateTaskNode u).1 } s_c n :=
          Prot.mod hb.inv.wf.store
            (fun x hx => hsamec x (fun hh => hx (Option.some.inj (hnb.symm.trans hh)).symm))
            (fun x hx => .inl (hconsc ▸ hx))
        have hp3 : Prot s_c s_d n := fun x hx => hprotd x (hx.tail hedge)
        have hp4 : Prot s_d s_f n :=
          Prot.mod std.inv.wf.store
            (fun x hx => hsamef x (fun hh => hx (Option.some.inj (hnd.symm.trans hh)).symm))
            (fun x hx => .inl (hconsf ▸ hx))
        refine ⟨((hp1.trans hp2 hw hb.inv.wf.store).trans hp3 hw stc.inv.wf.store).trans hp4 hw
          std.inv.wf.store, ?_⟩
        -- the edges of `n`
        have hsn : Same s_c s_d n := (hprotd n (.edge hedge)).1
        apply edgeUpd_of (Lc := s_c.store.g.outgoingEdges n)
        · rw [← (hbs n).2]; exact halt
        · rw [hupd rfl n hnd]
          show (s_d.store.g.outgoingEdges n).map _ = _
          rw [hsn.2]

theorem run_succ (hst : StampTotal sem) {f : Nat} (ih : TdM sem body fs f) (s : Sess)
    (n : Nat) (p : Prog) (qt qr : List (Nat × Nat)) (h : TInv sem body fs s) (hc : s.cur = some n)
    (hwf : p.WriteFree) (hone : OneCk qt qr p) (hri : RunInv sem fs qt qr s n) :
    OutcomeT sem body fs s (tdRun sem body (f + 1) s p) (QRun sem fs s n p) := by
  cases hwf with
  | ret v =>
    unfold tdRun
    exact .ret (TStep.refl h) ⟨Prot.refl _ _, ⟨qt, qr, hri⟩, fun d hd => hd, rfl⟩
  | panic => unfold tdRun; exact .abort h.faithful
  | req u c k hk =>
    unfold tdRun
    have IH := ih.require s u c h
    split
    next s1 a heq => exact .abort (IH.faithful_of heq)
    next s1 out heq =>
      obtain ⟨st1, hcons, hout, htask, hcf⟩ := IH.ok s1 out heq
      obtain ⟨hp1, hupd1, hupd2, hupd3⟩ := hcf n hc
      have hcur1 : s1.cur = some n := (cur_tdRequire sem body heq).trans hc
      have hri1 : RunInv sem fs ((u, c) :: qt) qr s1 n := by
        intro dst d hd
        rcases hupd1 _ hd with ⟨hold, _⟩ | hnew
        · exact runDep_monoT (hri dst d hold) st1 (fun p hp => List.mem_cons_of_mem _ hp) (fun p hp => hp)
        · cases hnew
          exact ⟨List.mem_cons_self .., hcons, out, hout, rfl⟩
      have IH2 := ih.run s1 n (k out) ((u, c) :: qt) qr st1.inv hcur1 (hk out) (hone.2 out) hri1
      refine IH2.trans st1 ?_
      rintro s' v st' ⟨hp', hri', hsub', hrep'⟩
      have hD : Dep.require u c (sem.ostamp c out) ∈ s1.store.depsFrom n :=
        (Store.mem_depsFrom_iff _ _ _).mpr ⟨_, hupd3⟩
      refine ⟨hp1.trans hp' h.wf.store st1.inv.wf.store, hri', ?_,
        ⟨sem.ostamp c out, hsub' _ hD, out, rfl, hrep'⟩⟩
      intro d hd
      obtain ⟨dst, hdst⟩ := (Store.mem_depsFrom_iff _ _ _).mp hd
      by_cases hne : dst = nodeOf s u
      · subst hne
        apply hsub'
        have hok := (h.wf.store.mem_outgoingEdges_ok hdst).2
        have hrd := hri _ d hdst
        cases d with
        | reserved => exact hrd.elim
        | write r' c' st0 => exact hrd.elim
        | read r' c' st0 =>
          have h1 : s1.store.resOf (nodeOf s u) = some r' := st1.le.res _ _ hok
          rw [Store.resOf_eq_none_of_taskOf htask] at h1; cases h1
        | require u' c' st0 =>
          obtain ⟨hq, hcs, o', ho', hst0⟩ := hrd
          have h1 : s1.store.taskOf (nodeOf s u) = some u' := st1.le.task _ _ hok
          rw [htask] at h1; cases h1
          have hcc := hone.1 c' hq
          subst hcc
          have h2 : s1.store.taskOutput (nodeOf s u) = some o' := by
            rw [(st1.cext _ hcs).1]; exact ho'
          rw [hout] at h2; cases h2
          rw [hst0]; exact hD
      · exact hsub' d ((Store.mem_depsFrom_iff _ _ _).mpr ⟨dst, hupd2 _ hdst hne⟩)
  | read r c k hk =>
    unfold tdRun
    split
    next s1 a heq => exact .abort (doRead_specT hst h hc r c heq).1.inv.faithful
    next s1 x heq =>
      obtain ⟨st1, hcur1', hcons1, hsame1, hres⟩ := doRead_specT hst h hc r c heq
      obtain ⟨rfl, dst, stamp, hstamp, hresof, halt⟩ := hres x rfl
      have hcur1 : s1.cur = some n := hcur1'.trans hc
      have hp1 : Prot s s1 n := Prot.mod h.wf.store hsame1 (fun x hx => .inl (hcons1 ▸ hx))
      -- the read dependency is recorded, and all old edges are kept
      have hkey : (dst, Dep.read r c stamp) ∈ s1.store.g.outgoingEdges n ∧
          ∀ p ∈ s.store.g.outgoingEdges n, p ∈ s1.store.g.outgoingEdges n := by
        rcases halt with ⟨⟨d0, hd0⟩, heq'⟩ | ⟨_, heq'⟩
        · rw [heq']
          refine ⟨?_, fun p hp => hp⟩
          have hok := (h.wf.store.mem_outgoingEdges_ok hd0).2
          have hrd := hri _ d0 hd0
          cases d0 with
          | reserved => exact hrd.elim
          | write r' c' st0 => exact hrd.elim
          | require u' c' st0 =>
            have h1 : s1.store.taskOf dst = some u' := st1.le.task _ _ hok
            rw [Store.taskOf_eq_none_of_resOf hresof] at h1; cases h1
          | read r' c' st0 =>
            obtain ⟨hq, hst0⟩ := hrd
            have h1 : s1.store.resOf dst = some r' := st1.le.res _ _ hok
            rw [hresof] at h1; cases h1
            have hcc := hone.1 c' hq
            subst hcc
            rw [hstamp] at hst0; cases hst0
            exact hd0
        · rw [heq']
          exact ⟨by simp, fun p hp => List.mem_append.mpr (.inl hp)⟩
      have hri1 : RunInv sem fs qt ((r, c) :: qr) s1 n := by
        intro dst' d hd
        rcases halt with ⟨_, heq'⟩ | ⟨_, heq'⟩
        · rw [heq'] at hd
          exact runDep_monoT (hri dst' d hd) st1 (fun p hp => hp) (fun p hp => List.mem_cons_of_mem _ hp)
        · rw [heq'] at hd
          rcases List.mem_append.mp hd with hd | hd
          · exact runDep_monoT (hri dst' d hd) st1 (fun p hp => hp) (fun p hp => List.mem_cons_of_mem _ hp)
          · simp only [List.mem_singleton, Prod.mk.injEq] at hd
            obtain ⟨rfl, rfl⟩ := hd
            exact ⟨List.mem_cons_self .., hstamp⟩
      have IH2 := ih.run s1 n (k (.ok (aget fs r))) qt ((r, c) :: qr) st1.inv hcur1 (hk _)
        (hone.2 _) hri1
      refine IH2.trans st1 ?_
      rintro s' v st' ⟨hp', hri', hsub', hrep'⟩
      refine ⟨hp1.trans hp' h.wf.store st1.inv.wf.store, hri', ?_,
        ⟨stamp, hsub' _ ((Store.mem_depsFrom_iff _ _ _).mpr ⟨_, hkey.1⟩), aget fs r, hstamp, hrep'⟩⟩
      intro d hd
      obtain ⟨dst', hdst'⟩ := (Store.mem_depsFrom_iff _ _ _).mp hd
      exact hsub' d ((Store.mem_depsFrom_iff _ _ _).mpr ⟨dst', hkey.2 _ hdst'⟩)

/-! ### `tdMake` and the induction -/

theorem make_succ (hwfb : WriteFreeBody body) (hone : ∀ t, OneChecker (body t)) {f : Nat}
    (ih : TdM sem body fs f) (s : Sess) (t : Nat) (h : TInv sem body fs s)
    (hcr : CurReach s (nodeOf s t)) :
    OutcomeT sem body fs s (tdMake sem body (f + 1) s t) (QMake s t) := by
  unfold tdMake; simp only []
  obtain ⟨hb, hbs⟩ := h.getTask t
    (s' := { s with store := (s.store.getOrCreateTaskNode t).1 }) rfl rfl rfl rfl rfl
  have hw := h.wf.store
  have htm : (s.store.getOrCreateTaskNode t).1.taskOf (nodeOf s t) = some t :=
    Store.taskOf_getOrCreateTaskNode_self hw t
  have hpb : Prot s { s with store := (s.store.getOrCreateTaskNode t).1 } (nodeOf s t) :=
    fun x _ => ⟨hbs x, id⟩
  have hcrb : CurReach { s with store := (s.store.getOrCreateTaskNode t).1 } (nodeOf s t) :=
    fun n hn => (Store.reach_getOrCreateTaskNode hw t n _).mpr (hcr n hn)
  split
  next hmem =>
    split
    next o ho => exact .ret hb ⟨hmem, ho, htm, hpb⟩
    next ho => exact .abort hb.inv.faithful
  next hmem =>
    have IHc := ih.check { s with store := (s.store.getOrCreateTaskNode t).1 } (nodeOf s t)
      hb.inv hmem hcrb
    split
    next s1 a heq => exact .abort (IHc.faithful_of heq)
    next s1 o heq =>
      obtain ⟨st1, hp1, hq1⟩ := IHc.ok s1 _ heq
      have ho1 : s1.store.taskOutput (nodeOf s t) = some o := hq1 o rfl
      have ht1 : s1.store.taskOf (nodeOf s t) = some t := st1.le.task _ _ htm
      have hcur1 : s1.cur = s.cur :=
        cur_tdCheck (s := { s with store := (s.store.getOrCreateTaskNode t).1 }) sem body heq
      have stm := st1.inv.mark (m := nodeOf s t) (by
        intro n hn hnm
        have hr := hcrb n (hcur1 ▸ hn)
        rw [hnm] at hr
        exact hb.inv.wf.store.inv.acyclic _ hr)
      refine .ret (hb.trans (st1.trans stm)) ⟨(mem_markConsistent _ _ _).mpr (.inr rfl),
        by simpa using ho1, by simpa using ht1, ?_⟩
      exact (hpb.trans hp1.prot hw hb.inv.wf.store).trans
        (Prot.mod st1.inv.wf.store (fun x _ => ⟨by simp, by simp⟩)
          (fun x hx => (mem_markConsistent _ _ _).mp hx)) hw st1.inv.wf.store
    next s1 heq =>
      obtain ⟨st1, hp1, _⟩ := IHc.ok s1 _ heq
      have hm1 : nodeOf s t ∉ s1.consistent := fun hc => hmem ((hp1 _ (.inl rfl)).2 hc)
      have ht1 : s1.store.taskOf (nodeOf s t) = some t := st1.le.task _ _ htm
      have hcur1 : s1.cur = s.cur :=
        cur_tdCheck (s := { s with store := (s.store.getOrCreateTaskNode t).1 }) sem body heq
      obtain ⟨st2, hs2, hoe2⟩ := st1.inv.startExec
        (s' := ({ s1 with store := s1.store.resetTask (nodeOf s t),
                          cur := some (nodeOf s t) } : Sess).emit (.executeStart t))
        ht1 hm1 rfl rfl rfl rfl rfl
      have IHr := ih.run _ (nodeOf s t) (body t) [] [] st2.inv rfl (hwfb t) (hone t)
        (by intro dst d hd; rw [hoe2] at hd; cases hd)
      split
      next s3 a heq3 => exact .abort (IHr.faithful_of heq3)
      next s3 o heq3 =>
        obtain ⟨st3, hp3, ⟨qt', qr', hri⟩, _, hrep⟩ := IHr.ok s3 o heq3
        have hcur3 : s3.cur = some (nodeOf s t) := cur_tdRun sem body heq3
        have hm3 : nodeOf s t ∉ s3.consistent := st3.inv.cur_not_consistent hcur3
        have ht3 : s3.store.taskOf (nodeOf s t) = some t := st3.le.task _ _ (st2.le.task _ _ ht1)
        have hnores : Dep.reserved ∉ s3.store.depsFrom (nodeOf s t) := by
          intro hh
          obtain ⟨dst, hd⟩ := (Store.mem_depsFrom_iff _ _ _).mp hh
          exact hri dst _ hd
        have hp12 : Prot s1 (({ s1 with
              store := s1.store.resetTask (nodeOf s t),
              cur := some (nodeOf s t) } : Sess).emit (.executeStart t)) (nodeOf s t) :=
          Prot.mod st1.inv.wf.store hs2 (fun x hx => .inl hx)
        have hp03 : Prot { s with store := (s.store.getOrCreateTaskNode t).1 } s3 (nodeOf s t) :=
          (hp1.prot.trans hp12 hb.inv.wf.store st1.inv.wf.store).trans hp3 hb.inv.wf.store
            st2.inv.wf.store
        have hwf4 : SessWF ({ s3.emit (.executeEnd t o) with
            cur := s1.cur,
            store := s3.store.setTaskOutput (nodeOf s t) o } : Sess) :=
          (Ext.endExec (s₂ := s1) (s₄ := s3.emit (.executeEnd t o))
            ⟨st3.inv.wf.emit _, st2.le.trans st3.le⟩ st1.inv.wf (nodeOf s t) o).wf
        have hprev : ∀ n, s1.cur = some n → n ≠ nodeOf s t ∧ s3.store.taskOutput n = none ∧
            n ∉ s3.consistent := by
          intro n hn
          have hn0 : s.cur = some n := hcur1 ▸ hn
          have hr := hcrb n hn0
          refine ⟨fun hnm => hb.inv.wf.store.inv.acyclic _ (hnm ▸ hr), ?_, ?_⟩
          · rw [(hp03 n hr).1.1]
            exact hb.inv.curFree n hn0
          · exact fun hc3 => hb.inv.curFresh n hn0 ((hp03 n hr).2 hc3)
        obtain ⟨st4, hs4, ho4, hoe4⟩ := st3.inv.endExec
          (s' := { s3.emit (.executeEnd t o) with
                   cur := s1.cur,
                   store := s3.store.setTaskOutput (nodeOf s t) o })
          ht3 hm3 hrep hnores rfl rfl rfl hwf4 hprev
        have ht4 := st4.le.task _ _ ht3
        have stm := st4.inv.mark (m := nodeOf s t) (fun n hn => (hprev n hn).1)
        refine .ret (hb.trans (st1.trans (st2.trans (st3.trans (st4.trans stm)))))
          ⟨(mem_markConsistent _ _ _).mpr (.inr rfl),
            by simp only [Sess.store_markConsistent]; exact ho4,
            by simp only [Sess.store_markConsistent]; exact ht4, ?_⟩
        refine ((hpb.trans hp03 hw hb.inv.wf.store).trans
          (Prot.mod (s := s3) st3.inv.wf.store (fun x hx => ?_) (fun x hx => ?_)) hw st3.inv.wf.store)
        · exact ⟨by simp only [Sess.store_markConsistent]; exact (hs4 x hx).1,
            by simp only [Sess.store_markConsistent]; exact (hs4 x hx).2⟩
        · rcases (mem_markConsistent _ _ _).mp hx with hx | hx
          · exact .inl hx
          · exact .inr hx

/-- **The joint induction** for the top-down build. -/
theorem tdM (hst : StampTotal sem) (hwfb : WriteFreeBody body)
    (hone : ∀ t, OneChecker (body t)) (f : Nat) : TdM sem body fs f := by
  induction f with
  | zero => exact tdM_zero
  | succ f ih =>
    exact ⟨require_succ ih, make_succ hwfb hone ih, check_succ ih, checkDeps_succ ih,
      run_succ hst ih⟩

end Mixed
end PieModel
