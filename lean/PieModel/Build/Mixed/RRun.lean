/-
Bottom-up builds with reflexive output checkers: the successor steps of `buRun` and `buExec`
(execution of a task that is not marked consistent).
-/
import PieModel.Build.Mixed.RRequire

namespace PieModel
namespace Mixed

variable {sem : Sem} {body : Nat → Prog} {fs : List (Nat × Int)}

theorem RReach.head {st : Store} {a c : Nat} (h : RReach st a c) :
    ∃ b, ReqEdge st a b ∧ RCone st b c := by
  cases h with
  | edge he => exact ⟨c, he, .inl rfl⟩
  | step he hr => exact ⟨_, he, .inr hr⟩

theorem run_succR (hst : StampTotal sem) {f : Nat} (ih : BuR sem body fs f) (s : Sess)
    (n : Nat) (p : Prog) (qt qr : List (Nat × Nat)) (h : RInv sem body fs s) (hc : s.cur = some n)
    (hwf : p.WriteFree) (hone : OneCk qt qr p) (hri : RunInv sem fs qt qr s n) :
    OutcomeR sem body fs s (buRun sem body (f + 1) s p) (QRunR sem fs s n p) := by
  cases hwf with
  | ret v =>
    unfold buRun
    exact .ret (RStep.refl h) ⟨ProtN.refl _ _, ⟨qt, qr, hri⟩, fun d hd => hd, rfl, rfl⟩
  | panic => unfold buRun; exact .abort h.faithful
  | req u c k hk =>
    unfold buRun
    have IH := ih.require s u c h
    split
    next s1 a heq => exact .abort (IH.faithful_of heq)
    next s1 out heq =>
      obtain ⟨st1, hcons, hout, htask, hcf⟩ := IH.ok s1 out heq
      obtain ⟨hp1, hupd1, hupd2, hupd3⟩ := hcf n hc
      have hcur1 : s1.cur = some n := (cur_buRequire sem body heq).trans hc
      have hnn : nodeOf s u ≠ n := by
        intro hnn
        have := st1.inv.curFree n hcur1
        rw [← hnn, hout] at this; cases this
      have hri1 : RunInv sem fs ((u, c) :: qt) qr s1 n := by
        intro dst d hd
        rcases hupd1 _ hd with ⟨hold, _⟩ | hnew
        · exact runDep_monoR (hri dst d hold) st1 (fun p hp => List.mem_cons_of_mem _ hp)
            (fun p hp => hp)
        · cases hnew
          exact ⟨List.mem_cons_self .., hcons, out, hout, rfl⟩
      have IH2 := ih.run s1 n (k out) ((u, c) :: qt) qr st1.inv hcur1 (hk out) (hone.2 out) hri1
      refine IH2.trans st1 ?_
      rintro s' v st' ⟨hp', hri', hsub', hrep', hrn'⟩
      have hD : Dep.require u c (sem.ostamp c out) ∈ s1.store.depsFrom n :=
        (mem_deps_iff _ _ _).mpr ⟨_, hupd3⟩
      refine ⟨hp1.trans hp' h.wf.store st1.inv.wf.store, hri', ?_,
        ⟨sem.ostamp c out, hsub' _ hD, out, rfl, hrep'⟩,
        ⟨nodeOf s u, out, hnn, st'.le.task _ _ htask, st'.mono _ hcons,
          by rw [st'.stab _ hcons]; exact hout, hrn'⟩⟩
      intro d hd
      obtain ⟨dst, hdst⟩ := (mem_deps_iff _ _ _).mp hd
      by_cases hne : dst = nodeOf s u
      · subst hne
        apply hsub'
        have hok := (h.wf.store.mem_outgoingEdges_ok hdst).2
        have hrd := hri _ d hdst
        cases d with
        | reserved => exact hrd.elim
        | write r' c' st0 => exact hrd.elim
        | read r' c' st0 =>
          have h1 : s1.store.resOf (nodeOf s u) = some r' := st1.le.res _ _ hok
          rw [Store.resOf_eq_none_of_taskOf htask] at h1; cases h1
        | require u' c' st0 =>
          obtain ⟨hq, hcs, o', ho', hst0⟩ := hrd
          have h1 : s1.store.taskOf (nodeOf s u) = some u' := st1.le.task _ _ hok
          rw [htask] at h1; cases h1
          have hcc := hone.1 c' hq
          subst hcc
          have h2 : s1.store.taskOutput (nodeOf s u) = some o' := by
            rw [st1.stab _ hcs]; exact ho'
          rw [hout] at h2; cases h2
          rw [hst0]; exact hD
      · exact hsub' d ((mem_deps_iff _ _ _).mpr ⟨dst, hupd2 _ hdst hne⟩)
  | read r c k hk =>
    unfold buRun
    split
    next s1 a heq => exact .abort (doRead_spec hst h.m hc r c heq).1.inv.faithful
    next s1 x heq =>
      obtain ⟨st1m, hcur1', hcons1, hq1, hsame1, hres⟩ := doRead_spec hst h.m hc r c heq
      obtain ⟨rfl, dst, stamp, hstamp, hresof, halt⟩ := hres x rfl
      have hcur1 : s1.cur = some n := hcur1'.trans hc
      have st1 : RStep sem body fs s s1 := by
        refine h.frame st1m.inv st1m.le hcur1' hcons1 (fun m hm => hq1 ▸ hm)
          (fun y hy => hsame1 y (fun hyn => hy (hyn ▸ hc))) ?_ ?_
        · intro n' hn'
          rw [hc] at hn'; cases hn'
          rw [st1m.inv.curFree n hcur1, h.curFree n hc]
        · intro n' hn' b u' c' stp hmem
          rw [hc] at hn'; cases hn'
          rcases halt with ⟨_, heq'⟩ | ⟨_, heq'⟩
          · rw [heq'] at hmem; exact hmem
          · rw [heq'] at hmem
            rcases List.mem_append.mp hmem with h1 | h1
            · exact h1
            · simp at h1
      have hs1eq : (doRead sem s r c).1 = s1 := by rw [heq]
      have hp1 : ProtN s s1 n :=
        ⟨Prot.mod h.wf.store hsame1 (fun y hy => .inl (hcons1 ▸ hy)), by
          have := doRead_np sem h.wf hc r c (by rw [hs1eq]; exact st1.inv.wf.store)
          rw [hs1eq] at this; exact this⟩
      have hkey : (dst, Dep.read r c stamp) ∈ s1.store.g.outgoingEdges n ∧
          ∀ p ∈ s.store.g.outgoingEdges n, p ∈ s1.store.g.outgoingEdges n := by
        rcases halt with ⟨⟨d0, hd0⟩, heq'⟩ | ⟨_, heq'⟩
        · rw [heq']
          refine ⟨?_, fun p hp => hp⟩
          have hok := (h.wf.store.mem_outgoingEdges_ok hd0).2
          have hrd := hri _ d0 hd0
          cases d0 with
          | reserved => exact hrd.elim
          | write r' c' st0 => exact hrd.elim
          | require u' c' st0 =>
            have h1 : s1.store.taskOf dst = some u' := st1.le.task _ _ hok
            rw [Store.taskOf_eq_none_of_resOf hresof] at h1; cases h1
          | read r' c' st0 =>
            obtain ⟨hq, hst0⟩ := hrd
            have h1 : s1.store.resOf dst = some r' := st1.le.res _ _ hok
            rw [hresof] at h1; cases h1
            have hcc := hone.1 c' hq
            subst hcc
            rw [hstamp] at hst0; cases hst0
            exact hd0
        · rw [heq']
          exact ⟨by simp, fun p hp => List.mem_append.mpr (.inl hp)⟩
      have hri1 : RunInv sem fs qt ((r, c) :: qr) s1 n := by
        intro dst' d hd
        rcases halt with ⟨_, heq'⟩ | ⟨_, heq'⟩
        · rw [heq'] at hd
          exact runDep_monoR (hri dst' d hd) st1 (fun p hp => hp)
            (fun p hp => List.mem_cons_of_mem _ hp)
        · rw [heq'] at hd
          rcases List.mem_append.mp hd with hd | hd
          · exact runDep_monoR (hri dst' d hd) st1 (fun p hp => hp)
              (fun p hp => List.mem_cons_of_mem _ hp)
          · simp only [List.mem_singleton, Prod.mk.injEq] at hd
            obtain ⟨rfl, rfl⟩ := hd
            exact ⟨List.mem_cons_self .., hstamp⟩
      have IH2 := ih.run s1 n (k (.ok (aget fs r))) qt ((r, c) :: qr) st1.inv hcur1 (hk _)
        (hone.2 _) hri1
      refine IH2.trans st1 ?_
      rintro s' v st' ⟨hp', hri', hsub', hrep', hrn'⟩
      refine ⟨hp1.trans hp' h.wf.store st1.inv.wf.store, hri', ?_,
        ⟨stamp, hsub' _ ((mem_deps_iff _ _ _).mpr ⟨_, hkey.1⟩), aget fs r, hstamp, hrep'⟩, hrn'⟩
      intro d hd
      obtain ⟨dst', hdst'⟩ := (mem_deps_iff _ _ _).mp hd
      exact hsub' d ((mem_deps_iff _ _ _).mpr ⟨dst', hkey.2 _ hdst'⟩)

theorem exec_succR (hrefl : OReflexive sem) (hwfb : WriteFreeBody body)
    (hone : ∀ t, OneChecker (body t)) {f : Nat} (ih : BuR sem body fs f) (s : Sess) (t node : Nat)
    (h : RInv sem body fs s) (ht : s.store.taskOf node = some t) (hcr : CurReach s node)
    (hnc : node ∉ s.consistent) :
    OutcomeR sem body fs s (buExec sem body (f + 1) s t node) (QExecR sem body fs s node) := by
  unfold buExec; simp only []
  obtain ⟨st2, hs2, hoe2⟩ := h.startExec
    (s' := ({ s with store := s.store.resetTask node, cur := some node } : Sess).emit
      (.executeStart t)) ht hnc rfl rfl rfl rfl rfl
  have IHr := ih.run _ node (body t) [] [] st2.inv rfl (hwfb t) (hone t)
    (by intro dst d hd; rw [hoe2] at hd; cases hd)
  split
  next s3 a heq3 => exact .abort (IHr.faithful_of heq3)
  next s3 o heq3 =>
    obtain ⟨st3, hp3, ⟨qt', qr', hri⟩, _, hrep, hrn⟩ := IHr.ok s3 o heq3
    have hc3 : s3.cur = some node := (bu_cur sem body f).2.2.2.2.2 _ _ _ _ heq3
    have ht3 : s3.store.taskOf node = some t := st3.le.task _ _ (st2.le.task _ _ ht)
    have hnc3 : node ∉ s3.consistent := st3.inv.curFresh node hc3
    have hw := h.wf.store
    have hw2 := st2.inv.wf.store
    have hw3 := st3.inv.wf.store
    have hnores : Dep.reserved ∉ s3.store.depsFrom node := by
      intro hh
      obtain ⟨dst, hd⟩ := (mem_deps_iff _ _ _).mp hh
      exact hri dst _ hd
    have hp02 : ProtN s (({ s with store := s.store.resetTask node, cur := some node } : Sess).emit
        (.executeStart t)) node :=
      ⟨Prot.mod hw hs2 (fun x hx => .inl hx), fun a hr => Store.reach_resetTask hw node hr⟩
    have hp03 : ProtN s s3 node := hp02.trans hp3 hw hw2
    have hwf4 : SessWF ({ s3.emit (.executeEnd t o) with
        cur := s.cur, store := s3.store.setTaskOutput node o } : Sess) :=
      (Ext.endExec (s₂ := s) (s₄ := s3.emit (.executeEnd t o))
        ⟨st3.inv.wf.emit _, st2.le.trans st3.le⟩ h.wf node o).wf
    have hprev : ∀ n, s.cur = some n → n ≠ node ∧ s3.store.taskOutput n = none ∧
        n ∉ s3.consistent ∧ ∀ b, ReqEdge s3.store n b → b ∈ s3.consistent := by
      intro n hn
      have hr := hcr n hn
      obtain ⟨hsn, hcn⟩ := hp03.1 n hr
      refine ⟨fun hnm => hw.inv.acyclic _ (hnm ▸ hr), ?_, fun hc => h.curFresh n hn (hcn hc), ?_⟩
      · rw [hsn.1]; exact h.curFree n hn
      · intro b hb
        exact (st2.trans st3).mono b (h.curReq n hn b (hb.of_same hsn))
    obtain ⟨st4, hs4, ho4, hoe4⟩ := st3.inv.endExec
      (s' := { s3.emit (.executeEnd t o) with
               cur := s.cur, store := s3.store.setTaskOutput node o })
      ht3 hc3 hrep hnores rfl rfl rfl rfl hwf4 hprev
    have hw4 := st4.inv.wf.store
    have hout4 : ∀ d ∈ s3.consistent, ({ s3.emit (.executeEnd t o) with
        cur := s.cur, store := s3.store.setTaskOutput node o } : Sess).store.taskOutput d =
          s3.store.taskOutput d :=
      fun d hd => (hs4 d (fun hdn => hnc3 (hdn ▸ hd))).1
    have hoe : ∀ y, ({ s3.emit (.executeEnd t o) with
        cur := s.cur, store := s3.store.setTaskOutput node o } : Sess).store.g.outgoingEdges y =
          s3.store.g.outgoingEdges y := by
      intro y
      by_cases hy : y = node
      · subst hy; exact hoe4
      · exact (hs4 y hy).2
    have hre : ∀ a b, ReqEdge ({ s3.emit (.executeEnd t o) with
        cur := s.cur, store := s3.store.setTaskOutput node o } : Sess).store a b →
          ReqEdge s3.store a b := by
      rintro a b ⟨u, c, stp, hmem⟩
      exact ⟨u, c, stp, by rw [← hoe]; exact hmem⟩
    refine .ret (st2.trans (st3.trans st4)) ⟨ho4, hnc3, ?_, ?_, ?_, ?_⟩
    · exact ⟨t, o, st4.le.task _ _ ht3, ho4,
        hrn.transport st4.le (fun d hd => hd) (fun d hd _ => hout4 d hd)⟩
    · -- the cone of `node` is good
      have hgood3 : ∀ y, RCone s3.store node y → y ≠ node → Good sem s3 y := by
        intro y hy hyn
        rcases hy with hy | hy
        · exact absurd hy hyn
        · obtain ⟨b, ⟨u, c, stp, hmem⟩, hby⟩ := hy.head
          exact st3.inv.cone b (hri b _ hmem).2.1 y hby
      intro y hy
      have hy3 : RCone s3.store node y := by
        rcases hy with rfl | hy
        · exact .inl rfl
        · exact .inr (hy.mono hre)
      by_cases hyn : y = node
      · subst hyn
        intro b u c stp hmem hbq
        have hmem3 : (b, Dep.require u c stp) ∈ s3.store.g.outgoingEdges y := by
          rw [← hoe]; exact hmem
        obtain ⟨_, hbc, o', hbo, hstp⟩ := hri b _ hmem3
        exact ⟨hbc, o', (hout4 b hbc).trans hbo, by rw [hstp]; exact hrefl c o'⟩
      · exact Good.transport (s := s3) (fun b u c stp hmem => by
            have h1 := hoe y
            exact h1 ▸ hmem) (fun b _ hb => hb) (fun d hd => hd) hout4 (hgood3 y hy3 hyn)
    · intro dst d hmem
      have hmem3 : (dst, d) ∈ s3.store.g.outgoingEdges node := by rw [← hoe]; exact hmem
      have := hri dst d hmem3
      cases d with
      | write r c stp => exact this.elim
      | reserved => rfl
      | require u c stp => rfl
      | read r c stp => rfl
    · exact hp03.trans
        ⟨Prot.mod hw3 hs4 (fun x hx => .inl hx),
          fun a hr => (Store.reach_setTaskOutput node o a node).mp hr⟩ hw hw3

end Mixed
end PieModel
