/-
`Faithful` is preserved by the bottom-up build from every state that satisfies the weak invariant
`MInv` (arbitrary `consistent` set, arbitrary queue), for write-free programs that require every
task at most once per execution (`OneRequire`): the joint induction over
`buRequire/buMake/buExec/buExecAndSchedule/buRequireNow/buRun`, the scheduling functions,
`buExecuteScheduled`, `updateAffectedTasks`, `bottomUpBuild`.

Why `OneRequire`: a bottom-up build may execute a task that is marked consistent AGAIN (it is
popped from the queue), so two `require`s of the same task in one execution can return different
outputs; the store keeps one edge per target and the second stamp overwrites the first
(`Props/C01Mixed.lean` has the kernel-checked counterexample).  With `OneRequire` every dependency
of the executing task is declared once and `Replay` follows the walk.
-/
import PieModel.Build.Mixed.Inv
import PieModel.Build.FrameExecBU

namespace PieModel

/-- `OneReq seen p`: along every execution path of `p`, no task is required twice, also w.r.t. the
tasks `seen` so far. -/
def OneReq : List Nat → Prog → Prop
  | _, .ret _ => True
  | _, .panic => True
  | seen, .req t _ k => t ∉ seen ∧ ∀ o, OneReq (t :: seen) (k o)
  | seen, .read _ _ k => ∀ x, OneReq seen (k x)
  | seen, .write _ _ _ k => ∀ x, OneReq seen (k x)
  | seen, .wrote _ _ _ k => ∀ x, OneReq seen (k x)

/-- At most one `require` per task per execution. -/
def OneRequire (p : Prog) : Prop := OneReq [] p

namespace Mixed

variable (sem : Sem) (body : Nat → Prog) (fs : List (Nat × Int))

/-! ### protection of the ancestors (records only) -/

/-- The records of all strict ancestors of `m` are untouched. -/
def ProtB (s s' : Sess) (m : Nat) : Prop := ∀ x, s.store.g.Reach x m → Same s s' x

variable {sem body fs}

theorem ProtB.refl (s : Sess) (m : Nat) : ProtB s s m := fun _ _ => Same.refl _ _

theorem ProtB.of_same {s s' : Sess} (h : ∀ x, Same s s' x) (m : Nat) : ProtB s s' m :=
  fun x _ => h x

theorem ProtB.mod {s s' : Sess} {n : Nat} (hw : s.store.WF) (hs : ∀ x, x ≠ n → Same s s' x) :
    ProtB s s' n := by
  intro x hx
  exact hs x (by rintro rfl; exact hw.inv.acyclic _ hx)

/-- Protection of the ancestors of `m'` protects the ancestors of every `m` that is `m'` or
reaches `m'`. -/
theorem ProtB.up {s s' : Sess} {m m' : Nat} (h : ProtB s s' m')
    (hr : m = m' ∨ s.store.g.Reach m m') : ProtB s s' m := by
  intro x hx
  rcases hr with rfl | hr
  · exact h x hx
  · exact h x (hx.trans hr)

/-- Paths that end in `m` or in an ancestor of `m` survive. -/
theorem ProtB.reach' {s s' : Sess} {m : Nat} (h : ProtB s s' m) (hw : s.store.WF)
    (hw' : s'.store.WF) {x y : Nat} (hr : s.store.g.Reach x y)
    (hy : y = m ∨ s.store.g.Reach y m) : s'.store.g.Reach x y := by
  induction hr with
  | @edge a b he =>
    have ham : s.store.g.Reach a m := by
      rcases hy with rfl | hy
      · exact .edge he
      · exact .step he hy
    have hc := (h a ham).children hw hw'
    exact .edge (by simpa [Dag.HasEdge, hc] using he)
  | @step a b c he hr ih =>
    have ham : s.store.g.Reach a m := by
      rcases hy with rfl | hy
      · exact .step he hr
      · exact .step he (hr.trans hy)
    have hc := (h a ham).children hw hw'
    exact .step (by simpa [Dag.HasEdge, hc] using he) (ih hy)

theorem ProtB.reach {s s' : Sess} {m : Nat} (h : ProtB s s' m) (hw : s.store.WF)
    (hw' : s'.store.WF) {x : Nat} (hr : s.store.g.Reach x m) : s'.store.g.Reach x m :=
  h.reach' hw hw' hr (.inl rfl)

theorem ProtB.trans {s s' s'' : Sess} {m : Nat} (h₁ : ProtB s s' m) (h₂ : ProtB s' s'' m)
    (hw : s.store.WF) (hw' : s'.store.WF) : ProtB s s'' m := by
  intro x hx
  exact (h₁ x hx).trans (h₂ x (h₁.reach hw hw' hx))

/-- `CurReach` survives a call that protects the ancestors of `m`, for `src = m` or `src` an
ancestor of `m`. -/
theorem curReach_of_protB {s s' : Sess} {m src : Nat} (h : ProtB s s' m) (hw : s.store.WF)
    (hw' : s'.store.WF) (hcur : s'.cur = s.cur) (hcr : CurReach s src)
    (hs : src = m ∨ s.store.g.Reach src m) : CurReach s' src :=
  fun n hn => h.reach' hw hw' (hcr n (hcur ▸ hn)) hs

/-! ### scheduling does not touch `fs` -/

theorem fs_foldl {α : Type} (g : Sess → α → Sess) (hg : ∀ (s : Sess) x, (g s x).fs = s.fs)
    (l : List α) (s : Sess) : (l.foldl g s).fs = s.fs := by
  induction l generalizing s with
  | nil => rfl
  | cons x l ih => exact (ih _).trans (hg s x)

theorem fs_trySchedule (s : Sess) (n : Nat) (d : Dep) : (trySchedule sem s n d).fs = s.fs := by
  cases ht : s.store.taskOf n with
  | none => rw [trySchedule_other sem s n d (.inl ht)]
  | some t =>
    cases d with
    | reserved => rw [trySchedule_other sem s n _ (.inr (.inl rfl))]
    | require t' c stamp => rw [trySchedule_other sem s n _ (.inr (.inr ⟨_, _, _, rfl⟩))]
    | read r c stamp =>
      rw [trySchedule_read sem s n t r c stamp ht]; split <;> rfl
    | write r c stamp =>
      rw [trySchedule_write sem s n t r c stamp ht]; split <;> rfl

theorem fs_reqSchedStep (out : Int) (s : Sess) (p : Nat × Dep) :
    (reqSchedStep sem out s p).fs = s.fs := by
  unfold reqSchedStep
  split
  · simp only; split <;> rfl
  · rfl

theorem fs_writtenSchedStep (s : Sess) (w : Nat) : (writtenSchedStep sem s w).fs = s.fs := by
  unfold writtenSchedStep
  split
  · rfl
  · simp only [Sess.fs_emit]
    exact fs_foldl _ (fun s (p : Nat × Dep) => fs_trySchedule s p.1 p.2) _ _

theorem fs_scheduleAfterExec (s : Sess) (node t : Nat) (out : Int) :
    (scheduleAfterExec sem s node t out).fs = s.fs := by
  rw [scheduleAfterExec_eq]
  simp only [Sess.fs_markConsistent, Sess.fs_emit]
  rw [fs_foldl _ (fs_reqSchedStep out)]
  simp only [Sess.fs_emit]
  rw [fs_foldl _ (fs_writtenSchedStep)]

/-- `scheduleAfterExec` as a step: only queue, trace, errors and `consistent` change. -/
theorem MInv.scheduleAfterExec {s : Sess} (h : MInv sem body fs s) (node t : Nat) (out : Int) :
    MStep sem body fs s (scheduleAfterExec sem s node t out) ∧
      ∀ x, Same s (scheduleAfterExec sem s node t out) x := by
  have h1 := store_scheduleAfterExec sem s node t out
  exact ⟨h.setQueue h1 (fs_scheduleAfterExec s node t out) (cur_scheduleAfterExec sem s node t out)
    (scheduleAfterExec_ext sem h.wf node t out).wf, fun x => ⟨by rw [h1], by rw [h1]⟩⟩

/-- `scheduleAffectedBy` as a step: the resource node may be created. -/
theorem MInv.scheduleAffectedBy {s : Sess} (h : MInv sem body fs s) (r : Nat) :
    MStep sem body fs s (scheduleAffectedBy sem s r) ∧ (scheduleAffectedBy sem s r).cur = s.cur := by
  unfold PieModel.scheduleAffectedBy; simp only []
  obtain ⟨hb, _⟩ := h.getRes (s' := { s.emit (.schedResStart r) with
    store := (s.store.getOrCreateResNode r).1 }) r rfl rfl rfl rfl
  have hst := store_foldl (fun s (p : Nat × Dep) => trySchedule sem s p.1 p.2)
    (fun s (p : Nat × Dep) => store_trySchedule sem s p.1 p.2)
    ((s.store.getOrCreateResNode r).1.readWriteDepsTo (s.store.getOrCreateResNode r).2)
    { s.emit (.schedResStart r) with store := (s.store.getOrCreateResNode r).1 }
  have hfs := fs_foldl (fun s (p : Nat × Dep) => trySchedule sem s p.1 p.2)
    (fun s (p : Nat × Dep) => fs_trySchedule (sem := sem) s p.1 p.2)
    ((s.store.getOrCreateResNode r).1.readWriteDepsTo (s.store.getOrCreateResNode r).2)
    { s.emit (.schedResStart r) with store := (s.store.getOrCreateResNode r).1 }
  have hcur := cur_foldl (fun s (p : Nat × Dep) => trySchedule sem s p.1 p.2)
    (fun s (p : Nat × Dep) => cur_trySchedule sem s p.1 p.2)
    ((s.store.getOrCreateResNode r).1.readWriteDepsTo (s.store.getOrCreateResNode r).2)
    { s.emit (.schedResStart r) with store := (s.store.getOrCreateResNode r).1 }
  have hwf := foldl_ext (fun s (p : Nat × Dep) => trySchedule sem s p.1 p.2)
    (fun s p hs => trySchedule_ext sem hs p.1 p.2)
    ((s.store.getOrCreateResNode r).1.readWriteDepsTo (s.store.getOrCreateResNode r).2)
    { s.emit (.schedResStart r) with store := (s.store.getOrCreateResNode r).1 } hb.inv.wf
  refine ⟨(hb.trans (hb.inv.setQueue hst hfs hcur hwf.wf)).emit _, ?_⟩
  exact hcur

/-! ### the statement of the joint induction -/

variable (sem fs)

/-- What is known about a dependency of the executing task in a bottom-up build: it was declared
in this execution (tasks: `seen`; resources: `qr`, with the stamp of the current content). -/
def BRunDep (seen : List Nat) (qr : List (Nat × Nat)) : Dep → Prop
  | .require u _ _ => u ∈ seen
  | .read r c st => (r, c) ∈ qr ∧ sem.rstamp c (aget fs r) = .ok st
  | .reserved => False
  | .write .. => False

def BRunInv (seen : List Nat) (qr : List (Nat × Nat)) (s : Sess) (n : Nat) : Prop :=
  ∀ dst d, (dst, d) ∈ s.store.g.outgoingEdges n → BRunDep sem fs seen qr d

variable {sem fs}

theorem BRunDep.mono {seen seen' : List Nat} {qr qr' : List (Nat × Nat)} {d : Dep}
    (h : BRunDep sem fs seen qr d) (ht : ∀ p ∈ seen, p ∈ seen') (hr : ∀ p ∈ qr, p ∈ qr') :
    BRunDep sem fs seen' qr' d := by
  cases d with
  | reserved => exact h
  | require u c stp => exact ht _ h
  | read r c stp => exact ⟨hr _ h.1, h.2⟩
  | write r c stp => exact h

variable (sem body fs)

/-- `buMake`/`buExec`/`buExecAndSchedule`/`buRequireNow` on node `m`: the ancestors of `m` are
untouched. -/
def QNode (s : Sess) (m : Nat) {α : Type} (s' : Sess) (_ : α) : Prop := ProtB s s' m

def QReqB (s : Sess) (u c : Nat) (s' : Sess) (out : Int) : Prop :=
  s'.store.taskOf (nodeOf s u) = some u ∧
    ∀ n, s.cur = some n → ProtB s s' n ∧
      EdgeUpd (s.store.g.outgoingEdges n) (s'.store.g.outgoingEdges n) (nodeOf s u)
        (.require u c (sem.ostamp c out))

def QRunB (s : Sess) (n : Nat) (p : Prog) (s' : Sess) (v : Int) : Prop :=
  ProtB s s' n ∧ (∃ seen qr, BRunInv sem fs seen qr s' n) ∧
    (∀ d ∈ s.store.depsFrom n, d ∈ s'.store.depsFrom n) ∧ Replay sem p (s'.store.depsFrom n) v

/-- The joint statement for fuel `f`. -/
structure BuM (f : Nat) : Prop where
  require : ∀ s u c, MInv sem body fs s →
    Outcome sem body fs s (buRequire sem body f s u c) (QReqB sem s u c)
  make : ∀ s t node, MInv sem body fs s → s.store.taskOf node = some t → CurReach s node →
    Outcome sem body fs s (buMake sem body f s t node) (QNode s node)
  exec : ∀ s t node, MInv sem body fs s → s.store.taskOf node = some t → CurReach s node →
    Outcome sem body fs s (buExec sem body f s t node) (QNode s node)
  execAndSchedule : ∀ s node, MInv sem body fs s → CurReach s node →
    Outcome sem body fs s (buExecAndSchedule sem body f s node) (QNode s node)
  requireNow : ∀ s src, MInv sem body fs s → CurReach s src →
    Outcome sem body fs s (buRequireNow sem body f s src) (QNode s src)
  run : ∀ s n p seen qt qr, MInv sem body fs s → s.cur = some n → p.WriteFree → OneCk qt qr p →
    OneReq seen p → BRunInv sem fs seen qr s n →
    Outcome sem body fs s (buRun sem body f s p) (QRunB sem fs s n p)

variable {sem body fs}

theorem buM_zero : BuM sem body fs 0 := by
  refine ⟨?_, ?_, ?_, ?_, ?_, ?_⟩
  · intro s u c h; unfold buRequire; exact .abort h.faithful
  · intro s t n h _ _; unfold buMake; exact .abort h.faithful
  · intro s t n h _ _; unfold buExec; exact .abort h.faithful
  · intro s n h _; unfold buExecAndSchedule; exact .abort h.faithful
  · intro s n h _; unfold buRequireNow; exact .abort h.faithful
  · intro s n p seen qt qr h _ _ _ _ _; unfold buRun; exact .abort h.faithful

theorem buRequire_succ {f : Nat} (ih : BuM sem body fs f) (s : Sess) (u c : Nat)
    (h : MInv sem body fs s) :
    Outcome sem body fs s (buRequire sem body (f + 1) s u c) (QReqB sem s u c) := by
  unfold buRequire; simp only []
  obtain ⟨hb, hbs⟩ := h.getTask u
    (s' := { s.emit (.requireStart u c) with store := (s.store.getOrCreateTaskNode u).1 })
    rfl rfl rfl rfl
  have htm : (s.store.getOrCreateTaskNode u).1.taskOf (nodeOf s u) = some u :=
    Store.taskOf_getOrCreateTaskNode_self h.wf.store u
  split
  next s_c a heq =>
    exact .abort (reserveRequire_spec hb.inv ⟨u, htm⟩ heq).1.inv.faithful
  next s_c heq =>
    obtain ⟨stc, hcurc, hconsc, hqc, hsamec, hedgec⟩ := reserveRequire_spec hb.inv ⟨u, htm⟩ heq
    have htc : s_c.store.taskOf (nodeOf s u) = some u := stc.le.task _ _ htm
    have IH := ih.make s_c u (nodeOf s u) stc.inv htc (by
      intro n hn
      exact .edge (hedgec rfl n (by rw [← hcurc]; exact hn)).1)
    split
    next s_d a heq2 => exact .abort (IH.faithful_of heq2)
    next s_d out heq2 =>
      obtain ⟨std, hprotd⟩ := IH.ok s_d out heq2
      have hcurd : s_d.cur = s_c.cur := cur_buMake sem body heq2
      have htd : s_d.store.taskOf (nodeOf s u) = some u := std.le.task _ _ htc
      have ste := std.inv.emit (.requireEnd u c (sem.ostamp c out) out)
      split
      next s_f a heq3 =>
        exact .abort (updateRequire_spec ste.inv htd c (sem.ostamp c out) heq3).1.inv.faithful
      next s_f heq3 =>
        obtain ⟨stf, hcurf, hconsf, hqf, hsamef, houtf, hupd⟩ :=
          updateRequire_spec ste.inv htd c (sem.ostamp c out) heq3
        refine .ret ((hb.trans (stc.trans (std.trans (ste.trans stf)))).mark _)
          ⟨by simp only [Sess.store_markConsistent]; exact stf.le.task _ _ htd, ?_⟩
        intro n hn
        have hnb : ({ s.emit (.requireStart u c) with
            store := (s.store.getOrCreateTaskNode u).1 } : Sess).cur = some n := hn
        have hnc : s_c.cur = some n := by rw [hcurc]; exact hnb
        have hnd : s_d.cur = some n := by rw [hcurd]; exact hnc
        obtain ⟨hedge, halt⟩ := hedgec rfl n hnb
        have hw := h.wf.store
        have hp1 : ProtB s { s.emit (.requireStart u c) with
            store := (s.store.getOrCreateTaskNode u).1 } n := ProtB.of_same hbs n
        have hp2 : ProtB { s.emit (.requireStart u c) with
            store := (s.store.getOrCreateTaskNode u).1 } s_c n :=
          ProtB.mod hb.inv.wf.store
            (fun x hx => hsamec x (fun hh => hx (Option.some.inj (hnb.symm.trans hh)).symm))
        have hp3 : ProtB s_c s_d n := ProtB.up hprotd (.inr (.edge hedge))
        have hp4 : ProtB s_d s_f n :=
          ProtB.mod std.inv.wf.store
            (fun x hx => hsamef x (fun hh => hx (Option.some.inj (hnd.symm.trans hh)).symm))
        have hp5 : ProtB s_f (s_f.markConsistent (nodeOf s u)) n :=
          ProtB.of_same (same_markConsistent _ _) n
        refine ⟨(((hp1.trans hp2 hw hb.inv.wf.store).trans hp3 hw stc.inv.wf.store).trans hp4 hw
          std.inv.wf.store).trans hp5 hw stf.inv.wf.store, ?_⟩
        have hsn : Same s_c s_d n := hprotd n (.edge hedge)
        simp only [Sess.store_markConsistent]
        apply edgeUpd_of (Lc := s_c.store.g.outgoingEdges n)
        · rw [← (hbs n).2]; exact halt
        · rw [hupd rfl n hnd]
          show (s_d.store.g.outgoingEdges n).map _ = _
          rw [hsn.2]

theorem buMake_succ {f : Nat} (ih : BuM sem body fs f) (s : Sess) (t node : Nat)
    (h : MInv sem body fs s) (ht : s.store.taskOf node = some t) (hcr : CurReach s node) :
    Outcome sem body fs s (buMake sem body (f + 1) s t node) (QNode s node) := by
  unfold buMake
  split
  · split
    · exact .ret (MStep.refl h) (ProtB.refl _ _)
    · exact .abort h.faithful
  · split
    · exact ih.exec s t node h ht hcr
    · have IH := ih.requireNow s node h hcr
      split
      next s2 a heq => exact .abort (IH.faithful_of heq)
      next s2 o heq =>
        obtain ⟨st, hp⟩ := IH.ok _ _ heq
        exact .ret st hp
      next s2 heq =>
        obtain ⟨st, hp⟩ := IH.ok _ _ heq
        split
        · exact .ret st hp
        · exact .abort st.inv.faithful

theorem buExec_succ (hwfb : WriteFreeBody body) (hone : ∀ t, OneChecker (body t))
    (hreq : ∀ t, OneRequire (body t)) {f : Nat} (ih : BuM sem body fs f) (s : Sess) (t node : Nat)
    (h : MInv sem body fs s) (ht : s.store.taskOf node = some t) (hcr : CurReach s node) :
    Outcome sem body fs s (buExec sem body (f + 1) s t node) (QNode s node) := by
  unfold buExec; simp only []
  obtain ⟨st2, hs2, hoe2⟩ := h.startExec
    (s' := ({ s with store := s.store.resetTask node, cur := some node } : Sess).emit
      (.executeStart t)) ht rfl rfl rfl rfl
  have IHr := ih.run _ node (body t) [] [] [] st2.inv rfl (hwfb t) (hone t) (hreq t)
    (by intro dst d hd; rw [hoe2] at hd; cases hd)
  split
  next s3 a heq3 => exact .abort (IHr.faithful_of heq3)
  next s3 o heq3 =>
    obtain ⟨st3, hp3, ⟨seen', qr', hri⟩, _, hrep⟩ := IHr.ok s3 o heq3
    have ht3 : s3.store.taskOf node = some t := st3.le.task _ _ (st2.le.task _ _ ht)
    have hnores : Dep.reserved ∉ s3.store.depsFrom node := by
      intro hh
      obtain ⟨dst, hd⟩ := (Store.mem_depsFrom_iff _ _ _).mp hh
      exact hri dst _ hd
    have hp02 : ProtB s (({ s with store := s.store.resetTask node, cur := some node } : Sess).emit
        (.executeStart t)) node := ProtB.mod h.wf.store hs2
    have hp03 : ProtB s s3 node := hp02.trans hp3 h.wf.store st2.inv.wf.store
    have hwf4 : SessWF ({ s3.emit (.executeEnd t o) with
        cur := s.cur, store := s3.store.setTaskOutput node o } : Sess) :=
      (Ext.endExec (s₂ := s) (s₄ := s3.emit (.executeEnd t o))
        ⟨st3.inv.wf.emit _, st2.le.trans st3.le⟩ h.wf node o).wf
    obtain ⟨st4, hs4, ho4, hoe4⟩ := st3.inv.endExec
      (s' := { s3.emit (.executeEnd t o) with
               cur := s.cur, store := s3.store.setTaskOutput node o })
      ht3 hrep hnores rfl rfl hwf4 (by
        intro n hn
        have hr := hcr n hn
        refine ⟨fun hnm => h.wf.store.inv.acyclic _ (hnm ▸ hr), ?_⟩
        rw [(hp03 n hr).1]
        exact h.curFree n hn)
    exact .ret (st2.trans (st3.trans st4))
      (hp03.trans (ProtB.mod st3.inv.wf.store hs4) h.wf.store st3.inv.wf.store)

theorem buExecAndSchedule_succ {f : Nat} (ih : BuM sem body fs f) (s : Sess) (node : Nat)
    (h : MInv sem body fs s) (hcr : CurReach s node) :
    Outcome sem body fs s (buExecAndSchedule sem body (f + 1) s node) (QNode s node) := by
  unfold buExecAndSchedule
  split
  · exact .abort h.faithful
  next t ht =>
    have IH := ih.exec s t node h ht hcr
    split
    next s2 a heq => exact .abort (IH.faithful_of heq)
    next s2 o heq =>
      obtain ⟨st2, hp2⟩ := IH.ok _ _ heq
      obtain ⟨st3, hs3⟩ := st2.inv.scheduleAfterExec node t o
      exact .ret (st2.trans st3)
        (hp2.trans (ProtB.of_same hs3 node) h.wf.store st2.inv.wf.store)

theorem buRequireNow_succ {f : Nat} (ih : BuM sem body fs f) (s : Sess) (src : Nat)
    (h : MInv sem body fs s) (hcr : CurReach s src) :
    Outcome sem body fs s (buRequireNow sem body (f + 1) s src) (QNode s src) := by
  unfold buRequireNow
  split
  · exact .ret (MStep.refl h) (ProtB.refl _ _)
  · split
    · exact .ret (MStep.refl h) (ProtB.refl _ _)
    next m q hq =>
      have st1 : MStep sem body fs s { s with queue := q } :=
        h.setQueue rfl rfl rfl
          (h.wf.subQueue (fun _ hm => queuePopLeastFrom_rest_subset hq hm)).wf
      have hcone : m = src ∨ s.store.g.Reach src m := by
        obtain ⟨_, _, _, _, hc, _⟩ := queuePopLeastFrom_eq_some hq
        rcases inCone_iff.mp hc with h1 | h1
        · exact .inl h1
        · exact .inr ((h.wf.store.containsTransitive_iff _ _).mp h1)
      have hcr1 : CurReach { s with queue := q } m := by
        intro n hn
        rcases hcone with rfl | hr
        · exact hcr n hn
        · exact (hcr n hn).trans hr
      have IH := ih.execAndSchedule { s with queue := q } m st1.inv hcr1
      split
      next s2 a heq => exact .abort (IH.faithful_of heq)
      next s2 o heq =>
        obtain ⟨st2, hp2⟩ := IH.ok _ _ heq
        have hp2' : ProtB s s2 src := ProtB.up (s := { s with queue := q }) hp2 (by
          rcases hcone with rfl | hr
          · exact .inl rfl
          · exact .inr hr)
        split
        · exact .ret (st1.trans st2) hp2'
        · have hcur2 : s2.cur = s.cur := (bu_cur sem body f).2.2.2.1 { s with queue := q } m s2 o heq
          have hcr2 : CurReach s2 src :=
            curReach_of_protB (s := { s with queue := q }) hp2 h.wf.store st2.inv.wf.store hcur2 hcr
              (by
                rcases hcone with rfl | hr
                · exact .inl rfl
                · exact .inr hr)
          have IH2 := ih.requireNow s2 src st2.inv hcr2
          refine IH2.trans (st1.trans st2) ?_
          intro s' v st' hp'
          exact hp2'.trans hp' h.wf.store st2.inv.wf.store

theorem buRun_succ (hst : StampTotal sem) {f : Nat} (ih : BuM sem body fs f) (s : Sess)
    (n : Nat) (p : Prog) (seen : List Nat) (qt qr : List (Nat × Nat)) (h : MInv sem body fs s)
    (hc : s.cur = some n) (hwf : p.WriteFree) (hone : OneCk qt qr p) (hreq : OneReq seen p)
    (hri : BRunInv sem fs seen qr s n) :
    Outcome sem body fs s (buRun sem body (f + 1) s p) (QRunB sem fs s n p) := by
  cases hwf with
  | ret v =>
    unfold buRun
    exact .ret (MStep.refl h) ⟨ProtB.refl _ _, ⟨seen, qr, hri⟩, fun d hd => hd, rfl⟩
  | panic => unfold buRun; exact .abort h.faithful
  | req u c k hk =>
    unfold buRun
    have IH := ih.require s u c h
    split
    next s1 a heq => exact .abort (IH.faithful_of heq)
    next s1 out heq =>
      obtain ⟨st1, htask, hcf⟩ := IH.ok s1 out heq
      obtain ⟨hp1, hupd1, hupd2, hupd3⟩ := hcf n hc
      have hcur1 : s1.cur = some n := (cur_buRequire sem body heq).trans hc
      have hri1 : BRunInv sem fs (u :: seen) qr s1 n := by
        intro dst d hd
        rcases hupd1 _ hd with ⟨hold, _⟩ | hnew
        · exact (hri dst d hold).mono (fun p hp => List.mem_cons_of_mem _ hp) (fun p hp => hp)
        · cases hnew
          exact List.mem_cons_self ..
      have IH2 := ih.run s1 n (k out) (u :: seen) ((u, c) :: qt) qr st1.inv hcur1 (hk out)
        (hone.2 out) (hreq.2 out) hri1
      refine IH2.trans st1 ?_
      rintro s' v st' ⟨hp', hri', hsub', hrep'⟩
      have hD : Dep.require u c (sem.ostamp c out) ∈ s1.store.depsFrom n :=
        (Store.mem_depsFrom_iff _ _ _).mpr ⟨_, hupd3⟩
      refine ⟨hp1.trans hp' h.wf.store st1.inv.wf.store, hri', ?_,
        ⟨sem.ostamp c out, hsub' _ hD, out, rfl, hrep'⟩⟩
      intro d hd
      obtain ⟨dst, hdst⟩ := (Store.mem_depsFrom_iff _ _ _).mp hd
      by_cases hne : dst = nodeOf s u
      · -- impossible: `u` was not required before in this execution
        subst hne
        exfalso
        have hok := (h.wf.store.mem_outgoingEdges_ok hdst).2
        have hrd := hri _ d hdst
        cases d with
        | reserved => exact hrd
        | write r' c' st0 => exact hrd
        | read r' c' st0 =>
          have h1 : s1.store.resOf (nodeOf s u) = some r' := st1.le.res _ _ hok
          rw [Store.resOf_eq_none_of_taskOf htask] at h1; cases h1
        | require u' c' st0 =>
          have h1 : s1.store.taskOf (nodeOf s u) = some u' := st1.le.task _ _ hok
          rw [htask] at h1; cases h1
          exact hreq.1 hrd
      · exact hsub' d ((Store.mem_depsFrom_iff _ _ _).mpr ⟨dst, hupd2 _ hdst hne⟩)
  | read r c k hk =>
    unfold buRun
    split
    next s1 a heq => exact .abort (doRead_spec hst h hc r c heq).1.inv.faithful
    next s1 x heq =>
      obtain ⟨st1, hcur1', hcons1, hq1, hsame1, hres⟩ := doRead_spec hst h hc r c heq
      obtain ⟨rfl, dst, stamp, hstamp, hresof, halt⟩ := hres x rfl
      have hcur1 : s1.cur = some n := hcur1'.trans hc
      have hp1 : ProtB s s1 n := ProtB.mod h.wf.store hsame1
      have hkey : (dst, Dep.read r c stamp) ∈ s1.store.g.outgoingEdges n ∧
          ∀ p ∈ s.store.g.outgoingEdges n, p ∈ s1.store.g.outgoingEdges n := by
        rcases halt with ⟨⟨d0, hd0⟩, heq'⟩ | ⟨_, heq'⟩
        · rw [heq']
          refine ⟨?_, fun p hp => hp⟩
          have hok := (h.wf.store.mem_outgoingEdges_ok hd0).2
          have hrd := hri _ d0 hd0
          cases d0 with
          | reserved => exact hrd.elim
          | write r' c' st0 => exact hrd.elim
          | require u' c' st0 =>
            have h1 : s1.store.taskOf dst = some u' := st1.le.task _ _ hok
            rw [Store.taskOf_eq_none_of_resOf hresof] at h1; cases h1
          | read r' c' st0 =>
            obtain ⟨hq, hst0⟩ := hrd
            have h1 : s1.store.resOf dst = some r' := st1.le.res _ _ hok
            rw [hresof] at h1; cases h1
            have hcc := hone.1 c' hq
            subst hcc
            rw [hstamp] at hst0; cases hst0
            exact hd0
        · rw [heq']
          exact ⟨by simp, fun p hp => List.mem_append.mpr (.inl hp)⟩
      have hri1 : BRunInv sem fs seen ((r, c) :: qr) s1 n := by
        intro dst' d hd
        rcases halt with ⟨_, heq'⟩ | ⟨_, heq'⟩
        · rw [heq'] at hd
          exact (hri dst' d hd).mono (fun p hp => hp) (fun p hp => List.mem_cons_of_mem _ hp)
        · rw [heq'] at hd
          rcases List.mem_append.mp hd with hd | hd
          · exact (hri dst' d hd).mono (fun p hp => hp) (fun p hp => List.mem_cons_of_mem _ hp)
          · simp only [List.mem_singleton, Prod.mk.injEq] at hd
            obtain ⟨rfl, rfl⟩ := hd
            exact ⟨List.mem_cons_self .., hstamp⟩
      have IH2 := ih.run s1 n (k (.ok (aget fs r))) seen qt ((r, c) :: qr) st1.inv hcur1 (hk _)
        (hone.2 _) (hreq _) hri1
      refine IH2.trans st1 ?_
      rintro s' v st' ⟨hp', hri', hsub', hrep'⟩
      refine ⟨hp1.trans hp' h.wf.store st1.inv.wf.store, hri', ?_,
        ⟨stamp, hsub' _ ((Store.mem_depsFrom_iff _ _ _).mpr ⟨_, hkey.1⟩), aget fs r, hstamp, hrep'⟩⟩
      intro d hd
      obtain ⟨dst', hdst'⟩ := (Store.mem_depsFrom_iff _ _ _).mp hd
      exact hsub' d ((Store.mem_depsFrom_iff _ _ _).mpr ⟨dst', hkey.2 _ hdst'⟩)

/-- **The joint induction** for the bottom-up build. -/
theorem buM (hst : StampTotal sem) (hwfb : WriteFreeBody body)
    (hone : ∀ t, OneChecker (body t)) (hreq : ∀ t, OneRequire (body t)) (f : Nat) :
    BuM sem body fs f := by
  induction f with
  | zero => exact buM_zero
  | succ f ih =>
    exact ⟨buRequire_succ ih, buMake_succ ih, buExec_succ hwfb hone hreq ih,
      buExecAndSchedule_succ ih, buRequireNow_succ ih, buRun_succ hst ih⟩

end Mixed
end PieModel
