/-
Bottom-up builds with reflexive output checkers: "no new ancestors" for the session primitives,
and the statement of the joint induction (`BuR`).
-/
import PieModel.Build.Mixed.RReexec

namespace PieModel
namespace Mixed

variable {sem : Sem} {body : Nat → Prog} {fs : List (Nat × Int)}

/-! ### no new ancestors of the source of a new edge -/

theorem reach_addDependency_into_src {st : Store} (hw : st.WF) (src dst : Nat) (d : Dep)
    (hw' : (st.addDependency src dst d).1.WF) {a : Nat}
    (hr : (st.addDependency src dst d).1.g.Reach a src) : st.g.Reach a src := by
  rcases Store.addDependency_cases hw src dst d with ⟨hok, hne⟩ | hsame
  · rcases (Store.reach_addDependency_new hw hok hne a src).mp hr with h1 | ⟨_, h2⟩
    · exact h1
    · exfalso
      have hedge : (st.addDependency src dst d).1.g.HasEdge src dst :=
        (Store.hasEdge_addDependency_new hw hok hne src dst).mpr (.inr ⟨rfl, rfl⟩)
      rcases h2 with h2 | h2
      · subst h2
        exact hw'.inv.acyclic _ (.edge hedge)
      · exact hw'.inv.acyclic _ (.step hedge (Store.reach_addDependency_mono hw src dst d h2))
  · rw [hsame] at hr; exact hr

theorem reserveRequire_np {s s' : Sess} (hwf : SessWF s) {n mu : Nat} (hc : s.cur = some n)
    {res : Res Unit} (heq : reserveRequire s mu = (s', res)) (hw' : s'.store.WF) :
    ∀ a, s'.store.g.Reach a n → s.store.g.Reach a n := by
  intro a hr
  obtain ⟨h1, _⟩ := reserveRequire_some hc mu
  rw [heq] at h1
  simp only at h1
  subst h1
  exact reach_addDependency_into_src hwf.store n mu .reserved hw' hr

theorem updateRequire_np {s s' : Sess} {mu u c : Nat} {stamp : Stamp} {res : Res Unit}
    (heq : updateRequire s mu u c stamp = (s', res)) :
    ∀ a b, s'.store.g.Reach a b → s.store.g.Reach a b := by
  intro a b hr
  rcases Option.eq_none_or_eq_some s.cur with hc | ⟨n, hc⟩
  · rw [updateRequire_none hc] at heq
    cases heq; exact hr
  · rw [updateRequire_some hc] at heq
    cases hsd : s.store.setDependency n mu (.require u c stamp) with
    | none => rw [hsd] at heq; cases heq; exact hr
    | some st' =>
      rw [hsd] at heq
      cases heq
      exact (Store.reach_setDependency hsd a b).mp hr

theorem doRead_np (sem : Sem) {s : Sess} (hwf : SessWF s) {n : Nat} (hc : s.cur = some n)
    (r c : Nat) (hw' : (doRead sem s r c).1.store.WF) :
    ∀ a, (doRead sem s r c).1.store.g.Reach a n → s.store.g.Reach a n := by
  intro a hr
  have hwr := hwf.store.getOrCreateResNode r
  rcases doRead_store sem hc r c with h1 | ⟨stamp, h1⟩
  · rw [h1] at hr
    exact (Store.reach_getOrCreateResNode hwf.store r a n).mp hr
  · rw [h1] at hr hw'
    exact (Store.reach_getOrCreateResNode hwf.store r a n).mp
      (reach_addDependency_into_src hwr n _ _ hw' hr)

/-! ### results of calls -/

variable (sem body fs)

structure OutcomeR {α : Type} (s : Sess) (F : Sess × Res α) (Q : Sess → α → Prop) : Prop where
  faithful : Faithful sem body F.1.store
  ok : ∀ s' v, F = (s', .ok v) → RStep sem body fs s s' ∧ Q s' v

variable {sem body fs}

namespace OutcomeR
variable {α : Type} {s s₁ : Sess} {F : Sess × Res α} {Q Q₁ : Sess → α → Prop}

theorem abort {a : Abort} (h : Faithful sem body s₁.store) :
    OutcomeR sem body fs s (s₁, (.abort a : Res α)) Q :=
  ⟨h, fun _ _ heq => by cases heq⟩

theorem ret {v : α} (st : RStep sem body fs s s₁) (hq : Q s₁ v) :
    OutcomeR sem body fs s (s₁, .ok v) Q :=
  ⟨st.inv.faithful, fun _ _ heq => by cases heq; exact ⟨st, hq⟩⟩

theorem faithful_of {r : Res α} (o : OutcomeR sem body fs s F Q) (heq : F = (s₁, r)) :
    Faithful sem body s₁.store := by
  have := o.faithful; rw [heq] at this; exact this

theorem trans (o : OutcomeR sem body fs s₁ F Q₁) (st : RStep sem body fs s s₁)
    (hq : ∀ s' v, RStep sem body fs s₁ s' → Q₁ s' v → Q s' v) : OutcomeR sem body fs s F Q :=
  ⟨o.faithful, fun s' v heq => ⟨st.trans (o.ok s' v heq).1, hq s' v (o.ok s' v heq).1 (o.ok s' v heq).2⟩⟩

end OutcomeR

theorem runDep_monoR {qt qr qt' qr' : List (Nat × Nat)} {s s' : Sess} {dst : Nat} {d : Dep}
    (h : RunDep sem fs qt qr s dst d) (st : RStep sem body fs s s')
    (ht : ∀ p ∈ qt, p ∈ qt') (hr : ∀ p ∈ qr, p ∈ qr') : RunDep sem fs qt' qr' s' dst d := by
  cases d with
  | reserved => exact h
  | require u c stp =>
    obtain ⟨h1, h2, o, h3, h4⟩ := h
    exact ⟨ht _ h1, st.mono _ h2, o, by rw [st.stab _ h2]; exact h3, h4⟩
  | read r c stp => exact ⟨hr _ h.1, h.2⟩
  | write r c stp => exact h

/-! ### the statement of the joint induction -/

variable (sem body fs)

def QReqR (s : Sess) (u c : Nat) (s' : Sess) (out : Int) : Prop :=
  nodeOf s u ∈ s'.consistent ∧ s'.store.taskOutput (nodeOf s u) = some out ∧
    s'.store.taskOf (nodeOf s u) = some u ∧
    ∀ n, s.cur = some n → ProtN s s' n ∧
      EdgeUpd (s.store.g.outgoingEdges n) (s'.store.g.outgoingEdges n) (nodeOf s u)
        (.require u c (sem.ostamp c out))

def QMakeR (s : Sess) (node : Nat) (s' : Sess) (v : Int) : Prop :=
  s'.store.taskOutput node = some v ∧ Markable sem body fs s' node ∧ ProtN s s' node

def QExecR (s : Sess) (node : Nat) (s' : Sess) (v : Int) : Prop :=
  s'.store.taskOutput node = some v ∧ node ∉ s'.consistent ∧ Fresh body fs s' node ∧
    (∀ y, RCone s'.store node y → Good sem s' y) ∧
    (∀ dst d, (dst, d) ∈ s'.store.g.outgoingEdges node → d.isWrite = false) ∧ ProtN s s' node

def QEasR (s : Sess) (node : Nat) (s' : Sess) (v : Int) : Prop :=
  s'.store.taskOutput node = some v ∧ node ∈ s'.consistent ∧ ProtN s s' node

def QNowR (s : Sess) (src : Nat) (s' : Sess) (r : Option Int) : Prop :=
  ProtN s s' src ∧ (∀ o, r = some o → s'.store.taskOutput src = some o ∧ src ∈ s'.consistent) ∧
    (r = none → ∀ m ∈ s'.queue, inCone s'.store src m = false)

def QRunR (s : Sess) (n : Nat) (p : Prog) (s' : Sess) (v : Int) : Prop :=
  ProtN s s' n ∧ (∃ qt qr, RunInv sem fs qt qr s' n) ∧
    (∀ d ∈ s.store.depsFrom n, d ∈ s'.store.depsFrom n) ∧ Replay sem p (s'.store.depsFrom n) v ∧
    ReplayNow fs s' n p v

/-- The joint statement for fuel `f`.  `eas` is stated for the state `s` BEFORE the node was
removed from the queue. -/
structure BuR (f : Nat) : Prop where
  require : ∀ s u c, RInv sem body fs s →
    OutcomeR sem body fs s (buRequire sem body f s u c) (QReqR sem s u c)
  make : ∀ s t node, RInv sem body fs s → s.store.taskOf node = some t → CurReach s node →
    OutcomeR sem body fs s (buMake sem body f s t node) (QMakeR sem body fs s node)
  exec : ∀ s t node, RInv sem body fs s → s.store.taskOf node = some t → CurReach s node →
    node ∉ s.consistent →
    OutcomeR sem body fs s (buExec sem body f s t node) (QExecR sem body fs s node)
  eas : ∀ s q node, RInv sem body fs s → node ∈ s.queue → (∀ m ∈ q, m ∈ s.queue) →
    CurReach s node →
    OutcomeR sem body fs s (buExecAndSchedule sem body f { s with queue := q } node) (QEasR s node)
  now : ∀ s src, RInv sem body fs s → CurReach s src →
    OutcomeR sem body fs s (buRequireNow sem body f s src) (QNowR s src)
  run : ∀ s n p qt qr, RInv sem body fs s → s.cur = some n → p.WriteFree → OneCk qt qr p →
    RunInv sem fs qt qr s n →
    OutcomeR sem body fs s (buRun sem body f s p) (QRunR sem fs s n p)

variable {sem body fs}

theorem buR_zero : BuR sem body fs 0 := by
  refine ⟨?_, ?_, ?_, ?_, ?_, ?_⟩
  · intro s u c h; unfold buRequire; exact .abort h.faithful
  · intro s t n h _ _; unfold buMake; exact .abort h.faithful
  · intro s t n h _ _ _; unfold buExec; exact .abort h.faithful
  · intro s q n h _ _ _; unfold buExecAndSchedule; exact .abort h.faithful
  · intro s n h _; unfold buRequireNow; exact .abort h.faithful
  · intro s n p qt qr h _ _ _ _; unfold buRun; exact .abort h.faithful

end Mixed
end PieModel
