/-
Bottom-up builds with reflexive output checkers: re-execution of a consistent task.

A task node `x` that is `Fresh` (its body replays now, every `require` answered by the stored output
of a consistent node) and is executed again — it was still queued — returns its stored output; no
other task is executed, nothing but the record of `x` changes.
-/
import PieModel.Build.Mixed.RSched

namespace PieModel
namespace Mixed

variable {sem : Sem} {body : Nat → Prog} {fs : List (Nat × Int)}

theorem markConsistent_of_mem {s : Sess} {n : Nat} (h : n ∈ s.consistent) :
    s.markConsistent n = s := by
  unfold Sess.markConsistent; rw [if_pos h]

/-- What a `require` of a consistent node with output `o` does. -/
def QHit (sem : Sem) (s : Sess) (n d u c : Nat) (o : Int) (s' : Sess) (out : Int) : Prop :=
  out = o ∧ s'.cur = s.cur ∧ s'.consistent = s.consistent ∧ s'.queue = s.queue ∧
    (∀ y, y ≠ n → Same s s' y) ∧ (∀ y, s'.store.taskOutput y = s.store.taskOutput y) ∧
    EdgeUpd (s.store.g.outgoingEdges n) (s'.store.g.outgoingEdges n) d
      (.require u c (sem.ostamp c o))

/-- `buRequire` of a task whose node is consistent: the stored output is returned at once. -/
theorem buRequire_hit {s : Sess} (h : MInv sem body fs s) {n d u : Nat} {o : Int}
    (hc : s.cur = some n) (htask : s.store.taskOf d = some u) (hd : d ∈ s.consistent)
    (ho : s.store.taskOutput d = some o) (f c : Nat) :
    Outcome sem body fs s (buRequire sem body f s u c) (QHit sem s n d u c o) := by
  cases f with
  | zero => unfold buRequire; exact .abort h.faithful
  | succ f =>
    unfold buRequire; simp only []
    have hnode : ((s.emit (.requireStart u c)).store.getOrCreateTaskNode u).2 = d :=
      nodeOf_eq h.wf.store htask
    obtain ⟨hb, hbs⟩ := h.getTask u
      (s' := { s.emit (.requireStart u c) with store := (s.store.getOrCreateTaskNode u).1 })
      rfl rfl rfl rfl
    rw [hnode]
    have htm : (s.store.getOrCreateTaskNode u).1.taskOf d = some u := hb.le.task _ _ htask
    split
    next s_c a heq =>
      exact .abort (reserveRequire_spec hb.inv ⟨u, htm⟩ heq).1.inv.faithful
    next s_c heq =>
      obtain ⟨stc, hcurc, hconsc, hqc, hsamec, hedgec⟩ := reserveRequire_spec hb.inv ⟨u, htm⟩ heq
      have hnb : ({ s.emit (.requireStart u c) with
          store := (s.store.getOrCreateTaskNode u).1 } : Sess).cur = some n := hc
      have hnc : s_c.cur = some n := by rw [hcurc]; exact hnb
      have hdn : d ≠ n := by
        rintro rfl
        have := h.curFree d hc
        rw [ho] at this; cases this
      have hsdc : Same s s_c d := (hbs d).trans (hsamec d (fun hh => hdn (Option.some.inj (hnb.symm.trans hh)).symm))
      have hoc : s_c.store.taskOutput d = some o := by rw [hsdc.1]; exact ho
      have hmemc : d ∈ s_c.consistent := by rw [hconsc]; exact hd
      have htc : s_c.store.taskOf d = some u := stc.le.task _ _ htm
      cases f with
      | zero => unfold buMake; exact .abort stc.inv.faithful
      | succ f =>
        unfold buMake
        rw [if_pos hmemc, hoc]
        simp only []
        have ste := stc.inv.emit (.requireEnd u c (sem.ostamp c o) o)
        split
        next s_f a heq3 =>
          exact .abort (updateRequire_spec ste.inv htc c (sem.ostamp c o) heq3).1.inv.faithful
        next s_f heq3 =>
          obtain ⟨stf, hcurf, hconsf, hqf, hsamef, houtf, hupd⟩ :=
            updateRequire_spec ste.inv htc c (sem.ostamp c o) heq3
          have hmemf : d ∈ s_f.consistent := by rw [hconsf]; exact hmemc
          rw [markConsistent_of_mem hmemf]
          refine .ret (hb.trans (stc.trans (ste.trans stf))) ⟨rfl, ?_, ?_, ?_, ?_, ?_, ?_⟩
          · rw [hcurf]; exact hcurc
          · rw [hconsf]; exact hconsc
          · rw [hqf]; exact hqc
          · intro y hy
            have h1 : Same s s_c y :=
              (hbs y).trans (hsamec y (fun hh => hy (Option.some.inj (hnb.symm.trans hh)).symm))
            exact h1.trans (hsamef y (fun hh => hy (Option.some.inj (hnc.symm.trans hh)).symm))
          · intro y
            rw [houtf]
            show s_c.store.taskOutput y = _
            by_cases hy : y = n
            · subst hy
              rw [stc.inv.curFree y hnc, h.curFree y hc]
            · exact ((hbs y).trans
                (hsamec y (fun hh => hy (Option.some.inj (hnb.symm.trans hh)).symm))).1
          · obtain ⟨_, halt⟩ := hedgec rfl n hnb
            apply edgeUpd_of (Lc := s_c.store.g.outgoingEdges n)
            · rw [← (hbs n).2]; exact halt
            · rw [hupd rfl n hnc]; rfl

theorem runDep_keep {qt qr qt' qr' : List (Nat × Nat)} {s s' : Sess} {dst : Nat} {d : Dep}
    (h : RunDep sem fs qt qr s dst d) (hcons : s'.consistent = s.consistent)
    (hout : ∀ y, s'.store.taskOutput y = s.store.taskOutput y)
    (ht : ∀ p ∈ qt, p ∈ qt') (hr : ∀ p ∈ qr, p ∈ qr') : RunDep sem fs qt' qr' s' dst d := by
  cases d with
  | reserved => exact h
  | require u c stp =>
    obtain ⟨h1, h2, o, h3, h4⟩ := h
    exact ⟨ht _ h1, hcons ▸ h2, o, by rw [hout]; exact h3, h4⟩
  | read r c stp => exact ⟨hr _ h.1, h.2⟩
  | write r c stp => exact h

/-- The result of re-running `p` in the frame of `x`. -/
def QReplay (sem : Sem) (fs : List (Nat × Int)) (s : Sess) (x : Nat) (p : Prog) (o : Int)
    (s' : Sess) (v : Int) : Prop :=
  v = o ∧ s'.cur = s.cur ∧ s'.consistent = s.consistent ∧ s'.queue = s.queue ∧
    (∀ y, y ≠ x → Same s s' y) ∧ (∀ y, s'.store.taskOutput y = s.store.taskOutput y) ∧
    (∃ qt qr, RunInv sem fs qt qr s' x) ∧
    (∀ d ∈ s.store.depsFrom x, d ∈ s'.store.depsFrom x) ∧ Replay sem p (s'.store.depsFrom x) v

/-- Re-running a program that replays now to `o` returns `o`; only the edges of `x` change. -/
theorem buRun_replay (hst : StampTotal sem) (x : Nat) : ∀ (f : Nat) (s : Sess) (p : Prog)
    (qt qr : List (Nat × Nat)) (o : Int), MInv sem body fs s → s.cur = some x → p.WriteFree →
    OneCk qt qr p → RunInv sem fs qt qr s x → ReplayNow fs s x p o →
    Outcome sem body fs s (buRun sem body f s p) (QReplay sem fs s x p o) := by
  intro f
  induction f with
  | zero => intro s p qt qr o h _ _ _ _ _; unfold buRun; exact .abort h.faithful
  | succ f ih =>
    intro s p qt qr o h hc hwf hone hri hrn
    cases hwf with
    | ret v =>
      unfold buRun
      have hv : v = o := hrn
      exact .ret (MStep.refl h) ⟨hv, rfl, rfl, rfl, fun _ _ => Same.refl _ _, fun _ => rfl,
        ⟨qt, qr, hri⟩, fun d hd => hd, rfl⟩
    | panic => exact hrn.elim
    | req u c k hk =>
      obtain ⟨d, o', hdx, htd, hdc, hod, hrn'⟩ := hrn
      unfold buRun
      have IH := buRequire_hit h hc htd hdc hod f c
      split
      next s1 a heq => exact .abort (IH.faithful_of heq)
      next s1 out heq =>
        obtain ⟨st1, hout, hcur1, hcons1, hq1, hsame1, hout1, hupd1, hupd2, hupd3⟩ := IH.ok s1 out heq
        subst hout
        have hri1 : RunInv sem fs ((u, c) :: qt) qr s1 x := by
          intro dst dd hd
          rcases hupd1 _ hd with ⟨hold, _⟩ | hnew
          · exact runDep_keep (hri dst dd hold) hcons1 hout1
              (fun p hp => List.mem_cons_of_mem _ hp) (fun p hp => hp)
          · cases hnew
            exact ⟨List.mem_cons_self .., hcons1 ▸ hdc, out, by rw [hout1]; exact hod, rfl⟩
        have hrn1 : ReplayNow fs s1 x (k out) o :=
          hrn'.transport st1.le (fun y hy => hcons1 ▸ hy) (fun y _ _ => hout1 y)
        have IH2 := ih s1 (k out) ((u, c) :: qt) qr o st1.inv (hcur1.trans hc) (hk out)
          (hone.2 out) hri1 hrn1
        refine IH2.trans st1 ?_
        rintro s' v st' ⟨hv, hc', hcons', hq', hsame', hout', hri', hsub', hrep'⟩
        have hD : Dep.require u c (sem.ostamp c out) ∈ s1.store.depsFrom x :=
          (mem_deps_iff _ _ _).mpr ⟨_, hupd3⟩
        refine ⟨hv, hc'.trans hcur1, hcons'.trans hcons1, hq'.trans hq1,
          fun y hy => (hsame1 y hy).trans (hsame' y hy), fun y => (hout' y).trans (hout1 y), hri', ?_,
          ⟨sem.ostamp c out, hsub' _ hD, out, rfl, hrep'⟩⟩
        intro dd hd
        obtain ⟨dst, hdst⟩ := (mem_deps_iff _ _ _).mp hd
        by_cases hne : dst = d
        · subst hne
          apply hsub'
          have hok := (h.wf.store.mem_outgoingEdges_ok hdst).2
          have hrd := hri _ dd hdst
          cases dd with
          | reserved => exact hrd.elim
          | write r' c' st0 => exact hrd.elim
          | read r' c' st0 =>
            have h1 : s.store.resOf dst = some r' := hok
            rw [Store.resOf_eq_none_of_taskOf htd] at h1; cases h1
          | require u' c' st0 =>
            obtain ⟨hqq, hcs, o'', ho'', hst0⟩ := hrd
            have h1 : s.store.taskOf dst = some u' := hok
            rw [htd] at h1; cases h1
            have hcc := hone.1 c' hqq
            subst hcc
            rw [hod] at ho''; cases ho''
            rw [hst0]; exact hD
        · exact hsub' dd ((mem_deps_iff _ _ _).mpr ⟨dst, hupd2 _ hdst hne⟩)
    | read r c k hk =>
      have hrn' : ReplayNow fs s x (k (.ok (aget fs r))) o := hrn
      unfold buRun
      split
      next s1 a heq => exact .abort (doRead_spec hst h hc r c heq).1.inv.faithful
      next s1 a heq =>
        obtain ⟨st1, hcur1, hcons1, hq1, hsame1, hres⟩ := doRead_spec hst h hc r c heq
        obtain ⟨rfl, dst, stamp, hstamp, hresof, halt⟩ := hres a rfl
        have hout1 : ∀ y, s1.store.taskOutput y = s.store.taskOutput y := by
          intro y
          by_cases hy : y = x
          · subst hy; rw [st1.inv.curFree y (hcur1.trans hc), h.curFree y hc]
          · exact (hsame1 y hy).1
        have hkey : (dst, Dep.read r c stamp) ∈ s1.store.g.outgoingEdges x ∧
            ∀ p ∈ s.store.g.outgoingEdges x, p ∈ s1.store.g.outgoingEdges x := by
          rcases halt with ⟨⟨d0, hd0⟩, heq'⟩ | ⟨_, heq'⟩
          · rw [heq']
            refine ⟨?_, fun p hp => hp⟩
            have hok := (h.wf.store.mem_outgoingEdges_ok hd0).2
            have hrd := hri _ d0 hd0
            cases d0 with
            | reserved => exact hrd.elim
            | write r' c' st0 => exact hrd.elim
            | require u' c' st0 =>
              have h1 : s1.store.taskOf dst = some u' := st1.le.task _ _ hok
              rw [Store.taskOf_eq_none_of_resOf hresof] at h1; cases h1
            | read r' c' st0 =>
              obtain ⟨hqq, hst0⟩ := hrd
              have h1 : s1.store.resOf dst = some r' := st1.le.res _ _ hok
              rw [hresof] at h1; cases h1
              have hcc := hone.1 c' hqq
              subst hcc
              rw [hstamp] at hst0; cases hst0
              exact hd0
          · rw [heq']
            exact ⟨by simp, fun p hp => List.mem_append.mpr (.inl hp)⟩
        have hri1 : RunInv sem fs qt ((r, c) :: qr) s1 x := by
          intro dst' dd hd
          rcases halt with ⟨_, heq'⟩ | ⟨_, heq'⟩
          · rw [heq'] at hd
            exact runDep_keep (hri dst' dd hd) hcons1 hout1 (fun p hp => hp)
              (fun p hp => List.mem_cons_of_mem _ hp)
          · rw [heq'] at hd
            rcases List.mem_append.mp hd with hd | hd
            · exact runDep_keep (hri dst' dd hd) hcons1 hout1 (fun p hp => hp)
                (fun p hp => List.mem_cons_of_mem _ hp)
            · simp only [List.mem_singleton, Prod.mk.injEq] at hd
              obtain ⟨rfl, rfl⟩ := hd
              exact ⟨List.mem_cons_self .., hstamp⟩
        have hrn1 : ReplayNow fs s1 x (k (.ok (aget fs r))) o :=
          hrn'.transport st1.le (fun y hy => hcons1 ▸ hy) (fun y _ _ => hout1 y)
        have IH2 := ih s1 (k (.ok (aget fs r))) qt ((r, c) :: qr) o st1.inv (hcur1.trans hc) (hk _)
          (hone.2 _) hri1 hrn1
        refine IH2.trans st1 ?_
        rintro s' v st' ⟨hv, hc', hcons', hq', hsame', hout', hri', hsub', hrep'⟩
        refine ⟨hv, hc'.trans hcur1, hcons'.trans hcons1, hq'.trans hq1,
          fun y hy => (hsame1 y hy).trans (hsame' y hy), fun y => (hout' y).trans (hout1 y), hri', ?_,
          ⟨stamp, hsub' _ ((mem_deps_iff _ _ _).mpr ⟨_, hkey.1⟩), aget fs r, hstamp,
            hrep'⟩⟩
        intro dd hd
        obtain ⟨dst', hdst'⟩ := (mem_deps_iff _ _ _).mp hd
        exact hsub' dd ((mem_deps_iff _ _ _).mpr ⟨dst', hkey.2 _ hdst'⟩)

/-- The result of re-executing the fresh node `x` with stored output `o`. -/
def QReExec (sem : Sem) (body : Nat → Prog) (fs : List (Nat × Int)) (s : Sess) (x : Nat) (o : Int)
    (s' : Sess) (v : Int) : Prop :=
  v = o ∧ s'.cur = s.cur ∧ s'.consistent = s.consistent ∧ s'.queue = s.queue ∧
    (∀ y, y ≠ x → Same s s' y) ∧ s'.store.taskOutput x = some o ∧ Fresh body fs s' x ∧
    (∀ b u c stp, (b, Dep.require u c stp) ∈ s'.store.g.outgoingEdges x →
      b ∈ s.consistent ∧ ∃ o', s.store.taskOutput b = some o' ∧ stp = sem.ostamp c o') ∧
    (∀ dst d, (dst, d) ∈ s'.store.g.outgoingEdges x → d.isWrite = false)

/-- **Re-execution of a fresh node.** -/
theorem buExec_replay (hst : StampTotal sem) (hwfb : WriteFreeBody body)
    (hone : ∀ t, OneChecker (body t)) {s : Sess} (h : MInv sem body fs s) {x t : Nat} {o : Int}
    (ht : s.store.taskOf x = some t) (hrn : ReplayNow fs s x (body t) o)
    (hcn : ∀ n, s.cur = some n → n ≠ x) (f : Nat) :
    Outcome sem body fs s (buExec sem body f s t x) (QReExec sem body fs s x o) := by
  cases f with
  | zero => unfold buExec; exact .abort h.faithful
  | succ f =>
    unfold buExec; simp only []
    obtain ⟨st2, hs2, hoe2⟩ := h.startExec
      (s' := ({ s with store := s.store.resetTask x, cur := some x } : Sess).emit
        (.executeStart t)) ht rfl rfl rfl rfl
    have hrn2 := hrn.transport (s' := ({ s with store := s.store.resetTask x, cur := some x } : Sess).emit
        (.executeStart t)) st2.le (fun d hd => hd) (fun d _ hdx => (hs2 d hdx).1)
    have IHr := buRun_replay hst x f _ (body t) [] [] o st2.inv rfl (hwfb t) (hone t)
      (by intro dst d hd; rw [hoe2] at hd; cases hd) hrn2
    split
    next s3 a heq3 => exact .abort (IHr.faithful_of heq3)
    next s3 v heq3 =>
      obtain ⟨st3, hv, hcur3, hcons3, hq3, hsame3, hout3, ⟨qt', qr', hri⟩, _, hrep⟩ :=
        IHr.ok s3 v heq3
      subst hv
      have hc3 : s3.cur = some x := hcur3
      have ht3 : s3.store.taskOf x = some t := st3.le.task _ _ (st2.le.task _ _ ht)
      have hnores : Dep.reserved ∉ s3.store.depsFrom x := by
        intro hh
        obtain ⟨dst, hd⟩ := (mem_deps_iff _ _ _).mp hh
        exact hri dst _ hd
      have hwf4 : SessWF ({ s3.emit (.executeEnd t v) with
          cur := s.cur, store := s3.store.setTaskOutput x v } : Sess) :=
        (Ext.endExec (s₂ := s) (s₄ := s3.emit (.executeEnd t v))
          ⟨st3.inv.wf.emit _, st2.le.trans st3.le⟩ h.wf x v).wf
      have hs03 : ∀ y, y ≠ x → Same s s3 y := fun y hy => (hs2 y hy).trans (hsame3 y hy)
      obtain ⟨st4, hs4, ho4, hoe4⟩ := st3.inv.endExec
        (s' := { s3.emit (.executeEnd t v) with
                 cur := s.cur, store := s3.store.setTaskOutput x v })
        ht3 hrep hnores rfl rfl hwf4 (by
          intro n hn
          refine ⟨hcn n hn, ?_⟩
          rw [(hs03 n (hcn n hn)).1]
          exact h.curFree n hn)
      have hs04 : ∀ y, y ≠ x → Same s _ y := fun y hy => (hs03 y hy).trans (hs4 y hy)
      have hx3 : s3.store.taskOutput x = none := st3.inv.curFree x hc3
      refine .ret (st2.trans (st3.trans st4)) ⟨rfl, rfl, hcons3, hq3, hs04, ho4, ?_, ?_, ?_⟩
      · exact ⟨t, v, st4.le.task _ _ ht3, ho4,
          hrn.transport ((st2.trans (st3.trans st4)).le) (fun d hd => hcons3 ▸ hd)
            (fun d _ hdx => (hs04 d hdx).1)⟩
      · intro b u c stp hmem0
        have hmem : (b, Dep.require u c stp) ∈ s3.store.g.outgoingEdges x := by
          rw [← hoe4]; exact hmem0
        obtain ⟨_, hbc, o', hbo, hstp⟩ := hri b _ hmem
        have hbx : b ≠ x := by
          rintro rfl
          rw [hx3] at hbo; cases hbo
        exact ⟨hcons3 ▸ hbc, o', by rw [← (hs03 b hbx).1]; exact hbo, hstp⟩
      · intro dst d hmem0
        have hmem : (dst, d) ∈ s3.store.g.outgoingEdges x := by
          rw [← hoe4]; exact hmem0
        have := hri dst d hmem
        cases d with
        | write r c stp => exact this.elim
        | reserved => rfl
        | require u c stp => rfl
        | read r c stp => rfl

end Mixed
end PieModel
