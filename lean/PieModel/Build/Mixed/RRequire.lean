/-
Bottom-up builds with reflexive output checkers: the successor step of `buRequire`.
-/
import PieModel.Build.Mixed.RStmt

namespace PieModel
namespace Mixed

variable {sem : Sem} {body : Nat → Prog} {fs : List (Nat × Int)}

/-- Marking a markable node with output consistent (no edge changes). -/
theorem RInv.mark {s : Sess} (h : RInv sem body fs s) {dst : Nat} {out : Int}
    (hmk : Markable sem body fs s dst) (ho : s.store.taskOutput dst = some out)
    (hcn : ∀ n, s.cur = some n → n ≠ dst) : RStep sem body fs s (s.markConsistent dst) := by
  have hmemF : ∀ x, x ∈ (s.markConsistent dst).consistent ↔ x ∈ s.consistent ∨ x = dst :=
    fun x => mem_markConsistent s dst x
  refine ⟨⟨(h.m.mark dst).inv, ?_, ?_, ?_, ?_, ?_⟩, by simp [Store.Le.refl],
    fun x hx => (hmemF x).mpr (.inl hx), fun x _ => by simp⟩
  · intro n hn
    simp only [Sess.cur_markConsistent] at hn
    rw [hmemF]
    rintro (h1 | h1)
    · exact h.curFresh n hn h1
    · exact hcn n hn h1
  · intro n hn b hb
    simp only [Sess.cur_markConsistent] at hn
    simp only [Sess.store_markConsistent] at hb
    exact (hmemF b).mpr (.inl (h.curReq n hn b hb))
  · intro x hx
    simp only [Sess.store_markConsistent]
    rcases (hmemF x).mp hx with hx | rfl
    · exact h.consOut x hx
    · exact ⟨out, ho⟩
  · intro x hx hxq
    simp only [Sess.queue_markConsistent] at hxq
    have hf : Fresh body fs s x := by
      rcases (hmemF x).mp hx with hx | rfl
      · exact h.qFresh x hx hxq
      · exact hmk.fresh hxq
    exact hf.transport (by simp [Store.Le.refl]) (fun d hd => (hmemF d).mpr (.inl hd))
      (fun d _ _ => by simp) (by simp)
  · intro w hw y hy
    simp only [Sess.store_markConsistent] at hy
    have hgd : Good sem s y := by
      rcases (hmemF w).mp hw with hw | rfl
      · exact h.cone w hw y hy
      · exact hmk.cone y hy
    exact hgd.transport (fun b u c st hm => by simpa using hm) (fun b _ hb => by simpa using hb)
      (fun d hd => (hmemF d).mpr (.inl hd)) (fun d _ => by simp)

theorem require_succR (hrefl : OReflexive sem) {f : Nat} (ih : BuR sem body fs f) (s : Sess)
    (u c : Nat) (h : RInv sem body fs s) :
    OutcomeR sem body fs s (buRequire sem body (f + 1) s u c) (QReqR sem s u c) := by
  unfold buRequire; simp only []
  obtain ⟨hbm, hbs⟩ := h.m.getTask u
    (s' := { s.emit (.requireStart u c) with store := (s.store.getOrCreateTaskNode u).1 })
    rfl rfl rfl rfl
  have hb : RStep sem body fs s
      { s.emit (.requireStart u c) with store := (s.store.getOrCreateTaskNode u).1 } :=
    h.frame hbm.inv hbm.le rfl rfl (fun m hm => hm) (fun x _ => hbs x) (fun n _ => (hbs n).1)
      (fun n _ b u' c' st hmem => by rw [← (hbs n).2]; exact hmem)
  have hw := h.wf.store
  have htm : (s.store.getOrCreateTaskNode u).1.taskOf (nodeOf s u) = some u :=
    Store.taskOf_getOrCreateTaskNode_self hw u
  split
  next s_c a heq =>
    exact .abort (reserveRequire_spec hb.inv.m ⟨u, htm⟩ heq).1.inv.faithful
  next s_c heq =>
    obtain ⟨stcm, hcurc, hconsc, hqc, hsamec, hedgec⟩ := reserveRequire_spec hb.inv.m ⟨u, htm⟩ heq
    have stc : RStep sem body fs
        { s.emit (.requireStart u c) with store := (s.store.getOrCreateTaskNode u).1 } s_c := by
      refine hb.inv.frame stcm.inv stcm.le hcurc hconsc (fun m hm => hqc ▸ hm) hsamec ?_ ?_
      · intro n hn
        rw [stcm.inv.curFree n (hcurc.trans hn), hb.inv.curFree n hn]
      · intro n hn b u' c' st hmem
        rcases (hedgec rfl n hn).2 with ⟨_, heq'⟩ | ⟨_, heq'⟩
        · rw [heq'] at hmem; exact hmem
        · rw [heq'] at hmem
          rcases List.mem_append.mp hmem with h1 | h1
          · exact h1
          · simp at h1
    have htc : s_c.store.taskOf (nodeOf s u) = some u := stc.le.task _ _ htm
    have IH := ih.make s_c u (nodeOf s u) stc.inv htc (by
      intro n hn
      exact .edge (hedgec rfl n (by rw [← hcurc]; exact hn)).1)
    split
    next s_d a heq2 => exact .abort (IH.faithful_of heq2)
    next s_d out heq2 =>
      obtain ⟨std, houtd, hmk, hprotd⟩ := IH.ok s_d out heq2
      have hcurd : s_d.cur = s_c.cur := cur_buMake sem body heq2
      have htd : s_d.store.taskOf (nodeOf s u) = some u := std.le.task _ _ htc
      have stem := std.inv.m.emit (.requireEnd u c (sem.ostamp c out) out)
      split
      next s_f a heq3 =>
        exact .abort (updateRequire_spec stem.inv htd c (sem.ostamp c out) heq3).1.inv.faithful
      next s_f heq3 =>
        obtain ⟨stfm, hcurf, hconsf, hqf, hsamef, houtf, hupd⟩ :=
          updateRequire_spec stem.inv htd c (sem.ostamp c out) heq3
        rcases Option.eq_none_or_eq_some s.cur with hcn | ⟨n, hcs⟩
        · -- no executing task: nothing is recorded
          have hcd : s_d.cur = none := by rw [hcurd, hcurc]; exact hcn
          have hsf : s_f = s_d.emit (.requireEnd u c (sem.ostamp c out) out) := by
            have h1 := updateRequire_none (s := s_d.emit (.requireEnd u c (sem.ostamp c out) out))
              hcd (nodeOf s u) u c (sem.ostamp c out)
            exact (Prod.mk.inj (h1.symm.trans heq3)).1.symm
          subst hsf
          have ste : RStep sem body fs s_d (s_d.emit (.requireEnd u c (sem.ostamp c out) out)) :=
            std.inv.frame stem.inv stem.le rfl rfl (fun m hm => hm) (fun x _ => Same.refl _ _)
              (fun n _ => rfl) (fun n _ b u' c' st hmem => hmem)
          have hmk' : Markable sem body fs (s_d.emit (.requireEnd u c (sem.ostamp c out) out))
              (nodeOf s u) :=
            ⟨fun hq => Fresh.transport (s := s_d) (Store.Le.refl _) (fun d hd => hd)
                (fun _ _ _ => rfl) rfl (hmk.fresh hq),
              fun y hy => Good.transport (s := s_d) (fun _ _ _ _ hm => hm) (fun _ _ hq => hq)
                (fun d hd => hd) (fun _ _ => rfl) (hmk.cone y hy)⟩
          have stm := ste.inv.mark hmk' houtd (fun n hn => by
            have hn' : s_d.cur = some n := hn
            rw [hcd] at hn'; cases hn')
          refine .ret (hb.trans (stc.trans (std.trans (ste.trans stm))))
            ⟨(mem_markConsistent _ _ _).mpr (.inr rfl), by simpa using houtd, by simpa using htd, ?_⟩
          intro n hn
          rw [hcn] at hn; cases hn
        · have hnb : ({ s.emit (.requireStart u c) with
              store := (s.store.getOrCreateTaskNode u).1 } : Sess).cur = some n := hcs
          have hnc : s_c.cur = some n := by rw [hcurc]; exact hnb
          have hnd : s_d.cur = some n := by rw [hcurd]; exact hnc
          obtain ⟨hedge, halt⟩ := hedgec rfl n hnb
          have hne : n ≠ nodeOf s u := by
            intro hnn
            rw [← hnn] at hedge
            exact stc.inv.wf.store.inv.acyclic _ (.edge hedge)
          have hedges : ∀ p ∈ s_f.store.g.outgoingEdges n,
              p ∈ s_d.store.g.outgoingEdges n ∨
                p = (nodeOf s u, Dep.require u c (sem.ostamp c out)) := by
            intro p hp
            rw [hupd rfl n hnd] at hp
            obtain ⟨q, hq1, rfl⟩ := List.mem_map.mp hp
            by_cases hq2 : q.1 = nodeOf s u
            · right; simp [hq2]
            · left; simp only [hq2, if_false]; exact hq1
          have stf := RInv.epilogue hrefl std.inv hnd hne hmk houtd stfm.inv
            (stem.le.trans stfm.le) hcurf hconsf hqf
            (fun x hx => hsamef x (fun hh => hx (Option.some.inj (hnd.symm.trans hh)).symm))
            houtf hedges
          refine .ret (hb.trans (stc.trans (std.trans stf)))
            ⟨(mem_markConsistent _ _ _).mpr (.inr rfl),
              by simp only [Sess.store_markConsistent, houtf]; exact houtd,
              by simp only [Sess.store_markConsistent]; exact stfm.le.task _ _ htd, ?_⟩
          intro n' hn'
          rw [hcs] at hn'; cases hn'
          -- the ancestors of `n`
          have hwb := hb.inv.wf.store
          have hwc := stc.inv.wf.store
          have hwd := std.inv.wf.store
          have hwf := stfm.inv.wf.store
          have hp1 : ProtN s { s.emit (.requireStart u c) with
              store := (s.store.getOrCreateTaskNode u).1 } n :=
            ProtN.of_same hbs (fun a b hr => (Store.reach_getOrCreateTaskNode hw u a b).mp hr)
              (fun x hx => hx) n
          have hp2 : ProtN { s.emit (.requireStart u c) with
              store := (s.store.getOrCreateTaskNode u).1 } s_c n :=
            ⟨Prot.mod hwb
              (fun x hx => hsamec x (fun hh => hx (Option.some.inj (hnb.symm.trans hh)).symm))
              (fun x hx => .inl (hconsc ▸ hx)),
             reserveRequire_np hb.inv.wf hnb heq hwc⟩
          have hp3 : ProtN s_c s_d n := hprotd.up hwc hwd (.edge hedge)
          have hp4 : ProtN s_d s_f n :=
            ⟨Prot.mod hwd
              (fun x hx => hsamef x (fun hh => hx (Option.some.inj (hnd.symm.trans hh)).symm))
              (fun x hx => .inl (hconsf ▸ hx)),
             fun a hr => updateRequire_np heq3 a n hr⟩
          have hedgef : s_f.store.g.HasEdge n (nodeOf s u) := by
            rw [Store.hasEdge_iff_mem_oe hwf]
            refine ⟨.require u c (sem.ostamp c out), ?_⟩
            rw [hupd rfl n hnd]
            have hed : s_d.store.g.HasEdge n (nodeOf s u) :=
              (hprotd.1.reach hwc hwd (.edge hedge)) |> fun _ => by
                have hsn : Same s_c s_d n := (hprotd.1 n (.edge hedge)).1
                have hc' := hsn.children hwc hwd
                simpa [Dag.HasEdge, hc'] using hedge
            obtain ⟨d0, hd0⟩ := (Store.hasEdge_iff_mem_oe hwd _ _).mp hed
            exact List.mem_map.mpr ⟨(nodeOf s u, d0), hd0, by simp⟩
          have hp5 : ProtN s_f (s_f.markConsistent (nodeOf s u)) n := by
            refine ⟨fun x hx => ⟨same_markConsistent _ _ _, fun hc => ?_⟩, fun a hr => by simpa using hr⟩
            rcases (mem_markConsistent _ _ _).mp hc with hc | hc
            · exact hc
            · exfalso
              rw [hc] at hx
              exact hwf.inv.acyclic _ (.step hedgef hx)
          refine ⟨(((hp1.trans hp2 hw hwb).trans hp3 hw hwc).trans hp4 hw hwd).trans hp5 hw hwf, ?_⟩
          have hsn : Same s_c s_d n := (hprotd.1 n (.edge hedge)).1
          simp only [Sess.store_markConsistent]
          apply edgeUpd_of (Lc := s_c.store.g.outgoingEdges n)
          · rw [← (hbs n).2]; exact halt
          · rw [hupd rfl n hnd]
            show (s_d.store.g.outgoingEdges n).map _ = _
            rw [hsn.2]

end Mixed
end PieModel
