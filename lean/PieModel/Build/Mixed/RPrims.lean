/-
Bottom-up builds with reflexive output checkers: the invariant `RInv` is preserved by the
primitive steps — frame steps (records kept), the epilogue of `buRequire` (the reserved edge becomes
a `require` edge with the current stamp, the required node is marked consistent), start and end
of an execution.
-/
import PieModel.Build.Mixed.RDefs

namespace PieModel
namespace Mixed

variable {sem : Sem} {body : Nat → Prog} {fs : List (Nat × Int)}

/-- A step that keeps `cur`, `consistent`, all outputs and all records except possibly the edge
list of the executing task, whose `require` edges do not grow; the queue may shrink. -/
theorem RInv.frame {s s' : Sess} (h : RInv sem body fs s) (hm : MInv sem body fs s')
    (hle : s.store.Le s'.store) (hcur : s'.cur = s.cur) (hcons : s'.consistent = s.consistent)
    (hq : ∀ m ∈ s'.queue, m ∈ s.queue)
    (hsame : ∀ x, s.cur ≠ some x → Same s s' x)
    (hcurO : ∀ n, s.cur = some n → s'.store.taskOutput n = s.store.taskOutput n)
    (hcurE : ∀ n, s.cur = some n → ∀ b u c st,
      (b, Dep.require u c st) ∈ s'.store.g.outgoingEdges n →
        (b, Dep.require u c st) ∈ s.store.g.outgoingEdges n) : RStep sem body fs s s' := by
  have hout : ∀ x, s'.store.taskOutput x = s.store.taskOutput x := by
    intro x
    by_cases hx : s.cur = some x
    · exact hcurO x hx
    · exact (hsame x hx).1
  have hedge : ∀ y b u c st, (b, Dep.require u c st) ∈ s'.store.g.outgoingEdges y →
      (b, Dep.require u c st) ∈ s.store.g.outgoingEdges y := by
    intro y b u c st hmem
    by_cases hy : s.cur = some y
    · exact hcurE y hy b u c st hmem
    · rw [← (hsame y hy).2]; exact hmem
  have hre : ∀ a b, ReqEdge s'.store a b → ReqEdge s.store a b := by
    rintro a b ⟨u, c, st, hmem⟩
    exact ⟨u, c, st, hedge _ _ _ _ _ hmem⟩
  refine ⟨⟨hm, ?_, ?_, ?_, ?_, ?_⟩, hle, fun x hx => hcons ▸ hx, fun x _ => hout x⟩
  · intro n hn; rw [hcons]; exact h.curFresh n (hcur ▸ hn)
  · intro n hn b hb; rw [hcons]; exact h.curReq n (hcur ▸ hn) b (hre _ _ hb)
  · intro x hx; rw [hcons] at hx; rw [hout]; exact h.consOut x hx
  · intro x hx hxq
    rw [hcons] at hx
    exact (h.qFresh x hx (hq x hxq)).transport hle (fun d hd => hcons ▸ hd) (fun d _ _ => hout d)
      (hout x)
  · intro w hw y hy
    rw [hcons] at hw
    have hy' : RCone s.store w y := by
      rcases hy with rfl | hy
      · exact .inl rfl
      · exact .inr (hy.mono hre)
    exact (h.cone w hw y hy').transport (hedge y) (fun dst _ hd => hq dst hd)
      (fun d hd => hcons ▸ hd) (fun d _ => hout d)

/-- The epilogue of `buRequire`: `sd` is the state after `buMake` returned `out` for node `dst`
(which may be marked consistent), `sf` the state after `updateRequire`. -/
theorem RInv.epilogue (hrefl : OReflexive sem) {sd sf : Sess} (h : RInv sem body fs sd)
    {n dst u c : Nat} {out : Int} (hc : sd.cur = some n) (hnd : n ≠ dst)
    (hmk : Markable sem body fs sd dst) (ho : sd.store.taskOutput dst = some out)
    (hmf : MInv sem body fs sf) (hle : sd.store.Le sf.store)
    (hcur : sf.cur = sd.cur) (hcons : sf.consistent = sd.consistent) (hq : sf.queue = sd.queue)
    (hsame : ∀ x, x ≠ n → Same sd sf x)
    (hout : ∀ x, sf.store.taskOutput x = sd.store.taskOutput x)
    (hedges : ∀ p ∈ sf.store.g.outgoingEdges n,
      p ∈ sd.store.g.outgoingEdges n ∨ p = (dst, Dep.require u c (sem.ostamp c out))) :
    RStep sem body fs sd (sf.markConsistent dst) := by
  have hmemF : ∀ x, x ∈ (sf.markConsistent dst).consistent ↔ x ∈ sd.consistent ∨ x = dst := by
    intro x; rw [mem_markConsistent, hcons]
  have hcurReq : ∀ b, ReqEdge sf.store n b → b ∈ sd.consistent ∨ b = dst := by
    rintro b ⟨u', c', st', hmem⟩
    rcases hedges _ hmem with hold | hnew
    · exact .inl (h.curReq n hc b ⟨u', c', st', hold⟩)
    · exact .inr (Prod.mk.inj hnew).1
  have hpath : ∀ z b, z ≠ n → ReqEdge sf.store z b → ReqEdge sd.store z b :=
    fun z b hz he => he.of_same (hsame z hz)
  -- cones of the nodes that are consistent afterwards are good in `sd`
  have goodD : ∀ d, (d ∈ sd.consistent ∨ d = dst) → ∀ y, RCone sd.store d y → Good sem sd y := by
    intro d hd y hy
    rcases hd with hd | rfl
    · exact h.cone d hd y hy
    · exact hmk.cone y hy
  refine ⟨⟨(hmf.mark dst).inv, ?_, ?_, ?_, ?_, ?_⟩, by simpa using hle,
    fun x hx => (hmemF x).mpr (.inl hx), fun x _ => by simpa using hout x⟩
  · intro n' hn'
    simp only [Sess.cur_markConsistent, hcur, hc] at hn'
    cases hn'
    rw [hmemF]
    rintro (h1 | h1)
    · exact h.curFresh n hc h1
    · exact hnd h1
  · intro n' hn' b hb
    simp only [Sess.cur_markConsistent, hcur, hc] at hn'
    cases hn'
    simp only [Sess.store_markConsistent] at hb
    exact (hmemF b).mpr (hcurReq b hb)
  · intro x hx
    simp only [Sess.store_markConsistent, hout]
    rcases (hmemF x).mp hx with hx | rfl
    · exact h.consOut x hx
    · exact ⟨out, ho⟩
  · intro x hx hxq
    simp only [Sess.queue_markConsistent, hq] at hxq
    have hf : Fresh body fs sd x := by
      rcases (hmemF x).mp hx with hx | rfl
      · exact h.qFresh x hx hxq
      · exact hmk.fresh hxq
    exact hf.transport (by simpa using hle) (fun d hd => (hmemF d).mpr (.inl hd))
      (fun d _ _ => by simpa using hout d) (by simpa using hout x)
  · intro w hw y hy
    simp only [Sess.store_markConsistent] at hy
    have hgd : Good sem sd y := by
      rcases hy with rfl | hy
      · exact goodD _ ((hmemF _).mp hw) _ (.inl rfl)
      · rcases cone_step (P := fun b => b ∈ sd.consistent ∨ b = dst) hpath hcurReq hy with
          h1 | ⟨d, hd, hcd⟩
        · exact goodD w ((hmemF w).mp hw) y (.inr h1)
        · exact goodD d hd y hcd
    by_cases hyn : y = n
    · subst hyn
      intro b u' c' st' hmem hbq
      simp only [Sess.store_markConsistent] at hmem
      simp only [Sess.queue_markConsistent, hq] at hbq
      simp only [Sess.store_markConsistent, hout]
      rcases hedges _ hmem with hold | hnew
      · obtain ⟨h1, o, h2, h3⟩ := hgd b u' c' st' hold hbq
        exact ⟨(hmemF b).mpr (.inl h1), o, h2, h3⟩
      · obtain ⟨rfl, hdep⟩ := Prod.mk.inj hnew
        cases hdep
        exact ⟨(hmemF _).mpr (.inr rfl), out, ho, hrefl c out⟩
    · refine hgd.transport ?_ ?_ (fun d hd => (hmemF d).mpr (.inl hd))
        (fun d _ => by simpa using hout d)
      · intro b u' c' st' hmem
        simp only [Sess.store_markConsistent] at hmem
        rw [← (hsame y hyn).2]; exact hmem
      · intro b _ hbq
        simpa [hq] using hbq

/-- Start of the execution of a task that is not marked consistent. -/
theorem RInv.startExec {s s' : Sess} (h : RInv sem body fs s) {m t : Nat}
    (ht : s.store.taskOf m = some t) (hm : m ∉ s.consistent)
    (hst : s'.store = s.store.resetTask m) (hcur : s'.cur = some m) (hfs : s'.fs = s.fs)
    (hcons : s'.consistent = s.consistent) (hq : s'.queue = s.queue) :
    RStep sem body fs s s' ∧ (∀ x, x ≠ m → Same s s' x) ∧ s'.store.g.outgoingEdges m = [] := by
  obtain ⟨st, hs, he⟩ := h.m.startExec ht hst hcur hfs hq
  have hne : ∀ x ∈ s.consistent, x ≠ m := fun x hx hxm => hm (hxm ▸ hx)
  have hre : ∀ a b, ReqEdge s'.store a b → ReqEdge s.store a b := by
    intro a b hab
    by_cases ha : a = m
    · subst ha
      obtain ⟨_, _, _, hmem⟩ := hab
      rw [he] at hmem; cases hmem
    · exact hab.of_same (hs a ha)
  refine ⟨⟨⟨st.inv, ?_, ?_, ?_, ?_, ?_⟩, st.le, fun x hx => hcons ▸ hx,
    fun x hx => (hs x (hne x hx)).1⟩, hs, he⟩
  · intro n hn
    rw [hcur] at hn; cases hn
    rw [hcons]; exact hm
  · intro n hn b hb
    rw [hcur] at hn; cases hn
    obtain ⟨_, _, _, hmem⟩ := hb
    rw [he] at hmem; cases hmem
  · intro x hx
    rw [hcons] at hx
    rw [(hs x (hne x hx)).1]; exact h.consOut x hx
  · intro x hx hxq
    rw [hcons] at hx; rw [hq] at hxq
    exact (h.qFresh x hx hxq).transport st.le (fun d hd => hcons ▸ hd)
      (fun d hd _ => (hs d (hne d hd)).1) (hs x (hne x hx)).1
  · intro w hw y hy
    rw [hcons] at hw
    have hy' : RCone s.store w y := by
      rcases hy with rfl | hy
      · exact .inl rfl
      · exact .inr (hy.mono hre)
    refine (h.cone w hw y hy').transport ?_ (fun dst _ hd => hq ▸ hd) (fun d hd => hcons ▸ hd)
      (fun d hd => (hs d (hne d hd)).1)
    intro b u c stp hmem
    by_cases hym : y = m
    · subst hym; rw [he] at hmem; cases hmem
    · rw [← (hs y hym).2]; exact hmem

/-- End of the execution of task node `m` (the executing task of `s`). -/
theorem RInv.endExec {s s' : Sess} (h : RInv sem body fs s) {m t : Nat} {o : Int}
    (ht : s.store.taskOf m = some t) (hc : s.cur = some m)
    (hrep : Replay sem (body t) (s.store.depsFrom m) o) (hres : Dep.reserved ∉ s.store.depsFrom m)
    (hst : s'.store = s.store.setTaskOutput m o) (hfs : s'.fs = s.fs)
    (hcons : s'.consistent = s.consistent) (hq : s'.queue = s.queue) (hwf : SessWF s')
    (hprev : ∀ n, s'.cur = some n → n ≠ m ∧ s.store.taskOutput n = none ∧ n ∉ s.consistent ∧
      ∀ b, ReqEdge s.store n b → b ∈ s.consistent) :
    RStep sem body fs s s' ∧ (∀ x, x ≠ m → Same s s' x) ∧ s'.store.taskOutput m = some o ∧
      s'.store.g.outgoingEdges m = s.store.g.outgoingEdges m := by
  obtain ⟨st, hs, ho, he⟩ := h.m.endExec ht hrep hres hst hfs hwf
    (fun n hn => ⟨(hprev n hn).1, (hprev n hn).2.1⟩)
  have hm : m ∉ s.consistent := h.curFresh m hc
  have hne : ∀ x ∈ s.consistent, x ≠ m := fun x hx hxm => hm (hxm ▸ hx)
  have hoe : ∀ x, s'.store.g.outgoingEdges x = s.store.g.outgoingEdges x := by
    intro x
    by_cases hx : x = m
    · subst hx; exact he
    · exact (hs x hx).2
  have hre : ∀ a b, ReqEdge s'.store a b → ReqEdge s.store a b := by
    rintro a b ⟨u, c, stp, hmem⟩
    exact ⟨u, c, stp, by rw [← hoe]; exact hmem⟩
  refine ⟨⟨⟨st.inv, ?_, ?_, ?_, ?_, ?_⟩, st.le, fun x hx => hcons ▸ hx,
    fun x hx => (hs x (hne x hx)).1⟩, hs, ho, he⟩
  · intro n hn
    rw [hcons]; exact (hprev n hn).2.2.1
  · intro n hn b hb
    rw [hcons]; exact (hprev n hn).2.2.2 b (hre _ _ hb)
  · intro x hx
    rw [hcons] at hx
    rw [(hs x (hne x hx)).1]; exact h.consOut x hx
  · intro x hx hxq
    rw [hcons] at hx; rw [hq] at hxq
    exact (h.qFresh x hx hxq).transport st.le (fun d hd => hcons ▸ hd)
      (fun d hd _ => (hs d (hne d hd)).1) (hs x (hne x hx)).1
  · intro w hw y hy
    rw [hcons] at hw
    have hy' : RCone s.store w y := by
      rcases hy with rfl | hy
      · exact .inl rfl
      · exact .inr (hy.mono hre)
    refine (h.cone w hw y hy').transport ?_ (fun dst _ hd => hq ▸ hd) (fun d hd => hcons ▸ hd)
      (fun d hd => (hs d (hne d hd)).1)
    intro b u c stp hmem
    rw [← hoe]; exact hmem

end Mixed
end PieModel
