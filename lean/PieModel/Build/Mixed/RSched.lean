/-
Bottom-up builds with reflexive output checkers: `scheduleAfterExec` preserves `RInv`

* after the (normal) execution of a task that was not marked consistent and is not required from
  below a consistent task (`RInv.schedNormal`),
* after the re-execution of a consistent task to the same output (`RInv.reexec`,
  `RInv.schedCons`).
-/
import PieModel.Build.Mixed.RPrims
import PieModel.Build.Mixed.BottomUp
import PieModel.Build.Stack.BottomUpDefs

namespace PieModel
namespace Mixed

variable {sem : Sem} {body : Nat → Prog} {fs : List (Nat × Int)}

/-! ### what `scheduleAfterExec` adds to the queue -/

theorem queue_reqSchedStep (out : Int) (s : Sess) (p : Nat × Dep) :
    ∀ m ∈ (reqSchedStep sem out s p).queue, m ∈ s.queue ∨
      (m = p.1 ∧ ∃ u c st, p.2 = Dep.require u c st ∧ sem.ocheck c out st = false) := by
  obtain ⟨n, d⟩ := p
  intro m hm
  cases d with
  | require u c st =>
    cases ht : s.store.taskOf n with
    | none =>
      have : reqSchedStep sem out s (n, .require u c st) = s := by simp [reqSchedStep, ht]
      rw [this] at hm; exact .inl hm
    | some tn =>
      rw [reqSchedStep_queue sem out s n u c tn st ht] at hm
      by_cases hok : sem.ocheck c out st = true
      · rw [if_pos hok] at hm; exact .inl hm
      · rw [if_neg hok] at hm
        rcases mem_queueAdd.mp hm with h1 | h1
        · exact .inl h1
        · exact .inr ⟨h1, u, c, st, rfl, by simpa using hok⟩
  | reserved => exact .inl (by simpa [reqSchedStep] using hm)
  | read r c st => exact .inl (by simpa [reqSchedStep] using hm)
  | write r c st => exact .inl (by simpa [reqSchedStep] using hm)

theorem queue_reqSched_fold (out : Int) (L : List (Nat × Dep)) : ∀ (s : Sess) (m : Nat),
    m ∈ (L.foldl (reqSchedStep sem out) s).queue → m ∈ s.queue ∨
      ∃ u c st, (m, Dep.require u c st) ∈ L ∧ sem.ocheck c out st = false := by
  induction L with
  | nil => intro s m hm; exact .inl hm
  | cons p L ih =>
    intro s m hm
    simp only [List.foldl_cons] at hm
    rcases ih _ m hm with h1 | ⟨u, c, st, h1, h2⟩
    · rcases queue_reqSchedStep out s p m h1 with h3 | ⟨h3, u, c, st, h4, h5⟩
      · exact .inl h3
      · refine .inr ⟨u, c, st, ?_, h5⟩
        obtain ⟨n, d⟩ := p
        simp only at h3 h4
        subst h3 h4
        exact List.mem_cons_self ..
    · exact .inr ⟨u, c, st, List.mem_cons_of_mem _ h1, h2⟩

/-- A node whose outgoing edges are not `write` edges wrote no resource. -/
theorem resourcesWrittenBy_nil {st : Store} {n : Nat}
    (h : ∀ dst d, (dst, d) ∈ st.g.outgoingEdges n → d.isWrite = false) :
    st.resourcesWrittenBy n = [] := by
  rw [Store.resourcesWrittenBy_eq, List.map_eq_nil_iff, List.filter_eq_nil_iff]
  rintro ⟨dst, d⟩ hp
  simp [h dst d hp]

/-- The queue after `scheduleAfterExec` of a node that wrote nothing: old entries and requirers
whose stamp rejects the new output. -/
theorem queue_scheduleAfterExec {s : Sess} (hw : s.store.WF) (node t : Nat) (out : Int)
    (hnw : s.store.resourcesWrittenBy node = []) :
    ∀ m ∈ (scheduleAfterExec sem s node t out).queue, m ∈ s.queue ∨
      ∃ u c st, (node, Dep.require u c st) ∈ s.store.g.outgoingEdges m ∧
        sem.ocheck c out st = false := by
  intro m hm
  rw [scheduleAfterExec_eq] at hm
  simp only [hnw, List.foldl_nil, Sess.queue_markConsistent, Sess.queue_emit] at hm
  rcases queue_reqSched_fold out _ _ m hm with h1 | ⟨u, c, st, h1, h2⟩
  · exact .inl h1
  · refine .inr ⟨u, c, st, ?_, h2⟩
    simp only [Sess.store_emit, Store.requireDepsTo_eq, List.mem_filter] at h1
    rw [Dag.mem_outgoingEdges hw.gwf]
    exact (Dag.mem_incomingEdges hw.gwf _ _ _).mp h1.1

theorem mem_consistent_scheduleAfterExec (s : Sess) (node t : Nat) (out : Int) (x : Nat) :
    x ∈ (scheduleAfterExec sem s node t out).consistent ↔ x ∈ s.consistent ∨ x = node := by
  obtain ⟨s₃, hc, he⟩ := scheduleAfterExec_core sem s node t out
  rw [he, mem_markConsistent, hc.2.2]

/-! ### no consistent task requires `node` from its cone -/

/-- No node in the `require`-cone of a consistent task has a `require` edge to `node`. -/
def NoConsParent (s : Sess) (node : Nat) : Prop :=
  ∀ w ∈ s.consistent, ∀ y, RCone s.store w y → ¬ ReqEdge s.store y node

/-- A queued node that is not marked consistent has no such parent. -/
theorem RInv.noConsParent {s : Sess} (h : RInv sem body fs s) {node : Nat} (hq : node ∈ s.queue)
    (hnc : node ∉ s.consistent) : NoConsParent s node := by
  rintro w hw y hy ⟨u, c, st, hmem⟩
  exact hnc (h.cone w hw y hy node u c st hmem hq).1

theorem NoConsParent.transport {s s' : Sess} {node : Nat} (hw' : s'.store.WF)
    (hp : ProtN s s' node) (h : NoConsParent s node) : NoConsParent s' node := by
  intro w hwc y hy he
  have hs : ∀ x, s'.store.g.Reach x node → Same s s' x := fun x hx => (hp.1 x (hp.2 x hx)).1
  have hyn : s'.store.g.Reach y node := .edge (he.hasEdge hw')
  have hwn : s'.store.g.Reach w node := by
    rcases hy with rfl | hy
    · exact hyn
    · exact (hy.reach hw').trans hyn
  have hy0 : RCone s.store w y := by
    rcases hy with rfl | hy
    · exact .inl rfl
    · exact .inr (hy.back hw' hs (.inr hyn))
  exact h w ((hp.1 w (hp.2 w hwn)).2 hwc) y hy0 (he.of_same (hs y hyn))

/-! ### `scheduleAfterExec` after a normal execution -/

theorem RInv.schedNormal {s : Sess} (h : RInv sem body fs s) {node t : Nat} {o : Int}
    (ho : s.store.taskOutput node = some o)
    (hcn : ∀ n, s.cur = some n → n ≠ node)
    (hfr : Fresh body fs s node) (hcone : ∀ y, RCone s.store node y → Good sem s y)
    (hnw : s.store.resourcesWrittenBy node = []) (hncp : NoConsParent s node) :
    RStep sem body fs s (scheduleAfterExec sem s node t o) ∧
      (∀ x, Same s (scheduleAfterExec sem s node t o) x) := by
  obtain ⟨st, hs⟩ := h.m.scheduleAfterExec node t o
  have hstore := store_scheduleAfterExec sem s node t o
  have hcur := cur_scheduleAfterExec sem s node t o
  have hmem := mem_consistent_scheduleAfterExec (sem := sem) s node t o
  have hqc := queue_scheduleAfterExec (sem := sem) h.wf.store node t o hnw
  have hout : ∀ x, (scheduleAfterExec sem s node t o).store.taskOutput x = s.store.taskOutput x :=
    fun x => (hs x).1
  have hw := h.wf.store
  refine ⟨⟨⟨st.inv, ?_, ?_, ?_, ?_, ?_⟩, st.le, fun x hx => (hmem x).mpr (.inl hx),
    fun x _ => hout x⟩, hs⟩
  · intro n hn
    rw [hcur] at hn
    rw [hmem]
    rintro (h1 | h1)
    · exact h.curFresh n hn h1
    · exact hcn n hn h1
  · intro n hn b hb
    rw [hcur] at hn
    rw [hstore] at hb
    exact (hmem b).mpr (.inl (h.curReq n hn b hb))
  · intro x hx
    rw [hout]
    rcases (hmem x).mp hx with hx | rfl
    · exact h.consOut x hx
    · exact ⟨o, ho⟩
  · intro x hx hxq
    have hf : Fresh body fs s x := by
      rcases (hmem x).mp hx with hx | rfl
      · rcases hqc x hxq with h1 | ⟨u, c, stp, h1, _⟩
        · exact h.qFresh x hx h1
        · exact absurd ⟨u, c, stp, h1⟩ (hncp x hx x (.inl rfl))
      · exact hfr
    exact hf.transport st.le (fun d hd => (hmem d).mpr (.inl hd)) (fun d _ _ => hout d) (hout x)
  · intro w hwc y hy
    rw [hstore] at hy
    have hgd : Good sem s y := by
      rcases (hmem w).mp hwc with hwc | rfl
      · exact h.cone w hwc y hy
      · exact hcone y hy
    refine hgd.transport (fun b u c stp hmm => by rw [← hstore]; exact hmm) ?_
      (fun d hd => (hmem d).mpr (.inl hd)) (fun d _ => hout d)
    intro dst hyd hdq
    rw [hstore] at hyd
    rcases hqc dst hdq with h1 | ⟨u, c, stp, h1, _⟩
    · exact h1
    · exfalso
      have hdn : ReqEdge s.store dst node := ⟨u, c, stp, h1⟩
      rcases (hmem w).mp hwc with hwc | rfl
      · exact hncp w hwc dst (hy.tail hyd) hdn
      · -- a cycle `node →* dst → node`
        have h2 := (hy.tail hyd).reach hw
        have h3 : s.store.g.Reach dst w := .edge (hdn.hasEdge hw)
        rcases h2 with h2 | h2
        · rw [h2] at h3; exact hw.inv.acyclic _ h3
        · exact hw.inv.acyclic _ (h2.trans h3)

/-! ### re-execution of a consistent task -/

/-- The state after a consistent task `node` was re-executed to the same output, with current
dependencies; everything else is untouched, the queue may have shrunk. -/
theorem RInv.reexec (hrefl : OReflexive sem) {s s' : Sess} (h : RInv sem body fs s)
    {node : Nat} (hnc : node ∈ s.consistent)
    (hm : MInv sem body fs s') (hle : s.store.Le s'.store) (hcur : s'.cur = s.cur)
    (hcons : s'.consistent = s.consistent) (hq : ∀ m ∈ s'.queue, m ∈ s.queue)
    (hsame : ∀ x, x ≠ node → Same s s' x)
    (hon : s'.store.taskOutput node = s.store.taskOutput node)
    (hfr : Fresh body fs s' node)
    (hedges : ∀ b u c stp, (b, Dep.require u c stp) ∈ s'.store.g.outgoingEdges node →
      b ∈ s.consistent ∧ ∃ o', s.store.taskOutput b = some o' ∧ stp = sem.ostamp c o') :
    RStep sem body fs s s' := by
  have hout : ∀ x, s'.store.taskOutput x = s.store.taskOutput x := by
    intro x
    by_cases hx : x = node
    · subst hx; exact hon
    · exact (hsame x hx).1
  have hcn : ∀ n, s.cur = some n → n ≠ node := fun n hn hnn => h.curFresh n hn (hnn ▸ hnc)
  have hpath : ∀ z b, z ≠ node → ReqEdge s'.store z b → ReqEdge s.store z b :=
    fun z b hz he => he.of_same (hsame z hz)
  have hxe : ∀ b, ReqEdge s'.store node b → b ∈ s.consistent := by
    rintro b ⟨u, c, stp, hmem⟩
    exact (hedges b u c stp hmem).1
  refine ⟨⟨hm, ?_, ?_, ?_, ?_, ?_⟩, hle, fun x hx => hcons ▸ hx, fun x _ => hout x⟩
  · intro n hn; rw [hcons]; exact h.curFresh n (hcur ▸ hn)
  · intro n hn b hb
    rw [hcur] at hn
    rw [hcons]; exact h.curReq n hn b (hb.of_same (hsame n (hcn n hn)))
  · intro x hx; rw [hcons] at hx; rw [hout]; exact h.consOut x hx
  · intro x hx hxq
    rw [hcons] at hx
    by_cases hxn : x = node
    · subst hxn; exact hfr
    · exact (h.qFresh x hx (hq x hxq)).transport hle (fun d hd => hcons ▸ hd) (fun d _ _ => hout d)
        (hout x)
  · intro w hwc y hy
    rw [hcons] at hwc
    by_cases hyn : y = node
    · subst hyn
      intro b u c stp hmem hbq
      obtain ⟨h1, o', h2, h3⟩ := hedges b u c stp hmem
      exact ⟨hcons ▸ h1, o', by rw [hout]; exact h2, by rw [h3]; exact hrefl c o'⟩
    · have hgd : Good sem s y := by
        rcases hy with rfl | hy
        · exact h.cone _ hwc _ (.inl rfl)
        · rcases cone_step (P := fun b => b ∈ s.consistent) hpath hxe hy with h1 | ⟨d, hd, hcd⟩
          · exact h.cone w hwc y (.inr h1)
          · exact h.cone d hd y hcd
      refine hgd.transport ?_ (fun dst _ hd => hq dst hd) (fun d hd => hcons ▸ hd)
        (fun d _ => hout d)
      intro b u c stp hmem
      rw [← (hsame y hyn).2]; exact hmem

/-- `scheduleAfterExec` of a consistent task whose output every `require` edge from below a
consistent task accepts. -/
theorem RInv.schedCons {s : Sess} (h : RInv sem body fs s) {node t : Nat} {o : Int}
    (hnc : node ∈ s.consistent)
    (hnw : s.store.resourcesWrittenBy node = [])
    (hacc : ∀ w ∈ s.consistent, ∀ y, RCone s.store w y → ∀ u c stp,
      (node, Dep.require u c stp) ∈ s.store.g.outgoingEdges y → sem.ocheck c o stp = true) :
    RStep sem body fs s (scheduleAfterExec sem s node t o) ∧
      (∀ x, Same s (scheduleAfterExec sem s node t o) x) := by
  obtain ⟨st, hs⟩ := h.m.scheduleAfterExec node t o
  have hstore := store_scheduleAfterExec sem s node t o
  have hcur := cur_scheduleAfterExec sem s node t o
  have hmem : ∀ x, x ∈ (scheduleAfterExec sem s node t o).consistent ↔ x ∈ s.consistent := by
    intro x
    rw [mem_consistent_scheduleAfterExec]
    exact ⟨fun hx => hx.elim id (fun hx => hx ▸ hnc), .inl⟩
  have hqc := queue_scheduleAfterExec (sem := sem) h.wf.store node t o hnw
  have hout : ∀ x, (scheduleAfterExec sem s node t o).store.taskOutput x = s.store.taskOutput x :=
    fun x => (hs x).1
  refine ⟨⟨⟨st.inv, ?_, ?_, ?_, ?_, ?_⟩, st.le, fun x hx => (hmem x).mpr hx,
    fun x _ => hout x⟩, hs⟩
  · intro n hn
    rw [hcur] at hn
    rw [hmem]; exact h.curFresh n hn
  · intro n hn b hb
    rw [hcur] at hn
    rw [hstore] at hb
    exact (hmem b).mpr (h.curReq n hn b hb)
  · intro x hx
    rw [hout]; exact h.consOut x ((hmem x).mp hx)
  · intro x hx hxq
    have hx' := (hmem x).mp hx
    have hf : Fresh body fs s x := by
      rcases hqc x hxq with h1 | ⟨u, c, stp, h1, h2⟩
      · exact h.qFresh x hx' h1
      · rw [hacc x hx' x (.inl rfl) u c stp h1] at h2; cases h2
    exact hf.transport st.le (fun d hd => (hmem d).mpr hd) (fun d _ _ => hout d) (hout x)
  · intro w hwc y hy
    rw [hstore] at hy
    have hwc' := (hmem w).mp hwc
    refine (h.cone w hwc' y hy).transport (fun b u c stp hmm => by rw [← hstore]; exact hmm) ?_
      (fun d hd => (hmem d).mpr hd) (fun d _ => hout d)
    intro dst hyd hdq
    rw [hstore] at hyd
    rcases hqc dst hdq with h1 | ⟨u, c, stp, h1, h2⟩
    · exact h1
    · rw [hacc w hwc' dst (hy.tail hyd) u c stp h1] at h2; cases h2

end Mixed
end PieModel
