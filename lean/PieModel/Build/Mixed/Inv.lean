/-
`Faithful` over mixed histories: the weak session invariant `MInv` (no claim about the
`consistent` set, the queue or the resource state: only `SessWF`, `Faithful` and "the executing
task has no output"), the step relation `MStep`, and the session primitives as `MStep`s with
their exact effect on the outgoing edges of the executing task.

This is `Build/Sound/{Inv,Prims,Outcome}.lean` with the soundness parts (`CSound`, `DepCur`)
removed; the relations `Same`, `Prot`, `ProtR`, `FaithfulAt`, `EdgeUpd`, `RunInv` of the sound
development are reused as they are.
-/
import PieModel.Build.Sound.Outcome
import PieModel.Build.SessWFBottomUp

namespace PieModel
namespace Mixed

variable (sem : Sem) (body : Nat → Prog) (fs : List (Nat × Int))

/-- The weak session invariant, for the (constant) resource state `fs` of the session.
Nothing is assumed about `consistent` and `queue` beyond `SessWF`. -/
structure MInv (s : Sess) : Prop where
  wf : SessWF s
  fsEq : s.fs = fs
  faithful : Faithful sem body s.store
  /-- the executing task has no output -/
  curFree : ∀ n, s.cur = some n → s.store.taskOutput n = none

/-- `s'` is a later state of the session: invariant kept, no node is lost. -/
structure MStep (s s' : Sess) : Prop where
  inv : MInv sem body fs s'
  le : s.store.Le s'.store

variable {sem body fs}

theorem MStep.refl {s : Sess} (h : MInv sem body fs s) : MStep sem body fs s s :=
  ⟨h, Store.Le.refl _⟩

theorem MStep.trans {s s' s'' : Sess} (h₁ : MStep sem body fs s s') (h₂ : MStep sem body fs s' s'') :
    MStep sem body fs s s'' := ⟨h₂.inv, h₁.le.trans h₂.le⟩

/-- The generic store step: every node keeps its record, or satisfies its faithfulness claim
afterwards (e.g. because it has no output). -/
theorem MInv.step {s s' : Sess} (h : MInv sem body fs s) (hwf : SessWF s') (hfs : s'.fs = s.fs)
    (hle : s.store.Le s'.store)
    (hmod : ∀ x, Same s s' x ∨ FaithfulAt sem body s'.store x)
    (hcur : ∀ n, s'.cur = some n → s'.store.taskOutput n = none) : MStep sem body fs s s' := by
  refine ⟨⟨hwf, hfs.trans h.fsEq, ?_, hcur⟩, hle⟩
  intro n t v ht hv
  rcases hmod n with h1 | h1
  · rw [h1.1] at hv
    obtain ⟨t0, ht0⟩ := Store.taskOf_of_output hv
    have := hle.task _ _ ht0
    rw [ht] at this; cases this
    rw [h1.deps]
    exact h.faithful n t v ht0 hv
  · exact h1 t v ht hv

/-- A store step that keeps `fs`, `cur`, `queue`. -/
theorem MInv.storeStep {s s' : Sess} (h : MInv sem body fs s) (hfs : s'.fs = s.fs)
    (hcur : s'.cur = s.cur) (hq : s'.queue = s.queue)
    (hw : s'.store.WF) (hle : s.store.Le s'.store)
    (hmod : ∀ x, Same s s' x ∨ FaithfulAt sem body s'.store x)
    (hcf : ∀ n, s.cur = some n → s'.store.taskOutput n = none) : MStep sem body fs s s' :=
  h.step (h.wf.ext_of_store hcur hq hw hle).wf hfs hle hmod (fun n hn => hcf n (hcur ▸ hn))

/-- A step that changes neither store, nor `fs`, `cur`, `queue`. -/
theorem MInv.same {s s' : Sess} (h : MInv sem body fs s) (h1 : s'.store = s.store)
    (h2 : s'.fs = s.fs) (h3 : s'.cur = s.cur) (h5 : s'.queue = s.queue) :
    MStep sem body fs s s' := by
  refine h.step (h.wf.same h1 h3 h5).wf h2 (h1 ▸ Store.Le.refl _)
    (fun x => .inl ⟨by rw [h1], by rw [h1]⟩) ?_
  intro n hn
  rw [h1]; exact h.curFree n (h3 ▸ hn)

/-- A step that keeps store, `fs`, `cur` and replaces the queue by task nodes. -/
theorem MInv.setQueue {s s' : Sess} (h : MInv sem body fs s) (h1 : s'.store = s.store)
    (h2 : s'.fs = s.fs) (h3 : s'.cur = s.cur) (hwf : SessWF s') : MStep sem body fs s s' := by
  refine h.step hwf h2 (h1 ▸ Store.Le.refl _) (fun x => .inl ⟨by rw [h1], by rw [h1]⟩) ?_
  intro n hn
  rw [h1]; exact h.curFree n (h3 ▸ hn)

theorem MInv.emit {s : Sess} (h : MInv sem body fs s) (e : Ev) : MStep sem body fs s (s.emit e) :=
  h.same rfl rfl rfl rfl

theorem MStep.emit {s s' : Sess} (h : MStep sem body fs s s') (e : Ev) :
    MStep sem body fs s (s'.emit e) := h.trans (h.inv.emit e)

theorem MInv.mark {s : Sess} (h : MInv sem body fs s) (m : Nat) :
    MStep sem body fs s (s.markConsistent m) :=
  h.same (by simp) (by simp) (by simp) (by simp)

theorem MStep.mark {s s' : Sess} (h : MStep sem body fs s s') (m : Nat) :
    MStep sem body fs s (s'.markConsistent m) := h.trans (h.inv.mark m)

theorem same_markConsistent (s : Sess) (m x : Nat) : Same s (s.markConsistent m) x :=
  ⟨by simp, by simp⟩

/-! ### node creation -/

theorem MInv.getTask {s s' : Sess} (h : MInv sem body fs s) (t : Nat)
    (hst : s'.store = (s.store.getOrCreateTaskNode t).1) (hfs : s'.fs = s.fs)
    (hcur : s'.cur = s.cur) (hq : s'.queue = s.queue) :
    MStep sem body fs s s' ∧ ∀ x, Same s s' x := by
  have hs : ∀ x, Same s s' x := fun x =>
    ⟨by rw [hst, Store.taskOutput_getOrCreateTaskNode h.wf.store],
     by rw [hst, Store.outgoingEdges_getOrCreateTaskNode h.wf.store]⟩
  refine ⟨h.storeStep hfs hcur hq (hst ▸ h.wf.store.getOrCreateTaskNode t)
    (hst ▸ Store.le_getOrCreateTaskNode h.wf.store t) (fun x => .inl (hs x)) ?_, hs⟩
  intro n hn
  rw [(hs n).1]; exact h.curFree n hn

theorem MInv.getRes {s s' : Sess} (h : MInv sem body fs s) (r : Nat)
    (hst : s'.store = (s.store.getOrCreateResNode r).1) (hfs : s'.fs = s.fs)
    (hcur : s'.cur = s.cur) (hq : s'.queue = s.queue) :
    MStep sem body fs s s' ∧ ∀ x, Same s s' x := by
  have hs : ∀ x, Same s s' x := fun x =>
    ⟨by rw [hst, Store.taskOutput_getOrCreateResNode h.wf.store],
     by rw [hst, Store.outgoingEdges_getOrCreateResNode h.wf.store]⟩
  refine ⟨h.storeStep hfs hcur hq (hst ▸ h.wf.store.getOrCreateResNode r)
    (hst ▸ Store.le_getOrCreateResNode h.wf.store r) (fun x => .inl (hs x)) ?_, hs⟩
  intro n hn
  rw [(hs n).1]; exact h.curFree n hn

/-! ### edges of the executing task -/

theorem MInv.addDep {s s' : Sess} (h : MInv sem body fs s) {n dst : Nat} {d : Dep}
    (hc : s.cur = some n) (hd : s.store.DepOK d dst)
    (hst : s'.store = (s.store.addDependency n dst d).1) (hfs : s'.fs = s.fs)
    (hcur : s'.cur = s.cur) (hq : s'.queue = s.queue) :
    MStep sem body fs s s' ∧ (∀ x, x ≠ n → Same s s' x) ∧
      ∀ x, s'.store.taskOutput x = s.store.taskOutput x := by
  have ho : ∀ x, s'.store.taskOutput x = s.store.taskOutput x := fun x => by
    rw [hst, Store.taskOutput_addDependency h.wf.store]
  have hs : ∀ x, x ≠ n → Same s s' x := fun x hx =>
    ⟨ho x, by rw [hst, Store.outgoingEdges_addDependency_of_ne h.wf.store _ _ _ hx]⟩
  refine ⟨h.storeStep hfs hcur hq (hst ▸ h.wf.store.addDependency (h.wf.cur n hc) hd)
    (hst ▸ Store.le_addDependency h.wf.store _ _ _) ?_ ?_, hs, ho⟩
  · intro x
    by_cases hx : x = n
    · subst hx
      exact .inr (.of_none (by rw [ho]; exact h.curFree x hc))
    · exact .inl (hs x hx)
  · intro n' hn'; rw [ho]; exact h.curFree n' hn'

theorem MInv.setDep {s s' : Sess} (h : MInv sem body fs s) {n dst : Nat} {d : Dep}
    (hc : s.cur = some n) (hd : s.store.DepOK d dst)
    (hst : s.store.setDependency n dst d = some s'.store) (hfs : s'.fs = s.fs)
    (hcur : s'.cur = s.cur) (hq : s'.queue = s.queue) :
    MStep sem body fs s s' ∧ (∀ x, x ≠ n → Same s s' x) ∧
      ∀ x, s'.store.taskOutput x = s.store.taskOutput x := by
  have ho : ∀ x, s'.store.taskOutput x = s.store.taskOutput x := fun x =>
    Store.taskOutput_setDependency hst x
  have hs : ∀ x, x ≠ n → Same s s' x := fun x hx =>
    ⟨ho x, Store.outgoingEdges_setDependency_of_ne hst hx⟩
  refine ⟨h.storeStep hfs hcur hq (Store.WF.setDependency hst h.wf.store hd)
    (Store.le_setDependency hst) ?_ ?_, hs, ho⟩
  · intro x
    by_cases hx : x = n
    · subst hx
      exact .inr (.of_none (by rw [ho]; exact h.curFree x hc))
    · exact .inl (hs x hx)
  · intro n' hn'; rw [ho]; exact h.curFree n' hn'

/-! ### `reserveRequire` / `updateRequire` as steps -/

theorem reserveRequire_spec {s : Sess} (h : MInv sem body fs s) {mu : Nat}
    (hd : ∃ t, s.store.taskOf mu = some t) {s' : Sess} {res : Res Unit}
    (heq : reserveRequire s mu = (s', res)) :
    MStep sem body fs s s' ∧ s'.cur = s.cur ∧ s'.consistent = s.consistent ∧
    s'.queue = s.queue ∧
    (∀ x, s.cur ≠ some x → Same s s' x) ∧
    (res = .ok () → ∀ n, s.cur = some n → s'.store.g.HasEdge n mu ∧
      (((∃ d0, (mu, d0) ∈ s.store.g.outgoingEdges n) ∧
          s'.store.g.outgoingEdges n = s.store.g.outgoingEdges n) ∨
       ((∀ d0, (mu, d0) ∉ s.store.g.outgoingEdges n) ∧
          s'.store.g.outgoingEdges n = s.store.g.outgoingEdges n ++ [(mu, .reserved)]))) := by
  rcases Option.eq_none_or_eq_some s.cur with hc | ⟨n, hc⟩
  · rw [reserveRequire_none hc] at heq
    obtain ⟨rfl, rfl⟩ := Prod.mk.inj heq
    exact ⟨MStep.refl h, rfl, rfl, rfl, fun _ _ => Same.refl _ _,
      fun _ n hn => by rw [hc] at hn; cases hn⟩
  · obtain ⟨h1, h2⟩ := reserveRequire_some hc mu
    rw [heq] at h1 h2
    simp only at h1 h2
    subst h1
    obtain ⟨st, hs, _⟩ := h.addDep (s' := { s with store := (s.store.addDependency n mu .reserved).1 })
      (d := .reserved) hc hd rfl rfl rfl rfl
    refine ⟨st, rfl, rfl, rfl, fun x hx => hs x (fun hxn => hx (by rw [hxn]; exact hc)), ?_⟩
    intro hres n' hn'
    rw [hc] at hn'; cases hn'
    have hv := h2.mp hres
    rcases Store.addDependency_ok_cases h.wf.store n mu .reserved hv with ⟨h3, h4⟩ | ⟨h3, h4⟩
    · refine ⟨?_, .inl ⟨h3, ?_⟩⟩
      · show (s.store.addDependency n mu .reserved).1.g.HasEdge n mu
        rw [h4]; exact (Store.hasEdge_iff_mem_oe h.wf.store _ _).mpr h3
      · show (s.store.addDependency n mu .reserved).1.g.outgoingEdges n = _
        rw [h4]
    · refine ⟨?_, .inr ⟨h3, h4⟩⟩
      show (s.store.addDependency n mu .reserved).1.g.HasEdge n mu
      rw [Store.hasEdge_iff_mem_oe st.inv.wf.store]
      exact ⟨.reserved, by show _ ∈ (s.store.addDependency n mu .reserved).1.g.outgoingEdges n; rw [h4]; simp⟩

theorem updateRequire_spec {s : Sess} (h : MInv sem body fs s) {mu u : Nat}
    (hd : s.store.taskOf mu = some u) (c : Nat) (stamp : Stamp) {s' : Sess} {res : Res Unit}
    (heq : updateRequire s mu u c stamp = (s', res)) :
    MStep sem body fs s s' ∧ s'.cur = s.cur ∧ s'.consistent = s.consistent ∧
    s'.queue = s.queue ∧
    (∀ x, s.cur ≠ some x → Same s s' x) ∧
    (∀ x, s'.store.taskOutput x = s.store.taskOutput x) ∧
    (res = .ok () → ∀ n, s.cur = some n → s'.store.g.outgoingEdges n =
      (s.store.g.outgoingEdges n).map (fun p => if p.1 = mu then (p.1, .require u c stamp) else p)) := by
  rcases Option.eq_none_or_eq_some s.cur with hc | ⟨n, hc⟩
  · rw [updateRequire_none hc] at heq
    obtain ⟨rfl, rfl⟩ := Prod.mk.inj heq
    exact ⟨MStep.refl h, rfl, rfl, rfl, fun _ _ => Same.refl _ _, fun _ => rfl,
      fun _ n hn => by rw [hc] at hn; cases hn⟩
  · rw [updateRequire_some hc] at heq
    cases hsd : s.store.setDependency n mu (.require u c stamp) with
    | none =>
      rw [hsd] at heq
      obtain ⟨rfl, rfl⟩ := Prod.mk.inj heq
      exact ⟨MStep.refl h, rfl, rfl, rfl, fun _ _ => Same.refl _ _, fun _ => rfl,
        fun hh => by cases hh⟩
    | some st' =>
      rw [hsd] at heq
      obtain ⟨rfl, rfl⟩ := Prod.mk.inj heq
      obtain ⟨st, hs, ho⟩ := h.setDep (s' := { s with store := st' }) (d := .require u c stamp) hc
        (by simpa using hd) hsd rfl rfl rfl
      refine ⟨st, rfl, rfl, rfl, fun x hx => hs x (fun hxn => hx (by rw [hxn]; exact hc)), ho, ?_⟩
      intro _ n' hn'
      rw [hc] at hn'; cases hn'
      show st'.g.outgoingEdges n = _
      rw [Store.outgoingEdges_setDependency hsd, if_pos rfl]

/-! ### `doRead` -/

/-- `doRead` inside a task, for a total stamper: a session step that touches only the reading
task's edges; on `.ok` it returns the content and the read dependency is recorded (first
insertion wins). -/
theorem doRead_spec (hst : StampTotal sem) {s : Sess} (h : MInv sem body fs s) {n : Nat}
    (hc : s.cur = some n) (r c : Nat) {s' : Sess} {res : Res (Except Int (Option Int))}
    (hF : doRead sem s r c = (s', res)) :
    MStep sem body fs s s' ∧ s'.cur = s.cur ∧ s'.consistent = s.consistent ∧
    s'.queue = s.queue ∧
    (∀ x, x ≠ n → Same s s' x) ∧
    ∀ a, res = .ok a → a = .ok (aget fs r) ∧ ∃ dst stamp, sem.rstamp c (aget fs r) = .ok stamp ∧
      s'.store.resOf dst = some r ∧
      (((∃ d0, (dst, d0) ∈ s.store.g.outgoingEdges n) ∧
          s'.store.g.outgoingEdges n = s.store.g.outgoingEdges n) ∨
       ((∀ d0, (dst, d0) ∉ s.store.g.outgoingEdges n) ∧
          s'.store.g.outgoingEdges n = s.store.g.outgoingEdges n ++ [(dst, .read r c stamp)])) := by
  have hn : s.store.getOrCreateResNode r =
    ((s.store.getOrCreateResNode r).1, (s.store.getOrCreateResNode r).2) := rfl
  generalize hst' : (s.store.getOrCreateResNode r).1 = st at hn
  generalize hdst : (s.store.getOrCreateResNode r).2 = dst at hn
  rw [doRead_eq sem s r c n st dst hc hn] at hF
  have hcont : s.content r = aget fs r := by rw [← h.fsEq]; rfl
  obtain ⟨hb, hbs⟩ := h.getRes (s' := { s with store := st }) r hst'.symm rfl rfl rfl
  have hres : st.resOf dst = some r := by
    rw [← hst', ← hdst]; exact Store.resOf_getOrCreateResNode_self h.wf.store r
  by_cases hh : readHidden st n dst = true
  · rw [if_pos hh] at hF
    obtain ⟨rfl, rfl⟩ := Prod.mk.inj hF
    obtain ⟨hb', hbs'⟩ := h.getRes
      (s' := { s with store := st, trace := s.trace ++ [.readStart r c] }) r hst'.symm rfl rfl rfl
    exact ⟨hb', rfl, rfl, rfl, fun x _ => hbs' x, fun a ha => by cases ha⟩
  · rw [if_neg hh] at hF
    obtain ⟨stamp, hs⟩ := hst c (s.content r)
    rw [hs] at hF
    simp only at hF
    obtain ⟨t, ht⟩ := hb.inv.wf.cur n hc
    have hv := Store.addDependency_to_res_ok hb.inv.wf.store n dst (.read r c stamp) ht hres
    cases hvv : st.addDependency n dst (.read r c stamp) with
    | mk st' v =>
      rw [hvv] at hF hv
      simp only at hv; subst hv
      simp only at hF
      obtain ⟨rfl, rfl⟩ := Prod.mk.inj hF
      have hst'' : st' = (st.addDependency n dst (.read r c stamp)).1 := by rw [hvv]
      obtain ⟨ha, has, hao⟩ := hb.inv.addDep (s := { s with store := st })
        (s' := { s with store := st',
                        trace := s.trace ++ [.readStart r c, .readEnd r c stamp] })
        (n := n) (dst := dst) (d := .read r c stamp) hc (by simpa using hres) hst'' rfl rfl rfl
      refine ⟨hb.trans ha, rfl, rfl, rfl, fun x hx => (hbs x).trans (has x hx), ?_⟩
      intro a ha'
      cases ha'
      refine ⟨by rw [hcont], dst, stamp, by rw [← hcont]; exact hs, ?_, ?_⟩
      · show st'.resOf dst = some r
        rw [hst'', Store.resOf_addDependency hb.inv.wf.store]; exact hres
      · have hoe : st.g.outgoingEdges n = s.store.g.outgoingEdges n := (hbs n).2
        have hvok : (st.addDependency n dst (.read r c stamp)).2 = .ok := by rw [hvv]
        rcases Store.addDependency_ok_cases hb.inv.wf.store n dst (.read r c stamp) hvok with
          ⟨h1, h2⟩ | ⟨h1, h2⟩
        · left
          rw [← hoe]
          refine ⟨h1, ?_⟩
          show st'.g.outgoingEdges n = _
          rw [hst'', h2]
        · right
          rw [← hoe]
          refine ⟨h1, ?_⟩
          show st'.g.outgoingEdges n = _
          rw [hst'', h2]

/-! ### start and end of an execution -/

theorem MInv.startExec {s s' : Sess} (h : MInv sem body fs s) {m t : Nat}
    (ht : s.store.taskOf m = some t)
    (hst : s'.store = s.store.resetTask m) (hcur : s'.cur = some m) (hfs : s'.fs = s.fs)
    (hq : s'.queue = s.queue) :
    MStep sem body fs s s' ∧ (∀ x, x ≠ m → Same s s' x) ∧ s'.store.g.outgoingEdges m = [] := by
  have hw := h.wf.store
  have hwf : SessWF s' := by
    refine ⟨hst ▸ hw.resetTask m, ?_, ?_⟩
    · intro n hn
      rw [hcur] at hn; cases hn
      exact ⟨t, by rw [hst, Store.taskOf_resetTask hw]; exact ht⟩
    · intro n hn
      rw [hq] at hn
      obtain ⟨t', ht'⟩ := h.wf.queue n hn
      exact ⟨t', by rw [hst, Store.taskOf_resetTask hw]; exact ht'⟩
  have ho : s'.store.taskOutput m = none := by rw [hst, Store.taskOutput_resetTask hw]; simp
  have hs : ∀ x, x ≠ m → Same s s' x := fun x hx =>
    ⟨by rw [hst, Store.taskOutput_resetTask hw, if_neg hx],
     by rw [hst, Store.outgoingEdges_resetTask hw, if_neg hx]⟩
  refine ⟨h.step hwf hfs (hst ▸ Store.le_resetTask hw m) ?_ ?_, hs, ?_⟩
  · intro x
    by_cases hx : x = m
    · subst hx; exact .inr (.of_none ho)
    · exact .inl (hs x hx)
  · intro n hn
    rw [hcur] at hn; cases hn; exact ho
  · rw [hst, Store.outgoingEdges_resetTask hw]; simp

theorem MInv.endExec {s s' : Sess} (h : MInv sem body fs s) {m t : Nat} {o : Int}
    (ht : s.store.taskOf m = some t)
    (hrep : Replay sem (body t) (s.store.depsFrom m) o) (hres : Dep.reserved ∉ s.store.depsFrom m)
    (hst : s'.store = s.store.setTaskOutput m o) (hfs : s'.fs = s.fs)
    (hwf : SessWF s')
    (hcf : ∀ n, s'.cur = some n → n ≠ m ∧ s.store.taskOutput n = none) :
    MStep sem body fs s s' ∧ (∀ x, x ≠ m → Same s s' x) ∧ s'.store.taskOutput m = some o ∧
      s'.store.g.outgoingEdges m = s.store.g.outgoingEdges m := by
  have hs : ∀ x, x ≠ m → Same s s' x := fun x hx =>
    ⟨by rw [hst, Store.taskOutput_setTaskOutput_of_ne hx], by rw [hst]; simp⟩
  refine ⟨h.step hwf hfs (hst ▸ Store.le_setTaskOutput _ m o) ?_ ?_, hs,
    by rw [hst]; exact Store.taskOutput_setTaskOutput_self ht o, by rw [hst]; simp⟩
  · intro x
    by_cases hx : x = m
    · subst hx
      refine .inr ?_
      intro t' v ht' hv
      rw [hst] at ht' hv ⊢
      simp only [Store.taskOf_setTaskOutput] at ht'
      rw [ht] at ht'; cases ht'
      rw [Store.taskOutput_setTaskOutput_self ht] at hv; cases hv
      simp only [Store.depsFrom_setTaskOutput]
      exact ⟨hrep, hres⟩
    · exact .inl (hs x hx)
  · intro n hn
    obtain ⟨h1, h2⟩ := hcf n hn
    rw [(hs n h1).1]; exact h2

/-! ### results of calls -/

/-- Result of a call from state `s`: the store is faithful whatever the result; if the call
returns, the session advanced by an `MStep` and `Q` holds. -/
structure Outcome (sem : Sem) (body : Nat → Prog) (fs : List (Nat × Int)) {α : Type} (s : Sess)
    (F : Sess × Res α) (Q : Sess → α → Prop) : Prop where
  faithful : Faithful sem body F.1.store
  ok : ∀ s' v, F = (s', .ok v) → MStep sem body fs s s' ∧ Q s' v

namespace Outcome
variable {α : Type} {s s₁ : Sess} {F : Sess × Res α} {Q Q₁ : Sess → α → Prop}

theorem abort {a : Abort} (h : Faithful sem body s₁.store) :
    Outcome sem body fs s (s₁, (.abort a : Res α)) Q :=
  ⟨h, fun _ _ heq => by cases heq⟩

theorem ret {v : α} (st : MStep sem body fs s s₁) (hq : Q s₁ v) :
    Outcome sem body fs s (s₁, .ok v) Q :=
  ⟨st.inv.faithful, fun _ _ heq => by cases heq; exact ⟨st, hq⟩⟩

theorem faithful_of {r : Res α} (o : Outcome sem body fs s F Q) (heq : F = (s₁, r)) :
    Faithful sem body s₁.store := by
  have := o.faithful; rw [heq] at this; exact this

theorem trans (o : Outcome sem body fs s₁ F Q₁) (st : MStep sem body fs s s₁)
    (hq : ∀ s' v, MStep sem body fs s₁ s' → Q₁ s' v → Q s' v) : Outcome sem body fs s F Q :=
  ⟨o.faithful, fun s' v heq => ⟨st.trans (o.ok s' v heq).1, hq s' v (o.ok s' v heq).1 (o.ok s' v heq).2⟩⟩

end Outcome

end Mixed
end PieModel
