/-
Bottom-up builds with reflexive output checkers: `buExecuteScheduled`, `updateAffectedTasks`,
`bottomUpBuild` from a session in which nothing is marked consistent yet (a new session) leave a
faithful store, whatever the result — no `OneRequire` hypothesis.
-/
import PieModel.Build.Mixed.RBottomUp
import PieModel.Build.Mixed.Session

namespace PieModel
namespace Mixed

variable {sem : Sem} {body : Nat → Prog}

/-- With an empty `consistent` set and outside of an execution, `RInv` is `MInv`. -/
theorem RInv.of_nil {fs : List (Nat × Int)} {s : Sess} (h : MInv sem body fs s)
    (hc : s.consistent = []) (hcur : s.cur = none) : RInv sem body fs s :=
  ⟨h, fun n hn => (by rw [hcur] at hn; cases hn), fun n hn => (by rw [hcur] at hn; cases hn),
    fun x hx => (by rw [hc] at hx; cases hx), fun x hx => (by rw [hc] at hx; cases hx),
    fun x hx => (by rw [hc] at hx; cases hx)⟩

section
variable (hst : StampTotal sem) (hrefl : OReflexive sem) (hwfb : WriteFreeBody body)
  (hone : ∀ t, OneChecker (body t))
include hst hrefl hwfb hone

/-- `execute_scheduled` outside of any execution. -/
theorem faithful_buExecuteScheduledR {fs : List (Nat × Int)} (f : Nat) : ∀ (s : Sess),
    RInv sem body fs s → s.cur = none →
    Faithful sem body (buExecuteScheduled sem body f s).1.store := by
  induction f with
  | zero =>
    intro s h _
    unfold buExecuteScheduled
    exact h.faithful
  | succ f ih =>
    intro s h hc
    unfold buExecuteScheduled
    split
    next hq => exact h.faithful
    next n q hq =>
      have IH := (buR (fs := fs) hst hrefl hwfb hone f).eas s q n h (queuePop_mem hq)
        (fun _ hm => queuePop_rest_subset hq hm) (fun a ha => by rw [hc] at ha; cases ha)
      split
      next s2 a heq => exact IH.faithful_of heq
      next s2 o heq =>
        obtain ⟨st2, _⟩ := IH.ok _ _ heq
        have hc2 : s2.cur = none := by
          rw [(bu_cur sem body f).2.2.2.1 { s with queue := q } n s2 o heq]; exact hc
        exact ih s2 st2.inv hc2

/-- `BottomUpBuild::update_affected_tasks` in a session in which nothing is consistent yet. -/
theorem faithful_updateAffectedTasksR (f : Nat) (s : Sess) (hwf : SessWF s)
    (hf : Faithful sem body s.store) (hcons : s.consistent = []) :
    Faithful sem body (updateAffectedTasks sem body f s).1.store := by
  unfold updateAffectedTasks; simp only []
  have h0 : MInv sem body s.fs (({ s with cur := none } : Sess).emit .buildStart) :=
    ⟨(hwf.clearCur.emit .buildStart).wf, rfl, hf, fun n hn => (nomatch hn)⟩
  have h1 := faithful_buExecuteScheduledR hst hrefl hwfb hone f _
    (RInv.of_nil h0 hcons rfl) rfl
  split
  next s2 a heq => rw [heq] at h1; exact h1
  next s2 heq => rw [heq] at h1; exact h1

/-- A whole bottom-up build in a session in which nothing is consistent yet, for an arbitrary
list of "changed" resources. -/
theorem faithful_bottomUpBuildR (f : Nat) (s : Sess) (changed : List Nat) (hwf : SessWF s)
    (hf : Faithful sem body s.store) (hcons : s.consistent = [])
    (hcf : ∀ n, s.cur = some n → s.store.taskOutput n = none) :
    Faithful sem body (bottomUpBuild sem body f s changed).1.store := by
  unfold bottomUpBuild; simp only []
  have key : ∀ (l : List Nat) (s : Sess), MInv sem body s.fs s → s.consistent = [] →
      MInv sem body s.fs (l.foldl (fun s r => scheduleAffectedBy sem s r) s) ∧
        (l.foldl (fun s r => scheduleAffectedBy sem s r) s).consistent = [] := by
    intro l
    induction l with
    | nil => intro s h hc; exact ⟨h, hc⟩
    | cons r l ih =>
      intro s h hc
      have h1 := (h.scheduleAffectedBy r).1.inv
      have hfs : (scheduleAffectedBy sem s r).fs = s.fs := h1.fsEq
      have hc1 : (scheduleAffectedBy sem s r).consistent = [] := by
        rw [(scheduleAffectedBy_core sem s r).2.2]; exact hc
      obtain ⟨h2, h3⟩ := ih _ (hfs ▸ h1) hc1
      exact ⟨by rw [← hfs]; exact h2, h3⟩
  have h0 : MInv sem body s.fs { s with queue := [] } :=
    ⟨(hwf.subQueue (q := []) (fun _ hm => by cases hm)).wf, rfl, hf, hcf⟩
  obtain ⟨h1, h2⟩ := key changed { s with queue := [] } h0 hcons
  exact faithful_updateAffectedTasksR hst hrefl hwfb hone f _ h1.wf h1.faithful h2

/-- Bottom-up builds on new sessions preserve `Faithful`, for reflexive output checkers. -/
theorem buPreserves_reflexive : BUPreserves sem body :=
  fun fuel p changed hw hf =>
    faithful_bottomUpBuildR hst hrefl hwfb hone fuel p.newSession changed (C19_newSession_wf p hw)
      hf rfl (fun _ hn => (nomatch hn))

end

end Mixed
end PieModel
