/-
The counterexample to "`Faithful` / C01 hold over ALL mixed histories under `StampTotal`,
`WriteFreeBody`, `Respects`, `OneChecker`": a bottom-up build can execute a task AGAIN after an
executing task has already required it, so the two `require`s of the same task made by one
execution return different outputs; the single edge keeps the second stamp, the output was
computed from both.

Ingredients (all within the hypotheses of `C01_sources`):
* checker 9 = an output checker that is never consistent (`ocheck = false`; `Respects` holds
  vacuously for it) — it makes the re-execution of task 1 schedule task 2 although the output
  of task 1 did not change;
* aborted sessions (task panics) that leave task 1 with a partial dependency list and no output,
  and task 2 without output;
* a bottom-up build told an incomplete list of changed resources (2 is missing);
* a task (5) that panics, so that the build aborts before task 0 is executed a second time.

Tasks: 0 = `A` (requires 3 twice), 1 = `U`, 2 = `V` (requires 1 with checker 9), 3 = `Z`
(requires 2), 4 = `Y` (requires 3), 5 = `P`.
-/
import PieModel.Props.C01

namespace PieModel
namespace MixedCex

/-- `totalSem` plus output checker 9 = "never consistent" (stamp `unit`). -/
def cexSem : Sem :=
  { totalSem with ocheck := fun c o s => if c = 9 then false else stdOCheck c o s }

def cexBody : Nat → Prog
  | 0 => .read 3 0 (fun x => match x with
      | .ok (some 0) => .panic
      | _ => .req 3 0 (fun z1 => .req 2 4 (fun _ => .req 4 4 (fun _ =>
          .req 3 0 (fun z2 => .ret (z1 * 10000 + z2))))))
  | 1 => .read 1 0 (fun x => match x with
      | .ok (some 0) => .panic
      | .ok (some v) => .ret v
      | _ => .ret 0)
  | 2 => .read 2 0 (fun x => match x with
      | .ok (some 0) => .panic
      | _ => .req 1 9 (fun u => .ret u))
  | 3 => .req 2 0 (fun v => .ret (v + 1000))
  | 4 => .req 3 0 (fun z => .ret (z + 1))
  | 5 => .read 4 0 (fun x => match x with
      | .ok (some 0) => .panic
      | .ok (some 1) => .panic
      | _ => .ret 0)
  | _ => .ret 0

/-- A full build of task 4 (creates 4, 3, 2, 1); sessions in which 2, 1, 5, 0 panic (0 and 5 are
created there); external changes; a bottom-up build that is told about resources 1, 3, 4 but not
about 2, and aborts (task 5 panics). -/
def cexHist : List HStep :=
  [.change 1 (some 5), .change 2 (some 3), .change 3 (some 0), .change 4 (some 0),
   .session [4],
   .change 2 (some 0), .session [2],
   .change 1 (some 0), .session [1],
   .session [5], .session [0],
   .change 1 (some 7), .change 2 (some 3), .change 3 (some 1), .change 4 (some 1),
   .bottomUp [1, 3, 4] []]

/-- The resource state after the history. -/
def cexFs : List (Nat × Int) := [(1, 7), (2, 3), (3, 1), (4, 1)]

/-! ### the hypotheses of C01 hold -/

theorem cexSem_stampTotal : StampTotal cexSem := fun _ _ => ⟨_, rfl⟩

theorem cexSem_ocheck0 {o o' : Int} (h : cexSem.ocheck 0 o' (cexSem.ostamp 0 o) = true) :
    o' = o := by
  simpa [cexSem, totalSem, stdSem, stdOCheck, stdOStamp] using h

theorem cexSem_ocheck9 {o o' : Int} : cexSem.ocheck 9 o' (cexSem.ostamp 9 o) = false := by
  simp [cexSem]

theorem cexSem_rcheck0 {v v' : Option Int} {s : Stamp} (h1 : cexSem.rstamp 0 v = .ok s)
    (h2 : cexSem.rcheck 0 v' s = .ok true) : v' = v := totalSem_rcheck0 h1 h2

theorem cexBody_writeFree : WriteFreeBody cexBody := by
  intro t
  match t with
  | 0 =>
    refine .read _ _ _ (fun x => ?_)
    split
    · exact .panic
    · exact .req _ _ _ (fun _ => .req _ _ _ (fun _ => .req _ _ _ (fun _ => .req _ _ _ (fun _ => .ret _))))
  | 1 =>
    refine .read _ _ _ (fun x => ?_)
    split
    · exact .panic
    · exact .ret _
    · exact .ret _
  | 2 =>
    refine .read _ _ _ (fun x => ?_)
    split
    · exact .panic
    · exact .req _ _ _ (fun _ => .ret _)
  | 3 => exact .req _ _ _ (fun _ => .ret _)
  | 4 => exact .req _ _ _ (fun _ => .ret _)
  | 5 =>
    refine .read _ _ _ (fun x => ?_)
    split
    · exact .panic
    · exact .panic
    · exact .ret _
  | _ + 6 => exact .ret _

theorem cexBody_respects : ∀ t, Respects cexSem (cexBody t) := by
  intro t
  match t with
  | 0 =>
    refine ⟨fun v v' s h1 h2 => by rw [cexSem_rcheck0 h1 h2], fun x => ?_⟩
    dsimp only
    split
    · trivial
    · refine ⟨fun o o' h => by rw [cexSem_ocheck0 h], fun z1 => ?_⟩
      refine ⟨fun _ _ _ => rfl, fun _ => ?_⟩
      refine ⟨fun _ _ _ => rfl, fun _ => ?_⟩
      exact ⟨fun o o' h => by rw [cexSem_ocheck0 h], fun _ => trivial⟩
  | 1 =>
    refine ⟨fun v v' s h1 h2 => by rw [cexSem_rcheck0 h1 h2], fun x => ?_⟩
    dsimp only
    split <;> trivial
  | 2 =>
    refine ⟨fun v v' s h1 h2 => by rw [cexSem_rcheck0 h1 h2], fun x => ?_⟩
    dsimp only
    split
    · trivial
    · exact ⟨fun o o' h => (by rw [cexSem_ocheck9] at h; cases h), fun _ => trivial⟩
  | 3 => exact ⟨fun o o' h => by rw [cexSem_ocheck0 h], fun _ => trivial⟩
  | 4 => exact ⟨fun o o' h => by rw [cexSem_ocheck0 h], fun _ => trivial⟩
  | 5 =>
    refine ⟨fun v v' s h1 h2 => by rw [cexSem_rcheck0 h1 h2], fun x => ?_⟩
    dsimp only
    split <;> trivial
  | _ + 6 => trivial

theorem cexBody_oneChecker : ∀ t, OneChecker (cexBody t) := by
  intro t
  match t with
  | 0 =>
    refine ⟨fun c' h => (nomatch h), fun x => ?_⟩
    dsimp only
    split <;> simp [OneCk]
  | 1 =>
    refine ⟨fun c' h => (nomatch h), fun x => ?_⟩
    dsimp only
    split <;> trivial
  | 2 =>
    refine ⟨fun c' h => (nomatch h), fun x => ?_⟩
    dsimp only
    split <;> simp [OneCk]
  | 3 => simp [OneChecker, cexBody, OneCk]
  | 4 => simp [OneChecker, cexBody, OneCk]
  | 5 =>
    refine ⟨fun c' h => (nomatch h), fun x => ?_⟩
    dsimp only
    split <;> trivial
  | _ + 6 => trivial

/-! ### the run -/

/-- After the history: task 0 is node 8, has the output `1005 * 10000 + 1007` (first `require` of
task 3 returned the stale 1005, the second the fresh 1007) ... -/
theorem cex_run :
    (runHistory cexSem cexBody 18 cexHist).store.taskOf 8 = some 0 ∧
    (runHistory cexSem cexBody 18 cexHist).store.taskOutput 8 = some 10051007 ∧
    (runHistory cexSem cexBody 18 cexHist).store.depsFrom 8 =
      [.read 3 0 (.optInt (some 1)), .require 3 0 (.int 1007), .require 2 4 .unit,
        .require 4 4 .unit] ∧
    (runHistory cexSem cexBody 18 cexHist).fs = cexFs := by
  with_unfolding_all decide

/-- ... and these dependencies do not replay the body of task 0 to that output: every replay
returns `1007 * 10000 + 1007`. -/
theorem cex_no_replay :
    ¬ Replay cexSem (cexBody 0)
      [.read 3 0 (.optInt (some 1)), .require 3 0 (.int 1007), .require 2 4 .unit,
        .require 4 4 .unit] 10051007 := by
  intro h
  obtain ⟨s, hs, x, hx, h⟩ := h
  simp only [List.mem_cons, Dep.read.injEq, reduceCtorEq, List.not_mem_nil, or_false, true_and] at hs
  subst hs
  have hx' : x = some 1 := by
    simpa [cexSem, totalSem, stdSem, stdRStampCore] using hx
  subst hx'
  obtain ⟨s, hs, o1, ho1, h⟩ := h
  simp only [List.mem_cons, Dep.require.injEq, reduceCtorEq, List.not_mem_nil, or_false, true_and,
    false_or, Nat.reduceEqDiff, false_and] at hs
  subst hs
  have h1 : o1 = 1007 := by
    simpa [cexSem, totalSem, stdSem, stdOStamp] using ho1
  subst h1
  obtain ⟨s, _, o2, _, h⟩ := h
  obtain ⟨s, _, o3, _, h⟩ := h
  obtain ⟨s, hs, o4, ho4, h⟩ := h
  simp only [List.mem_cons, Dep.require.injEq, reduceCtorEq, List.not_mem_nil, or_false, true_and,
    false_or, Nat.reduceEqDiff, false_and] at hs
  subst hs
  have h4 : o4 = 1007 := by
    simpa [cexSem, totalSem, stdSem, stdOStamp] using ho4
  subst h4
  exact absurd (show (1007 * 10000 + 1007 : Int) = 10051007 from h) (by decide)

/-- **The store after the history is not faithful.** -/
theorem cex_not_faithful : ¬ Faithful cexSem cexBody (runHistory cexSem cexBody 18 cexHist).store := by
  intro h
  obtain ⟨h1, h2, h3, _⟩ := cex_run
  have := (h 8 0 10051007 h1 h2).1
  rw [h3] at this
  exact cex_no_replay this

/-- The from-scratch output of task 0 on the final resource state is `1007 * 10000 + 1007`
(by `C01_sources` applied to a top-down build on a fresh `Pie`). -/
theorem cex_eval : Eval cexSem cexBody cexFs 0 10071007 :=
  C01_sources cexSem_stampTotal cexBody_writeFree cexBody_respects cexBody_oneChecker 18
    [.change 1 (some 7), .change 2 (some 3), .change 3 (some 1), .change 4 (some 1), .session [0]]
    _ _ _ (by with_unfolding_all decide)

/-- A later top-down session on the same `Pie` validates task 0 and returns the stale output. -/
theorem cex_later_session :
    (requireLog cexSem cexBody 18 (runHistory cexSem cexBody 18 cexHist).newSession [0]).2 =
      [(0, 10051007)] := by
  with_unfolding_all decide

theorem cex_not_eval : ¬ Eval cexSem cexBody cexFs 0 10051007 := by
  intro h
  have := h.det cex_eval
  exact absurd this (by decide)

end MixedCex
end PieModel
