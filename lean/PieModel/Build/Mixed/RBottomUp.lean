/-
Bottom-up builds with reflexive output checkers: the successor steps of `buMake`,
`buExecAndSchedule`, `buRequireNow`, and the joint induction `buR`.
-/
import PieModel.Build.Mixed.RRun

namespace PieModel
namespace Mixed

variable {sem : Sem} {body : Nat → Prog} {fs : List (Nat × Int)}

theorem make_succR {f : Nat} (ih : BuR sem body fs f) (s : Sess) (t node : Nat)
    (h : RInv sem body fs s) (ht : s.store.taskOf node = some t) (hcr : CurReach s node) :
    OutcomeR sem body fs s (buMake sem body (f + 1) s t node) (QMakeR sem body fs s node) := by
  unfold buMake
  split
  next hmem =>
    split
    next o ho =>
      exact .ret (RStep.refl h) ⟨ho, ⟨h.qFresh node hmem, h.cone node hmem⟩, ProtN.refl _ _⟩
    next ho => exact .abort h.faithful
  next hmem =>
    split
    next hnone =>
      have IH := ih.exec s t node h ht hcr hmem
      refine ⟨IH.faithful, fun s' v heq => ?_⟩
      obtain ⟨st, ho, _, hfr, hcone, _, hp⟩ := IH.ok s' v heq
      exact ⟨st, ho, ⟨fun _ => hfr, hcone⟩, hp⟩
    next o0 ho0 =>
      have IH := ih.now s node h hcr
      split
      next s2 a heq => exact .abort (IH.faithful_of heq)
      next s2 o heq =>
        obtain ⟨st, hp, hsome, _⟩ := IH.ok _ _ heq
        obtain ⟨ho, hc⟩ := hsome o rfl
        exact .ret st ⟨ho, ⟨st.inv.qFresh node hc, st.inv.cone node hc⟩, hp⟩
      next s2 heq =>
        obtain ⟨st, hp, _, hnone⟩ := IH.ok _ _ heq
        have hq := hnone rfl
        split
        next o ho =>
          refine .ret st ⟨ho, ⟨fun hnq => ?_, fun y hy => ?_⟩, hp⟩
          · have := hq node hnq
            rw [show inCone s2.store node node = true from inCone_iff.mpr (.inl rfl)] at this
            cases this
          · intro b u c stp hmem hbq
            exfalso
            have hw2 := st.inv.wf.store
            have hyb : RCone s2.store node b := hy.tail ⟨u, c, stp, hmem⟩
            have := hq b hbq
            rw [show inCone s2.store node b = true from inCone_iff.mpr (by
              rcases hyb.reach hw2 with h1 | h1
              · exact .inl h1
              · exact .inr ((hw2.containsTransitive_iff _ _).mpr h1))] at this
            cases this
        next ho => exact .abort st.inv.faithful

theorem eas_succR (hst : StampTotal sem) (hrefl : OReflexive sem) (hwfb : WriteFreeBody body)
    (hone : ∀ t, OneChecker (body t)) {f : Nat} (ih : BuR sem body fs f) (s : Sess)
    (q : List Nat) (node : Nat) (h : RInv sem body fs s) (hq : node ∈ s.queue)
    (hsub : ∀ m ∈ q, m ∈ s.queue) (hcr : CurReach s node) :
    OutcomeR sem body fs s (buExecAndSchedule sem body (f + 1) { s with queue := q } node)
      (QEasR s node) := by
  have hw := h.wf.store
  have hm1 : MInv sem body fs { s with queue := q } :=
    (h.m.setQueue (s' := { s with queue := q }) rfl rfl rfl (h.wf.subQueue hsub).wf).inv
  have st1 : RStep sem body fs s { s with queue := q } :=
    h.frame hm1 (Store.Le.refl _) rfl rfl hsub (fun x _ => Same.refl _ _) (fun n _ => rfl)
      (fun n _ b u c st hmem => hmem)
  have hcn : ∀ n, s.cur = some n → n ≠ node :=
    fun n hn hnn => hw.inv.acyclic _ (hnn ▸ hcr n hn)
  unfold buExecAndSchedule
  split
  · exact .abort h.faithful
  next t ht =>
    by_cases hnc : node ∈ s.consistent
    · -- re-execution of a consistent task
      obtain ⟨t', o, ht', ho, hrn⟩ := h.qFresh node hnc hq
      have htt : t' = t := by
        have h1 : s.store.taskOf node = some t := ht
        rw [ht'] at h1; exact Option.some.inj h1
      subst htt
      have hrn1 : ReplayNow fs { s with queue := q } node (body t') o :=
        ReplayNow.transport (s := s) (s' := { s with queue := q }) (Store.Le.refl _) (fun d hd => hd)
          (fun _ _ _ => rfl) hrn
      have IH := buExec_replay hst hwfb hone hm1 ht hrn1 hcn f
      split
      next s2 a heq => exact .abort (IH.faithful_of heq)
      next s2 v heq =>
        obtain ⟨st2m, hv, hcur2, hcons2, hq2, hsame2, hout2, hfr2, hedges2, hnw2⟩ := IH.ok s2 v heq
        subst hv
        have hw2 := st2m.inv.wf.store
        have st2 : RStep sem body fs s s2 :=
          h.reexec hrefl hnc st2m.inv st2m.le hcur2 hcons2 (fun m hm => hsub m (by rw [hq2] at hm; exact hm)) hsame2
            (hout2.trans ho.symm) hfr2 hedges2
        have hnc2 : node ∈ s2.consistent := hcons2 ▸ hnc
        have hnoself : ∀ y, ReqEdge s2.store y node → y ≠ node := by
          rintro y he rfl
          exact hw2.inv.acyclic _ (.edge (he.hasEdge hw2))
        have hacc : ∀ w ∈ s2.consistent, ∀ y, RCone s2.store w y → ∀ u c stp,
            (node, Dep.require u c stp) ∈ s2.store.g.outgoingEdges y →
              sem.ocheck c v stp = true := by
          intro w hwc y hy u c stp hmem
          have hyn : y ≠ node := hnoself y ⟨u, c, stp, hmem⟩
          have hmem0 : (node, Dep.require u c stp) ∈ s.store.g.outgoingEdges y := by
            rw [← (hsame2 y hyn).2]; exact hmem
          have hwc0 : w ∈ s.consistent := hcons2 ▸ hwc
          have hgd : Good sem s y := by
            rcases hy with rfl | hy
            · exact h.cone _ hwc0 _ (.inl rfl)
            · rcases cone_step (st := s.store) (P := fun b => b ∈ s.consistent)
                (fun z b hz he => he.of_same (hsame2 z hz))
                (fun b hb => by
                  obtain ⟨u', c', stp', hm'⟩ := hb
                  exact (hedges2 b u' c' stp' hm').1) hy with h1 | ⟨d, hd, hcd⟩
              · exact h.cone w hwc0 y (.inr h1)
              · exact h.cone d hd y hcd
          obtain ⟨_, o', ho', hok⟩ := hgd node u c stp hmem0 hq
          rw [ho] at ho'; cases ho'
          exact hok
        obtain ⟨st3, hs3⟩ := st2.inv.schedCons (t := t') (o := v) hnc2
          (resourcesWrittenBy_nil hnw2) hacc
        refine .ret (st2.trans st3) ⟨by rw [(hs3 node).1]; exact hout2,
          (mem_consistent_scheduleAfterExec s2 node t' v node).mpr (.inr rfl), ?_⟩
        have hp12 : ProtN s s2 node := by
          refine ⟨Prot.mod hw hsame2 (fun x hx => .inl (hcons2 ▸ hx)), fun a hr => ?_⟩
          refine reach_back hw hw2 (fun z hz => hsame2 z ?_) hr
          rintro rfl
          exact hw2.inv.acyclic _ hz
        refine hp12.trans ⟨fun x hx => ⟨hs3 x, fun hc => ?_⟩, fun a hr => ?_⟩ hw hw2
        · rcases (mem_consistent_scheduleAfterExec s2 node t' v x).mp hc with hc | hc
          · exact hc
          · exact hc ▸ hnc2
        · rw [store_scheduleAfterExec] at hr; exact hr
    · -- normal execution
      have hncp : NoConsParent { s with queue := q } node := h.noConsParent hq hnc
      have IH := ih.exec { s with queue := q } t node st1.inv ht hcr hnc
      split
      next s2 a heq => exact .abort (IH.faithful_of heq)
      next s2 o heq =>
        obtain ⟨st2, ho2, hnc2, hfr2, hcone2, hnw2, hp2⟩ := IH.ok s2 o heq
        have hw2 := st2.inv.wf.store
        have hcur2 : s2.cur = s.cur := (bu_cur sem body f).2.2.1 { s with queue := q } t node s2 o heq
        have hcn2 : ∀ n, s2.cur = some n → n ≠ node := by
          intro n hn hnn
          rw [hcur2] at hn
          exact hcn n hn hnn
        obtain ⟨st3, hs3⟩ := st2.inv.schedNormal (t := t) ho2 hcn2 hfr2 hcone2
          (resourcesWrittenBy_nil hnw2) (hncp.transport hw2 hp2)
        refine .ret (st1.trans (st2.trans st3)) ⟨by rw [(hs3 node).1]; exact ho2,
          (mem_consistent_scheduleAfterExec s2 node t o node).mpr (.inr rfl), ?_⟩
        refine ProtN.trans (s' := s2) hp2 ⟨fun x hx => ⟨hs3 x, fun hc => ?_⟩, fun a hr => ?_⟩ hw hw2
        · rcases (mem_consistent_scheduleAfterExec s2 node t o x).mp hc with hc | hc
          · exact hc
          · exfalso
            rw [hc] at hx
            exact hw2.inv.acyclic _ hx
        · rw [store_scheduleAfterExec] at hr; exact hr

theorem now_succR {f : Nat} (ih : BuR sem body fs f) (s : Sess) (src : Nat)
    (h : RInv sem body fs s) (hcr : CurReach s src) :
    OutcomeR sem body fs s (buRequireNow sem body (f + 1) s src) (QNowR s src) := by
  unfold buRequireNow
  have hw := h.wf.store
  split
  next hemp =>
    refine .ret (RStep.refl h) ⟨ProtN.refl _ _, (fun o ho => by cases ho), fun _ m hm => ?_⟩
    rw [List.isEmpty_iff] at hemp
    rw [hemp] at hm; cases hm
  · split
    next hnone =>
      exact .ret (RStep.refl h) ⟨ProtN.refl _ _, (fun o ho => by cases ho),
        fun _ => queuePopLeastFrom_eq_none.mp hnone⟩
    next m q hq =>
      have hcone : m = src ∨ s.store.g.Reach src m := by
        obtain ⟨_, _, _, _, hc, _⟩ := queuePopLeastFrom_eq_some hq
        rcases inCone_iff.mp hc with h1 | h1
        · exact .inl h1
        · exact .inr ((hw.containsTransitive_iff _ _).mp h1)
      have hcr1 : CurReach s m := by
        intro n hn
        rcases hcone with rfl | hr
        · exact hcr n hn
        · exact (hcr n hn).trans hr
      have IH := ih.eas s q m h (queuePopLeastFrom_mem hq)
        (fun _ hm => queuePopLeastFrom_rest_subset hq hm) hcr1
      split
      next s2 a heq => exact .abort (IH.faithful_of heq)
      next s2 o heq =>
        obtain ⟨st2, hout2, hmem2, hp2⟩ := IH.ok _ _ heq
        have hw2 := st2.inv.wf.store
        have hp2' : ProtN s s2 src := by
          rcases hcone with rfl | hr
          · exact hp2
          · exact hp2.up hw hw2 hr
        split
        next hms =>
          subst hms
          exact .ret st2 ⟨hp2', (fun o' ho' => by cases ho'; exact ⟨hout2, hmem2⟩),
            fun hh => by cases hh⟩
        next hms =>
          have hcur2 : s2.cur = s.cur := (bu_cur sem body f).2.2.2.1 { s with queue := q } m s2 o heq
          have hcr2 : CurReach s2 src :=
            fun n hn => hp2'.1.reach hw hw2 (hcr n (hcur2 ▸ hn))
          have IH2 := ih.now s2 src st2.inv hcr2
          refine IH2.trans st2 ?_
          rintro s' v st' ⟨hp', h1, h2⟩
          exact ⟨hp2'.trans hp' hw hw2, h1, h2⟩

/-- **The joint induction** for bottom-up builds with reflexive output checkers. -/
theorem buR (hst : StampTotal sem) (hrefl : OReflexive sem) (hwfb : WriteFreeBody body)
    (hone : ∀ t, OneChecker (body t)) (f : Nat) : BuR sem body fs f := by
  induction f with
  | zero => exact buR_zero
  | succ f ih =>
    exact ⟨require_succR hrefl ih, make_succR ih, exec_succR hrefl hwfb hone ih,
      eas_succR hst hrefl hwfb hone ih, now_succR ih, run_succR hst ih⟩

end Mixed
end PieModel
