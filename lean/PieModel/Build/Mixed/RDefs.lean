/-
Bottom-up builds with output checkers that accept their own stamp (`OReflexive`): definitions.

* `ReqEdge`/`RReach`/`RCone`: reachability along finished `require` edges only;
* `Good s y`: every `require` edge of `y` to a QUEUED node points to a consistent node whose stored
  output the edge's stamp accepts;
* `ReplayNow s x p v`: running `p` now, every `require` answered by the stored output of a
  consistent node (other than `x`), yields `v`;  `Fresh s x`: `x` has an output which its body
  replays to now;
* the session invariant `RInv` and the step relation `RStep`;
* `ProtN`: the ancestors of a node are untouched, none became consistent, and no new ancestors.
-/
import PieModel.Build.Mixed.Inv
import PieModel.Build.FrameExecBU

namespace PieModel

/-- Output checkers accept their own stamp. -/
def OReflexive (sem : Sem) : Prop := ∀ c o, sem.ocheck c o (sem.ostamp c o) = true

namespace Mixed

/-- (`Store.mem_depsFrom_iff` exists twice in the project, with different binders.) -/
theorem mem_deps_iff (st : Store) (a : Nat) (d : Dep) :
    d ∈ st.depsFrom a ↔ ∃ b, (b, d) ∈ st.g.outgoingEdges a := by
  simp [Store.depsFrom, Dag.outgoingEdgeData]

/-! ### reachability along `require` edges -/

def ReqEdge (st : Store) (a b : Nat) : Prop :=
  ∃ u c stp, (b, Dep.require u c stp) ∈ st.g.outgoingEdges a

inductive RReach (st : Store) : Nat → Nat → Prop
  | edge {a b : Nat} : ReqEdge st a b → RReach st a b
  | step {a b c : Nat} : ReqEdge st a b → RReach st b c → RReach st a c

/-- `y` is `w` or reachable from `w` along `require` edges. -/
def RCone (st : Store) (w y : Nat) : Prop := y = w ∨ RReach st w y

theorem ReqEdge.hasEdge {st : Store} (hw : st.WF) {a b : Nat} (h : ReqEdge st a b) :
    st.g.HasEdge a b := by
  obtain ⟨u, c, stp, hm⟩ := h
  exact (Store.hasEdge_iff_mem_oe hw a b).mpr ⟨_, hm⟩

theorem RReach.reach {st : Store} (hw : st.WF) {a b : Nat} (h : RReach st a b) : st.g.Reach a b := by
  induction h with
  | edge he => exact .edge (he.hasEdge hw)
  | step he _ ih => exact .step (he.hasEdge hw) ih

theorem RReach.trans {st : Store} {a b c : Nat} (h₁ : RReach st a b) (h₂ : RReach st b c) :
    RReach st a c := by
  induction h₁ with
  | edge he => exact .step he h₂
  | step he _ ih => exact .step he (ih h₂)

theorem RReach.tail {st : Store} {a b c : Nat} (h₁ : RReach st a b) (h₂ : ReqEdge st b c) :
    RReach st a c := h₁.trans (.edge h₂)

theorem RCone.refl (st : Store) (w : Nat) : RCone st w w := .inl rfl

theorem RCone.tail {st : Store} {w y z : Nat} (h : RCone st w y) (he : ReqEdge st y z) :
    RCone st w z := by
  rcases h with rfl | h
  · exact .inr (.edge he)
  · exact .inr (h.tail he)

theorem RCone.reach {st : Store} (hw : st.WF) {w y : Nat} (h : RCone st w y) :
    y = w ∨ st.g.Reach w y := by
  rcases h with h | h
  · exact .inl h
  · exact .inr (h.reach hw)

theorem RReach.mono {st st' : Store} (h : ∀ a b, ReqEdge st a b → ReqEdge st' a b) {a b : Nat}
    (hr : RReach st a b) : RReach st' a b := by
  induction hr with
  | edge he => exact .edge (h _ _ he)
  | step he _ ih => exact .step (h _ _ he) ih

/-- The store changes the `require` edges of `x` only (other nodes may lose some): a path in the
new store is a path in the old one, or ends in the old cone of a new child of `x`. -/
theorem cone_step {st st' : Store} {x : Nat} {P : Nat → Prop}
    (hpath : ∀ z b, z ≠ x → ReqEdge st' z b → ReqEdge st z b)
    (hx : ∀ b, ReqEdge st' x b → P b) {a b : Nat} (hr : RReach st' a b) :
    RReach st a b ∨ ∃ d, P d ∧ RCone st d b := by
  induction hr with
  | @edge a b he =>
    by_cases ha : a = x
    · subst ha; exact .inr ⟨b, hx b he, .inl rfl⟩
    · exact .inl (.edge (hpath a b ha he))
  | @step a a' b he _ ih =>
    by_cases ha : a = x
    · subst ha
      rcases ih with h | ⟨d, hd, hc⟩
      · exact .inr ⟨a', hx a' he, .inr h⟩
      · exact .inr ⟨d, hd, hc⟩
    · rcases ih with h | ⟨d, hd, hc⟩
      · exact .inl (.step (hpath a a' ha he) h)
      · exact .inr ⟨d, hd, hc⟩

theorem ReqEdge.of_same {s s' : Sess} {x b : Nat} (h : Same s s' x) (he : ReqEdge s'.store x b) :
    ReqEdge s.store x b := by
  obtain ⟨u, c, stp, hm⟩ := he
  exact ⟨u, c, stp, by rw [← h.2]; exact hm⟩

variable (sem : Sem) (body : Nat → Prog) (fs : List (Nat × Int))

/-! ### `Good`, `ReplayNow`, `Fresh` -/

/-- Every `require` edge of `y` to a queued node points to a consistent node whose stored output
the stamp of the edge accepts. -/
def Good (s : Sess) (y : Nat) : Prop :=
  ∀ dst u c st, (dst, Dep.require u c st) ∈ s.store.g.outgoingEdges y → dst ∈ s.queue →
    dst ∈ s.consistent ∧ ∃ o, s.store.taskOutput dst = some o ∧ sem.ocheck c o st = true

/-- Running `p` now — every `require` answered by the stored output of a consistent node other
than `x`, every `read` by the current content — returns `v`. -/
def ReplayNow (s : Sess) (x : Nat) : Prog → Int → Prop
  | .ret v', v => v' = v
  | .panic, _ => False
  | .req u _ k, v => ∃ d o, d ≠ x ∧ s.store.taskOf d = some u ∧ d ∈ s.consistent ∧
      s.store.taskOutput d = some o ∧ ReplayNow s x (k o) v
  | .read r _ k, v => ReplayNow s x (k (.ok (aget fs r))) v
  | .write .., _ => False
  | .wrote .., _ => False

/-- `x` has an output which its body replays to now. -/
def Fresh (s : Sess) (x : Nat) : Prop :=
  ∃ t o, s.store.taskOf x = some t ∧ s.store.taskOutput x = some o ∧ ReplayNow fs s x (body t) o

/-- `node` may be marked consistent. -/
structure Markable (s : Sess) (node : Nat) : Prop where
  fresh : node ∈ s.queue → Fresh body fs s node
  cone : ∀ y, RCone s.store node y → Good sem s y

/-- The invariant of a bottom-up build with reflexive output checkers. -/
structure RInv (s : Sess) : Prop where
  m : MInv sem body fs s
  curFresh : ∀ n, s.cur = some n → n ∉ s.consistent
  /-- the finished `require` edges of the executing task point to consistent nodes -/
  curReq : ∀ n, s.cur = some n → ∀ b, ReqEdge s.store n b → b ∈ s.consistent
  consOut : ∀ x ∈ s.consistent, ∃ o, s.store.taskOutput x = some o
  /-- a consistent task that is (still) queued re-executes to its stored output -/
  qFresh : ∀ x ∈ s.consistent, x ∈ s.queue → Fresh body fs s x
  /-- below a consistent task nothing will be scheduled with a changed output -/
  cone : ∀ w ∈ s.consistent, ∀ y, RCone s.store w y → Good sem s y

/-- A later state: consistent tasks stay consistent and keep their outputs. -/
structure RStep (s s' : Sess) : Prop where
  inv : RInv sem body fs s'
  le : s.store.Le s'.store
  mono : ∀ x ∈ s.consistent, x ∈ s'.consistent
  stab : ∀ x ∈ s.consistent, s'.store.taskOutput x = s.store.taskOutput x

variable {sem body fs}

namespace RInv
variable {s : Sess}
theorem wf (h : RInv sem body fs s) : SessWF s := h.m.wf
theorem fsEq (h : RInv sem body fs s) : s.fs = fs := h.m.fsEq
theorem faithful (h : RInv sem body fs s) : Faithful sem body s.store := h.m.faithful
theorem curFree (h : RInv sem body fs s) : ∀ n, s.cur = some n → s.store.taskOutput n = none :=
  h.m.curFree
end RInv

theorem RStep.refl {s : Sess} (h : RInv sem body fs s) : RStep sem body fs s s :=
  ⟨h, Store.Le.refl _, fun _ hx => hx, fun _ _ => rfl⟩

theorem RStep.trans {s s' s'' : Sess} (h₁ : RStep sem body fs s s') (h₂ : RStep sem body fs s' s'') :
    RStep sem body fs s s'' :=
  ⟨h₂.inv, h₁.le.trans h₂.le, fun x hx => h₂.mono x (h₁.mono x hx),
    fun x hx => (h₂.stab x (h₁.mono x hx)).trans (h₁.stab x hx)⟩

/-! ### transport lemmas -/

theorem ReplayNow.transport {s s' : Sess} {x : Nat} (hle : s.store.Le s'.store)
    (hcons : ∀ d ∈ s.consistent, d ∈ s'.consistent)
    (hout : ∀ d ∈ s.consistent, d ≠ x → s'.store.taskOutput d = s.store.taskOutput d)
    {p : Prog} {v : Int} (h : ReplayNow fs s x p v) : ReplayNow fs s' x p v := by
  induction p with
  | ret v' => exact h
  | panic => exact h
  | req u c k ih =>
    obtain ⟨d, o, h1, h2, h3, h4, h5⟩ := h
    exact ⟨d, o, h1, hle.task _ _ h2, hcons d h3, by rw [hout d h3 h1]; exact h4, ih o h5⟩
  | read r c k ih => exact ih _ h
  | write r c v' k _ => exact h
  | wrote r c v' k _ => exact h

theorem Fresh.transport {s s' : Sess} {x : Nat} (hle : s.store.Le s'.store)
    (hcons : ∀ d ∈ s.consistent, d ∈ s'.consistent)
    (hout : ∀ d ∈ s.consistent, d ≠ x → s'.store.taskOutput d = s.store.taskOutput d)
    (hx : s'.store.taskOutput x = s.store.taskOutput x)
    (h : Fresh body fs s x) : Fresh body fs s' x := by
  obtain ⟨t, o, h1, h2, h3⟩ := h
  exact ⟨t, o, hle.task _ _ h1, by rw [hx]; exact h2, h3.transport hle hcons hout⟩

/-- `Good` survives when the `require` edges of `y` do not grow, the queue grows only by nodes
that are not children of `y`, and consistent nodes keep their outputs. -/
theorem Good.transport {s s' : Sess} {y : Nat}
    (hedge : ∀ dst u c st, (dst, Dep.require u c st) ∈ s'.store.g.outgoingEdges y →
      (dst, Dep.require u c st) ∈ s.store.g.outgoingEdges y)
    (hq : ∀ dst, ReqEdge s'.store y dst → dst ∈ s'.queue → dst ∈ s.queue)
    (hcons : ∀ d ∈ s.consistent, d ∈ s'.consistent)
    (hout : ∀ d ∈ s.consistent, s'.store.taskOutput d = s.store.taskOutput d)
    (h : Good sem s y) : Good sem s' y := by
  intro dst u c st hm hqq
  obtain ⟨h1, o, h2, h3⟩ := h dst u c st (hedge _ _ _ _ hm) (hq dst ⟨u, c, st, hm⟩ hqq)
  exact ⟨hcons _ h1, o, by rw [hout _ h1]; exact h2, h3⟩

/-! ### protection of the ancestors, with "no new ancestors" -/

/-- `Prot` plus: every ancestor of `m` in the new store was one in the old store. -/
def ProtN (s s' : Sess) (m : Nat) : Prop :=
  Prot s s' m ∧ ∀ x, s'.store.g.Reach x m → s.store.g.Reach x m

theorem ProtN.refl (s : Sess) (m : Nat) : ProtN s s m := ⟨Prot.refl s m, fun _ h => h⟩

theorem ProtN.trans {s s' s'' : Sess} {m : Nat} (h₁ : ProtN s s' m) (h₂ : ProtN s' s'' m)
    (hw : s.store.WF) (hw' : s'.store.WF) : ProtN s s'' m :=
  ⟨h₁.1.trans h₂.1 hw hw', fun x hx => h₁.2 x (h₂.2 x hx)⟩

/-- All records kept, same reachability, `consistent` not grown by ancestors. -/
theorem ProtN.of_same {s s' : Sess} (hs : ∀ x, Same s s' x)
    (hr : ∀ a b, s'.store.g.Reach a b → s.store.g.Reach a b)
    (hc : ∀ x ∈ s'.consistent, x ∈ s.consistent) (m : Nat) : ProtN s s' m :=
  ⟨fun x _ => ⟨hs x, hc x⟩, fun x hx => hr x m hx⟩

/-- A path into `m` in the new store, all of whose nodes kept their records, is a path of the old
store. -/
theorem reach_back {s s' : Sess} (hw : s.store.WF) (hw' : s'.store.WF) {m : Nat}
    (hs : ∀ x, s'.store.g.Reach x m → Same s s' x) {a : Nat} (hr : s'.store.g.Reach a m) :
    s.store.g.Reach a m := by
  induction hr with
  | @edge a b he =>
    have hc := (hs a (.edge he)).children hw hw'
    exact .edge (by simpa [Dag.HasEdge, hc] using he)
  | @step a b c he hr ih =>
    have hc := (hs a (.step he hr)).children hw hw'
    exact .step (by simpa [Dag.HasEdge, hc] using he) (ih hs)

/-- Protection of `m'` gives protection of every `m` that reaches `m'`. -/
theorem ProtN.up {s s' : Sess} {m m' : Nat} (h : ProtN s s' m') (hw : s.store.WF)
    (hw' : s'.store.WF) (hr : s.store.g.Reach m m') : ProtN s s' m := by
  have hr' : s'.store.g.Reach m m' := h.1.reach hw hw' hr
  refine ⟨fun x hx => h.1 x (hx.trans hr), fun x hx => ?_⟩
  exact reach_back hw hw' (fun z hz => (h.1 z (h.2 z (hz.trans hr'))).1) hx

/-- `RReach` paths of the new store that end at `m` or at an ancestor of `m` are paths of the old
store. -/
theorem RReach.back {s s' : Sess} (hw' : s'.store.WF) {m : Nat}
    (hs : ∀ x, s'.store.g.Reach x m → Same s s' x) {a b : Nat} (hr : RReach s'.store a b)
    (hb : b = m ∨ s'.store.g.Reach b m) : RReach s.store a b := by
  induction hr with
  | @edge a b he =>
    have ham : s'.store.g.Reach a m := by
      rcases hb with rfl | hb
      · exact .edge (he.hasEdge hw')
      · exact .step (he.hasEdge hw') hb
    exact .edge (he.of_same (hs a ham))
  | @step a b c he hr ih =>
    have hbm : s'.store.g.Reach b m := by
      rcases hb with rfl | hb
      · exact hr.reach hw'
      · exact (hr.reach hw').trans hb
    exact .step (he.of_same (hs a (.step (he.hasEdge hw') hbm))) (ih hb)

end Mixed
end PieModel
