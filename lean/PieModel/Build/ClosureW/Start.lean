/-
Bottom-up closure with writes: the state in which `buExecuteScheduled` is started by
`bottomUpBuild` satisfies the invariant `CIW` (empty stack, no exempt node).
-/
import PieModel.Build.ClosureW.Induct
import PieModel.Build.SoundW.Session

namespace PieModel

variable {ro : Roles} {sem : Sem} {body : Nat → Prog}

/-- The ordered faithfulness invariant implies that finished tasks have no `reserved` edge. -/
theorem FaithfulO.noReservedDone {st : Store} (h : FaithfulO sem body st) : st.NoReservedDone := by
  intro n hn
  cases hv : st.taskOutput n with
  | none => exact absurd hv hn
  | some v =>
    obtain ⟨t, ht⟩ := Store.taskOf_of_output hv
    exact (h n t v ht hv).no_reserved

theorem PieInvW.nrd {p : PieSt} (h : PieInvW ro sem body p) : p.store.NoReservedDone :=
  h.faithful.noReservedDone

/-- Scheduling keeps `RolesInv`. -/
theorem schedAll_roles (sem : Sem) {s : Sess} (h : SessWF s) (hi : RolesInv ro s.store)
    (changed : List Nat) : RolesInv ro (schedAll sem s changed).store :=
  (foldl_rext (ro := ro) (k := 0) (ex := none) (fun s r => scheduleAffectedBy sem s r)
    (fun _ r hs his => scheduleAffectedBy_rext sem hs his r 0 none) changed s h hi).inv

section
variable {p : PieSt} {changed : List Nat} (hp : PieInvW ro sem body p) (hno : NoOrphan p.store)
  (hsr : ShallowReq sem p.store) (hrep : Reported sem p.store p.fs changed)
include hp hno hsr hrep

/-- The invariant holds at the start of `execute_scheduled`. -/
theorem ciw_start : CIW ro sem body (buStart sem p changed) [] [] [] ∧
    TI (buStart sem p changed) [] [] := by
  have hw := hp.wf
  have hn := hp.nrd
  obtain ⟨b0, b1, b2, b4, b5, b6, b8, b9⟩ := schedAll_newSession sem p changed hw
  have hI1 := schedule_establishes_I1 (sem := sem) (p := p) (changed := changed) hw hn hsr hrep
  have hwf0 : SessWF p.newSession := ⟨hw, fun _ h => (nomatch h), fun _ h => (nomatch h)⟩
  have hro := schedAll_roles (ro := ro) sem hwf0 hp.roles changed
  unfold buStart
  generalize schedAll sem p.newSession changed = S at b0 b1 b2 b4 b5 b6 b8 b9 hI1 hro ⊢
  have hnrd : S.store.NoReservedDone :=
    hn.transfer b1.out (fun n _ => (Store.outgoing_obs_congr (b1.edges n)).1)
  have hbf : BFrames (({ S with cur := none } : Sess).emit .buildStart) [] :=
    (BFrames.nil_iff.mpr ⟨⟨b0.clearCur.wf, hnrd, fun n hn' => by
      have : n ∈ S.consistent := hn'
      rw [b4] at this; cases this⟩, rfl⟩).emit _
  have hout : ∀ n ∈ S.queue, S.store.taskOutput n ≠ none := by
    intro n hq ho
    rw [b1.out] at ho
    exact b8 n hq (hno n ho)
  refine ⟨⟨hbf, hro, ?_, ?_, b5, hout, fun _ h => (nomatch h), ?_, ?_, ?_, ?_,
    fun _ h => (nomatch h)⟩, ⟨?_, ?_⟩⟩
  · show (akeys S.fs).Nodup
    rw [b2]; exact hp.nodup
  · intro n t v ht hv
    have ht' : S.store.taskOf n = some t := ht
    have hv' : S.store.taskOutput n = some v := hv
    rw [b1.out] at hv'
    obtain ⟨t0, ht0⟩ := Store.taskOf_of_output hv'
    have := b1.le.task _ _ ht0
    rw [ht'] at this; cases this
    show ReplayO sem (body t) [] (S.store.depsFrom n) v
    rw [(Store.outgoing_obs_congr (b1.edges n)).1]
    exact hp.faithful n t v ht0 hv'
  · intro n ho _
    have ho' : S.store.taskOutput n = none := ho
    show S.store.g.outgoingEdges n = []
    rw [b1.edges]; rw [b1.out] at ho'; exact hno n ho'
  · intro n dst u c stp he
    have he' : (dst, Dep.require u c stp) ∈ p.store.g.outgoingEdges n := by
      rw [← b1.edges]; exact he
    left
    show S.store.taskOutput dst ≠ none
    rw [b1.out]
    have hon : p.store.taskOutput n ≠ none := by
      intro hnone
      rw [hno n hnone] at he'; cases he'
    obtain ⟨o, ho, _⟩ := hsr n hon dst u c stp he'
    rw [ho]; simp
  · intro n ho _ hq
    show SCw sem S.store S.fs [] ([] ++ []) n
    rw [b2]
    apply Classical.byContradiction
    intro hsc
    exact hq (hI1 n ho (fun h => hsc (h.scw _ _)))
  · intro n hc
    have : n ∈ S.consistent := hc
    rw [b4] at this; cases this
  · intro t
    show countExec t (S.trace ++ [Ev.buildStart]) ≤ 1
    rw [countExec_append, b6 t]; simp [countExec, Ev.isExecStart]
  · intro t ht
    have : countExec t (S.trace ++ [Ev.buildStart]) = 0 := by
      rw [countExec_append, b6 t]; simp [countExec, Ev.isExecStart]
    have ht' : 1 ≤ countExec t (S.trace ++ [Ev.buildStart]) := ht
    omega

end
end PieModel
