/-
Bottom-up closure with writes: the statement of the joint induction over the six mutually
recursive functions of the bottom-up context (`BuClosW`).
-/
import PieModel.Build.ClosureW.Prims

namespace PieModel

variable (ro : Roles) (sem : Sem) (body : Nat → Prog)

/-- The joint statement for fuel `f`: what holds when the call returns.  `ch` (`ch₀ ++ [a]`) is
the executing stack, `X` the exempt nodes; the last index of `CIW` is the just executed task
whose readers and requirers have not been scheduled yet. -/
structure BuClosW (f : Nat) : Prop where
  require : ∀ (s : Sess) (ch₀ : List Nat) (a : Nat) (X : List Nat) (u c : Nat),
    CIW ro sem body s (ch₀ ++ [a]) X [] → TI s (ch₀ ++ [a]) [] → (∀ x ∈ X, x ∈ ch₀ ++ [a]) →
    Dep.reserved ∉ s.store.depsFrom a → ReqPre ro s u →
    ∀ s' out, buRequire sem body f s u c = (s', .ok out) →
      CIW ro sem body s' (ch₀ ++ [a]) X [] ∧ TI s' (ch₀ ++ [a]) [] ∧ MonoW ro s s' ∧
      Dep.reserved ∉ s'.store.depsFrom a ∧ nodeOf s u ∈ s'.consistent ∧
      s'.store.taskOutput (nodeOf s u) = some out ∧ s'.store.taskOf (nodeOf s u) = some u ∧
      EdgeUpdO (s.store.g.outgoingEdges a) (s'.store.g.outgoingEdges a) (nodeOf s u)
        (.require u c (sem.ostamp c out))
  make : ∀ (s : Sess) (ch₀ : List Nat) (a : Nat) (X : List Nat) (t node : Nat),
    CIW ro sem body s (ch₀ ++ [a]) X [] → TI s (ch₀ ++ [a]) [] → (∀ x ∈ X, x ∈ ch₀ ++ [a]) →
    s.store.taskOf node = some t → (∃ dep, (node, dep) ∈ s.store.g.outgoingEdges a) →
    ∀ s' v, buMake sem body f s t node = (s', .ok v) →
      CIW ro sem body s' (ch₀ ++ [a]) X [] ∧ TI s' (ch₀ ++ [a]) [node] ∧ MonoW ro s s' ∧
      s'.store.taskOutput node = some v ∧ Clean sem s'.store s'.fs (s'.queue ++ X) node
  exec : ∀ (s : Sess) (ch X : List Nat) (t node : Nat),
    CIW ro sem body s ch X [] → TI s ch [] → (∀ x ∈ X, x ∈ ch ∨ x = node) →
    s.store.taskOf node = some t → (∀ x ∈ ch, s.store.g.Reach x node) →
    (node ∈ X ∨ s.store.taskOutput node = none) →
    ∀ s' v, buExec sem body f s t node = (s', .ok v) →
      CIW ro sem body s' ch X [node] ∧ TI s' ch [node] ∧ MonoW ro s s' ∧
      s'.store.taskOutput node = some v ∧ FreshW ro sem s' node ∧ node ∉ s'.queue ∧
      (node ∉ X → ∀ n u c stp, (node, Dep.require u c stp) ∉ s'.store.g.outgoingEdges n)
  execAndSchedule : ∀ (s : Sess) (ch X : List Nat) (node : Nat),
    CIW ro sem body s ch (node :: X) [] → TI s ch [] → (∀ x ∈ X, x ∈ ch) → node ∉ X →
    (∀ x ∈ ch, s.store.g.Reach x node) →
    ∀ s' v, buExecAndSchedule sem body f s node = (s', .ok v) →
      CIW ro sem body s' ch X [] ∧ TI s' ch [] ∧ MonoW ro s s' ∧
      s'.store.taskOutput node = some v ∧ node ∈ s'.consistent
  requireNow : ∀ (s : Sess) (ch₀ : List Nat) (a : Nat) (X : List Nat) (src : Nat),
    CIW ro sem body s (ch₀ ++ [a]) X [] → TI s (ch₀ ++ [a]) [] → (∀ x ∈ X, x ∈ ch₀ ++ [a]) →
    (∃ dep, (src, dep) ∈ s.store.g.outgoingEdges a) →
    ∀ s' o, buRequireNow sem body f s src = (s', .ok o) →
      CIW ro sem body s' (ch₀ ++ [a]) X [] ∧ TI s' (ch₀ ++ [a]) [] ∧ MonoW ro s s' ∧
      (∀ v, o = some v → s'.store.taskOutput src = some v ∧ src ∈ s'.consistent) ∧
      (o = none → ∀ m ∈ s'.queue, ¬ InCone s'.store src m)
  run : ∀ (s : Sess) (ch₀ : List Nat) (a : Nat) (X : List Nat) (p : Prog) (t0 : Nat) (acc : Acc)
    (qt qr : List (Nat × Nat)),
    CIW ro sem body s (ch₀ ++ [a]) X [] → TI s (ch₀ ++ [a]) [] → (∀ x ∈ X, x ∈ ch₀ ++ [a]) →
    Dep.reserved ∉ s.store.depsFrom a → s.store.taskOf a = some t0 →
    StaticRolesFrom ro t0 acc p → AccOK s.store a acc → OneCk qt qr p →
    RunInvW ro sem qt qr s a →
    ∀ s' v, buRun sem body f s p = (s', .ok v) →
      CIW ro sem body s' (ch₀ ++ [a]) X [] ∧ TI s' (ch₀ ++ [a]) [] ∧ MonoW ro s s' ∧
      Dep.reserved ∉ s'.store.depsFrom a ∧
      ∃ new, s'.store.depsFrom a = s.store.depsFrom a ++ new ∧
        ReplayO sem p (s.store.depsFrom a) new v

variable {ro sem body}

theorem BuClosW.zero : BuClosW ro sem body 0 := by
  refine ⟨?_, ?_, ?_, ?_, ?_, ?_⟩
  · intro s ch₀ a X u c _ _ _ _ _ s' out heq; unfold buRequire at heq; cases heq
  · intro s ch₀ a X t n _ _ _ _ _ s' v heq; unfold buMake at heq; cases heq
  · intro s ch X t n _ _ _ _ _ _ s' v heq; unfold buExec at heq; cases heq
  · intro s ch X n _ _ _ _ _ s' v heq; unfold buExecAndSchedule at heq; cases heq
  · intro s ch₀ a X n _ _ _ _ s' v heq; unfold buRequireNow at heq; cases heq
  · intro s ch₀ a X p t0 acc qt qr _ _ _ _ _ _ _ _ _ s' v heq; unfold buRun at heq; cases heq

end PieModel
