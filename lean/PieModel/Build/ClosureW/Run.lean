/-
Bottom-up closure with writes: the successor step of `buRun` (all six program constructors),
with the ORDERED replay of the executed body as a post-condition.
-/
import PieModel.Build.ClosureW.Induct

namespace PieModel

variable {ro : Roles} {sem : Sem} {body : Nat → Prog}

theorem depsFrom_of_oeW {s s' : Sess} {n : Nat} {new : List (Nat × Dep)}
    (h : s'.store.g.outgoingEdges n = s.store.g.outgoingEdges n ++ new) :
    s'.store.depsFrom n = s.store.depsFrom n ++ new.map (·.2) := by
  simp only [Store.depsFrom_eq, h, List.map_append]

/-- The edge list after a `require` by the executing task: if the target had an edge, nothing
changed (same checker, same output, hence the same stamp). -/
theorem edges_after_requireW {qt qr : List (Nat × Nat)} {s s1 : Sess} {a u c : Nat} {out : Int}
    {k : Int → Prog} (hw : s.store.WF) (m1 : MonoW ro s s1)
    (hone : OneCk qt qr (.req u c k)) (hri : RunInvW ro sem qt qr s a)
    (hout : s1.store.taskOutput (nodeOf s u) = some out)
    (htask : s1.store.taskOf (nodeOf s u) = some u)
    (hupd : EdgeUpdO (s.store.g.outgoingEdges a) (s1.store.g.outgoingEdges a) (nodeOf s u)
      (.require u c (sem.ostamp c out))) :
    ((nodeOf s u, Dep.require u c (sem.ostamp c out)) ∈ s.store.g.outgoingEdges a ∧
      s1.store.g.outgoingEdges a = s.store.g.outgoingEdges a) ∨
    s1.store.g.outgoingEdges a =
      s.store.g.outgoingEdges a ++ [(nodeOf s u, .require u c (sem.ostamp c out))] := by
  rcases hupd with ⟨⟨d0, hd0⟩, hLf⟩ | ⟨_, hLf⟩
  · left
    have hall : ∀ p ∈ s.store.g.outgoingEdges a, p.1 = nodeOf s u →
        p = (nodeOf s u, Dep.require u c (sem.ostamp c out)) := by
      rintro ⟨dst, d⟩ hp hp1
      simp only at hp1; subst hp1
      have hok := (hw.mem_outgoingEdges_ok hp).2
      have hrd := hri _ d hp
      cases d with
      | reserved => exact hrd.elim
      | write r' c' st0 =>
        have h1 : s1.store.resOf (nodeOf s u) = some r' := m1.le.res _ _ hok
        rw [Store.resOf_eq_none_of_taskOf htask] at h1; cases h1
      | read r' c' st0 =>
        have h1 : s1.store.resOf (nodeOf s u) = some r' := m1.le.res _ _ hok
        rw [Store.resOf_eq_none_of_taskOf htask] at h1; cases h1
      | require u' c' st0 =>
        obtain ⟨hq, hcs, o', ho', hst0⟩ := hrd
        have h1 : s1.store.taskOf (nodeOf s u) = some u' := m1.le.task _ _ hok
        rw [htask] at h1; cases h1
        have hcc := hone.1 c' hq
        subst hcc
        have h2 : s1.store.taskOutput (nodeOf s u) = some o' := by
          rw [(m1.cons _ hcs).2]; exact ho'
        rw [hout] at h2; cases h2
        rw [hst0]
    refine ⟨by rw [← hall _ hd0 rfl]; exact hd0, ?_⟩
    rw [hLf]
    conv => rhs; rw [← List.map_id (s.store.g.outgoingEdges a)]
    apply List.map_congr_left
    intro p hp
    by_cases hp1 : p.1 = nodeOf s u
    · rw [if_pos hp1, hall p hp hp1]; rfl
    · rw [if_neg hp1]; rfl
  · right; exact hLf

section
variable (hst : StampTotal sem) (hrefl : Reflexive sem) (hwf : WellFormedBody ro body)
include hst hrefl hwf

theorem BuClosW.run_succ {f : Nat} (ih : BuClosW ro sem body f) (s : Sess) (ch₀ : List Nat)
    (a : Nat) (X : List Nat) (p : Prog) (t0 : Nat) (acc : Acc) (qt qr : List (Nat × Nat))
    (h : CIW ro sem body s (ch₀ ++ [a]) X []) (hti : TI s (ch₀ ++ [a]) [])
    (hX : ∀ x ∈ X, x ∈ ch₀ ++ [a]) (hnr : Dep.reserved ∉ s.store.depsFrom a)
    (ht : s.store.taskOf a = some t0) (hsr : StaticRolesFrom ro t0 acc p)
    (ha : AccOK s.store a acc) (hone : OneCk qt qr p) (hri : RunInvW ro sem qt qr s a)
    (s' : Sess) (v : Int) (heq : buRun sem body (f + 1) s p = (s', .ok v)) :
    CIW ro sem body s' (ch₀ ++ [a]) X [] ∧ TI s' (ch₀ ++ [a]) [] ∧ MonoW ro s s' ∧
      Dep.reserved ∉ s'.store.depsFrom a ∧
      ∃ new, s'.store.depsFrom a = s.store.depsFrom a ++ new ∧
        ReplayO sem p (s.store.depsFrom a) new v := by
  have hw := h.sw
  have hcur : s.cur = some a := by rw [h.bf.cur_eq, List.getLast?_concat]
  have hmem : a ∈ ch₀ ++ [a] := by simp
  cases p with
  | ret v0 =>
    unfold buRun at heq
    cases heq
    exact ⟨h, hti, MonoW.refl _, hnr, [], by simp, rfl, rfl⟩
  | panic => unfold buRun at heq; cases heq
  | req u c k =>
    unfold buRun at heq
    obtain ⟨hlt, hk⟩ := hsr
    have hpre : ReqPre ro s u := fun cur' hc' => by
      rw [hcur] at hc'; cases hc'; exact ⟨t0, ht, hlt⟩
    have hacc := ((buRoles (sem := sem) hwf f).require s u c h.wf h.roles hpre).2
    split at heq
    next s1 a' heq1 => cases heq
    next s1 out heq1 =>
      obtain ⟨c1, t1, m1, hnr1, hcons, hout, htask, hupd⟩ :=
        ih.require s ch₀ a X u c h hti hX hnr hpre s1 out heq1
      have ha1 : AccOK s1.store a { acc with req := u :: acc.req } := by
        have := hacc a acc out hcur (by rw [heq1]) ha
        rwa [heq1] at this
      have hedges := edges_after_requireW hw m1 hone hri hout htask hupd
      have hri1 : RunInvW ro sem ((u, c) :: qt) qr s1 a := by
        intro dst d hd
        have hnew : RunDepW ro sem ((u, c) :: qt) qr s1 (nodeOf s u)
            (.require u c (sem.ostamp c out)) := ⟨List.mem_cons_self, hcons, out, hout, rfl⟩
        rcases hedges with ⟨_, he⟩ | he
        · rw [he] at hd
          exact (hri dst d hd).monoW m1 (fun p hp => List.mem_cons_of_mem _ hp) (fun p hp => hp)
        · rw [he] at hd
          rcases List.mem_append.mp hd with hd | hd
          · exact (hri dst d hd).monoW m1 (fun p hp => List.mem_cons_of_mem _ hp) (fun p hp => hp)
          · simp only [List.mem_singleton, Prod.mk.injEq] at hd
            obtain ⟨rfl, rfl⟩ := hd
            exact hnew
      obtain ⟨c2, t2, m2, hnr2, new, hnew, hrep2⟩ := ih.run s1 ch₀ a X (k out) t0
        { acc with req := u :: acc.req } ((u, c) :: qt) qr c1 t1 hX hnr1 (m1.le.task _ _ ht)
        (hk out) ha1 (hone.2 out) hri1 s' v heq
      refine ⟨c2, t2, m1.trans m2, hnr2, ?_⟩
      rcases hedges with ⟨hmem', he⟩ | he
      · have hd1 : s1.store.depsFrom a = s.store.depsFrom a := by
          simpa using depsFrom_of_oeW (new := []) (by simpa using he)
        refine ⟨new, by rw [hnew, hd1],
          .inl ⟨sem.ostamp c out, ?_, out, rfl, by rw [← hd1]; exact hrep2⟩⟩
        exact Store.mem_depsFrom_iff.mpr ⟨_, hmem'⟩
      · have hd1 := depsFrom_of_oeW he
        simp only [List.map_cons, List.map_nil] at hd1
        refine ⟨.require u c (sem.ostamp c out) :: new, by rw [hnew, hd1]; simp,
          .inr ⟨sem.ostamp c out, new, rfl, out, rfl, by rw [← hd1]; exact hrep2⟩⟩
  | read r c k =>
    unfold buRun at heq
    obtain ⟨hng, hreq, hk⟩ := hsr
    have hrol := doRead_roles (ro := ro) sem h.wf h.roles hcur ht ha r c hreq 0
    split at heq
    next s1 a' heq1 => cases heq
    next s1 x heq1 =>
      obtain ⟨rfl, hfs1, ho1, he1, dst, stamp, hstamp, hresof, halt⟩ :=
        doRead_ok_spec hst h.wf hcur r c heq1
      have key := h.bf.doRead sem r c
      rw [heq1] at key hrol
      obtain ⟨bf1, _, hnr1⟩ := key
      obtain ⟨hpost, ha1⟩ := hrol
      have hro1 : RolesInv ro s1.store := hpost.rext.inv
      have hq1 : s1.queue = s.queue := by have := doRead_queue sem s r c; rw [heq1] at this; exact this
      have hc1 : s1.consistent = s.consistent := by
        have := doRead_consistent sem s r c; rw [heq1] at this; exact this
      have hle : s.store.Le s1.store := ((doRead_ext sem h.wf r c).out heq1).le
      have hgc : ∀ w, ro.gen r = some w → ConsT s w :=
        fun w hw' => consT_of_acc hw ha hri (hreq w hw')
      have c1 : CIW ro sem body s1 (ch₀ ++ [a]) X [] :=
        h.readStep hrefl bf1 hro1 hfs1 hq1 hc1 hle ho1 he1 hstamp hgc
          (halt.imp (fun x => x.2) (fun x => x.2))
      have t1 : TI s1 (ch₀ ++ [a]) [] := hti.transfer
        (fun t => by have := doRead_countExec sem s r c t; rw [heq1] at this; exact this) hle
        (fun _ hn => by rw [hc1]; exact hn)
      have m1 : MonoW ro s s1 := MonoW.of_same hc1 hle ho1 hfs1
      -- an existing edge to the resource is the same read dependency
      have hexist : ∀ d0, (dst, d0) ∈ s.store.g.outgoingEdges a → d0 = .read r c stamp := by
        intro d0 hd0
        have hok := (hw.mem_outgoingEdges_ok hd0).2
        have hrd := hri _ d0 hd0
        cases d0 with
        | reserved => exact hrd.elim
        | write r' c' st0 =>
          have h1 : s1.store.resOf dst = some r' := hle.res _ _ hok
          rw [hresof] at h1; cases h1
          exact absurd (h.roles.write a dst r c' st0 t0
            ((Dag.mem_outgoingEdges hw.gwf _ _ _).mp hd0) ht) hng
        | require u' c' st0 =>
          have h1 : s1.store.taskOf dst = some u' := hle.task _ _ hok
          rw [Store.taskOf_eq_none_of_resOf hresof] at h1; cases h1
        | read r' c' st0 =>
          obtain ⟨hq, hst0, _⟩ := hrd
          have h1 : s1.store.resOf dst = some r' := hle.res _ _ hok
          rw [hresof] at h1; cases h1
          have hcc := hone.1 c' hq
          subst hcc
          rw [hstamp] at hst0; cases hst0
          rfl
      have hri1 : RunInvW ro sem qt ((r, c) :: qr) s1 a := by
        intro dst' d hd
        rcases halt with ⟨_, heq'⟩ | ⟨_, heq'⟩
        · rw [heq'] at hd
          exact (hri dst' d hd).monoW m1 (fun p hp => hp) (fun p hp => List.mem_cons_of_mem _ hp)
        · rw [heq'] at hd
          rcases List.mem_append.mp hd with hd | hd
          · exact (hri dst' d hd).monoW m1 (fun p hp => hp) (fun p hp => List.mem_cons_of_mem _ hp)
          · simp only [List.mem_singleton, Prod.mk.injEq] at hd
            obtain ⟨rfl, rfl⟩ := hd
            exact ⟨List.mem_cons_self, by rw [hfs1]; exact hstamp, fun w hw' => m1.consT (hgc w hw')⟩
      obtain ⟨c2, t2, m2, hnr2, new, hnew, hrep2⟩ := ih.run s1 ch₀ a X _ t0 acc qt ((r, c) :: qr)
        c1 t1 hX (hnr1 hnr) (hle.task _ _ ht) (hk _) ha1 (hone.2 _) hri1 s' v heq
      refine ⟨c2, t2, m1.trans m2, hnr2, ?_⟩
      rcases halt with ⟨⟨d0, hd0⟩, he⟩ | ⟨_, he⟩
      · have hd1 : s1.store.depsFrom a = s.store.depsFrom a := by
          simpa using depsFrom_of_oeW (new := []) (by simpa using he)
        refine ⟨new, by rw [hnew, hd1],
          .inl ⟨stamp, ?_, aget s.fs r, hstamp, by rw [← hd1]; exact hrep2⟩⟩
        rw [← hexist d0 hd0]
        exact Store.mem_depsFrom_iff.mpr ⟨_, hd0⟩
      · have hd1 := depsFrom_of_oeW he
        simp only [List.map_cons, List.map_nil] at hd1
        refine ⟨.read r c stamp :: new, by rw [hnew, hd1]; simp,
          .inr ⟨stamp, new, rfl, aget s.fs r, hstamp, by rw [← hd1]; exact hrep2⟩⟩
  | write r c v0 k =>
    unfold buRun at heq
    obtain ⟨hg, hnw, hk⟩ := hsr
    have hrol := doWrite_roles (ro := ro) sem h.wf h.roles hcur ht ha r c v0 hg hnw 0
    split at heq
    next s1 a' heq1 => cases heq
    next s1 x heq1 =>
      obtain ⟨rfl, hfs1, ho1, he1, dst, stamp, hstamp, hres, hea⟩ :=
        doWrite_ok_spec hst h.wf h.roles hcur ht ha r c v0 hg hnw heq1
      have key := h.bf.doWrite sem r c v0
      rw [heq1] at key hrol
      obtain ⟨bf1, _, hnr1⟩ := key
      obtain ⟨hpost, ha1⟩ := hrol
      have hro1 : RolesInv ro s1.store := hpost.rext.inv
      have hq1 : s1.queue = s.queue := by
        have := doWrite_queue sem s r c v0; rw [heq1] at this; exact this
      have hc1 : s1.consistent = s.consistent := by
        have := doWrite_consistent sem s r c v0; rw [heq1] at this; exact this
      have hle : s.store.Le s1.store := ((doWrite_ext sem h.wf r c v0).out heq1).le
      have hval : aget (s.setContent r v0).fs r = v0 := SessL.content_setContent s h.fsnd r v0
      obtain ⟨c1, m1⟩ := h.writeStep hrefl ht hg ha hnw bf1 hro1 hfs1 hq1 hc1 hle ho1 he1
        (by rw [hfs1]; exact hstamp) hres hea
      have t1 : TI s1 (ch₀ ++ [a]) [] := hti.transfer
        (fun t => by have := doWrite_countExec sem s r c v0 t; rw [heq1] at this; exact this) hle
        (fun _ hn => by rw [hc1]; exact hn)
      have hri1 : RunInvW ro sem qt ((r, c) :: qr) s1 a := by
        intro dst' d hd
        rw [hea] at hd
        rcases List.mem_append.mp hd with hd | hd
        · exact (hri dst' d hd).monoW m1 (fun p hp => hp) (fun p hp => List.mem_cons_of_mem _ hp)
        · simp only [List.mem_singleton, Prod.mk.injEq] at hd
          obtain ⟨rfl, rfl⟩ := hd
          exact trivial
      obtain ⟨c2, t2, m2, hnr2, new, hnew, hrep2⟩ := ih.run s1 ch₀ a X _ t0
        { acc with wr := r :: acc.wr } qt ((r, c) :: qr) c1 t1 hX (hnr1 hnr) (hle.task _ _ ht)
        (hk _) ha1 (hone.2 _) hri1 s' v heq
      refine ⟨c2, t2, m1.trans m2, hnr2, ?_⟩
      have hd1 := depsFrom_of_oeW hea
      simp only [List.map_cons, List.map_nil] at hd1
      exact ⟨.write r c stamp :: new, by rw [hnew, hd1]; simp,
        stamp, new, rfl, by rw [← hval]; exact hstamp, by rw [← hd1]; exact hrep2⟩
  | wrote r c v0 k =>
    unfold buRun at heq
    obtain ⟨hg, hnw, hk⟩ := hsr
    have hrol := doWrote_roles (ro := ro) sem h.wf h.roles hcur ht ha r c v0 hg hnw 0
    split at heq
    next s1 a' heq1 => cases heq
    next s1 x heq1 =>
      obtain ⟨rfl, hfs1, ho1, he1, dst, stamp, hstamp, hres, hea⟩ :=
        doWrote_ok_spec hst h.wf h.roles hcur ht ha r c v0 hg hnw heq1
      have key := h.bf.doWrote sem r c v0
      rw [heq1] at key hrol
      obtain ⟨bf1, _, hnr1⟩ := key
      obtain ⟨hpost, ha1⟩ := hrol
      have hro1 : RolesInv ro s1.store := hpost.rext.inv
      have hq1 : s1.queue = s.queue := by
        have := doWrote_queue sem s r c v0; rw [heq1] at this; exact this
      have hc1 : s1.consistent = s.consistent := by
        have := doWrote_consistent sem s r c v0; rw [heq1] at this; exact this
      have hle : s.store.Le s1.store := ((doWrote_ext sem h.wf r c v0).out heq1).le
      have hval : aget (s.setContent r v0).fs r = v0 := SessL.content_setContent s h.fsnd r v0
      obtain ⟨c1, m1⟩ := h.writeStep hrefl ht hg ha hnw bf1 hro1 hfs1 hq1 hc1 hle ho1 he1
        (by rw [hfs1]; exact hstamp) hres hea
      have t1 : TI s1 (ch₀ ++ [a]) [] := hti.transfer
        (fun t => by have := doWrote_countExec sem s r c v0 t; rw [heq1] at this; exact this) hle
        (fun _ hn => by rw [hc1]; exact hn)
      have hri1 : RunInvW ro sem qt ((r, c) :: qr) s1 a := by
        intro dst' d hd
        rw [hea] at hd
        rcases List.mem_append.mp hd with hd | hd
        · exact (hri dst' d hd).monoW m1 (fun p hp => hp) (fun p hp => List.mem_cons_of_mem _ hp)
        · simp only [List.mem_singleton, Prod.mk.injEq] at hd
          obtain ⟨rfl, rfl⟩ := hd
          exact trivial
      obtain ⟨c2, t2, m2, hnr2, new, hnew, hrep2⟩ := ih.run s1 ch₀ a X _ t0
        { acc with wr := r :: acc.wr } qt ((r, c) :: qr) c1 t1 hX (hnr1 hnr) (hle.task _ _ ht)
        (hk _) ha1 (hone.2 _) hri1 s' v heq
      refine ⟨c2, t2, m1.trans m2, hnr2, ?_⟩
      have hd1 := depsFrom_of_oeW hea
      simp only [List.map_cons, List.map_nil] at hd1
      exact ⟨.write r c stamp :: new, by rw [hnew, hd1]; simp,
        stamp, new, rfl, by rw [← hval]; exact hstamp, by rw [← hd1]; exact hrep2⟩

end

end PieModel
