/-
Bottom-up closure with writes: the invariant `CIW` across the start and the end of an execution,
across the scheduling of the readers/requirers of an executed task, and the removal of the
"just executed" marker of a task that had no output (hence no reader) before.
-/
import PieModel.Build.ClosureW.Defs

namespace PieModel

variable {ro : Roles} {sem : Sem} {body : Nat → Prog}

/-- A task whose edges are all finished ones, which has an output and is not busy, is clean,
provided the consistent tasks are. -/
theorem clean_of_freshW {s : Sess} {B : List Nat} {node t : Nat} (hw : s.store.WF)
    (hf : FreshW ro sem s node) (ht : s.store.taskOf node = some t)
    (ho : s.store.taskOutput node ≠ none) (hb : node ∉ B)
    (hc : ∀ w ∈ s.consistent, Clean sem s.store s.fs B w) : Clean sem s.store s.fs B node := by
  have hsc : SC sem s.store s.fs node := hf.sc
  refine ⟨⟨t, ht⟩, ?_⟩
  rintro v (rfl | hv) htv
  · exact ⟨ho, hsc, hb⟩
  · obtain ⟨w, hew, hwv⟩ := hv.first_step
    obtain ⟨d, hd⟩ := (Store.hasEdge_iff_mem_oe hw _ _).mp hew
    obtain ⟨h1, h2⟩ := hf _ hd
    have hok := (hw.mem_outgoingEdges_ok hd).2
    have hres : ∀ r, s.store.resOf w = some r → False := by
      intro r hres
      rcases hwv with rfl | hwv
      · obtain ⟨tv, htv⟩ := htv
        rw [Store.taskOf_eq_none_of_resOf hres] at htv; cases htv
      · exact absurd hwv (hw.not_reach_from_res hres v)
    cases d with
    | reserved => exact absurd rfl h2
    | write r c stamp => exact (hres r hok).elim
    | read r c stamp => exact (hres r hok).elim
    | require u c stamp =>
      have hcw := hc w h1.1
      refine hcw.2 v ?_ htv
      rcases hwv with rfl | hwv
      · exact .inl rfl
      · exact .inr hwv

namespace CIW
variable {s s' : Sess} {ch X : List Nat}

/-- **Start of an execution** of `node` (exempt, or without output). -/
theorem push (h : CIW ro sem body s ch X []) {node t : Nat} (ht : s.store.taskOf node = some t)
    (hr : ∀ x ∈ ch, s.store.g.Reach x node)
    (hx : node ∈ X ∨ s.store.taskOutput node = none) (e : Ev) :
    CIW ro sem body (({ s with store := s.store.resetTask node, cur := some node } : Sess).emit e)
      (ch ++ [node]) X [] ∧ node ∉ s.consistent ∧ node ∉ ch ∧ node ∉ s.queue := by
  have hw := h.sw
  have hnch : node ∉ ch := h.bf.core.not_mem_of_reach hr
  have hbusy : s.store.taskOutput node = none ∨ node ∈ s.queue ++ X := by
    rcases hx with hx | hx
    · exact .inr (List.mem_append.mpr (.inr hx))
    · exact .inl hx
  have hncone : ∀ u ∈ s.consistent, ¬ InCone s.store u node :=
    fun u hu => (h.i2 u hu).not_inCone hbusy ⟨t, ht⟩
  have hncons : node ∉ s.consistent := fun hc => hncone node hc (.inl rfl)
  have hnq : node ∉ s.queue := by
    rcases hx with hx | hx
    · exact h.xq node hx
    · exact fun hq => h.qout node hq hx
  refine ⟨?_, hncons, hnch, hnq⟩
  have hbf := h.bf.pushExec ht hr e
  have hle : s.store.Le (s.store.resetTask node) := Store.le_resetTask hw node
  have hout : ∀ n, n ≠ node → (s.store.resetTask node).taskOutput n = s.store.taskOutput n :=
    fun n hn => by rw [Store.taskOutput_resetTask hw, if_neg hn]
  have hedge : ∀ n, n ≠ node → (s.store.resetTask node).g.outgoingEdges n = s.store.g.outgoingEdges n :=
    fun n hn => by rw [Store.outgoingEdges_resetTask hw, if_neg hn]
  have hne_of_out : ∀ n, (s.store.resetTask node).taskOutput n ≠ none → n ≠ node := by
    intro n hn hnn
    rw [hnn, Store.taskOutput_resetTask hw, if_pos rfl] at hn; exact hn rfl
  refine ⟨hbf, h.roles.resetTask node, h.fsnd, ?_, h.qnd, ?_, h.xq, ?_, ?_, ?_, ?_, ?_⟩
  · intro n t' v ht' hv
    have hv' : (s.store.resetTask node).taskOutput n = some v := hv
    have ht'' : (s.store.resetTask node).taskOf n = some t' := ht'
    have hne := hne_of_out n (by rw [hv']; simp)
    rw [hout n hne] at hv'
    rw [Store.taskOf_resetTask hw] at ht''
    show ReplayO sem (body t') [] ((s.store.resetTask node).depsFrom n) v
    rw [Store.depsFrom_resetTask hw, if_neg hne]
    exact h.faithful n t' v ht'' hv'
  · intro n hn
    show (s.store.resetTask node).taskOutput n ≠ none
    rw [hout n (fun hnn => hnq (hnn ▸ hn))]; exact h.qout n hn
  · intro n hn hc
    have hn' : (s.store.resetTask node).taskOutput n = none := hn
    have hne : n ≠ node := fun hnn => hc (by simp [hnn])
    show (s.store.resetTask node).g.outgoingEdges n = []
    rw [hedge n hne]
    rw [hout n hne] at hn'
    exact h.orphan n hn' (fun hh => hc (List.mem_append_left _ hh))
  · intro n dst u c stp hp
    have hp' : (dst, Dep.require u c stp) ∈ (s.store.resetTask node).g.outgoingEdges n := hp
    have hne : n ≠ node := by
      rintro rfl
      rw [Store.outgoingEdges_resetTask hw, if_pos rfl] at hp'; cases hp'
    rw [hedge n hne] at hp'
    show (s.store.resetTask node).taskOutput dst ≠ none ∨ dst ∈ X
    rcases h.reqOut n dst u c stp hp' with h1 | h1
    · by_cases hd : dst = node
      · subst hd
        rcases hx with hx | hx
        · exact .inr hx
        · exact absurd hx h1
      · rw [hout dst hd]; exact .inl h1
    · exact .inr h1
  · intro n hn hnx hnq'
    have hn' : (s.store.resetTask node).taskOutput n ≠ none := hn
    have hne := hne_of_out n hn'
    rw [hout n hne] at hn'
    show SCw sem (s.store.resetTask node) s.fs X ((ch ++ [node]) ++ []) n
    refine (h.i1 n hn' hnx hnq').transfer (hedge n hne) ?_ (fun _ hx => hx) ?_
    · intro p _ ha
      by_cases hpn : p.1 = node
      · obtain ⟨dst, d⟩ := p
        simp only at hpn; subst hpn
        cases d with
        | reserved => exact ha.elim
        | require u c stp =>
          obtain ⟨o, h1, _⟩ := ha
          rcases hx with hx | hx
          · exact .inr (.inl ⟨rfl, hx⟩)
          · rw [hx] at h1; cases h1
        | read r c stp => exact .inl ha
        | write r c stp => exact .inl ha
      · exact .inl (ha.congrW (fun _ => hout p.1 hpn) (fun _ _ _ _ => rfl))
    · intro dst hwb
      refine hwb.mono (fun w hw' r c stp hed => ?_)
      have hwc : w ∈ ch := by simpa using hw'
      have hwn : w ≠ node := fun hh => hnch (hh ▸ hwc)
      exact ⟨by simp [hwc], by rw [hedge w hwn]; exact hed⟩
  · intro u hu
    refine (h.i2 u hu).transfer hw hbf.wf.store hle ?_ (fun v _ hv => hv)
    intro v hv _
    have hne : v ≠ node := fun hvn => hncone u hu (hvn ▸ hv)
    exact ⟨hedge v hne, hout v hne⟩
  · intro a ha p hp
    rcases List.mem_append.mp ha with ha | ha
    · have hne : a ≠ node := fun hh => hnch (hh ▸ ha)
      have hp' : p ∈ s.store.g.outgoingEdges a := by rw [← hedge a hne]; exact hp
      refine (h.i3 a ha p hp').mono (fun n hn => hn) hle ?_ (fun _ _ _ _ => rfl)
      intro hc
      exact hout p.1 (fun hh => hncons (hh ▸ hc))
    · simp at ha; subst ha
      have hp' : p ∈ (s.store.resetTask a).g.outgoingEdges a := hp
      rw [Store.outgoingEdges_resetTask hw, if_pos rfl] at hp'
      cases hp'

/-- **End of an execution** of `node`. -/
theorem finish {node t : Nat} {o : Int} (h : CIW ro sem body s (ch ++ [node]) X [])
    (ht : s.store.taskOf node = some t)
    (hrep : ReplayO sem (body t) [] (s.store.depsFrom node) o)
    (hnr : Dep.reserved ∉ s.store.depsFrom node)
    (h1 : s'.store = s.store.setTaskOutput node o) (h2 : s'.cur = ch.getLast?)
    (h3 : s'.consistent = s.consistent) (h4 : s'.queue = s.queue) (h5 : s'.fs = s.fs) :
    CIW ro sem body s' ch X [node] ∧ s'.store.taskOutput node = some o ∧ FreshW ro sem s' node ∧
      node ∉ s'.queue ∧ node ∉ ch ∧
      (node ∉ X → ∀ n u c stp, (node, Dep.require u c stp) ∉ s'.store.g.outgoingEdges n) := by
  have hw := h.sw
  have hmem : node ∈ ch ++ [node] := by simp
  have hno : s.store.taskOutput node = none := h.bf.noOut node hmem
  obtain ⟨hbf, hout⟩ := h.bf.popExec hnr o ht h1 h2 h3 h4
  have hle : s.store.Le s'.store := h1 ▸ Store.le_setTaskOutput _ node o
  have hnch : node ∉ ch := by
    have := h.bf.core.nodup
    rw [List.nodup_append] at this
    intro hn; exact this.2.2 node hn node (by simp) rfl
  have hoe : ∀ n, s'.store.g.outgoingEdges n = s.store.g.outgoingEdges n := fun n => by rw [h1]; simp
  have hto : ∀ n, n ≠ node → s'.store.taskOutput n = s.store.taskOutput n :=
    fun n hn => by rw [h1, Store.taskOutput_setTaskOutput_of_ne hn]
  have hne_of_out : ∀ n, s.store.taskOutput n ≠ none → n ≠ node :=
    fun n hn hnn => hn (hnn ▸ hno)
  have hnq : node ∉ s.queue := h.stack_not_queued hmem
  have hcsub : ∀ n ∈ s.consistent, n ∈ s'.consistent := fun n hn => h3 ▸ hn
  have hocons : ∀ n, n ∈ s.consistent → s'.store.taskOutput n = s.store.taskOutput n :=
    fun n hc => hto n (hne_of_out n (h.i2 n hc).out)
  -- the edges of `node` are finished ones
  have hfresh : FreshW ro sem s' node := by
    intro p hp
    rw [hoe] at hp
    have hd := h.i3 node hmem p hp
    refine ⟨hd.mono hcsub hle (hocons p.1) (fun _ _ _ _ => by rw [h5]), ?_⟩
    intro hres
    exact hnr (Store.mem_depsFrom_iff.mpr ⟨p.1, by rw [← hres]; exact hp⟩)
  refine ⟨⟨hbf, h1 ▸ h.roles.setTaskOutput node o, h5 ▸ h.fsnd, ?_, h4 ▸ h.qnd, ?_, ?_, ?_, ?_, ?_,
    ?_, ?_⟩, hout, hfresh, h4 ▸ hnq, hnch, ?_⟩
  · intro n t' v ht' hv
    have hdn : s'.store.depsFrom n = s.store.depsFrom n := (Store.outgoing_obs_congr (hoe n)).1
    rw [hdn]
    have ht'' : s.store.taskOf n = some t' := by rw [h1] at ht'; simpa using ht'
    by_cases hn : n = node
    · subst hn
      rw [ht] at ht''; cases ht''
      rw [hout] at hv; cases hv
      exact hrep
    · rw [hto n hn] at hv
      exact h.faithful n t' v ht'' hv
  · intro n hn
    rw [h4] at hn
    have := h.qout n hn
    rw [hto n (hne_of_out n this)]; exact this
  · intro x hx; rw [h4]; exact h.xq x hx
  · intro n hn hc
    have hne : n ≠ node := fun hnn => by rw [hnn, hout] at hn; cases hn
    rw [hoe]
    rw [hto n hne] at hn
    refine h.orphan n hn ?_
    intro hh
    rcases List.mem_append.mp hh with hh | hh
    · exact hc hh
    · simp at hh; exact hne hh
  · intro n dst u c stp hp
    rw [hoe] at hp
    rcases h.reqOut n dst u c stp hp with h1' | h1'
    · exact .inl (by rw [hto dst (hne_of_out dst h1')]; exact h1')
    · exact .inr h1'
  · intro n hn hnx hnq'
    rw [h4] at hnq'
    rw [h5]
    by_cases hnn : n = node
    · subst hnn
      have := hfresh.sc
      rw [h5] at this
      exact this.scw _ _
    · rw [hto n hnn] at hn
      refine (h.i1 n hn hnx hnq').transfer (hoe n) ?_ (fun _ hx => hx) ?_
      · intro p _ ha
        refine .inl (ha.congrW ?_ (fun _ _ _ _ => rfl))
        intro hreq
        obtain ⟨dst, d⟩ := p
        cases d with
        | require u c stp =>
          obtain ⟨o', ho', _⟩ := ha
          exact hto dst (hne_of_out dst (by rw [ho']; simp))
        | reserved => cases hreq
        | read r c stp => cases hreq
        | write r c stp => cases hreq
      · intro dst hwb
        refine hwb.mono (fun w hw' r c stp hed => ⟨by simpa using hw', by rw [hoe]; exact hed⟩)
  · intro u hu
    rw [h3] at hu
    rw [h5, h4]
    refine (h.i2 u hu).transfer hw hbf.wf.store hle ?_ (fun v _ hv => hv)
    intro v _ hv
    exact ⟨hoe v, hto v (hne_of_out v hv)⟩
  · intro a ha p hp
    rw [hoe] at hp
    exact (h.i3 a (List.mem_append_left _ ha) p hp).mono hcsub hle (hocons p.1)
      (fun _ _ _ _ => by rw [h5])
  · intro hnx n u c stp hp
    rw [hoe] at hp
    rcases h.reqOut n node u c stp hp with h1' | h1'
    · exact h1' hno
    · exact hnx h1'

/-- A just executed task that has no finished `require` edge pointing to it has no reader:
its marker can be dropped. -/
theorem dropP {node : Nat} {P : List Nat} (h : CIW ro sem body s ch X (node :: P))
    (ho : s.store.taskOutput node ≠ none)
    (hno : ∀ n u c stp, (node, Dep.require u c stp) ∉ s.store.g.outgoingEdges n) :
    CIW ro sem body s ch X P := by
  have hw := h.sw
  obtain ⟨tn, htn⟩ : ∃ tn, s.store.taskOf node = some tn := by
    cases hv : s.store.taskOutput node with
    | none => exact absurd hv ho
    | some v => exact Store.taskOf_of_output hv
  refine ⟨h.bf, h.roles, h.fsnd, h.faithful, h.qnd, h.qout, h.xq, h.orphan, h.reqOut, ?_, h.i2, h.i3⟩
  intro n hn hnx hnq p hp
  rcases h.i1 n hn hnx hnq p hp with h1 | h1 | ⟨h1, w, hwm, r', c', stp', hwe⟩
  · exact .inl h1
  · exact .inr (.inl h1)
  · rcases List.mem_append.mp hwm with hwm | hwm
    · exact .inr (.inr ⟨h1, w, List.mem_append_left _ hwm, r', c', stp', hwe⟩)
    · rcases List.mem_cons.mp hwm with rfl | hwm
      · exfalso
        obtain ⟨dst, d⟩ := p
        cases d with
        | read r c stp =>
          obtain ⟨_, dep, hdep⟩ := h.roles.reader_of_written hp hwe
          rcases hw.edge_to_task hdep htn with rfl | ⟨c2, stp2, rfl⟩
          · exact h.bf.nrd n hn (Store.mem_depsFrom_iff.mpr ⟨_, hdep⟩)
          · exact hno n tn c2 stp2 hdep
        | reserved => cases h1
        | require u c stp => cases h1
        | write r c stp => cases h1
      · exact .inr (.inr ⟨h1, w, List.mem_append_right _ hwm, r', c', stp', hwe⟩)

/-- **Scheduling the readers and requirers** of the executed task `node` (output `o`) and marking
it consistent: `s₃` is the state after the two scheduling loops. -/
theorem sched {s₃ : Sess} {node t : Nat} {o : Int} (h : CIW ro sem body s ch (node :: X) [node])
    (hX : ∀ x ∈ X, x ∈ ch) (hnX : node ∉ X)
    (ht : s.store.taskOf node = some t) (ho : s.store.taskOutput node = some o)
    (hfresh : FreshW ro sem s node) (hcore : SameCore s s₃) (hfs : s₃.fs = s.fs) (hw3 : SessWF s₃)
    (hqa : ∀ p ∈ s.queue, p ∈ s₃.queue) (hnd : s₃.queue.Nodup)
    (hqb : ∀ p ∈ s₃.queue, p ∈ s.queue ∨
      (∃ u c stamp, (node, Dep.require u c stamp) ∈ s.store.g.outgoingEdges p) ∨
      (∃ dst r c stamp, (dst, Dep.read r c stamp) ∈ s.store.g.outgoingEdges p ∧
        WrBy s.store [node] dst))
    (hqc : ∀ p u c stamp, (node, Dep.require u c stamp) ∈ s.store.g.outgoingEdges p →
      sem.ocheck c o stamp = false → p ∈ s₃.queue)
    (hqd : ∀ p dst r c stamp, (dst, Dep.read r c stamp) ∈ s.store.g.outgoingEdges p →
      WrBy s.store [node] dst → sem.rcheck c (aget s.fs r) stamp ≠ .ok true → p ∈ s₃.queue) :
    CIW ro sem body (s₃.markConsistent node) ch X [] := by
  have hw := h.sw
  obtain ⟨hst, hcur, hcons⟩ := hcore
  have hnode_busy : node ∈ s.queue ++ node :: X := by simp
  have hnq : node ∉ s.queue := h.xq node (List.mem_cons_self ..)
  have hnch : node ∉ ch := fun hc => by
    have := h.bf.noOut node hc; rw [ho] at this; cases this
  have hncons : node ∉ s.consistent := fun hc => (h.i2 node hc).not_mem hnode_busy
  -- the newly queued requirers have an output
  have hnewR : ∀ p u c stamp, (node, Dep.require u c stamp) ∈ s.store.g.outgoingEdges p →
      s.store.taskOutput p ≠ none ∧ p ≠ node := by
    intro p u c stamp hp
    have hne : p ≠ node := by
      rintro rfl
      exact hw.inv.acyclic p (Store.reach_of_mem_outgoingEdges hw hp)
    refine ⟨fun hpo => ?_, hne⟩
    have hpch : p ∈ ch := by
      by_cases hc : p ∈ ch
      · exact hc
      · rw [h.orphan p hpo hc] at hp; cases hp
    exact hncons (h.i3 p hpch _ hp).1
  -- the newly queued readers have an output and an edge to `node`
  have hnewD : ∀ p dst r c stamp, (dst, Dep.read r c stamp) ∈ s.store.g.outgoingEdges p →
      WrBy s.store [node] dst →
      s.store.taskOutput p ≠ none ∧ p ≠ node ∧ ∃ dep, (node, dep) ∈ s.store.g.outgoingEdges p := by
    intro p dst r c stamp hp hwb
    obtain ⟨w, hwm, r', c', stp', hwe⟩ := hwb
    simp only [List.mem_singleton] at hwm
    subst hwm
    obtain ⟨hrr, dep, hdep⟩ := h.roles.reader_of_written hp hwe
    subst hrr
    have hne : p ≠ w := by
      rintro rfl
      exact hw.inv.acyclic p (Store.reach_of_mem_outgoingEdges hw hdep)
    refine ⟨fun hpo => ?_, hne, dep, hdep⟩
    have hpch : p ∈ ch := by
      by_cases hc : p ∈ ch
      · exact hc
      · rw [h.orphan p hpo hc] at hp; cases hp
    obtain ⟨tw, htw, hg⟩ := h.roles.writer_gen hwe
    rw [ht] at htw; cases htw
    obtain ⟨n', hn', htn'⟩ := (h.i3 p hpch _ hp).2 t hg
    have : n' = w := hw.node_inj htn' ht
    subst this
    exact hncons hn'
  have hqout3 : ∀ n ∈ s₃.queue, s.store.taskOutput n ≠ none := by
    intro n hn
    rcases hqb n hn with hn | ⟨u, c, stamp, hp⟩ | ⟨dst, r, c, stamp, hp, hwb⟩
    · exact h.qout n hn
    · exact (hnewR n u c stamp hp).1
    · exact (hnewD n dst r c stamp hp hwb).1
  have hnq3 : node ∉ s₃.queue := by
    intro hn
    rcases hqb node hn with hn | ⟨u, c, stamp, hp⟩ | ⟨dst, r, c, stamp, hp, hwb⟩
    · exact hnq hn
    · exact (hnewR node u c stamp hp).2 rfl
    · exact (hnewD node dst r c stamp hp hwb).2.1 rfl
  have hbf3 : BFrames s₃ ch := h.bf.of_same hw3 hst hcur hcons
  -- the old consistent tasks stay clean
  have hold : ∀ u ∈ s.consistent, Clean sem s.store s.fs (s₃.queue ++ X) u := by
    intro u hu
    refine (h.i2 u hu).transfer hw hw (Store.Le.refl _) (fun v _ _ => ⟨rfl, rfl⟩) ?_
    intro v hv hm
    have hnot : ∀ dep, (node, dep) ∈ s.store.g.outgoingEdges v → False := by
      intro dep hp
      have : InCone s.store u node :=
        hv.tail ((Store.hasEdge_iff_mem_oe hw _ _).mpr ⟨_, hp⟩)
      exact absurd this ((h.i2 u hu).not_inCone (.inr hnode_busy) ⟨t, ht⟩)
    rcases List.mem_append.mp hm with hm | hm
    · rcases hqb v hm with hm | ⟨u', c, stamp, hp⟩ | ⟨dst, r, c, stamp, hp, hwb⟩
      · exact List.mem_append.mpr (.inl hm)
      · exact (hnot _ hp).elim
      · obtain ⟨_, _, dep, hdep⟩ := hnewD v dst r c stamp hp hwb
        exact (hnot _ hdep).elim
    · exact List.mem_append.mpr (.inr (List.mem_cons_of_mem _ hm))
  have hclean : Clean sem s.store s.fs (s₃.queue ++ X) node :=
    clean_of_freshW hw hfresh ht (by rw [ho]; simp)
      (fun hm => (List.mem_append.mp hm).elim hnq3 hnX) hold
  have hmark := hbf3.markConsistent (n := node) (by rw [hst, ho]; simp)
  refine ⟨hmark, by simpa [hst] using h.roles, by simpa [hfs] using h.fsnd,
    by simpa [hst] using h.faithful, by simpa using hnd, ?_, ?_, ?_, ?_, ?_, ?_, ?_⟩
  · intro n hn
    simp only [Sess.queue_markConsistent] at hn
    simp only [Sess.store_markConsistent, hst]
    exact hqout3 n hn
  · intro x hx hq
    simp only [Sess.queue_markConsistent] at hq
    exact hqout3 x hq (h.bf.noOut x (hX x hx))
  · intro n hn hc
    simp only [Sess.store_markConsistent, hst] at hn ⊢
    exact h.orphan n hn hc
  · intro n dst u c stp hp
    simp only [Sess.store_markConsistent, hst] at hp ⊢
    rcases h.reqOut n dst u c stp hp with h1 | h1
    · exact .inl h1
    · rcases List.mem_cons.mp h1 with rfl | h1
      · exact .inl (by rw [ho]; simp)
      · exact .inr h1
  · intro n hn hnx hnq'
    simp only [Sess.store_markConsistent, Sess.queue_markConsistent, Sess.fs_markConsistent,
      hst, hfs] at hn hnq' ⊢
    by_cases hnn : n = node
    · subst hnn
      exact (hclean.2 n (.inl rfl) ⟨t, ht⟩).2.1.scw _ _
    · have hx' : n ∉ node :: X := by
        intro hh
        rcases List.mem_cons.mp hh with hh | hh
        · exact hnn hh
        · exact hnx hh
      have hscx := h.i1 n hn hx' (fun hq => hnq' (hqa n hq))
      intro p hp
      rcases hscx p hp with hacc | ⟨hreq, hpx⟩ | ⟨hrd, hwb⟩
      · exact .inl hacc
      · rcases List.mem_cons.mp hpx with hpn | hpx
        · left
          obtain ⟨dst, d⟩ := p
          simp only at hpn; subst hpn
          cases d with
          | require u c stamp =>
            cases hck : sem.ocheck c o stamp with
            | true => exact ⟨o, ho, hck⟩
            | false => exact absurd (hqc n u c stamp hp hck) hnq'
          | reserved => cases hreq
          | read r c stamp => cases hreq
          | write r c stamp => cases hreq
        · exact .inr (.inl ⟨hreq, hpx⟩)
      · obtain ⟨w, hwm, r', c', stp', hwe⟩ := hwb
        rcases List.mem_append.mp hwm with hwm | hwm
        · exact .inr (.inr ⟨hrd, w, by simpa using hwm, r', c', stp', hwe⟩)
        · simp only [List.mem_singleton] at hwm
          subst hwm
          left
          obtain ⟨dst, d⟩ := p
          cases d with
          | read r c stamp =>
            apply Classical.byContradiction
            intro hck
            exact hnq' (hqd n dst r c stamp hp ⟨w, by simp, r', c', stp', hwe⟩ hck)
          | reserved => cases hrd
          | require u c stamp => cases hrd
          | write r c stamp => cases hrd
  · intro u hu
    simp only [Sess.store_markConsistent, Sess.queue_markConsistent, Sess.fs_markConsistent, hst,
      hfs]
    rcases (Sess.mem_markConsistent s₃ node u).mp hu with hu | rfl
    · exact hold u (hcons ▸ hu)
    · exact hclean
  · intro a ha p hp
    simp only [Sess.store_markConsistent, hst] at hp
    refine (h.i3 a ha p hp).mono ?_ (by simp [hst, Store.Le.refl]) ?_ ?_
    · intro n hn
      exact (Sess.mem_markConsistent s₃ node n).mpr (.inl (hcons ▸ hn))
    · intro _; simp [hst]
    · intro _ _ _ _; simp [hfs]

end CIW
end PieModel
