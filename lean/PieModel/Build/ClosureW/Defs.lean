/-
Bottom-up closure for programs WITH writes (property C03, static roles): definitions.

The resources change during the build (tasks write), so shallow consistency is always taken
w.r.t. the CURRENT resource state `s.fs`.  Compared with `Build/Closure/Defs.lean`:

* `WrBy st B dst` — a node of `B` has a recorded write dependency on the resource node `dst`;
* `SCw` — shallow consistency up to the `require` edges into the exempt set `X` (popped from the
  queue, requirers not re-checked yet) AND up to the `read` edges into resources written by a task
  of `B` (executing, or executed and readers not re-checked yet);
* `StackDepW`, `FreshW` — what is known of the edges of an executing / just executed task: a
  `read` stamp is accepted and the generator of the resource (if any) is consistent in the
  session; a `write` stamp is accepted;
* `CIW s ch X P` — the invariant of the bottom-up build: `ch` executing stack, `X` exempt nodes,
  `P` the task that was just executed and whose readers/requirers have not been scheduled yet.
-/
import PieModel.Build.Closure.Sources
import PieModel.Build.SoundW.Outcome
import PieModel.Build.RolesBottomUp

namespace PieModel

variable (ro : Roles) (sem : Sem) (body : Nat → Prog)

/-- A node of `B` has a recorded write dependency on the (resource) node `dst`. -/
def WrBy (st : Store) (B : List Nat) (dst : Nat) : Prop :=
  ∃ w ∈ B, ∃ r c stp, (dst, Dep.write r c stp) ∈ st.g.outgoingEdges w

/-- Shallow consistency of `n` w.r.t. `fs`, up to `require` edges into `X` and `read` edges into
resources written by a node of `B`. -/
def SCw (st : Store) (fs : List (Nat × Int)) (X B : List Nat) (n : Nat) : Prop :=
  ∀ p ∈ st.g.outgoingEdges n, EdgeAcc sem st fs p.1 p.2 ∨ (p.2.isRequire = true ∧ p.1 ∈ X) ∨
    (p.2.isRead = true ∧ WrBy st B p.1)

/-- What is known of an edge `(dst, d)` of a task on the executing stack. -/
def StackDepW (s : Sess) (dst : Nat) : Dep → Prop
  | .reserved => True
  | .require _ c stamp => dst ∈ s.consistent ∧
      ∃ o, s.store.taskOutput dst = some o ∧ sem.ocheck c o stamp = true
  | .read r c stamp => sem.rcheck c (aget s.fs r) stamp = .ok true ∧
      ∀ w, ro.gen r = some w → ConsT s w
  | .write r c stamp => sem.rcheck c (aget s.fs r) stamp = .ok true

/-- All edges of `node` are finished ones in the sense of `StackDepW`. -/
def FreshW (s : Sess) (node : Nat) : Prop :=
  ∀ p ∈ s.store.g.outgoingEdges node, StackDepW ro sem s p.1 p.2 ∧ p.2 ≠ .reserved

/-- **The invariant of the bottom-up build, with writes.** -/
structure CIW (s : Sess) (ch X P : List Nat) : Prop where
  /-- the executing-stack invariant -/
  bf : BFrames s ch
  roles : RolesInv ro s.store
  fsnd : (akeys s.fs).Nodup
  faithful : FaithfulO sem body s.store
  qnd : s.queue.Nodup
  /-- queued nodes have an output -/
  qout : ∀ n ∈ s.queue, s.store.taskOutput n ≠ none
  xq : ∀ x ∈ X, x ∉ s.queue
  /-- a node without output that is not executing has no recorded dependencies -/
  orphan : ∀ n, s.store.taskOutput n = none → n ∉ ch → s.store.g.outgoingEdges n = []
  /-- a finished `require` edge points to a task with output, or to an exempt one -/
  reqOut : ∀ n dst u c stp, (dst, Dep.require u c stp) ∈ s.store.g.outgoingEdges n →
    s.store.taskOutput dst ≠ none ∨ dst ∈ X
  /-- (I1) every task with output that is not shallow-consistent (up to the exemptions) is queued
  or exempt -/
  i1 : ∀ n, s.store.taskOutput n ≠ none → n ∉ X → n ∉ s.queue →
    SCw sem s.store s.fs X (ch ++ P) n
  /-- (I2) every consistent task is clean w.r.t. the current resources -/
  i2 : ∀ n ∈ s.consistent, Clean sem s.store s.fs (s.queue ++ X) n
  /-- the edges of the executing tasks -/
  i3 : ∀ a ∈ ch, ∀ p ∈ s.store.g.outgoingEdges a, StackDepW ro sem s p.1 p.2

variable {ro sem body}

/-! ### `WrBy`, `SCw` -/

theorem WrBy.mono {st st' : Store} {B B' : List Nat} {dst : Nat} (h : WrBy st B dst)
    (hb : ∀ w ∈ B, ∀ r c stp, (dst, Dep.write r c stp) ∈ st.g.outgoingEdges w →
      w ∈ B' ∧ (dst, Dep.write r c stp) ∈ st'.g.outgoingEdges w) : WrBy st' B' dst := by
  obtain ⟨w, hw, r, c, stp, he⟩ := h
  exact ⟨w, (hb w hw r c stp he).1, r, c, stp, (hb w hw r c stp he).2⟩

theorem WrBy.subset {st : Store} {B B' : List Nat} {dst : Nat} (h : WrBy st B dst)
    (hb : ∀ w ∈ B, w ∈ B') : WrBy st B' dst :=
  h.mono (fun w hw _ _ _ he => ⟨hb w hw, he⟩)

theorem WrBy.nil {st : Store} {dst : Nat} : ¬ WrBy st [] dst := by
  rintro ⟨w, hw, _⟩; cases hw

theorem SC.scw {st : Store} {fs : List (Nat × Int)} {n : Nat} (h : SC sem st fs n)
    (X B : List Nat) : SCw sem st fs X B n := fun p hp => .inl (h p hp)

theorem SCw.nil {st : Store} {fs : List (Nat × Int)} {n : Nat} (h : SCw sem st fs [] [] n) :
    SC sem st fs n := fun p hp => by
  rcases h p hp with h | ⟨_, h⟩ | ⟨_, h⟩
  · exact h
  · cases h
  · exact absurd h WrBy.nil

/-- The generic transfer of `SCw`: same edges of `n`, every accepted edge stays accepted or
becomes exempt, the exemptions only grow. -/
theorem SCw.transfer {st st' : Store} {fs fs' : List (Nat × Int)} {X X' B B' : List Nat} {n : Nat}
    (h : SCw sem st fs X B n) (he : st'.g.outgoingEdges n = st.g.outgoingEdges n)
    (hacc : ∀ p ∈ st.g.outgoingEdges n, EdgeAcc sem st fs p.1 p.2 →
      EdgeAcc sem st' fs' p.1 p.2 ∨ (p.2.isRequire = true ∧ p.1 ∈ X') ∨
        (p.2.isRead = true ∧ WrBy st' B' p.1))
    (hx : ∀ x ∈ X, x ∈ X') (hb : ∀ dst, WrBy st B dst → WrBy st' B' dst) :
    SCw sem st' fs' X' B' n := by
  intro p hp
  rw [he] at hp
  rcases h p hp with h1 | ⟨h1, h2⟩ | ⟨h1, h2⟩
  · exact hacc p hp h1
  · exact .inr (.inl ⟨h1, hx _ h2⟩)
  · exact .inr (.inr ⟨h1, hb _ h2⟩)

theorem SCw.mono {st : Store} {fs : List (Nat × Int)} {X X' B B' : List Nat} {n : Nat}
    (h : SCw sem st fs X B n) (hx : ∀ x ∈ X, x ∈ X') (hb : ∀ w ∈ B, w ∈ B') :
    SCw sem st fs X' B' n :=
  h.transfer rfl (fun _ _ ha => .inl ha) hx (fun _ hw => hw.subset hb)

/-- `EdgeAcc` depends on the output of the target and on the content of the resource only. -/
theorem EdgeAcc.congrW {st st' : Store} {fs fs' : List (Nat × Int)} {dst : Nat} {d : Dep}
    (h : EdgeAcc sem st fs dst d) (ho : d.isRequire = true → st'.taskOutput dst = st.taskOutput dst)
    (hf : ∀ r c stp, (d = .read r c stp ∨ d = .write r c stp) → aget fs' r = aget fs r) :
    EdgeAcc sem st' fs' dst d := by
  cases d with
  | reserved => exact h
  | require u c stp =>
    obtain ⟨o, h1, h2⟩ := h
    exact ⟨o, by rw [ho rfl]; exact h1, h2⟩
  | read r c stp =>
    show sem.rcheck c (aget fs' r) stp = .ok true
    rw [hf r c stp (.inl rfl)]; exact h
  | write r c stp =>
    show sem.rcheck c (aget fs' r) stp = .ok true
    rw [hf r c stp (.inr rfl)]; exact h

/-! ### `Clean` under a change of the resources -/

/-- A change of resources that no member of the cone of `u` reads or writes keeps `u` clean. -/
theorem Clean.fs_change {st : Store} {fs fs' : List (Nat × Int)} {q : List Nat} {u : Nat}
    (h : Clean sem st fs q u)
    (hrw : ∀ v, InCone st u v → st.taskOutput v ≠ none → ∀ dst r c stp,
      ((dst, Dep.read r c stp) ∈ st.g.outgoingEdges v ∨
        (dst, Dep.write r c stp) ∈ st.g.outgoingEdges v) → aget fs' r = aget fs r) :
    Clean sem st fs' q u := by
  refine ⟨h.1, fun v hv htv => ?_⟩
  obtain ⟨h1, h2, h3⟩ := h.2 v hv htv
  refine ⟨h1, fun p hp => ?_, h3⟩
  refine (h2 p hp).congrW (fun _ => rfl) ?_
  intro r c stp hd
  obtain ⟨dst, d⟩ := p
  rcases hd with hd | hd
  · simp only at hd; subst hd; exact hrw v hv h1 dst r c stp (.inl hp)
  · simp only at hd; subst hd; exact hrw v hv h1 dst r c stp (.inr hp)

/-! ### `StackDepW` -/

theorem StackDepW.mono {s s' : Sess} {dst : Nat} {d : Dep} (h : StackDepW ro sem s dst d)
    (hc : ∀ n ∈ s.consistent, n ∈ s'.consistent) (hle : s.store.Le s'.store)
    (ho : dst ∈ s.consistent → s'.store.taskOutput dst = s.store.taskOutput dst)
    (hf : ∀ r c stp, (d = .read r c stp ∨ d = .write r c stp) → aget s'.fs r = aget s.fs r) :
    StackDepW ro sem s' dst d := by
  cases d with
  | reserved => trivial
  | require u c stamp => exact ⟨hc _ h.1, by rw [ho h.1]; exact h.2⟩
  | read r c stamp =>
    refine ⟨?_, fun w hw => (h.2 w hw).mono hc hle⟩
    rw [hf r c stamp (.inl rfl)]; exact h.1
  | write r c stamp =>
    show sem.rcheck c (aget s'.fs r) stamp = .ok true
    rw [hf r c stamp (.inr rfl)]; exact h

/-- `StackDepW` depends on `consistent`, the store's task nodes, the output of the target and
the resources only. -/
theorem StackDepW.congr {s s' : Sess} {dst : Nat} {d : Dep} (h : StackDepW ro sem s dst d)
    (hc : s'.consistent = s.consistent) (hle : s.store.Le s'.store)
    (ho : s'.store.taskOutput dst = s.store.taskOutput dst) (hf : s'.fs = s.fs) :
    StackDepW ro sem s' dst d :=
  h.mono (fun _ hn => hc ▸ hn) hle (fun _ => ho) (fun _ _ _ _ => by rw [hf])

/-- A fresh task is shallow-consistent. -/
theorem FreshW.sc {s : Sess} {node : Nat} (hf : FreshW ro sem s node) :
    SC sem s.store s.fs node := by
  intro p hp
  obtain ⟨h1, h2⟩ := hf p hp
  obtain ⟨dst, d⟩ := p
  cases d with
  | reserved => exact absurd rfl h2
  | require u c stamp => exact h1.2
  | read r c stamp => exact h1.1
  | write r c stamp => exact h1

/-! ### consequences of the roles -/

/-- The node of a resource is unique. -/
theorem Store.WF.resOf_inj {st : Store} (hw : st.WF) {a b r : Nat} (ha : st.resOf a = some r)
    (hb : st.resOf b = some r) : a = b := by
  have h1 := (hw.res_iff r a).mpr ha
  have h2 := (hw.res_iff r b).mpr hb
  rw [h1] at h2; exact Option.some.inj h2

/-- An edge from a task with output to a task node is a finished `require`. -/
theorem Store.WF.edge_to_task {st : Store} (hw : st.WF) {n m u : Nat} {dep : Dep}
    (he : (m, dep) ∈ st.g.outgoingEdges n) (hm : st.taskOf m = some u) :
    dep = .reserved ∨ ∃ c stp, dep = .require u c stp := by
  have hok := (hw.mem_outgoingEdges_ok he).2
  cases dep with
  | reserved => exact .inl rfl
  | require u' c stp =>
    have : st.taskOf m = some u' := hok
    rw [hm] at this; cases this
    exact .inr ⟨c, stp, rfl⟩
  | read r c stp =>
    have : st.resOf m = some r := hok
    rw [Store.resOf_eq_none_of_taskOf hm] at this; cases this
  | write r c stp =>
    have : st.resOf m = some r := hok
    rw [Store.resOf_eq_none_of_taskOf hm] at this; cases this

/-- The reader of a resource generated by the task of node `g` has an edge to `g`. -/
theorem RolesInv.reader_edge {st : Store} (hi : RolesInv ro st) {n dst r c g tg : Nat} {stp : Stamp}
    (he : (dst, Dep.read r c stp) ∈ st.g.outgoingEdges n) (hg : ro.gen r = some tg)
    (htg : st.taskOf g = some tg) : ∃ dep, (g, dep) ∈ st.g.outgoingEdges n := by
  obtain ⟨nw, dep, h1, h2⟩ := hi.read n dst r c stp tg
    ((Dag.mem_outgoingEdges hi.wf.gwf _ _ _).mp he) hg
  have : nw = g := hi.wf.node_inj h1 htg
  subst this
  exact ⟨dep, (Dag.mem_outgoingEdges hi.wf.gwf _ _ _).mpr h2⟩

/-- The source of a write edge is the node of the generator. -/
theorem RolesInv.writer_gen {st : Store} (hi : RolesInv ro st) {n dst r c : Nat} {stp : Stamp}
    (he : (dst, Dep.write r c stp) ∈ st.g.outgoingEdges n) :
    ∃ t, st.taskOf n = some t ∧ ro.gen r = some t := by
  obtain ⟨t, ht⟩ := (hi.wf.mem_outgoingEdges_ok he).1
  exact ⟨t, ht, hi.write n dst r c stp t ((Dag.mem_outgoingEdges hi.wf.gwf _ _ _).mp he) ht⟩

/-- A reader of a resource node that `w` writes has an edge to `w`. -/
theorem RolesInv.reader_of_written {st : Store} (hi : RolesInv ro st) {n w dst r c r' c' : Nat}
    {stp stp' : Stamp} (he : (dst, Dep.read r c stp) ∈ st.g.outgoingEdges n)
    (hw : (dst, Dep.write r' c' stp') ∈ st.g.outgoingEdges w) :
    r' = r ∧ ∃ dep, (w, dep) ∈ st.g.outgoingEdges n := by
  have h1 : st.resOf dst = some r := (hi.wf.mem_outgoingEdges_ok he).2
  have h2 : st.resOf dst = some r' := (hi.wf.mem_outgoingEdges_ok hw).2
  rw [h1] at h2; cases h2
  obtain ⟨t, ht, hg⟩ := hi.writer_gen hw
  exact ⟨rfl, hi.reader_edge he hg ht⟩

/-! ### the invariant: generic transport -/

namespace CIW
variable {s s' : Sess} {ch X P : List Nat}

theorem wf (h : CIW ro sem body s ch X P) : SessWF s := h.bf.wf

theorem sw (h : CIW ro sem body s ch X P) : s.store.WF := h.bf.wf.store

/-- Consistent tasks are not executing. -/
theorem i5 (h : CIW ro sem body s ch X P) {n : Nat} (hn : n ∈ s.consistent) : n ∉ ch :=
  fun hc => (h.i2 n hn).out (h.bf.noOut n hc)

/-- Executing tasks are not queued. -/
theorem stack_not_queued (h : CIW ro sem body s ch X P) {n : Nat} (hn : n ∈ ch) : n ∉ s.queue :=
  fun hq => h.qout n hq (h.bf.noOut n hn)

/-- A consistent task is not the task of an executing node. -/
theorem consT_not_stack (h : CIW ro sem body s ch X P) {a t : Nat} (ha : a ∈ ch)
    (ht : s.store.taskOf a = some t) : ¬ ConsT s t := by
  rintro ⟨n, hn, htn⟩
  have : n = a := h.sw.node_inj htn ht
  subst this
  exact h.i5 hn ha

/-- A store step that keeps all outputs, the edges of all nodes that are not executing, the
write edges of the executing ones, and `fs`, `queue`, `consistent`. -/
theorem frame (h : CIW ro sem body s ch X P) (hbf : BFrames s' ch) (hro : RolesInv ro s'.store)
    (hfs : s'.fs = s.fs) (hq : s'.queue = s.queue) (hc : s'.consistent = s.consistent)
    (hle : s.store.Le s'.store)
    (ho : ∀ n, s'.store.taskOutput n = s.store.taskOutput n)
    (he : ∀ n, n ∉ ch → s'.store.g.outgoingEdges n = s.store.g.outgoingEdges n)
    (hwr : ∀ a ∈ ch, ∀ dst r c stp, (dst, Dep.write r c stp) ∈ s.store.g.outgoingEdges a →
      (dst, Dep.write r c stp) ∈ s'.store.g.outgoingEdges a)
    (h3 : ∀ a ∈ ch, ∀ p ∈ s'.store.g.outgoingEdges a, StackDepW ro sem s' p.1 p.2) :
    CIW ro sem body s' ch X P := by
  have hnch : ∀ n, s.store.taskOutput n ≠ none → n ∉ ch := fun n hn hc => hn (h.bf.noOut n hc)
  have hwb : ∀ dst, WrBy s.store (ch ++ P) dst → WrBy s'.store (ch ++ P) dst := by
    intro dst hw
    refine hw.mono (fun w hw r c stp hed => ⟨hw, ?_⟩)
    by_cases hwc : w ∈ ch
    · exact hwr w hwc dst r c stp hed
    · rw [he w hwc]; exact hed
  refine ⟨hbf, hro, hfs ▸ h.fsnd, ?_, hq ▸ h.qnd, ?_, ?_, ?_, ?_, ?_, ?_, h3⟩
  · intro n t v ht hv
    rw [ho] at hv
    obtain ⟨t0, ht0⟩ := Store.taskOf_of_output hv
    have := hle.task _ _ ht0
    rw [ht] at this; cases this
    rw [(Store.outgoing_obs_congr (he n (hnch n (by rw [hv]; simp)))).1]
    exact h.faithful n t v ht0 hv
  · intro n hn; rw [hq] at hn; rw [ho]; exact h.qout n hn
  · intro x hx; rw [hq]; exact h.xq x hx
  · intro n hn hc'; rw [ho] at hn; rw [he n hc']; exact h.orphan n hn hc'
  · intro n dst u c stp hp
    by_cases hn : n ∈ ch
    · exact .inl (by
        obtain ⟨_, o, h1, _⟩ := h3 n hn _ hp
        rw [h1]; simp)
    · rw [he n hn] at hp
      rw [ho]; exact h.reqOut n dst u c stp hp
  · intro n hn hx hnq
    rw [ho] at hn; rw [hq] at hnq
    rw [hfs]
    refine (h.i1 n hn hx hnq).transfer (he n (hnch n hn)) ?_ (fun _ hx => hx) hwb
    intro p _ ha
    exact .inl (ha.congrW (fun _ => ho p.1) (fun _ _ _ _ => rfl))
  · intro n hn
    rw [hc] at hn
    rw [hfs, hq]
    exact (h.i2 n hn).transfer h.sw hbf.wf.store hle (fun v _ hv => ⟨he v (hnch v hv), ho v⟩)
      (fun v _ hv => hv)

/-- A step that touches neither store, `cur`, `consistent`, `queue` nor `fs`. -/
theorem of_eq (h : CIW ro sem body s ch X P) (h1 : s'.store = s.store) (h2 : s'.cur = s.cur)
    (h3 : s'.consistent = s.consistent) (h4 : s'.queue = s.queue) (h5 : s'.fs = s.fs) :
    CIW ro sem body s' ch X P := by
  have hbf : BFrames s' ch := h.bf.of_same (h.wf.same h1 h2 h4).wf h1 h2 h3
  refine h.frame hbf (h1 ▸ h.roles) h5 h4 h3 (h1 ▸ Store.Le.refl _) (fun n => by rw [h1])
    (fun n _ => by rw [h1]) (fun a _ dst r c stp hp => by rw [h1]; exact hp) ?_
  intro a ha p hp
  rw [h1] at hp
  exact (h.i3 a ha p hp).congr h3 (h1 ▸ Store.Le.refl _) (by rw [h1]) h5

theorem emit (h : CIW ro sem body s ch X P) (e : Ev) : CIW ro sem body (s.emit e) ch X P :=
  h.of_eq rfl rfl rfl rfl rfl

/-- Marking a clean task consistent. -/
theorem mark (h : CIW ro sem body s ch X P) {dst : Nat}
    (hcl : Clean sem s.store s.fs (s.queue ++ X) dst) :
    CIW ro sem body (s.markConsistent dst) ch X P := by
  refine ⟨h.bf.markConsistent hcl.out, by simpa using h.roles, by simpa using h.fsnd,
    by simpa using h.faithful, by simpa using h.qnd, by simpa using h.qout, by simpa using h.xq,
    by simpa using h.orphan, by simpa using h.reqOut, by simpa using h.i1, ?_, ?_⟩
  · intro n hn
    simp only [Sess.store_markConsistent, Sess.queue_markConsistent, Sess.fs_markConsistent]
    rcases (Sess.mem_markConsistent s dst n).mp hn with hn | rfl
    · exact h.i2 n hn
    · exact hcl
  · intro a ha p hp
    simp only [Sess.store_markConsistent] at hp
    exact (h.i3 a ha p hp).mono (fun n hn => (Sess.mem_markConsistent s dst n).mpr (.inl hn))
      (by simp [Store.Le.refl]) (fun _ => by simp) (fun _ _ _ _ => by simp)

/-- Popping `m` from the queue: `m` becomes exempt. -/
theorem popQueue (h : CIW ro sem body s ch X P) {m : Nat} {q' : List Nat}
    (hp : (m :: q').Perm s.queue) : CIW ro sem body { s with queue := q' } ch (m :: X) P := by
  have hnd : (m :: q').Nodup := hp.nodup_iff.mpr h.qnd
  have hsub : ∀ v, v ∈ q' → v ∈ s.queue := fun v hv => hp.subset (List.mem_cons_of_mem _ hv)
  have hbf : BFrames { s with queue := q' } ch :=
    h.bf.of_same (h.wf.subQueue (fun v hv => hsub v hv)).wf rfl rfl rfl
  refine ⟨hbf, h.roles, h.fsnd, h.faithful, (List.nodup_cons.mp hnd).2,
    fun n hn => h.qout n (hsub n hn), ?_, h.orphan, ?_, ?_, ?_, ?_⟩
  · intro x hx
    rcases List.mem_cons.mp hx with rfl | hx
    · exact (List.nodup_cons.mp hnd).1
    · exact fun hq => h.xq x hx (hsub x hq)
  · intro n dst u c stp he
    exact (h.reqOut n dst u c stp he).imp id (fun hx => List.mem_cons_of_mem _ hx)
  · intro n hn hx hq
    have hx' : n ∉ X := fun hh => hx (List.mem_cons_of_mem _ hh)
    have hq' : n ∉ s.queue := by
      intro hh
      rcases List.mem_cons.mp (hp.symm.subset hh) with rfl | hh
      · exact hx (List.mem_cons_self ..)
      · exact hq hh
    exact (h.i1 n hn hx' hq').mono (fun x hx => List.mem_cons_of_mem _ hx) (fun _ hw => hw)
  · intro n hn
    refine (h.i2 n hn).mono ?_
    intro v hv
    rcases List.mem_append.mp hv with hv | hv
    · exact List.mem_append.mpr (.inl (hsub v hv))
    · rcases List.mem_cons.mp hv with rfl | hv
      · exact List.mem_append.mpr (.inl (hp.subset (List.mem_cons_self ..)))
      · exact List.mem_append.mpr (.inr hv)
  · intro a ha p hp'
    exact (h.i3 a ha p hp').congr rfl (Store.Le.refl _) rfl rfl

end CIW
end PieModel
