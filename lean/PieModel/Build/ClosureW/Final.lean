/-
Bottom-up closure with writes: the joint induction, `buExecuteScheduled`, and `bottomUpBuild`.
-/
import PieModel.Build.ClosureW.Run
import PieModel.Build.ClosureW.Require
import PieModel.Build.ClosureW.Exec
import PieModel.Build.ClosureW.Make
import PieModel.Build.ClosureW.Start

namespace PieModel

variable {ro : Roles} {sem : Sem} {body : Nat → Prog}

section
variable (hst : StampTotal sem) (hrefl : Reflexive sem) (hwf : WellFormedBody ro body)
  (hone : ∀ t, OneChecker (body t))
include hst hrefl hwf hone

/-- **The joint induction**: the invariant of the bottom-up build is preserved by the six
mutually recursive functions of the bottom-up context, for every fuel, when they return. -/
theorem buClosW (f : Nat) : BuClosW ro sem body f := by
  induction f with
  | zero => exact BuClosW.zero
  | succ f ih =>
    exact ⟨ih.require_succ hrefl, ih.make_succ, ih.exec_succ hwf hone, ih.execAndSchedule_succ,
      ih.requireNow_succ, ih.run_succ hst hrefl hwf⟩

/-- `execute_scheduled`: the invariant is kept, and the queue is empty at the end. -/
theorem buExecuteScheduled_closureW (f : Nat) : ∀ (s : Sess), CIW ro sem body s [] [] [] →
    TI s [] [] → ∀ s', buExecuteScheduled sem body f s = (s', .ok ()) →
      CIW ro sem body s' [] [] [] ∧ TI s' [] [] ∧ s'.queue = [] ∧ MonoW ro s s' := by
  induction f with
  | zero => intro s _ _ s' heq; unfold buExecuteScheduled at heq; cases heq
  | succ f ih =>
    intro s h hti s' heq
    unfold buExecuteScheduled at heq
    split at heq
    next hq =>
      cases heq
      exact ⟨h, hti, queuePop_eq_none.mp hq, MonoW.refl _⟩
    next n q hq =>
      have c1 := h.popQueue (queuePop_perm_cons hq)
      have t1 : TI ({ s with queue := q } : Sess) [] [] :=
        hti.transfer (fun _ => rfl) (Store.Le.refl _) (fun _ hn => hn)
      have m1 : MonoW ro s ({ s with queue := q } : Sess) := MonoW.of_eq rfl rfl rfl
      split at heq
      next s2 k heq2 => cases heq
      next s2 o heq2 =>
        obtain ⟨c2, t2, m2, _, _⟩ := (buClosW hst hrefl hwf hone f).execAndSchedule
          ({ s with queue := q } : Sess) [] [] n c1 t1 (fun _ hx => (nomatch hx))
          (fun hx => (nomatch hx)) (fun _ hx => (nomatch hx)) s2 o heq2
        obtain ⟨c3, t3, hq3, m3⟩ := ih s2 c2 t2 s' heq
        exact ⟨c3, t3, hq3, (m1.trans m2).trans m3⟩

end

/-- The facts about the state after a returning bottom-up build (programs with writes). -/
structure BuClosedW (ro : Roles) (sem : Sem) (body : Nat → Prog) (s : Sess) : Prop where
  /-- the `Pie` left behind satisfies the invariants of C01 in full -/
  inv : PieInvW ro sem body s.toPie
  orphan : NoOrphan s.store
  queue : s.queue = []
  /-- every task with an output is shallow-consistent w.r.t. the CURRENT resources -/
  sc : ∀ n, s.store.taskOutput n ≠ none → SC sem s.store s.fs n
  once : ∀ t, countExec t s.trace ≤ 1
  /-- every executed task is consistent in the session -/
  exd : ∀ t, 1 ≤ countExec t s.trace → ∃ n, s.store.taskOf n = some t ∧ n ∈ s.consistent

theorem BuClosedW.of_ciw {s : Sess} (h : CIW ro sem body s [] [] []) (hti : TI s [] [])
    (hq : s.queue = []) : BuClosedW ro sem body s :=
  ⟨⟨h.sw, h.roles, h.faithful, h.fsnd⟩, fun n hn => h.orphan n hn (fun hc => (nomatch hc)), hq,
    fun n hn => (h.i1 n hn (fun hc => (nomatch hc))
      (by rw [hq]; exact fun hc => (nomatch hc))).nil,
    hti.once, fun t ht => by
      obtain ⟨n, h1, h2⟩ := hti.exd t ht
      rcases h2 with h2 | h2 | h2
      · exact ⟨n, h1, h2⟩
      · cases h2
      · cases h2⟩

section
variable (hst : StampTotal sem) (hrefl : Reflexive sem) (hwf : WellFormedBody ro body)
  (hone : ∀ t, OneChecker (body t)) {p : PieSt} {changed : List Nat}
  (hp : PieInvW ro sem body p) (hno : NoOrphan p.store)
  (hsr : ShallowReq sem p.store) (hrep : Reported sem p.store p.fs changed)
include hst hrefl hwf hone hp hno hsr hrep

/-- **Closure**: after a returning bottom-up build, the queue is empty and every task with an
output is shallow-consistent w.r.t. the resource state the build leaves; the `Pie` left behind
satisfies `PieInvW`; resources that no task generates are untouched. -/
theorem bottomUpBuild_closedW (fuel : Nat) (s' : Sess)
    (hr : bottomUpBuild sem body fuel p.newSession changed = (s', .ok ())) :
    BuClosedW ro sem body s' ∧ ∀ r, ro.gen r = none → aget s'.fs r = aget p.fs r := by
  rw [bottomUpBuild_eq] at hr
  obtain ⟨c0, t0⟩ := ciw_start (ro := ro) (sem := sem) (body := body) (p := p)
    (changed := changed) hp hno hsr hrep
  have hfs0 : (buStart sem p changed).fs = p.fs := (schedAll_newSession sem p changed hp.wf).2.2.1
  split at hr
  next s2 k heq => cases hr
  next s2 heq =>
    cases hr
    obtain ⟨c2, t2, hq2, m2⟩ := buExecuteScheduled_closureW hst hrefl hwf hone fuel _ c0 t0 s2 heq
    refine ⟨BuClosedW.of_ciw (c2.emit .buildEnd) (t2.emit .buildEnd (fun _ => rfl)) hq2, ?_⟩
    intro r hg
    show aget s2.fs r = aget p.fs r
    rw [m2.fs r (fun w hw => by rw [hg] at hw; cases hw), hfs0]

end
end PieModel
