/-
Bottom-up closure with writes: the successor steps of `buExec` and `buExecAndSchedule`.
-/
import PieModel.Build.ClosureW.Induct

namespace PieModel

variable {ro : Roles} {sem : Sem} {body : Nat → Prog}

theorem BuClosW.exec_succ (hwf : WellFormedBody ro body) (hone : ∀ t, OneChecker (body t))
    {f : Nat} (ih : BuClosW ro sem body f) (s : Sess) (ch X : List Nat) (t node : Nat)
    (h : CIW ro sem body s ch X []) (hti : TI s ch []) (hX : ∀ x ∈ X, x ∈ ch ∨ x = node)
    (ht : s.store.taskOf node = some t) (hr : ∀ x ∈ ch, s.store.g.Reach x node)
    (hx : node ∈ X ∨ s.store.taskOutput node = none)
    (s' : Sess) (v : Int) (heq : buExec sem body (f + 1) s t node = (s', .ok v)) :
    CIW ro sem body s' ch X [node] ∧ TI s' ch [node] ∧ MonoW ro s s' ∧
      s'.store.taskOutput node = some v ∧ FreshW ro sem s' node ∧ node ∉ s'.queue ∧
      (node ∉ X → ∀ n u c stp, (node, Dep.require u c stp) ∉ s'.store.g.outgoingEdges n) := by
  have hw := h.sw
  obtain ⟨c1, hncons, hnch, hnq⟩ := h.push ht hr hx (.executeStart t)
  have t1 := hti.push hw ht hncons hnch
  have hnr1 : Dep.reserved ∉ (({ s with store := s.store.resetTask node, cur := some node } :
      Sess).emit (.executeStart t)).store.depsFrom node := by
    show Dep.reserved ∉ (s.store.resetTask node).depsFrom node
    rw [Store.depsFrom_resetTask hw, if_pos rfl]; simp
  have hdeps1 : (({ s with store := s.store.resetTask node, cur := some node } :
      Sess).emit (.executeStart t)).store.depsFrom node = [] := by
    show (s.store.resetTask node).depsFrom node = []
    rw [Store.depsFrom_resetTask hw, if_pos rfl]
  have hri1 : RunInvW ro sem [] []
      (({ s with store := s.store.resetTask node, cur := some node } : Sess).emit
        (.executeStart t)) node := by
    intro dst d hd
    have hd' : (dst, d) ∈ (s.store.resetTask node).g.outgoingEdges node := hd
    rw [Store.outgoingEdges_resetTask hw, if_pos rfl] at hd'
    cases hd'
  have hX1 : ∀ x ∈ X, x ∈ ch ++ [node] := by
    intro x hx'
    rcases hX x hx' with h' | h'
    · exact List.mem_append_left _ h'
    · simp [h']
  have ht1 : (({ s with store := s.store.resetTask node, cur := some node } :
      Sess).emit (.executeStart t)).store.taskOf node = some t := by
    show (s.store.resetTask node).taskOf node = some t
    rw [Store.taskOf_resetTask hw]; exact ht
  have ha1 : AccOK (({ s with store := s.store.resetTask node, cur := some node } :
      Sess).emit (.executeStart t)).store node {} := AccOK.start hw node
  have m1 : MonoW ro s (({ s with store := s.store.resetTask node, cur := some node } :
      Sess).emit (.executeStart t)) := by
    refine ⟨fun n hn => ⟨hn, ?_⟩, Store.le_resetTask hw node, fun _ _ => rfl⟩
    show (s.store.resetTask node).taskOutput n = _
    rw [Store.taskOutput_resetTask hw, if_neg (fun (hnn : n = node) => hncons (hnn ▸ hn))]
  unfold buExec at heq
  simp only [] at heq
  split at heq
  next s3 k heq3 => cases heq
  next s3 o heq3 =>
    obtain ⟨c3, t3, m3, hnr3, new, hnew, hrep3⟩ := ih.run _ ch node X (body t) t {} [] [] c1 t1
      hX1 hnr1 ht1 (hwf t) ha1 (hone t) hri1 s3 o heq3
    cases heq
    have ht3 : s3.store.taskOf node = some t := m3.le.task _ _ ht1
    have hrep : ReplayO sem (body t) [] (s3.store.depsFrom node) v := by
      rw [hnew, hdeps1]
      rw [hdeps1] at hrep3
      simpa using hrep3
    obtain ⟨c4, ho4, hf4, hnq4, _, hno4⟩ := c3.finish (s' := { ({ (s3.emit (.executeEnd t v)) with
      cur := s.cur } : Sess) with store := s3.store.setTaskOutput node v }) ht3 hrep hnr3 rfl
      h.bf.cur_eq rfl rfl rfl
    have m4 : MonoW ro s3 ({ ({ (s3.emit (.executeEnd t v)) with cur := s.cur } : Sess) with
        store := s3.store.setTaskOutput node v }) := by
      refine ⟨fun n hn => ⟨hn, ?_⟩, Store.le_setTaskOutput _ node v, fun _ _ => rfl⟩
      show (s3.store.setTaskOutput node v).taskOutput n = _
      rw [Store.taskOutput_setTaskOutput_of_ne (fun (hnn : n = node) => c3.i5 hn (by simp [hnn]))]
    refine ⟨c4, ?_, (m1.trans m3).trans m4, ho4, hf4, hnq4, hno4⟩
    refine t3.transfer (fun t' => countExec_emit_of_not t' s3 _ rfl)
      (Store.le_setTaskOutput _ node v) ?_
    rintro n (hn | hn | hn)
    · exact .inl hn
    · rcases List.mem_append.mp hn with hn | hn
      · exact .inr (.inl hn)
      · exact .inr (.inr hn)
    · cases hn

theorem BuClosW.execAndSchedule_succ {f : Nat} (ih : BuClosW ro sem body f) (s : Sess)
    (ch X : List Nat) (node : Nat) (h : CIW ro sem body s ch (node :: X) []) (hti : TI s ch [])
    (hX : ∀ x ∈ X, x ∈ ch) (hnX : node ∉ X) (hr : ∀ x ∈ ch, s.store.g.Reach x node)
    (s' : Sess) (v : Int) (heq : buExecAndSchedule sem body (f + 1) s node = (s', .ok v)) :
    CIW ro sem body s' ch X [] ∧ TI s' ch [] ∧ MonoW ro s s' ∧
      s'.store.taskOutput node = some v ∧ node ∈ s'.consistent := by
  unfold buExecAndSchedule at heq
  split at heq
  · cases heq
  next t ht =>
    split at heq
    next s2 k heq2 => cases heq
    next s2 o heq2 =>
      cases heq
      have hX' : ∀ x ∈ node :: X, x ∈ ch ∨ x = node := by
        intro x hx
        rcases List.mem_cons.mp hx with hx | hx
        · exact .inr hx
        · exact .inl (hX x hx)
      obtain ⟨c2, t2, m2, ho2, hf2, _, _⟩ := ih.exec s ch (node :: X) t node h hti hX' ht hr
        (.inl (List.mem_cons_self ..)) s2 v heq2
      have ht2 := m2.le.task _ _ ht
      obtain ⟨c3, hc3, hfs3⟩ := c2.scheduleAfterExec hX hnX ht2 ho2 hf2
      have hst3 := store_scheduleAfterExec sem s2 node t v
      obtain ⟨s₃, hcore, he3⟩ := scheduleAfterExec_core sem s2 node t v
      have hsub : ∀ n ∈ s2.consistent, n ∈ (scheduleAfterExec sem s2 node t v).consistent := by
        intro n hn
        rw [he3]
        exact (Sess.mem_markConsistent _ _ _).mpr (.inl (hcore.2.2 ▸ hn))
      have m3 : MonoW ro s2 (scheduleAfterExec sem s2 node t v) :=
        ⟨fun n hn => ⟨hsub n hn, by rw [hst3]⟩, by rw [hst3]; exact Store.Le.refl _,
          fun _ _ => by rw [hfs3]⟩
      refine ⟨c3, ?_, m2.trans m3, by rw [hst3]; exact ho2, hc3⟩
      refine t2.transfer
        (countExec_of_quiet (fun tn => quiet_scheduleAfterExec sem tn s2 node t v))
        (by rw [hst3]; exact Store.Le.refl _) ?_
      rintro n (hn | hn | hn)
      · exact .inl (hsub n hn)
      · exact .inr (.inl hn)
      · simp only [List.mem_singleton] at hn
        subst hn; exact .inl hc3

end PieModel
