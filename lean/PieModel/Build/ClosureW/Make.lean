/-
Bottom-up closure with writes: the successor steps of `buRequireNow` and `buMake`.
-/
import PieModel.Build.ClosureW.Induct

namespace PieModel

variable {ro : Roles} {sem : Sem} {body : Nat → Prog}

/-- The "not scheduled" branch of `make_task_consistent`: a task with output that every
executing task reaches and in whose cone nothing is queued is clean. -/
theorem CIW.clean_of_cone {s : Sess} {ch X : List Nat} {node t : Nat} {o : Int}
    (h : CIW ro sem body s ch X []) (hX : ∀ x ∈ X, x ∈ ch) (ht : s.store.taskOf node = some t)
    (ho : s.store.taskOutput node = some o) (hlink : ∀ x ∈ ch, s.store.g.Reach x node)
    (hnq : ∀ m ∈ s.queue, ¬ InCone s.store node m) :
    Clean sem s.store s.fs (s.queue ++ X) node := by
  have hw := h.sw
  -- members of the cone are not executing, hence not exempt
  have hnch : ∀ v, InCone s.store node v → v ∉ ch := by
    rintro v (rfl | hv)
    · exact h.bf.core.not_mem_of_reach hlink
    · exact h.bf.core.not_mem_of_reach (fun x hx => (hlink x hx).trans hv)
  have hnX : ∀ v, InCone s.store node v → v ∉ X := fun v hv hx => hnch v hv (hX v hx)
  have hnq' : ∀ v, InCone s.store node v → v ∉ s.queue := fun v hv hq => hnq v hq hv
  -- no member of the cone reads a resource written by an executing task
  have hnwb : ∀ v, InCone s.store node v → ∀ p ∈ s.store.g.outgoingEdges v,
      p.2.isRead = true → ¬ WrBy s.store (ch ++ []) p.1 := by
    rintro v hv ⟨dst, d⟩ hp hrd ⟨w, hwm, r', c', stp', hwe⟩
    cases d with
    | read r c stp =>
      obtain ⟨_, dep, hdep⟩ := h.roles.reader_of_written hp hwe
      exact hnch w (hv.tail ((Store.hasEdge_iff_mem_oe hw _ _).mpr ⟨dep, hdep⟩)) (by simpa using hwm)
    | reserved => cases hrd
    | require u c stp => cases hrd
    | write r c stp => cases hrd
  -- one step along an edge
  have hstep : ∀ a b, InCone s.store node a → s.store.taskOutput a ≠ none → s.store.g.HasEdge a b →
      (∃ tb, s.store.taskOf b = some tb) → s.store.taskOutput b ≠ none := by
    intro a b ha hoa he ⟨tb, htb⟩
    obtain ⟨d, hd⟩ := (Store.hasEdge_iff_mem_oe hw _ _).mp he
    have hok := (hw.mem_outgoingEdges_ok hd).2
    have hb : InCone s.store node b := ha.tail he
    rcases h.i1 a hoa (hnX a ha) (hnq' a ha) _ hd with hacc | ⟨_, hbx⟩ | ⟨hrd, hwb⟩
    · cases d with
      | reserved => exact hacc.elim
      | require u c stamp =>
        obtain ⟨ob, hob, _⟩ := hacc
        rw [hob]; simp
      | read r c stamp =>
        have : s.store.resOf b = some r := hok
        rw [Store.resOf_eq_none_of_taskOf htb] at this; cases this
      | write r c stamp =>
        have : s.store.resOf b = some r := hok
        rw [Store.resOf_eq_none_of_taskOf htb] at this; cases this
    · exact absurd hbx (hnX b hb)
    · exact absurd hwb (hnwb a ha _ hd hrd)
  have hreach : ∀ a b, s.store.g.Reach a b → InCone s.store node a →
      s.store.taskOutput a ≠ none → (∃ tb, s.store.taskOf b = some tb) →
      s.store.taskOutput b ≠ none := by
    intro a b hr
    induction hr with
    | edge he => intro ha hoa hb; exact hstep _ _ ha hoa he hb
    | @step a m b he hr ih =>
      intro ha hoa hb
      have hm := hstep a m ha hoa he (hw.reach_src_task hr)
      exact ih (ha.tail he) hm hb
  have hout : ∀ v, InCone s.store node v → (∃ tv, s.store.taskOf v = some tv) →
      s.store.taskOutput v ≠ none := by
    rintro v (rfl | hv) htv
    · rw [ho]; simp
    · exact hreach _ _ hv (.inl rfl) (by rw [ho]; simp) htv
  refine ⟨⟨t, ht⟩, fun v hv htv => ⟨hout v hv htv, ?_, ?_⟩⟩
  · intro p hp
    rcases h.i1 v (hout v hv htv) (hnX v hv) (hnq' v hv) p hp with hacc | ⟨_, hpx⟩ | ⟨hrd, hwb⟩
    · exact hacc
    · exact absurd hpx (hnX p.1 (hv.tail ((Store.hasEdge_iff_mem_oe hw _ _).mpr ⟨p.2, hp⟩)))
    · exact absurd hwb (hnwb v hv p hp hrd)
  · intro hm
    rcases List.mem_append.mp hm with hm | hm
    · exact hnq' v hv hm
    · exact hnX v hv hm

theorem BuClosW.requireNow_succ {f : Nat} (ih : BuClosW ro sem body f) (s : Sess) (ch₀ : List Nat)
    (a : Nat) (X : List Nat) (src : Nat) (h : CIW ro sem body s (ch₀ ++ [a]) X [])
    (hti : TI s (ch₀ ++ [a]) []) (hX : ∀ x ∈ X, x ∈ ch₀ ++ [a])
    (he : ∃ dep, (src, dep) ∈ s.store.g.outgoingEdges a)
    (s' : Sess) (o : Option Int) (heq : buRequireNow sem body (f + 1) s src = (s', .ok o)) :
    CIW ro sem body s' (ch₀ ++ [a]) X [] ∧ TI s' (ch₀ ++ [a]) [] ∧ MonoW ro s s' ∧
      (∀ v, o = some v → s'.store.taskOutput src = some v ∧ src ∈ s'.consistent) ∧
      (o = none → ∀ m ∈ s'.queue, ¬ InCone s'.store src m) := by
  have hw := h.sw
  have hmem : a ∈ ch₀ ++ [a] := by simp
  unfold buRequireNow at heq
  split at heq
  next hemp =>
    cases heq
    refine ⟨h, hti, MonoW.refl _, fun v hv => (nomatch hv), fun _ m hm => ?_⟩
    rw [List.isEmpty_iff] at hemp
    rw [hemp] at hm; cases hm
  · split at heq
    next hq =>
      cases heq
      refine ⟨h, hti, MonoW.refl _, fun v hv => (nomatch hv), fun _ m hm hc => ?_⟩
      have := queuePopLeastFrom_eq_none.mp hq m hm
      have hin : inCone s.store src m = true := by
        rw [inCone_iff]
        rcases hc with hc | hc
        · exact .inl hc
        · exact .inr ((hw.containsTransitive_iff src m).mpr hc)
      rw [hin] at this; cases this
    next m q hq =>
      have hperm : (m :: q).Perm s.queue := queuePopLeastFrom_perm_cons hq
      have c1 := h.popQueue hperm
      have t1 : TI ({ s with queue := q } : Sess) (ch₀ ++ [a]) [] :=
        hti.transfer (fun _ => rfl) (Store.Le.refl _) (fun _ hn => hn)
      have m1 : MonoW ro s ({ s with queue := q } : Sess) := MonoW.of_eq rfl rfl rfl
      have hlink : ∀ x ∈ ch₀ ++ [a], s.store.g.Reach x m := by
        obtain ⟨i, hi, _, _, hcone, _⟩ := queuePopLeastFrom_eq_some hq
        intro x hx
        rcases inCone_iff.mp hcone with hm | hm
        · rw [hm]; exact h.bf.link he x hx
        · exact (h.bf.link he x hx).trans ((hw.containsTransitive_iff src m).mp hm)
      have hmX : m ∉ X := fun hx =>
        h.stack_not_queued (hX m hx) (queuePopLeastFrom_mem hq)
      split at heq
      next s2 k heq2 => cases heq
      next s2 ov heq2 =>
        obtain ⟨c2, t2, m2, ho2, hc2⟩ := ih.execAndSchedule ({ s with queue := q } : Sess)
          (ch₀ ++ [a]) X m c1 t1 hX hmX hlink s2 ov heq2
        obtain ⟨_, k2, _⟩ := ((buStack sem body f).execAndSchedule _ (ch₀ ++ [a]) m c1.bf hlink).ok heq2
        split at heq
        next hms =>
          cases heq
          refine ⟨c2, t2, m1.trans m2, fun v hv => ?_, fun hv => (nomatch hv)⟩
          cases hv
          exact ⟨hms ▸ ho2, hms ▸ hc2⟩
        · obtain ⟨dep, hdep⟩ := he
          obtain ⟨c3, t3, m3, h3a, h3b⟩ := ih.requireNow s2 ch₀ a X src c2 t2 hX
            ⟨dep, by rw [(k2 a hmem).1]; exact hdep⟩ s' o heq
          exact ⟨c3, t3, (m1.trans m2).trans m3, h3a, h3b⟩

theorem BuClosW.make_succ {f : Nat} (ih : BuClosW ro sem body f) (s : Sess) (ch₀ : List Nat)
    (a : Nat) (X : List Nat) (t node : Nat) (h : CIW ro sem body s (ch₀ ++ [a]) X [])
    (hti : TI s (ch₀ ++ [a]) []) (hX : ∀ x ∈ X, x ∈ ch₀ ++ [a])
    (ht : s.store.taskOf node = some t) (he : ∃ dep, (node, dep) ∈ s.store.g.outgoingEdges a)
    (s' : Sess) (v : Int) (heq : buMake sem body (f + 1) s t node = (s', .ok v)) :
    CIW ro sem body s' (ch₀ ++ [a]) X [] ∧ TI s' (ch₀ ++ [a]) [node] ∧ MonoW ro s s' ∧
      s'.store.taskOutput node = some v ∧ Clean sem s'.store s'.fs (s'.queue ++ X) node := by
  have hw := h.sw
  have hmem : a ∈ ch₀ ++ [a] := by simp
  have weaken : ∀ {s2 : Sess}, TI s2 (ch₀ ++ [a]) [] → TI s2 (ch₀ ++ [a]) [node] := fun h2 =>
    h2.transfer (fun _ => rfl) (Store.Le.refl _) (by
      rintro n (hn | hn | hn)
      · exact .inl hn
      · exact .inr (.inl hn)
      · cases hn)
  have hnch : node ∉ ch₀ ++ [a] := h.bf.core.not_mem_of_reach (h.bf.link he)
  have hnX : node ∉ X := fun hx => hnch (hX node hx)
  unfold buMake at heq
  split at heq
  next hcons =>
    split at heq
    next o ho =>
      cases heq
      exact ⟨h, weaken hti, MonoW.refl _, ho, h.i2 node hcons⟩
    · cases heq
  next hcons =>
    split at heq
    next hout =>
      obtain ⟨c', t', m', ho', hf', hnq', hno'⟩ := ih.exec s (ch₀ ++ [a]) X t node h hti
        (fun x hx => .inl (hX x hx)) ht (h.bf.link he) (.inr hout) s' v heq
      have c'' := c'.dropP (by rw [ho']; simp) (hno' hnX)
      refine ⟨c'', t', m', ho', clean_of_freshW c''.sw hf' (m'.le.task _ _ ht) (by rw [ho']; simp) ?_
        c''.i2⟩
      intro hm
      rcases List.mem_append.mp hm with hm | hm
      · exact hnq' hm
      · exact hnX hm
    next o0 hout =>
      split at heq
      next s2 k heq2 => cases heq
      next s2 o heq2 =>
        obtain ⟨c2, t2, m2, h2a, _⟩ := ih.requireNow s ch₀ a X node h hti hX he s2 (some o) heq2
        obtain ⟨h3, h4⟩ := h2a o rfl
        cases heq
        exact ⟨c2, weaken t2, m2, h3, c2.i2 node h4⟩
      next s2 heq2 =>
        obtain ⟨c2, t2, m2, _, h2b⟩ := ih.requireNow s ch₀ a X node h hti hX he s2 none heq2
        obtain ⟨_, k2, _⟩ := ((buStack sem body f).requireNow s ch₀ a node h.bf he).ok heq2
        split at heq
        next o ho =>
          cases heq
          obtain ⟨dep, hdep⟩ := he
          have hlink2 := c2.bf.link (node := node) ⟨dep, by rw [(k2 a hmem).1]; exact hdep⟩
          exact ⟨c2, weaken t2, m2, ho,
            c2.clean_of_cone hX (m2.le.task _ _ ht) ho hlink2 (h2b rfl)⟩
        · cases heq

end PieModel
