/-
Bottom-up closure with writes: from the closed state to top-down validation.  After a returning
bottom-up build the set of all task nodes with output is *settled* w.r.t. the resources the
build leaves (`Sound/NoExec.lean`), so requiring any known task validates only; and by the
soundness of the top-down build with writes (`SoundW/*`), what is validated is the from-scratch
result on these resources.
-/
import PieModel.Build.ClosureW.Final
import PieModel.Build.SoundW.History
import PieModel.Build.IdemW.Session

namespace PieModel

variable {ro : Roles} {sem : Sem} {body : Nat → Prog}

/-- Task `t` is known to the store, with output `o`. -/
def KnownOut (st : Store) (t : Nat) (o : Int) : Prop :=
  ∃ m, st.taskOf m = some t ∧ st.taskOutput m = some o

/-- In a closed state all tasks with output form a settled set (w.r.t. the current resources). -/
theorem BuClosedW.settled {s : Sess} (h : BuClosedW ro sem body s) :
    Settled sem s.fs s.store (allOut s.store) := by
  intro n hn
  have hno := mem_allOut.mp hn
  refine ⟨?_, fun d hd => ?_⟩
  · cases ho : s.store.taskOutput n with
    | none => exact absurd ho hno
    | some o => exact ⟨o, rfl⟩
  · obtain ⟨dst, hdst⟩ := Store.mem_depsFrom_iff.mp hd
    have hacc := h.sc n hno _ hdst
    have hok := (h.inv.wf.mem_outgoingEdges_ok hdst).2
    cases d with
    | reserved => exact hacc.elim
    | require u c stp =>
      obtain ⟨o, h1, h2⟩ := hacc
      exact ⟨dst, o, hok, mem_allOut.mpr (by rw [h1]; simp), h1, h2⟩
    | read r c stp => exact hacc
    | write r c stp => exact hacc

theorem knownOut_forall₂ {st : Store} {ts : List Nat} {os : List Int}
    (h : List.Forall₂ (KnownOut st) ts os) :
    List.Forall₂ (fun t o => ∃ m, st.taskOf m = some t ∧ m ∈ allOut st ∧ st.taskOutput m = some o)
      ts os := by
  induction h with
  | nil => exact .nil
  | cons hab _ ih =>
    obtain ⟨m, h1, h2⟩ := hab
    exact .cons ⟨m, h1, mem_allOut.mpr (by rw [h2]; simp), h2⟩ ih

/-- Requiring known tasks in a closed state — in any session on this store and resource state,
with any fuel — validates only: store and resources untouched, no `executeStart`, the stored
outputs (or out of fuel); and with enough fuel the stored outputs. -/
theorem BuClosedW.quiet {s' : Sess} (h : BuClosedW ro sem body s') {ts : List Nat} {os : List Int}
    (hts : List.Forall₂ (KnownOut s'.store) ts os) :
    (∀ fuel₂ (s : Sess), s.store = s'.store → s.fs = s'.fs → ∀ s₂ r,
      requireAll sem body fuel₂ s ts = (s₂, r) →
      s₂.store = s'.store ∧ s₂.fs = s'.fs ∧
      (∃ evs, s₂.trace = s.trace ++ evs ∧ ∀ e ∈ evs, e.isExec = false) ∧
      (r = .ok os ∨ r = .abort .outOfFuel)) ∧
    ∃ N, ∀ fuel₂, N ≤ fuel₂ → ∀ s : Sess, s.store = s'.store → s.fs = s'.fs → ∀ s₂ r,
      requireAll sem body fuel₂ s ts = (s₂, r) → r = .ok os := by
  have hS := h.settled
  have hts' := knownOut_forall₂ hts
  refine ⟨fun fuel₂ s hs hfs s₂ r heq =>
    requireAll_quiet (body := body) h.inv.wf hS fuel₂ hts' s hs hfs s₂ r heq, ?_⟩
  obtain ⟨N, hN⟩ := requireAll_fuel (body := body) h.inv.wf hS hts'
  exact ⟨N, fun f hf s hs hfs s₂ r heq => hN f hf s hs hfs s₂ r heq⟩

section
variable (hst : StampTotal sem) (hwf : WellFormedBody ro body)
  (hresp : ∀ t, Respects sem (body t)) (hone : ∀ t, OneChecker (body t))
  (hwe : ∀ t, WriteExact sem (body t))
include hst hwf hresp hone hwe

/-- In a closed state the stored outputs of any known tasks are their from-scratch outputs on the
CURRENT resources, and every resource holds what the from-scratch build of these tasks on the
current resources leaves in it. -/
theorem BuClosedW.den {s' : Sess} (h : BuClosedW ro sem body s') {ts : List Nat} {os : List Int}
    (hts : List.Forall₂ (KnownOut s'.store) ts os) :
    List.Forall₂ (fun t o => ∃ ws, Den ro sem body s'.fs t (o, ws)) ts os ∧
    ∀ r, aget s'.fs r = overlay ro sem body s'.fs (Demanded ro sem body s'.fs ts) r := by
  obtain ⟨hq, N, hN⟩ := h.quiet (sem := sem) (body := body) hts
  generalize hR : requireAll sem body N s'.toPie.newSession ts = R
  obtain ⟨s₂, r⟩ := R
  have hr : r = .ok os := hN N (Nat.le_refl _) s'.toPie.newSession rfl rfl s₂ r hR
  subst hr
  obtain ⟨_, hfs, _, _⟩ := hq N s'.toPie.newSession rfl rfl s₂ _ hR
  obtain ⟨_, _, hall, hov⟩ := session_full hst hwf hresp hone hwe h.inv N ts hR
  exact ⟨hall, fun r => by rw [← hfs]; exact hfs ▸ hov r⟩

end

/-- The closed state satisfies the hypotheses of the next round, for whatever changes are
reported then. -/
theorem BuClosedW.shallowReq {s : Sess} (h : BuClosedW ro sem body s) : ShallowReq sem s.store := by
  intro n hn dst u c stamp hp
  exact h.sc n hn _ hp

/-- ... and, without further external changes, nothing needs to be reported. -/
theorem BuClosedW.reported_nil {s : Sess} (h : BuClosedW ro sem body s) :
    Reported sem s.store s.fs [] := by
  intro n hn dst r c stamp hp hck
  rcases hp with hp | hp
  · exact absurd (h.sc n hn _ hp) hck
  · exact absurd (h.sc n hn _ hp) hck

end PieModel
