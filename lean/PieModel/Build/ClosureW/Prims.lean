/-
Bottom-up closure with writes: the step relation `MonoW`, and the session primitives
(`doRead`, `doWrite`, `doWrote`) in the form used by the induction.
-/
import PieModel.Build.ClosureW.Schedule
import PieModel.Build.Closure.Prims
import PieModel.Build.SoundW.Prims

namespace PieModel

variable {ro : Roles} {sem : Sem} {body : Nat → Prog}

/-- `s'` is a later state of the bottom-up build: consistent tasks stay consistent and keep their
output; the store only grows; a resource whose generator (if any) is consistent is untouched. -/
structure MonoW (ro : Roles) (s s' : Sess) : Prop where
  cons : ∀ n ∈ s.consistent, n ∈ s'.consistent ∧ s'.store.taskOutput n = s.store.taskOutput n
  le : s.store.Le s'.store
  fs : ∀ r, (∀ w, ro.gen r = some w → ConsT s w) → aget s'.fs r = aget s.fs r

namespace MonoW
variable {s s' s'' : Sess}

theorem refl (s : Sess) : MonoW ro s s := ⟨fun _ h => ⟨h, rfl⟩, Store.Le.refl _, fun _ _ => rfl⟩

theorem consT (h : MonoW ro s s') {t : Nat} (hc : ConsT s t) : ConsT s' t :=
  hc.mono (fun n hn => (h.cons n hn).1) h.le

theorem trans (h₁ : MonoW ro s s') (h₂ : MonoW ro s' s'') : MonoW ro s s'' :=
  ⟨fun n hn => ⟨(h₂.cons n (h₁.cons n hn).1).1,
      (h₂.cons n (h₁.cons n hn).1).2.trans (h₁.cons n hn).2⟩,
    h₁.le.trans h₂.le,
    fun r hr => (h₂.fs r (fun w hw => h₁.consT (hr w hw))).trans (h₁.fs r hr)⟩

/-- A step that keeps `consistent`, all outputs and the resources. -/
theorem of_same (h1 : s'.consistent = s.consistent) (hle : s.store.Le s'.store)
    (ho : ∀ n, s'.store.taskOutput n = s.store.taskOutput n) (hfs : s'.fs = s.fs) :
    MonoW ro s s' :=
  ⟨fun n hn => ⟨h1 ▸ hn, ho n⟩, hle, fun _ _ => by rw [hfs]⟩

theorem of_eq (h1 : s'.store = s.store) (h2 : s'.consistent = s.consistent) (h3 : s'.fs = s.fs) :
    MonoW ro s s' :=
  of_same h2 (h1 ▸ Store.Le.refl _) (fun _ => by rw [h1]) h3

end MonoW

/-- Transport of what is known of the edges of the running task. -/
theorem RunDepW.monoW {qt qr qt' qr' : List (Nat × Nat)} {s s' : Sess} {dst : Nat} {d : Dep}
    (h : RunDepW ro sem qt qr s dst d) (hm : MonoW ro s s')
    (ht : ∀ p ∈ qt, p ∈ qt') (hr : ∀ p ∈ qr, p ∈ qr') : RunDepW ro sem qt' qr' s' dst d := by
  cases d with
  | reserved => exact h
  | require u c stp =>
    obtain ⟨h1, h2, o, h3, h4⟩ := h
    exact ⟨ht _ h1, (hm.cons _ h2).1, o, by rw [(hm.cons _ h2).2]; exact h3, h4⟩
  | read r c stp =>
    obtain ⟨h1, h2, h3⟩ := h
    exact ⟨hr _ h1, by rw [hm.fs r h3]; exact h2, fun w hw => hm.consT (h3 w hw)⟩
  | write r c stp => exact h

/-- `RunDepW` gives `StackDepW` for reflexive checkers, except for the write edges. -/
theorem RunDepW.stackDepW (hrefl : Reflexive sem) {qt qr : List (Nat × Nat)} {s : Sess} {dst : Nat}
    {d : Dep} (h : RunDepW ro sem qt qr s dst d) (hwr : ∀ r c stp, d = .write r c stp →
      sem.rcheck c (aget s.fs r) stp = .ok true) : StackDepW ro sem s dst d := by
  cases d with
  | reserved => trivial
  | require u c stp =>
    obtain ⟨_, h2, o, h3, h4⟩ := h
    exact ⟨h2, o, h3, by rw [h4]; exact hrefl.1 c o⟩
  | read r c stp => exact ⟨hrefl.2 _ _ _ h.2.1, h.2.2⟩
  | write r c stp => exact hwr r c stp rfl

/-- The tasks required so far by the running task are consistent. -/
theorem consT_of_acc {qt qr : List (Nat × Nat)} {s : Sess} {a : Nat} {acc : Acc}
    (hw : s.store.WF) (ha : AccOK s.store a acc) (hri : RunInvW ro sem qt qr s a) {u : Nat}
    (hu : u ∈ acc.req) : ConsT s u := by
  obtain ⟨nu, dep, h1, h2⟩ := ha.req u hu
  have hm : (nu, dep) ∈ s.store.g.outgoingEdges a := (Dag.mem_outgoingEdges hw.gwf _ _ _).mpr h2
  have hrd := hri nu dep hm
  rcases hw.edge_to_task hm h1 with rfl | ⟨c, stp, rfl⟩
  · exact hrd.elim
  · exact ⟨nu, hrd.2.1, h1⟩

/-! ### `doWrite`, `doWrote` when they return -/

section
variable (hst : StampTotal sem)
include hst

/-- A returning `doWrite` by the generator of `r` (node `a`), first write of `r` in this
execution: the content is `v`, the write dependency with the stamp of `v` is appended. -/
theorem doWrite_ok_spec {s : Sess} (hwf : SessWF s) (hi : RolesInv ro s.store)
    {a t0 : Nat} (hc : s.cur = some a) (ht : s.store.taskOf a = some t0) {acc : Acc}
    (ha : AccOK s.store a acc) (r c : Nat) (v : Option Int) (hg : ro.gen r = some t0)
    (hnw : r ∉ acc.wr) {s1 : Sess} {x : Except Int Unit}
    (hF : doWrite sem s r c v = (s1, .ok x)) :
    x = .ok () ∧ s1.fs = (s.setContent r v).fs ∧
    (∀ n, s1.store.taskOutput n = s.store.taskOutput n) ∧
    (∀ n, n ≠ a → s1.store.g.outgoingEdges n = s.store.g.outgoingEdges n) ∧
    ∃ dst stamp, sem.rstamp c (aget (s.setContent r v).fs r) = .ok stamp ∧
      s1.store.resOf dst = some r ∧
      s1.store.g.outgoingEdges a = s.store.g.outgoingEdges a ++ [(dst, .write r c stamp)] := by
  have hw := hwf.store
  obtain ⟨st0, dst, hn⟩ : ∃ st0 dst, s.store.getOrCreateResNode r = (st0, dst) := ⟨_, _, rfl⟩
  have hst0 : (s.store.getOrCreateResNode r).1 = st0 := by rw [hn]
  have hdst : (s.store.getOrCreateResNode r).2 = dst := by rw [hn]
  have hw1 : st0.WF := hst0 ▸ hw.getOrCreateResNode r
  have hle1 : s.store.Le st0 := hst0 ▸ Store.le_getOrCreateResNode hw r
  have hi1 : RolesInv ro st0 := hst0 ▸ hi.getOrCreateResNode r
  have hres : st0.resOf dst = some r := by
    rw [← hst0, ← hdst]; exact Store.resOf_getOrCreateResNode_self hw r
  have ht1 : st0.taskOf a = some t0 := hle1.task _ _ ht
  have hed1 : ∀ x y, st0.g.getEdgeData x y = s.store.g.getEdgeData x y := by
    intro x y; rw [← hst0]; exact Store.getEdgeData_getOrCreateResNode hw r x y
  have ha1 : AccOK st0 a acc := ha.of_eq hle1 (hed1 a)
  have hoe1 : ∀ x, st0.g.outgoingEdges x = s.store.g.outgoingEdges x := by
    intro x; rw [← hst0]; exact Store.outgoingEdges_getOrCreateResNode hw r x
  have hout1 : ∀ x, st0.taskOutput x = s.store.taskOutput x := by
    intro x; rw [← hst0]; exact Store.taskOutput_getOrCreateResNode hw r x
  have hnone := no_edge_to_generated hi1 ht1 hres ha1 hg hnw
  have hnoe : ∀ d0, (dst, d0) ∉ st0.g.outgoingEdges a := by
    intro d0 hm
    rw [Dag.mem_outgoingEdges hw1.gwf, hnone] at hm; cases hm
  rw [doWrite_eq sem s r c a v st0 dst hc hn] at hF
  simp only at hF
  have hcont : (({ s with store := st0, trace := s.trace ++ [.writeStart r c] } : Sess).setContent
      r v).content r = aget (s.setContent r v).fs r := by
    rw [SessL.content_congr _ _ (SessL.setContent_fs_with s _ _ r v) r]; rfl
  rw [hcont] at hF
  split at hF
  · cases hF
  · obtain ⟨stamp, hs⟩ := hst c (aget (s.setContent r v).fs r)
    rw [hs] at hF
    simp only at hF
    have hvok := Store.addDependency_to_res_ok hw1 a dst (.write r c stamp) ht1 hres
    split at hF
    · cases hF
    · rename_i st' x' hx heq
      obtain ⟨rfl, hx'⟩ := Prod.mk.inj hF
      cases hx'
      have hst'' : st' = (st0.addDependency a dst (.write r c stamp)).1 := by rw [heq]
      refine ⟨rfl, ?_, ?_, ?_, dst, stamp, hs, ?_, ?_⟩
      · simp [SessL.setContent_fs_with]
      · intro n
        show st'.taskOutput n = _
        rw [hst'', Store.taskOutput_addDependency hw1, hout1]
      · intro n hna
        show st'.g.outgoingEdges n = _
        rw [hst'', Store.outgoingEdges_addDependency_of_ne hw1 _ _ _ hna, hoe1]
      · show st'.resOf dst = some r
        rw [hst'', Store.resOf_addDependency hw1]; exact hres
      · show st'.g.outgoingEdges a = _
        rcases Store.addDependency_ok_cases hw1 a dst (.write r c stamp) hvok with
          ⟨⟨d0, h1⟩, _⟩ | ⟨_, h2⟩
        · exact absurd h1 (hnoe d0)
        · rw [hst'', h2, hoe1]

theorem doWrote_ok_spec {s : Sess} (hwf : SessWF s) (hi : RolesInv ro s.store)
    {a t0 : Nat} (hc : s.cur = some a) (ht : s.store.taskOf a = some t0) {acc : Acc}
    (ha : AccOK s.store a acc) (r c : Nat) (v : Option Int) (hg : ro.gen r = some t0)
    (hnw : r ∉ acc.wr) {s1 : Sess} {x : Except Int Unit}
    (hF : doWrote sem s r c v = (s1, .ok x)) :
    x = .ok () ∧ s1.fs = (s.setContent r v).fs ∧
    (∀ n, s1.store.taskOutput n = s.store.taskOutput n) ∧
    (∀ n, n ≠ a → s1.store.g.outgoingEdges n = s.store.g.outgoingEdges n) ∧
    ∃ dst stamp, sem.rstamp c (aget (s.setContent r v).fs r) = .ok stamp ∧
      s1.store.resOf dst = some r ∧
      s1.store.g.outgoingEdges a = s.store.g.outgoingEdges a ++ [(dst, .write r c stamp)] := by
  have hw := hwf.store
  obtain ⟨st0, dst, hn⟩ : ∃ st0 dst, s.store.getOrCreateResNode r = (st0, dst) := ⟨_, _, rfl⟩
  have hst0 : (s.store.getOrCreateResNode r).1 = st0 := by rw [hn]
  have hdst : (s.store.getOrCreateResNode r).2 = dst := by rw [hn]
  have hw1 : st0.WF := hst0 ▸ hw.getOrCreateResNode r
  have hle1 : s.store.Le st0 := hst0 ▸ Store.le_getOrCreateResNode hw r
  have hi1 : RolesInv ro st0 := hst0 ▸ hi.getOrCreateResNode r
  have hres : st0.resOf dst = some r := by
    rw [← hst0, ← hdst]; exact Store.resOf_getOrCreateResNode_self hw r
  have ht1 : st0.taskOf a = some t0 := hle1.task _ _ ht
  have hed1 : ∀ x y, st0.g.getEdgeData x y = s.store.g.getEdgeData x y := by
    intro x y; rw [← hst0]; exact Store.getEdgeData_getOrCreateResNode hw r x y
  have ha1 : AccOK st0 a acc := ha.of_eq hle1 (hed1 a)
  have hoe1 : ∀ x, st0.g.outgoingEdges x = s.store.g.outgoingEdges x := by
    intro x; rw [← hst0]; exact Store.outgoingEdges_getOrCreateResNode hw r x
  have hout1 : ∀ x, st0.taskOutput x = s.store.taskOutput x := by
    intro x; rw [← hst0]; exact Store.taskOutput_getOrCreateResNode hw r x
  have hnone := no_edge_to_generated hi1 ht1 hres ha1 hg hnw
  have hnoe : ∀ d0, (dst, d0) ∉ st0.g.outgoingEdges a := by
    intro d0 hm
    rw [Dag.mem_outgoingEdges hw1.gwf, hnone] at hm; cases hm
  rw [doWrote_eq sem s r c a v st0 dst hc hn] at hF
  simp only at hF
  have hcont : (s.setContent r v).content r = aget (s.setContent r v).fs r := rfl
  rw [hcont] at hF
  split at hF
  · cases hF
  · obtain ⟨stamp, hs⟩ := hst c (aget (s.setContent r v).fs r)
    rw [hs] at hF
    simp only at hF
    have hvok := Store.addDependency_to_res_ok hw1 a dst (.write r c stamp) ht1 hres
    split at hF
    · cases hF
    · rename_i st' x' hx heq
      obtain ⟨rfl, hx'⟩ := Prod.mk.inj hF
      cases hx'
      have hst'' : st' = (st0.addDependency a dst (.write r c stamp)).1 := by rw [heq]
      refine ⟨rfl, ?_, ?_, ?_, dst, stamp, hs, ?_, ?_⟩
      · simp
      · intro n
        show st'.taskOutput n = _
        rw [hst'', Store.taskOutput_addDependency hw1, hout1]
      · intro n hna
        show st'.g.outgoingEdges n = _
        rw [hst'', Store.outgoingEdges_addDependency_of_ne hw1 _ _ _ hna, hoe1]
      · show st'.resOf dst = some r
        rw [hst'', Store.resOf_addDependency hw1]; exact hres
      · show st'.g.outgoingEdges a = _
        rcases Store.addDependency_ok_cases hw1 a dst (.write r c stamp) hvok with
          ⟨⟨d0, h1⟩, _⟩ | ⟨_, h2⟩
        · exact absurd h1 (hnoe d0)
        · rw [hst'', h2, hoe1]

end

/-! ### the invariant across a read and a write of the running task -/

/-- A returning read of `r` by the running task `a`: the read dependency (stamp of the current
content, generator consistent) is recorded, first insertion wins. -/
theorem CIW.readStep (hrefl : Reflexive sem) {s s1 : Sess} {ch₀ X : List Nat} {a r c dst : Nat}
    {stamp : Stamp} (h : CIW ro sem body s (ch₀ ++ [a]) X [])
    (hbf : BFrames s1 (ch₀ ++ [a])) (hro : RolesInv ro s1.store) (hfs : s1.fs = s.fs)
    (hq : s1.queue = s.queue) (hc : s1.consistent = s.consistent) (hle : s.store.Le s1.store)
    (ho : ∀ n, s1.store.taskOutput n = s.store.taskOutput n)
    (he : ∀ n, n ≠ a → s1.store.g.outgoingEdges n = s.store.g.outgoingEdges n)
    (hstamp : sem.rstamp c (aget s.fs r) = .ok stamp)
    (hgc : ∀ w, ro.gen r = some w → ConsT s w)
    (halt : s1.store.g.outgoingEdges a = s.store.g.outgoingEdges a ∨
      s1.store.g.outgoingEdges a = s.store.g.outgoingEdges a ++ [(dst, .read r c stamp)]) :
    CIW ro sem body s1 (ch₀ ++ [a]) X [] := by
  have hmem : a ∈ ch₀ ++ [a] := by simp
  have hold : ∀ p ∈ s.store.g.outgoingEdges a, p ∈ s1.store.g.outgoingEdges a := by
    intro p hp
    rcases halt with he' | he'
    · rw [he']; exact hp
    · rw [he']; exact List.mem_append_left _ hp
  refine h.frame hbf hro hfs hq hc hle ho (fun n hn => he n (fun hna => hn (hna ▸ hmem))) ?_ ?_
  · intro b hb dst' r' c' stp' hp
    by_cases hba : b = a
    · subst hba; exact hold _ hp
    · rw [he b hba]; exact hp
  · intro b hb p hp
    have hcong : ∀ q : Nat × Dep, StackDepW ro sem s q.1 q.2 → StackDepW ro sem s1 q.1 q.2 :=
      fun q hq => hq.congr hc hle (ho _) hfs
    by_cases hba : b = a
    · subst hba
      rcases halt with he' | he'
      · rw [he'] at hp; exact hcong p (h.i3 b hb p hp)
      · rw [he'] at hp
        rcases List.mem_append.mp hp with hp | hp
        · exact hcong p (h.i3 b hb p hp)
        · simp only [List.mem_singleton] at hp
          subst hp
          refine ⟨by rw [hfs]; exact hrefl.2 _ _ _ hstamp, fun w hw => ?_⟩
          exact (hgc w hw).mono (fun n hn => hc ▸ hn) hle
    · rw [he b hba] at hp
      exact hcong p (h.i3 b hb p hp)

/-- A returning write of `r` by its generator, the running task `a` (first write of `r` in this
execution). -/
theorem CIW.writeStep (hrefl : Reflexive sem) {s s1 : Sess} {ch₀ X : List Nat}
    {a t0 r c dst : Nat} {v : Option Int} {stamp : Stamp} {acc : Acc}
    (h : CIW ro sem body s (ch₀ ++ [a]) X [])
    (ht : s.store.taskOf a = some t0) (hg : ro.gen r = some t0) (ha : AccOK s.store a acc)
    (hnw : r ∉ acc.wr) (hbf : BFrames s1 (ch₀ ++ [a])) (hro : RolesInv ro s1.store)
    (hfs : s1.fs = (s.setContent r v).fs) (hq : s1.queue = s.queue)
    (hc : s1.consistent = s.consistent) (hle : s.store.Le s1.store)
    (ho : ∀ n, s1.store.taskOutput n = s.store.taskOutput n)
    (he : ∀ n, n ≠ a → s1.store.g.outgoingEdges n = s.store.g.outgoingEdges n)
    (hstamp : sem.rstamp c (aget s1.fs r) = .ok stamp) (hres : s1.store.resOf dst = some r)
    (hea : s1.store.g.outgoingEdges a = s.store.g.outgoingEdges a ++ [(dst, .write r c stamp)]) :
    CIW ro sem body s1 (ch₀ ++ [a]) X [] ∧ MonoW ro s s1 := by
  have hw := h.sw
  have hw1 := hbf.wf.store
  have hmem : a ∈ ch₀ ++ [a] := by simp
  have hnoa : s.store.taskOutput a = none := h.bf.noOut a hmem
  have hncT : ¬ ConsT s t0 := h.consT_not_stack hmem ht
  -- the resources
  have hfo : ∀ r', r' ≠ r → aget s1.fs r' = aget s.fs r' := by
    intro r' hr'
    rw [hfs]; exact SessL.content_setContent_ne s r r' (Ne.symm hr') v
  -- readers of `r` have an edge to `a`; nobody has a write edge for `r`
  have W1 : ∀ n dst' c' stp', (dst', Dep.read r c' stp') ∈ s.store.g.outgoingEdges n →
      ∃ dep, (a, dep) ∈ s.store.g.outgoingEdges n :=
    fun n dst' c' stp' hp => h.roles.reader_edge hp hg ht
  have W2 : ∀ n dst' c' stp', (dst', Dep.write r c' stp') ∉ s.store.g.outgoingEdges n := by
    intro n dst' c' stp' hp
    obtain ⟨tn, htn, hgn⟩ := h.roles.writer_gen hp
    rw [hg] at hgn; cases hgn
    have : n = a := hw.node_inj htn ht
    subst this
    exact hnw (ha.wr _ _ _ _ ((Dag.mem_outgoingEdges hw.gwf _ _ _).mp hp))
  have hdst : ∀ n dst' c' stp', (dst', Dep.read r c' stp') ∈ s.store.g.outgoingEdges n →
      dst' = dst := by
    intro n dst' c' stp' hp
    have h1 : s.store.resOf dst' = some r := (hw.mem_outgoingEdges_ok hp).2
    exact hw1.resOf_inj (hle.res _ _ h1) hres
  have hwa : (dst, Dep.write r c stamp) ∈ s1.store.g.outgoingEdges a := by rw [hea]; simp
  have hnch : ∀ n, s.store.taskOutput n ≠ none → n ≠ a := fun n hn hna => hn (hna ▸ hnoa)
  -- acceptance of an edge that does not mention `r`
  have hrw : ∀ n dst' r' c' stp', ((dst', Dep.read r' c' stp') ∈ s.store.g.outgoingEdges n ∨
      (dst', Dep.write r' c' stp') ∈ s.store.g.outgoingEdges n) →
      (∀ dep, (a, dep) ∉ s.store.g.outgoingEdges n) → aget s1.fs r' = aget s.fs r' := by
    intro n dst' r' c' stp' hp hna
    by_cases hr' : r' = r
    · subst hr'
      rcases hp with hp | hp
      · obtain ⟨dep, hdep⟩ := W1 n dst' c' stp' hp
        exact absurd hdep (hna dep)
      · exact absurd hp (W2 n dst' c' stp')
    · exact hfo r' hr'
  have hmono : MonoW ro s s1 := by
    refine ⟨fun n hn => ⟨hc ▸ hn, ho n⟩, hle, fun r' hr' => hfo r' ?_⟩
    rintro rfl
    exact hncT (hr' t0 hg)
  refine ⟨⟨hbf, hro, hfs ▸ SessL.setContent_nodup s h.fsnd r v, ?_, hq ▸ h.qnd, ?_, ?_, ?_, ?_, ?_,
    ?_, ?_⟩, hmono⟩
  · intro n t v' htn hv
    rw [ho] at hv
    obtain ⟨t1, ht1⟩ := Store.taskOf_of_output hv
    have := hle.task _ _ ht1
    rw [htn] at this; cases this
    rw [(Store.outgoing_obs_congr (he n (hnch n (by rw [hv]; simp)))).1]
    exact h.faithful n t v' ht1 hv
  · intro n hn; rw [hq] at hn; rw [ho]; exact h.qout n hn
  · intro x hx; rw [hq]; exact h.xq x hx
  · intro n hn hc'
    rw [ho] at hn
    rw [he n (fun hna => hc' (hna ▸ hmem))]
    exact h.orphan n hn hc'
  · intro n dst' u c' stp' hp
    rw [ho]
    by_cases hna : n = a
    · subst hna
      rw [hea] at hp
      rcases List.mem_append.mp hp with hp | hp
      · exact h.reqOut n dst' u c' stp' hp
      · simp at hp
    · rw [he n hna] at hp
      exact h.reqOut n dst' u c' stp' hp
  · intro n hn hx hnq
    rw [ho] at hn; rw [hq] at hnq
    have hna := hnch n hn
    refine (h.i1 n hn hx hnq).transfer (he n hna) ?_ (fun _ hx => hx) ?_
    · intro p hp hacc
      obtain ⟨dst', d⟩ := p
      cases d with
      | reserved => exact hacc.elim
      | require u c' stp' => exact .inl (hacc.congrW (fun _ => ho dst') (fun _ _ _ hh => by
          rcases hh with hh | hh <;> cases hh))
      | read r' c' stp' =>
        by_cases hr' : r' = r
        · subst hr'
          refine .inr (.inr ⟨rfl, a, by simp, r', c, stamp, ?_⟩)
          rw [hdst n dst' c' stp' hp]; exact hwa
        · exact .inl (by
            show sem.rcheck c' (aget s1.fs r') stp' = .ok true
            rw [hfo r' hr']; exact hacc)
      | write r' c' stp' =>
        have hr' : r' ≠ r := by
          rintro rfl; exact W2 n dst' c' stp' hp
        exact .inl (by
          show sem.rcheck c' (aget s1.fs r') stp' = .ok true
          rw [hfo r' hr']; exact hacc)
    · intro dst' hwb
      refine hwb.mono (fun w hw' r' c' stp' hed => ⟨hw', ?_⟩)
      by_cases hwa' : w = a
      · subst hwa'; rw [hea]; exact List.mem_append_left _ hed
      · rw [he w hwa']; exact hed
  · intro u hu
    rw [hc] at hu
    rw [hq]
    have hcl := h.i2 u hu
    have hna : ¬ InCone s.store u a := hcl.not_inCone (.inl hnoa) ⟨t0, ht⟩
    refine (hcl.fs_change (fs' := s1.fs) ?_).transfer hw hw1 hle ?_ (fun v _ hv => hv)
    · intro v' hv hov dst' r' c' stp' hp
      refine hrw v' dst' r' c' stp' hp (fun dep hdep => ?_)
      exact hna (hv.tail ((Store.hasEdge_iff_mem_oe hw _ _).mpr ⟨dep, hdep⟩))
    · intro v' _ hov
      exact ⟨he v' (hnch v' hov), ho v'⟩
  · intro b hb p hp
    have hold : ∀ q ∈ s.store.g.outgoingEdges b, StackDepW ro sem s1 q.1 q.2 := by
      intro q hq'
      refine (h.i3 b hb q hq').mono (fun n hn => hc ▸ hn) hle (fun _ => ho _) ?_
      intro r' c' stp' hd
      have hr' : r' ≠ r := by
        rintro rfl
        obtain ⟨dq, d⟩ := q
        rcases hd with hd | hd
        · simp only at hd; subst hd
          exact hncT ((h.i3 b hb _ hq').2 t0 hg)
        · simp only at hd; subst hd
          exact W2 b dq c' stp' hq'
      exact hfo r' hr'
    by_cases hba : b = a
    · subst hba
      rw [hea] at hp
      rcases List.mem_append.mp hp with hp | hp
      · exact hold p hp
      · simp only [List.mem_singleton] at hp
        subst hp
        exact hrefl.2 _ _ _ hstamp
    · rw [he b hba] at hp
      exact hold p hp

end PieModel
