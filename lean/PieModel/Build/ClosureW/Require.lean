/-
Bottom-up closure with writes: the successor step of `buRequire`.
-/
import PieModel.Build.ClosureW.Induct

namespace PieModel

variable {ro : Roles} {sem : Sem} {body : Nat → Prog}

/-- A store step that keeps all outputs and all edges. -/
theorem CIW.frame_same {s s' : Sess} {ch X P : List Nat} (h : CIW ro sem body s ch X P)
    (hbf : BFrames s' ch) (hro : RolesInv ro s'.store) (hfs : s'.fs = s.fs)
    (hq : s'.queue = s.queue) (hc : s'.consistent = s.consistent) (hle : s.store.Le s'.store)
    (ho : ∀ n, s'.store.taskOutput n = s.store.taskOutput n)
    (he : ∀ n, s'.store.g.outgoingEdges n = s.store.g.outgoingEdges n) :
    CIW ro sem body s' ch X P :=
  h.frame hbf hro hfs hq hc hle ho (fun n _ => he n)
    (fun a _ dst r c stp hp => by rw [he]; exact hp)
    (fun a ha p hp => (h.i3 a ha p (by rw [← he]; exact hp)).congr hc hle (ho _) hfs)

theorem BuClosW.require_succ (hrefl : Reflexive sem) {f : Nat} (ih : BuClosW ro sem body f)
    (s : Sess) (ch₀ : List Nat) (a : Nat) (X : List Nat) (u c : Nat)
    (h : CIW ro sem body s (ch₀ ++ [a]) X []) (hti : TI s (ch₀ ++ [a]) [])
    (hX : ∀ x ∈ X, x ∈ ch₀ ++ [a]) (hnr : Dep.reserved ∉ s.store.depsFrom a)
    (hpre : ReqPre ro s u)
    (s' : Sess) (out : Int) (heq : buRequire sem body (f + 1) s u c = (s', .ok out)) :
    CIW ro sem body s' (ch₀ ++ [a]) X [] ∧ TI s' (ch₀ ++ [a]) [] ∧ MonoW ro s s' ∧
      Dep.reserved ∉ s'.store.depsFrom a ∧ nodeOf s u ∈ s'.consistent ∧
      s'.store.taskOutput (nodeOf s u) = some out ∧ s'.store.taskOf (nodeOf s u) = some u ∧
      EdgeUpdO (s.store.g.outgoingEdges a) (s'.store.g.outgoingEdges a) (nodeOf s u)
        (.require u c (sem.ostamp c out)) := by
  have hw := h.sw
  have hmem : a ∈ ch₀ ++ [a] := by simp
  obtain ⟨bf', _, hnr'⟩ := ((buStack sem body (f + 1)).require s ch₀ a u c h.bf hnr).ok heq
  unfold buRequire at heq
  simp only [] at heq
  -- after node creation
  have bf1 := (h.bf.emit (.requireStart u c)).getTask u
  have hle1 : s.store.Le (s.store.getOrCreateTaskNode u).1 := Store.le_getOrCreateTaskNode hw u
  have c1 : CIW ro sem body ({ s.emit (.requireStart u c) with
      store := (s.store.getOrCreateTaskNode u).1 } : Sess) (ch₀ ++ [a]) X [] :=
    (h.emit (.requireStart u c)).frame_same bf1 (h.roles.getOrCreateTaskNode u) rfl rfl rfl hle1
      (Store.taskOutput_getOrCreateTaskNode hw u) (Store.outgoingEdges_getOrCreateTaskNode hw u)
  have t1 : TI ({ s.emit (.requireStart u c) with
      store := (s.store.getOrCreateTaskNode u).1 } : Sess) (ch₀ ++ [a]) [] :=
    (hti.emit (.requireStart u c) (fun _ => rfl)).transfer (fun _ => rfl) hle1 (fun _ hn => hn)
  have m1 : MonoW ro s ({ s.emit (.requireStart u c) with
      store := (s.store.getOrCreateTaskNode u).1 } : Sess) :=
    MonoW.of_same rfl hle1 (Store.taskOutput_getOrCreateTaskNode hw u) rfl
  have hd : (s.store.getOrCreateTaskNode u).1.taskOf (nodeOf s u) = some u :=
    Store.taskOf_getOrCreateTaskNode_self hw u
  have hcur1 : ({ s.emit (.requireStart u c) with
      store := (s.store.getOrCreateTaskNode u).1 } : Sess).cur = some a := by
    show s.cur = some a
    rw [h.bf.cur_eq, List.getLast?_concat]
  have hpre1 : ∀ cur, ({ s.emit (.requireStart u c) with
      store := (s.store.getOrCreateTaskNode u).1 } : Sess).cur = some cur →
      ∃ t0, ({ s.emit (.requireStart u c) with
        store := (s.store.getOrCreateTaskNode u).1 } : Sess).store.taskOf cur = some t0 ∧
        ro.rank t0 < ro.rank u := by
    intro cur hcur
    obtain ⟨t0, h1, h2⟩ := hpre cur hcur
    exact ⟨t0, hle1.task _ _ h1, h2⟩
  have hro2' := (reserveRequire_roles c1.wf c1.roles hd hpre1 0).1.rext.inv
  split at heq
  next s2 k heq2 => cases heq
  next s2 heq2 =>
    obtain ⟨bf2, _, le2, e21, e22, _⟩ := bf1.reserve_ok hd heq2
    obtain ⟨hs2, hok2⟩ := reserveRequire_some hcur1 (nodeOf s u)
    have heq2' : reserveRequire ({ s.emit (.requireStart u c) with
      store := (s.store.getOrCreateTaskNode u).1 } : Sess) (nodeOf s u) = (s2, .ok ()) := heq2
    have hro2 : RolesInv ro s2.store := by rw [heq2'] at hro2'; exact hro2'
    rw [heq2'] at hs2 hok2
    simp only at hs2 hok2
    have hvok := hok2.mp trivial
    have halt := Store.addDependency_ok_cases c1.sw a (nodeOf s u) .reserved hvok
    have ho2 : ∀ n, s2.store.taskOutput n = s.store.taskOutput n := fun n => by
      rw [hs2]
      show ((s.store.getOrCreateTaskNode u).1.addDependency a (nodeOf s u) .reserved).1.taskOutput n = _
      rw [Store.taskOutput_addDependency c1.sw, Store.taskOutput_getOrCreateTaskNode hw]
    have he2 : ∀ n, n ≠ a → s2.store.g.outgoingEdges n = s.store.g.outgoingEdges n := fun n hn => by
      rw [hs2]
      show ((s.store.getOrCreateTaskNode u).1.addDependency a (nodeOf s u)
        .reserved).1.g.outgoingEdges n = _
      rw [Store.outgoingEdges_addDependency_of_ne c1.sw _ _ _ hn,
        Store.outgoingEdges_getOrCreateTaskNode hw]
    have hc2 : s2.consistent = s.consistent := by rw [hs2]; rfl
    have hfs2 : s2.fs = s.fs := by rw [hs2]; rfl
    have hea2 : s2.store.g.outgoingEdges a = (({ s.emit (.requireStart u c) with
        store := (s.store.getOrCreateTaskNode u).1 } : Sess).store.addDependency a
        (nodeOf s u) .reserved).1.g.outgoingEdges a := by rw [hs2]
    have hkeep2 : ∀ p ∈ ({ s.emit (.requireStart u c) with
        store := (s.store.getOrCreateTaskNode u).1 } : Sess).store.g.outgoingEdges a,
        p ∈ s2.store.g.outgoingEdges a := by
      intro p hp
      rw [hea2]
      rcases halt with ⟨_, h4⟩ | ⟨_, h4⟩
      · rw [h4]; exact hp
      · rw [h4]; exact List.mem_append_left _ hp
    have c2 : CIW ro sem body s2 (ch₀ ++ [a]) X [] := by
      refine c1.frame bf2 hro2 (by rw [hs2]) (by rw [hs2]) (by rw [hs2]) le2
        (fun n => by rw [ho2]; exact (Store.taskOutput_getOrCreateTaskNode hw u n).symm) ?_ ?_ ?_
      · intro n hn
        rw [he2 n (fun hna => hn (hna ▸ hmem))]
        exact (Store.outgoingEdges_getOrCreateTaskNode hw u n).symm
      · intro a' ha' dst r' c' stp' hp
        by_cases haa : a' = a
        · subst haa; exact hkeep2 _ hp
        · rw [he2 a' haa]
          have hp' : (dst, Dep.write r' c' stp') ∈
            (s.store.getOrCreateTaskNode u).1.g.outgoingEdges a' := hp
          rw [Store.outgoingEdges_getOrCreateTaskNode hw] at hp'; exact hp'
      · intro a' ha' p hp
        have hcong : ∀ q : Nat × Dep, StackDepW ro sem ({ s.emit (.requireStart u c) with
            store := (s.store.getOrCreateTaskNode u).1 } : Sess) q.1 q.2 →
            StackDepW ro sem s2 q.1 q.2 := fun q hq =>
          hq.congr hc2 le2
            (by rw [ho2]; exact (Store.taskOutput_getOrCreateTaskNode hw u _).symm) hfs2
        by_cases haa : a' = a
        · subst haa
          rcases e22 p hp with hp | hp
          · exact hcong p (c1.i3 a' ha' p hp)
          · subst hp; trivial
        · rw [he2 a' haa] at hp
          refine hcong p (c1.i3 a' ha' p ?_)
          show p ∈ (s.store.getOrCreateTaskNode u).1.g.outgoingEdges a'
          rw [Store.outgoingEdges_getOrCreateTaskNode hw]; exact hp
    have t2 : TI s2 (ch₀ ++ [a]) [] :=
      t1.transfer (fun _ => by rw [hs2]) le2 (fun _ hn => by rw [hs2]; exact hn)
    have m2 : MonoW ro s s2 :=
      MonoW.of_same hc2 (hle1.trans le2) ho2 hfs2
    have hd2 := le2.task _ _ hd
    split at heq
    next s3 k heq3 => cases heq
    next s3 out' heq3 =>
      obtain ⟨c3, t3, m3, ho3, hcl3⟩ := ih.make s2 ch₀ a X u (nodeOf s u) c2 t2 hX hd2 e21 s3 out' heq3
      obtain ⟨_, k3, _⟩ := ((buStack sem body f).make s2 ch₀ a u (nodeOf s u) bf2 hd2 e21).ok heq3
      have hd3 := m3.le.task _ _ hd2
      have hcur3 : (s3.emit (.requireEnd u c (sem.ostamp c out') out')).cur = some a := by
        show s3.cur = some a
        rw [c3.bf.cur_eq, List.getLast?_concat]
      split at heq
      next s4 k heq4 => cases heq
      next s4 heq4 =>
        cases heq
        rw [updateRequire_some hcur3] at heq4
        split at heq4
        case h_2 => cases heq4
        case h_1 st' hsd =>
          obtain ⟨rfl, _⟩ := Prod.mk.inj heq4
          have hsd' : s3.store.setDependency a (nodeOf s u) (.require u c (sem.ostamp c out)) =
            some st' := hsd
          have ho5 : ∀ n, st'.taskOutput n = s3.store.taskOutput n :=
            Store.taskOutput_setDependency hsd'
          have he5 : st'.g.outgoingEdges a = (s3.store.g.outgoingEdges a).map
              (fun p => if p.1 = nodeOf s u then (p.1, Dep.require u c (sem.ostamp c out)) else p) := by
            rw [Store.outgoingEdges_setDependency hsd', if_pos rfl]
          have hle5 : s3.store.Le st' := Store.le_setDependency hsd'
          have hro5 : RolesInv ro st' := c3.roles.setDependency hsd' hd3
          have cM := (c3.emit (.requireEnd u c (sem.ostamp c out) out)).mark (dst := nodeOf s u) hcl3
          have hc5 : (({ s3.emit (.requireEnd u c (sem.ostamp c out) out) with store := st' } :
              Sess).markConsistent (nodeOf s u)).consistent =
              ((s3.emit (.requireEnd u c (sem.ostamp c out) out)).markConsistent
                (nodeOf s u)).consistent :=
            markConsistent_consistent_congr (s := s3.emit (.requireEnd u c (sem.ostamp c out) out))
              (s' := { s3.emit (.requireEnd u c (sem.ostamp c out) out) with store := st' }) rfl _
          have hdst5 : nodeOf s u ∈ (({ s3.emit (.requireEnd u c (sem.ostamp c out) out) with
              store := st' } : Sess).markConsistent (nodeOf s u)).consistent :=
            (Sess.mem_markConsistent _ _ _).mpr (.inr rfl)
          have c5 : CIW ro sem body (({ s3.emit (.requireEnd u c (sem.ostamp c out) out) with
              store := st' } : Sess).markConsistent (nodeOf s u)) (ch₀ ++ [a]) X [] := by
            refine cM.frame bf' (by simpa using hro5) (by simp) (by simp) hc5
              (by simpa using hle5) (fun n => by simpa using ho5 n) ?_ ?_ ?_
            · intro n hn
              simp only [Sess.store_markConsistent]
              exact Store.outgoingEdges_setDependency_of_ne hsd' (fun hna => hn (hna ▸ hmem))
            · intro a' ha' dst r' c' stp' hp
              simp only [Sess.store_markConsistent] at hp ⊢
              by_cases haa : a' = a
              · subst haa
                show (dst, Dep.write r' c' stp') ∈ st'.g.outgoingEdges a'
                rw [he5]
                refine List.mem_map.mpr ⟨(dst, Dep.write r' c' stp'), hp, ?_⟩
                have hne : dst ≠ nodeOf s u := by
                  rintro rfl
                  have : s3.store.resOf (nodeOf s u) = some r' := (c3.sw.mem_outgoingEdges_ok hp).2
                  rw [Store.resOf_eq_none_of_taskOf hd3] at this; cases this
                simp [hne]
              · show (dst, Dep.write r' c' stp') ∈ st'.g.outgoingEdges a'
                rw [Store.outgoingEdges_setDependency_of_ne hsd' haa]; exact hp
            · intro a' ha' p hp
              simp only [Sess.store_markConsistent] at hp
              have hcong : ∀ q : Nat × Dep, StackDepW ro sem ((s3.emit (.requireEnd u c (sem.ostamp c out)
                  out)).markConsistent (nodeOf s u)) q.1 q.2 →
                  StackDepW ro sem (({ s3.emit (.requireEnd u c (sem.ostamp c out) out) with
                    store := st' } : Sess).markConsistent (nodeOf s u)) q.1 q.2 := fun q hq =>
                hq.congr hc5 (by simpa using hle5) (by simpa using ho5 q.1) (by simp)
              by_cases haa : a' = a
              · subst haa
                have hp' : p ∈ st'.g.outgoingEdges a' := hp
                rw [he5] at hp'
                obtain ⟨q, hq, rfl⟩ := List.mem_map.mp hp'
                by_cases hq1 : q.1 = nodeOf s u
                · simp only [hq1, if_true]
                  refine ⟨hdst5, out, ?_, hrefl.1 c out⟩
                  simp only [Sess.store_markConsistent]
                  rw [ho5]; exact ho3
                · simp only [hq1, if_false]
                  exact hcong q (cM.i3 a' ha' q (by simpa using hq))
              · have hp' : p ∈ st'.g.outgoingEdges a' := hp
                rw [Store.outgoingEdges_setDependency_of_ne hsd' haa] at hp'
                exact hcong p (cM.i3 a' ha' p (by simpa using hp'))
          have hsub35 : ∀ n ∈ s3.consistent, n ∈ (({ s3.emit (.requireEnd u c (sem.ostamp c out)
              out) with store := st' } : Sess).markConsistent (nodeOf s u)).consistent :=
            fun n hn => (Sess.mem_markConsistent _ _ _).mpr (.inl hn)
          have m5 : MonoW ro s3 (({ s3.emit (.requireEnd u c (sem.ostamp c out) out) with
              store := st' } : Sess).markConsistent (nodeOf s u)) :=
            ⟨fun n hn => ⟨hsub35 n hn, by simpa using ho5 n⟩, by simpa using hle5,
              fun _ _ => by simp⟩
          refine ⟨c5, ?_, (m2.trans m3).trans m5, hnr', hdst5, ?_, ?_, ?_⟩
          · refine t3.transfer ?_ (by simpa using hle5) ?_
            · intro t
              rw [Sess.trace_markConsistent]
              exact countExec_emit_of_not t s3 _ rfl
            · rintro n (hn | hn | hn)
              · exact .inl (hsub35 n hn)
              · exact .inr (.inl hn)
              · simp only [List.mem_singleton] at hn
                subst hn
                exact .inl hdst5
          · simp only [Sess.store_markConsistent]
            rw [ho5]; exact ho3
          · simp only [Sess.store_markConsistent]
            exact hle5.task _ _ hd3
          · simp only [Sess.store_markConsistent]
            apply edgeUpdO_of (Lc := s2.store.g.outgoingEdges a)
            · have h1 : ({ s.emit (.requireStart u c) with
                  store := (s.store.getOrCreateTaskNode u).1 } : Sess).store.g.outgoingEdges a =
                  s.store.g.outgoingEdges a := Store.outgoingEdges_getOrCreateTaskNode hw u a
              rw [← h1, hea2]
              rcases halt with ⟨h3, h4⟩ | ⟨h3, h4⟩
              · exact .inl ⟨h3, by rw [h4]⟩
              · exact .inr ⟨h3, h4⟩
            · show st'.g.outgoingEdges a = _
              rw [he5, (k3 a hmem).1]

end PieModel
