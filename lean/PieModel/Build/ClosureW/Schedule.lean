/-
Bottom-up closure with writes: `scheduleAfterExec` — the readers of the resources written by the
executed task and its requirers are re-checked against the new contents / the new output, and
the invariant holds again without the exemptions of the executed task.
-/
import PieModel.Build.ClosureW.Steps

namespace PieModel

variable {ro : Roles} {sem : Sem} {body : Nat → Prog}

theorem Store.mem_readDepsTo_iff {st : Store} (hw : st.WF) (dst p : Nat) (d : Dep) :
    (p, d) ∈ st.readDepsTo dst ↔ d.isRead = true ∧ (dst, d) ∈ st.g.outgoingEdges p := by
  rw [Store.readDepsTo_eq, List.mem_filter, Dag.mem_incomingEdges hw.gwf,
    Dag.mem_outgoingEdges hw.gwf]
  exact ⟨fun h => ⟨h.2, h.1⟩, fun h => ⟨h.2, h.1⟩⟩

theorem Store.mem_resourcesWrittenBy_iff {st : Store} (src w : Nat) :
    w ∈ st.resourcesWrittenBy src ↔ ∃ r c stp, (w, Dep.write r c stp) ∈ st.g.outgoingEdges src := by
  rw [Store.resourcesWrittenBy_eq, List.mem_map]
  constructor
  · rintro ⟨⟨w', d⟩, hm, rfl⟩
    obtain ⟨h1, h2⟩ := List.mem_filter.mp hm
    cases d with
    | write r c stp => exact ⟨r, c, stp, h1⟩
    | reserved => cases h2
    | require u c stp => cases h2
    | read r c stp => cases h2
  · rintro ⟨r, c, stp, h⟩
    exact ⟨(w, .write r c stp), List.mem_filter.mpr ⟨h, rfl⟩, rfl⟩

/-- One step of the first loop of `scheduleAfterExec`: the readers of the resource node `w`. -/
theorem writtenSchedStep_spec (s : Sess) (hw : s.store.WF) (hnd : s.queue.Nodup) (w : Nat) :
    SameCore s (writtenSchedStep sem s w) ∧ (writtenSchedStep sem s w).fs = s.fs ∧
    (writtenSchedStep sem s w).queue.Nodup ∧
    (∀ n ∈ s.queue, n ∈ (writtenSchedStep sem s w).queue) ∧
    (∀ n ∈ (writtenSchedStep sem s w).queue, n ∈ s.queue ∨
      ∃ r c stamp, (w, Dep.read r c stamp) ∈ s.store.g.outgoingEdges n) ∧
    (∀ n r c stamp, (w, Dep.read r c stamp) ∈ s.store.g.outgoingEdges n →
      sem.rcheck c (aget s.fs r) stamp ≠ .ok true → n ∈ (writtenSchedStep sem s w).queue) := by
  unfold writtenSchedStep
  split
  next hres =>
    refine ⟨SameCore.refl s, rfl, hnd, fun _ h => h, fun _ h => .inl h, ?_⟩
    intro n r c stamp hp _
    have : s.store.resOf w = some r := (hw.mem_outgoingEdges_ok hp).2
    rw [hres] at this; cases this
  next r0 hres =>
    have hL : ∀ p ∈ (s.emit (.schedResStart r0)).store.readDepsTo w,
        ∃ t, (s.emit (.schedResStart r0)).store.taskOf p.1 = some t := by
      intro p hp
      obtain ⟨n, d⟩ := p
      exact (hw.mem_outgoingEdges_ok ((Store.mem_readDepsTo_iff hw w n d).mp hp).2).1
    obtain ⟨c1, c2, c3, c4, c5, c6⟩ := trySched_fold (sem := sem)
      ((s.emit (.schedResStart r0)).store.readDepsTo w) (s.emit (.schedResStart r0)) hL hnd
    simp only []
    generalize List.foldl (fun s (p : Nat × Dep) => trySchedule sem s p.1 p.2)
      (s.emit (.schedResStart r0)) ((s.emit (.schedResStart r0)).store.readDepsTo w) = S1
      at c1 c2 c3 c4 c5 c6 ⊢
    refine ⟨⟨c1.1, c1.2.1, c1.2.2⟩, c2, c3, c4, ?_, ?_⟩
    · intro n hn
      rcases c5 n hn with hn | ⟨d, hm⟩
      · exact .inl hn
      · obtain ⟨h1, h2⟩ := (Store.mem_readDepsTo_iff hw w n d).mp hm
        cases d with
        | read r c stamp => exact .inr ⟨r, c, stamp, h2⟩
        | reserved => cases h1
        | require u c stamp => cases h1
        | write r c stamp => cases h1
    · intro n r c stamp hp hck
      exact c6 n r c stamp (.inl ((Store.mem_readDepsTo_iff hw w n _).mpr ⟨rfl, hp⟩)) hck

/-- The first loop of `scheduleAfterExec`. -/
theorem writtenSched_fold (W : List Nat) : ∀ s : Sess, s.store.WF → s.queue.Nodup →
    SameCore s (W.foldl (writtenSchedStep sem) s) ∧ (W.foldl (writtenSchedStep sem) s).fs = s.fs ∧
    (W.foldl (writtenSchedStep sem) s).queue.Nodup ∧
    (∀ n ∈ s.queue, n ∈ (W.foldl (writtenSchedStep sem) s).queue) ∧
    (∀ n ∈ (W.foldl (writtenSchedStep sem) s).queue, n ∈ s.queue ∨
      ∃ w ∈ W, ∃ r c stamp, (w, Dep.read r c stamp) ∈ s.store.g.outgoingEdges n) ∧
    (∀ w ∈ W, ∀ n r c stamp, (w, Dep.read r c stamp) ∈ s.store.g.outgoingEdges n →
      sem.rcheck c (aget s.fs r) stamp ≠ .ok true →
      n ∈ (W.foldl (writtenSchedStep sem) s).queue) := by
  induction W with
  | nil =>
    intro s _ hnd
    exact ⟨SameCore.refl s, rfl, hnd, fun _ h => h, fun _ h => .inl h, fun _ h => (nomatch h)⟩
  | cons w W ih =>
    intro s hw hnd
    simp only [List.foldl_cons]
    obtain ⟨a1, a2, a3, a4, a5, a6⟩ := writtenSchedStep_spec (sem := sem) s hw hnd w
    obtain ⟨b1, b2, b3, b4, b5, b6⟩ := ih (writtenSchedStep sem s w) (a1.1 ▸ hw) a3
    refine ⟨a1.trans b1, b2.trans a2, b3, fun n hn => b4 n (a4 n hn), ?_, ?_⟩
    · intro n hn
      rcases b5 n hn with hn | ⟨w', hw', r, c, stamp, hp⟩
      · rcases a5 n hn with hn | ⟨r, c, stamp, hp⟩
        · exact .inl hn
        · exact .inr ⟨w, List.mem_cons_self .., r, c, stamp, hp⟩
      · exact .inr ⟨w', List.mem_cons_of_mem _ hw', r, c, stamp, by rw [← a1.1]; exact hp⟩
    · intro w' hw' n r c stamp hp hck
      rcases List.mem_cons.mp hw' with rfl | hw'
      · exact b4 n (a6 n r c stamp hp hck)
      · exact b6 w' hw' n r c stamp (by rw [a1.1]; exact hp) (by rw [a2]; exact hck)

/-- After the execution of the exempt task `node` (all of whose edges are finished ones),
`scheduleAfterExec` re-establishes the invariant without the exemptions of `node`, which is
consistent (hence clean) afterwards. -/
theorem CIW.scheduleAfterExec {s : Sess} {ch X : List Nat} {node t : Nat} {o : Int}
    (h : CIW ro sem body s ch (node :: X) [node]) (hX : ∀ x ∈ X, x ∈ ch) (hnX : node ∉ X)
    (ht : s.store.taskOf node = some t) (ho : s.store.taskOutput node = some o)
    (hfresh : FreshW ro sem s node) :
    CIW ro sem body (scheduleAfterExec sem s node t o) ch X [] ∧
      node ∈ (scheduleAfterExec sem s node t o).consistent ∧
      (scheduleAfterExec sem s node t o).fs = s.fs := by
  have hw := h.sw
  have hwf' := (scheduleAfterExec_ext sem h.wf node t o).wf
  rw [scheduleAfterExec_eq] at hwf' ⊢
  simp only [] at hwf' ⊢
  obtain ⟨b1, b2, b3, b4, b5, b6⟩ := writtenSched_fold (sem := sem)
    (s.store.resourcesWrittenBy node) s hw h.qnd
  generalize (s.store.resourcesWrittenBy node).foldl (writtenSchedStep sem) s = S1
    at hwf' b1 b2 b3 b4 b5 b6 ⊢
  have hst1 : S1.store = s.store := b1.1
  have hL : ∀ p ∈ (S1.emit (.schedTaskStart t)).store.requireDepsTo node,
      ∃ tp, (S1.emit (.schedTaskStart t)).store.taskOf p.1 = some tp := by
    intro p hp
    obtain ⟨n, d⟩ := p
    have hp' : (n, d) ∈ s.store.requireDepsTo node := by
      have : (S1.emit (.schedTaskStart t)).store = s.store := hst1
      rw [this] at hp; exact hp
    have := ((Store.mem_requireDepsTo_iff hw node n d).mp hp').2
    have h2 := (hw.mem_outgoingEdges_ok this).1
    show ∃ tp, S1.store.taskOf n = some tp
    rw [hst1]; exact h2
  obtain ⟨c1, c2, c3, c4, c5, c6⟩ := reqSched_fold (sem := sem) o
    ((S1.emit (.schedTaskStart t)).store.requireDepsTo node) (S1.emit (.schedTaskStart t)) hL b3
  have hreq : (S1.emit (.schedTaskStart t)).store.requireDepsTo node = s.store.requireDepsTo node := by
    show S1.store.requireDepsTo node = _
    rw [hst1]
  rw [hreq] at c1 c2 c3 c4 c5 c6 hwf' ⊢
  generalize (s.store.requireDepsTo node).foldl (reqSchedStep sem o)
    (S1.emit (.schedTaskStart t)) = S3 at hwf' c1 c2 c3 c4 c5 c6 ⊢
  have hw3 : SessWF (S3.emit (.schedTaskEnd t)) := (hwf'.same (by simp) (by simp) (by simp)).wf
  have hcore : SameCore s (S3.emit (.schedTaskEnd t)) :=
    (b1.trans (SameCore.emit S1 _)).trans (c1.trans (SameCore.emit S3 _))
  have hfs3 : (S3.emit (.schedTaskEnd t)).fs = s.fs := by
    show S3.fs = s.fs
    rw [c2]; exact b2
  refine ⟨CIW.sched h hX hnX ht ho hfresh (s₃ := S3.emit (.schedTaskEnd t)) hcore hfs3 hw3
    (fun p hp => c4 p (b4 p hp)) c3 ?_ ?_ ?_, (Sess.mem_markConsistent _ _ _).mpr (.inr rfl),
    by rw [Sess.fs_markConsistent]; exact hfs3⟩
  · intro p hp
    rcases c5 p hp with hp | ⟨u, c, stamp, hm⟩
    · rcases b5 p hp with hp | ⟨w, hwm, r, c, stamp, he⟩
      · exact .inl hp
      · obtain ⟨r', c', stp', hwe⟩ := (Store.mem_resourcesWrittenBy_iff node w).mp hwm
        exact .inr (.inr ⟨w, r, c, stamp, he, node, by simp, r', c', stp', hwe⟩)
    · exact .inr (.inl ⟨u, c, stamp, ((Store.mem_requireDepsTo_iff hw node p _).mp hm).2⟩)
  · intro p u c stamp hp hck
    exact c6 p u c stamp ((Store.mem_requireDepsTo_iff hw node p _).mpr ⟨rfl, hp⟩) hck
  · intro p dst r c stamp hp hwb hck
    obtain ⟨w, hwm, r', c', stp', hwe⟩ := hwb
    simp only [List.mem_singleton] at hwm
    subst hwm
    exact c4 p (b6 dst ((Store.mem_resourcesWrittenBy_iff w dst).mpr ⟨r', c', stp', hwe⟩)
      p r c stamp hp hck)

end PieModel
