/-
What the session primitives do to the store, case by case (used by the invariants of
`Props/C06Inv.lean`, `Props/C08.lean`, `Props/C05Inv.lean`):

* `Store.addDependency_cases`: either a *new* edge is appended, or the store is unchanged;
* `doRead_cases`, `doWrite_cases`, `doWrote_cases`: the store after the primitive is the store
  after node lookup, except when the result is `.ok (.ok _)`, in which case the test
  (`readHidden` / `validateWrite`) passed and the dependency with the stamp taken was added;
* `reserveRequire_cases`, `updateRequire_cases`.
-/
import PieModel.Build.SessWF
import PieModel.Build.Proofs.ValidateWrite

namespace PieModel

namespace Store
variable {st : Store}

/-- `addDependency` either appends a new edge (verdict `.ok`, edge absent before) or leaves the
store unchanged (edge already present, cycle, missing node). -/
theorem addDependency_cases (h : st.WF) (src dst : Nat) (d : Dep) :
    ((st.addDependency src dst d).2 = .ok ∧ ¬ st.g.HasEdge src dst) ∨
    (st.addDependency src dst d).1 = st := by
  by_cases h1 : (st.addDependency src dst d).2 = .ok
  · by_cases he : st.g.HasEdge src dst
    · right; rw [addDependency_of_edge h _ _ _ he]
    · exact .inl ⟨h1, he⟩
  · exact .inr (addDependency_fst_of_ne_ok _ _ _ h1)

/-- All incoming edges of a task node are `reserved`/`require`: it has no writers and no readers. -/
theorem WF.writersTo_task_node (h : st.WF) {dst t : Nat} (hd : st.taskOf dst = some t) :
    st.writersTo dst = [] := by
  unfold writersTo
  rw [List.map_eq_nil_iff, List.filter_eq_nil_iff]
  intro p hp
  rcases h.incoming_task_node hd hp with h1 | ⟨c, s, h1⟩ <;> simp [h1]

theorem WF.tasksReadingFrom_task_node (h : st.WF) {dst t : Nat} (hd : st.taskOf dst = some t) :
    st.tasksReadingFrom dst = [] := by
  rw [tasksReadingFrom_eq, List.map_eq_nil_iff, List.filter_eq_nil_iff]
  intro p hp
  rcases h.incoming_task_node hd hp with h1 | ⟨c, s, h1⟩ <;> simp [h1]

/-- `w` is a recorded writer of `dst` iff there is a `write` edge `w → dst`. -/
theorem WF.mem_writersTo_iff (h : st.WF) (w dst : Nat) :
    w ∈ st.writersTo dst ↔ ∃ d, d.isWrite = true ∧ st.g.getEdgeData w dst = some d := by
  unfold writersTo
  simp only [List.mem_map, List.mem_filter]
  constructor
  · rintro ⟨⟨w', d⟩, ⟨hm, hw⟩, rfl⟩
    exact ⟨d, hw, (Dag.mem_incomingEdges h.gwf dst w' d).mp hm⟩
  · rintro ⟨d, hw, he⟩
    exact ⟨(w, d), ⟨(Dag.mem_incomingEdges h.gwf dst w d).mpr he, hw⟩, rfl⟩

theorem WF.mem_tasksReadingFrom_iff (h : st.WF) (y dst : Nat) :
    y ∈ st.tasksReadingFrom dst ↔ ∃ d, d.isRead = true ∧ st.g.getEdgeData y dst = some d := by
  rw [tasksReadingFrom_eq]
  simp only [List.mem_map, List.mem_filter]
  constructor
  · rintro ⟨⟨w', d⟩, ⟨hm, hw⟩, rfl⟩
    exact ⟨d, hw, (Dag.mem_incomingEdges h.gwf dst w' d).mp hm⟩
  · rintro ⟨d, hw, he⟩
    exact ⟨(y, d), ⟨(Dag.mem_incomingEdges h.gwf dst y d).mpr he, hw⟩, rfl⟩

/-- `d` is a recorded dependency of `src` iff it is the data of some edge `src → x`. -/
theorem WF.mem_depsFrom_iff (h : st.WF) (src : Nat) (d : Dep) :
    d ∈ st.depsFrom src ↔ ∃ x, st.g.getEdgeData src x = some d := by
  simp only [depsFrom, Dag.outgoingEdgeData, List.mem_map]
  constructor
  · rintro ⟨⟨x, d'⟩, hm, rfl⟩
    exact ⟨x, (Dag.mem_outgoingEdges h.gwf src x d').mp hm⟩
  · rintro ⟨x, he⟩
    exact ⟨(x, d), (Dag.mem_outgoingEdges h.gwf src x d).mpr he, rfl⟩

end Store

variable (sem : Sem)

/-! ### `doRead` -/

theorem doRead_cases {s : Sess} {cur : Nat} (hc : s.cur = some cur) (r c : Nat) {st : Store}
    {dst : Nat} (hp : s.store.getOrCreateResNode r = (st, dst)) :
    ((doRead sem s r c).1.store = st ∧ ∀ v, (doRead sem s r c).2 ≠ .ok (.ok v)) ∨
    (readHidden st cur dst = false ∧ ∃ stamp, sem.rstamp c (s.content r) = .ok stamp ∧
      (doRead sem s r c).1.store = (st.addDependency cur dst (.read r c stamp)).1 ∧
      (doRead sem s r c).2 = .ok (.ok (s.content r))) := by
  rw [doRead_eq sem s r c cur st dst hc hp]
  split
  · exact .inl ⟨rfl, fun v hv => by cases hv⟩
  next hh =>
    split
    · exact .inl ⟨rfl, fun v hv => by cases hv⟩
    next stamp hst =>
      split
      · exact .inl ⟨rfl, fun v hv => by cases hv⟩
      next st' x hx heq =>
        refine .inr ⟨by simpa using hh, stamp, hst, ?_, rfl⟩
        show st' = _
        rw [heq]

/-! ### `doWrite`, `doWrote` -/

theorem doWrite_cases {s : Sess} {cur : Nat} (hc : s.cur = some cur) (r c : Nat) (v : Option Int)
    {st : Store} {dst : Nat} (hp : s.store.getOrCreateResNode r = (st, dst)) :
    ((doWrite sem s r c v).1.store = st ∧ (doWrite sem s r c v).2 ≠ .ok (.ok ())) ∨
    (validateWrite st cur dst = none ∧
      ∃ stamp, sem.rstamp c ((s.setContent r v).content r) = .ok stamp ∧
      (doWrite sem s r c v).1.store = (st.addDependency cur dst (.write r c stamp)).1 ∧
      (doWrite sem s r c v).2 = .ok (.ok ())) := by
  rw [doWrite_eq sem s r c cur v st dst hc hp]
  have hcont : (({ s with store := st, trace := s.trace ++ [.writeStart r c] } : Sess).setContent r v).content r
      = (s.setContent r v).content r :=
    SessL.content_congr _ _ (SessL.setContent_fs_with s st _ r v) r
  simp only [hcont]
  split
  · exact .inl ⟨rfl, fun hv => by cases hv⟩
  next hv =>
    split
    · exact .inl ⟨by simp, fun hv => by cases hv⟩
    next stamp hst =>
      split
      · exact .inl ⟨by simp, fun hv => by cases hv⟩
      next st' x hx heq =>
        refine .inr ⟨hv, stamp, hst, ?_, rfl⟩
        show st' = _
        rw [heq]

theorem doWrote_cases {s : Sess} {cur : Nat} (hc : s.cur = some cur) (r c : Nat) (v : Option Int)
    {st : Store} {dst : Nat} (hp : s.store.getOrCreateResNode r = (st, dst)) :
    ((doWrote sem s r c v).1.store = st ∧ (doWrote sem s r c v).2 ≠ .ok (.ok ())) ∨
    (validateWrite st cur dst = none ∧
      ∃ stamp, sem.rstamp c ((s.setContent r v).content r) = .ok stamp ∧
      (doWrote sem s r c v).1.store = (st.addDependency cur dst (.write r c stamp)).1 ∧
      (doWrote sem s r c v).2 = .ok (.ok ())) := by
  rw [doWrote_eq sem s r c cur v st dst hc hp]
  simp only
  split
  · exact .inl ⟨rfl, fun hv => by cases hv⟩
  next hv =>
    split
    · exact .inl ⟨rfl, fun hv => by cases hv⟩
    next stamp hst =>
      split
      · exact .inl ⟨rfl, fun hv => by cases hv⟩
      next st' x hx heq =>
        refine .inr ⟨hv, stamp, hst, ?_, rfl⟩
        show st' = _
        rw [heq]

/-! ### `reserveRequire`, `updateRequire` -/

theorem reserveRequire_cases {s : Sess} {src : Nat} (hc : s.cur = some src) (dst : Nat) :
    ((reserveRequire s dst).1 = s ∧ (reserveRequire s dst).2 ≠ .ok ()) ∨
    ((s.store.addDependency src dst .reserved).2 = .ok ∧
      (reserveRequire s dst).1 = { s with store := (s.store.addDependency src dst .reserved).1 } ∧
      (reserveRequire s dst).2 = .ok ()) := by
  unfold reserveRequire
  rw [hc]; simp only
  split
  next st heq => exact .inr ⟨by rw [heq], by rw [heq], rfl⟩
  · exact .inl ⟨rfl, fun h => by cases h⟩
  · exact .inl ⟨rfl, fun h => by cases h⟩

theorem updateRequire_cases {s : Sess} {src : Nat} (hc : s.cur = some src) (dst t c : Nat)
    (stamp : Stamp) :
    ((updateRequire s dst t c stamp).1 = s ∧ (updateRequire s dst t c stamp).2 ≠ .ok ()) ∨
    (∃ st', s.store.setDependency src dst (.require t c stamp) = some st' ∧
      (updateRequire s dst t c stamp).1 = { s with store := st' } ∧
      (updateRequire s dst t c stamp).2 = .ok ()) := by
  unfold updateRequire
  rw [hc]; simp only
  split
  next st heq => exact .inr ⟨st, heq, rfl, rfl⟩
  · exact .inl ⟨rfl, fun h => by cases h⟩

end PieModel

