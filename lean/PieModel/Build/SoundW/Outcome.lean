/-
Soundness of the top-down build with writes: the statement of the joint induction (`TdSoundW`),
i.e. the post-conditions of the five mutually recursive functions.
-/
import PieModel.Build.SoundW.Walk

namespace PieModel

variable (ro : Roles) (sem : Sem) (body : Nat → Prog) (fs₀ : List (Nat × Int)) (D : Nat → Prop)

/-- The frame of a call working at rank `≥ k`: resources generated below rank `k` are untouched,
and every execution started during the call has finished. -/
structure FrameW (k : Nat) (s s' : Sess) : Prop where
  fs : FsBelow ro k s s'
  exec : NewExec s s'

/-- What is known about a dependency of the *executing* task `n`. -/
def RunDepW (qt qr : List (Nat × Nat)) (s : Sess) (dst : Nat) : Dep → Prop
  | .require u c st => (u, c) ∈ qt ∧ dst ∈ s.consistent ∧
      ∃ o, s.store.taskOutput dst = some o ∧ st = sem.ostamp c o
  | .read r c st => (r, c) ∈ qr ∧ sem.rstamp c (aget s.fs r) = .ok st ∧
      ∀ w, ro.gen r = some w → ConsT s w
  | .reserved => False
  | .write .. => True

/-- All outgoing edges of the executing task `n` are as described by `RunDepW`. -/
def RunInvW (qt qr : List (Nat × Nat)) (s : Sess) (n : Nat) : Prop :=
  ∀ dst d, (dst, d) ∈ s.store.g.outgoingEdges n → RunDepW ro sem qt qr s dst d

/-- The net effect of a `require` on the (ordered) edge list of the requiring task: the existing
edge to `mu` now carries `Dn`, or a new edge with `Dn` is appended. -/
def EdgeUpdO (L Lf : List (Nat × Dep)) (mu : Nat) (Dn : Dep) : Prop :=
  ((∃ d0, (mu, d0) ∈ L) ∧ Lf = L.map (fun p => if p.1 = mu then (p.1, Dn) else p)) ∨
  ((∀ d0, (mu, d0) ∉ L) ∧ Lf = L ++ [(mu, Dn)])

/-- Result of a call from state `s`: the store is faithful whatever the result; if the call
returns, the session advanced by an `SStepW` and `Q` holds. -/
structure OutcomeW {α : Type} (s : Sess) (F : Sess × Res α) (Q : Sess → α → Prop) : Prop where
  faithful : FaithfulO sem body F.1.store
  ok : ∀ s' v, F = (s', .ok v) → SStepW ro sem body fs₀ D s s' ∧ Q s' v

def QMakeW (s : Sess) (t : Nat) (s' : Sess) (v : Int) : Prop :=
  nodeOf s t ∈ s'.consistent ∧ s'.store.taskOutput (nodeOf s t) = some v ∧
    s'.store.taskOf (nodeOf s t) = some t ∧ Prot s s' (nodeOf s t) ∧ FrameW ro (ro.rank t) s s'

def QCheckW (s : Sess) (m t : Nat) (s' : Sess) (r : Option Int) : Prop :=
  ProtR s s' m ∧ FrameW ro (ro.rank t + 1) s s' ∧ ∀ o, r = some o →
    s.store.taskOutput m = some o ∧ ∀ d ∈ s.store.depsFrom m, DepOk ro sem s' d

def QDepsW (s : Sess) (m t : Nat) (all : List Dep) (s' : Sess) (b : Bool) : Prop :=
  ProtR s s' m ∧ FrameW ro (ro.rank t + 1) s s' ∧ (b = true → ∀ d ∈ all, DepOk ro sem s' d)

def QReqW (s : Sess) (u c : Nat) (s' : Sess) (out : Int) : Prop :=
  nodeOf s u ∈ s'.consistent ∧ s'.store.taskOutput (nodeOf s u) = some out ∧
    s'.store.taskOf (nodeOf s u) = some u ∧ FrameW ro (ro.rank u) s s' ∧
    ∀ n, s.cur = some n → Prot s s' n ∧
      EdgeUpdO (s.store.g.outgoingEdges n) (s'.store.g.outgoingEdges n) (nodeOf s u)
        (.require u c (sem.ostamp c out))

def QRunW (s : Sess) (n t0 : Nat) (E : WEnv) (p : Prog) (s' : Sess) (v : Int) : Prop :=
  ∃ ws, EvalW ro sem body fs₀ E p (v, ws) ∧
    (∀ r, ro.gen r = some t0 → aget s'.fs r = (wget ws r).getD (aget s.fs r)) ∧
    (∀ u, CallsP ro sem body fs₀ E p u → ConsT s' u) ∧
    FrameW ro (ro.rank t0) s s' ∧ Prot s s' n ∧ (∃ qt qr, RunInvW ro sem qt qr s' n) ∧
    ∃ new, s'.store.depsFrom n = s.store.depsFrom n ++ new ∧
      ReplayO sem p (s.store.depsFrom n) new v

/-- The joint statement for fuel `f`. -/
structure TdSoundW (f : Nat) : Prop where
  require : ∀ s u c, SInvWD ro sem body fs₀ D s → ReqPre ro s u → D u →
    OutcomeW ro sem body fs₀ D s (tdRequire sem body f s u c) (QReqW ro sem s u c)
  make : ∀ s t, SInvWD ro sem body fs₀ D s → CurReach s (nodeOf s t) → ReqPre ro s t → D t →
    OutcomeW ro sem body fs₀ D s (tdMake sem body f s t) (QMakeW ro s t)
  check : ∀ s m t, SInvWD ro sem body fs₀ D s → m ∉ s.consistent → CurReach s m →
    s.store.taskOf m = some t → ReqPre ro s t → D t →
    OutcomeW ro sem body fs₀ D s (tdCheck sem body f s m) (QCheckW ro sem s m t)
  checkDeps : ∀ s m t o pre ds, SInvWD ro sem body fs₀ D s → m ∉ s.consistent → CurReach s m →
    s.store.taskOf m = some t → ReqPre ro s t → D t → s.store.depsFrom m = pre ++ ds →
    ReplayO sem (body t) [] (pre ++ ds) o → (∀ d ∈ pre, DepOk ro sem s d) →
    OutcomeW ro sem body fs₀ D s (tdCheckDeps sem body f s ds) (QDepsW ro sem s m t (pre ++ ds))
  run : ∀ s n t0 p a E qt qr, SInvWD ro sem body fs₀ D s → s.cur = some n →
    s.store.taskOf n = some t0 → StaticRolesFrom ro t0 a p → AccOK s.store n a → OneCk qt qr p →
    RunInvW ro sem qt qr s n → EnvOK ro sem body fs₀ s E a →
    (∀ u, CallsP ro sem body fs₀ E p u → D u) →
    OutcomeW ro sem body fs₀ D s (tdRun sem body f s p) (QRunW ro sem body fs₀ s n t0 E p)

variable {ro sem body fs₀ D}

namespace OutcomeW
variable {α : Type} {s s₁ : Sess} {F : Sess × Res α} {Q Q₁ : Sess → α → Prop}

theorem abort {a : Abort} (h : FaithfulO sem body s₁.store) :
    OutcomeW ro sem body fs₀ D s (s₁, (.abort a : Res α)) Q :=
  ⟨h, fun _ _ heq => by cases heq⟩

theorem ret {v : α} (st : SStepW ro sem body fs₀ D s s₁) (hq : Q s₁ v) :
    OutcomeW ro sem body fs₀ D s (s₁, .ok v) Q :=
  ⟨st.inv.faithful, fun _ _ heq => by cases heq; exact ⟨st, hq⟩⟩

theorem faithful_of {r : Res α} (o : OutcomeW ro sem body fs₀ D s F Q) (heq : F = (s₁, r)) :
    FaithfulO sem body s₁.store := by
  have := o.faithful; rw [heq] at this; exact this

theorem trans (o : OutcomeW ro sem body fs₀ D s₁ F Q₁) (st : SStepW ro sem body fs₀ D s s₁)
    (hq : ∀ s' v, SStepW ro sem body fs₀ D s₁ s' → Q₁ s' v → Q s' v) :
    OutcomeW ro sem body fs₀ D s F Q :=
  ⟨o.faithful, fun s' v heq =>
    ⟨st.trans (o.ok s' v heq).1, hq s' v (o.ok s' v heq).1 (o.ok s' v heq).2⟩⟩

end OutcomeW

namespace FrameW
variable {k k' : Nat} {s s' s'' : Sess}

theorem refl (k : Nat) (s : Sess) : FrameW ro k s s := ⟨FsBelow.refl k s, NewExec.refl s⟩

theorem trans (h₁ : FrameW ro k s s') (h₂ : FrameW ro k s' s'')
    (st : SStepW ro sem body fs₀ D s' s'') : FrameW ro k s s'' :=
  ⟨h₁.fs.trans h₂.fs, h₁.exec.trans h₂.exec st.mono st.le⟩

theorem mono (h : FrameW ro k s s') (hk : k' ≤ k) : FrameW ro k' s s' := ⟨h.fs.mono hk, h.exec⟩

/-- A step that does not touch the resources and starts no execution. -/
theorem quiet (hfs : s'.fs = s.fs) (htr : TrExt s s') : FrameW ro k s s' :=
  ⟨FsBelow.of_eq hfs, NewExec.of_trace htr.2⟩

end FrameW

/-- A step that only extends the trace (by events that are not starts of executions). -/
theorem SInvWD.quiet {s s' : Sess} (h : SInvWD ro sem body fs₀ D s) (h1 : s'.store = s.store)
    (h2 : s'.fs = s.fs) (h3 : s'.cur = s.cur) (h4 : s'.consistent = s.consistent)
    (h5 : s'.queue = s.queue) (htr : TrExt s s') (k m : Nat) :
    SStepW ro sem body fs₀ D s s' ∧ ProtR s s' m ∧ FrameW ro k s s' :=
  ⟨h.same h1 h2 h3 h4 h5 htr.1 htr.2, Prot.same h1 h4 m, FrameW.quiet h2 htr⟩

theorem RunDepW.mono {qt qr qt' qr' : List (Nat × Nat)} {s s' : Sess} {dst : Nat} {d : Dep}
    (hd : RunDepW ro sem qt qr s dst d) (h : SInvWD ro sem body fs₀ D s)
    (st : SStepW ro sem body fs₀ D s s')
    (ht : ∀ p ∈ qt, p ∈ qt') (hr : ∀ p ∈ qr, p ∈ qr') : RunDepW ro sem qt' qr' s' dst d := by
  cases d with
  | reserved => exact hd
  | require u c stp =>
    obtain ⟨h1, h2, o, h3, h4⟩ := hd
    exact ⟨ht _ h1, st.mono _ h2, o, by rw [(st.cext _ h2).1]; exact h3, h4⟩
  | read r c stp =>
    obtain ⟨h1, h2, h3⟩ := hd
    exact ⟨hr _ h1, by rw [st.fs_stable h h3]; exact h2, fun w hw => st.consT (h3 w hw)⟩
  | write r c stp => exact hd

/-- The net effect of reserve + update on the ordered edge list `L` of the requiring task. -/
theorem edgeUpdO_of {L Lc Lf : List (Nat × Dep)} {mu : Nat} {Dn : Dep}
    (hc : ((∃ d0, (mu, d0) ∈ L) ∧ Lc = L) ∨
      ((∀ d0, (mu, d0) ∉ L) ∧ Lc = L ++ [(mu, .reserved)]))
    (hf : Lf = Lc.map (fun p => if p.1 = mu then (p.1, Dn) else p)) : EdgeUpdO L Lf mu Dn := by
  subst hf
  rcases hc with ⟨h1, rfl⟩ | ⟨hno, rfl⟩
  · exact .inl ⟨h1, rfl⟩
  · refine .inr ⟨hno, ?_⟩
    rw [List.map_append]
    congr 1
    · conv => rhs; rw [← List.map_id L]
      apply List.map_congr_left
      intro p hp
      have : p.1 ≠ mu := fun hh => hno p.2 (by rw [← hh]; exact hp)
      simp [this]
    · simp

theorem nodeOf_eqW {s : Sess} (hw : s.store.WF) {m t : Nat} (ht : s.store.taskOf m = some t) :
    nodeOf s t = m := nodeOf_eq hw ht

end PieModel
