/-
Soundness of the top-down build for programs WITH writes (property C01 in full): definitions.

* `WriteExact`: the checker used at every `write`/`wrote` node determines the whole content;
* the from-scratch semantics with writes `EvalW` / `Den` (relative to the resource state `fs₀`
  at the start, with the environment of the write lists of the tasks required so far on the
  path), its determinism, the call relation `CallsP`/`Calls`, the demanded set `Demanded`, and
  the ideal final resource state `overlay`;
* the store invariants: `ReplayW`/`FaithfulW` (`Replay` of `Sound/Defs.lean` extended by write
  nodes), and the *ordered* versions `ReplayO`/`FaithfulO` (the dependency list is, in order,
  the list of first accesses of the replayed path) which the proofs use: `FaithfulO → FaithfulW`.
-/
import PieModel.Build.Sound.Defs
import PieModel.Build.Roles

namespace PieModel

/-- The resource checker `c` sees the whole content: a stamp is accepted only for the content it
was made of. -/
def ExactC (sem : Sem) (c : Nat) : Prop :=
  ∀ x x' s, sem.rstamp c x = .ok s → sem.rcheck c x' s = .ok true → x' = x

/-- At every `write r c v k` / `wrote r c v k` node the checker `c` is exact. -/
def WriteExact (sem : Sem) : Prog → Prop
  | .ret _ => True
  | .panic => True
  | .req _ _ k => ∀ o, WriteExact sem (k o)
  | .read _ _ k => ∀ x, WriteExact sem (k x)
  | .write _ c _ k =>
    (∀ x x' s, sem.rstamp c x = .ok s → sem.rcheck c x' s = .ok true → x' = x) ∧
      ∀ x, WriteExact sem (k x)
  | .wrote _ c _ k =>
    (∀ x x' s, sem.rstamp c x = .ok s → sem.rcheck c x' s = .ok true → x' = x) ∧
      ∀ x, WriteExact sem (k x)

/-! ### write lists -/

/-- The writes performed by one execution, in order: `(resource, new content)`. -/
abbrev Writes := List (Nat × Option Int)

/-- The content `r` has after the writes `ws` (`none`: `r` is not written); the last write wins. -/
def wget : Writes → Nat → Option (Option Int)
  | [], _ => none
  | (r', v) :: ws, r =>
    match wget ws r with
    | some x => some x
    | none => if r' = r then some v else none

@[simp] theorem wget_nil (r : Nat) : wget [] r = none := rfl

theorem wget_cons (r' : Nat) (v : Option Int) (ws : Writes) (r : Nat) :
    wget ((r', v) :: ws) r =
      match wget ws r with
      | some x => some x
      | none => if r' = r then some v else none := rfl

theorem wget_mem {ws : Writes} {r : Nat} {x : Option Int} (h : wget ws r = some x) :
    (r, x) ∈ ws := by
  induction ws with
  | nil => cases h
  | cons p ws ih =>
    obtain ⟨r', v⟩ := p
    rw [wget_cons] at h
    cases hw : wget ws r with
    | some y => rw [hw] at h; cases h; exact List.mem_cons_of_mem _ (ih hw)
    | none =>
      rw [hw] at h
      by_cases hr : r' = r
      · rw [if_pos hr] at h; cases h; subst hr; exact List.mem_cons_self
      · rw [if_neg hr] at h; cases h

/-- The environment of a path: the tasks required so far, each with its write list. -/
abbrev WEnv := List (Nat × Writes)

/-- What a read of `r` sees in the from-scratch build: the content written by the generator of
`r` if the generator was required earlier on the path and wrote `r`; else the start content.
(Own writes are not looked up: under static roles a task never reads what it may write.) -/
def view (ro : Roles) (fs₀ : List (Nat × Int)) (E : WEnv) (r : Nat) : Option Int :=
  match ro.gen r with
  | none => aget fs₀ r
  | some w =>
    match aget E w with
    | none => aget fs₀ r
    | some ws => (wget ws r).getD (aget fs₀ r)

/-! ### the from-scratch semantics with writes -/

/-- Big-step from-scratch evaluation against the start state `fs₀`, in the environment `E` of
the tasks required so far on the path: output and list of OWN writes.  A `req` evaluates the body
of the required task (in the empty environment) and records its write list in the environment. -/
inductive EvalW (ro : Roles) (sem : Sem) (body : Nat → Prog) (fs₀ : List (Nat × Int)) :
    WEnv → Prog → Int × Writes → Prop
  | ret {E : WEnv} {v : Int} : EvalW ro sem body fs₀ E (.ret v) (v, [])
  | req {E : WEnv} {u c : Nat} {k : Int → Prog} {o : Int} {wu : Writes} {res : Int × Writes} :
      EvalW ro sem body fs₀ [] (body u) (o, wu) → EvalW ro sem body fs₀ ((u, wu) :: E) (k o) res →
      EvalW ro sem body fs₀ E (.req u c k) res
  | read {E : WEnv} {r c : Nat} {k : Except Int (Option Int) → Prog} {s : Stamp}
      {res : Int × Writes} :
      sem.rstamp c (view ro fs₀ E r) = .ok s →
      EvalW ro sem body fs₀ E (k (.ok (view ro fs₀ E r))) res →
      EvalW ro sem body fs₀ E (.read r c k) res
  | readErr {E : WEnv} {r c : Nat} {k : Except Int (Option Int) → Prog} {e : Int}
      {res : Int × Writes} :
      sem.rstamp c (view ro fs₀ E r) = .error e → EvalW ro sem body fs₀ E (k (.error e)) res →
      EvalW ro sem body fs₀ E (.read r c k) res
  | write {E : WEnv} {r c : Nat} {v : Option Int} {k : Except Int Unit → Prog} {s : Stamp}
      {o : Int} {ws : Writes} :
      sem.rstamp c v = .ok s → EvalW ro sem body fs₀ E (k (.ok ())) (o, ws) →
      EvalW ro sem body fs₀ E (.write r c v k) (o, (r, v) :: ws)
  | writeErr {E : WEnv} {r c : Nat} {v : Option Int} {k : Except Int Unit → Prog} {e : Int}
      {o : Int} {ws : Writes} :
      sem.rstamp c v = .error e → EvalW ro sem body fs₀ E (k (.error e)) (o, ws) →
      EvalW ro sem body fs₀ E (.write r c v k) (o, (r, v) :: ws)
  | wrote {E : WEnv} {r c : Nat} {v : Option Int} {k : Except Int Unit → Prog} {s : Stamp}
      {o : Int} {ws : Writes} :
      sem.rstamp c v = .ok s → EvalW ro sem body fs₀ E (k (.ok ())) (o, ws) →
      EvalW ro sem body fs₀ E (.wrote r c v k) (o, (r, v) :: ws)
  | wroteErr {E : WEnv} {r c : Nat} {v : Option Int} {k : Except Int Unit → Prog} {e : Int}
      {o : Int} {ws : Writes} :
      sem.rstamp c v = .error e → EvalW ro sem body fs₀ E (k (.error e)) (o, ws) →
      EvalW ro sem body fs₀ E (.wrote r c v k) (o, (r, v) :: ws)

/-- Executing task `t` from scratch against `fs₀` produces output `res.1` and writes `res.2`. -/
def Den (ro : Roles) (sem : Sem) (body : Nat → Prog) (fs₀ : List (Nat × Int)) (t : Nat)
    (res : Int × Writes) : Prop :=
  EvalW ro sem body fs₀ [] (body t) res

variable {ro : Roles} {sem : Sem} {body : Nat → Prog} {fs₀ : List (Nat × Int)}

theorem EvalW.det {E : WEnv} {p : Prog} {a b : Int × Writes} (h1 : EvalW ro sem body fs₀ E p a)
    (h2 : EvalW ro sem body fs₀ E p b) : a = b := by
  induction h1 generalizing b with
  | ret => cases h2; rfl
  | req _ _ ih1 ih2 =>
    cases h2 with
    | req x y => have := ih1 x; cases this; exact ih2 y
  | read hs _ ih =>
    cases h2 with
    | read _ x => exact ih x
    | readErr he _ => rw [hs] at he; cases he
  | readErr hs _ ih =>
    cases h2 with
    | read he _ => rw [hs] at he; cases he
    | readErr he x => rw [hs] at he; cases he; exact ih x
  | write hs _ ih =>
    cases h2 with
    | write _ x => have := ih x; cases this; rfl
    | writeErr he _ => rw [hs] at he; cases he
  | writeErr hs _ ih =>
    cases h2 with
    | write he _ => rw [hs] at he; cases he
    | writeErr he x => rw [hs] at he; cases he; have := ih x; cases this; rfl
  | wrote hs _ ih =>
    cases h2 with
    | wrote _ x => have := ih x; cases this; rfl
    | wroteErr he _ => rw [hs] at he; cases he
  | wroteErr hs _ ih =>
    cases h2 with
    | wrote he _ => rw [hs] at he; cases he
    | wroteErr he x => rw [hs] at he; cases he; have := ih x; cases this; rfl

theorem Den.det {t : Nat} {a b : Int × Writes} (h1 : Den ro sem body fs₀ t a)
    (h2 : Den ro sem body fs₀ t b) : a = b := EvalW.det h1 h2

/-- A task writes only resources it generates. -/
theorem EvalW.writes_gen {t : Nat} {E : WEnv} {p : Prog} {res : Int × Writes}
    (h : EvalW ro sem body fs₀ E p res) : ∀ {a : Acc}, StaticRolesFrom ro t a p →
    ∀ r x, (r, x) ∈ res.2 → ro.gen r = some t := by
  induction h with
  | ret => intro a _ r x hm; cases hm
  | req _ _ _ ih2 => intro a hs r x hm; exact ih2 (hs.2 _) r x hm
  | read _ _ ih => intro a hs r x hm; exact ih (hs.2.2 _) r x hm
  | readErr _ _ ih => intro a hs r x hm; exact ih (hs.2.2 _) r x hm
  | write _ _ ih =>
    intro a hs r x hm
    rcases List.mem_cons.mp hm with h | h
    · cases h; exact hs.1
    · exact ih (hs.2.2 _) r x h
  | writeErr _ _ ih =>
    intro a hs r x hm
    rcases List.mem_cons.mp hm with h | h
    · cases h; exact hs.1
    · exact ih (hs.2.2 _) r x h
  | wrote _ _ ih =>
    intro a hs r x hm
    rcases List.mem_cons.mp hm with h | h
    · cases h; exact hs.1
    · exact ih (hs.2.2 _) r x h
  | wroteErr _ _ ih =>
    intro a hs r x hm
    rcases List.mem_cons.mp hm with h | h
    · cases h; exact hs.1
    · exact ih (hs.2.2 _) r x h

/-! ### the call relation and the demanded set -/

/-- The from-scratch evaluation of `p` (in environment `E`) requires task `t` directly: it
reaches a `req t` node (all tasks required before on the path have a from-scratch result). -/
inductive CallsP (ro : Roles) (sem : Sem) (body : Nat → Prog) (fs₀ : List (Nat × Int)) :
    WEnv → Prog → Nat → Prop
  | here {E : WEnv} {u c : Nat} {k : Int → Prog} : CallsP ro sem body fs₀ E (.req u c k) u
  | req {E : WEnv} {u c : Nat} {k : Int → Prog} {o : Int} {wu : Writes} {t : Nat} :
      EvalW ro sem body fs₀ [] (body u) (o, wu) → CallsP ro sem body fs₀ ((u, wu) :: E) (k o) t →
      CallsP ro sem body fs₀ E (.req u c k) t
  | read {E : WEnv} {r c : Nat} {k : Except Int (Option Int) → Prog} {s : Stamp} {t : Nat} :
      sem.rstamp c (view ro fs₀ E r) = .ok s →
      CallsP ro sem body fs₀ E (k (.ok (view ro fs₀ E r))) t → CallsP ro sem body fs₀ E (.read r c k) t
  | readErr {E : WEnv} {r c : Nat} {k : Except Int (Option Int) → Prog} {e : Int} {t : Nat} :
      sem.rstamp c (view ro fs₀ E r) = .error e → CallsP ro sem body fs₀ E (k (.error e)) t →
      CallsP ro sem body fs₀ E (.read r c k) t
  | write {E : WEnv} {r c : Nat} {v : Option Int} {k : Except Int Unit → Prog} {s : Stamp}
      {t : Nat} : sem.rstamp c v = .ok s → CallsP ro sem body fs₀ E (k (.ok ())) t →
      CallsP ro sem body fs₀ E (.write r c v k) t
  | writeErr {E : WEnv} {r c : Nat} {v : Option Int} {k : Except Int Unit → Prog} {e : Int}
      {t : Nat} : sem.rstamp c v = .error e → CallsP ro sem body fs₀ E (k (.error e)) t →
      CallsP ro sem body fs₀ E (.write r c v k) t
  | wrote {E : WEnv} {r c : Nat} {v : Option Int} {k : Except Int Unit → Prog} {s : Stamp}
      {t : Nat} : sem.rstamp c v = .ok s → CallsP ro sem body fs₀ E (k (.ok ())) t →
      CallsP ro sem body fs₀ E (.wrote r c v k) t
  | wroteErr {E : WEnv} {r c : Nat} {v : Option Int} {k : Except Int Unit → Prog} {e : Int}
      {t : Nat} : sem.rstamp c v = .error e → CallsP ro sem body fs₀ E (k (.error e)) t →
      CallsP ro sem body fs₀ E (.wrote r c v k) t

/-- The from-scratch execution of `t` requires `u` directly. -/
def Calls (ro : Roles) (sem : Sem) (body : Nat → Prog) (fs₀ : List (Nat × Int)) (t u : Nat) : Prop :=
  CallsP ro sem body fs₀ [] (body t) u

/-- The tasks the from-scratch build of `roots` evaluates: the roots and, transitively, every
task required by the from-scratch execution of a demanded task. -/
inductive Demanded (ro : Roles) (sem : Sem) (body : Nat → Prog) (fs₀ : List (Nat × Int))
    (roots : List Nat) : Nat → Prop
  | root {t : Nat} : t ∈ roots → Demanded ro sem body fs₀ roots t
  | step {t u : Nat} : Demanded ro sem body fs₀ roots t → Calls ro sem body fs₀ t u →
      Demanded ro sem body fs₀ roots u

/-- A set of tasks closed under the call relation of the from-scratch semantics. -/
def CallClosed (ro : Roles) (sem : Sem) (body : Nat → Prog) (fs₀ : List (Nat × Int))
    (D : Nat → Prop) : Prop := ∀ t u, D t → Calls ro sem body fs₀ t u → D u

theorem Demanded.closed (roots : List Nat) :
    CallClosed ro sem body fs₀ (Demanded ro sem body fs₀ roots) := fun _ _ h hc => .step h hc

theorem Demanded.mono {roots roots' : List Nat} (hsub : ∀ t ∈ roots, t ∈ roots') {t : Nat}
    (h : Demanded ro sem body fs₀ roots t) : Demanded ro sem body fs₀ roots' t := by
  induction h with
  | root hm => exact .root (hsub _ hm)
  | step _ hc ih => exact .step ih hc

/-! ### the ideal final resource state -/

/-- `x` is the content of `r` after the from-scratch execution of the tasks in `D` on `fs₀`:
the value written by a task of `D`, or the start content if no task of `D` writes `r`. -/
def OverlayAt (ro : Roles) (sem : Sem) (body : Nat → Prog) (fs₀ : List (Nat × Int))
    (D : Nat → Prop) (r : Nat) (x : Option Int) : Prop :=
  (∃ t o ws, D t ∧ Den ro sem body fs₀ t (o, ws) ∧ wget ws r = some x) ∨
  ((∀ t o ws, D t → Den ro sem body fs₀ t (o, ws) → wget ws r = none) ∧ x = aget fs₀ r)

theorem overlayAt_exists (D : Nat → Prop) (r : Nat) :
    ∃ x, OverlayAt ro sem body fs₀ D r x := by
  by_cases h : ∃ t o ws x, D t ∧ Den ro sem body fs₀ t (o, ws) ∧ wget ws r = some x
  · obtain ⟨t, o, ws, x, h1, h2, h3⟩ := h
    exact ⟨x, .inl ⟨t, o, ws, h1, h2, h3⟩⟩
  · refine ⟨aget fs₀ r, .inr ⟨?_, rfl⟩⟩
    intro t o ws h1 h2
    cases hw : wget ws r with
    | none => rfl
    | some x => exact absurd ⟨t, o, ws, x, h1, h2, hw⟩ h

/-- The ideal final resource state (as a content function): `fs₀` updated by the writes of every
task in `D`. -/
noncomputable def overlay (ro : Roles) (sem : Sem) (body : Nat → Prog) (fs₀ : List (Nat × Int))
    (D : Nat → Prop) (r : Nat) : Option Int :=
  Classical.choose (overlayAt_exists (ro := ro) (sem := sem) (body := body) (fs₀ := fs₀) D r)

theorem overlay_spec (D : Nat → Prop) (r : Nat) :
    OverlayAt ro sem body fs₀ D r (overlay ro sem body fs₀ D r) :=
  Classical.choose_spec (overlayAt_exists D r)

/-- Under static roles the overlay is well defined: only the generator writes a resource. -/
theorem OverlayAt.unique (hwf : WellFormedBody ro body) {D : Nat → Prop} {r : Nat}
    {x y : Option Int} (h1 : OverlayAt ro sem body fs₀ D r x)
    (h2 : OverlayAt ro sem body fs₀ D r y) : x = y := by
  rcases h1 with ⟨t, o, ws, hd, he, hw⟩ | ⟨hn, rfl⟩
  · rcases h2 with ⟨t', o', ws', hd', he', hw'⟩ | ⟨hn', rfl⟩
    · have g1 := he.writes_gen (hwf t) r x (wget_mem hw)
      have g2 := he'.writes_gen (hwf t') r y (wget_mem hw')
      rw [g1] at g2; cases g2
      have := Den.det he he'; cases this
      rw [hw] at hw'; exact Option.some.inj hw'
    · rw [hn' t o ws hd he] at hw; cases hw
  · rcases h2 with ⟨t', o', ws', hd', he', hw'⟩ | ⟨_, rfl⟩
    · rw [hn t' o' ws' hd' he'] at hw'; cases hw'
    · rfl

theorem overlay_eq (hwf : WellFormedBody ro body) {D : Nat → Prop} {r : Nat} {x : Option Int}
    (h : OverlayAt ro sem body fs₀ D r x) : overlay ro sem body fs₀ D r = x :=
  (overlay_spec D r).unique hwf h

/-! ### the store invariants -/

/-- `Replay` with write nodes: re-running `p` against answers that carry the recorded stamps
follows only recorded dependencies (`ds`) and returns `v`; a write dependency carries the stamp of
the written content. -/
def ReplayW (sem : Sem) : Prog → List Dep → Int → Prop
  | .ret v', _, v => v' = v
  | .panic, _, _ => False
  | .req u c k, ds, v =>
    ∃ s, Dep.require u c s ∈ ds ∧ ∃ o, sem.ostamp c o = s ∧ ReplayW sem (k o) ds v
  | .read r c k, ds, v =>
    ∃ s, Dep.read r c s ∈ ds ∧ ∃ x, sem.rstamp c x = .ok s ∧ ReplayW sem (k (.ok x)) ds v
  | .write r c v' k, ds, v =>
    ∃ s, Dep.write r c s ∈ ds ∧ sem.rstamp c v' = .ok s ∧ ReplayW sem (k (.ok ())) ds v
  | .wrote r c v' k, ds, v =>
    ∃ s, Dep.write r c s ∈ ds ∧ sem.rstamp c v' = .ok s ∧ ReplayW sem (k (.ok ())) ds v

theorem ReplayW.mono {p : Prog} {ds ds' : List Dep} {v : Int} (h : ReplayW sem p ds v)
    (hsub : ∀ d ∈ ds, d ∈ ds') : ReplayW sem p ds' v := by
  induction p with
  | ret v' => exact h
  | panic => exact h
  | req u c k ih =>
    obtain ⟨s, hm, o, ho, hr⟩ := h
    exact ⟨s, hsub _ hm, o, ho, ih o hr⟩
  | read r c k ih =>
    obtain ⟨s, hm, x, hx, hr⟩ := h
    exact ⟨s, hsub _ hm, x, hx, ih _ hr⟩
  | write r c v' k ih =>
    obtain ⟨s, hm, hx, hr⟩ := h
    exact ⟨s, hsub _ hm, hx, ih _ hr⟩
  | wrote r c v' k ih =>
    obtain ⟨s, hm, hx, hr⟩ := h
    exact ⟨s, hsub _ hm, hx, ih _ hr⟩

/-- Every task node with an output carries a dependency list which replays its body (writes
included) to that output, and no reserved dependency. -/
def FaithfulW (sem : Sem) (body : Nat → Prog) (st : Store) : Prop :=
  ∀ n t v, st.taskOf n = some t → st.taskOutput n = some v →
    ReplayW sem (body t) (st.depsFrom n) v ∧ Dep.reserved ∉ st.depsFrom n

/-- The *ordered* replay: `seen` are the dependencies created so far, `ds` the ones still to be
created, in order.  An access to a target that already has a dependency (in `seen`, with the same
checker) creates nothing; a first access creates the head of `ds`; at the end `ds` is used up.
Dependencies are created — and later validated — in this order. -/
def ReplayO (sem : Sem) : Prog → List Dep → List Dep → Int → Prop
  | .ret v', _, ds, v => ds = [] ∧ v' = v
  | .panic, _, _, _ => False
  | .req u c k, seen, ds, v =>
    (∃ s, Dep.require u c s ∈ seen ∧ ∃ o, sem.ostamp c o = s ∧ ReplayO sem (k o) seen ds v) ∨
    (∃ s ds', ds = Dep.require u c s :: ds' ∧ ∃ o, sem.ostamp c o = s ∧
      ReplayO sem (k o) (seen ++ [Dep.require u c s]) ds' v)
  | .read r c k, seen, ds, v =>
    (∃ s, Dep.read r c s ∈ seen ∧ ∃ x, sem.rstamp c x = .ok s ∧
      ReplayO sem (k (.ok x)) seen ds v) ∨
    (∃ s ds', ds = Dep.read r c s :: ds' ∧ ∃ x, sem.rstamp c x = .ok s ∧
      ReplayO sem (k (.ok x)) (seen ++ [Dep.read r c s]) ds' v)
  | .write r c v' k, seen, ds, v =>
    ∃ s ds', ds = Dep.write r c s :: ds' ∧ sem.rstamp c v' = .ok s ∧
      ReplayO sem (k (.ok ())) (seen ++ [Dep.write r c s]) ds' v
  | .wrote r c v' k, seen, ds, v =>
    ∃ s ds', ds = Dep.write r c s :: ds' ∧ sem.rstamp c v' = .ok s ∧
      ReplayO sem (k (.ok ())) (seen ++ [Dep.write r c s]) ds' v

/-- Every task node with an output carries a dependency list which is, in order, the list of
first accesses of a replay of its body to that output. -/
def FaithfulO (sem : Sem) (body : Nat → Prog) (st : Store) : Prop :=
  ∀ n t v, st.taskOf n = some t → st.taskOutput n = some v →
    ReplayO sem (body t) [] (st.depsFrom n) v

theorem ReplayO.replayW {p : Prog} {seen ds : List Dep} {v : Int} (h : ReplayO sem p seen ds v) :
    ReplayW sem p (seen ++ ds) v := by
  induction p generalizing seen ds with
  | ret v' => exact h.2
  | panic => exact h
  | req u c k ih =>
    rcases h with ⟨s, hm, o, ho, hr⟩ | ⟨s, ds', rfl, o, ho, hr⟩
    · exact ⟨s, List.mem_append_left _ hm, o, ho, ih o hr⟩
    · refine ⟨s, by simp, o, ho, ?_⟩
      have := ih o hr
      rwa [List.append_assoc] at this
  | read r c k ih =>
    rcases h with ⟨s, hm, x, hx, hr⟩ | ⟨s, ds', rfl, x, hx, hr⟩
    · exact ⟨s, List.mem_append_left _ hm, x, hx, ih _ hr⟩
    · refine ⟨s, by simp, x, hx, ?_⟩
      have := ih _ hr
      rwa [List.append_assoc] at this
  | write r c v' k ih =>
    obtain ⟨s, ds', rfl, hx, hr⟩ := h
    refine ⟨s, by simp, hx, ?_⟩
    have := ih _ hr
    rwa [List.append_assoc] at this
  | wrote r c v' k ih =>
    obtain ⟨s, ds', rfl, hx, hr⟩ := h
    refine ⟨s, by simp, hx, ?_⟩
    have := ih _ hr
    rwa [List.append_assoc] at this

theorem ReplayO.no_reserved {p : Prog} {seen ds : List Dep} {v : Int}
    (h : ReplayO sem p seen ds v) : Dep.reserved ∉ ds := by
  induction p generalizing seen ds with
  | ret v' => rw [h.1]; exact List.not_mem_nil
  | panic => exact h.elim
  | req u c k ih =>
    rcases h with ⟨s, _, o, _, hr⟩ | ⟨s, ds', rfl, o, _, hr⟩
    · exact ih o hr
    · intro hm
      rcases List.mem_cons.mp hm with h1 | h1
      · cases h1
      · exact ih o hr h1
  | read r c k ih =>
    rcases h with ⟨s, _, x, _, hr⟩ | ⟨s, ds', rfl, x, _, hr⟩
    · exact ih _ hr
    · intro hm
      rcases List.mem_cons.mp hm with h1 | h1
      · cases h1
      · exact ih _ hr h1
  | write r c v' k ih =>
    obtain ⟨s, ds', rfl, _, hr⟩ := h
    intro hm
    rcases List.mem_cons.mp hm with h1 | h1
    · cases h1
    · exact ih _ hr h1
  | wrote r c v' k ih =>
    obtain ⟨s, ds', rfl, _, hr⟩ := h
    intro hm
    rcases List.mem_cons.mp hm with h1 | h1
    · cases h1
    · exact ih _ hr h1

theorem FaithfulO.faithfulW {st : Store} (h : FaithfulO sem body st) : FaithfulW sem body st := by
  intro n t v ht hv
  have hr := h n t v ht hv
  exact ⟨by simpa using hr.replayW, hr.no_reserved⟩

theorem FaithfulO.empty : FaithfulO sem body ({} : Store) := by
  intro n t v h
  simp [Store.taskOf, Dag.getNodeData, Dag.info, aget] at h

end PieModel
