/-
Soundness of the top-down build with writes, lifted to `sessionRequire`, `requireAll`, and whole
sessions on a `Pie`: the outputs are the from-scratch outputs, and the final resource state is
the overlay of the start state by the writes of the demanded tasks.
-/
import PieModel.Build.SoundW.Make
import PieModel.Build.Proofs.TopDownExt

namespace PieModel

variable {ro : Roles} {sem : Sem} {body : Nat → Prog} {fs₀ : List (Nat × Int)} {D : Nat → Prop}

/-- What persists on a `Pie` between sessions. -/
structure PieInvW (ro : Roles) (sem : Sem) (body : Nat → Prog) (p : PieSt) : Prop where
  wf : p.store.WF
  roles : RolesInv ro p.store
  faithful : FaithfulO sem body p.store
  nodup : (akeys p.fs).Nodup

theorem PieInvW.empty : PieInvW ro sem body ({} : PieSt) :=
  ⟨Store.WF.empty, RolesInv.empty ro, FaithfulO.empty, by simp [akeys]⟩

theorem PieInvW.fresh {fs : List (Nat × Int)} (h : (akeys fs).Nodup) :
    PieInvW ro sem body ({ fs := fs } : PieSt) :=
  ⟨Store.WF.empty, RolesInv.empty ro, FaithfulO.empty, h⟩

/-- A new session on a `Pie` satisfying the invariants satisfies the session invariant, relative
to the resource state of the `Pie`. -/
theorem SInvWD.newSession {p : PieSt} (h : PieInvW ro sem body p) :
    SInvWD ro sem body p.fs D p.newSession :=
  ⟨⟨h.wf, fun _ hn => (nomatch hn), fun _ hn => (nomatch hn)⟩, h.roles, h.faithful, h.nodup,
    fun _ hn => (nomatch hn), fun _ hn => (nomatch hn), fun _ _ hn => (nomatch hn), fun _ _ => rfl,
    fun _ hx => (nomatch hx)⟩

/-- What a returning `sessionRequire` guarantees. -/
def QSessionW (s : Sess) (t : Nat) (s' : Sess) (o : Int) : Prop :=
  s'.cur = none ∧ nodeOf s t ∈ s'.consistent ∧ s'.store.taskOutput (nodeOf s t) = some o ∧
    s'.store.taskOf (nodeOf s t) = some t

section
variable (hst : StampTotal sem) (hwf : WellFormedBody ro body)
  (hresp : ∀ t, Respects sem (body t)) (hone : ∀ t, OneChecker (body t))
  (hwe : ∀ t, WriteExact sem (body t)) (hD : CallClosed ro sem body fs₀ D)
include hst hwf hresp hone hwe hD

theorem sessionRequire_outcomeW (f : Nat) (s : Sess) (t : Nat) (h : SInvWD ro sem body fs₀ D s)
    (hc : s.cur = none) (hDt : D t) :
    OutcomeW ro sem body fs₀ D s (sessionRequire sem body f s t) (QSessionW s t) := by
  unfold sessionRequire; simp only []
  have st0 : SStepW ro sem body fs₀ D s (({ s with cur := none } : Sess).emit .buildStart) :=
    h.same rfl rfl hc.symm rfl rfl (fun e he => List.mem_append_left _ he)
      (fun x hx => mem_emit_exec (s := { s with cur := none }) (e := .buildStart)
        (fun y hy => nomatch hy) hx)
  have IH := (tdSoundW (fs₀ := fs₀) (D := D) hst hwf hresp hone hwe hD f).require _ t alwaysChecker
    st0.inv (fun cur hcur => nomatch hcur) hDt
  split
  next s2 a heq => exact .abort (IH.faithful_of heq)
  next s2 o heq =>
    obtain ⟨st2, hcn, ho, ht, _, _⟩ := IH.ok s2 o heq
    have hc2 : s2.cur = none := cur_tdRequire sem body heq
    exact .ret ((st0.trans st2).emit .buildEnd (fun y hy => nomatch hy)) ⟨hc2, hcn, ho, ht⟩

/-- The outputs are from-scratch outputs, and all roots are consistent at the end. -/
def QAllW (ro : Roles) (sem : Sem) (body : Nat → Prog) (fs₀ : List (Nat × Int)) (ts : List Nat)
    (s' : Sess) (os : List Int) : Prop :=
  s'.cur = none ∧ List.Forall₂ (fun t o => ∃ ws, Den ro sem body fs₀ t (o, ws)) ts os ∧
    ∀ t ∈ ts, ConsT s' t

theorem requireAll_outcomeW (f : Nat) (ts : List Nat) : ∀ (s : Sess),
    SInvWD ro sem body fs₀ D s → s.cur = none → (∀ t ∈ ts, D t) →
    OutcomeW ro sem body fs₀ D s (requireAll sem body f s ts) (QAllW ro sem body fs₀ ts) := by
  induction ts with
  | nil =>
    intro s h hc _; unfold requireAll
    exact .ret (SStepW.refl h) ⟨hc, .nil, fun _ ht => (nomatch ht)⟩
  | cons t ts ih =>
    intro s h hc hDs
    unfold requireAll
    have IH := sessionRequire_outcomeW hst hwf hresp hone hwe hD f s t h hc
      (hDs t List.mem_cons_self)
    split
    next s2 a heq => exact .abort (IH.faithful_of heq)
    next s2 o heq =>
      obtain ⟨st2, hc2, hcn, ho, ht⟩ := IH.ok s2 o heq
      have IH2 := ih s2 st2.inv hc2 (fun t' ht' => hDs t' (List.mem_cons_of_mem _ ht'))
      split
      next s3 a heq3 => exact .abort (IH2.faithful_of heq3)
      next s3 os heq3 =>
        obtain ⟨st3, hc3, hall, hcons⟩ := IH2.ok s3 os heq3
        obtain ⟨t', o', ws, ht', ho', hden, _⟩ := st2.inv.sound _ hcn
        rw [ht] at ht'; cases ht'
        rw [ho] at ho'; cases ho'
        refine .ret (st2.trans st3) ⟨hc3, .cons ⟨ws, hden⟩ hall, fun x hx => ?_⟩
        rcases List.mem_cons.mp hx with rfl | hx
        · exact st3.consT ⟨_, hcn, ht⟩
        · exact hcons x hx

end

/-- At the end of a session (no task executing) in which every task of `D` is consistent, the
resources are `fs₀` overlaid by the from-scratch writes of the tasks of `D`. -/
theorem SInvWD.fs_overlay (hwf : WellFormedBody ro body) {s : Sess}
    (h : SInvWD ro sem body fs₀ D s) (hc : s.cur = none) (hall : ∀ t, D t → ConsT s t) (r : Nat) :
    aget s.fs r = overlay ro sem body fs₀ D r := by
  symm
  apply overlay_eq hwf
  cases hg : ro.gen r with
  | none =>
    refine .inr ⟨fun t o ws _ hden => ?_, h.untouched r (fun w hw => by rw [hg] at hw; cases hw)⟩
    cases hw : wget ws r with
    | none => rfl
    | some x =>
      have := hden.writes_gen (hwf t) r x (wget_mem hw)
      rw [hg] at this; cases this
  | some w =>
    have honly : ∀ t o ws x, Den ro sem body fs₀ t (o, ws) → wget ws r = some x → t = w := by
      intro t o ws x hden hw
      have := hden.writes_gen (hwf t) r x (wget_mem hw)
      rw [hg] at this; cases this; rfl
    by_cases hcw : ConsT s w
    · obtain ⟨n, o, ws, hn, ht, ho, hd, hf⟩ := h.consT_den hcw
      obtain ⟨t', _, _, ht', _, _, hDw, _⟩ := h.sound n hn
      rw [ht] at ht'; cases ht'
      cases hww : wget ws r with
      | some x =>
        refine .inl ⟨w, o, ws, hDw, hd, ?_⟩
        rw [hf r hg, hww]; rfl
      | none =>
        refine .inr ⟨fun t' o' ws' _ hden' => ?_, by rw [hf r hg, hww]; rfl⟩
        cases hw' : wget ws' r with
        | none => rfl
        | some x =>
          have := honly t' o' ws' x hden' hw'; subst this
          have := Den.det hd hden'; cases this
          rw [hww] at hw'; cases hw'
    · refine .inr ⟨fun t' o' ws' hD' hden' => ?_, h.untouched r (fun w' hw' hx => ?_)⟩
      · cases hw' : wget ws' r with
        | none => rfl
        | some x =>
          have := honly t' o' ws' x hden' hw'; subst this
          exact absurd (hall _ hD') hcw
      · rw [hg] at hw'; cases hw'
        rcases (h.executed _ hx).2 with h1 | ⟨c, _, h1, _⟩
        · exact hcw h1
        · rw [hc] at h1; cases h1

/-- Between two `require`s of a session (no task executing) the invariant holds with `D` the
set of tasks made consistent so far. -/
theorem SInvWD.to_consT {s : Sess} (h : SInvWD ro sem body fs₀ D s) (hc : s.cur = none) :
    SInvWD ro sem body fs₀ (ConsT s) s := by
  refine ⟨h.wf, h.roles, h.faithful, h.nodup, ?_, h.curFree, h.curExec, h.untouched, ?_⟩
  · intro n hn
    obtain ⟨t, o, ws, ht, ho, hd, _, hf, hcl⟩ := h.sound n hn
    exact ⟨t, o, ws, ht, ho, hd, ⟨n, hn, ht⟩, hf, hcl⟩
  · intro x hx
    rcases (h.executed x hx).2 with h1 | ⟨c, _, h1, _⟩
    · exact ⟨h1, .inl h1⟩
    · rw [hc] at h1; cases h1

/-- ... hence the resources are `fs₀` overlaid by the from-scratch writes of the consistent
tasks: every write of a consistent task is present, everything else has its start content. -/
theorem SInvWD.fs_overlay_consistent (hwf : WellFormedBody ro body) {s : Sess}
    (h : SInvWD ro sem body fs₀ D s) (hc : s.cur = none) (r : Nat) :
    aget s.fs r = overlay ro sem body fs₀ (ConsT s) r :=
  (h.to_consT hc).fs_overlay hwf hc (fun _ ht => ht) r

/-- Every demanded task is consistent once the roots are. -/
theorem SInvWD.demanded_cons {roots : List Nat} {s : Sess}
    (h : SInvWD ro sem body fs₀ D s) (hr : ∀ t ∈ roots, ConsT s t) {t : Nat}
    (hd : Demanded ro sem body fs₀ roots t) : ConsT s t := by
  induction hd with
  | root hm => exact hr _ hm
  | step _ hc ih =>
    obtain ⟨n, hn, ht⟩ := ih
    obtain ⟨t', _, _, ht', _, _, _, _, hcl⟩ := h.sound n hn
    rw [ht] at ht'; cases ht'
    exact hcl _ hc

/-- The keys of the resource map stay unique, whatever the result. -/
theorem requireAll_fsKeys (sem : Sem) (body : Nat → Prog) (f : Nat) (ts : List Nat) :
    ∀ s : Sess, (akeys s.fs).Nodup → (akeys (requireAll sem body f s ts).1.fs).Nodup := by
  induction ts with
  | nil => intro s h; exact h
  | cons t ts ih =>
    intro s h
    unfold requireAll
    have h1 := (ext_sessionRequire sem body f s t).fsKeys h
    split
    next s2 a heq => rw [heq] at h1; exact h1
    next s2 o heq =>
      rw [heq] at h1
      have h2 := ih s2 h1
      split
      next s3 a heq3 => rw [heq3] at h2; exact h2
      next s3 os heq3 => rw [heq3] at h2; exact h2

end PieModel
