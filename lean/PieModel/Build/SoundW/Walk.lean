/-
Soundness of the top-down build with writes: the analogue of `replay_eval`.  Walking the ordered
replay of a task body along a prefix of its dependency list all of whose members are accepted
in the current state (`DepOk`) follows the from-scratch evaluation of the body:

* when the whole list is accepted, the body evaluates from scratch to the recorded output, every
  write of that evaluation has a recorded, accepted, exact write dependency, and every task the
  evaluation requires is consistent;
* the first dependency after an accepted prefix, if a `require`, is a task the from-scratch
  evaluation requires (minimality); if a `read` of a generated resource, the generator is
  consistent (dependencies are validated in creation order).
-/
import PieModel.Build.SoundW.Exec

namespace PieModel

variable {ro : Roles} {sem : Sem} {body : Nat → Prog} {fs₀ : List (Nat × Int)} {D : Nat → Prop}

variable (ro sem) in
/-- The recorded dependency is accepted by its checker in the current state; for a `require`
against the output of a task made consistent in this session; a `read` of a generated resource
counts only if the generator is consistent. -/
def DepOk (s : Sess) : Dep → Prop
  | .reserved => False
  | .require u c st => ∃ m o, s.store.taskOf m = some u ∧ m ∈ s.consistent ∧
      s.store.taskOutput m = some o ∧ sem.ocheck c o st = true
  | .read r c st => sem.rcheck c (aget s.fs r) st = .ok true ∧ ∀ w, ro.gen r = some w → ConsT s w
  | .write r c st => sem.rcheck c (aget s.fs r) st = .ok true

/-- Transport to a later state; for a write dependency the resource must be untouched. -/
theorem DepOk.step {s s' : Sess} {d : Dep} (h : SInvWD ro sem body fs₀ D s)
    (st : SStepW ro sem body fs₀ D s s') (hd : DepOk ro sem s d)
    (hw : ∀ r c stp, d = .write r c stp → aget s'.fs r = aget s.fs r) : DepOk ro sem s' d := by
  cases d with
  | reserved => exact hd
  | require u c stp =>
    obtain ⟨m, o, h1, h2, h3, h4⟩ := hd
    exact ⟨m, o, st.le.task _ _ h1, st.mono _ h2, by rw [(st.cext _ h2).1]; exact h3, h4⟩
  | read r c stp =>
    obtain ⟨h1, h2⟩ := hd
    exact ⟨by rw [st.fs_stable h h2]; exact h1, fun w hw' => st.consT (h2 w hw')⟩
  | write r c stp =>
    show sem.rcheck c (aget s'.fs r) stp = .ok true
    rw [hw r c stp rfl]; exact hd

variable (ro sem body fs₀) in
/-- The environment of a path, in state `s`: it covers the tasks required so far, and every
entry is the from-scratch write list of a task that is consistent in `s`. -/
structure EnvOK (s : Sess) (E : WEnv) (a : Acc) : Prop where
  dom : ∀ u ∈ a.req, ∃ wu, aget E u = some wu
  den : ∀ u wu, aget E u = some wu → ConsT s u ∧ ∃ o, Den ro sem body fs₀ u (o, wu)

theorem EnvOK.nil (s : Sess) : EnvOK ro sem body fs₀ s [] {} :=
  ⟨fun _ hu => (nomatch hu), fun _ _ h => (nomatch h)⟩

theorem EnvOK.cons {s : Sess} {E : WEnv} {a : Acc} (h : EnvOK ro sem body fs₀ s E a) {u : Nat}
    {o : Int} {wu : Writes} (hc : ConsT s u) (hd : Den ro sem body fs₀ u (o, wu)) :
    EnvOK ro sem body fs₀ s ((u, wu) :: E) { a with req := u :: a.req } := by
  refine ⟨?_, ?_⟩
  · intro x hx
    by_cases hux : u = x
    · exact ⟨wu, by simp [hux]⟩
    · rcases List.mem_cons.mp hx with hx | hx
      · exact absurd hx.symm hux
      · obtain ⟨w, hw⟩ := h.dom x hx
        exact ⟨w, by simp [hux, hw]⟩
  · intro x wx hx
    by_cases hux : u = x
    · subst hux
      simp only [aget_cons, if_true, Option.some.injEq] at hx
      subst hx
      exact ⟨hc, o, hd⟩
    · simp only [aget_cons, if_neg hux] at hx
      exact h.den x wx hx

theorem EnvOK.wr {s : Sess} {E : WEnv} {a : Acc} (h : EnvOK ro sem body fs₀ s E a) (r : Nat) :
    EnvOK ro sem body fs₀ s E { a with wr := r :: a.wr } := ⟨h.dom, h.den⟩

theorem EnvOK.step {s s' : Sess} {E : WEnv} {a : Acc} (h : EnvOK ro sem body fs₀ s E a)
    (st : SStepW ro sem body fs₀ D s s') : EnvOK ro sem body fs₀ s' E a :=
  ⟨h.dom, fun u wu hu => ⟨st.consT (h.den u wu hu).1, (h.den u wu hu).2⟩⟩

/-- What a read sees in the from-scratch build is what the resource holds now, when its
generator (if any) was required earlier on the path. -/
theorem view_eq_fs {s : Sess} (h : SInvWD ro sem body fs₀ D s) {E : WEnv} {a : Acc}
    (he : EnvOK ro sem body fs₀ s E a) {r : Nat} (hreq : ∀ w, ro.gen r = some w → w ∈ a.req) :
    view ro fs₀ E r = aget s.fs r := by
  cases hg : ro.gen r with
  | none =>
    simp only [view, hg]
    exact (h.untouched r (fun w hw => by rw [hg] at hw; cases hw)).symm
  | some w =>
    obtain ⟨wu, hwu⟩ := he.dom w (hreq w hg)
    simp only [view, hg, hwu]
    obtain ⟨hc, o, hd⟩ := he.den w wu hwu
    obtain ⟨n, o', ws, _, _, _, hd', hf⟩ := h.consT_den hc
    have := Den.det hd hd'; cases this
    exact (hf r hg).symm

variable (ro sem body fs₀) in
/-- The result of walking `p` in environment `E`: `done` are all dependencies passed at the end
of the accepted prefix, `ds2` is the rest of the list. -/
def WalkRes (s : Sess) (E : WEnv) (p : Prog) (v : Int) (done ds2 : List Dep) : Prop :=
  (ds2 = [] → ∃ ws, EvalW ro sem body fs₀ E p (v, ws) ∧
    (∀ r x, wget ws r = some x → ∃ c st, Dep.write r c st ∈ done ∧ sem.rstamp c x = .ok st ∧
      ExactC sem c) ∧
    (∀ u, CallsP ro sem body fs₀ E p u → ConsT s u)) ∧
  (∀ u c st ds3, ds2 = Dep.require u c st :: ds3 → CallsP ro sem body fs₀ E p u) ∧
  (∀ r c st ds3 w, ds2 = Dep.read r c st :: ds3 → ro.gen r = some w → ConsT s w)

/-- **Key lemma** (the analogue of `replay_eval`). -/
theorem replayO_walk (hst : StampTotal sem) {s : Sess} (h : SInvWD ro sem body fs₀ D s) {t : Nat}
    (ds2 : List Dep) (v : Int) :
    ∀ (p : Prog) (a : Acc) (E : WEnv) (seen ds1 : List Dep),
    Respects sem p → WriteExact sem p → StaticRolesFrom ro t a p → EnvOK ro sem body fs₀ s E a →
    ReplayO sem p seen (ds1 ++ ds2) v → (∀ d ∈ seen, DepOk ro sem s d) →
    (∀ d ∈ ds1, DepOk ro sem s d) → WalkRes ro sem body fs₀ s E p v (seen ++ ds1) ds2 := by
  intro p
  induction p with
  | ret v' =>
    intro a E seen ds1 _ _ _ _ hrep _ _
    obtain ⟨hnil, rfl⟩ := hrep
    have h2 : ds2 = [] := (List.append_eq_nil_iff.mp hnil).2
    refine ⟨fun _ => ⟨[], .ret, fun r x hx => (by cases hx), fun u hu => (by cases hu)⟩, ?_, ?_⟩
    · intro u c st ds3 hd; rw [h2] at hd; cases hd
    · intro r c st ds3 w hd; rw [h2] at hd; cases hd
  | panic => intro a E seen ds1 _ _ _ _ hrep; exact hrep.elim
  | req u c k ih =>
    intro a E seen ds1 hres hwe hsr henv hrep hseen hds1
    -- the common continuation, once the `require` dependency is known to be accepted
    have key : ∀ (st : Stamp) (o : Int) (seen' ds1' : List Dep), sem.ostamp c o = st →
        DepOk ro sem s (.require u c st) → ReplayO sem (k o) seen' (ds1' ++ ds2) v →
        (∀ d ∈ seen', DepOk ro sem s d) → (∀ d ∈ ds1', DepOk ro sem s d) →
        (∀ d, d ∈ seen' ++ ds1' → d ∈ seen ++ ds1) →
        WalkRes ro sem body fs₀ s E (.req u c k) v (seen ++ ds1) ds2 := by
      intro st o seen' ds1' ho hdep hrep' hs' hd' hsub
      obtain ⟨m, o', htm, hm, hom, hck⟩ := hdep
      obtain ⟨t', o'', wu, ht', ho'', hden, _, _, _⟩ := h.sound m hm
      rw [htm] at ht'; cases ht'
      rw [hom] at ho''; cases ho''
      have hk : k o' = k o := hres.1 o o' (by rw [ho]; exact hck)
      have hcons : ConsT s u := ⟨m, hm, htm⟩
      have IH := ih o' { a with req := u :: a.req } ((u, wu) :: E) seen' ds1' (hres.2 o') (hwe o')
        (hsr.2 o') (henv.cons hcons hden) (by rw [hk]; exact hrep') hs' hd'
      refine ⟨fun h2 => ?_, ?_, IH.2.2⟩
      · obtain ⟨ws, hev, hwr, hcl⟩ := IH.1 h2
        refine ⟨ws, .req hden hev, fun r x hx => ?_, fun x hx => ?_⟩
        · obtain ⟨c', st', h1, h2', h3⟩ := hwr r x hx
          exact ⟨c', st', hsub _ h1, h2', h3⟩
        · cases hx with
          | here => exact hcons
          | req hd'' hc'' =>
            have := EvalW.det hden hd''; cases this
            exact hcl x hc''
      · intro u' c' st' ds3 h2
        exact .req hden (IH.2.1 u' c' st' ds3 h2)
    rcases hrep with ⟨st, hmem, o, ho, hrep'⟩ | ⟨st, ds', hds, o, ho, hrep'⟩
    · exact key st o seen ds1 ho (hseen _ hmem) hrep' hseen hds1 (fun d hd => hd)
    · cases ds1 with
      | nil =>
        simp only [List.nil_append] at hds
        refine ⟨fun h2 => (by rw [h2] at hds; cases hds), ?_, ?_⟩
        · intro u' c' st' ds3 h2
          rw [h2] at hds; cases hds
          exact .here
        · intro r c' st' ds3 w h2
          rw [h2] at hds; cases hds
      | cons d ds1' =>
        simp only [List.cons_append, List.cons.injEq] at hds
        obtain ⟨rfl, rfl⟩ := hds
        refine key st o (seen ++ [.require u c st]) ds1' ho (hds1 _ List.mem_cons_self) hrep' ?_
          (fun d hd => hds1 d (List.mem_cons_of_mem _ hd)) (fun d hd => by simpa using hd)
        intro d hd
        rcases List.mem_append.mp hd with hd | hd
        · exact hseen d hd
        · simp only [List.mem_singleton] at hd; subst hd; exact hds1 _ List.mem_cons_self
  | read r c k ih =>
    intro a E seen ds1 hres hwe hsr henv hrep hseen hds1
    have hview : view ro fs₀ E r = aget s.fs r := view_eq_fs h henv hsr.2.1
    obtain ⟨sv, hsv⟩ := hst c (view ro fs₀ E r)
    have key : ∀ (st : Stamp) (x : Option Int) (seen' ds1' : List Dep), sem.rstamp c x = .ok st →
        DepOk ro sem s (.read r c st) → ReplayO sem (k (.ok x)) seen' (ds1' ++ ds2) v →
        (∀ d ∈ seen', DepOk ro sem s d) → (∀ d ∈ ds1', DepOk ro sem s d) →
        (∀ d, d ∈ seen' ++ ds1' → d ∈ seen ++ ds1) →
        WalkRes ro sem body fs₀ s E (.read r c k) v (seen ++ ds1) ds2 := by
      intro st x seen' ds1' hx hdep hrep' hs' hd' hsub
      obtain ⟨hck, _⟩ := hdep
      have hk : k (.ok (aget s.fs r)) = k (.ok x) := hres.1 x (aget s.fs r) st hx hck
      have IH := ih (.ok (view ro fs₀ E r)) a E seen' ds1' (hres.2 _) (hwe _) (hsr.2.2 _) henv
        (by rw [hview, hk]; exact hrep') hs' hd'
      refine ⟨fun h2 => ?_, ?_, IH.2.2⟩
      · obtain ⟨ws, hev, hwr, hcl⟩ := IH.1 h2
        refine ⟨ws, .read hsv hev, fun r' x' hx' => ?_, fun x' hx' => ?_⟩
        · obtain ⟨c', st', h1, h2', h3⟩ := hwr r' x' hx'
          exact ⟨c', st', hsub _ h1, h2', h3⟩
        · cases hx' with
          | read _ hc'' => exact hcl x' hc''
          | readErr he _ => rw [hsv] at he; cases he
      · intro u' c' st' ds3 h2
        exact .read hsv (IH.2.1 u' c' st' ds3 h2)
    rcases hrep with ⟨st, hmem, x, hx, hrep'⟩ | ⟨st, ds', hds, x, hx, hrep'⟩
    · exact key st x seen ds1 hx (hseen _ hmem) hrep' hseen hds1 (fun d hd => hd)
    · cases ds1 with
      | nil =>
        simp only [List.nil_append] at hds
        refine ⟨fun h2 => (by rw [h2] at hds; cases hds), ?_, ?_⟩
        · intro u' c' st' ds3 h2
          rw [h2] at hds; cases hds
        · intro r' c' st' ds3 w h2 hg
          rw [h2] at hds; cases hds
          obtain ⟨wu, hwu⟩ := henv.dom w (hsr.2.1 w hg)
          exact (henv.den w wu hwu).1
      | cons d ds1' =>
        simp only [List.cons_append, List.cons.injEq] at hds
        obtain ⟨rfl, rfl⟩ := hds
        refine key st x (seen ++ [.read r c st]) ds1' hx (hds1 _ List.mem_cons_self) hrep' ?_
          (fun d hd => hds1 d (List.mem_cons_of_mem _ hd)) (fun d hd => by simpa using hd)
        intro d hd
        rcases List.mem_append.mp hd with hd | hd
        · exact hseen d hd
        · simp only [List.mem_singleton] at hd; subst hd; exact hds1 _ List.mem_cons_self
  | write r c v' k ih =>
    intro a E seen ds1 hres hwe hsr henv hrep hseen hds1
    obtain ⟨st, ds', hds, hx, hrep'⟩ := hrep
    cases ds1 with
    | nil =>
      simp only [List.nil_append] at hds
      refine ⟨fun h2 => (by rw [h2] at hds; cases hds), ?_, ?_⟩
      · intro u' c' st' ds3 h2; rw [h2] at hds; cases hds
      · intro r' c' st' ds3 w h2; rw [h2] at hds; cases hds
    | cons d ds1' =>
      simp only [List.cons_append, List.cons.injEq] at hds
      obtain ⟨rfl, rfl⟩ := hds
      have IH := ih (.ok ()) { a with wr := r :: a.wr } E (seen ++ [.write r c st]) ds1' (hres _)
        (hwe.2 _) (hsr.2.2 _) (henv.wr r) hrep' (by
          intro d hd
          rcases List.mem_append.mp hd with hd | hd
          · exact hseen d hd
          · simp only [List.mem_singleton] at hd; subst hd; exact hds1 _ List.mem_cons_self)
        (fun d hd => hds1 d (List.mem_cons_of_mem _ hd))
      refine ⟨fun h2 => ?_, ?_, IH.2.2⟩
      · obtain ⟨ws, hev, hwr, hcl⟩ := IH.1 h2
        refine ⟨(r, v') :: ws, .write hx hev, fun r0 x0 hw => ?_, fun x' hx' => ?_⟩
        · rw [wget_cons] at hw
          cases hww : wget ws r0 with
          | some y =>
            rw [hww] at hw; cases hw
            obtain ⟨c', st', h1, h2', h3⟩ := hwr r0 _ hww
            exact ⟨c', st', by simpa using h1, h2', h3⟩
          | none =>
            rw [hww] at hw
            by_cases hr : r = r0
            · rw [if_pos hr] at hw; cases hw; subst hr
              exact ⟨c, st, by simp, hx, hwe.1⟩
            · rw [if_neg hr] at hw; cases hw
        · cases hx' with
          | write _ hc'' => exact hcl x' hc''
          | writeErr he _ => rw [hx] at he; cases he
      · intro u' c' st' ds3 h2
        exact .write hx (IH.2.1 u' c' st' ds3 h2)
  | wrote r c v' k ih =>
    intro a E seen ds1 hres hwe hsr henv hrep hseen hds1
    obtain ⟨st, ds', hds, hx, hrep'⟩ := hrep
    cases ds1 with
    | nil =>
      simp only [List.nil_append] at hds
      refine ⟨fun h2 => (by rw [h2] at hds; cases hds), ?_, ?_⟩
      · intro u' c' st' ds3 h2; rw [h2] at hds; cases hds
      · intro r' c' st' ds3 w h2; rw [h2] at hds; cases hds
    | cons d ds1' =>
      simp only [List.cons_append, List.cons.injEq] at hds
      obtain ⟨rfl, rfl⟩ := hds
      have IH := ih (.ok ()) { a with wr := r :: a.wr } E (seen ++ [.write r c st]) ds1' (hres _)
        (hwe.2 _) (hsr.2.2 _) (henv.wr r) hrep' (by
          intro d hd
          rcases List.mem_append.mp hd with hd | hd
          · exact hseen d hd
          · simp only [List.mem_singleton] at hd; subst hd; exact hds1 _ List.mem_cons_self)
        (fun d hd => hds1 d (List.mem_cons_of_mem _ hd))
      refine ⟨fun h2 => ?_, ?_, IH.2.2⟩
      · obtain ⟨ws, hev, hwr, hcl⟩ := IH.1 h2
        refine ⟨(r, v') :: ws, .wrote hx hev, fun r0 x0 hw => ?_, fun x' hx' => ?_⟩
        · rw [wget_cons] at hw
          cases hww : wget ws r0 with
          | some y =>
            rw [hww] at hw; cases hw
            obtain ⟨c', st', h1, h2', h3⟩ := hwr r0 _ hww
            exact ⟨c', st', by simpa using h1, h2', h3⟩
          | none =>
            rw [hww] at hw
            by_cases hr : r = r0
            · rw [if_pos hr] at hw; cases hw; subst hr
              exact ⟨c, st, by simp, hx, hwe.1⟩
            · rw [if_neg hr] at hw; cases hw
        · cases hx' with
          | wrote _ hc'' => exact hcl x' hc''
          | wroteErr he _ => rw [hx] at he; cases he
      · intro u' c' st' ds3 h2
        exact .wrote hx (IH.2.1 u' c' st' ds3 h2)

end PieModel
