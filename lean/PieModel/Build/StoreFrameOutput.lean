/-
Frame / effect lemmas for `Store.setTaskOutput` and `Store.resetTask`.
-/
import PieModel.Build.StoreFrameNode

namespace PieModel
namespace Store
variable {st : Store}

/-! ### `setTaskOutput`

Only `taskOutput n` changes (to `some o`), and only if `n` is a task node.  No lemma of this
section needs `WF`. -/

/-- Replace the output in a task datum. -/
def _root_.PieModel.NodeData.setOut (o : Option Int) : NodeData → NodeData
  | .task t _ => .task t o
  | d => d

theorem setTaskOutput_cases (st : Store) (n : Nat) (o : Int) :
    (∃ t o', st.g.getNodeData n = some (.task t o') ∧
      st.setTaskOutput n o = { st with g := st.g.setNodeData n (.task t (some o)) }) ∨
    (st.taskOf n = none ∧ st.setTaskOutput n o = st) := by
  unfold setTaskOutput taskOf
  cases hd : st.g.getNodeData n with
  | none => exact .inr ⟨rfl, rfl⟩
  | some d =>
    cases d with
    | task t o' => exact .inl ⟨t, o', rfl, rfl⟩
    | res r => exact .inr ⟨rfl, rfl⟩

theorem setTaskOutput_of_not_task {n : Nat} (h : st.taskOf n = none) (o : Int) :
    st.setTaskOutput n o = st := by
  rcases setTaskOutput_cases st n o with ⟨t, o', hd, _⟩ | ⟨_, h2⟩
  · rw [taskOf_of_data_task hd] at h; cases h
  · exact h2

@[simp] theorem taskNode_setTaskOutput (n : Nat) (o : Int) :
    (st.setTaskOutput n o).taskNode = st.taskNode := by
  rcases setTaskOutput_cases st n o with ⟨t, o', _, h2⟩ | ⟨_, h2⟩ <;> rw [h2]

@[simp] theorem resNode_setTaskOutput (n : Nat) (o : Int) :
    (st.setTaskOutput n o).resNode = st.resNode := by
  rcases setTaskOutput_cases st n o with ⟨t, o', _, h2⟩ | ⟨_, h2⟩ <;> rw [h2]

theorem getNodeData_setTaskOutput (n : Nat) (o : Int) (x : Nat) :
    (st.setTaskOutput n o).g.getNodeData x =
      if x = n then (st.g.getNodeData x).map (NodeData.setOut (some o)) else st.g.getNodeData x := by
  rcases setTaskOutput_cases st n o with ⟨t, o', hd, h2⟩ | ⟨hd, h2⟩ <;> rw [h2]
  · show (st.g.setNodeData n _).getNodeData x = _
    rw [Dag.getNodeData_setNodeData]
    by_cases hx : x = n
    · subst hx
      have : st.g.containsNode x = true := by rw [← Dag.getNodeData_isSome, hd]; rfl
      simp [this, hd, NodeData.setOut]
    · simp [hx]
  · by_cases hx : x = n
    · subst hx
      simp only [if_true]
      cases hd' : st.g.getNodeData x with
      | none => rfl
      | some d =>
        cases d with
        | task t o' => rw [taskOf_of_data_task hd'] at hd; cases hd
        | res r => rfl
    · simp [hx]

@[simp] theorem taskOf_setTaskOutput (n : Nat) (o : Int) (x : Nat) :
    (st.setTaskOutput n o).taskOf x = st.taskOf x := by
  unfold taskOf; rw [getNodeData_setTaskOutput]
  by_cases hx : x = n
  · simp only [hx, if_true]
    cases st.g.getNodeData n with
    | none => rfl
    | some d => cases d <;> rfl
  · simp [hx]

@[simp] theorem resOf_setTaskOutput (n : Nat) (o : Int) (x : Nat) :
    (st.setTaskOutput n o).resOf x = st.resOf x := by
  unfold resOf; rw [getNodeData_setTaskOutput]
  by_cases hx : x = n
  · simp only [hx, if_true]
    cases st.g.getNodeData n with
    | none => rfl
    | some d => cases d <;> rfl
  · simp [hx]

/-- Only the output of `n` changes, and only if `n` is a task node. -/
theorem taskOutput_setTaskOutput (n : Nat) (o : Int) (x : Nat) :
    (st.setTaskOutput n o).taskOutput x =
      if x = n ∧ (st.taskOf n).isSome = true then some o else st.taskOutput x := by
  unfold taskOutput taskOf; rw [getNodeData_setTaskOutput]
  by_cases hx : x = n
  · simp only [hx, if_true, true_and]
    cases st.g.getNodeData n with
    | none => rfl
    | some d => cases d <;> rfl
  · simp [hx]

theorem taskOutput_setTaskOutput_self {n t : Nat} (h : st.taskOf n = some t) (o : Int) :
    (st.setTaskOutput n o).taskOutput n = some o := by
  rw [taskOutput_setTaskOutput]; simp [h]

theorem taskOutput_setTaskOutput_of_ne {n x : Nat} (hx : x ≠ n) (o : Int) :
    (st.setTaskOutput n o).taskOutput x = st.taskOutput x := by
  rw [taskOutput_setTaskOutput]; simp [hx]

@[simp] theorem getEdgeData_setTaskOutput (n : Nat) (o : Int) (a b : Nat) :
    (st.setTaskOutput n o).g.getEdgeData a b = st.g.getEdgeData a b := by
  rcases setTaskOutput_cases st n o with ⟨t, o', _, h2⟩ | ⟨_, h2⟩ <;> rw [h2]; rfl

@[simp] theorem containsNode_setTaskOutput (n : Nat) (o : Int) (x : Nat) :
    (st.setTaskOutput n o).g.containsNode x = st.g.containsNode x := by
  rcases setTaskOutput_cases st n o with ⟨t, o', _, h2⟩ | ⟨_, h2⟩ <;> rw [h2]
  exact Dag.containsNode_setNodeData _ _ _ _

@[simp] theorem childrenOf_setTaskOutput (n : Nat) (o : Int) (x : Nat) :
    (st.setTaskOutput n o).g.childrenOf x = st.g.childrenOf x := by
  rcases setTaskOutput_cases st n o with ⟨t, o', _, h2⟩ | ⟨_, h2⟩ <;> rw [h2]
  exact Dag.childrenOf_setNodeData _ _ _ _

@[simp] theorem parentsOf_setTaskOutput (n : Nat) (o : Int) (x : Nat) :
    (st.setTaskOutput n o).g.parentsOf x = st.g.parentsOf x := by
  rcases setTaskOutput_cases st n o with ⟨t, o', _, h2⟩ | ⟨_, h2⟩ <;> rw [h2]
  exact Dag.parentsOf_setNodeData _ _ _ _

@[simp] theorem topoOf_setTaskOutput (n : Nat) (o : Int) (x : Nat) :
    (st.setTaskOutput n o).g.topoOf x = st.g.topoOf x := by
  rcases setTaskOutput_cases st n o with ⟨t, o', _, h2⟩ | ⟨_, h2⟩ <;> rw [h2]
  exact Dag.topoOf_setNodeData _ _ _ _

@[simp] theorem outgoingEdges_setTaskOutput (n : Nat) (o : Int) (x : Nat) :
    (st.setTaskOutput n o).g.outgoingEdges x = st.g.outgoingEdges x := by
  rcases setTaskOutput_cases st n o with ⟨t, o', _, h2⟩ | ⟨_, h2⟩ <;> rw [h2]
  exact Dag.outgoingEdges_setNodeData _ _ _ _

@[simp] theorem incomingEdges_setTaskOutput (n : Nat) (o : Int) (x : Nat) :
    (st.setTaskOutput n o).g.incomingEdges x = st.g.incomingEdges x := by
  rcases setTaskOutput_cases st n o with ⟨t, o', _, h2⟩ | ⟨_, h2⟩ <;> rw [h2]
  exact Dag.incomingEdges_setNodeData _ _ _ _

theorem reach_setTaskOutput (n : Nat) (o : Int) (a b : Nat) :
    (st.setTaskOutput n o).g.Reach a b ↔ st.g.Reach a b :=
  Dag.reach_congr (childrenOf_setTaskOutput n o) a b

@[simp] theorem depsFrom_setTaskOutput (n : Nat) (o : Int) (x : Nat) :
    (st.setTaskOutput n o).depsFrom x = st.depsFrom x :=
  (outgoing_obs_congr (outgoingEdges_setTaskOutput n o x)).1

@[simp] theorem resourcesWrittenBy_setTaskOutput (n : Nat) (o : Int) (x : Nat) :
    (st.setTaskOutput n o).resourcesWrittenBy x = st.resourcesWrittenBy x :=
  (outgoing_obs_congr (outgoingEdges_setTaskOutput n o x)).2

@[simp] theorem tasksReadingFrom_setTaskOutput (n : Nat) (o : Int) (x : Nat) :
    (st.setTaskOutput n o).tasksReadingFrom x = st.tasksReadingFrom x :=
  (incoming_obs_congr (incomingEdges_setTaskOutput n o x)).1

@[simp] theorem writersTo_setTaskOutput (n : Nat) (o : Int) (x : Nat) :
    (st.setTaskOutput n o).writersTo x = st.writersTo x :=
  (incoming_obs_congr (incomingEdges_setTaskOutput n o x)).2.1

@[simp] theorem taskWritingTo_setTaskOutput (n : Nat) (o : Int) (x : Nat) :
    (st.setTaskOutput n o).taskWritingTo x = st.taskWritingTo x :=
  (incoming_obs_congr (incomingEdges_setTaskOutput n o x)).2.2.1

@[simp] theorem readDepsTo_setTaskOutput (n : Nat) (o : Int) (x : Nat) :
    (st.setTaskOutput n o).readDepsTo x = st.readDepsTo x :=
  (incoming_obs_congr (incomingEdges_setTaskOutput n o x)).2.2.2.1

@[simp] theorem readWriteDepsTo_setTaskOutput (n : Nat) (o : Int) (x : Nat) :
    (st.setTaskOutput n o).readWriteDepsTo x = st.readWriteDepsTo x :=
  (incoming_obs_congr (incomingEdges_setTaskOutput n o x)).2.2.2.2.1

@[simp] theorem requireDepsTo_setTaskOutput (n : Nat) (o : Int) (x : Nat) :
    (st.setTaskOutput n o).requireDepsTo x = st.requireDepsTo x :=
  (incoming_obs_congr (incomingEdges_setTaskOutput n o x)).2.2.2.2.2

theorem inv_setTaskOutput (h : st.g.Inv) (n : Nat) (o : Int) : (st.setTaskOutput n o).g.Inv := by
  rcases setTaskOutput_cases st n o with ⟨t, o', _, h2⟩ | ⟨_, h2⟩ <;> rw [h2]
  · exact Dag.inv_setNodeData h _ _
  · exact h

theorem WF.setTaskOutput (h : st.WF) (n : Nat) (o : Int) : (st.setTaskOutput n o).WF :=
  h.transfer (inv_setTaskOutput h.inv n o) (by simp) (by simp) (by simp)
    (fun s d dep he => h.edge_src s d dep (by simpa using he))
    (fun s d dep he => h.edge_dst s d dep (by simpa using he))

theorem containsTransitive_setTaskOutput (h : st.WF) (n : Nat) (o : Int) (a b : Nat) :
    (st.setTaskOutput n o).containsTransitive a b = st.containsTransitive a b := by
  rw [Bool.eq_iff_iff, (h.setTaskOutput n o).containsTransitive_iff, h.containsTransitive_iff]
  exact reach_setTaskOutput n o a b

/-! ### `resetTask`

`taskOutput n` becomes `none`, all outgoing edges of `n` disappear (so `n` is erased from the
incoming lists of all nodes); nothing else changes.  Under `WF` a node that is not a task node
has no output and no outgoing edges, so the equations hold whatever `n` is. -/

theorem resetTask_cases (st : Store) (n : Nat) :
    (∃ t o', st.g.getNodeData n = some (.task t o') ∧
      st.resetTask n =
        { st with g := ((st.g.setNodeData n (.task t none)).removeOutgoingEdgesOfNode n).1 }) ∨
    (st.taskOf n = none ∧ st.resetTask n = st) := by
  unfold resetTask taskOf
  cases hd : st.g.getNodeData n with
  | none => exact .inr ⟨rfl, rfl⟩
  | some d =>
    cases d with
    | task t o' => exact .inl ⟨t, o', rfl, rfl⟩
    | res r => exact .inr ⟨rfl, rfl⟩

theorem resetTask_of_not_task {n : Nat} (h : st.taskOf n = none) : st.resetTask n = st := by
  rcases resetTask_cases st n with ⟨t, o', hd, _⟩ | ⟨_, h2⟩
  · rw [taskOf_of_data_task hd] at h; cases h
  · exact h2

@[simp] theorem taskNode_resetTask (n : Nat) : (st.resetTask n).taskNode = st.taskNode := by
  rcases resetTask_cases st n with ⟨t, o', _, h2⟩ | ⟨_, h2⟩ <;> rw [h2]

@[simp] theorem resNode_resetTask (n : Nat) : (st.resetTask n).resNode = st.resNode := by
  rcases resetTask_cases st n with ⟨t, o', _, h2⟩ | ⟨_, h2⟩ <;> rw [h2]

theorem inv_resetTask (h : st.g.Inv) (n : Nat) : (st.resetTask n).g.Inv := by
  rcases resetTask_cases st n with ⟨t, o', _, h2⟩ | ⟨_, h2⟩ <;> rw [h2]
  · exact Dag.inv_removeOutgoing (Dag.inv_setNodeData h _ _) _
  · exact h

section Reset
variable (h : st.WF) (n : Nat)
include h

theorem getNodeData_resetTask (x : Nat) :
    (st.resetTask n).g.getNodeData x =
      if x = n then (st.g.getNodeData x).map (NodeData.setOut none) else st.g.getNodeData x := by
  rcases resetTask_cases st n with ⟨t, o', hd, h2⟩ | ⟨hd, h2⟩ <;> rw [h2]
  · show ((st.g.setNodeData n _).removeOutgoingEdgesOfNode n).1.getNodeData x = _
    rw [Dag.getNodeData_removeOutgoing (Dag.inv_setNodeData h.inv _ _).toWF,
      Dag.getNodeData_setNodeData]
    by_cases hx : x = n
    · subst hx
      have : st.g.containsNode x = true := by rw [← Dag.getNodeData_isSome, hd]; rfl
      simp [this, hd, NodeData.setOut]
    · simp [hx]
  · by_cases hx : x = n
    · subst hx
      simp only [if_true]
      cases hd' : st.g.getNodeData x with
      | none => rfl
      | some d =>
        cases d with
        | task t o' => rw [taskOf_of_data_task hd'] at hd; cases hd
        | res r => rfl
    · simp [hx]

theorem taskOf_resetTask (x : Nat) : (st.resetTask n).taskOf x = st.taskOf x := by
  unfold taskOf; rw [getNodeData_resetTask h]
  by_cases hx : x = n
  · simp only [hx, if_true]
    cases st.g.getNodeData n with
    | none => rfl
    | some d => cases d <;> rfl
  · simp [hx]

theorem resOf_resetTask (x : Nat) : (st.resetTask n).resOf x = st.resOf x := by
  unfold resOf; rw [getNodeData_resetTask h]
  by_cases hx : x = n
  · simp only [hx, if_true]
    cases st.g.getNodeData n with
    | none => rfl
    | some d => cases d <;> rfl
  · simp [hx]

/-- The output of `n` is forgotten; all other outputs are unchanged. -/
theorem taskOutput_resetTask (x : Nat) :
    (st.resetTask n).taskOutput x = if x = n then none else st.taskOutput x := by
  unfold taskOutput; rw [getNodeData_resetTask h]
  by_cases hx : x = n
  · simp only [hx, if_true]
    cases st.g.getNodeData n with
    | none => rfl
    | some d => cases d <;> rfl
  · simp [hx]

omit h in
theorem containsNode_resetTask (x : Nat) :
    (st.resetTask n).g.containsNode x = st.g.containsNode x := by
  rcases resetTask_cases st n with ⟨t, o', _, h2⟩ | ⟨_, h2⟩ <;> rw [h2]
  show ((st.g.setNodeData n _).removeOutgoingEdgesOfNode n).1.containsNode x = _
  rw [Dag.containsNode_removeOutgoing, Dag.containsNode_setNodeData]

theorem topoOf_resetTask (x : Nat) : (st.resetTask n).g.topoOf x = st.g.topoOf x := by
  rcases resetTask_cases st n with ⟨t, o', _, h2⟩ | ⟨_, h2⟩ <;> rw [h2]
  show ((st.g.setNodeData n _).removeOutgoingEdgesOfNode n).1.topoOf x = _
  rw [Dag.topoOf_removeOutgoing (Dag.inv_setNodeData h.inv _ _).toWF, Dag.topoOf_setNodeData]

theorem getEdgeData_resetTask (a b : Nat) :
    (st.resetTask n).g.getEdgeData a b = if a = n then none else st.g.getEdgeData a b := by
  rcases resetTask_cases st n with ⟨t, o', _, h2⟩ | ⟨hd, h2⟩ <;> rw [h2]
  · show ((st.g.setNodeData n _).removeOutgoingEdgesOfNode n).1.getEdgeData a b = _
    rw [Dag.getEdgeData_removeOutgoing (Dag.inv_setNodeData h.inv _ _).toWF]; rfl
  · by_cases ha : a = n
    · subst ha
      simp only [if_true]
      cases he : st.g.getEdgeData a b with
      | none => rfl
      | some dep =>
        obtain ⟨t, ht⟩ := h.edge_src a b dep he
        rw [hd] at ht; cases ht
    · simp [ha]

theorem childrenOf_resetTask (x : Nat) :
    (st.resetTask n).g.childrenOf x = if x = n then [] else st.g.childrenOf x := by
  rcases resetTask_cases st n with ⟨t, o', _, h2⟩ | ⟨hd, h2⟩ <;> rw [h2]
  · show ((st.g.setNodeData n _).removeOutgoingEdgesOfNode n).1.childrenOf x = _
    rw [Dag.childrenOf_removeOutgoing (Dag.inv_setNodeData h.inv _ _).toWF,
      Dag.childrenOf_setNodeData]
  · by_cases hx : x = n
    · subst hx; simp [h.childrenOf_of_not_task hd]
    · simp [hx]

/-- `n` is erased from every parents list. -/
theorem parentsOf_resetTask (x : Nat) :
    (st.resetTask n).g.parentsOf x = (st.g.parentsOf x).erase n := by
  rcases resetTask_cases st n with ⟨t, o', _, h2⟩ | ⟨hd, h2⟩ <;> rw [h2]
  · show ((st.g.setNodeData n _).removeOutgoingEdgesOfNode n).1.parentsOf x = _
    rw [Dag.parentsOf_removeOutgoing (Dag.inv_setNodeData h.inv _ _).toWF,
      Dag.parentsOf_setNodeData]
  · rw [List.erase_of_not_mem]
    intro hp
    have := (h.gwf.child_iff_parent n x).mpr hp
    rw [h.childrenOf_of_not_task hd] at this; cases this

/-- `n` loses all its outgoing edges; the outgoing edges of every other node are unchanged. -/
theorem outgoingEdges_resetTask (x : Nat) :
    (st.resetTask n).g.outgoingEdges x = if x = n then [] else st.g.outgoingEdges x := by
  rcases resetTask_cases st n with ⟨t, o', _, h2⟩ | ⟨hd, h2⟩ <;> rw [h2]
  · show ((st.g.setNodeData n _).removeOutgoingEdgesOfNode n).1.outgoingEdges x = _
    rw [Dag.outgoingEdges_removeOutgoing (Dag.inv_setNodeData h.inv _ _).toWF,
      Dag.outgoingEdges_setNodeData]
  · by_cases hx : x = n
    · subst hx; simp [h.outgoingEdges_of_not_task hd]
    · simp [hx]

/-- `n`'s edges are erased from every incoming list (order and data of the rest kept). -/
theorem incomingEdges_resetTask (x : Nat) :
    (st.resetTask n).g.incomingEdges x = (st.g.incomingEdges x).filter (fun p => p.1 != n) := by
  rcases resetTask_cases st n with ⟨t, o', _, h2⟩ | ⟨hd, h2⟩ <;> rw [h2]
  · show ((st.g.setNodeData n _).removeOutgoingEdgesOfNode n).1.incomingEdges x = _
    rw [Dag.incomingEdges_removeOutgoing (Dag.inv_setNodeData h.inv _ _).toWF,
      Dag.incomingEdges_setNodeData]
  · symm; rw [List.filter_eq_self]
    intro p hp
    obtain ⟨s, dep⟩ := p
    obtain ⟨⟨t, ht⟩, _⟩ := h.mem_incomingEdges_ok hp
    have : s ≠ n := by rintro rfl; rw [hd] at ht; cases ht
    simpa using this

theorem hasEdge_resetTask (a b : Nat) :
    (st.resetTask n).g.HasEdge a b ↔ a ≠ n ∧ st.g.HasEdge a b := by
  simp only [Dag.HasEdge, childrenOf_resetTask h]
  by_cases ha : a = n <;> simp [ha]

/-- Reachability only shrinks. -/
theorem reach_resetTask {a b : Nat} (hr : (st.resetTask n).g.Reach a b) : st.g.Reach a b :=
  hr.mono (fun _ _ he => ((hasEdge_resetTask h n _ _).mp he).2)

/-- Nothing is reachable from `n` after the reset. -/
theorem not_reach_resetTask_self (b : Nat) : ¬ (st.resetTask n).g.Reach n b := by
  intro hr
  obtain ⟨c, hc⟩ := hr.exists_first
  exact ((hasEdge_resetTask h n n c).mp hc).1 rfl

theorem WF.resetTask : (st.resetTask n).WF := by
  refine h.transfer (inv_resetTask h.inv n) (by simp) (by simp)
    (fun x => ⟨taskOf_resetTask h n x, resOf_resetTask h n x⟩) ?_ ?_
  · intro s d dep he
    rw [getEdgeData_resetTask h] at he
    split at he
    · cases he
    · exact h.edge_src s d dep he
  · intro s d dep he
    rw [getEdgeData_resetTask h] at he
    split at he
    · cases he
    · exact h.edge_dst s d dep he

theorem containsTransitive_resetTask_le (a b : Nat)
    (hr : (st.resetTask n).containsTransitive a b = true) : st.containsTransitive a b = true := by
  rw [(WF.resetTask h n).containsTransitive_iff] at hr
  rw [h.containsTransitive_iff]; exact reach_resetTask h n hr

/-- `n` has no dependencies after the reset; the dependencies of every other node are unchanged. -/
theorem depsFrom_resetTask (x : Nat) :
    (st.resetTask n).depsFrom x = if x = n then [] else st.depsFrom x := by
  simp only [depsFrom, Dag.outgoingEdgeData, outgoingEdges_resetTask h]
  by_cases hx : x = n <;> simp [hx]

theorem resourcesWrittenBy_resetTask (x : Nat) :
    (st.resetTask n).resourcesWrittenBy x = if x = n then [] else st.resourcesWrittenBy x := by
  simp only [resourcesWrittenBy, outgoingEdges_resetTask h]
  by_cases hx : x = n <;> simp [hx]

theorem readDepsTo_resetTask (x : Nat) :
    (st.resetTask n).readDepsTo x = (st.readDepsTo x).filter (fun p => p.1 != n) := by
  simp only [readDepsTo_eq, incomingEdges_resetTask h, List.filter_filter, Bool.and_comm]

theorem readWriteDepsTo_resetTask (x : Nat) :
    (st.resetTask n).readWriteDepsTo x = (st.readWriteDepsTo x).filter (fun p => p.1 != n) := by
  simp only [readWriteDepsTo_eq, incomingEdges_resetTask h, List.filter_filter, Bool.and_comm]

theorem requireDepsTo_resetTask (x : Nat) :
    (st.resetTask n).requireDepsTo x = (st.requireDepsTo x).filter (fun p => p.1 != n) := by
  simp only [requireDepsTo_eq, incomingEdges_resetTask h, List.filter_filter, Bool.and_comm]

theorem tasksReadingFrom_resetTask (x : Nat) :
    (st.resetTask n).tasksReadingFrom x = (st.tasksReadingFrom x).filter (fun m => m != n) := by
  simp only [tasksReadingFrom_eq, incomingEdges_resetTask h, List.filter_filter, List.filter_map,
    Bool.and_comm, Function.comp_def]

theorem writersTo_resetTask (x : Nat) :
    (st.resetTask n).writersTo x = (st.writersTo x).filter (fun m => m != n) := by
  simp only [writersTo, incomingEdges_resetTask h, List.filter_filter, List.filter_map,
    Bool.and_comm, Function.comp_def]

/-- The first remaining writer. -/
theorem taskWritingTo_resetTask (x : Nat) :
    (st.resetTask n).taskWritingTo x = ((st.writersTo x).filter (fun m => m != n)).head? := by
  rw [taskWritingTo_eq, writersTo_resetTask h]

end Reset

end Store
end PieModel
