/-
Well-nestedness of the tracker stream produced by the top-down interpreter
(`doRead`/`doWrite`/`doWrote`, `tdRequire … tdRun`, `sessionRequire`, `requireAll`).
-/
import PieModel.Build.TraceNesting
import PieModel.Build.TopDown
import PieModel.Build.Pie

namespace PieModel

/-- No resource checker fails to stamp. -/
def StampTotal (sem : Sem) : Prop := ∀ c v, ∃ s, sem.rstamp c v = .ok s

/-- The trace of `s'` is the trace of `s` followed by a segment that is well nested in itself
and leaves the frames `op` open. -/
def Tr (rx : Bool) (s s' : Sess) (op : List Frame) : Prop :=
  ∃ evs, s'.trace = s.trace ++ evs ∧ Seg rx evs op

namespace Tr

variable {rx : Bool} {s s1 s2 s' : Sess}

theorem of_eq (h : s'.trace = s.trace) : Tr rx s s' [] := ⟨[], by simp [h], Seg.nil⟩

theorem refl : Tr rx s s [] := of_eq rfl

theorem trans {a b : List Frame} (h1 : Tr rx s s1 a) (h2 : Tr rx s1 s2 b) :
    Tr rx s s2 (b ++ a) := by
  obtain ⟨e1, t1, g1⟩ := h1
  obtain ⟨e2, t2, g2⟩ := h2
  exact ⟨e1 ++ e2, by rw [t2, t1, List.append_assoc], g1.append g2⟩

theorem trans_bal {a : List Frame} (h1 : Tr rx s s1 a) (h2 : Tr rx s1 s2 []) :
    Tr rx s s2 a := by simpa using h1.trans h2

theorem congr_right {a : List Frame} (h1 : Tr rx s s1 a) (h : s'.trace = s1.trace) :
    Tr rx s s' a := by
  obtain ⟨e1, t1, g1⟩ := h1
  exact ⟨e1, by rw [h, t1], g1⟩

theorem start {e : Ev} {k : Kind} {n : Nat} (hr : e.role = .start k n)
    (h : s'.trace = s.trace ++ [e]) : Tr rx s s' [(k, n)] := ⟨[e], h, Seg.start hr⟩

theorem atom {e : Ev} (hr : e.role = .atom) (h : s'.trace = s.trace ++ [e]) :
    Tr rx s s' [] := ⟨[e], h, Seg.atom hr⟩

theorem close {e : Ev} {k : Kind} {n : Nat} {op : List Frame} (h1 : Tr rx s s1 ((k, n) :: op))
    (hr : e.role = .stop k n) (h : s'.trace = s1.trace ++ [e]) : Tr rx s s' op := by
  obtain ⟨e1, t1, g1⟩ := h1
  exact ⟨e1 ++ [e], by rw [h, t1, List.append_assoc], g1.close hr⟩

theorem closeExec {e : Ev} {n : Nat} {rw op : List Frame}
    (h1 : Tr rx s s1 (rw ++ (Kind.execute, n) :: op)) (hrw : Allowed rx rw)
    (hr : e.role = .stop .execute n) (h : s'.trace = s1.trace ++ [e]) : Tr rx s s' op := by
  obtain ⟨e1, t1, g1⟩ := h1
  exact ⟨e1 ++ [e], by rw [h, t1, List.append_assoc], g1.closeExec hrw hr⟩

theorem bal_trans {b : List Frame} (h1 : Tr rx s s1 []) (h2 : Tr rx s1 s2 b) :
    Tr rx s s2 b := by simpa using h1.trans h2

/-- an opening event in front of a segment -/
theorem open_then {e : Ev} {k : Kind} {n : Nat} {op : List Frame} (h2 : Tr rx s1 s2 op)
    (hr : e.role = .start k n) (h : s1.trace = s.trace ++ [e]) :
    Tr rx s s2 (op ++ [(k, n)]) := (start hr h).trans h2

end Tr

/-- What a call did to the trace: completed (`ok`) ⇒ a balanced segment was appended;
aborted ⇒ a well-nested segment in which only opens remain. -/
def OutB (rx : Bool) (s : Sess) {α : Type} : Sess × Res α → Prop
  | (s', .ok _) => Tr rx s s' []
  | (s', .abort _) => ∃ op, Tr rx s s' op

/-- The same for a task body: when it returns, `Allowed` frames may remain open. -/
def OutR (rx : Bool) (s : Sess) {α : Type} : Sess × Res α → Prop
  | (s', .ok _) => ∃ op, Allowed rx op ∧ Tr rx s s' op
  | (s', .abort _) => ∃ op, Tr rx s s' op

theorem OutB.of_tr {rx : Bool} {s s' : Sess} {α : Type} {r : Res α} (h : Tr rx s s' []) :
    OutB rx s (s', r) := by
  cases r with
  | ok _ => exact h
  | abort _ => exact ⟨[], h⟩

theorem OutB.abort {rx : Bool} {s s' : Sess} {α : Type} {a : Abort} {op : List Frame}
    (h : Tr rx s s' op) : OutB rx s (s', (Res.abort a : Res α)) := ⟨op, h⟩

theorem OutB.tr_abort {rx : Bool} {s s1 s2 : Sess} {α β : Type} {a : Abort} {op : List Frame}
    (h1 : Tr rx s s1 op) (h2 : OutB rx s1 (s2, (Res.abort a : Res α))) :
    OutB rx s (s2, (Res.abort a : Res β)) := by
  obtain ⟨op2, h2⟩ := h2
  exact ⟨_, h1.trans h2⟩

theorem OutB.abort_of {rx : Bool} {s s0 s2 : Sess} {α β : Type} {a : Abort}
    (h2 : OutB rx s0 (s2, (Res.abort a : Res α))) (h0 : s0.trace = s.trace) :
    OutB rx s (s2, (Res.abort a : Res β)) := OutB.tr_abort (Tr.of_eq h0) h2

theorem OutB.bal_then {rx : Bool} {s s1 : Sess} {α : Type} {x : Sess × Res α}
    (h1 : Tr rx s s1 []) (h2 : OutB rx s1 x) : OutB rx s x := by
  obtain ⟨s2, r⟩ := x
  cases r with
  | ok _ => exact h1.bal_trans h2
  | abort _ => exact OutB.tr_abort h1 h2

theorem OutR.of_tr {rx : Bool} {s s' : Sess} {α : Type} {r : Res α} (h : Tr rx s s' []) :
    OutR rx s (s', r) := by
  cases r with
  | ok _ => exact ⟨[], Allowed.nil, h⟩
  | abort _ => exact ⟨[], h⟩

theorem OutR.tr_abort {rx : Bool} {s s1 s2 : Sess} {α β : Type} {a : Abort} {op : List Frame}
    (h1 : Tr rx s s1 op) (h2 : OutR rx s1 (s2, (Res.abort a : Res α))) :
    OutB rx s (s2, (Res.abort a : Res β)) := by
  obtain ⟨op2, h2⟩ := h2
  exact ⟨_, h1.trans h2⟩

theorem OutB.outR {rx : Bool} {s : Sess} {α : Type} {x : Sess × Res α} (h : OutB rx s x) :
    OutR rx s x := by
  obtain ⟨s', r⟩ := x
  cases r with
  | ok _ => exact ⟨[], Allowed.nil, h⟩
  | abort _ => exact h

theorem OutR.trans {rx : Bool} {s s1 : Sess} {α : Type} {x : Sess × Res α} {a : List Frame}
    (h1 : Tr rx s s1 a) (ha : Allowed rx a) (h2 : OutR rx s1 x) : OutR rx s x := by
  obtain ⟨s2, r⟩ := x
  cases r with
  | ok _ =>
    obtain ⟨op, hop, h⟩ := h2
    exact ⟨op ++ a, hop.append ha, h1.trans h⟩
  | abort _ =>
    obtain ⟨op, h⟩ := h2
    exact ⟨op ++ a, h1.trans h⟩

/-! ### session primitives -/

@[simp] theorem Sess.emit_trace (s : Sess) (e : Ev) : (s.emit e).trace = s.trace ++ [e] := rfl

@[simp] theorem Sess.setContent_trace (s : Sess) (r : Nat) (v : Option Int) :
    (s.setContent r v).trace = s.trace := by
  cases v <;> rfl

@[simp] theorem Sess.markConsistent_trace (s : Sess) (n : Nat) :
    (s.markConsistent n).trace = s.trace := by
  unfold Sess.markConsistent; split <;> rfl

theorem reserveRequire_trace (s : Sess) (dst : Nat) :
    (reserveRequire s dst).1.trace = s.trace := by
  unfold reserveRequire; repeat' split
  all_goals rfl

theorem updateRequire_trace (s : Sess) (dst t c : Nat) (st : Stamp) :
    (updateRequire s dst t c st).1.trace = s.trace := by
  unfold updateRequire; repeat' split
  all_goals rfl

theorem reserveRequire_eq {s s1 : Sess} {dst : Nat} {r : Res Unit}
    (h : reserveRequire s dst = (s1, r)) : s1.trace = s.trace := by
  have := reserveRequire_trace s dst; rwa [h] at this

theorem updateRequire_eq {s s1 : Sess} {dst t c : Nat} {st : Stamp} {r : Res Unit}
    (h : updateRequire s dst t c st = (s1, r)) : s1.trace = s.trace := by
  have := updateRequire_trace s dst t c st; rwa [h] at this

variable (sem : Sem) (body : Nat → Prog)

/-- The exact events appended by `read`/`write`/`written_to` (`st` the start event, `en` the
end event), by result.  When the checker fails to stamp (`ok (error _)`) the start stays open. -/
def RWPost {α : Type} (c : Nat) (s : Sess) (st : Ev) (en : Stamp → Ev) :
    Sess × Res (Except Int α) → Prop
  | (s', .ok (.ok _)) => s'.trace = s.trace ∨ ∃ stamp, s'.trace = s.trace ++ [st, en stamp]
  | (s', .ok (.error e)) => s'.trace = s.trace ++ [st] ∧ ∃ v, sem.rstamp c v = .error e
  | (s', .abort _) => s'.trace = s.trace ++ [st] ∨ ∃ stamp, s'.trace = s.trace ++ [st, en stamp]

theorem doRead_events (s : Sess) (r c : Nat) :
    RWPost sem c s (.readStart r c) (.readEnd r c) (doRead sem s r c) := by
  generalize hP : RWPost sem c s (.readStart r c) (.readEnd r c) = P
  unfold doRead
  dsimp only
  repeat' split
  all_goals (subst hP; simp [RWPost])
  all_goals exact ⟨_, by assumption⟩

theorem doWrite_events (s : Sess) (r c : Nat) (v : Option Int) :
    RWPost sem c s (.writeStart r c) (.writeEnd r c) (doWrite sem s r c v) := by
  generalize hP : RWPost sem c s (.writeStart r c) (.writeEnd r c) = P
  unfold doWrite
  dsimp only
  repeat' split
  all_goals (subst hP; simp [RWPost])
  all_goals exact ⟨_, by assumption⟩

theorem doWrote_events (s : Sess) (r c : Nat) (v : Option Int) :
    RWPost sem c s (.writeStart r c) (.writeEnd r c) (doWrote sem s r c v) := by
  generalize hP : RWPost sem c s (.writeStart r c) (.writeEnd r c) = P
  unfold doWrote
  dsimp only
  repeat' split
  all_goals (subst hP; simp [RWPost])
  all_goals exact ⟨_, by assumption⟩

/-- A `read`/`write` operation as a trace step.  In strict mode (`rx = false`) stamping is
assumed total, so the "start stays open" case does not occur. -/
theorem RWPost.outR {rx : Bool} (hS : rx = false → StampTotal sem) {α : Type} {c : Nat} {s : Sess}
    {st : Ev} {en : Stamp → Ev} {k : Kind} {n : Nat} (hk : k.isRW = true)
    (hst : st.role = .start k n) (hen : ∀ stamp, (en stamp).role = .stop k n)
    {x : Sess × Res (Except Int α)} (h : RWPost sem c s st en x) : OutR rx s x := by
  obtain ⟨s', res⟩ := x
  have hpair : ∀ stamp, s'.trace = s.trace ++ [st, en stamp] → Tr rx s s' [] := by
    intro stamp ht
    exact ⟨[st, en stamp], ht, (Seg.start hst).close (hen stamp)⟩
  cases res with
  | abort a =>
    rcases h with h | ⟨stamp, h⟩
    · exact ⟨_, Tr.start hst h⟩
    · exact ⟨_, hpair stamp h⟩
  | ok y =>
    cases y with
    | ok _ =>
      rcases h with h | ⟨stamp, h⟩
      · exact ⟨[], Allowed.nil, Tr.of_eq h⟩
      · exact ⟨[], Allowed.nil, hpair stamp h⟩
    | error e =>
      obtain ⟨h, v, hv⟩ := h
      cases rx with
      | false =>
        obtain ⟨stamp, hs⟩ := hS rfl c v
        rw [hs] at hv; cases hv
      | true => exact ⟨[(k, n)], Allowed.single_rw hk, Tr.start hst h⟩

/-! ### the mutual block -/

/-- The statement proved by induction on the fuel, for all five functions at once. -/
structure TdSpec (rx : Bool) (f : Nat) : Prop where
  require : ∀ s t c, OutB rx s (tdRequire sem body f s t c)
  make : ∀ s t, OutB rx s (tdMake sem body f s t)
  check : ∀ s n, OutB rx s (tdCheck sem body f s n)
  checkDeps : ∀ s ds, OutB rx s (tdCheckDeps sem body f s ds)
  run : ∀ s p, OutR rx s (tdRun sem body f s p)

namespace TdSpec
variable {sem body} {rx : Bool} {f : Nat} (ih : TdSpec sem body rx f)
include ih

theorem require' {s t c x} (h : tdRequire sem body f s t c = x) : OutB rx s x := h ▸ ih.require s t c
theorem make' {s t x} (h : tdMake sem body f s t = x) : OutB rx s x := h ▸ ih.make s t
theorem check' {s n x} (h : tdCheck sem body f s n = x) : OutB rx s x := h ▸ ih.check s n
theorem checkDeps' {s ds x} (h : tdCheckDeps sem body f s ds = x) : OutB rx s x :=
  h ▸ ih.checkDeps s ds
theorem run' {s p x} (h : tdRun sem body f s p = x) : OutR rx s x := h ▸ ih.run s p

end TdSpec

theorem tdRequire_step {rx : Bool} {f : Nat} (ih : TdSpec sem body rx f) (s : Sess) (t c : Nat) :
    OutB rx s (tdRequire sem body (f + 1) s t c) := by
  rw [tdRequire]; dsimp only
  split
  · rename_i s1 a h1
    exact OutB.abort (Tr.start rfl (by rw [reserveRequire_eq h1]; rfl))
  · rename_i s1 h1
    have hs1 : Tr rx s s1 [(Kind.require, t)] := Tr.start rfl (by rw [reserveRequire_eq h1]; rfl)
    split
    · rename_i s2 a h2
      exact OutB.tr_abort hs1 (ih.make' h2)
    · rename_i s2 out h2
      have hm : Tr rx s1 s2 [] := ih.make' h2
      have h3 : Tr rx s (s2.emit (.requireEnd t c (sem.ostamp c out) out)) [] :=
        (hs1.trans_bal hm).close rfl rfl
      split
      · rename_i s3 a h4
        exact OutB.of_tr (h3.congr_right (updateRequire_eq h4))
      · rename_i s3 h4
        exact OutB.of_tr (h3.congr_right (updateRequire_eq h4))

theorem tdMake_step {rx : Bool} {f : Nat} (ih : TdSpec sem body rx f) (s : Sess) (t : Nat) :
    OutB rx s (tdMake sem body (f + 1) s t) := by
  rw [tdMake]; dsimp only
  split
  · split <;> exact OutB.of_tr (Tr.of_eq rfl)
  · split
    · rename_i s1 a h1
      exact OutB.abort_of (ih.check' h1) rfl
    · rename_i s1 o h1
      have hc : Tr rx _ s1 [] := ih.check' h1
      exact OutB.of_tr (Tr.bal_trans (Tr.of_eq rfl) (hc.congr_right (by simp)))
    · rename_i s1 h1
      have hc : Tr rx _ s1 [] := ih.check' h1
      have hc' : Tr rx s s1 [] := Tr.bal_trans (Tr.of_eq rfl) hc
      split
      · rename_i s2 a h2
        obtain ⟨op, hop⟩ := ih.run' h2
        exact OutB.abort (hc'.bal_trans (hop.open_then (k := .execute) (n := t) rfl rfl))
      · rename_i s2 o h2
        obtain ⟨op, hal, hop⟩ := ih.run' h2
        have h3 : Tr rx s s2 (op ++ [(Kind.execute, t)]) :=
          hc'.bal_trans (hop.open_then (k := .execute) (n := t) rfl rfl)
        exact OutB.of_tr (h3.closeExec (e := .executeEnd t o) hal rfl (by simp))

theorem tdCheck_step {rx : Bool} {f : Nat} (ih : TdSpec sem body rx f) (s : Sess) (n : Nat) :
    OutB rx s (tdCheck sem body (f + 1) s n) := by
  rw [tdCheck]
  split
  · exact OutB.of_tr Tr.refl
  · split
    · rename_i s1 a h1
      exact ih.checkDeps' h1
    · rename_i s1 h1
      have hc : Tr rx s s1 [] := ih.checkDeps' h1
      exact hc
    · rename_i s1 h1
      have hc : Tr rx s s1 [] := ih.checkDeps' h1
      exact hc

theorem tdCheckDeps_step {rx : Bool} {f : Nat} (ih : TdSpec sem body rx f) (s : Sess)
    (ds : List Dep) : OutB rx s (tdCheckDeps sem body (f + 1) s ds) := by
  cases ds with
  | nil => rw [tdCheckDeps]; exact OutB.of_tr Tr.refl
  | cons d ds =>
    cases d with
    | reserved => rw [tdCheckDeps]; exact OutB.of_tr Tr.refl
    | require t c stamp =>
      rw [tdCheckDeps]; dsimp only
      split
      · rename_i s1 a h1
        exact OutB.tr_abort (Tr.start (k := .checkTask) (n := t) rfl rfl) (ih.make' h1)
      · rename_i s1 out h1
        have hm : Tr rx (s.emit (.checkTaskStart t c stamp)) s1 [] := ih.make' h1
        have h2 : Tr rx s (s1.emit (.checkTaskEnd t c stamp (sem.ocheck c out stamp))) [] :=
          (hm.open_then (k := .checkTask) (n := t) rfl rfl).close rfl rfl
        split
        · exact OutB.bal_then h2 (ih.checkDeps _ ds)
        · exact h2
    | read r c stamp =>
      rw [tdCheckDeps]
      have h2 : ∀ res, Tr rx s ((s.emit (.checkResStart r c stamp)).emit
          (.checkResEnd r c stamp res)) [] := fun res =>
        (Tr.start (k := .checkRes) (n := r) rfl rfl).close rfl rfl
      split
      · exact OutB.bal_then (h2 _) (ih.checkDeps _ ds)
      · exact h2 _
      · exact (h2 _).congr_right rfl
    | write r c stamp =>
      rw [tdCheckDeps]
      have h2 : ∀ res, Tr rx s ((s.emit (.checkResStart r c stamp)).emit
          (.checkResEnd r c stamp res)) [] := fun res =>
        (Tr.start (k := .checkRes) (n := r) rfl rfl).close rfl rfl
      split
      · exact OutB.bal_then (h2 _) (ih.checkDeps _ ds)
      · exact h2 _
      · exact (h2 _).congr_right rfl

theorem tdRun_step {rx : Bool} (hS : rx = false → StampTotal sem) {f : Nat}
    (ih : TdSpec sem body rx f) (s : Sess) (p : Prog) :
    OutR rx s (tdRun sem body (f + 1) s p) := by
  cases p with
  | ret v => rw [tdRun]; exact OutR.of_tr Tr.refl
  | panic => rw [tdRun]; exact OutR.of_tr Tr.refl
  | req t c k =>
    rw [tdRun]
    split
    · rename_i s1 a h1
      exact (ih.require' h1 : OutB rx s (s1, Res.abort a))
    · rename_i s1 out h1
      exact OutR.trans (ih.require' h1 : Tr rx s s1 []) Allowed.nil (ih.run _ _)
  | read r c k =>
    rw [tdRun]
    have hd := (doRead_events sem s r c).outR sem (rx := rx) hS (k := .read) (n := r) rfl rfl
      (fun _ => rfl)
    split
    · rename_i s1 a h1
      rw [h1] at hd; exact hd
    · rename_i s1 x h1
      rw [h1] at hd
      obtain ⟨op, hal, htr⟩ := hd
      exact OutR.trans htr hal (ih.run _ _)
  | write r c v k =>
    rw [tdRun]
    have hd := (doWrite_events sem s r c v).outR sem (rx := rx) hS (k := .write) (n := r) rfl rfl
      (fun _ => rfl)
    split
    · rename_i s1 a h1
      rw [h1] at hd; exact hd
    · rename_i s1 x h1
      rw [h1] at hd
      obtain ⟨op, hal, htr⟩ := hd
      exact OutR.trans htr hal (ih.run _ _)
  | wrote r c v k =>
    rw [tdRun]
    have hd := (doWrote_events sem s r c v).outR sem (rx := rx) hS (k := .write) (n := r) rfl rfl
      (fun _ => rfl)
    split
    · rename_i s1 a h1
      rw [h1] at hd; exact hd
    · rename_i s1 x h1
      rw [h1] at hd
      obtain ⟨op, hal, htr⟩ := hd
      exact OutR.trans htr hal (ih.run _ _)

/-- Joint induction on the fuel. -/
theorem tdSpec {rx : Bool} (hS : rx = false → StampTotal sem) (f : Nat) : TdSpec sem body rx f := by
  induction f with
  | zero =>
    refine ⟨?_, ?_, ?_, ?_, ?_⟩
    · intro s t c; rw [tdRequire]; exact OutB.of_tr Tr.refl
    · intro s t; rw [tdMake]; exact OutB.of_tr Tr.refl
    · intro s n; rw [tdCheck]; exact OutB.of_tr Tr.refl
    · intro s ds; rw [tdCheckDeps]; exact OutB.of_tr Tr.refl
    · intro s p; rw [tdRun]; exact OutR.of_tr Tr.refl
  | succ f ih =>
    exact ⟨tdRequire_step sem body ih, tdMake_step sem body ih, tdCheck_step sem body ih,
      tdCheckDeps_step sem body ih, tdRun_step sem body hS ih⟩

/-! ### `Session::require` -/

theorem sessionRequire_outB {rx : Bool} (hS : rx = false → StampTotal sem) (f : Nat) (s : Sess)
    (t : Nat) : OutB rx s (sessionRequire sem body f s t) := by
  unfold sessionRequire; dsimp only
  split
  · rename_i s1 a h1
    exact OutB.tr_abort (Tr.start (k := .build) (n := 0) rfl rfl) ((tdSpec sem body hS f).require' h1)
  · rename_i s1 o h1
    have h2 : Tr rx _ s1 [] := (tdSpec sem body hS f).require' h1
    exact (h2.open_then (k := .build) (n := 0) rfl rfl).close (e := .buildEnd) rfl rfl

theorem requireAll_outB {rx : Bool} (hS : rx = false → StampTotal sem) (f : Nat) (s : Sess)
    (ts : List Nat) : OutB rx s (requireAll sem body f s ts) := by
  induction ts generalizing s with
  | nil => exact OutB.of_tr Tr.refl
  | cons t ts ih =>
    rw [requireAll]
    have h0 := sessionRequire_outB sem body hS f s t
    split
    · rename_i s1 a h1
      rw [h1] at h0; exact h0
    · rename_i s1 o h1
      rw [h1] at h0
      have h2 := ih s1
      split
      · rename_i s2 a h3
        rw [h3] at h2; exact OutB.tr_abort h0 h2
      · rename_i s2 os h3
        rw [h3] at h2; exact Tr.bal_trans h0 h2

end PieModel
