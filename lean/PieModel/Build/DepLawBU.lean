/-
The dependency-recording law for the bottom-up body interpreter `buRun` (see `DepLaw.lean`):
the same law with `buRequire` in place of `tdRequire`.
-/
import PieModel.Build.DepLaw
import PieModel.Build.FrameExecBU

namespace PieModel
open Sess SessL

namespace C08

variable (sem : Sem) (body : Nat → Prog)

/-- The dependency operations performed by `buRun fuel s p`, in order. -/
def buOps : Nat → Sess → Prog → List Dep
  | 0, _, _ => []
  | _ + 1, _, .ret _ => []
  | _ + 1, _, .panic => []
  | f + 1, s, .req t c k =>
    match buRequire sem body f s t c with
    | (_, .abort _) => []
    | (s', .ok out) => .require t c (sem.ostamp c out) :: buOps f s' (k out)
  | f + 1, s, .read r c k =>
    match doRead sem s r c with
    | (_, .abort _) => []
    | (s', .ok x) => readOp sem s r c x ++ buOps f s' (k x)
  | f + 1, s, .write r c v k =>
    match doWrite sem s r c v with
    | (_, .abort _) => []
    | (s', .ok x) => writeOp sem s r c v x ++ buOps f s' (k x)
  | f + 1, s, .wrote r c v k =>
    match doWrote sem s r c v with
    | (_, .abort _) => []
    | (s', .ok x) => writeOp sem s r c v x ++ buOps f s' (k x)

variable {sem body}

theorem bu_require_step {node tn f : Nat} (hfr : BuFrame sem body node tn f) {s s' : Sess}
    {t c : Nat} {out : Int} (h : SessWF s) (hc : s.cur = some node)
    (htn : s.store.taskOf node = some tn) (hnr : Dep.reserved ∉ s.store.depsFrom node)
    (hr : buRequire sem body (f + 1) s t c = (s', .ok out)) (hx : KNoExec tn s s') :
    s'.store.depsFrom node =
      merge (s.store.depsFrom node) (.require t c (sem.ostamp c out)) := by
  simp only [buRequire] at hr
  split at hr
  · cases hr
  · rename_i s₁ heq
    split at hr
    · cases hr
    · rename_i s₂ out' heq₂
      split at hr
      · cases hr
      · rename_i s₃ heq₃
        have hs : s₃.markConsistent ((s.emit (.requireStart t c)).store.getOrCreateTaskNode t).2 = s' := by
          cases hr; rfl
        have ho : out' = out := by cases hr; rfl
        subst ho
        have h0 := h.emit (.requireStart t c)
        have l0 := (Lk.emit h (.requireStart t c)).trans (Lk.getTask h0 t)
        have hd := Store.taskOf_getOrCreateTaskNode_self h0.store t
        have l1 : Lk _ s₁ := Lk.of_call (reserveRequire_ext l0.wf ⟨t, hd⟩) (ext_reserveRequire _ _) heq
        have hd1 := l1.task hd
        have l2 : Lk s₁ s₂ := Lk.of_call (buMake_ext sem body f l1.wf t ⟨t, hd1⟩)
          (ext_buMake sem body f _ _ _) heq₂
        have l2' := Lk.emit l2.wf (.requireEnd t c (sem.ostamp c out') out')
        have l3 : Lk _ s₃ := Lk.of_call
          (updateRequire_ext l2'.wf c (sem.ostamp c out') ((l1.trans (l2.trans l2')).task hd))
          (ext_updateRequire _ _ _ _ _) heq₃
        have tail : TrPre s₃ s' := by rw [← hs]; exact TrPre.of_eq (by simp)
        have o2 : OutEq node s₁ s₂ := hfr.make s₁ t _ s₂ out' l1.wf ((l0.trans l1).task htn) hd1 heq₂
          (hx.mid (l0.trans l1).tr l2.tr ((l2'.trans l3).tr.trans tail))
        have hcA : ({ s.emit (.requireStart t c) with
            store := ((s.emit (.requireStart t c)).store.getOrCreateTaskNode t).1 } : Sess).cur
            = some node := hc
        rcases reserveRequire_cases hcA ((s.emit (.requireStart t c)).store.getOrCreateTaskNode t).2
          with ⟨_, hno⟩ | ⟨hok, hs1, _⟩
        · rw [heq] at hno; exact absurd rfl hno
        rw [heq] at hs1; simp only at hs1
        have c1 : s₁.cur = some node := by rw [hs1]; exact hc
        have c2 : s₂.cur = some node := (cur_buMake sem body heq₂).trans c1
        rcases updateRequire_cases (s := s₂.emit (.requireEnd t c (sem.ostamp c out') out'))
          c2 _ t c (sem.ostamp c out') with ⟨_, hno⟩ | ⟨st', hset, hs3, _⟩
        · rw [heq₃] at hno; exact absurd rfl hno
        rw [heq₃] at hs3; simp only at hs3
        rw [← hs, markConsistent_store, hs3]
        show st'.depsFrom node = _
        have hdeps : ((s.emit (.requireStart t c)).store.getOrCreateTaskNode t).1.depsFrom node
            = s.store.depsFrom node := Store.depsFrom_getOrCreateTaskNode h0.store t node
        rw [← hdeps]
        refine reserve_update_merge (st₂ := s₂.store) (h0.store.getOrCreateTaskNode t)
          hd (by rw [hdeps]; exact hnr) hok ?_ hset
        have := o2
        unfold OutEq at this
        rw [this, hs1]

/-- **The dependency-recording law** for the bottom-up body interpreter. -/
theorem buRun_law {node tn : Nat} (f : Nat) : ∀ (s : Sess) (p : Prog) (s' : Sess) (o : Int),
    SessWF s → s.cur = some node → s.store.taskOf node = some tn →
    Dep.reserved ∉ s.store.depsFrom node → buRun sem body f s p = (s', .ok o) →
    KNoExec tn s s' →
    s'.store.depsFrom node = mergeAll (s.store.depsFrom node) (buOps sem body f s p) := by
  induction f with
  | zero => intro s p s' o _ _ _ _ hr; simp only [buRun] at hr; cases hr
  | succ f ih =>
    intro s p s' o h hc htn hnr hr hframe
    cases p with
    | ret v => simp only [buRun] at hr; cases hr; simp [buOps]
    | panic => simp only [buRun] at hr; cases hr
    | req t c k =>
      simp only [buRun] at hr
      split at hr
      · cases hr
      · rename_i s₁ out heq
        have l1 : Lk s s₁ := Lk.of_call (buRequire_ext sem body f h t c) (ext_buRequire sem body f _ _ _) heq
        have l2 : Lk s₁ s' := Lk.of_call (buRun_ext sem body f l1.wf _) (ext_buRun sem body f _ _) hr
        have c1 : s₁.cur = some node := (cur_buRequire sem body heq).trans hc
        have hops : buOps sem body (f + 1) s (.req t c k) =
            .require t c (sem.ostamp c out) :: buOps sem body f s₁ (k out) := by
          simp only [buOps, heq]
        cases f with
        | zero => simp only [buRequire] at heq; cases heq
        | succ f' =>
          have hstep := bu_require_step (buFrame node tn f') h hc htn hnr heq
            (hframe.mid (TrPre.refl _) l1.tr l2.tr)
          rw [hops, mergeAll_cons, ← hstep]
          exact ih s₁ _ s' o l1.wf c1 (l1.task htn)
            (by rw [hstep]; exact merge_noReserved hnr (by simp)) hr
            (hframe.mid l1.tr l2.tr (TrPre.refl _))
    | read r c k =>
      simp only [buRun] at hr
      split at hr
      · cases hr
      · rename_i s₁ x heq
        have l1 : Lk s s₁ := Lk.of_call (doRead_ext sem h r c) (ext_doRead sem _ _ _) heq
        have l2 : Lk s₁ s' := Lk.of_call (buRun_ext sem body f l1.wf _) (ext_buRun sem body f _ _) hr
        have c1 : s₁.cur = some node := (cur_of_fst (cur_doRead sem _ _ _) heq).trans hc
        have hops : buOps sem body (f + 1) s (.read r c k) =
            readOp sem s r c x ++ buOps sem body f s₁ (k x) := by simp only [buOps, heq]
        have hstep := read_step h hc heq
        rw [hops, mergeAll_append, ← hstep]
        exact ih s₁ _ s' o l1.wf c1 (l1.task htn)
          (by rw [hstep]; exact mergeAll_noReserved hnr (reserved_not_mem_readOp sem s r c x)) hr
          (hframe.mid l1.tr l2.tr (TrPre.refl _))
    | write r c v k =>
      simp only [buRun] at hr
      split at hr
      · cases hr
      · rename_i s₁ x heq
        have l1 : Lk s s₁ := Lk.of_call (doWrite_ext sem h r c v) (ext_doWrite sem _ _ _ _) heq
        have l2 : Lk s₁ s' := Lk.of_call (buRun_ext sem body f l1.wf _) (ext_buRun sem body f _ _) hr
        have c1 : s₁.cur = some node := (cur_of_fst (cur_doWrite sem _ _ _ _) heq).trans hc
        have hops : buOps sem body (f + 1) s (.write r c v k) =
            writeOp sem s r c v x ++ buOps sem body f s₁ (k x) := by simp only [buOps, heq]
        have hstep := write_step h hc heq
        rw [hops, mergeAll_append, ← hstep]
        exact ih s₁ _ s' o l1.wf c1 (l1.task htn)
          (by rw [hstep]; exact mergeAll_noReserved hnr (reserved_not_mem_writeOp sem s r c v x)) hr
          (hframe.mid l1.tr l2.tr (TrPre.refl _))
    | wrote r c v k =>
      simp only [buRun] at hr
      split at hr
      · cases hr
      · rename_i s₁ x heq
        have l1 : Lk s s₁ := Lk.of_call (doWrote_ext sem h r c v) (ext_doWrote sem _ _ _ _) heq
        have l2 : Lk s₁ s' := Lk.of_call (buRun_ext sem body f l1.wf _) (ext_buRun sem body f _ _) hr
        have c1 : s₁.cur = some node := (cur_of_fst (cur_doWrote sem _ _ _ _) heq).trans hc
        have hops : buOps sem body (f + 1) s (.wrote r c v k) =
            writeOp sem s r c v x ++ buOps sem body f s₁ (k x) := by simp only [buOps, heq]
        have hstep := wrote_step h hc heq
        rw [hops, mergeAll_append, ← hstep]
        exact ih s₁ _ s' o l1.wf c1 (l1.task htn)
          (by rw [hstep]; exact mergeAll_noReserved hnr (reserved_not_mem_writeOp sem s r c v x)) hr
          (hframe.mid l1.tr l2.tr (TrPre.refl _))

theorem reserved_not_mem_buOps (f : Nat) : ∀ (s : Sess) (p : Prog),
    Dep.reserved ∉ buOps sem body f s p := by
  induction f with
  | zero => intro s p; simp [buOps]
  | succ f ih =>
    intro s p
    cases p with
    | ret v => simp [buOps]
    | panic => simp [buOps]
    | req t c k =>
      simp only [buOps]; split
      · simp
      · simp [ih]
    | read r c k =>
      simp only [buOps]; split
      · simp
      · simp [ih, reserved_not_mem_readOp]
    | write r c v k =>
      simp only [buOps]; split
      · simp
      · simp [ih, reserved_not_mem_writeOp]
    | wrote r c v k =>
      simp only [buOps]; split
      · simp
      · simp [ih, reserved_not_mem_writeOp]

end C08
end PieModel
