/-
The executing-stack invariant of the top-down build: definitions.

During a top-down build the Rust call stack is not part of the model state (only `s.cur`, the
innermost executing task, is).  It is made explicit in the *statements*: the logical call stack
is a list `ch` of task nodes, outermost first, with one entry

* for every task that is **executing** (`tdMake` reset it, made it `cur` and runs its body;
  it has no output), and
* for every task that is being **validated** (`tdCheck` found an output and `tdCheckDeps` walks
  the snapshot of its dependencies; it keeps its output).

`Frames s ch` is the invariant that is inductive over the five mutually recursive top-down
functions; `StackOK s stk` is its projection to the executing tasks
(`stk = s.store.execStack ch`), see `Frames.stackOK`.
-/
import PieModel.Build.SessWFTopDown

namespace PieModel

/-! ### counting executions in a trace -/

def Ev.isExecStart (t : Nat) : Ev → Bool
  | .executeStart t' => t' == t
  | _ => false

/-- Number of `execute_start t` events in a tracker stream. -/
def countExec (t : Nat) (evs : List Ev) : Nat := evs.countP (Ev.isExecStart t)

@[simp] theorem countExec_nil (t : Nat) : countExec t [] = 0 := rfl

theorem countExec_append (t : Nat) (a b : List Ev) :
    countExec t (a ++ b) = countExec t a + countExec t b := by simp [countExec, List.countP_append]

theorem countExec_emit (t : Nat) (s : Sess) (e : Ev) :
    countExec t (s.emit e).trace = countExec t s.trace + if e.isExecStart t then 1 else 0 := by
  simp [Sess.emit, countExec, List.countP_append, List.countP_cons]

theorem countExec_emit_of_not (t : Nat) (s : Sess) (e : Ev) (h : e.isExecStart t = false) :
    countExec t (s.emit e).trace = countExec t s.trace := by rw [countExec_emit, h]; rfl

theorem countExec_le_of_prefix (t : Nat) {a b : List Ev} (h : a <+: b) :
    countExec t a ≤ countExec t b := by
  obtain ⟨c, rfl⟩ := h; rw [countExec_append]; exact Nat.le_add_right _ _

namespace Store

/-- (iv), store part: a task with an output has no `reserved` dependency. -/
def NoReservedDone (st : Store) : Prop :=
  ∀ n, st.taskOutput n ≠ none → Dep.reserved ∉ st.depsFrom n

/-- The executing frames of a logical call stack: those without output. -/
def execStack (st : Store) (ch : List Nat) : List Nat :=
  ch.filter fun n => (st.taskOutput n).isNone

theorem mem_execStack {st : Store} {ch : List Nat} {n : Nat} :
    n ∈ st.execStack ch ↔ n ∈ ch ∧ st.taskOutput n = none := by
  simp [execStack, List.mem_filter]

theorem execStack_congr {st st' : Store} {ch : List Nat}
    (h : ∀ n ∈ ch, st'.taskOutput n = st.taskOutput n) : st'.execStack ch = st.execStack ch :=
  List.filter_congr fun n hn => by rw [h n hn]

theorem execStack_append (st : Store) (a b : List Nat) :
    st.execStack (a ++ b) = st.execStack a ++ st.execStack b := List.filter_append _ _

theorem execStack_sublist (st : Store) (ch : List Nat) : (st.execStack ch).Sublist ch :=
  List.filter_sublist

theorem execStack_single_none {st : Store} {n : Nat} (h : st.taskOutput n = none) :
    st.execStack [n] = [n] := by simp [execStack, h]

theorem execStack_single_some {st : Store} {n : Nat} (h : st.taskOutput n ≠ none) :
    st.execStack [n] = [] := by
  cases ho : st.taskOutput n with
  | none => exact absurd ho h
  | some o => simp [execStack, ho]

theorem NoReservedDone.empty : ({} : Store).NoReservedDone := by
  intro n h; exact absurd (taskOutput_of_not_live (by rfl)) h

/-- Transfer: same outputs, same dependencies of the tasks with output. -/
theorem NoReservedDone.transfer {st st' : Store} (h : st.NoReservedDone)
    (ho : ∀ n, st'.taskOutput n = st.taskOutput n)
    (hd : ∀ n, st.taskOutput n ≠ none → st'.depsFrom n = st.depsFrom n) : st'.NoReservedDone := by
  intro n hn
  rw [ho] at hn
  rw [hd n hn]; exact h n hn

end Store

/-! ### the invariants -/

/-- What holds in every state of a top-down build, also at an abort point: tasks with an output
have no `reserved` dependency, and consistent tasks have an output. -/
structure Done (s : Sess) : Prop where
  nrd : s.store.NoReservedDone
  cons : ∀ n ∈ s.consistent, s.store.taskOutput n ≠ none

/-- The inductive invariant: `ch` is the logical call stack (executing and validating frames,
outermost first). -/
structure Frames (s : Sess) (ch : List Nat) : Prop where
  wf : SessWF s
  /-- frames are task nodes -/
  task : ∀ n ∈ ch, ∃ t, s.store.taskOf n = some t
  /-- no frame is marked consistent -/
  fresh : ∀ n ∈ ch, n ∉ s.consistent
  /-- every frame reaches every later frame through recorded/reserved dependencies -/
  path : ch.Pairwise s.store.g.Reach
  /-- the current task is the innermost executing frame -/
  cur : s.cur = (s.store.execStack ch).getLast?
  nrd : s.store.NoReservedDone
  cons : ∀ n ∈ s.consistent, s.store.taskOutput n ≠ none

/-- The projection of `Frames` to the executing tasks (the Rust call stack of `execute` calls). -/
structure StackOK (s : Sess) (stk : List Nat) : Prop where
  /-- (i) the innermost frame is `cur`; `cur = none` iff the stack is empty -/
  cur : s.cur = stk.getLast?
  /-- (ii) the frames are pairwise distinct task nodes without output, none marked consistent -/
  task : ∀ n ∈ stk, ∃ t, s.store.taskOf n = some t
  noOutput : ∀ n ∈ stk, s.store.taskOutput n = none
  nodup : stk.Nodup
  fresh : ∀ n ∈ stk, n ∉ s.consistent
  /-- (iii) every frame reaches every later frame, in particular the next one -/
  path : stk.Pairwise s.store.g.Reach
  /-- (iv) -/
  nrd : s.store.NoReservedDone
  cons : ∀ n ∈ s.consistent, s.store.taskOutput n ≠ none

/-- The trace part of the invariant (for sessions that start with an empty trace): every task
was executed at most once; the executed ones are consistent or still executing; the executing
ones have their `execute_start` in the trace. -/
structure Trc (s : Sess) (ch : List Nat) : Prop where
  once : ∀ t, countExec t s.trace ≤ 1
  exd : ∀ t, 1 ≤ countExec t s.trace →
    ∃ n, s.store.taskOf n = some t ∧ (n ∈ s.consistent ∨ n ∈ s.store.execStack ch)
  onstk : ∀ n ∈ s.store.execStack ch, ∃ t, s.store.taskOf n = some t ∧ 1 ≤ countExec t s.trace

/-- Frame condition: the outgoing edges and outputs of the nodes in `K` are untouched. -/
def Keeps (K : List Nat) (s s' : Sess) : Prop :=
  ∀ n ∈ K, s'.store.g.outgoingEdges n = s.store.g.outgoingEdges n ∧
    s'.store.taskOutput n = s.store.taskOutput n

namespace Keeps
variable {K : List Nat} {s s' s'' : Sess}

theorem refl (K : List Nat) (s : Sess) : Keeps K s s := fun _ _ => ⟨rfl, rfl⟩

theorem trans (h₁ : Keeps K s s') (h₂ : Keeps K s' s'') : Keeps K s s'' := fun n hn =>
  ⟨(h₂ n hn).1.trans (h₁ n hn).1, (h₂ n hn).2.trans (h₁ n hn).2⟩

theorem mono {K' : List Nat} (h : Keeps K s s') (hk : ∀ n ∈ K', n ∈ K) : Keeps K' s s' :=
  fun n hn => h n (hk n hn)

theorem of_store (h : s'.store = s.store) : Keeps K s s' := fun _ _ => by rw [h]; exact ⟨rfl, rfl⟩

theorem congr_right (h : Keeps K s s') (h' : s''.store = s'.store) : Keeps K s s'' :=
  h.trans (of_store h')

theorem execStack (h : Keeps K s s') : s'.store.execStack K = s.store.execStack K :=
  Store.execStack_congr fun n hn => (h n hn).2

theorem depsFrom (h : Keeps K s s') {n : Nat} (hn : n ∈ K) :
    s'.store.depsFrom n = s.store.depsFrom n :=
  (Store.outgoing_obs_congr (h n hn).1).1

end Keeps

theorem Done.of_eq {s s' : Sess} (h : Done s) (h1 : s'.store = s.store)
    (h2 : s'.consistent = s.consistent) : Done s' :=
  ⟨h1 ▸ h.nrd, by rw [h1, h2]; exact h.cons⟩

namespace Frames
variable {s s' : Sess} {ch : List Nat}

theorem done (h : Frames s ch) : Done s := ⟨h.nrd, h.cons⟩

/-- Only `store`, `cur`, `consistent`, `queue` matter. -/
theorem of_eq (h : Frames s ch) (h1 : s'.store = s.store) (h2 : s'.cur = s.cur)
    (h3 : s'.consistent = s.consistent) (h4 : s'.queue = s.queue) : Frames s' ch :=
  ⟨(h.wf.same h1 h2 h4).wf, by rw [h1]; exact h.task, by rw [h3]; exact h.fresh,
    by rw [h1]; exact h.path, by rw [h1, h2]; exact h.cur, by rw [h1]; exact h.nrd,
    by rw [h1, h3]; exact h.cons⟩

theorem emit (h : Frames s ch) (e : Ev) : Frames (s.emit e) ch := h.of_eq rfl rfl rfl rfl

/-- The current task is a frame without output. -/
theorem cur_mem (h : Frames s ch) {a : Nat} (hc : s.cur = some a) :
    a ∈ ch ∧ s.store.taskOutput a = none := by
  have := h.cur
  rw [hc] at this
  obtain ⟨ys, hy⟩ := List.getLast?_eq_some_iff.mp this.symm
  have : a ∈ s.store.execStack ch := by rw [hy]; simp
  exact Store.mem_execStack.mp this

/-- Frames are pairwise distinct (the graph is acyclic). -/
theorem nodup (h : Frames s ch) : ch.Nodup := by
  unfold List.Nodup
  refine h.path.imp ?_
  intro a b hr hab
  subst hab
  exact h.wf.store.inv.acyclic a hr

/-- A node reachable from every frame is not a frame. -/
theorem not_mem_of_reach (h : Frames s ch) {n : Nat} (hr : ∀ x ∈ ch, s.store.g.Reach x n) :
    n ∉ ch := fun hn => h.wf.store.inv.acyclic n (hr n hn)

/-- Dropping inner frames. -/
theorem pop_validating (h : Frames s (ch ++ [n])) (ho : s.store.taskOutput n ≠ none) :
    Frames s ch := by
  refine ⟨h.wf, fun x hx => h.task x (by simp [hx]), fun x hx => h.fresh x (by simp [hx]),
    (List.pairwise_append.mp h.path).1, ?_, h.nrd, h.cons⟩
  have := h.cur
  rwa [Store.execStack_append, Store.execStack_single_some ho, List.append_nil] at this

/-- Pushing a validating frame: a task node with output, not consistent, reachable from all
frames. -/
theorem push_validating (h : Frames s ch) {n t : Nat} (ht : s.store.taskOf n = some t)
    (ho : s.store.taskOutput n ≠ none) (hf : n ∉ s.consistent)
    (hr : ∀ x ∈ ch, s.store.g.Reach x n) : Frames s (ch ++ [n]) := by
  refine ⟨h.wf, ?_, ?_, ?_, ?_, h.nrd, h.cons⟩
  · intro x hx
    rcases List.mem_append.mp hx with hx | hx
    · exact h.task x hx
    · simp at hx; subst hx; exact ⟨t, ht⟩
  · intro x hx
    rcases List.mem_append.mp hx with hx | hx
    · exact h.fresh x hx
    · simp at hx; subst hx; exact hf
  · refine List.pairwise_append.mpr ⟨h.path, by simp, ?_⟩
    intro a ha b hb; simp at hb; subst hb; exact hr a ha
  · rw [Store.execStack_append, Store.execStack_single_some ho, List.append_nil]; exact h.cur

/-- The executing frames form a stack in the sense of `StackOK`. -/
theorem stackOK (h : Frames s ch) : StackOK s (s.store.execStack ch) := by
  have hsub := Store.execStack_sublist s.store ch
  refine ⟨h.cur, fun n hn => h.task n (hsub.subset hn),
    fun n hn => (Store.mem_execStack.mp hn).2, h.nodup.sublist hsub,
    fun n hn => h.fresh n (hsub.subset hn), h.path.sublist hsub, h.nrd, h.cons⟩

end Frames

theorem Trc.of_eq {s s' : Sess} {ch : List Nat} (h : Trc s ch) (h1 : s'.store = s.store)
    (h2 : s'.consistent = s.consistent) (h3 : ∀ t, countExec t s'.trace = countExec t s.trace) :
    Trc s' ch := by
  refine ⟨fun t => by rw [h3]; exact h.once t, ?_, ?_⟩
  · intro t ht; rw [h3] at ht; rw [h1, h2]; exact h.exd t ht
  · intro n hn; rw [h1] at hn ⊢
    obtain ⟨t, ht, hc⟩ := h.onstk n hn
    exact ⟨t, ht, by rw [h3]; exact hc⟩

theorem Trc.emit {s : Sess} {ch : List Nat} (h : Trc s ch) (e : Ev)
    (he : ∀ t, e.isExecStart t = false) : Trc (s.emit e) ch :=
  h.of_eq rfl rfl fun t => countExec_emit_of_not t s e (he t)

/-- Dropping / adding a validating frame does not change the executing stack. -/
theorem Trc.pop_validating {s : Sess} {ch : List Nat} {n : Nat} (h : Trc s (ch ++ [n]))
    (ho : s.store.taskOutput n ≠ none) : Trc s ch := by
  have he : s.store.execStack (ch ++ [n]) = s.store.execStack ch := by
    rw [Store.execStack_append, Store.execStack_single_some ho, List.append_nil]
  exact ⟨h.once, by rw [← he]; exact h.exd, by rw [← he]; exact h.onstk⟩

theorem Trc.push_validating {s : Sess} {ch : List Nat} {n : Nat} (h : Trc s ch)
    (ho : s.store.taskOutput n ≠ none) : Trc s (ch ++ [n]) := by
  have he : s.store.execStack (ch ++ [n]) = s.store.execStack ch := by
    rw [Store.execStack_append, Store.execStack_single_some ho, List.append_nil]
  exact ⟨h.once, by rw [he]; exact h.exd, by rw [he]; exact h.onstk⟩

end PieModel
