/-
`Store.NoReservedDone` (and `SessOK` if the build returns) for the bottom-up entry points:
`buExecuteScheduled`, `updateAffectedTasks`, `bottomUpBuild`.
-/
import PieModel.Build.Stack.BottomUp

namespace PieModel

variable (sem : Sem) (body : Nat → Prog)

/-- The bottom-up invariant for the empty stack is `SessOK` with `cur = none`. -/
theorem BFrames.nil_iff {s : Sess} : BFrames s [] ↔ SessOK s ∧ s.cur = none := by
  constructor
  · intro h
    refine ⟨⟨h.wf, h.nrd, fun n hn => ?_⟩, h.cur_eq⟩
    rcases h.consX n hn with h' | h'
    · cases h'
    · exact h'
  · rintro ⟨h, hc⟩
    refine ⟨Frames.nil_iff.mpr ⟨⟨sessWF_noCons.mpr h.wf, h.done.nrd, fun _ hn => (nomatch hn)⟩, hc⟩,
      fun _ hn => (nomatch hn), fun n hn => .inr (h.done.cons n hn)⟩

theorem buExecuteScheduled_stack (f : Nat) : ∀ (s : Sess), BFrames s [] →
    PostB (fun s' _ => BFrames s' []) (buExecuteScheduled sem body f s) := by
  induction f with
  | zero => intro s h; unfold buExecuteScheduled; exact h.nrd
  | succ f ih =>
    intro s h
    unfold buExecuteScheduled
    split
    · exact h
    next n q hq =>
      have hwq := (h.wf.subQueue (fun _ hm => queuePop_rest_subset hq hm)).wf
      have fq : BFrames { s with queue := q } [] := h.of_same hwq rfl rfl rfl
      have key := (buStack sem body f).execAndSchedule _ [] n fq (fun _ hx => nomatch hx)
      split
      next s2 a heq => exact key.abort heq
      next s2 o heq => exact ih s2 (key.ok heq).1

theorem updateAffectedTasks_stack (f : Nat) (s : Sess) (h : SessOK s) :
    PostB (fun s' _ => SessOK s') (updateAffectedTasks sem body f s) := by
  unfold updateAffectedTasks; simp only []
  have f0 : BFrames (({ s with cur := none } : Sess).emit .buildStart) [] :=
    (BFrames.nil_iff.mpr ⟨⟨h.wf.clearCur.wf, h.done.nrd, h.done.cons⟩, rfl⟩).emit _
  have key := buExecuteScheduled_stack sem body f _ f0
  split
  next s2 a heq => exact key.abort heq
  next s2 heq => exact (BFrames.nil_iff.mp ((key.ok heq).emit .buildEnd)).1

theorem scheduleAffectedBy_sessOK {s : Sess} (h : SessOK s) (r : Nat) :
    SessOK (scheduleAffectedBy sem s r) := by
  obtain ⟨h1, _, h3⟩ := scheduleAffectedBy_core sem s r
  refine ⟨(scheduleAffectedBy_ext sem h.wf r).wf, ?_, ?_⟩
  · rw [h1]; exact h.done.nrd.getOrCreateResNode h.wf.store r
  · intro n hn
    rw [h3] at hn
    rw [h1, Store.taskOutput_getOrCreateResNode h.wf.store]
    exact h.done.cons n hn

theorem bottomUpBuild_stack (f : Nat) (s : Sess) (h : SessOK s) (changed : List Nat) :
    PostB (fun s' _ => SessOK s') (bottomUpBuild sem body f s changed) := by
  unfold bottomUpBuild; simp only []
  have h0 : SessOK { s with queue := [] } :=
    ⟨(h.wf.subQueue (fun _ hm => by cases hm)).wf, h.done.nrd, h.done.cons⟩
  have h1 : ∀ (l : List Nat) (s : Sess), SessOK s →
      SessOK (l.foldl (fun s r => scheduleAffectedBy sem s r) s) := by
    intro l
    induction l with
    | nil => intro s hs; exact hs
    | cons r l ih => intro s hs; exact ih _ (scheduleAffectedBy_sessOK sem hs r)
  exact updateAffectedTasks_stack sem body f _ (h1 changed _ h0)

/-- `WF ∧ NoReservedDone` after a bottom-up build, whatever the result. -/
theorem bottomUpBuild_noReservedDone (f : Nat) {s : Sess} (h : SessOK s) (changed : List Nat) :
    (bottomUpBuild sem body f s changed).1.store.WF ∧
      (bottomUpBuild sem body f s changed).1.store.NoReservedDone :=
  ⟨(bottomUpBuild_ext sem body f h.wf changed).wf.store,
    (bottomUpBuild_stack sem body f s h changed).nrd fun _ _ hp => hp.done.nrd⟩

end PieModel
